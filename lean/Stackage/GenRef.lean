import Stackage.Basic

/-!
# What each regenerated Boolean guard is expected to MEAN, and a sample of environments

The extractor finds a guard in the Go source by where it stands (`extract/translate.go`, `condSites`); whether the source
writes the test or its negation there (`if left <= 1 { front } else { middle }` or `if left > 1 { middle } else { front }`,
a guard clause for a positive test, ...) is a matter of style. `Gen.<site>` is therefore the extracted expression
`Gen.<site>_raw` *or its negation*, whichever agrees with the expected meaning below on every environment of `samples`.
This only settles the polarity; that `Gen.<site>` equals the meaning for EVERY environment is what the `GenSem` lemma of
the site proves - if the extracted expression is neither the test nor its negation, that proof fails.
-/

namespace GenRef

def mkEnv (k : Nat) : Env :=
  let z (a b : Nat) : Int := (((k * a + b) % 10 : Nat) : Int) - 3
  let q (a b : Nat) : Bool := (k * a + b) % 3 == 0
  { ulen := z 7 1, cap := z 3 2, len := z 5 3, dulen := z 11 4, dcap := z 13 5, dlen := z 17 6, i := z 19 7, j := z 23 8,
    left := z 29 9, u1 := z 31 1, L := z 7 1, l := z 37 2, before := z 41 3, start := z 43 4, max := z 47 5, ct := z 53 6,
    last := z 59 7, idx := z 61 8, index := z 67 9, preserved := z 71 1, len_data := z 73 2, len_tpat := z 79 3, len_spat := z 83 4,
    negidx := q 2 0, fwdidx := q 5 1, nnest := q 7 2, ronly := q 11 0, fifo := q 13 1, ok := q 17 2, init := q 19 0, found := q 23 1,
    fail := q 29 2, slice_nonnil := q 31 0, r_nonnil := q 37 1, err_nonnil := q 41 2, x_nonnil := q 43 0,
    assert := (k * 5 + 1) % 9, opt := (k * 37) % 512 }

def samples : List Env := (List.range 48).map mkEnv

/-- does the extracted expression agree with the expected meaning on every sample? -/
def agrees (ref raw : Env → Bool) : Bool := samples.all (fun e => raw e == ref e)

/-- the extracted expression, negated if that is what agrees with the expected meaning -/
def polarised (same : Bool) (raw : Env → Bool) (env : Env) : Bool := if same then raw env else !(raw env)

def index_nonempty (env : Env) : Bool := decide (0 < env.L)
def index_isneg (env : Env) : Bool := decide (env.i < 0)
def index_negok (env : Env) : Bool := env.negidx && decide (-env.L ≤ env.i)
def index_isover (env : Env) : Bool := decide (env.L ≤ env.i)
def index_fwdok (env : Env) : Bool := env.fwdidx
def swap_reject (env : Env) : Bool := !((decide (0 ≤ env.i) && decide (env.i < env.ulen)) && (decide (0 ≤ env.j) && decide (env.j < env.ulen)))
def replace_ok (env : Env) : Bool := decide (0 ≤ env.i) && decide (env.i < env.ulen)
def insert_full (env : Env) : Bool := decide (env.cap ≠ 0) && decide (env.cap ≤ env.u1 + 1)
def insert_append (env : Env) : Bool := decide (env.u1 ≤ env.left)
def insert_front (env : Env) : Bool := decide (env.left ≤ 1)
def insert_ok_append (env : Env) : Bool := decide (env.ulen = env.u1 + 1)
def remove_ok (env : Env) : Bool := env.slice_nonnil && decide (env.ulen = env.u1 - 1)
def transfer_hascap (env : Env) : Bool := decide (0 < env.dcap)
def transfer_nofit (env : Env) : Bool := decide (env.dcap - env.dlen < env.ulen)
def transfer_ok (env : Env) : Bool := decide (env.dulen = env.before + env.ulen)
def defrag_go (env : Env) : Bool := decide (env.start ≠ -1) && decide (env.start < env.max)
def defrag_trunc (env : Env) : Bool := !env.err_nonnil && decide (0 ≤ env.last)
def implode_stop (env : Env) : Bool := decide (env.max ≤ env.ct) || decide (env.ulen ≤ env.start + env.ct)
def cond_op_bogus (env : Env) : Bool := !(decide (1 ≤ env.assert) && decide (env.assert ≤ 6))

end GenRef
