import Stackage.Model.Cond

/-!
# Unmarshal / Marshal (C04, C16)

Follows `stack.unmarshalDefault`, `condition.unmarshalDefault`, `marshalDefault`,
`deenvelopeSingleStack`, `stackByWord`, `extractConditionValues`, `Stack.Marshal`.
Go errors are classes: 1011 = empty input, 1012 = no label, 1013 = malformed condition,
1014 = condition only (needs a Stack envelope), 1015 = empty marshaler input.
-/

namespace Stackage

def strV (t : Text) : Val := .leaf (.str t)
def conditionLabel : Text := "CONDITION".toList

/-! ## Unmarshal -/

mutual
/-- one `[]any` entry per element -/
def unmarshalElem : Val → Val
  | .stk _ c xs => .anys (strV c.kindText :: unmarshalElems xs)
  | .cnd _ _ kw op ex => .anys [strV conditionLabel, strV kw, .opv op, unmarshalExpr ex]
  | v => v

def unmarshalElems : List Val → List Val
  | [] => []
  | x :: rest => unmarshalElem x :: unmarshalElems rest

/-- a Condition's expression: a Stack (any form) is expanded, a Condition (any form) is expanded to its
four-entry row - recursively, to any depth (repair F43) -, everything else is passed through -/
def unmarshalExpr : Val → Val
  | .stk _ c xs => .anys (strV c.kindText :: unmarshalElems xs)
  | .cnd _ _ kw op ex => .anys [strV conditionLabel, strV kw, .opv op, unmarshalExpr ex]
  | v => v
end

/-- `Stack.Unmarshal()` on an initialised stack without a custom unmarshaler: label, then the entries -/
def Stk.unmarshal (s : Stk) : List Val := strV s.cfg.kindText :: unmarshalElems s.xs

/-! ## Unmarshal with Unmarshaler closures on nested nodes

`stack.unmarshalDefault` walks a nested Stack (any form) with the *private* `unmarshalDefault` again, so the
nested Stack's own Unmarshaler is not consulted; a nested Condition (any form) goes through the *public*
`Condition.Unmarshal`, which honours its Unmarshaler; `condition.unmarshalDefault` expands a Stack expression
(any form) through the *public* `Stack.Unmarshal`, which honours the Unmarshaler of that Stack, and a Condition
expression (any form) through the *public* `Condition.Unmarshal`, which honours the Unmarshaler of that Condition
(repair F43; the rule applies again to the inner Condition's own expression, to any depth). The loop of
`stack.unmarshalDefault` runs while `err == nil`; an entry is appended only if its own call returned no error, so an
error ends the list before the entry that raised it. `condition.unmarshalDefault` returns its four-entry row together
with the error of the expression's call. -/

mutual
/-- what one element contributes to the parent's loop: the entry (`subSlices` boxed, or the value itself) and the error -/
def unmarshalElemK (K : Closures) : Val → Val × Option Nat
  | .stk _ c xs =>
    let r := unmarshalElemsK K xs                  -- `sub.unmarshalDefault()`: `c.umf` is not looked at
    (.anys (strV c.kindText :: r.1), r.2)
  | .cnd _ c kw op ex =>
    match c.umf with                               -- `cub.Unmarshal()`
    | some p => (.anys (K.unmarshal p).1, (K.unmarshal p).2)
    | none =>
      let r := unmarshalExprK K ex
      (.anys [strV conditionLabel, strV kw, .opv op, r.1], r.2)
  | v => (v, none)

/-- the loop of `stack.unmarshalDefault` after the label: the entries collected and the error that stopped it -/
def unmarshalElemsK (K : Closures) : List Val → List Val × Option Nat
  | [] => ([], none)
  | x :: rest =>
    let r := unmarshalElemK K x
    match r.2 with
    | some e => ([], some e)                       -- not appended; `err != nil` ends the loop
    | none =>
      let rs := unmarshalElemsK K rest
      (r.1 :: rs.1, rs.2)

/-- `nexpr, err` of `condition.unmarshalDefault`: a Stack (any form) through the public `Stack.Unmarshal()`, a
Condition (any form) through the public `Condition.Unmarshal()` (its own Unmarshaler, else its four-entry row with the
error of *its* expression's call) -/
def unmarshalExprK (K : Closures) : Val → Val × Option Nat
  | .stk _ c xs =>
    match c.umf with
    | some p => (.anys (K.unmarshal p).1, (K.unmarshal p).2)
    | none =>
      let r := unmarshalElemsK K xs
      (.anys (strV c.kindText :: r.1), r.2)
  | .cnd _ c kw op ex =>
    match c.umf with
    | some p => (.anys (K.unmarshal p).1, (K.unmarshal p).2)
    | none =>
      let r := unmarshalExprK K ex
      (.anys [strV conditionLabel, strV kw, .opv op, r.1], r.2)
  | v => (v, none)
end

mutual
/-- no node of the tree carries an Unmarshaler -/
def noUmf : Val → Bool
  | .stk _ c xs => c.umf.isNone && noUmfList xs
  | .cnd _ c _ _ ex => c.umf.isNone && noUmf ex
  | .anys xs => noUmfList xs
  | _ => true
def noUmfList : List Val → Bool
  | [] => true
  | x :: rest => noUmf x && noUmfList rest
end

/-! ## Marshal -/

/-- Go `strings.ToUpper(lab) == word` for the six ASCII label words (ı and ſ upper-case to I and S) -/
def goUpper (c : Char) : Char :=
  if c.toNat == 0x131 then 'I' else if c.toNat == 0x17F then 'S' else c.toUpper

inductive LabelClass where
  | cond
  | kind (k : Nat)
  | other

def classify (lab : Text) : LabelClass :=
  let u := lab.map goUpper
  if u == conditionLabel then .cond
  else if u == Gen.kindWord Gen.kind_list then .kind Gen.kind_list
  else if u == Gen.kindWord Gen.kind_and then .kind Gen.kind_and
  else if u == Gen.kindWord Gen.kind_or then .kind Gen.kind_or
  else if u == Gen.kindWord Gen.kind_not then .kind Gen.kind_not
  else if u == Gen.kindWord Gen.kind_basic then .kind Gen.kind_basic
  else .other

structure MRes where
  stk : Option Val := none     -- an initialised native Stack value
  cnd : Option Val := none     -- an initialised native Condition value
  err : Option Nat := none

def cndVal (c : Cnd) : Val := .cnd .native c.cfg c.kw c.op c.ex

/-- `in[1].(string)`, `in[2].(Operator)` -/
def wordOf : Val → Val
  | .leaf (.str s) => strV s
  | _ => strV []
def operOf : Val → Op
  | .opv o => o
  | _ => .none

mutual
/-- `marshalDefault(in)` -/
def marshalList : List Val → MRes
  | [] => { err := some 1011 }
  | [.anys inner] => marshalList inner                      -- de-envelope (an empty envelope: error 1)
  | v :: rest =>
    match v with
    | .leaf (.str lab) =>
      match classify lab with
      | .cond =>
        match rest with
        | [w, o, .anys e] =>
          let r := marshalList e
          (match r.stk, r.cnd with
           | some x, _ => { cnd := some (cndVal (Cnd.cond {} (wordOf w) (operOf o) x)) }
           | none, some x => { cnd := some (cndVal (Cnd.cond {} (wordOf w) (operOf o) x)) }
           | none, none => { err := some 1013 })
        | [w, o, e] => { cnd := some (cndVal (Cnd.cond {} (wordOf w) (operOf o) e)) }
        | _ => { err := some 1013 }
      | .kind k =>
        let r := marshalElems rest
        { stk := some (.stk .native { kind := k } r.1), err := r.2.getD none }
      | .other =>
        -- Basic().Push(in...): the label itself (a string, never a nested row) stays as first element
        let r := marshalElems rest
        { stk := some (.stk .native { kind := Gen.kind_basic } (v :: r.1)), err := r.2.getD none }
    | _ => { err := some 1012 }

/-- the replace-nested-`[]any` loop; second component: the error of the last nested call, if any ran -/
def marshalElems : List Val → List Val × Option (Option Nat)
  | [] => ([], none)
  | .anys tv :: rest =>
    let r := marshalList tv
    let x' : Val := match r.stk, r.cnd with
      | some x, _ => x
      | none, some x => x
      | none, none => .anys tv
    let rs := marshalElems rest
    (x' :: rs.1, match rs.2 with | some e => some e | none => some r.err)
  | x :: rest =>
    let rs := marshalElems rest
    (x :: rs.1, rs.2)
end

/-- `(*Stack).Marshal(in...)`: the receiver afterwards (`none` = still uninitialised) and the error -/
def marshalInto (interp : Nat → Val → Option Nat) (recv : Option Stk) (input : List Val) : Option Stk × Option Nat :=
  match input with
  | [] => (recv, some 1015)
  | _ =>
    match recv with
    | none =>
      let r := marshalList input
      (match r.stk, r.cnd with
       | some (.stk _ c xs), _ => (some { cfg := c, xs := xs }, r.err)
       | _, some _ => (none, some 1014)
       | _, _ => (none, r.err))
    | some s =>
      let r := marshalList input
      (match r.stk, r.cnd with
       | some x, _ => (some (if s.readOnly then s else s.push interp [x]), r.err)
       | none, some x => (some (if s.readOnly then s else s.push interp [x]), r.err)
       | none, none => (some s, r.err))

end Stackage
