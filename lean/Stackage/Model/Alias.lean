import Stackage.Model.Traverse
import Stackage.Model.Marshal

/-!
# Aliases (C12): `erase` maps every alias form to the native one; converters
-/

namespace Stackage

mutual
def erase : Val → Val
  | .stk _ c xs => .stk .native c (eraseList xs)
  | .cnd _ c kw op ex => .cnd .native c kw op (erase ex)
  | .anys xs => .anys (eraseList xs)
  | v => v
def eraseList : List Val → List Val
  | [] => []
  | x :: rest => erase x :: eraseList rest
end

def Stk.erase (s : Stk) : Stk := { cfg := s.cfg, xs := eraseList s.xs }

/-- `ConvertStack(x)`: the underlying native instance for a Stack in any form; `(zero,false)`
for nil, zero-valued instances / aliases and unrelated values -/
def convertStack : Val → Option Stk
  | .stk _ c xs => some { cfg := c, xs := xs }
  | _ => none

/-- `ConvertCondition(x)` -/
def convertCondition : Val → Option Cnd
  | .cnd _ c kw op ex => some { cfg := c, kw := kw, op := op, ex := ex }
  | _ => none

/-- `Condition.Len()` -/
def Cnd.len (c : Cnd) : Nat :=
  match c.ex with
  | .nil => 0
  | .stk _ _ xs => xs.length
  | _ => 1

end Stackage
