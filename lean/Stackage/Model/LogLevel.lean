import Stackage.Basic
import Stackage.Gen.Consts

/-!
# Log-level bit-set (C18), following `logLevels.shift / unshift / positive / String` in log.go

The level word is a Go `uint16`, modelled as a `Nat` (< 65536 on every reachable state). The
constants and the two name tables are the regenerated `Gen.lvl_*`, `Gen.lvlNames`, `Gen.lvlMap`.
-/

namespace Stackage
namespace LogLevel

/-- one variadic argument (`any`) of `SetLogLevel` / `UnsetLogLevel` -/
inductive Arg where
  | name (s : Text)     -- a string: resolved through `logLevelMap[strings.ToUpper(s)]`
  | const (l : Nat)     -- a `LogLevel` value
  | raw (i : Int)       -- a Go `int`; `LogLevel(i)` truncates to 16 bits
  | other               -- any other dynamic type (matches no case of the type switch)
  deriving DecidableEq, Repr, Inhabited

/-- `strings.ToUpper`, as far as the (pure ASCII) keys of `logLevelMap` can tell: ASCII letters,
plus the only two non-ASCII code points whose upper case is an ASCII letter (U+0131 dotless i,
U+017F long s). Every other code point is left alone, which cannot create or destroy a match with
an ASCII key. -/
def ucKey (c : Char) : Char :=
  if c = 'ı' then 'I' else if c = 'ſ' then 'S' else if 'a' ≤ c ∧ c ≤ 'z' then Char.ofNat (c.toNat - 32) else c

def uc (s : Text) : Text := s.map ucKey

/-- the type switch at the head of both loops: resolved level `ll` and the `ok` flag -/
def resolve : Arg → Nat × Bool
  | .name s => match Gen.lvlMap.lookup (uc s) with
    | some v => (v, true)
    | none => (0, false)
  | .const l => (l % 65536, true)
  | .raw i => ((i % 65536).toNat, true)
  | .other => (0, false)

/-- `logLevels.shift`: the `none` (0) and `all` (^0) shortcuts assign and `break` -/
def shift (r : Nat) : List Arg → Nat
  | [] => r
  | a :: rest =>
    let (ll, ok) := resolve a
    if ll = 0 then Gen.lvl_NoLogLevels
    else if ll = 65535 then Gen.lvl_AllLogLevels
    else shift (if ok then r ||| ll else r) rest

/-- `logLevels.unshift`: 0 is skipped (`continue`), `all` stops the loop (`break`) without clearing -/
def unshift (r : Nat) : List Arg → Nat
  | [] => r
  | a :: rest =>
    let (ll, ok) := resolve a
    if ll = 0 then unshift r rest
    else if ll = 65535 then r
    else unshift (if ok then andNot r ll else r) rest

/-- `logLevels.positive` for a `LogLevel` argument -/
def positive (r l : Nat) : Bool :=
  if r = 0 then false else if r = 65535 then true else (r &&& l) != 0

/-- the names `logLevels.String` collects, in bit order -/
def names (r : Nat) : List Text :=
  (List.range 16).filterMap (fun i => if positive r (2 ^ i) then Gen.lvlNames.lookup (2 ^ i) else none)

def join (sep : Text) : List Text → Text
  | [] => []
  | [x] => x
  | x :: rest => x ++ sep ++ join sep rest

/-- `logLevels.String` -/
def string (r : Nat) : Text :=
  if r = Gen.lvl_AllLogLevels then ['A', 'L', 'L']
  else if r = 0 then ['N', 'O', 'N', 'E']
  else join [','] (names r)

end LogLevel
end Stackage
