import Stackage.Basic

/-! # String helpers of misc.go on `Text` (= List Char): condenseWHSP, padValue, foldValue, encapValue -/

namespace Stackage

/-- WHSP or HTAB: the two characters `condenseWHSP` treats as blank -/
def isBlank (c : Char) : Bool := c == ' ' || c == '\t'

def trimLeft (t : Text) : Text := t.dropWhile isBlank
def trimRight (t : Text) : Text := (t.reverse.dropWhile isBlank).reverse
/-- leading/trailing blanks removed (post-repair `condenseWHSP` trims blanks and tabs only) -/
def trimBlanks (t : Text) : Text := trimRight (trimLeft t)

/-- the loop of `condenseWHSP`; `last` = previous char was blank -/
def condenseLoop : Bool → Text → Text
  | _, [] => []
  | last, c :: cs =>
    if isBlank c then (if last then condenseLoop true cs else ' ' :: condenseLoop true cs)
    else c :: condenseLoop false cs

/-- `condenseWHSP` -/
def condense (t : Text) : Text := condenseLoop false (trimBlanks t)

/-- `padValue` -/
def padValue (d : Bool) (v : Text) : Text :=
  if v.isEmpty then [] else if d then ' ' :: (v ++ [' ']) else v

/-- `foldValue`: upper-case unless the first character already is, then lower-case (ASCII words only) -/
def foldValue (d : Bool) (v : Text) : Text :=
  match v with
  | [] => []
  | c :: _ => if d then (if c.isUpper then v.map Char.toLower else v.map Char.toUpper) else v

/-- `encapValue`: pairs applied outermost-first (the first pair ends up outermost) -/
def encapValue (enc : List (List Text)) (v : Text) : Text :=
  enc.foldr (fun sl acc =>
    match sl with
    | [a] => a ++ acc ++ a
    | [a, b] => a ++ acc ++ b
    | _ => acc) v

/-- `strings.Join` -/
def joinText (sep : Text) : List Text → Text
  | [] => []
  | [x] => x
  | x :: rest => x ++ sep ++ joinText sep rest

/-- no leading blank, no trailing blank, no two adjacent blanks, no tab -/
def WSNormal (t : Text) : Prop :=
  (∀ c, t.head? = some c → isBlank c = false) ∧
  (∀ c, t.getLast? = some c → isBlank c = false) ∧
  (∀ a b pre post, t = pre ++ a :: b :: post → ¬ (isBlank a = true ∧ isBlank b = true)) ∧
  (∀ c ∈ t, c ≠ '\t')

end Stackage
