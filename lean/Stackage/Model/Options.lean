import Stackage.Model.Ops

/-! # Option bits and scalar settings (C18), following `setState`, `nodeConfig.setOpt` & co. -/

namespace Stackage

namespace Cfg
/-- `nodeConfig.valid` -/
def valid (c : Cfg) : Bool := c.kind != 0
def setOpt (c : Cfg) (f : Nat) : Cfg := if c.valid then { c with opt := Gen.cfgFlag_shift c.opt f } else c
def unsetOpt (c : Cfg) (f : Nat) : Cfg := if c.valid then { c with opt := Gen.cfgFlag_unshift c.opt f } else c
def toggleOpt (c : Cfg) (f : Nat) : Cfg := if c.valid then { c with opt := Gen.cfgFlag_toggle c.opt f } else c
def positive (c : Cfg) (f : Nat) : Bool := c.valid && Gen.cfgFlag_positive c.opt f

/-- `Stack.setState` / `Condition.setState` on an initialised instance -/
def setState (c : Cfg) (f : Nat) (st : Option Bool) : Cfg :=
  if !c.positive Gen.flag_ronly || f == Gen.flag_ronly then
    match st with
    | some true => c.setOpt f
    | some false => c.unsetOpt f
    | none => c.toggleOpt f
  else c

/-- `stack.setFIFO` behind the read-only guard -/
def setFIFO (c : Cfg) (b : Bool) : Cfg :=
  if c.positive Gen.flag_ronly then c else if !c.fifo then { c with fifo := b } else c
end Cfg

namespace Stk
def setState (s : Stk) (f : Nat) (st : Option Bool) : Stk := { s with cfg := s.cfg.setState f st }
def setFIFO (s : Stk) (b : Bool) : Stk := { s with cfg := s.cfg.setFIFO b }

/-- `Stack.CanNest`: would a nested Stack currently be accepted? -/
def CanNest (s : Stk) : Bool := !s.flag Gen.flag_nnest
/-- what `stack.isNesting` counts: anything the converter accepts, and any value whose dynamic
type is the native `Stack` (a zero-valued `Stack{}` included — the type switch sees the type) -/
def countsAsNested : Val → Bool
  | .stk _ _ _ => true
  | .zstk .native => true
  | _ => false
/-- `Stack.IsNesting`: at least one element is a Stack or Stack alias -/
def IsNesting (s : Stk) : Bool := s.xs.any countsAsNested
/-- `Stack.SetPushPolicy` (id 0 / none removes the policy) -/
def SetPushPolicy (s : Stk) (p : Option Nat) : Stk := if s.readOnly then s else { s with cfg := { s.cfg with ppf := p } }
/-- `Stack.SetErr` (no read-only guard) -/
def SetErr (s : Stk) (e : Option Nat) : Stk := { s with cfg := { s.cfg with err := e } }

/-- `Stack.Cap`, `Stack.Avail`, `Stack.IsFull` on an initialised instance -/
def Cap (s : Stk) : Int := Gen.Cap true s.cfg.cap
def Avail (s : Stk) : Int := Gen.Avail true s.cfg.cap s.rawLen
end Stk

end Stackage
