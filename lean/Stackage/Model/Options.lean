import Stackage.Model.Ops
import Stackage.Model.LogLevel
import Stackage.Gen.Opts

/-! # Option bits and scalar settings (C18), following `setState`, `nodeConfig.setOpt` & co. -/

namespace Stackage

namespace Cfg
/-- `nodeConfig.valid` -/
def valid (c : Cfg) : Bool := c.kind != 0
def setOpt (c : Cfg) (f : Nat) : Cfg := if c.valid then { c with opt := Gen.cfgFlag_shift c.opt f } else c
def unsetOpt (c : Cfg) (f : Nat) : Cfg := if c.valid then { c with opt := Gen.cfgFlag_unshift c.opt f } else c
def toggleOpt (c : Cfg) (f : Nat) : Cfg := if c.valid then { c with opt := Gen.cfgFlag_toggle c.opt f } else c
def positive (c : Cfg) (f : Nat) : Bool := c.valid && Gen.cfgFlag_positive c.opt f

/-- `Stack.setState` / `Condition.setState` on an initialised instance -/
def setState (c : Cfg) (f : Nat) (st : Option Bool) : Cfg :=
  if !c.positive Gen.flag_ronly || f == Gen.flag_ronly then
    match st with
    | some true => c.setOpt f
    | some false => c.unsetOpt f
    | none => c.toggleOpt f
  else c

/-- `stack.setFIFO` behind the read-only guard -/
def setFIFO (c : Cfg) (b : Bool) : Cfg :=
  if c.positive Gen.flag_ronly then c else if !c.fifo then { c with fifo := b } else c

/-! ## C18: every other setting. All functions describe a call on an *initialised* instance
(`IsInit()` true); the Stack and the Condition methods run the same `nodeConfig` code, what differs is
which methods each type offers (`OptCall.onCond`). -/

/-- `getState(ronly)` -/
def readOnly (c : Cfg) : Bool := c.positive Gen.flag_ronly

/-- the `if !r.getState(ronly) { … }` wrapper every setter but `SetReadOnly` sits in -/
def guarded (c : Cfg) (f : Cfg → Cfg) : Cfg := if c.readOnly then c else f c

/-- ASCII lower-casing; `strings.ToLower` agrees with it on whether the result is `_random` / `_addr`
(no non-ASCII code point lower-cases to one of the letters a d m n o r) -/
def lcA (s : Text) : Text := s.map (fun c => if 'A' ≤ c ∧ c ≤ 'Z' then Char.ofNat (c.toNat + 32) else c)

/-- `SetID` replaces these two words (any case) by a generated string -/
def isMagicID (id : Text) : Bool := lcA id == "_random".toList || lcA id == "_addr".toList

/-- `Stack.SetID` / `Condition.SetID`; `gen` is the string the library generates (random / address)
when the magic words are used -/
def SetID (c : Cfg) (id : Text) (gen : Text := []) : Cfg :=
  c.guarded fun c => { c with id := if isMagicID id then gen else id }

/-- `SetCategory` -/
def SetCategory (c : Cfg) (cat : Text) : Cfg := c.guarded fun c => { c with cat := cat }

/-- Go `string(rune)`: invalid code points become U+FFFD -/
def runeStr (r : Int) : Text :=
  if (0 ≤ r ∧ r < 0xD800) ∨ (0xE000 ≤ r ∧ r ≤ 0x10FFFF) then [Char.ofNat r.toNat] else [Char.ofNat 0xFFFD]

/-- a `string`-or-`rune` argument passed as `any` -/
inductive StrArg where
  | str (s : Text)
  | rune (r : Int)
  | nil
  | other            -- any other dynamic type
  deriving DecidableEq, Repr, Inhabited

/-- `assertListDelimiter` -/
def assertListDelimiter : StrArg → Text
  | .str s => s
  | .rune r => if r ≠ 0 then runeStr r else []
  | _ => []

/-- `Stack.SetDelimiter` (→ `nodeConfig.setListDelimiter`): only a LIST keeps a delimiter -/
def SetDelimiter (c : Cfg) (x : StrArg) : Cfg :=
  c.guarded fun c => if c.kind = Gen.kind_list then { c with ljc := assertListDelimiter x } else c

/-- the string `stack.setSymbol` concatenates from its arguments -/
def symbolOf : List StrArg → Text
  | [] => []
  | .str s :: rest => s ++ symbolOf rest
  | .rune r :: rest => runeStr r ++ symbolOf rest
  | _ :: rest => symbolOf rest

/-- `Stack.SetSymbol`: ignored by a LIST -/
def SetSymbol (c : Cfg) (xs : List StrArg) : Cfg :=
  c.guarded fun c => if c.kind ≠ Gen.kind_list then { c with sym := symbolOf xs } else c

/-- one variadic argument of `SetEncap` -/
inductive EncArg where
  | str (s : Text)
  | slice (xs : List Text)
  | other
  deriving DecidableEq, Repr, Inhabited

/-- `strInSlice` over every stored group: is the string already used for encapsulation? -/
def encInUse (enc : List (List Text)) (s : Text) : Bool := enc.any (fun g => g.contains s)

/-- `nodeConfig.setStringSliceEncap` (One / Two). An empty slice is ignored (repair F21; the
unrepaired code indexes `x[0]` as soon as a group is stored, and stores the empty group otherwise).
A slice longer than two is stored whole after looking at its first two strings only. -/
def encSlice (enc : List (List Text)) (x : List Text) : List (List Text) :=
  match x with
  | [] => enc
  | [a] => if encInUse enc a then enc else enc ++ [x]
  | a :: b :: _ => if encInUse enc a || encInUse enc b then enc else enc ++ [x]

def encStep (enc : List (List Text)) : EncArg → List (List Text)
  | .str s => encSlice enc [s]
  | .slice xs => encSlice enc xs
  | .other => enc

/-- `SetEncap`: no argument resets, otherwise the arguments are offered in order -/
def SetEncap (c : Cfg) (xs : List EncArg) : Cfg :=
  c.guarded fun c => if xs.isEmpty then { c with enc := [] } else { c with enc := xs.foldl encStep c.enc }

/-- `SetAuxiliary(aux...)`: `none` = no argument, `some none` = a nil map, `some (some id)` = the map with
that identity. Identity 0 stands for "a freshly allocated empty map". -/
def SetAuxiliary (c : Cfg) (a : Option (Option Nat)) : Cfg :=
  c.guarded fun c => { c with aux := match a with | some (some id) => some id | _ => some 0 }

def SetLogLevel (c : Cfg) (xs : List LogLevel.Arg) : Cfg := c.guarded fun c => { c with lvl := LogLevel.shift c.lvl xs }
def UnsetLogLevel (c : Cfg) (xs : List LogLevel.Arg) : Cfg := c.guarded fun c => { c with lvl := LogLevel.unshift c.lvl xs }

/-! getters -/
def IsParen (c : Cfg) : Bool := c.positive Gen.flag_parens
def IsPadded (c : Cfg) : Bool := !c.positive Gen.flag_nspad
def IsReadOnly (c : Cfg) : Bool := c.positive Gen.flag_ronly
def CanNest (c : Cfg) : Bool := !c.positive Gen.flag_nnest
def IsEncap (c : Cfg) : Bool := c.enc.length > 0
/-- `Stack.IsFIFO` (a Condition answers for the Stack it holds as expression, see `Cfg.condIsFIFO`) -/
def IsFIFO (c : Cfg) : Bool := c.fifo
def ID (c : Cfg) : Text := c.id
def Category (c : Cfg) : Text := c.cat
def Delimiter (c : Cfg) : Text := c.ljc
def Auxiliary (c : Cfg) : Option Nat := c.aux
def LogLevels (c : Cfg) : Text := LogLevel.string c.lvl

/-- `Condition.IsFIFO`: the ordering of a Stack held as expression value, else false -/
def condIsFIFO (ex : Val) : Bool :=
  match ex with
  | .stk _ c _ => c.fifo
  | _ => false
end Cfg

/-- the option/setting calls C18 speaks about -/
inductive OptCall where
  | state (f : Nat) (st : Option Bool)     -- a tri-state setter for flag `f`: true / false / no argument
  | fifo (b : Bool)
  | id (s : Text) (gen : Text)
  | cat (s : Text)
  | delim (x : Cfg.StrArg)
  | sym (xs : List Cfg.StrArg)
  | enc (xs : List Cfg.EncArg)
  | aux (a : Option (Option Nat))
  | lvlSet (xs : List LogLevel.Arg)
  | lvlUnset (xs : List LogLevel.Arg)
  deriving Repr, Inhabited

/-- the flags a Stack / a Condition has a tri-state setter for -/
def stackOptFlags : List Nat :=
  [Gen.flag_parens, Gen.flag_cfold, Gen.flag_nspad, Gen.flag_lonce, Gen.flag_negidx, Gen.flag_fwdidx, Gen.flag_nnest, Gen.flag_ronly]
def condOptFlags : List Nat := [Gen.flag_parens, Gen.flag_nspad, Gen.flag_nnest, Gen.flag_ronly]

/-- does `Condition` offer the call? (no FIFO, delimiter or symbol; four of the eight options) -/
def OptCall.onCond : OptCall → Bool
  | .state f _ => condOptFlags.contains f
  | .fifo _ | .delim _ | .sym _ => false
  | _ => true

/-- does `Stack` offer the call? -/
def OptCall.onStack : OptCall → Bool
  | .state f _ => stackOptFlags.contains f
  | _ => true

def Cfg.call (c : Cfg) : OptCall → Cfg
  | .state f st => c.setState f st
  | .fifo b => c.setFIFO b
  | .id s g => c.SetID s g
  | .cat s => c.SetCategory s
  | .delim x => c.SetDelimiter x
  | .sym xs => c.SetSymbol xs
  | .enc xs => c.SetEncap xs
  | .aux a => c.SetAuxiliary a
  | .lvlSet xs => c.SetLogLevel xs
  | .lvlUnset xs => c.UnsetLogLevel xs

namespace Stk
def setState (s : Stk) (f : Nat) (st : Option Bool) : Stk := { s with cfg := s.cfg.setState f st }
def setFIFO (s : Stk) (b : Bool) : Stk := { s with cfg := s.cfg.setFIFO b }
/-- any C18 call on a Stack: only the configuration slot is touched -/
def call (s : Stk) (o : OptCall) : Stk := { s with cfg := s.cfg.call o }

/-- `Stack.CanNest`: would a nested Stack currently be accepted? -/
def CanNest (s : Stk) : Bool := !s.flag Gen.flag_nnest
/-- what `stack.isNesting` counts: anything the converter accepts, and any value whose dynamic
type is the native `Stack` (a zero-valued `Stack{}` included — the type switch sees the type) -/
def countsAsNested : Val → Bool
  | .stk _ _ _ => true
  | _ => false          -- zero-valued instances (native ones included, repair F37) are not nested stacks
/-- `Stack.IsNesting`: at least one element is a Stack or Stack alias -/
def IsNesting (s : Stk) : Bool := s.xs.any countsAsNested
/-- `Stack.SetPushPolicy` (id 0 / none removes the policy) -/
def SetPushPolicy (s : Stk) (p : Option Nat) : Stk := if s.readOnly then s else { s with cfg := { s.cfg with ppf := p } }
/-- `Stack.SetErr` (no read-only guard) -/
def SetErr (s : Stk) (e : Option Nat) : Stk := { s with cfg := { s.cfg with err := e } }

/-- `Stack.Cap`, `Stack.Avail`, `Stack.IsFull` on an initialised instance -/
def Cap (s : Stk) : Int := Gen.Cap true s.cfg.cap
def Avail (s : Stk) : Int := Gen.Avail true s.cfg.cap s.rawLen
end Stk

end Stackage
