import Stackage.Basic
import Stackage.Gen.Consts
import Stackage.Gen.Funcs
import Stackage.Model.EV

/-!
# Values, configurations, stacks and conditions (the shared model universe)

A Go `Stack` is `*[]any` whose slot 0 is the `*nodeConfig`. The model keeps the
configuration record and the user slots apart (`Stk.cfg`, `Stk.xs`) and
re-introduces slot 0 at every *raw* access (`Stk.rawGet/rawSet`), so that an
access that would hit the configuration slot or fall outside the slice is an
explicit `Fault`, not silently impossible.
-/

namespace Stackage

/-- how a Stack / Condition value is presented inside an `any` -/
inductive Form where
  | native    -- stackage.Stack / stackage.Condition
  | alias     -- user type derived from it, no methods of its own
  | aliasS    -- user type derived from it, with its own String() method
  | ptr       -- non-nil pointer to an alias value
  deriving DecidableEq, Repr, Inhabited

/-- an `Operator` interface value -/
inductive Op where
  | none                                  -- nil interface
  | cmp (code : Nat)                      -- ComparisonOperator(code)
  | user (id : Nat) (str ctx : Text)      -- user-defined Operator
  deriving DecidableEq, Repr, Inhabited

/-- `nodeConfig`. Closures, loggers and the auxiliary map are carried by identity. -/
structure Cfg where
  kind : Nat := 0          -- stackType code
  cap : Int := 0           -- raw cfg.cap: user capacity + 1, or 0
  opt : Nat := 0           -- cfgFlag bit-field
  fifo : Bool := false
  sym : Text := []
  ljc : Text := []
  enc : List (List Text) := []
  id : Text := []
  cat : Text := []
  err : Option Nat := none -- error class
  aux : Option Nat := none
  mtx : Bool := false
  ppf : Option Nat := none -- push policy
  vpf : Option Nat := none -- validity policy
  rpf : Option Nat := none -- presentation policy
  eqf : Option Nat := none -- equality policy
  lss : Option Nat := none -- less func
  umf : Option Nat := none -- unmarshaler
  maf : Option Nat := none -- marshaler
  evl : Option Nat := none -- evaluator
  logger : Nat := 0
  lvl : Nat := 0
  deriving DecidableEq, Repr, Inhabited

/-- non-stack element values -/
inductive Leaf where
  | str (s : Text)
  | int (i : Int)
  | bool (b : Bool)
  | num (ty : Nat) (text : Text)                   -- any other known numeric primitive, with the text Go prints
  | stringer (id : Nat) (text : Text) (zero : Bool) -- non-primitive with a String() method (skipped by getStringer when zero)
  | opaque (cls : Nat) (id : Nat)                  -- anything else (func, chan, struct, map, typed nil, ...), by identity
  | ev (e : EV)                                    -- a value described as far as `reflect` sees it (C05, see Model/EV.lean)
  deriving DecidableEq, Repr, Inhabited

inductive Val where
  | nil
  | leaf (l : Leaf)
  | stk (f : Form) (c : Cfg) (xs : List Val)
  | cnd (f : Form) (c : Cfg) (kw : Text) (op : Op) (ex : Val)
  | zstk (f : Form)                                 -- zero-valued Stack (nil inner pointer) in some form
  | zcnd (f : Form)
  | anys (xs : List Val)                            -- a Go []any
  | opv (o : Op)                                    -- an Operator value held in an `any` (Marshal / Unmarshal rows)
  deriving Repr, Inhabited

def Val.isNil : Val → Bool
  | .nil => true
  | _ => false

/-- `stackTypeAliasConverter(x)` succeeds (post F24: a zero-valued instance does not convert) -/
def Val.isStack : Val → Bool
  | .stk _ _ _ => true
  | _ => false

def Val.isCond : Val → Bool
  | .cnd _ _ _ _ _ => true
  | _ => false

/-- an initialised stack instance: configuration plus user slots -/
structure Stk where
  cfg : Cfg
  xs : List Val
  deriving Repr, Inhabited

namespace Stk

/-- `len(*r)`: slot 0 included -/
def rawLen (s : Stk) : Int := (s.xs.length : Int) + 1
def ulen (s : Stk) : Int := Gen.ulen s.rawLen

/-- `nodeConfig.positive` (config valid = kind ≠ 0) -/
def flag (s : Stk) (f : Nat) : Bool := s.cfg.kind != 0 && Gen.cfgFlag_positive s.cfg.opt f

/-- `(*r)[j]` -/
def rawGet (s : Stk) (j : Int) : Except Fault Val :=
  if j < 0 ∨ j ≥ s.rawLen then .error .panic
  else if j = 0 then .error .cfgLeak
  else .ok (s.xs.getD (j - 1).toNat .nil)

/-- `(*r)[j] = x` -/
def rawSet (s : Stk) (j : Int) (x : Val) : Except Fault Stk :=
  if j < 0 ∨ j ≥ s.rawLen then .error .panic
  else if j = 0 then .error .cfgLost
  else .ok { s with xs := s.xs.set (j - 1).toNat x }

def isFull (s : Stk) : Bool := Gen.isFull s.cfg.cap s.rawLen

end Stk

/-- 0 ≤ n < 2^62: the length of any Go slice of interfaces -/
def SmallLen (n : Nat) : Prop := (n : Int) < 2^62

/-- well-formedness of a stack: length fits, and a capacity is respected -/
structure Stk.WF (s : Stk) : Prop where
  small : SmallLen s.xs.length
  capOk : s.cfg.cap = 0 ∨ (1 ≤ s.cfg.cap ∧ s.cfg.cap < 2^62 ∧ s.rawLen ≤ s.cfg.cap)

end Stackage
