import Stackage.Model.Val
import Stackage.Gen.Conds

/-!
# The content operations of `stack` (private layer) and `Stack` (exported layer)

Each function follows the Go function of the same name. Guards that are
regenerated from the source are taken from `Gen.*`; the slice manipulation
around them is hand-written and validated by the correspondence check.
-/

namespace Stackage
namespace Stk

/-- `stack.index`: (slice, raw idx, ok) -/
def index (s : Stk) (i : Int) : Except Fault (Val × Int × Bool) :=
  let L := s.ulen
  let env : Env := { ulen := L, L := L, i := i,
                     negidx := s.flag Gen.flag_negidx, fwdidx := s.flag Gen.flag_fwdidx }
  if Gen.index_nonempty env then
    let sel : Option Int :=
      if Gen.index_isneg env then
        (if Gen.index_negok env then some (Gen.factorNegIndex i L) else none)
      else if Gen.index_isover env then
        (if Gen.index_fwdok env then some L else none)
      else some (wrap64 (i + 1))
    match sel with
    | none => .ok (.nil, 0, false)
    | some j => do
        let v ← s.rawGet j
        .ok (v, j, !v.isNil)
  else .ok (.nil, 0, false)

/-- `stack.canPushNester` -/
def canPushNester (s : Stk) (x : Val) : Bool :=
  if s.flag Gen.flag_nnest then !x.isStack else true

/-- `stack.genericAppend` -/
def genericAppend (s : Stk) : List Val → Stk
  | [] => s
  | x :: rest =>
    let s' := if s.canPushNester x && !s.isFull then { s with xs := s.xs ++ [x] } else s
    genericAppend s' rest

/-- `stack.methodAppend`; `pol v = some e` means the policy rejects `v` with error class `e` -/
def methodAppend (pol : Val → Option Nat) (s : Stk) : List Val → Stk
  | [] => s
  | x :: rest =>
    if !s.isFull then
      match pol x with
      | some e => { s with cfg := { s.cfg with err := some e } }
      | none => methodAppend pol { s with xs := s.xs ++ [x] } rest
    else methodAppend pol s rest

/-- `stack.push`. `interp` gives the meaning of an installed push-policy id. -/
def push (interp : Nat → Val → Option Nat) (s : Stk) (vs : List Val) : Stk :=
  match s.cfg.ppf with
  | some p => methodAppend (interp p) s (vs.filter s.canPushNester)   -- no-nesting applies whatever the policy says (repair F36)
  | none => genericAppend s vs

/-- `stack.insert` -/
def insert (s : Stk) (x : Val) (left : Int) : Except Fault (Stk × Bool) :=
  let u1 := s.ulen
  if Gen.insert_full { u1 := u1, cap := s.cfg.cap } then .ok (s, false)
  else if Gen.insert_append { u1 := u1, left := left } then
    let s' := { s with xs := s.xs ++ [x] }
    .ok (s', Gen.insert_ok_append { u1 := u1, ulen := s'.ulen })
  else
    let left := wrap64 (left + 1)
    if Gen.insert_front { left := left } then
      -- R = [cfg, x] ++ (*r)[1:]
      let s' := { s with xs := x :: s.xs }
      .ok (s', Gen.insert_ok_append { u1 := u1, ulen := s'.ulen })
    else
      -- R = append((*r)[:left+1], (*r)[left:]...); R[left] = x
      if left + 1 > s.rawLen then .error .panic
      else
        let n := (left - 1).toNat
        let s' := { s with xs := s.xs.take n ++ x :: s.xs.drop n }
        .ok (s', Gen.insert_ok_append { u1 := u1, ulen := s'.ulen })

/-- `stack.remove` -/
def remove (s : Stk) (idx : Int) : Except Fault (Stk × Val × Bool) := do
  let (slice, index, found) ← s.index idx
  if found then
    let u1 := s.ulen
    let s' := { s with xs := s.xs.eraseIdx (index - 1).toNat }
    .ok (s', slice, Gen.remove_ok { slice_nonnil := !slice.isNil, u1 := u1, ulen := s'.ulen })
  else .ok (s, slice, false)

/-- `stack.replace` -/
def replace (s : Stk) (x : Val) (i : Int) : Except Fault (Stk × Bool) :=
  if Gen.replace_ok { i := i, ulen := s.ulen } then do
    let s' ← s.rawSet (wrap64 (i + 1)) x
    .ok (s', true)
  else .ok (s, false)

/-- raw read used by `swap`: touching slot 0 there moves the configuration away -/
def rawGetSlot (s : Stk) (j : Int) : Except Fault Val :=
  if j < 0 ∨ j ≥ s.rawLen then .error .panic
  else if j = 0 then .error .cfgLost
  else .ok (s.xs.getD (j - 1).toNat .nil)

/-- `stack.swap` -/
def swap (s : Stk) (i j : Int) : Except Fault Stk :=
  if Gen.swap_reject { i := i, j := j, ulen := s.ulen } then .ok s
  else do
    let i := wrap64 (i + 1)
    let j := wrap64 (j + 1)
    let a ← s.rawGetSlot i
    let b ← s.rawGetSlot j
    let s1 ← s.rawSet i b
    s1.rawSet j a

/-- `stack.reverse` -/
def reverse (s : Stk) : Stk := { s with xs := s.xs.reverse }

/-- `stack.reset` -/
def reset (s : Stk) : Stk := { s with xs := [] }

/-- `stack.pop` -/
def pop (s : Stk) : Except Fault (Stk × Val × Bool) :=
  match s.xs with
  | [] => .ok (s, .nil, false)
  | x :: rest =>
    if s.cfg.fifo then .ok ({ s with xs := rest }, x, !x.isNil)
    else
      let v := (x :: rest).getLast (by simp)
      .ok ({ s with xs := (x :: rest).dropLast }, v, !v.isNil)

/-- `stack.transfer`: (dest', ok) -/
def transfer (interp : Nat → Val → Option Nat) (s dest : Stk) : Stk × Bool :=
  if Gen.transfer_hascap { dcap := dest.cfg.cap }
     && Gen.transfer_nofit { ulen := s.ulen, dcap := dest.cfg.cap, dlen := dest.rawLen } then (dest, false)
  else
    let before := dest.ulen
    let dest' := s.xs.foldl (fun d v => push interp d [v]) dest
    (dest', Gen.transfer_ok { dulen := dest'.ulen, before := before, ulen := s.ulen })

def readOnly (s : Stk) : Bool := s.flag Gen.flag_ronly

/-- `Stack.Transfer(dest any)`: the new value of `dest` and the result flag. The source is a
value in the model, so it cannot change; `dest` being the source itself is outside the model. -/
def Transfer (interp : Nat → Val → Option Nat) (s : Stk) (dest : Val) : Val × Bool :=
  match dest with
  | .stk f c xs =>
    let d : Stk := { cfg := c, xs := xs }
    if d.readOnly then (dest, false)
    else
      let r := s.transfer interp d
      (.stk f r.1.cfg r.1.xs, r.2)
  | _ => (dest, false)

/-- `s.Transfer(s)` on a stack created with a capacity, without push policy and with nesting allowed (object identity: source and
destination are ONE instance). The room test reads the one length on both sides (`n > k - n`: refused, nothing changes); otherwise the
copy loop runs over a length that grows while it copies, every `push` appends while there is room, so the stack ends up holding its
former content repeated cyclically up to the capacity - and the flag is false unless it was empty. (Without a capacity the loop never
ends: outside the model.) -/
def transferSelf (s : Stk) : Stk × Bool :=
  let n := s.xs.length
  let k := (s.cfg.cap - 1).toNat
  if s.readOnly then (s, false)
  else if n > k - n then (s, false)
  else if n == 0 then (s, true)
  else ({ s with xs := (List.range k).map (fun j => s.xs.getD (j % n) .nil) }, false)

end Stk

/-! ## Exported layer: what `Stack.X` does on an initialised instance -/

inductive ListOp where
  | push (vs : List Val)
  | pop
  | insert (x : Val) (i : Int)
  | remove (i : Int)
  | replace (x : Val) (i : Int)
  | swap (i j : Int)
  | reverse
  | reset
  deriving Repr

/-- result of an exported content operation: value (or nil) and success flag -/
structure Out where
  val : Val := .nil
  ok : Bool := false
  deriving Repr

namespace Stk

def apply (interp : Nat → Val → Option Nat) (s : Stk) : ListOp → Except Fault (Stk × Out)
  | .push vs => if s.readOnly then .ok (s, {}) else .ok (s.push interp vs, {})
  | .pop =>
      if s.ulen == 0 then .ok (s, {})
      else if s.readOnly then .ok (s, {})
      else do let (s', v, ok) ← s.pop; .ok (s', { val := v, ok := ok })
  | .insert x i =>
      if x.isNil || s.readOnly then .ok (s, {})
      else do let (s', ok) ← s.insert x i; .ok (s', { ok := ok })
  | .remove i =>
      if s.readOnly then .ok (s, {})
      else do let (s', v, ok) ← s.remove i; .ok (s', { val := v, ok := ok })
  | .replace x i =>
      if x.isNil || s.readOnly then .ok (s, {})
      else do let (s', ok) ← s.replace x i; .ok (s', { ok := ok })
  | .swap i j => if s.readOnly then .ok (s, {}) else do let s' ← s.swap i j; .ok (s', {})
  | .reverse => if s.ulen == 0 || s.readOnly then .ok (s, {}) else .ok (s.reverse, {})
  | .reset => if s.readOnly then .ok (s, {}) else .ok (s.reset, {})

/-- a history of exported content operations -/
def run (interp : Nat → Val → Option Nat) (s : Stk) : List ListOp → Except Fault (Stk × List Out)
  | [] => .ok (s, [])
  | op :: rest => do
      let (s', o) ← s.apply interp op
      let (s'', os) ← run interp s' rest
      .ok (s'', o :: os)

/-- `Stack.Index` -/
def Index (s : Stk) (i : Int) : Except Fault (Val × Bool) := do
  let (v, _, ok) ← s.index i
  .ok (v, ok)

/-- scan `Index` over positions in the given order, first hit wins (Front/Back) -/
def firstHit (s : Stk) : List Int → Except Fault (Val × Bool)
  | [] => .ok (.nil, false)
  | i :: rest => do
      let (v, ok) ← s.Index i
      if ok then .ok (v, true) else firstHit s rest

def upto (n : Nat) : List Int := (List.range n).map (fun (k : Nat) => (k : Int))

/-- `Stack.Front` -/
def Front (s : Stk) : Except Fault (Val × Bool) :=
  if s.cfg.fifo then s.firstHit (upto s.xs.length) else s.firstHit (upto s.xs.length).reverse

/-- `Stack.Back` -/
def Back (s : Stk) : Except Fault (Val × Bool) :=
  if !s.cfg.fifo then s.firstHit (upto s.xs.length) else s.firstHit (upto s.xs.length).reverse

end Stk
end Stackage
