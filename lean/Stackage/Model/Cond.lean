import Stackage.Model.Render
import Stackage.Model.Options

/-!
# Conditions: constructors, setters, getters (C06, C13 condition part)

Follows `Cond`, `initCondition`, `newCondition`, `setKeyword`, `setOperator`, `setExpression`,
`assertConditionExpressionValue`, `defaultAssertionExpressionHandler`, `Condition.Valid`.
-/

namespace Stackage

/-- an initialised Condition instance -/
structure Cnd where
  cfg : Cfg
  kw : Text
  op : Op
  ex : Val
  deriving Repr, Inhabited

namespace Cnd

/-- `initCondition()` -/
def init : Cnd := { cfg := { kind := Gen.kind_cond }, kw := [], op := .none, ex := .nil }

def readOnly (c : Cnd) : Bool := c.cfg.positive Gen.flag_ronly
def noNest (c : Cnd) : Bool := c.cfg.positive Gen.flag_nnest

/-- the text `setKeyword` takes from a non-string argument: its `String()` method, if it has a usable one -/
def kwOf : Val → Option Text
  | .leaf (.str s) => some s
  | .leaf (.stringer _ t z) => if z then none else some t
  | _ => none

/-- `condition.setKeyword` -/
def setKeyword (c : Cnd) (v : Val) : Cnd :=
  match kwOf v with
  | some t => { c with kw := t }
  | none => c

/-- an operator `setOperator` accepts: non-nil, with non-empty context and text -/
def opAccepted (o : Op) : Bool :=
  match o with
  | .none => false
  | _ => !o.ctx.isEmpty && !o.text.isEmpty

/-- `condition.setOperator` -/
def setOperator (c : Cnd) (o : Op) : Cnd := if opAccepted o then { c with op := o } else c

/-- an expression `setExpression` accepts -/
def exAccepted (c : Cnd) (v : Val) : Bool :=
  (match v with
   | .nil => false
   | .leaf (.str s) => !s.isEmpty
   | _ => !(v.isStack && c.noNest)) &&
  c.cfg.err.isNone

/-- `condition.setExpression` -/
def setExpression (c : Cnd) (v : Val) : Cnd := if c.exAccepted v then { c with ex := v } else c

/-- `Condition.Valid()`: `none` = valid, `some e` = error class (classes ≥ 1000 are the library's own messages) -/
def valid (K : Closures) (c : Cnd) : Option Nat :=
  match c.cfg.vpf with
  | some p => K.valid p
  | none =>
    if c.kw.isEmpty then some 1001
    else match c.op with
      | .none => some 1002
      | .cmp code => if Gen.cond_op_bogus { assert := code } then some 1003 else (if c.ex.isNil then some 1004 else none)
      | .user _ _ _ => if c.ex.isNil then some 1004 else none

/-- `Cond(kw, op, ex)` -/
def cond (K : Closures) (kw : Val) (o : Op) (ex : Val) : Cnd :=
  let c := ((init.setKeyword kw).setOperator o).setExpression ex
  match c.valid K with
  | some e => { c with cfg := { c.cfg with err := some e } }
  | none => c

/-- `Condition.CanNest` / `IsNesting` -/
def CanNest (c : Cnd) : Bool := !c.noNest
def IsNesting (c : Cnd) : Bool := c.ex.isStack

/-- `Condition.String()` -/
def string (K : Closures) (c : Cnd) : Text := condString K c.cfg c.kw c.op c.ex

end Cnd

/-- exported setter calls on a Condition (behind the `IsInit` / read-only guards) -/
inductive CondOp where
  | setKeyword (v : Val)
  | setOperator (o : Op)
  | setExpression (v : Val)
  | init
  | setState (flag : Nat) (st : Option Bool)     -- SetNoNesting / SetNoPadding / SetParen / SetReadOnly
  | setEncapOne (a : Text)
  | setEncapPair (a b : Text)
  | setEncapNone                                  -- SetEncap() without arguments: every pair is dropped
  | setErr (e : Option Nat)
  deriving Repr

namespace Cnd

/-- can the pair be added? (`setStringSliceEncapOne/Two`: refused if one of its strings is already in use) -/
def encFree (enc : List (List Text)) (xs : List Text) : Bool :=
  xs.all (fun x => enc.all (fun pair => !pair.contains x))

def apply (c : Cnd) : CondOp → Cnd
  | .setKeyword v => if c.readOnly then c else c.setKeyword v
  | .setOperator o => if c.readOnly then c else c.setOperator o
  | .setExpression v => if c.readOnly then c else c.setExpression v
  | .init => init
  | .setState f st => { c with cfg := c.cfg.setState f st }
  | .setEncapOne a => if c.readOnly then c else if encFree c.cfg.enc [a] then { c with cfg := { c.cfg with enc := c.cfg.enc ++ [[a]] } } else c
  | .setEncapPair a b => if c.readOnly then c else if encFree c.cfg.enc [a, b] then { c with cfg := { c.cfg with enc := c.cfg.enc ++ [[a, b]] } } else c
  | .setEncapNone => if c.readOnly then c else { c with cfg := { c.cfg with enc := [] } }
  | .setErr e => { c with cfg := { c.cfg with err := e } }

def run (c : Cnd) (ops : List CondOp) : Cnd := ops.foldl apply c

end Cnd
end Stackage
