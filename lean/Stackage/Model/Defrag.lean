import Stackage.Model.Options

/-!
# `Stack.Defrag`, `stack.defrag`, `stack.implode`, `stack.verifyImplode` (C19)

The model follows the Go functions statement by statement. The guards that the source has
(`Gen.defrag_go`, `Gen.defrag_trunc`, `Gen.implode_stop`, the `last` expression
`Gen.implode_last`, `Gen.calculateDefragMax`) are the regenerated ones. The scan uses the public
index translation `Stk.index` (so the negative / forward index options act on it exactly as in
the code), raw slot accesses go through `rawGet`/`rawSet` (a slot-0 or out-of-range access is a
`Fault`). `spat`/`tpat` are `[]int` holding only 0/1 in Go; they are `List Bool` here.

`implode`'s `for` loop has no syntactic bound. It is modelled with fuel; running out of fuel is
the distinguished outcome `DErr.fuel`. `Lemmas/Defrag.lean` proves that the fuel
`implodeFuel` always suffices, i.e. the Go loop terminates (every iteration either increases
`ct` below `ulen - start` or increases `start` below `ulen`).

The mutex (`r.lock()` in `implode`) is not part of this property (C10).
-/

namespace Stackage

/-- outcome of a Defrag model run that is not a result -/
inductive DErr where
  | fault (f : Fault)   -- a Go panic / configuration-slot access
  | fuel                -- loop / recursion budget exhausted (non-termination if it could happen)
  deriving DecidableEq, Repr

def liftF {α : Type} : Except Fault α → Except DErr α
  | .ok a => .ok a
  | .error f => .error (.fault f)

namespace Stk

/-- error class of `errorf("defragmentation failed; inconsistent slice results")` -/
def defragErr : Nat := 900

/-- `for i := 0; i < r.len(); i++ { _, _, ok := r.index(i) ... spat[i] = 1 }`: the `ok`s for i, i+1, … (n of them) -/
def scanFrom (s : Stk) : (n : Nat) → (i : Nat) → Except Fault (List Bool)
  | 0, _ => .ok []
  | n + 1, i => do
      let (_, _, ok) ← s.index (i : Int)
      let rest ← scanFrom s n (i + 1)
      .ok (ok :: rest)

/-- `spat` (length `r.len()`, slot 0 included in the count) -/
def scanPat (s : Stk) : Except Fault (List Bool) := scanFrom s s.rawLen.toNat 0

/-- index of the first `false` at or after offset `i`, else -1: the `start` variable ("only set once") -/
def firstGap : List Bool → Nat → Int
  | [], _ => -1
  | b :: rest, i => if b then firstGap rest (i + 1) else (i : Int)

/-- `tpat[k] = 1` (a Go index panic when out of range) -/
def setPat (tpat : List Bool) (k : Int) : Except Fault (List Bool) :=
  if k < 0 ∨ k ≥ (tpat.length : Int) then .error .panic else .ok (tpat.set k.toNat true)

/-- the `for { … }` loop of `stack.implode` -/
def implodeLoop : (fuel : Nat) → (s : Stk) → (start ct max : Int) → (tpat : List Bool) → Except DErr (Stk × List Bool)
  | 0, _, _, _, _, _ => .error .fuel
  | fuel + 1, s, start, ct, max, tpat =>
    if Gen.implode_stop { ct := ct, max := max, start := start, ulen := s.ulen } then .ok (s, tpat)
    else do
      let j := wrap64 (wrap64 (start + ct) + 1)
      let v ← liftF (s.rawGet j)
      if v.isNil then implodeLoop fuel s start (wrap64 (ct + 1)) max tpat
      else do
        let s1 ← liftF (s.rawSet (wrap64 (start + 1)) v)       -- (*r)[start+1] = (*r)[start+ct+1]
        let tpat' ← liftF (setPat tpat (wrap64 (start + ct)))   -- tpat[start+ct] = 1
        let s2 ← liftF (s1.rawSet j .nil)                       -- (*r)[start+ct+1] = nil
        implodeLoop fuel s2 (wrap64 (start + 1)) 0 max tpat'

/-- enough iterations for any `implode` run on `s` (proved in `Lemmas/Defrag.lean`) -/
def implodeFuel (s : Stk) : Nat := (s.xs.length + 1) * (s.xs.length + 2)

/-- `stack.implode(start, max, spat)`: `tpat = make([]int, len(spat))`, `tpat[0] = 1`, then the loop -/
def implode (s : Stk) (start max : Int) (spat : List Bool) : Except DErr (Stk × List Bool) := do
  let tpat0 ← liftF (setPat (List.replicate spat.length false) 0)
  implodeLoop (implodeFuel s) s start 0 max tpat0

/-- loop of `verifyImplode` from index `i` on; `sp`/`tp` are `spat[i:]`/`tpat[i:]`.
`len(data)` is `i-1` at iteration `i`: the map receives one new key `S[i-1]` per iteration, after `last` is computed. -/
def verifyLoop (lenT : Int) : (i : Nat) → (sp tp : List Bool) → (last : Int) → (fail : Bool) → Except Fault (Int × Bool)
  | _, [], _, last, fail => .ok (last, fail)
  | _, _ :: _, [], _, _ => .error .panic          -- tpat[i] out of range (cannot happen: equal lengths)
  | i, s :: sp, t :: tp, last, _ =>
    let result := s == t
    let fail := !result
    let last := if t then Gen.implode_last { len_data := (i : Int) - 1, i := (i : Int), len_tpat := lenT } else last
    verifyLoop lenT (i + 1) sp tp last fail

/-- `stack.verifyImplode(spat, tpat)`: (last, err) -/
def verifyImplode (spat tpat : List Bool) : Except Fault (Int × Option Nat) := do
  let (last, fail) ← verifyLoop (tpat.length : Int) 1 (spat.drop 1) (tpat.drop 1) (-1) false
  .ok (wrap64 (last - 1), if fail then some defragErr else none)

/-- `stack.defrag(max)` -/
def defrag (s : Stk) (max : Int) : Except DErr Stk := do
  let spat ← liftF s.scanPat
  let start := firstGap spat 0
  if Gen.defrag_go { start := start, max := max } then do
    let (s1, tpat) ← s.implode start max spat
    let (last, err) ← liftF (verifyImplode spat tpat)
    let s2 : Stk := { s1 with cfg := { s1.cfg with err := err } }      -- r.setErr(err)
    if Gen.defrag_trunc { err_nonnil := err.isSome, last := last } then
      -- (*r) = (*r)[:last+1]  (a slice expression up to the capacity never panics here: last+1 ≤ len)
      if wrap64 (last + 1) > s2.rawLen then .error (.fault .panic)
      else .ok { s2 with xs := s2.xs.take (wrap64 (last + 1) - 1).toNat }
    else .ok s2
  else .ok s

/-- the scan limit `calculateDefragMax(max...)` -/
def defragMax (args : List Int) : Int := Gen.calculateDefragMax (args.length : Int) (args.headD 0)

/-- the body of the loop `for i := 0; i < r.Len(); i++ { slice, _ := r.Index(i) … }` in `Stack.Defrag`:
a Stack (any alias form) is defragmented, a Condition (any alias form) has its expression
defragmented when that is a Stack, anything else (nil, leaves, zero-valued instances) is skipped.
`rec` is `Stack.Defrag(m)` itself. -/
def defragElem (rec : Stk → Except DErr Stk) : Val → Except DErr Val
  | .stk f c xs => do
      let r ← rec { cfg := c, xs := xs }
      pure (Val.stk f r.cfg r.xs)
  | .cnd f c kw op (.stk f2 c2 xs2) => do
      let r ← rec { cfg := c2, xs := xs2 }
      pure (Val.cnd f c kw op (.stk f2 r.cfg r.xs))
  | v => pure v

/-- `Stack.Defrag(max...)` on an initialised instance, recursing into nested Stacks (any alias form)
and into the Stack expression of nested Conditions. `fuel` bounds the nesting depth. -/
def Defrag : (fuel : Nat) → (args : List Int) → Stk → Except DErr Stk
  | 0, _, _ => .error .fuel
  | fuel + 1, args, s =>
    if s.readOnly then .ok s else do
      let m := defragMax args
      let s1 ← s.defrag m
      if s1.IsNesting then do
        -- positions 0..Len-1 through r.Index(i) are the elements in order; sub.Defrag(m) passes m on
        let xs' ← s1.xs.mapM (defragElem (fun t => Defrag fuel [m] t))
        .ok { s1 with xs := xs' }
      else .ok s1

end Stk

mutual
/-- nesting depth of a value (stacks and the stack expressions of conditions) -/
def Val.depth : Val → Nat
  | .stk _ _ xs => Val.depthL xs + 1
  | .cnd _ _ _ _ ex => Val.depth ex
  | _ => 0
def Val.depthL : List Val → Nat
  | [] => 0
  | v :: r => Nat.max (Val.depth v) (Val.depthL r)
end

/-- fuel that suffices for `Stk.Defrag` on `s` -/
def Stk.depth (s : Stk) : Nat := Val.depthL s.xs + 1

end Stackage
