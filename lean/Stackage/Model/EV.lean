import Stackage.Basic

/-!
# `EV` — the universe of non-stackage element values, as far as `reflect` can tell them apart

A leaf of a Stack (or the expression of a Condition) may be any Go value. `IsEqual` inspects such a
value reflectively; `EV` keeps exactly what that inspection can observe (DESIGN §4.4):

* `prim`   a *known primitive* (`int … int64`, `uint … uint64`, `float32/64`, `complex64/128`, `bool`,
           `string`) with its exact type code, the value as canonical text (decimal for integers, the
           text Go prints for floats / complex) and a flag saying that the value is not equal to itself (NaN);
* `named`  a value of a declared scalar type (`type T int`): same kinds, but not a known primitive;
* `uptr`   a `uintptr` (`uns = false`) or `unsafe.Pointer` (`uns = true`);
* `nilptr` a typed nil pointer, `ptr` a non-nil pointer to a value (any depth by nesting);
* `seq`    a slice (`arr = false`) or array (`arr = true`): element type code, capacity, elements;
* `map`    type code, keys and values as two parallel lists;
* `struct` type code, per-field metadata (`Fld`) and field values as two parallel lists;
* `func`   type code and closure identity, `chan` type code and channel identity;
* `inil`   a nil interface *inside a container* (element of a `[]any`, field or map value of type `any`,
           target of a `*any`), `iface e` a non-nil interface in such a position holding `e`.

The type codes are only compared for equality (`reflect.Type` identity); which Go type a code stands for
is fixed by the harness (`harness/equal.go`).
-/

namespace Stackage

/-- `reflect.StructField` as far as `structsEqual` looks at it -/
structure Fld where
  name : Text
  exported : Bool
  anon : Bool
  deriving DecidableEq, Repr, Inhabited

inductive EV where
  | prim (ty : Nat) (text : Text) (nan : Bool)
  | named (ty : Nat) (text : Text)
  | uptr (uns : Bool) (n : Nat)
  | nilptr (ty : Nat)
  | ptr (ty : Nat) (e : EV)
  | seq (arr : Bool) (ety : Nat) (cap : Nat) (xs : List EV)
  | map (ty : Nat) (ks : List EV) (vs : List EV)
  | struct (ty : Nat) (fs : List Fld) (vs : List EV)
  | func (ty : Nat) (id : Nat)
  | chan (ty : Nat) (id : Nat)
  | inil
  | iface (e : EV)
  deriving Repr, Inhabited

namespace EV

/-! ## Decidable equality (the deriving handler does not cover nested inductives) -/

mutual
def beq : EV → EV → Bool
  | .prim t v n, .prim t' v' n' => t == t' && v == v' && n == n'
  | .named t v, .named t' v' => t == t' && v == v'
  | .uptr u n, .uptr u' n' => u == u' && n == n'
  | .nilptr t, .nilptr t' => t == t'
  | .ptr t e, .ptr t' e' => t == t' && beq e e'
  | .seq a t c xs, .seq a' t' c' ys => a == a' && t == t' && c == c' && beqList xs ys
  | .map t ks vs, .map t' ks' vs' => t == t' && beqList ks ks' && beqList vs vs'
  | .struct t fs vs, .struct t' fs' vs' => t == t' && fs == fs' && beqList vs vs'
  | .func t i, .func t' i' => t == t' && i == i'
  | .chan t i, .chan t' i' => t == t' && i == i'
  | .inil, .inil => true
  | .iface e, .iface e' => beq e e'
  | _, _ => false
def beqList : List EV → List EV → Bool
  | [], [] => true
  | x :: xs, y :: ys => beq x y && beqList xs ys
  | _, _ => false
end

mutual
theorem beq_eq : ∀ (x y : EV), beq x y = true → x = y
  | .prim .., .prim .. => by simp [beq]; intros; simp_all
  | .named .., .named .. => by simp [beq]
  | .uptr .., .uptr .. => by simp [beq]
  | .nilptr .., .nilptr .. => by simp [beq]
  | .ptr t e, .ptr t' e' => by
      simp only [beq, Bool.and_eq_true, beq_iff_eq]
      intro ⟨h1, h2⟩; rw [h1, beq_eq e e' h2]
  | .seq a t c xs, .seq a' t' c' ys => by
      simp only [beq, Bool.and_eq_true, beq_iff_eq]
      intro ⟨⟨⟨h1, h2⟩, h3⟩, h4⟩; rw [h1, h2, h3, beqList_eq xs ys h4]
  | .map t ks vs, .map t' ks' vs' => by
      simp only [beq, Bool.and_eq_true, beq_iff_eq]
      intro ⟨⟨h1, h2⟩, h3⟩; rw [h1, beqList_eq ks ks' h2, beqList_eq vs vs' h3]
  | .struct t fs vs, .struct t' fs' vs' => by
      simp only [beq, Bool.and_eq_true, beq_iff_eq]
      intro ⟨⟨h1, h2⟩, h3⟩; rw [h1, h2, beqList_eq vs vs' h3]
  | .func .., .func .. => by simp [beq]
  | .chan .., .chan .. => by simp [beq]
  | .inil, .inil => by simp
  | .iface e, .iface e' => by
      simp only [beq]
      intro h; rw [beq_eq e e' h]
  | .prim .., .named .. | .prim .., .uptr .. | .prim .., .nilptr .. | .prim .., .ptr .. | .prim .., .seq ..
  | .prim .., .map .. | .prim .., .struct .. | .prim .., .func .. | .prim .., .chan .. | .prim .., .inil | .prim .., .iface ..
  | .named .., .prim .. | .named .., .uptr .. | .named .., .nilptr .. | .named .., .ptr .. | .named .., .seq ..
  | .named .., .map .. | .named .., .struct .. | .named .., .func .. | .named .., .chan .. | .named .., .inil | .named .., .iface ..
  | .uptr .., .prim .. | .uptr .., .named .. | .uptr .., .nilptr .. | .uptr .., .ptr .. | .uptr .., .seq ..
  | .uptr .., .map .. | .uptr .., .struct .. | .uptr .., .func .. | .uptr .., .chan .. | .uptr .., .inil | .uptr .., .iface ..
  | .nilptr .., .prim .. | .nilptr .., .named .. | .nilptr .., .uptr .. | .nilptr .., .ptr .. | .nilptr .., .seq ..
  | .nilptr .., .map .. | .nilptr .., .struct .. | .nilptr .., .func .. | .nilptr .., .chan .. | .nilptr .., .inil | .nilptr .., .iface ..
  | .ptr .., .prim .. | .ptr .., .named .. | .ptr .., .uptr .. | .ptr .., .nilptr .. | .ptr .., .seq ..
  | .ptr .., .map .. | .ptr .., .struct .. | .ptr .., .func .. | .ptr .., .chan .. | .ptr .., .inil | .ptr .., .iface ..
  | .seq .., .prim .. | .seq .., .named .. | .seq .., .uptr .. | .seq .., .nilptr .. | .seq .., .ptr ..
  | .seq .., .map .. | .seq .., .struct .. | .seq .., .func .. | .seq .., .chan .. | .seq .., .inil | .seq .., .iface ..
  | .map .., .prim .. | .map .., .named .. | .map .., .uptr .. | .map .., .nilptr .. | .map .., .ptr ..
  | .map .., .seq .. | .map .., .struct .. | .map .., .func .. | .map .., .chan .. | .map .., .inil | .map .., .iface ..
  | .struct .., .prim .. | .struct .., .named .. | .struct .., .uptr .. | .struct .., .nilptr .. | .struct .., .ptr ..
  | .struct .., .seq .. | .struct .., .map .. | .struct .., .func .. | .struct .., .chan .. | .struct .., .inil | .struct .., .iface ..
  | .func .., .prim .. | .func .., .named .. | .func .., .uptr .. | .func .., .nilptr .. | .func .., .ptr ..
  | .func .., .seq .. | .func .., .map .. | .func .., .struct .. | .func .., .chan .. | .func .., .inil | .func .., .iface ..
  | .chan .., .prim .. | .chan .., .named .. | .chan .., .uptr .. | .chan .., .nilptr .. | .chan .., .ptr ..
  | .chan .., .seq .. | .chan .., .map .. | .chan .., .struct .. | .chan .., .func .. | .chan .., .inil | .chan .., .iface ..
  | .inil, .prim .. | .inil, .named .. | .inil, .uptr .. | .inil, .nilptr .. | .inil, .ptr ..
  | .inil, .seq .. | .inil, .map .. | .inil, .struct .. | .inil, .func .. | .inil, .chan .. | .inil, .iface ..
  | .iface .., .prim .. | .iface .., .named .. | .iface .., .uptr .. | .iface .., .nilptr .. | .iface .., .ptr ..
  | .iface .., .seq .. | .iface .., .map .. | .iface .., .struct .. | .iface .., .func .. | .iface .., .chan .. | .iface .., .inil => by
      simp [beq]
theorem beqList_eq : ∀ (xs ys : List EV), beqList xs ys = true → xs = ys
  | [], [] => by simp
  | x :: xs, y :: ys => by
      simp only [beqList, Bool.and_eq_true]
      intro ⟨h1, h2⟩; rw [beq_eq x y h1, beqList_eq xs ys h2]
  | [], _ :: _ => by simp [beqList]
  | _ :: _, [] => by simp [beqList]
end

mutual
theorem beq_refl : ∀ (x : EV), beq x x = true
  | .prim .. => by simp [beq]
  | .named .. => by simp [beq]
  | .uptr .. => by simp [beq]
  | .nilptr .. => by simp [beq]
  | .ptr _ e => by simp [beq, beq_refl e]
  | .seq _ _ _ xs => by simp [beq, beqList_refl xs]
  | .map _ ks vs => by simp [beq, beqList_refl ks, beqList_refl vs]
  | .struct _ _ vs => by simp [beq, beqList_refl vs]
  | .func .. => by simp [beq]
  | .chan .. => by simp [beq]
  | .inil => by simp [beq]
  | .iface e => by simp [beq, beq_refl e]
theorem beqList_refl : ∀ (xs : List EV), beqList xs xs = true
  | [] => by simp [beqList]
  | x :: xs => by simp [beqList, beq_refl x, beqList_refl xs]
end

instance : DecidableEq EV := fun x y =>
  if h : beq x y = true then isTrue (beq_eq x y h)
  else isFalse (fun e => h (e ▸ beq_refl x))

/-! ## What `reflect` answers -/

/-- `reflect.Kind`, as coarse as the comparison code distinguishes it -/
inductive Kind where
  | invalid | prim | other | uintptr | unsafeptr | ptr | seq | map | struct | func | chan | iface
  deriving DecidableEq, Repr, Inhabited

/-- `reflect.Value.Kind()` -/
def kind : EV → Kind
  | .prim .. => .prim
  | .named .. => .other
  | .uptr u _ => if u then .unsafeptr else .uintptr
  | .nilptr _ => .ptr
  | .ptr .. => .ptr
  | .seq .. => .seq
  | .map .. => .map
  | .struct .. => .struct
  | .func .. => .func
  | .chan .. => .chan
  | .inil => .iface
  | .iface _ => .iface

/-- the value part of `derefPtr` (post F12: stops at a nil pointer) -/
def deref : EV → EV
  | .ptr _ e => deref e
  | x => x

/-- `reflect.Value.Interface()` / storing into an `any`: interfaces are de-enveloped, a nil interface is `nil` -/
def unbox : EV → Option EV
  | .iface e => unbox e
  | .inil => none
  | x => some x

/-- `isKnownPrimitive(v.Interface())` -/
def isPrim (v : EV) : Bool :=
  match unbox v with
  | some (.prim ..) => true
  | _ => false

/-- `x.Equal(y)` for two Values whose `Interface()` is a known primitive: same type, same value, not NaN -/
def primEqual (x y : EV) : Bool :=
  match unbox x, unbox y with
  | some (.prim t v n), some (.prim t' v' n') => t == t' && v == v' && !n && !n'
  | _, _ => false

theorem deref_not_ptr : ∀ (x : EV) t e, deref x ≠ .ptr t e
  | .ptr _ e => by intro t' e'; simp only [deref]; exact deref_not_ptr e t' e'
  | .prim .. | .named .. | .uptr .. | .nilptr .. | .seq .. | .map .. | .struct .. | .func .. | .chan .. | .inil | .iface .. => by
      intro t e; simp [deref]

end EV
end Stackage
