import Stackage.Model.Ops
import Stackage.Gen.Facts
import Stackage.Gen.Locks

/-!
# Interleaving model of the content mutators on a mutex-enabled stack (C10)

Granularity: **lock segments**. A call of an exported content mutator is compiled into

* `pre`  — what runs before `lock()`: reads of the shared stack into locals, possibly
           finishing the call at once (read-only, nil argument, nothing to do);
* `crit` — `lock()`; body over the shared stack and the locals; `unlock()`;

and where the validation sits (in `pre` or in `crit`) follows the lock placement that the
extractor reports for the Go source (`Gen.facts`: `locks`, `lockFirst`; `Gen.lockFacts`:
`guardLocked`), see `genLayout`. For a lock-first mutator `crit` **is** the sequential model
`Stk.apply` of `Model/Ops.lean`.

A configuration is the shared `Stk`, the lock holder, and for every thread its remaining
program, its phase and its locals. `step c t` lets thread `t` perform its next segment
(`none`: the thread is finished, or blocked on the lock); `run` executes a schedule.

`sync.Mutex` is an atomic acquire/release with no fairness assumption. Word-level memory
accesses are not represented: a segment is atomic. (DESIGN §7, §8.)
-/

namespace Stackage
namespace Conc

abbrev Tid := Nat

/-- where a mutator takes the lock relative to its validation reads -/
inductive Place where
  | lockFirst       -- lock(); validate; write; unlock()
  | checkThenLock   -- validate; lock(); write; unlock()
  | noLock          -- validate; write
  deriving DecidableEq, Repr

/-- the eight exported content mutators -/
inductive Kind where
  | push | pop | insert | remove | replace | swap | reverse | reset
  deriving DecidableEq, Repr

def Kind.all : List Kind := [.push, .pop, .insert, .remove, .replace, .swap, .reverse, .reset]

def kindOf : ListOp → Kind
  | .push _ => .push
  | .pop => .pop
  | .insert _ _ => .insert
  | .remove _ => .remove
  | .replace _ _ => .replace
  | .swap _ _ => .swap
  | .reverse => .reverse
  | .reset => .reset

abbrev Layout := Kind → Place

/-- the intended layout: every mutator validates and writes under the lock -/
def Layout.lockFirst : Layout := fun _ => .lockFirst

/-! ## The layout of the Go source, from the regenerated facts -/

/-- private function implementing a mutator -/
def Kind.priv : Kind → String
  | .push => "push" | .pop => "pop" | .insert => "insert" | .remove => "remove"
  | .replace => "replace" | .swap => "swap" | .reverse => "reverse" | .reset => "reset"

/-- exported wrapper -/
def Kind.wrapper : Kind → String
  | .push => "Push" | .pop => "Pop" | .insert => "Insert" | .remove => "Remove"
  | .replace => "Replace" | .swap => "Swap" | .reverse => "Reverse" | .reset => "Reset"

def mfact (recv name : String) : Option Gen.MFact :=
  Gen.facts.find? (fun f => f.recv == recv && f.name == name)

def lfact (recv name : String) : Option Gen.LFact :=
  Gen.lockFacts.find? (fun f => f.recv == recv && f.name == name)

/-- the function calls `lock()` in its own body -/
def locksAt (recv name : String) : Bool :=
  match mfact recv name with
  | some f => f.locks
  | none => false

/-- … and does so before every read of the slice -/
def lockedFirst (recv name : String) : Bool :=
  match mfact recv name with
  | some f => f.locks && f.lockFirst
  | none => false

/-- `pop` is the one mutator whose only validation (emptiness) sits in the exported wrapper:
being lock-first is not enough, it must test the length again under the lock -/
def popGuarded : Bool :=
  match lfact "stack" "pop" with
  | some f => f.guardLocked
  | none => false

/-- lock placement of mutator `k` in the Go source as it is now. The lock may be taken by the
private function or by its exported wrapper (`Replace`: `stack.replace` is also called by
`revealDescend` with the lock already held). -/
def genPlace (k : Kind) : Place :=
  let first := lockedFirst "stack" k.priv || lockedFirst "Stack" k.wrapper
  let any := locksAt "stack" k.priv || locksAt "Stack" k.wrapper
  let guarded := k != .pop || popGuarded
  if first && guarded then .lockFirst else if any then .checkThenLock else .noLock

def genLayout : Layout := genPlace

/-! ## Plans: a mutator call as segments -/

/-- values read before the lock is taken -/
structure Locals where
  val : Val := .nil      -- `slice` of remove
  idx : Int := 0         -- `index` of remove
  u1 : Int := 0          -- the user length noted before the lock
  deriving Repr, Inhabited

/-- result of the unlocked prefix of a call -/
inductive PreRes where
  | done (o : Out)        -- the call returns without taking the lock
  | cont (l : Locals)     -- go on to `lock()`
  | fault (f : Fault)

structure Plan where
  locks : Bool
  pre : Stk → PreRes
  crit : Locals → Stk → Except Fault (Stk × Out)

/-- the tests every exported wrapper makes before delegating (read-only, nil argument): true = return at once.
(Until repair F42 `Pop` and `Reverse` also tested `IsEmpty` here, outside the critical section.) -/
def skipPre (s : Stk) : ListOp → Bool
  | .push _ => s.readOnly
  | .pop => s.readOnly
  | .insert x _ => x.isNil || s.readOnly
  | .remove _ => s.readOnly
  | .replace x _ => x.isNil || s.readOnly
  | .swap _ _ => s.readOnly
  | .reverse => s.readOnly
  | .reset => s.readOnly

/-- lock-first: the critical section is the sequential model -/
def planFirst (interp : Nat → Val → Option Nat) (op : ListOp) : Plan :=
  { locks := true
    pre := fun s => if skipPre s op then .done {} else .cont {}
    crit := fun _ s => s.apply interp op }

/-- `stack.pop` without a length test under the lock: on an empty stack `len(*r)-1 = 0` is the
configuration slot (returned and cut off); in FIFO mode `(*r)[1]` is out of range -/
def popUnchecked (s : Stk) : Except Fault (Stk × Out) :=
  match s.xs with
  | [] => if s.cfg.fifo then .error .panic else .error .cfgLost
  | _ :: _ => do let (s', v, ok) ← s.pop; .ok (s', { val := v, ok := ok })

/-- `stack.insert` after the capacity test, with the length `u1` noted before the lock -/
def insertStale (s : Stk) (u1 : Int) (x : Val) (left : Int) : Except Fault (Stk × Bool) :=
  if Gen.insert_append { u1 := u1, left := left } then
    let s' := { s with xs := s.xs ++ [x] }
    .ok (s', Gen.insert_ok_append { u1 := u1, ulen := s'.ulen })
  else
    let left := wrap64 (left + 1)
    if Gen.insert_front { left := left } then
      let s' := { s with xs := x :: s.xs }
      .ok (s', Gen.insert_ok_append { u1 := u1, ulen := s'.ulen })
    else
      if left + 1 > s.rawLen then .error .panic
      else
        let n := (left - 1).toNat
        let s' := { s with xs := s.xs.take n ++ x :: s.xs.drop n }
        .ok (s', Gen.insert_ok_append { u1 := u1, ulen := s'.ulen })

/-- `stack.swap` after the bounds tests -/
def swapUnchecked (s : Stk) (i j : Int) : Except Fault Stk := do
  let i := wrap64 (i + 1)
  let j := wrap64 (j + 1)
  let a ← s.rawGetSlot i
  let b ← s.rawGetSlot j
  let s1 ← s.rawSet i b
  s1.rawSet j a

/-- check-then-lock: validation in `pre`, the locked part trusts what `pre` saw -/
def planCTL (interp : Nat → Val → Option Nat) (op : ListOp) : Plan :=
  match op with
  | .pop =>
    { locks := true
      pre := fun s => if skipPre s .pop then .done {} else .cont {}
      crit := fun _ s => popUnchecked s }
  | .insert x left =>
    { locks := true
      pre := fun s =>
        if skipPre s (.insert x left) then .done {}
        else if Gen.insert_full { u1 := s.ulen, cap := s.cfg.cap } then .done {}
        else .cont { u1 := s.ulen }
      crit := fun l s => do let (s', ok) ← insertStale s l.u1 x left; .ok (s', { ok := ok }) }
  | .remove i =>
    { locks := true
      pre := fun s =>
        if skipPre s (.remove i) then .done {}
        else match s.index i with
          | .error f => .fault f
          | .ok (slice, index, found) =>
            if found then .cont { val := slice, idx := index, u1 := s.ulen }
            else .done { val := slice }
      crit := fun l s =>
        let s' := { s with xs := s.xs.eraseIdx (l.idx - 1).toNat }
        .ok (s', { val := l.val,
                   ok := Gen.remove_ok { slice_nonnil := !l.val.isNil, u1 := l.u1, ulen := s'.ulen } }) }
  | .swap i j =>
    { locks := true
      pre := fun s =>
        if skipPre s (.swap i j) then .done {}
        else if Gen.swap_reject { i := i, j := j, ulen := s.ulen } then .done {}
        else .cont {}
      crit := fun _ s => do let s' ← swapUnchecked s i j; .ok (s', {}) }
  | .reset =>
    { locks := true
      pre := fun s => if skipPre s .reset || s.ulen == 0 then .done {} else .cont {}
      crit := fun _ s => s.apply interp .reset }
  | op => planFirst interp op

/-- the plan of a call under a layout -/
def plan (L : Layout) (interp : Nat → Val → Option Nat) (op : ListOp) : Plan :=
  match L (kindOf op) with
  | .lockFirst => planFirst interp op
  | .checkThenLock => planCTL interp op
  | .noLock => { planFirst interp op with locks := false }

/-! ## Configurations and steps -/

inductive Phase where
  | idle                  -- between calls
  | want (l : Locals)     -- `pre` done, about to call `lock()`
  | crit (l : Locals)     -- holds the lock, body not yet run

structure Thread where
  prog : List ListOp
  phase : Phase := .idle
  outs : List Out := []           -- return values of the finished calls, in program order

structure Config where
  s : Stk
  lock : Option Tid := none
  threads : Tid → Thread
  log : List (Tid × ListOp) := []    -- ghost: calls in the order in which they took effect
  outs : List (Tid × Out) := []      -- ghost: their return values, same order
  fault : Option Fault := none
  unlocked : Nat := 0                -- ghost: bodies run without holding the lock

def Phase.isCrit : Phase → Bool
  | .crit _ => true
  | _ => false

def Config.setThread (c : Config) (t : Tid) (th : Thread) : Config :=
  { c with threads := fun u => if u = t then th else c.threads u }

/-- the current call of thread `t` takes effect: shared state `s'`, return value `o` -/
def Config.commit (c : Config) (t : Tid) (op : ListOp) (rest : List ListOp) (s' : Stk) (o : Out) : Config :=
  { c with
    s := s'
    log := c.log ++ [(t, op)]
    outs := c.outs ++ [(t, o)]
    threads := fun u => if u = t then { prog := rest, phase := .idle, outs := (c.threads t).outs ++ [o] }
                        else c.threads u }

/-- one segment of thread `t`. `none`: nothing to do, blocked on the lock, or the system has faulted. -/
def step (P : ListOp → Plan) (c : Config) (t : Tid) : Option Config :=
  match c.fault with
  | some _ => none
  | none =>
    match (c.threads t).prog with
    | [] => none
    | op :: rest =>
      match (c.threads t).phase with
      | .idle =>
        match (P op).pre c.s with
        | .done o => some (c.commit t op rest c.s o)
        | .cont l => some (c.setThread t { (c.threads t) with phase := .want l })
        | .fault f => some { c with fault := some f }
      | .want l =>
        if (P op).locks then
          match c.lock with
          | none => some { c.setThread t { (c.threads t) with phase := .crit l } with lock := some t }
          | some _ => none
        else
          match (P op).crit l c.s with
          | .ok (s', o) => some { c.commit t op rest s' o with unlocked := c.unlocked + 1 }
          | .error f => some { c with fault := some f }
      | .crit l =>
        match (P op).crit l c.s with
        | .ok (s', o) => some { c.commit t op rest s' o with lock := none }
        | .error f => some { c with fault := some f }

/-- execute a schedule; entries that cannot step are skipped -/
def run (P : ListOp → Plan) (c : Config) : List Tid → Config
  | [] => c
  | t :: ts =>
    match step P c t with
    | some c' => run P c' ts
    | none => run P c ts

/-- initial configuration: shared stack `s`, thread `t` is to run `progs t` -/
def init (s : Stk) (progs : Tid → List ListOp) : Config :=
  { s := s, threads := fun t => { prog := progs t } }

/-- a thread is done -/
def Config.finished (c : Config) (t : Tid) : Bool := (c.threads t).prog.isEmpty

/-- one scheduler turn as the harness grants it: thread `t` leaves its parking place and runs
until it parks again just before a `lock()` or finishes its program (fuel-bounded) -/
def turn (P : ListOp → Plan) (c : Config) (t : Tid) : Nat → Config
  | 0 => c
  | fuel + 1 =>
    match step P c t with
    | none => c
    | some c' =>
      match (c'.threads t).phase, (c'.threads t).prog with
      | .want _, op :: _ => if (P op).locks then c' else turn P c' t fuel
      | _, [] => c'
      | _, _ => if c'.fault.isSome then c' else turn P c' t fuel

def runTurns (P : ListOp → Plan) (c : Config) : List Tid → Config
  | [] => c
  | t :: ts => runTurns P (turn P c t 16) ts

end Conc
end Stackage
