import Stackage.Model.Val
import Stackage.Model.Render

/-!
# `IsEqual`: the default equality assertion (stack.go, cond.go, misc.go), repaired code

Every definition follows the Go function named in its comment. A result is
`Except Fault (Option ErrClass)`: `.error .panic` where the Go code would panic, `.ok none` where it returns a
nil error ("equal"), `.ok (some cls)` where it returns the error whose message is abbreviated by `cls`.

The two operands of `valuesEqual` are treated asymmetrically, as the Go code treats them: the functions
recurse structurally on `x`; of `y` only the outcome of `assertReflect` + `derefPtr` is needed (`EV.Side`).
`valuesEqual` is entered in two ways: with two `any`s (slots of a stack, a condition's expression, struct
fields and map values after `Value.Interface()`), or — from `slicesEqual` only — with two `reflect.Value`s that
have already been dereferenced (`rv = true`). The differences between the two (`x == nil`, what
`assertReflect(x).Kind()` is for a pointer, comparing two boxed `reflect.Value`s with `!=`) are spelled out below.
-/

namespace Stackage

/-- error messages of the equality code, abbreviated -/
inductive ErrClass where
  | notInit          -- "Not initialized"
  | badInput         -- "Cannot perform equality assertion; bad input"
  | capLen           -- "Capacity or length mismatch"
  | kind             -- "Stack kind mismatch"
  | condKw           -- "Condition keyword mismatch"
  | condOp           -- "Condition operator mismatch"
  | condOpCtx        -- "Condition operator (context) mismatch"
  | chanInvalid      -- "Channel(s) invalid"
  | chanKind         -- "Channel kind mismatch"
  | chanType         -- "Channel type mismatch"
  | chanMismatch     -- "Channel mismatch"
  | funcNil          -- "Nil functions incomparable"
  | funcKind         -- "Function kind mismatch"
  | funcType         -- "Function type mismatch"
  | primMismatch     -- "primitive mismatch"
  | primIncomparable -- "primitive incomparable to non-primitive"
  | unsupported      -- "Unsupported type"
  | uptrMismatch     -- "UnsafePointer mismatch"
  | uptrKind         -- "Uintptr or unsafepointer kind mismatch"
  | cannotConvert    -- "Cannot compare stackage instances, cannot convert"
  | mapNonMap        -- "Cannot compare non-map instances"
  | mapType          -- "Map type mismatch"
  | mapLen           -- "Map length mismatch"
  | mapKey           -- "Map key mismatch"
  | structType       -- "Struct type mismatch"
  | structNum        -- "Struct field number mismatch"
  | structVis        -- "Struct field visibility mismatch"
  | structAnon       -- "Struct anonymous field mismatch failed"
  | seqKind          -- "Slice/array kind mismatch"
  | seqCapLen        -- "Slice/array capacity or length mismatch"
  | user (n : Nat)   -- error returned by a user-supplied EqualityPolicy
  deriving DecidableEq, Repr, Inhabited

abbrev EqRes := Except Fault (Option ErrClass)

namespace EV

/-- the operand `y` after `assertReflect` and `derefPtr` -/
structure Side where
  /-- the dereferenced `reflect.Value`; `none` = invalid (y is a nil `any`) -/
  d : Option EV
  /-- `assertReflect(y)`'s Kind, i.e. without dereferencing (what `functionsEqual` / `channelsEqual` look at) -/
  ok : Kind
  deriving Repr

/-- y is an `any` obtained by `w.Interface()` (or a stack slot holding `w`) -/
def sideAny (w : EV) : Side :=
  match unbox w with
  | none => ⟨none, .invalid⟩
  | some e => ⟨some (deref e), kind e⟩

/-- y is the `reflect.Value` `derefPtr(w)` handed over by `slicesEqual` -/
def sideVal (w : EV) : Side := ⟨some (deref w), kind (deref w)⟩

def Side.kind (s : Side) : Kind :=
  match s.d with
  | none => .invalid
  | some d => d.kind

/-- `functionsEqual(x, y)`: `xd` the (dereferenced) x or `none` for a nil `any`, `xok` the Kind of x as passed -/
def functionsEqual (xd : Option EV) (xok : Kind) (y : Side) : Option ErrClass :=
  if xd.isNone || y.d.isNone then some .funcNil
  else if xok != .func || y.ok != .func then some .funcKind
  else match xd, y.d with
    | some (.func t _), some (.func t' _) => if t != t' then some .funcType else none
    | _, _ => some .funcKind

/-- `channelsEqual(x, y)`. When x and y are boxed `reflect.Value`s (`rv`), `x != y` compares the two Value
headers, which point into two different backing stores: always a mismatch for independently built operands. -/
def channelsEqual (rv : Bool) (xd : Option EV) (xok : Kind) (y : Side) : Option ErrClass :=
  if xd.isNone || y.d.isNone then some .chanInvalid
  else if xok != .chan || y.ok != .chan then some .chanKind
  else match xd, y.d with
    | some (.chan t i), some (.chan t' i') =>
        if t != t' then some .chanType
        else if rv || i != i' then some .chanMismatch
        else none
    | _, _ => some .chanKind

/-- `uuptrsEqual(l, k, a, b)` -/
def uuptrsEqual (l k : Kind) (a b : Option EV) : Option ErrClass :=
  if l == k then
    match a, b with
    | some (.uptr _ n), some (.uptr _ n') => if n != n' then some .uptrMismatch else none
    | _, _ => some .uptrMismatch
  else some .uptrKind

/-- `matchExtra(l, k, a, b, x, y)` -/
def matchExtra (rv : Bool) (xd : Option EV) (xok : Kind) (y : Side) : Option ErrClass :=
  let l : Kind := match xd with | none => .invalid | some d => d.kind
  match y.kind with
  | .func => functionsEqual xd xok y
  | .chan => channelsEqual rv xd xok y
  | .uintptr => uuptrsEqual l .uintptr xd y.d
  | .unsafeptr => uuptrsEqual l .unsafeptr xd y.d
  | _ => some .unsupported

/-- `valuesEqual` for an x that is neither struct, slice/array nor map: `primitivesEqual`, then `matchExtra` -/
def scalarEq (rv : Bool) (xd : Option EV) (xok : Kind) (y : Side) : Option ErrClass :=
  match xd, y.d with
  | some d, some yd =>
      if d.isPrim then
        (if yd.isPrim then (if primEqual d yd then none else some .primMismatch) else some .primIncomparable)
      else matchExtra rv xd xok y
  | _, _ => matchExtra rv xd xok y

/-- Kind of x as `assertReflect(x)` alone sees it: a pointer if `derefPtr` stripped one from an `any` -/
def xkind (rv sp : Bool) (d : EV) : Kind := if !rv && sp then .ptr else d.kind

/-- a NaN is not equal to itself -/
def selfEqual : EV → Bool
  | .prim _ _ n => !n
  | _ => true

/-- NaN keys are never found by `MapIndex` -/
def keyEq (k k' : EV) : Bool := decide (k = k') && selfEqual k

/-- `yrv.MapIndex(key)` (`none` = the invalid Value) -/
def lookup (k : EV) : List EV → List EV → Option EV
  | k' :: ks, v :: vs => if keyEq k k' then some v else lookup k ks vs
  | _, _ => none

mutual
/-- `valuesEqual(x, y)`. `rv`: both are `reflect.Value`s coming from `slicesEqual`; `sp`: `derefPtr` has already
stripped a non-nil pointer from an `any` x (so from here on we are looking at a Value, not at an `any`). -/
def veq (rv sp : Bool) (x : EV) (y : Side) : EqRes :=
  match x, y with
  | .ptr _ e, y => veq rv (sp || !rv) e y                           -- derefPtr
  | .iface e, y =>
      if rv || sp then .ok (scalarEq rv (some (.iface e)) (xkind rv sp (.iface e)) y)   -- Kind Interface
      else veq rv sp e y                                            -- an `any` holds the dynamic value
  | .inil, y =>
      if rv || sp then .ok (scalarEq rv (some .inil) (xkind rv sp .inil) y)
      else if y.d.isNone then .ok none                              -- x == nil && y == nil
      else .ok (scalarEq rv none .invalid y)
  | .prim t v n, y => .ok (scalarEq rv (some (.prim t v n)) (xkind rv sp (.prim t v n)) y)
  | .named t v, y => .ok (scalarEq rv (some (.named t v)) (xkind rv sp (.named t v)) y)
  | .uptr u n, y => .ok (scalarEq rv (some (.uptr u n)) (xkind rv sp (.uptr u n)) y)
  | .nilptr t, y => .ok (scalarEq rv (some (.nilptr t)) (xkind rv sp (.nilptr t)) y)
  | .func t i, y => .ok (scalarEq rv (some (.func t i)) (xkind rv sp (.func t i)) y)
  | .chan t i, y => .ok (scalarEq rv (some (.chan t i)) (xkind rv sp (.chan t i)) y)
  | .seq _ _ c xs, y =>                                             -- slicesEqual
      match y.d with
      | some (.seq _ _ c' ys) =>
          if Gen.capLenEqual c c' xs.length ys.length then seqLoop xs ys
          else .ok (some .seqCapLen)
      | _ => .ok (some .seqKind)
  | .map t ks vs, y =>                                              -- mapsEqual
      match y.d with
      | some (.map t' ks' vs') =>
          if t != t' then .ok (some .mapType)
          else if ks.length != ks'.length then .ok (some .mapLen)
          else mapLoop ks vs ks' vs'
      | _ => .ok (some .mapNonMap)
  | .struct _ fs vs, y =>                                           -- (stackageStructsEqual: not tried) structsEqual
      match y.d with
      | some (.struct _ gs ws) =>
          if fs.length != gs.length then .ok (some .structNum)
          else structLoop fs vs gs ws
      | _ => .ok (some .structType)
termination_by structural x

/-- the loop of `slicesEqual`: elements are dereferenced, then compared as `reflect.Value`s -/
def seqLoop (xs ys : List EV) : EqRes :=
  match xs, ys with
  | [], _ => .ok none
  | x :: xs, y :: ys =>
      match veq true false x (sideVal y) with
      | .ok none => seqLoop xs ys
      | r => r
  | _ :: _, [] => .error .panic          -- yrv.Index(i) out of range (excluded by the length test)
termination_by structural xs

/-- the loop of `mapsEqual` over the keys of x -/
def mapLoop (ks vs ks' vs' : List EV) : EqRes :=
  match ks, vs, ks', vs' with
  | [], _, _, _ => .ok none
  | k :: ks, v :: vs, ks', vs' =>
      match lookup k ks' vs' with
      | none => .ok (some .mapKey)
      | some w =>
          match veq false false v (sideAny w) with
          | .ok none => mapLoop ks vs ks' vs'
          | r => r
  | _ :: _, [], _, _ => .error .panic    -- a key without a value: not a Go map
termination_by structural vs

/-- the loop of `structsEqual` -/
def structLoop (fs : List Fld) (vs : List EV) (gs : List Fld) (ws : List EV) : EqRes :=
  match fs, vs, gs, ws with
  | [], _, _, _ => .ok none
  | f :: fs, v :: vs, g :: gs, w :: ws =>
      if !f.exported && !g.exported then structLoop fs vs gs ws                     -- private fields are not compared
      else if f.exported != g.exported then .ok (some .structVis)                   -- an exported field never matches a private one
      else if f.name != g.name && !(f.anon && g.anon) then .ok (some .structAnon)
      else
        match veq false false v (sideAny w) with
        | .ok none => structLoop fs vs gs ws
        | r => r
  | _ :: _, _, _, _ => .error .panic     -- Field(i) out of range / metadata without a value: not a Go struct
termination_by structural vs
end

end EV

/-! ## Stack slots and condition expressions -/

def numTy (ty : Nat) : Nat := if ty == 1 then 12 else if ty == 2 then 6 else if ty == 3 then 2 else 0

def natText (n : Nat) : Text := (toString n).toList
def intText (i : Int) : Text := (toString i).toList

/-- the pre-existing leaf constructors as `reflect` sees their harness counterparts (`harness/val.go: Build`) -/
def Leaf.toEV : Leaf → EV
  | .str s => .prim 16 s false
  | .int i => .prim 1 (intText i) false
  | .bool b => .prim 15 (if b then "true".toList else "false".toList) false
  | .num ty text => .prim (numTy ty) text (text == "NaN".toList)
  | .stringer id text zero =>
      .struct 100 [⟨"ID".toList, true, false⟩, ⟨"S".toList, true, false⟩]
        [.prim 1 (if zero then natText 0 else natText id) false, .prim 16 (if zero then [] else text) false]
  | .opaque cls id =>
      if cls == 1 then .func 2 id
      else if cls == 2 then .chan 1 id
      else if cls == 3 then .struct 101 [⟨"A".toList, true, false⟩, ⟨"b".toList, false, false⟩] [.prim 1 (natText id) false, .prim 1 (natText id) false]
      else if cls == 4 then .map 1 [.prim 16 "k".toList false] [.prim 1 (natText id) false]
      else if cls == 5 then .nilptr 1
      else if cls == 6 then .seq false 1 1 [.prim 1 (natText id) false]
      else .ptr 0 (.struct 102 [⟨"Cls".toList, true, false⟩, ⟨"ID".toList, true, false⟩, ⟨"_".toList, false, false⟩]
                    [.prim 1 (natText cls) false, .prim 1 (natText id) false, .func 1 0])
  | .ev e => e

/-- `type Stack struct{ *stack }` / `type Condition struct{ *condition }` and their aliases, as plain structs:
one embedded unexported pointer field -/
def handleFld (isCond : Bool) : Fld := ⟨if isCond then "condition".toList else "stack".toList, false, true⟩

def handleCore (isCond : Bool) : EV := .struct (if isCond then 201 else 200) [handleFld isCond] [.nilptr 0]

def handleStruct (isCond : Bool) (f : Form) : EV :=
  match f with
  | .ptr => .ptr 0 (handleCore isCond)
  | _ => handleCore isCond

/-- capacity of a `[]any` grown by `append` one element at a time from `[]any{}` (lengths ≤ 256) -/
def anysCap (n : Nat) : Nat := if n == 0 then 0 else Nat.nextPowerOfTwo n

/-- an Operator value held in an `any`: nil, a `ComparisonOperator` (a declared `uint8`: never a known primitive), or the
harness's user operator `UOp{ID int; Str, Ctx string}` -/
def opEV : Op → EV
  | .none => .inil
  | .cmp c => .named 900 (natText c)
  | .user id s c => .struct 103 [⟨"ID".toList, true, false⟩, ⟨"Str".toList, true, false⟩, ⟨"Ctx".toList, true, false⟩]
      [.prim 1 (natText id) false, .prim 16 s false, .prim 16 c false]

/-- an element of a `[]any` as a `reflect.Value` of Kind Interface -/
def Val.anyElem : Val → EV
  | .nil => .inil
  | .leaf l => (match EV.unbox l.toEV with | none => .inil | some e => .iface e)
  | .stk f _ _ => .iface (handleStruct false f)
  | .zstk f => .iface (handleStruct false f)
  | .cnd f _ _ _ _ => .iface (handleStruct true f)
  | .zcnd f => .iface (handleStruct true f)
  | .anys _ => .iface (.seq false 4 0 [])
  | .opv o => (match EV.unbox (opEV o) with | none => .inil | some e => .iface e)

/-- a slot value as `reflect` sees it when it is *not* taken for a stackage instance -/
def Val.toEV : Val → EV
  | .nil => .inil
  | .leaf l => l.toEV
  | .stk f _ _ => handleStruct false f
  | .zstk f => handleStruct false f
  | .cnd f _ _ _ _ => handleStruct true f
  | .zcnd f => handleStruct true f
  | .anys xs => .seq false 4 (anysCap xs.length) (xs.map Val.anyElem)
  | .opv o => opEV o

/-- what `stack.isEqual` compares of the two kinds: the stack type, named here by its (unfolded) kind word. After
repair F41 the comparison no longer goes through `kind()`, whose text depends on the case-folding option. -/
def Cfg.kindStr (c : Cfg) : Text :=
  if c.kind ∈ [Gen.kind_and, Gen.kind_or, Gen.kind_not, Gen.kind_list, Gen.kind_cond, Gen.kind_basic] then
    Gen.kindWord c.kind
  else "null".toList

/-! `Op.text` / `Op.ctx` (`Operator.String()` / `.Context()`) are defined in `Model/Render.lean`. -/

def Op.isNil : Op → Bool
  | .none => true
  | _ => false

/-- the part of `condition.isEqual` before the expressions are compared -/
def condHead (kw : Text) (op : Op) (kw' : Text) (op' : Op) : Option ErrClass :=
  if kw != kw' then some .condKw
  else if op.isNil != op'.isNil then some .condOp
  else if !op.isNil && op.text != op'.text then some .condOp
  else if !op.isNil && op.ctx != op'.ctx then some .condOpCtx
  else none

/-- the part of `stack.isEqual` before the slots are compared (`r.len()` counts the configuration slot) -/
def stackHead (c : Cfg) (n : Nat) (c' : Cfg) (n' : Nat) : Option ErrClass :=
  if !Gen.capLenEqual c.cap c'.cap ((n : Int) + 1) ((n' : Int) + 1) then some .capLen
  else if c.kindStr != c'.kindStr then some .kind
  else none

/-- meaning of an installed EqualityPolicy: policy id, receiver, argument ↦ its result -/
abbrev EqHook := Nat → Val → Val → Option ErrClass

/-- `stackTypeAliasConverter(y)` or `conditionTypeAliasConverter(y)` succeeds (a zero-valued instance does not convert) -/
def Val.converts (y : Val) : Bool := y.isStack || y.isCond

/-- x, as an `any`, dereferences to a struct (`xrk == reflect.Struct` in `valuesEqual`) -/
def isStructAny (xe : EV) : Bool :=
  match (EV.sideAny xe).d with
  | some (.struct ..) => true
  | _ => false

/-- `valuesEqual(x, y)` for an x that is not an initialised Stack / Condition: a struct never equals a stackage
instance on its right (repair K-C05-2); everything else goes by what `reflect` sees of y -/
def leafVeq (xe : EV) (y : Val) : EqRes :=
  if isStructAny xe && y.converts then .ok (some .cannotConvert)
  else EV.veq false false xe (EV.sideAny y.toEV)

mutual
/-- `valuesEqual(x, y)` for two stack slots / two condition expressions -/
def Val.veq (hook : EqHook) : Val → Val → EqRes
  | .stk _ c xs, y =>                                    -- stackageStructsEqual: x converts to a Stack
      match y with
      | .stk _ c' ys =>                                  -- ist.IsEqual(jst)
          match c.eqf with
          | some p => .ok (hook p (.stk .native c xs) (.stk .native c' ys))
          | none =>
              match stackHead c xs.length c' ys.length with
              | some e => .ok (some e)
              | none => stkLoop hook xs ys
      | _ => .ok (some .cannotConvert)
  | .cnd _ c kw op ex, y =>                              -- stackageStructsEqual: x converts to a Condition
      match y with
      | .cnd _ c' kw' op' ex' =>                         -- icd.IsEqual(jcd)
          if c.kind != Gen.kind_cond then .ok (some .notInit)
          else match c.eqf with
            | some p => .ok (hook p (.cnd .native c kw op ex) (.cnd .native c' kw' op' ex'))
            | none =>
                match condHead kw op kw' op' with
                | some e => .ok (some e)
                | none => Val.veq hook ex ex'
      | _ => .ok (some .cannotConvert)
  | .nil, y => leafVeq .inil y
  | .leaf l, y => leafVeq l.toEV y
  | .zstk f, y => leafVeq (handleStruct false f) y
  | .zcnd f, y => leafVeq (handleStruct true f) y
  | .anys xs, y => leafVeq (Val.toEV (.anys xs)) y
  | .opv o, y => leafVeq (opEV o) y

/-- the loop of `stack.isEqual`: `valuesEqual(r.index(i), o.index(i))` for `i < r.ulen()` -/
def stkLoop (hook : EqHook) : List Val → List Val → EqRes
  | [], _ => .ok none
  | x :: xs, y :: ys =>
      match Val.veq hook x y with
      | .ok none => stkLoop hook xs ys
      | r => r
  | _ :: _, [] => .error .panic   -- o.index(i) past o's end: excluded by the length test (C05_total: never taken)
end

/-- `stack.isEqual(o)`: pointer short-cut, capacity / length, kind, then slot by slot -/
def Stk.isEqual (hook : EqHook) (same : Bool) (r o : Stk) : EqRes :=
  if same then .ok none
  else match stackHead r.cfg r.xs.length o.cfg o.xs.length with
    | some e => .ok (some e)
    | none => stkLoop hook r.xs o.xs

/-- `condition.isEqual(o)`: keyword, operator (nil-safe, F9c), expression -/
def condIsEqual (hook : EqHook) (kw : Text) (op : Op) (ex : Val) (kw' : Text) (op' : Op) (ex' : Val) : EqRes :=
  match condHead kw op kw' op' with
  | some e => .ok (some e)
  | none => Val.veq hook ex ex'

/-- a Stack or Condition handle (possibly zero-valued): something that has an `IsEqual` method -/
def Val.isHandle : Val → Bool
  | .stk .. | .zstk _ | .cnd .. | .zcnd _ => true
  | _ => false

/-- the exported `Stack.IsEqual(o)` / `Condition.IsEqual(o)` with receiver `a`.
`same` = the two handles wrap the same `*stack` (the `r == o` short-cut of `stack.isEqual`). -/
def Val.IsEqual (hook : EqHook) (same : Bool) : Val → Val → EqRes
  | .stk _ c xs, o =>
      match o with
      | .stk f' c' ys =>
          match c.eqf with
          | some p => .ok (hook p (.stk .native c xs) (.stk f' c' ys))
          | none =>
              if same then .ok none
              else match stackHead c xs.length c' ys.length with
                | some e => .ok (some e)
                | none => stkLoop hook xs ys
      | _ => .ok (some .badInput)
  | .zstk _, _ => .ok (some .notInit)
  | .cnd _ c kw op ex, o =>
      if c.kind != Gen.kind_cond then .ok (some .notInit)
      else match o with
        | .cnd f' c' kw' op' ex' =>
            match c.eqf with
            | some p => .ok (hook p (.cnd .native c kw op ex) (.cnd f' c' kw' op' ex'))
            | none =>
                match condHead kw op kw' op' with
                | some e => .ok (some e)
                | none => Val.veq hook ex ex'
        | _ => .ok (some .badInput)
  | .zcnd _, _ => .ok (some .notInit)
  | _, _ => .error .panic         -- not a handle: there is no such method (theorems assume `isHandle`)

/-- in default mode `Stack.IsEqual` is `stack.isEqual` on the converted argument -/
theorem Val.IsEqual_stk (hook : EqHook) (same : Bool) (f f' : Form) (c c' : Cfg) (xs ys : List Val) (h : c.eqf = none) :
    Val.IsEqual hook same (.stk f c xs) (.stk f' c' ys) = Stk.isEqual hook same ⟨c, xs⟩ ⟨c', ys⟩ := by
  simp only [Val.IsEqual, h, Stk.isEqual]

/-- in default mode `Condition.IsEqual` is `condition.isEqual` on the converted argument -/
theorem Val.IsEqual_cnd (hook : EqHook) (same : Bool) (f f' : Form) (c c' : Cfg) (kw kw' : Text) (op op' : Op) (ex ex' : Val)
    (hk : c.kind = Gen.kind_cond) (h : c.eqf = none) :
    Val.IsEqual hook same (.cnd f c kw op ex) (.cnd f' c' kw' op' ex') = condIsEqual hook kw op ex kw' op' ex' := by
  simp only [Val.IsEqual, hk, h, condIsEqual, bne_self_eq_false, Bool.false_eq_true, ↓reduceIte]

/-- `slicesEqual` on a leaf that is a slice / array of Stack or Condition handles (`[]Stack`, `[n]Condition`, …; after
repair F33 every element pair goes through the exported `IsEqual`): the lengths agree and every pair is equal. The
loop stops at the first error, so the verdict is the conjunction. -/
def handlesEqual (hook : EqHook) : List Val → List Val → Bool
  | [], [] => true
  | a :: as, b :: bs => (match Val.IsEqual hook false a b with | .ok none => true | _ => false) && handlesEqual hook as bs
  | _, _ => false

end Stackage
