import Stackage.Model.Options
import Stackage.Model.Cond
import Stackage.Gen.Facts
import Stackage.Gen.Opts

/-!
# The alphabet of exported methods and the guard skeleton every one of them follows
(C09 read-only, C11 queries, C17 zero / freed instances)

Every exported method of `Stack` and `Condition` is listed with its *class* — the shape of the
guards at its head — and with the result it returns on a zero-valued or freed receiver. The
tables are compared with the regenerated method facts (`Gen.facts`) by `decide`
(`Props/C09.lean`), and with the methods that reflection finds in the real package (the sweep
streams refuse to run a method the tables do not know).
-/

namespace Stackage

inductive MClass where
  | query        -- reads only
  | guarded      -- `if r.IsInit() { if !r.getState(ronly) { … } }`
  | setState     -- tri-state option setter through `setState` (blocked by read-only)
  | setReadOnly  -- tri-state setter of the read-only flag itself (documented exception)
  | setErr       -- `SetErr` (documented exception: no read-only guard)
  | free         -- `Free`: releases unless read-only, then an error
  | marshal      -- `(*Stack).Marshal`: initialises a zero receiver; otherwise goes through `Push`
  | init         -- `(*Condition).Init`: replaces the instance
  deriving DecidableEq, Repr

structure MethodInfo where
  name : String
  cls : MClass
  zero : String        -- result on a zero-valued / freed receiver, as printed by the sweep harness
  deriving Repr

def stackMethods : List MethodInfo := [
  ⟨"Addr", .query, "$307830"⟩,
  ⟨"Auxiliary", .query, "x-"⟩,
  ⟨"Avail", .query, "#0"⟩,
  ⟨"Back", .query, "N,b0"⟩,
  ⟨"CanMutex", .query, "b0"⟩,
  ⟨"CanNest", .query, "b0"⟩,
  ⟨"Cap", .query, "#0"⟩,
  ⟨"CapReached", .query, "b0"⟩,
  ⟨"Category", .query, "$-"⟩,
  ⟨"Delimiter", .query, "$-"⟩,
  ⟨"Err", .query, "e0"⟩,
  ⟨"Front", .query, "N,b0"⟩,
  ⟨"ID", .query, "$756e737065636966696564"⟩,
  ⟨"Index", .query, "N,b0"⟩,
  ⟨"IsEmpty", .query, "b1"⟩,
  ⟨"IsEncap", .query, "b0"⟩,
  ⟨"IsEqual", .query, "e1"⟩,
  ⟨"IsFIFO", .query, "b0"⟩,
  ⟨"IsFull", .query, "b0"⟩,
  ⟨"IsInit", .query, "b0"⟩,
  ⟨"IsNesting", .query, "b0"⟩,
  ⟨"IsPadded", .query, "b1"⟩,
  ⟨"IsParen", .query, "b0"⟩,
  ⟨"IsReadOnly", .query, "b0"⟩,
  ⟨"IsZero", .query, "b1"⟩,
  ⟨"Kind", .query, "$3c696e76616c69645f737461636b3e"⟩,
  ⟨"Len", .query, "#0"⟩,
  ⟨"Less", .query, "b0"⟩,
  ⟨"LogLevels", .query, "$-"⟩,
  ⟨"Logger", .query, "l0"⟩,
  ⟨"String", .query, "$-"⟩,
  ⟨"Traverse", .query, "N,b0"⟩,
  ⟨"Unmarshal", .query, "A-,e0"⟩,
  ⟨"Valid", .query, "e1"⟩,
  ⟨"Transfer", .query, "b0"⟩,
  ⟨"SetParen", .setState, "self0"⟩,
  ⟨"Paren", .setState, "self0"⟩,
  ⟨"SetFold", .setState, "self0"⟩,
  ⟨"Fold", .setState, "self0"⟩,
  ⟨"SetNoPadding", .setState, "self0"⟩,
  ⟨"NoPadding", .setState, "self0"⟩,
  ⟨"SetLeadOnce", .setState, "self0"⟩,
  ⟨"LeadOnce", .setState, "self0"⟩,
  ⟨"SetNegativeIndices", .setState, "self0"⟩,
  ⟨"NegativeIndices", .setState, "self0"⟩,
  ⟨"SetForwardIndices", .setState, "self0"⟩,
  ⟨"ForwardIndices", .setState, "self0"⟩,
  ⟨"SetNoNesting", .setState, "self0"⟩,
  ⟨"NoNesting", .setState, "self0"⟩,
  ⟨"SetReadOnly", .setReadOnly, "self0"⟩,
  ⟨"ReadOnly", .setReadOnly, "self0"⟩,
  ⟨"SetErr", .setErr, "self0"⟩,
  ⟨"Free", .free, "e0"⟩,
  ⟨"Marshal", .marshal, "?"⟩,
  ⟨"Push", .guarded, "self0"⟩,
  ⟨"Pop", .guarded, "N,b0"⟩,
  ⟨"Insert", .guarded, "b0"⟩,
  ⟨"Remove", .guarded, "N,b0"⟩,
  ⟨"Replace", .guarded, "b0"⟩,
  ⟨"Swap", .guarded, "-"⟩,
  ⟨"Reverse", .guarded, "self0"⟩,
  ⟨"Reset", .guarded, "-"⟩,
  ⟨"Defrag", .guarded, "self0"⟩,
  ⟨"Reveal", .guarded, "self0"⟩,
  ⟨"SetAuxiliary", .guarded, "self0"⟩,
  ⟨"SetCategory", .guarded, "self0"⟩,
  ⟨"SetDelimiter", .guarded, "self0"⟩,
  ⟨"SetEncap", .guarded, "self0"⟩,
  ⟨"Encap", .guarded, "self0"⟩,
  ⟨"SetEqualityPolicy", .guarded, "self0"⟩,
  ⟨"SetFIFO", .guarded, "self0"⟩,
  ⟨"SetID", .guarded, "self0"⟩,
  ⟨"SetLessFunc", .guarded, "self0"⟩,
  ⟨"SetLogLevel", .guarded, "self0"⟩,
  ⟨"SetLogger", .guarded, "self0"⟩,
  ⟨"SetMarshaler", .guarded, "self0"⟩,
  ⟨"SetMutex", .guarded, "self0"⟩,
  ⟨"Mutex", .guarded, "self0"⟩,
  ⟨"SetPresentationPolicy", .guarded, "self0"⟩,
  ⟨"SetPushPolicy", .guarded, "self0"⟩,
  ⟨"SetSymbol", .guarded, "self0"⟩,
  ⟨"Symbol", .guarded, "self0"⟩,
  ⟨"SetUnmarshaler", .guarded, "self0"⟩,
  ⟨"SetValidityPolicy", .guarded, "self0"⟩,
  ⟨"UnsetLogLevel", .guarded, "self0"⟩
]

def condMethods : List MethodInfo := [
  ⟨"Addr", .query, "$-"⟩,
  ⟨"Auxiliary", .query, "x-"⟩,
  ⟨"CanNest", .query, "b0"⟩,
  ⟨"Category", .query, "$-"⟩,
  ⟨"Err", .query, "e0"⟩,
  ⟨"Evaluate", .query, "N,e0"⟩,
  ⟨"Expression", .query, "N"⟩,
  ⟨"ID", .query, "$-"⟩,
  ⟨"IsEncap", .query, "b0"⟩,
  ⟨"IsEqual", .query, "e1"⟩,
  ⟨"IsFIFO", .query, "b0"⟩,
  ⟨"IsInit", .query, "b0"⟩,
  ⟨"IsNesting", .query, "b0"⟩,
  ⟨"IsPadded", .query, "b1"⟩,
  ⟨"IsParen", .query, "b0"⟩,
  ⟨"IsReadOnly", .query, "b0"⟩,
  ⟨"IsZero", .query, "b1"⟩,
  ⟨"Keyword", .query, "$-"⟩,
  ⟨"Len", .query, "#0"⟩,
  ⟨"LogLevels", .query, "$-"⟩,
  ⟨"Logger", .query, "l0"⟩,
  ⟨"Operator", .query, "O-"⟩,
  ⟨"String", .query, "$-"⟩,
  ⟨"Unmarshal", .query, "A-,e0"⟩,
  ⟨"Valid", .query, "e1"⟩,
  ⟨"SetParen", .setState, "self0"⟩,
  ⟨"Paren", .setState, "self0"⟩,
  ⟨"SetNoPadding", .setState, "self0"⟩,
  ⟨"NoPadding", .setState, "self0"⟩,
  ⟨"SetNoNesting", .setState, "self0"⟩,
  ⟨"NoNesting", .setState, "self0"⟩,
  ⟨"SetReadOnly", .setReadOnly, "self0"⟩,
  ⟨"SetErr", .setErr, "self0"⟩,
  ⟨"Free", .free, "e0"⟩,
  ⟨"Init", .init, "?"⟩,
  ⟨"SetAuxiliary", .guarded, "self0"⟩,
  ⟨"SetCategory", .guarded, "self0"⟩,
  ⟨"SetEncap", .guarded, "self0"⟩,
  ⟨"Encap", .guarded, "self0"⟩,
  ⟨"SetEqualityPolicy", .guarded, "self0"⟩,
  ⟨"SetEvaluator", .guarded, "self0"⟩,
  ⟨"SetExpression", .guarded, "self0"⟩,
  ⟨"SetID", .guarded, "self0"⟩,
  ⟨"SetKeyword", .guarded, "self0"⟩,
  ⟨"SetLogLevel", .guarded, "self0"⟩,
  ⟨"SetLogger", .guarded, "self0"⟩,
  ⟨"SetOperator", .guarded, "self0"⟩,
  ⟨"SetPresentationPolicy", .guarded, "self0"⟩,
  ⟨"SetUnmarshaler", .guarded, "self0"⟩,
  ⟨"SetValidityPolicy", .guarded, "self0"⟩,
  ⟨"UnsetLogLevel", .guarded, "self0"⟩
]

def MethodInfo.find (tbl : List MethodInfo) (n : String) : Option MethodInfo := tbl.find? (·.name == n)

/-- classification of an exported method that is NOT in the tables (added to the source later), from the
regenerated facts alone: a method from which no write through a receiver / configuration and no `lock()` is
reachable is a query; one that tests the read-only flag itself is a guarded mutator; anything else cannot be
classified (and the completeness theorems fail). The zero result of such a method is unknown ("?"). -/
def autoClass (recv name : String) : Option MethodInfo :=
  match Gen.facts.find? (fun f => f.recv == recv && f.name == name && f.exported) with
  | some f =>
    if !f.reachWrite && !f.reachLock && !f.writes && (f.initGuard || f.getState || f.delegates != "" || f.viaExported) then some ⟨name, .query, "?"⟩
    else if f.ronlyGuard && f.initGuard then some ⟨name, .guarded, "?"⟩
    else none
  | none => none

/-- table first, facts-derived classification second -/
def MethodInfo.findOrAuto (tbl : List MethodInfo) (recv n : String) : Option MethodInfo :=
  match MethodInfo.find tbl n with
  | some m => some m
  | none => autoClass recv n

/-- an argument of a call (only what the skeleton needs to see) -/
inductive Arg where
  | int (i : Int) | str (s : Text) | bool (b : Bool) | err (e : Option Nat) | id (n : Nat) | val (v : Val) | op (o : Op)
  deriving Repr

/-- the behaviour of the method bodies *inside* the guards: arbitrary -/
structure StackSem where
  query : Stk → String → List Arg → String
  mutate : Stk → String → List Arg → Stk × String
  marshalZero : List Arg → Option Stk × String
  marshalInit : Stk → List Arg → Stk × String -- what Marshal does to a writable initialised receiver (through Push)

/-- which option a tri-state setter addresses: the regenerated (receiver, method, flag) table -/
def triFlag (recv name : String) : Nat :=
  match Gen.triState.find? (fun t => t.1 == recv && t.2.1 == name) with
  | some t => t.2.2
  | none => 0

def triArg : List Arg → Option Bool
  | .bool b :: _ => some b
  | _ => none

/-- one exported `Stack` method call on a handle (`none` = zero-valued or freed) -/
def stackStep (sem : StackSem) (h : Option Stk) (m : MethodInfo) (args : List Arg) : Option Stk × String :=
  match h with
  | none =>
    (match m.cls with
     | .marshal => sem.marshalZero args
     | _ => (none, m.zero))
  | some s =>
    match m.cls with
    | .query => (some s, sem.query s m.name args)
    | .guarded => if s.readOnly then (some s, "ro") else let r := sem.mutate s m.name args; (some r.1, r.2)
    | .setState => (some (s.setState (triFlag "Stack" m.name) (triArg args)), "self1")
    | .setReadOnly => (some (s.setState Gen.flag_ronly (triArg args)), "self1")
    | .setErr => (some { s with cfg := { s.cfg with err := match args with | .err e :: _ => e | _ => s.cfg.err } }, "self1")
    | .free => if s.readOnly then (some s, "e1") else (none, "e0")
    | .marshal => if s.readOnly then (some s, "ro") else let r := sem.marshalInit s args; (some r.1, r.2)
    | .init => (some s, "n/a")

structure CondSem where
  query : Cnd → String → List Arg → String
  mutate : Cnd → String → List Arg → Cnd × String

def condStep (sem : CondSem) (h : Option Cnd) (m : MethodInfo) (args : List Arg) : Option Cnd × String :=
  match m.cls with
  | .init => (some Cnd.init, "self1")
  | _ =>
    match h with
    | none => (none, m.zero)
    | some c =>
      match m.cls with
      | .query => (some c, sem.query c m.name args)
      | .guarded => if c.readOnly then (some c, "ro") else let r := sem.mutate c m.name args; (some r.1, r.2)
      | .setState => (some { c with cfg := c.cfg.setState (triFlag "Condition" m.name) (triArg args) }, "self1")
      | .setReadOnly => (some { c with cfg := c.cfg.setState Gen.flag_ronly (triArg args) }, "self1")
      | .setErr => (some { c with cfg := { c.cfg with err := match args with | .err e :: _ => e | _ => c.cfg.err } }, "self1")
      | .free => if c.readOnly then (some c, "e1") else (none, "e0")
      | _ => (some c, "n/a")

end Stackage
