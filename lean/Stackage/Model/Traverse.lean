import Stackage.Model.Render
import Stackage.Spec.ListSpec

/-!
# Traverse (C07): `stack.traverse`, `traverseAssertionHandler`, `traverseStack`, `traverseStackInCondition`
-/

namespace Stackage

/-- `stack.valid()` on an initialised stack: the validity policy, if any, accepts it -/
def Stk.valid (K : Closures) (s : Stk) : Bool :=
  match s.cfg.vpf with
  | some p => (K.valid p).isNone
  | none => true

/-- the stack a value lets Traverse descend into: a Stack (any form), or a Condition (any form)
whose expression is a Stack -/
def stkOf : Val → Option Stk
  | .stk _ c xs => some { cfg := c, xs := xs }
  | _ => none

def descendInto : Val → Option Stk
  | .stk _ c xs => some { cfg := c, xs := xs }
  | .cnd _ _ _ _ ex => stkOf ex
  | _ => none

/-- `stack.traverse(indices...)`. After repairs F34 / F35 the walk is gated on initialisation only (as `Index` is;
a validity policy has no say) and the last index hands back the stored value itself, alias forms included.
`K` is kept as a parameter: the theorems hold whatever the installed closures answer. -/
def Stk.traverse (K : Closures) : Stk → List Int → Except Fault (Val × Bool)
  | _, [] => .ok (.nil, false)
  | s, i :: rest =>
    match s.index i with
    | .error f => .error f
    | .ok (v, _, found) =>
      if !found then .ok (.nil, false) else
      match rest with
      | [] => .ok (v, true)
      | _ :: _ =>
        match descendInto v with
        | some s' => Stk.traverse K s' rest
        | none => .ok (.nil, false)

/-! ## Specification: stepwise `Index` descent (Spec) -/

/-- take `Index(i1)` on the receiver; while indices remain, descend into that value if it is
descendable and apply the next index there; success iff every step found a non-nil element and
every intermediate value was descendable; an empty path fails -/
def descent (K : Closures) : Stk → List Int → Val × Bool
  | _, [] => (.nil, false)
  | s, i :: rest =>
    let r := ListSpec.index s.xs (s.flag Gen.flag_negidx) (s.flag Gen.flag_fwdidx) i
    if !r.2 then (.nil, false) else
    match rest with
    | [] => (r.1, true)
    | _ :: _ =>
      match descendInto r.1 with
      | some s' => descent K s' rest
      | none => (.nil, false)

end Stackage
