import Stackage.Model.Val
import Stackage.Model.Text
import Stackage.Gen.Conds

/-!
# String rendering of Stacks and Conditions

Follows `stack.string`, `defaultAssertionHandler`, `assembleStringStack`, `paren`, `encapv`,
`typ`, `nodeConfig.kind`, `Condition.Valid`, `Condition.String`, `condition.string`.
-/

namespace Stackage

/-- meaning of installed closures (by id) -/
structure Closures where
  valid : Nat → Option Nat := fun _ => none     -- validity policy: `some e` = rejects with error class e
  present : Nat → Text := fun _ => []           -- presentation policy result
  marshal : Nat → Option Nat := fun _ => none   -- marshaler result (error class or nil)
  unmarshal : Nat → List Val × Option Nat := fun _ => ([], none)   -- unmarshaler result
  evaluate : Nat → Val × Option Nat := fun _ => (.nil, none)       -- evaluator result

namespace Cfg
def flag (c : Cfg) (f : Nat) : Bool := c.kind != 0 && Gen.cfgFlag_positive c.opt f
def paren (c : Cfg) : Bool := c.flag Gen.flag_parens
def nspad (c : Cfg) : Bool := c.flag Gen.flag_nspad
def cfold (c : Cfg) : Bool := c.flag Gen.flag_cfold
def lonce (c : Cfg) : Bool := c.flag Gen.flag_lonce

/-- `nodeConfig.kind()`: the kind word, case-folded on request -/
def kindText (c : Cfg) : Text := foldValue c.cfold (Gen.kindWord c.kind)

/-- `stack.typ()`: the operator text: the symbol if set, else the kind word -/
def opWord (c : Cfg) : Text := if c.sym.isEmpty then c.kindText else c.sym

/-- `stack.canString` on an initialised stack -/
def canString (K : Closures) (c : Cfg) : Bool :=
  (match c.vpf with | some p => (K.valid p).isNone | none => true) &&
  c.kind != 0 && c.kind != Gen.kind_basic

/-- `stack.paren` -/
def parenWrap (c : Cfg) (v : Text) : Text :=
  let pad : Text := if c.nspad then [] else [' ']
  if c.paren && c.kind != Gen.kind_basic then ['('] ++ pad ++ v ++ pad ++ [')'] else v

/-- `stack.encapv` -/
def encapv (c : Cfg) (v : Text) : Text := if c.kind != Gen.kind_basic then encapValue c.enc v else []

/-- `assembleStringStack` applied to the non-empty element renderings -/
def assemble (c : Cfg) (strs : List Text) : Text :=
  let doPad := !c.nspad && c.sym.isEmpty
  let ot := padValue doPad c.opWord
  let pad : Text := if c.nspad then [] else [' ']
  let body : Text :=
    if c.lonce then
      (if c.kind != Gen.kind_list && !strs.isEmpty then ot else []) ++ strs.foldr (· ++ ·) []
    else if c.kind == Gen.kind_list then
      joinText (if c.ljc.isEmpty then pad else c.ljc) strs
    else if !c.sym.isEmpty then
      let sympad : Text := if c.nspad then [] else [' ', ' ', ' ']
      joinText (sympad ++ ot ++ sympad) strs
    else
      joinText ([' ', ' ', ' '] ++ ot ++ [' ', ' ', ' ']) strs
  condense (c.parenWrap (pad ++ body ++ pad))
end Cfg

namespace Leaf
/-- the text a leaf contributes: its `String()` method or its primitive rendering -/
def text : Leaf → Option Text
  | .str s => some s
  | .int i => some (toString i).toList
  | .bool b => some (if b then "true".toList else "false".toList)
  | .num _ t => some t
  | .stringer _ t z => if z then none else some t
  | .opaque _ _ => none
  | .ev (.prim _ t _) => some t      -- a known primitive prints as Go prints it
  | .ev _ => none
end Leaf

def unknownText : Text := "UNKNOWN".toList
def unsupportedText : Text := "unsupported_primitive_type".toList

/-- `Condition.Valid() == nil` on an initialised Condition -/
def condValid (K : Closures) (c : Cfg) (kw : Text) (op : Op) (ex : Val) : Bool :=
  match c.vpf with
  | some p => (K.valid p).isNone
  | none =>
    !kw.isEmpty &&
    (match op with
     | .none => false
     | .cmp code => !Gen.cond_op_bogus { assert := code }
     | .user _ _ _ => true) &&
    !ex.isNil

def Op.text : Op → Text
  | .none => []
  | .cmp code => Gen.opText code
  | .user _ s _ => s

def Op.ctx : Op → Text
  | .none => []
  | .cmp _ => Gen.compOpCtx
  | .user _ _ c => c

/-- `condition.string` given the raw text of the expression -/
def condAssemble (K : Closures) (c : Cfg) (kw : Text) (op : Op) (raw : Text) : Text :=
  match c.rpf with
  | some p => K.present p
  | none =>
    let val := encapValue c.enc raw
    let pad : Text := if c.nspad then [] else [' ']
    let s := kw ++ pad ++ op.text ++ pad ++ val
    if c.paren then ['('] ++ pad ++ s ++ pad ++ [')'] else s

mutual
/-- `Stack.String()` / `Condition.String()` / leaf text of an element, as
`defaultAssertionHandler` of a parent with configuration `pc` sees it -/
def elemText (K : Closures) (pc : Cfg) : Val → Text
  | .stk _ c xs =>
    let s : Text := if c.canString K then
        (match c.rpf with
         | some p => K.present p
         | none => c.assemble (elemsText K c xs))
      else []
    if c.kind == Gen.kind_not && c.sym.isEmpty then
      (if s.isEmpty then [] else c.kindText ++ [' '] ++ s)
    else s
  | .cnd _ c kw op ex =>
    if condValid K c kw op ex then condAssemble K c kw op (exprRaw K ex) else []
  | .leaf l =>
    match l.text with
    | some t => padValue (!pc.nspad) (pc.encapv t)
    | none => unknownText
  | .zstk _ | .zcnd _ => []      -- a zero-valued Stack / Condition (any form) contributes nothing (repair F38)
  | _ => unknownText

/-- the non-empty element renderings, in order -/
def elemsText (K : Closures) (pc : Cfg) : List Val → List Text
  | [] => []
  | x :: rest =>
    let v := elemText K pc x
    if v.isEmpty then elemsText K pc rest else v :: elemsText K pc rest

/-- raw text of a Condition's expression (`condition.string`): a Stack (any form) renders
through `String()`, as does a Condition with a String method; other values through their
stringer or primitive text -/
def exprRaw (K : Closures) : Val → Text
  | .stk _ c xs =>
    if c.canString K then
      (match c.rpf with
       | some p => K.present p
       | none => c.assemble (elemsText K c xs))
    else []
  | .cnd _ c kw op ex => if condValid K c kw op ex then condAssemble K c kw op (exprRaw K ex) else []
  | .leaf l =>
    match l.text with
    | some t => t
    | none => unsupportedText
  | _ => unsupportedText
end

/-- `Stack.String()` on an initialised Stack -/
def Stk.String (K : Closures) (s : Stk) : Text :=
  if s.cfg.canString K then
    (match s.cfg.rpf with
     | some p => K.present p
     | none => s.cfg.assemble (elemsText K s.cfg s.xs))
  else []

/-- `Condition.String()` on an initialised Condition -/
def condString (K : Closures) (c : Cfg) (kw : Text) (op : Op) (ex : Val) : Text :=
  if condValid K c kw op ex then condAssemble K c kw op (exprRaw K ex) else []

end Stackage
