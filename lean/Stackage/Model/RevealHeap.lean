import Stackage.Model.Ops
import Stackage.Spec.Unwrap

/-!
# `Stack.Reveal` over an explicit heap (C20)

`Reveal` rewrites nested stacks *in place*. A wrapper that has already been detached from
the tree is still revealed afterwards, and it shares its sub-stacks with the live tree, so
the result depends on object identity. This is the one place where the model is not a
tree: stacks and conditions are heap nodes, values refer to them by id.

`reveal`, `revealLoop` (the `for` statement of `reveal`), `revealDescend` (with its first
statement as `descendUpdated`) and `revealSingle` follow the Go functions statement by statement. All recursion is bounded by
`fuel` (a bound on the depth of the call tree, loop iterations included).

* `sync.Mutex` is not re-entrant: `lock()` of a mutex-enabled node that the current call
  chain already holds is `.deadlock`. `lock`/`unlock` bracket `reveal` (`defer`), so the set
  of held locks is exactly the chain of `reveal` activations, passed down as `held`.
* `.panic` stands where Go would panic: following a handle to a missing node or to a node of
  the wrong sort (a nil dereference; never in a well-formed heap), an out-of-range slot.
  A nil `*Stack` / `*Condition` element (it satisfies `Interface`, and `IsParen` through it
  used to panic) is modelled as repaired: it is skipped like any other non-`Interface` leaf.
* No statement of the four Go functions ever assigns a non-nil `err`, so `err` is not modelled.
-/

set_option linter.unusedVariables false

namespace Stackage
namespace RevealHeap
open Tree

/-- a value as stored in a slot: anything Reveal never looks into, or a handle -/
inductive HVal where
  | atom (v : Val)                 -- nil, leaves, zero-valued instances, `[]any`
  | stk (f : Form) (id : Nat)      -- Stack handle (in some alias form) to node `id`
  | cnd (f : Form) (id : Nat)      -- Condition handle to node `id`
  deriving Repr, Inhabited

inductive Node where
  | stack (c : Cfg) (xs : List HVal)                       -- `[]any{cfg, xs...}`
  | cond (c : Cfg) (kw : Text) (op : Op) (ex : HVal)
  deriving Repr, Inhabited

/-- node id = position -/
abbrev Heap := List Node

def stackAt (H : Heap) (id : Nat) : Option (Cfg × List HVal) :=
  match H[id]? with
  | some (.stack c xs) => some (c, xs)
  | _ => none

def condAt (H : Heap) (id : Nat) : Option (Cfg × Text × Op × HVal) :=
  match H[id]? with
  | some (.cond c kw op ex) => some (c, kw, op, ex)
  | _ => none

/-- `nodeConfig.positive(flag)` -/
def cflag (c : Cfg) (f : Nat) : Bool := c.kind != 0 && Gen.cfgFlag_positive c.opt f

def HVal.isNil : HVal → Bool
  | .atom .nil => true
  | _ => false

/-- position addressed by `stack.index(i)` in a stack with `n` user slots: the generated
guards of `Stk.index` are reused on a stack of `n` non-nil placeholders -/
def slotPos (c : Cfg) (n : Nat) (i : Int) : Except Fault (Option Nat) :=
  match (⟨c, List.replicate n (.leaf (.bool true))⟩ : Stk).index i with
  | .ok (_, j, true) => .ok (some (j - 1).toNat)
  | .ok (_, _, false) => .ok none
  | .error f => .error f

/-- `sl, _, _ := r.index(i); sl != nil` : the non-nil slot value, if any -/
def index (c : Cfg) (xs : List HVal) (i : Int) : Except Fault (Option HVal) :=
  match slotPos c xs.length i with
  | .error f => .error f
  | .ok none => .ok none
  | .ok (some p) =>
    match xs[p]? with
    | some v => if v.isNil then .ok none else .ok (some v)
    | none => .error .panic

/-- `stack.replace(x, i)` on the slots -/
def replaceSlots (xs : List HVal) (x : HVal) (i : Nat) : List HVal :=
  if Gen.replace_ok { i := (i : Int), ulen := Gen.ulen ((xs.length : Int) + 1) } then xs.set i x else xs

/-- `r.replace(x, i)` -/
def replaceAt (H : Heap) (r : Nat) (x : HVal) (i : Nat) : Heap :=
  match H[r]? with
  | some (.stack c xs) => H.set r (.stack c (replaceSlots xs x i))
  | _ => H

/-- `c.SetExpression(x)` for `x` a Stack: initialised, not read-only, not no-nesting, no error -/
def setExprAt (H : Heap) (cid : Nat) (x : HVal) : Heap :=
  match H[cid]? with
  | some (.cond c kw op ex) =>
    if c.kind == Gen.kind_cond && !cflag c Gen.flag_ronly && !cflag c Gen.flag_nnest && c.err.isNone
    then H.set cid (.cond c kw op x) else H
  | _ => H

inductive Abort where
  | panic | deadlock | fuel
  deriving DecidableEq, Repr

structure St where
  heap : Heap
  /-- mutex acquisitions so far, most recent first -/
  trace : List Nat := []
  deriving Repr

/-- outcome of `child.(Interface)` followed by `assert.IsParen()` -/
inductive Iface where
  | no                     -- not an `Interface` (or a nil pointer to one: skipped)
  | paren (p : Bool)
  | broken                 -- handle to a missing node (never in a well-formed heap)

def iface (H : Heap) : HVal → Iface
  | .stk .native id => (match stackAt H id with | some (c, _) => .paren (parenS c) | none => .broken)
  | .cnd .native id => (match condAt H id with | some (c, _, _, _) => .paren (parenC c) | none => .broken)
  | .stk _ _ => .no
  | .cnd _ _ => .no
  | .atom (.zstk .native) => .paren false
  | .atom (.zcnd .native) => .paren false
  | .atom _ => .no

def ofFault : Fault → Abort := fun _ => .panic

mutual
/-- `func (r *stack) reveal()` -/
def reveal : Nat → List Nat → Nat → St → Except Abort St
  | 0, _, _, _ => .error .fuel
  | fuel + 1, held, r, s =>
    match stackAt s.heap r with
    | none => .error .panic
    | some (c, _) =>
      -- r.lock(); defer r.unlock()
      if c.mtx && held.contains r then .error .deadlock
      else
        let held' := if c.mtx then r :: held else held
        let s' : St := if c.mtx then { s with trace := r :: s.trace } else s
        revealLoop fuel held' r 0 s'

/-- `for i := 0; i < r.len() && err == nil; i++ { … }` from iteration `i` on -/
def revealLoop : Nat → List Nat → Nat → Nat → St → Except Abort St
  | 0, _, _, _, _ => .error .fuel
  | fuel + 1, held, r, i, s =>
    match stackAt s.heap r with
    | none => .error .panic
    | some (c, xs) =>
      if i < xs.length + 1 then
        -- if sl, _, _ := r.index(i); sl != nil {
        match index c xs (i : Int) with
        | .error f => .error (ofFault f)
        | .ok (some (.stk _ w)) =>
          -- if outer, ook := stackTypeAliasConverter(sl); ook && outer.Len() > 0 {
          match stackAt s.heap w with
          | none => .error .panic
          | some (_, ws) =>
            if ws.length > 0 then
              match revealDescend fuel held r w i s with
              | .error e => .error e
              | .ok s1 => revealLoop fuel held r (i + 1) s1
            else revealLoop fuel held r (i + 1) s
        | .ok _ => revealLoop fuel held r (i + 1) s
      else .ok s

/-- first statement of `revealDescend` (`if inner.stackType() != not { switch inner.Len() {…} }`):
the state afterwards and the value of `updated`; `w` is the node of `inner` -/
def descendUpdated : Nat → List Nat → Nat → Nat → St → Except Abort (St × Option HVal)
  | 0, _, _, _, _ => .error .fuel
  | fuel + 1, held, r, w, s =>
    match stackAt s.heap w with
    | none => .error .panic
    | some (cw, ws) =>
      if cw.kind != Gen.kind_not then
        if ws.length == 1 then
          -- child, _, _ := inner.index(0)
          match index cw ws 0 with
          | .error f => .error (ofFault f)
          | .ok none => .ok (s, none)
          | .ok (some child) =>
            -- if assert, ok := child.(Interface); ok { if !assert.IsParen() && !inner.IsParen() {
            match iface s.heap child with
            | .no => .ok (s, none)
            | .broken => .error .panic
            | .paren p =>
              if !p && !parenS cw then
                -- err = r.revealSingle(0); updated = child
                match revealSingle fuel held r 0 s with
                | .error e => .error e
                | .ok s1 => .ok (s1, some child)
              else .ok (s, none)
        else
          -- err = inner.reveal(); updated = inner
          match reveal fuel held w s with
          | .error e => .error e
          | .ok s1 => .ok (s1, some (.stk .native w))
      else .ok (s, none)

/-- `func (r *stack) revealDescend(inner Stack, idx int)`; `w` is the node of `inner` -/
def revealDescend : Nat → List Nat → Nat → Nat → Nat → St → Except Abort St
  | 0, _, _, _, _, _ => .error .fuel
  | fuel + 1, held, r, w, idx, s =>
    match descendUpdated fuel held r w s with
    | .error e => .error e
    | .ok (s1, upd) =>
      -- if updated != nil { r.replace(updated, idx) }
      let s2 : St := match upd with
        | some u => { s1 with heap := replaceAt s1.heap r u idx }
        | none => s1
      -- err = inner.reveal()
      reveal fuel held w s2

/-- `func (r *stack) revealSingle(idx int)` -/
def revealSingle : Nat → List Nat → Nat → Nat → St → Except Abort St
  | 0, _, _, _, _ => .error .fuel
  | fuel + 1, held, r, idx, s =>
    match stackAt s.heap r with
    | none => .error .panic
    | some (c, xs) =>
      match index c xs (idx : Int) with
      | .error f => .error (ofFault f)
      | .ok (some (.cnd _ cid)) =>
        -- if c, okc := conditionTypeAliasConverter(slice); okc {
        match condAt s.heap cid with
        | none => .error .panic
        | some (cc, _, _, ex) =>
          -- c.Expression() is nil unless c.IsInit()
          if cc.kind == Gen.kind_cond then
            match ex with
            | .stk _ m =>
              -- if err = inner.reveal(); err == nil { c.SetExpression(inner) }
              match reveal fuel held m s with
              | .error e => .error e
              | .ok s1 => .ok { s1 with heap := setExprAt s1.heap cid (.stk .native m) }
            | _ => .ok s
          else .ok s
      | .ok (some (.stk _ m)) => reveal fuel held m s     -- else if inner, iok := stackTypeAliasConverter(slice); iok
      | .ok _ => .ok s
end

/-- `func (r Stack) Reveal() Stack` on the stack node `root` (an initialised receiver) -/
def Reveal (fuel : Nat) (H : Heap) (root : Nat) : Except Abort St :=
  match stackAt H root with
  | none => .ok { heap := H }                     -- not initialised: nothing happens
  | some (c, _) =>
    if cflag c Gen.flag_ronly then .ok { heap := H } else reveal fuel [] root { heap := H }

/-! ## Trees to heaps and back -/

mutual
/-- allocate the nodes of a tree, children before parents (every nested stack and
condition gets a fresh node: the generators never put one Go object in two places) -/
def alloc : Val → Heap → HVal × Heap
  | .stk f c xs, H => let r := allocL xs H; (.stk f r.2.length, r.2 ++ [.stack c r.1])
  | .cnd f c kw op ex, H => let r := alloc ex H; (.cnd f r.2.length, r.2 ++ [.cond c kw op r.1])
  | .nil, H => (.atom .nil, H)
  | .leaf l, H => (.atom (.leaf l), H)
  | .zstk f, H => (.atom (.zstk f), H)
  | .zcnd f, H => (.atom (.zcnd f), H)
  | .anys xs, H => (.atom (.anys xs), H)
  | .opv o, H => (.atom (.opv o), H)
def allocL : List Val → Heap → List HVal × Heap
  | [], H => ([], H)
  | x :: xs, H => let r1 := alloc x H; let r2 := allocL xs r1.2; (r1.1 :: r2.1, r2.2)
end

/-- the heap of a tree and the handle of its root -/
def ofTree (t : Val) : HVal × Heap := alloc t []

/-- the tree of a node, with the sub-trees already resolved -/
inductive Body where
  | stack (c : Cfg) (xs : List Val)
  | cond (c : Cfg) (kw : Text) (op : Op) (ex : Val)
  deriving Repr, Inhabited

/-- a value read against a table of resolved nodes (a handle that does not fit reads as nil) -/
def rv (T : List Body) : HVal → Val
  | .atom v => v
  | .stk f id => (match T[id]? with | some (.stack c xs) => .stk f c xs | _ => .nil)
  | .cnd f id => (match T[id]? with | some (.cond c kw op ex) => .cnd f c kw op ex | _ => .nil)

def resolve (T : List Body) : Node → Body
  | .stack c xs => .stack c (xs.map (rv T))
  | .cond c kw op ex => .cond c kw op (rv T ex)

/-- the trees of nodes `0 … k-1`; node `j` is read against the trees of the nodes below it,
so the definition is total and needs no fuel (in an acyclic heap numbered children-first
every handle points below) -/
def tbl (H : Heap) : Nat → List Body
  | 0 => []
  | k + 1 => tbl H k ++ [resolve (tbl H k) (H[k]?.getD (.stack {} []))]

/-- heap to tree -/
def flat (H : Heap) (v : HVal) : Val := rv (tbl H H.length) v

/-- `Reveal` on a tree: allocate its heap, run, read the receiver back -/
def RevealTree (fuel : Nat) (t : Val) : Except Abort Val :=
  match (ofTree t).1 with
  | .stk f root =>
    (match Reveal fuel (ofTree t).2 root with
     | .ok s => .ok (flat s.heap (.stk f root))
     | .error e => .error e)
  | _ => .ok t          -- not an initialised Stack: nothing happens

end RevealHeap
end Stackage
