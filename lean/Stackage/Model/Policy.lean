import Stackage.Model.Marshal
import Stackage.Model.Equal
import Stackage.Model.Traverse

/-!
# User-supplied closures other than the push policy (C14): validity, presentation, equality,
marshal and unmarshal (`SetValidityPolicy`, `SetPresentationPolicy`, `SetEqualityPolicy`,
`SetMarshaler`, `SetUnmarshaler`, and what `Valid`, `String`, `IsEqual`, `Marshal`, `Unmarshal` do with them)
-/

namespace Stackage
namespace Stk

def setVpf (s : Stk) (p : Option Nat) : Stk := if s.readOnly then s else { s with cfg := { s.cfg with vpf := p } }
def setEqf (s : Stk) (p : Option Nat) : Stk := if s.readOnly then s else { s with cfg := { s.cfg with eqf := p } }
def setUmf (s : Stk) (p : Option Nat) : Stk := if s.readOnly then s else { s with cfg := { s.cfg with umf := p } }
def setMaf (s : Stk) (p : Option Nat) : Stk := if s.readOnly then s else { s with cfg := { s.cfg with maf := p } }

/-- `SetPresentationPolicy`: a BASIC stack refuses it and records an error (class 1021) -/
def setRpf (s : Stk) (p : Option Nat) : Stk :=
  if s.readOnly then s
  else if s.cfg.kind == Gen.kind_basic then { s with cfg := { s.cfg with err := some 1021 } }
  else { s with cfg := { s.cfg with rpf := p } }

/-- `Stack.Valid()` on an initialised stack: an error (class 1022, the library's own message) exactly when the closure reports one -/
def ValidE (K : Closures) (s : Stk) : Option Nat := if s.valid K then none else some 1022

/-- `Stack.Unmarshal()`: the receiver's own Unmarshaler if one is installed, else `stack.unmarshalDefault()`
(label, then the closure-aware element loop: the entries collected and the error that ended it) -/
def UnmarshalP (K : Closures) (s : Stk) : List Val × Option Nat :=
  match s.cfg.umf with
  | some p => K.unmarshal p
  | none => (strV s.cfg.kindText :: (unmarshalElemsK K s.xs).1, (unmarshalElemsK K s.xs).2)

/-- `(*Stack).Marshal(in...)` on an initialised receiver -/
def MarshalP (K : Closures) (interp : Nat → Val → Option Nat) (s : Stk) (input : List Val) : Stk × Option Nat :=
  match input with
  | [] => (s, some 1015)
  | _ =>
    match s.cfg.maf with
    | some p => (s, K.marshal p)
    | none =>
      let r := marshalInto interp (some s) input
      (r.1.getD s, r.2)

end Stk

namespace Cnd
def setVpf (c : Cnd) (p : Option Nat) : Cnd := if c.readOnly then c else { c with cfg := { c.cfg with vpf := p } }
def setRpf (c : Cnd) (p : Option Nat) : Cnd := if c.readOnly then c else { c with cfg := { c.cfg with rpf := p } }
def setEqf (c : Cnd) (p : Option Nat) : Cnd := if c.readOnly then c else { c with cfg := { c.cfg with eqf := p } }
def setUmf (c : Cnd) (p : Option Nat) : Cnd := if c.readOnly then c else { c with cfg := { c.cfg with umf := p } }

/-- `Condition.Unmarshal()`: the receiver's own Unmarshaler if one is installed, else `condition.unmarshalDefault()`
(the four-entry row, with the error of the expression's `Unmarshal()` if the expression is a Stack) -/
def UnmarshalP (K : Closures) (c : Cnd) : List Val × Option Nat :=
  match c.cfg.umf with
  | some p => K.unmarshal p
  | none => ([strV conditionLabel, strV c.kw, .opv c.op, (unmarshalExprK K c.ex).1], (unmarshalExprK K c.ex).2)
end Cnd

end Stackage
