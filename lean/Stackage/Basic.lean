/-!
# Basic definitions shared by the generated (`Gen/*`) and hand-written model.

Core Lean only (no Mathlib): this module is linked into the `driver` executable.
-/

/-- Go `string` restricted to valid Unicode, as a list of code points. -/
abbrev Text := List Char

def MinInt : Int := -(2^63)
def MaxInt : Int := 2^63 - 1

/-- Go's `int` arithmetic on amd64: results wrap modulo 2^64 into [-2^63, 2^63). -/
def wrap64 (x : Int) : Int := ((x + 2^63) % 2^64) - 2^63

theorem wrap64_id {x : Int} (h1 : -(2^63) ≤ x) (h2 : x < 2^63) : wrap64 x = x := by
  unfold wrap64; omega

theorem wrap64_range (x : Int) : -(2^63) ≤ wrap64 x ∧ wrap64 x < 2^63 := by
  unfold wrap64; omega

/-- a value a Go `int` can hold -/
def InInt (x : Int) : Prop := -(2^63) ≤ x ∧ x < 2^63

/-- Go `r &^ x` on unsigned flags -/
def andNot (r x : Nat) : Nat := r &&& (x ^^^ 65535)

/-- Scalar environment for generated guard conditions: every free variable or
receiver read that a whitelisted Go condition may mention. The extractor refuses
names that are not fields here. -/
structure Env where
  ulen : Int := 0
  cap : Int := 0
  len : Int := 0
  dulen : Int := 0
  dcap : Int := 0
  dlen : Int := 0
  i : Int := 0
  j : Int := 0
  left : Int := 0
  u1 : Int := 0
  L : Int := 0
  l : Int := 0
  before : Int := 0
  start : Int := 0
  max : Int := 0
  ct : Int := 0
  last : Int := 0
  idx : Int := 0
  index : Int := 0
  preserved : Int := 0
  len_data : Int := 0
  len_tpat : Int := 0
  len_spat : Int := 0
  negidx : Bool := false
  fwdidx : Bool := false
  nnest : Bool := false
  ronly : Bool := false
  fifo : Bool := false
  ok : Bool := false
  init : Bool := false
  found : Bool := false
  fail : Bool := false
  slice_nonnil : Bool := false
  r_nonnil : Bool := false
  err_nonnil : Bool := false
  x_nonnil : Bool := false
  assert : Nat := 0
  opt : Nat := 0

/-- what can go wrong at a raw slice access in the Go code -/
inductive Fault where
  | panic      -- index out of range / nil dereference
  | cfgLeak    -- slot 0 (the configuration) read as if it were an element
  | cfgLost    -- slot 0 overwritten, moved or removed
  deriving DecidableEq, Repr

def Fault.toString : Fault → String
  | .panic => "PANIC" | .cfgLeak => "CFGLEAK" | .cfgLost => "CFGLOST"
