import Stackage.Model.Alias
import Stackage.Model.Options

/-!
# Basic facts about `erase` (C12): what it preserves, idempotence, `eraseList` as a map
-/

set_option linter.unusedSimpArgs false
namespace Stackage

theorem erase_isNil (v : Val) : (erase v).isNil = v.isNil := by cases v <;> simp [erase, Val.isNil]
theorem erase_isStack (v : Val) : (erase v).isStack = v.isStack := by cases v <;> simp [erase, Val.isStack]
theorem erase_isCond (v : Val) : (erase v).isCond = v.isCond := by cases v <;> simp [erase, Val.isCond]

theorem eraseList_length : ∀ xs : List Val, (eraseList xs).length = xs.length
  | [] => rfl
  | _ :: rest => by simp [eraseList, eraseList_length rest]

theorem eraseList_getD : ∀ (xs : List Val) (p : Nat), (eraseList xs).getD p .nil = erase (xs.getD p .nil)
  | [], p => by simp [eraseList, erase]
  | x :: rest, 0 => by simp [eraseList]
  | x :: rest, p + 1 => by simpa [eraseList] using eraseList_getD rest p

theorem eraseList_eq_map : ∀ xs : List Val, eraseList xs = xs.map erase
  | [] => rfl
  | x :: rest => by simp only [eraseList, List.map_cons, eraseList_eq_map rest]

theorem countsAsNested_erase (v : Val) : Stk.countsAsNested (erase v) = Stk.countsAsNested v := by
  cases v <;> simp [erase, Stk.countsAsNested]

theorem any_erase (xs : List Val) : (eraseList xs).any Stk.countsAsNested = xs.any Stk.countsAsNested := by
  induction xs with
  | nil => rfl
  | cons x rest ih => simp only [eraseList, List.any_cons, countsAsNested_erase, ih]

/-! ## `erase` is idempotent -/
mutual
theorem erase_idem : ∀ v : Val, erase (erase v) = erase v
  | .stk f c xs => by simp only [erase, eraseList_idem xs]
  | .cnd f c kw op ex => by simp only [erase, erase_idem ex]
  | .anys xs => by simp only [erase, eraseList_idem xs]
  | .nil => rfl
  | .leaf _ => rfl
  | .zstk _ => rfl
  | .zcnd _ => rfl
  | .opv _ => rfl
theorem eraseList_idem : ∀ xs : List Val, eraseList (eraseList xs) = eraseList xs
  | [] => rfl
  | x :: rest => by simp only [eraseList, erase_idem x, eraseList_idem rest]
end

theorem Stk.erase_idem (s : Stk) : s.erase.erase = s.erase := by
  simp only [Stk.erase, eraseList_idem]

end Stackage
