import Stackage.Lemmas.RevealHeap

/-!
# The invariant of `reveal` / `revealLoop` / `descendUpdated` / `revealDescend` / `revealSingle`

`Rel b H H'`: `H'` is well-formed, has the same nodes of the same sorts, agrees with `H` on
every node from `b` upwards, and every node's tree in `H'` is reachable from its tree in `H` by
unwrap steps. `reveal` on node `r` satisfies `Rel (r+1)`: it only writes at or below `r`.
-/

set_option linter.unusedSimpArgs false
set_option linter.unusedVariables false

namespace Stackage
namespace RevealHeap
open Tree

structure Rel (b : Nat) (H H' : Heap) : Prop where
  wf : WF H'
  len : H'.length = H.length
  sorts : ∀ j : Nat, sortOf H'[j]? = sortOf H[j]?
  frame : ∀ j : Nat, b ≤ j → H'[j]? = H[j]?
  step : Step H H'

theorem Rel.refl {H : Heap} (b : Nat) (hwf : WF H) : Rel b H H :=
  ⟨hwf, rfl, fun _ => rfl, fun _ _ => rfl, Step.refl H⟩

theorem Rel.trans {b : Nat} {H1 H2 H3 : Heap} (h1 : Rel b H1 H2) (h2 : Rel b H2 H3) : Rel b H1 H3 :=
  ⟨h2.wf, by rw [h2.len, h1.len], fun j => by rw [h2.sorts, h1.sorts],
   fun j hj => by rw [h2.frame j hj, h1.frame j hj], h1.step.trans h2.step⟩

theorem Rel.mono {b b' : Nat} {H H' : Heap} (h : Rel b H H') (hb : b ≤ b') : Rel b' H H' :=
  ⟨h.wf, h.len, h.sorts, fun j hj => h.frame j (by omega), h.step⟩

/-- `r.replace(u, idx)` after steps that left `r` alone, when slot `idx` (if it exists) held a
handle of `w` and `u` is justified as a replacement for that handle -/
theorem replace_rel (H1 H2 : Heap) (r w idx : Nat) (c : Cfg) (xs : List HVal) (u : HVal)
    (hwf1 : WF H1) (hrel : Rel r H1 H2) (hr : H1[r]? = some (.stack c xs))
    (hidx : idx < xs.length → ∃ g, xs[idx]? = some (HVal.stk g w))
    (hu : u.okAt H2 r)
    (hjust : ∀ g, ERel (rv (tbl H1 r) (HVal.stk g w)) (rv (tbl H2 r) u)) :
    Rel (r + 1) H1 (replaceAt H2 r u idx) := by
  have hr2 : H2[r]? = some (.stack c xs) := by rw [hrel.frame r (Nat.le_refl _), hr]
  have hok1 := hwf1 r _ hr
  have hsm : SmallLen xs.length := hok1.2
  unfold replaceAt
  rw [hr2]
  simp only
  rw [replaceSlots_eq xs u idx hsm]
  have hmem : ∀ v, v ∈ (if idx < xs.length then xs.set idx u else xs) → v.okAt H2 r := by
    intro v hv
    split at hv
    · rcases List.mem_or_eq_of_mem_set hv with h | h
      · exact HVal.okAt_sorts hrel.sorts (hok1.1 v h)
      · subst h; exact hu
    · exact HVal.okAt_sorts hrel.sorts (hok1.1 v hv)
  have hlen : (if idx < xs.length then xs.set idx u else xs).length = xs.length := by split <;> simp
  have hsort : sortOf (some (Node.stack c (if idx < xs.length then xs.set idx u else xs))) = sortOf (some (Node.stack c xs)) := rfl
  refine ⟨?_, ?_, ?_, ?_, ?_⟩
  · exact WF_set H2 r _ _ hrel.wf hr2 hsort ⟨hmem, by rw [hlen]; exact hsm⟩
  · rw [List.length_set]; exact hrel.len
  · intro j; rw [sortOf_set H2 r _ _ hr2 hsort j]; exact hrel.sorts j
  · intro j hj
    rw [List.getElem?_set]
    have : r ≠ j := by omega
    simp only [this, ↓reduceIte]
    exact hrel.frame j (by omega)
  · apply step_set H1 H2 r _ _ hrel.step hrel.frame hr
    refine .stack c _ _ (fun f => star_stk_of_forall₂ f c _ _ ?_)
    by_cases h : idx < xs.length
    · simp only [h, ↓reduceIte]
      apply all2_map_set
      · exact fun v _ => ERel.of_star (rv_star (hrel.step r) v)
      · intro v hv
        obtain ⟨g, hg⟩ := hidx h
        rw [hg] at hv
        cases hv
        exact hjust g
    · simp only [h, ↓reduceIte]
      exact all2_map _ _ xs (fun v _ => ERel.of_star (rv_star (hrel.step r) v))

/-- `c.SetExpression(inner)` after steps that left the condition node alone -/
theorem setExpr_rel (H1 H2 : Heap) (cid m : Nat) (cc : Cfg) (kw : Text) (op : Op) (g : Form)
    (hrel : Rel cid H1 H2) (hc : H1[cid]? = some (.cond cc kw op (.stk g m))) :
    Rel (cid + 1) H1 (setExprAt H2 cid (.stk .native m)) := by
  have hc2 : H2[cid]? = some (.cond cc kw op (.stk g m)) := by rw [hrel.frame cid (Nat.le_refl _), hc]
  unfold setExprAt
  rw [hc2]
  simp only
  split
  · have hok2 := hrel.wf cid _ hc2
    have hsort : sortOf (some (Node.cond cc kw op (.stk .native m))) = sortOf (some (Node.cond cc kw op (.stk g m))) := rfl
    refine ⟨?_, ?_, ?_, ?_, ?_⟩
    · exact WF_set H2 cid _ _ hrel.wf hc2 hsort hok2
    · rw [List.length_set]; exact hrel.len
    · intro j; rw [sortOf_set H2 cid _ _ hc2 hsort j]; exact hrel.sorts j
    · intro j hj
      rw [List.getElem?_set]
      have : cid ≠ j := by omega
      simp only [this, ↓reduceIte]
      exact hrel.frame j (by omega)
    · apply step_set H1 H2 cid _ _ hrel.step hrel.frame hc
      exact .cond cc kw op _ _ (fun f =>
        ((rv_native_star _ g m).trans (rv_star (hrel.step cid) (.stk .native m))).inCnd f cc kw op)
  · exact hrel.mono (by omega)

/-- a child that `Interface`-asserts and is not parenthetical reads as a legal child of the rule -/
theorem iface_okChild (H : Heap) (k : Nat) (child : HVal) (hok : child.okAt H k)
    (hi : iface H child = .paren false) : okChild (rv (tbl H k) child) = true := by
  cases child with
  | atom v =>
    cases v with
    | zstk f => cases f <;> simp_all [iface, rv, okChild]
    | zcnd f => cases f <;> simp_all [iface, rv, okChild]
    | nil => simp [iface] at hi
    | leaf l => simp [iface] at hi
    | stk f c xs => simp [iface] at hi
    | cnd f c kw op ex => simp [iface] at hi
    | anys xs => simp [iface] at hi
    | opv o => simp [iface] at hi
  | stk f id =>
    cases f <;> simp [iface] at hi
    cases hs : stackAt H id with
    | none => simp [hs] at hi
    | some p =>
      obtain ⟨c, xs⟩ := p
      simp [hs] at hi
      have hn := stackAt_some.mp hs
      simp only [rv, tbl_get H k id hok.1, hn, Option.getD_some, resolve, okChild, hi, Bool.not_false]
  | cnd f id =>
    cases f <;> simp [iface] at hi
    cases hs : condAt H id with
    | none => simp [hs] at hi
    | some p =>
      obtain ⟨c, kw, op, ex⟩ := p
      simp [hs] at hi
      have hn := condAt_some.mp hs
      simp only [rv, tbl_get H k id hok.1, hn, Option.getD_some, resolve, okChild, hi, Bool.not_false]

theorem rv_stk_eq (T : List Body) (f : Form) (id : Nat) (c : Cfg) (xs : List Val) (h : T[id]? = some (.stack c xs)) :
    rv T (.stk f id) = .stk f c xs := by
  simp only [rv, h]

/-- the unwrap rule, read on the heap: a handle of the one-element wrapper `w` may be replaced
by the wrapper's element -/
theorem just_unwrap (H1 H2 : Heap) (r w : Nat) (cw : Cfg) (child : HVal) (hwf1 : WF H1) (hwr : w < r)
    (hw : H1[w]? = some (.stack cw [child])) (hcw : okWrapper cw = true)
    (hi : iface H1 child = .paren false) (ht : TRel (tbl H1 r) (tbl H2 r)) :
    ∀ g, ERel (rv (tbl H1 r) (HVal.stk g w)) (rv (tbl H2 r) child) := by
  intro g
  have hokc : child.okAt H1 w := (hwf1 w _ hw).1 child (by simp)
  have hsame : rv (tbl H1 r) child = rv (tbl H1 w) child := by
    apply rv_tbl_lt H1 w r (by omega)
    · intro f id h; subst h; exact hokc.1
    · intro f id h; subst h; exact hokc.1
  have h0 : (tbl H1 r)[w]? = some (.stack cw [rv (tbl H1 w) child]) := by
    rw [tbl_get H1 r w hwr, hw]; rfl
  have h1 : rv (tbl H1 r) (.stk g w) = .stk g cw [rv (tbl H1 r) child] := by
    rw [rv_stk_eq _ _ _ _ _ h0, hsame]
  rw [h1]
  have hc : okChild (rv (tbl H1 r) child) = true := iface_okChild H1 r child (HVal.okAt_mono (by omega) hokc) hi
  exact (ERel.unwrap g cw _ hcw hc).trans (ERel.of_star (rv_star ht child))

/-- what `revealDescend` needs to know about its arguments: `inner` (node `w`) was read from a
slot of `r`, and if `idx` is a position of `r` then from that position -/
def DescPre (H : Heap) (r w idx : Nat) : Prop :=
  ∃ c xs, H[r]? = some (.stack c xs) ∧ (∃ (p : Nat) (g : Form), xs[p]? = some (HVal.stk g w)) ∧
    (idx < xs.length → ∃ g, xs[idx]? = some (HVal.stk g w))

/-- what `descendUpdated` establishes -/
def UpdPost (H1 : Heap) (r w : Nat) (s1 : St) (upd : Option HVal) : Prop :=
  Rel r H1 s1.heap ∧
  ∀ u, upd = some u → u.okAt s1.heap r ∧ ∀ g, ERel (rv (tbl H1 r) (HVal.stk g w)) (rv (tbl s1.heap r) u)

theorem mem_of_getElem? {α : Type} {xs : List α} {p : Nat} {v : α} (h : xs[p]? = some v) : v ∈ xs := by
  obtain ⟨hp, rfl⟩ := List.getElem?_eq_some_iff.mp h
  exact List.getElem_mem hp

theorem singleton_of {α : Type} : ∀ (ws : List α) (x : α), ws.length = 1 → ws[0]? = some x → ws = [x]
  | [y], x, _, h0 => by simp at h0; rw [h0]
  | [], _, h1, _ => by simp at h1
  | _ :: _ :: _, _, h1, _ => by simp at h1

/-- **the invariant**, by induction on the fuel, for all five functions at once -/
theorem reveal_inv : ∀ (fuel : Nat),
    (∀ held r s s', WF s.heap → reveal fuel held r s = .ok s' → Rel (r + 1) s.heap s'.heap) ∧
    (∀ held r i s s', WF s.heap → revealLoop fuel held r i s = .ok s' → Rel (r + 1) s.heap s'.heap) ∧
    (∀ held r w s s1 upd, WF s.heap → (∃ (c : Cfg) (xs : List HVal) (p : Nat) (g : Form), s.heap[r]? = some (.stack c xs) ∧ xs[p]? = some (HVal.stk g w)) →
        descendUpdated fuel held r w s = .ok (s1, upd) → UpdPost s.heap r w s1 upd) ∧
    (∀ held r w idx s s', WF s.heap → DescPre s.heap r w idx →
        revealDescend fuel held r w idx s = .ok s' → Rel (r + 1) s.heap s'.heap) ∧
    (∀ held r (idx : Nat) s s', WF s.heap → InInt (idx : Int) → revealSingle fuel held r idx s = .ok s' → Rel r s.heap s'.heap) := by
  intro fuel
  induction fuel with
  | zero =>
    refine ⟨?_, ?_, ?_, ?_, ?_⟩ <;> intros <;> simp_all [reveal, revealLoop, descendUpdated, revealDescend, revealSingle]
  | succ fuel ih =>
    obtain ⟨ihR, ihL, ihU, ihD, ihS⟩ := ih
    refine ⟨?_, ?_, ?_, ?_, ?_⟩
    · -- reveal
      intro held r s s' hwf h
      simp only [reveal] at h
      split at h
      · simp at h
      · split at h
        · simp at h
        · have := ihL _ r 0 _ s' (by split <;> exact hwf) h
          split at this <;> exact this
    · -- revealLoop
      intro held r i s s' hwf h
      simp only [revealLoop] at h
      split at h
      · simp at h
      · rename_i c xs hs
        have hr := stackAt_some.mp hs
        split at h
        · split at h
          · simp at h
          · -- a stack in the slot
            rename_i g w hidx
            split at h
            · simp at h
            · rename_i cw ws hsw
              split at h
              · split at h
                · simp at h
                · rename_i s1 hd
                  have hsm : SmallLen xs.length := (hwf r _ hr).2
                  have hpre : DescPre s.heap r w i := by
                    rcases index_nat c xs i hsm (natInInt i _ hsm (by omega)) with h0 | ⟨p, v, hv, hp, _, hpi⟩
                    · rw [h0] at hidx; simp at hidx
                    · rw [hv] at hidx
                      simp only [Except.ok.injEq, Option.some.injEq] at hidx
                      subst hidx
                      exact ⟨c, xs, hr, ⟨p, g, hp⟩, fun hi => ⟨g, by rw [← hpi hi]; exact hp⟩⟩
                  have h1 := ihD held r w i s s1 hwf hpre hd
                  exact h1.trans (ihL held r (i + 1) s1 s' h1.wf h)
              · exact ihL held r (i + 1) s s' hwf h
          · exact ihL held r (i + 1) s s' hwf h
        · simp only [Except.ok.injEq] at h; subst h; exact Rel.refl _ hwf
    · -- descendUpdated
      intro held r w s s1 upd hwf hpre h
      obtain ⟨c, xs, p, g, hr, hp⟩ := hpre
      have hokw : (HVal.stk g w).okAt s.heap r := (hwf r _ hr).1 _ (mem_of_getElem? hp)
      have hwr : w < r := hokw.1
      simp only [descendUpdated] at h
      split at h
      · simp at h
      · rename_i cw ws hsw
        have hw := stackAt_some.mp hsw
        split at h
        · rename_i hnot
          split at h
          · rename_i hlen
            split at h
            · simp at h
            · simp only [Except.ok.injEq, Prod.mk.injEq] at h
              obtain ⟨rfl, rfl⟩ := h
              exact ⟨Rel.refl _ hwf, fun u hu => by simp at hu⟩
            · rename_i child hch
              split at h
              · simp only [Except.ok.injEq, Prod.mk.injEq] at h
                obtain ⟨rfl, rfl⟩ := h
                exact ⟨Rel.refl _ hwf, fun u hu => by simp at hu⟩
              · simp at h
              · rename_i pp hif
                split at h
                · rename_i hcond
                  split at h
                  · simp at h
                  · rename_i s2 hsing
                    simp only [Except.ok.injEq, Prod.mk.injEq] at h
                    obtain ⟨rfl, rfl⟩ := h
                    have hrel := ihS held r 0 s s2 hwf (by rw [Stk.inInt_iff]; omega) hsing
                    -- the wrapper has exactly one element, and `child` is it
                    have hlen1 : ws.length = 1 := by simpa using hlen
                    have hsmw : SmallLen ws.length := (hwf w _ hw).2
                    have hws : ws = [child] := by
                      rcases index_nat cw ws 0 hsmw (by rw [Stk.inInt_iff]; omega) with h0 | ⟨q, v, hv, hq, _, hq0⟩
                      · simp only [Int.natCast_zero] at h0; rw [h0] at hch; simp at hch
                      · simp only [Int.natCast_zero] at hv; rw [hv] at hch
                        simp only [Except.ok.injEq, Option.some.injEq] at hch
                        subst hch
                        have := hq0 (by omega)
                        subst this
                        exact singleton_of ws _ hlen1 hq
                    subst hws
                    simp only [Bool.and_eq_true, Bool.not_eq_true'] at hcond
                    have hpp : pp = false := hcond.1
                    subst hpp
                    have hcw : okWrapper cw = true := by
                      unfold okWrapper; simp [hcond.2]; simpa using hnot
                    refine ⟨hrel, fun u hu => ?_⟩
                    simp only [Option.some.injEq] at hu
                    subst hu
                    have hokc : child.okAt s.heap w := (hwf w _ hw).1 child (by simp)
                    exact ⟨HVal.okAt_sorts hrel.sorts (HVal.okAt_mono (by omega) hokc),
                           just_unwrap s.heap s2.heap r w cw child hwf hwr hw hcw hif (hrel.step r)⟩
                · simp only [Except.ok.injEq, Prod.mk.injEq] at h
                  obtain ⟨rfl, rfl⟩ := h
                  exact ⟨Rel.refl _ hwf, fun u hu => by simp at hu⟩
          · split at h
            · simp at h
            · rename_i s2 hrev
              simp only [Except.ok.injEq, Prod.mk.injEq] at h
              obtain ⟨rfl, rfl⟩ := h
              have hrel := (ihR held w s s2 hwf hrev).mono (show w + 1 ≤ r by omega)
              refine ⟨hrel, fun u hu => ?_⟩
              simp only [Option.some.injEq] at hu
              subst hu
              exact ⟨HVal.okAt_sorts hrel.sorts ⟨hokw.1, hokw.2⟩,
                     fun g' => ERel.of_star ((rv_native_star _ g' w).trans (rv_star (hrel.step r) _))⟩
        · simp only [Except.ok.injEq, Prod.mk.injEq] at h
          obtain ⟨rfl, rfl⟩ := h
          exact ⟨Rel.refl _ hwf, fun u hu => by simp at hu⟩
    · -- revealDescend
      intro held r w idx s s' hwf hpre h
      obtain ⟨c, xs, hr, ⟨p, g, hp⟩, hidx⟩ := hpre
      have hokw : (HVal.stk g w).okAt s.heap r := (hwf r _ hr).1 _ (mem_of_getElem? hp)
      have hwr : w < r := hokw.1
      simp only [revealDescend] at h
      split at h
      · simp at h
      · rename_i s1 upd hu
        obtain ⟨hrel, hupd⟩ := ihU held r w s s1 upd hwf ⟨c, xs, p, g, hr, hp⟩ hu
        cases upd with
        | none =>
          simp only at h
          exact (hrel.mono (by omega)).trans ((ihR held w s1 s' hrel.wf h).mono (by omega))
        | some u =>
          simp only at h
          obtain ⟨huok, hjust⟩ := hupd u rfl
          have h2 := replace_rel s.heap s1.heap r w idx c xs u hwf hrel hr hidx huok hjust
          exact h2.trans ((ihR held w _ s' h2.wf h).mono (by omega))
    · -- revealSingle
      intro held r idx s s' hwf hii h
      simp only [revealSingle] at h
      split at h
      · simp at h
      · rename_i c xs hs
        have hr := stackAt_some.mp hs
        have hsm : SmallLen xs.length := (hwf r _ hr).2
        split at h
        · simp at h
        · -- a condition in the slot
          rename_i g cid hidx
          have hokc : (HVal.cnd g cid).okAt s.heap r := by
            rcases index_nat c xs idx hsm hii with h0 | ⟨p, v, hv, hp, _, _⟩
            · rw [h0] at hidx; simp at hidx
            · rw [hv] at hidx
              simp only [Except.ok.injEq, Option.some.injEq] at hidx
              subst hidx
              exact (hwf r _ hr).1 _ (mem_of_getElem? hp)
          split at h
          · simp at h
          · rename_i cc kw op ex hcs
            have hcn := condAt_some.mp hcs
            split at h
            · split at h
              · rename_i g' m
                split at h
                · simp at h
                · rename_i s1 hrev
                  simp only [Except.ok.injEq] at h
                  subst h
                  have hokm : (HVal.stk g' m).okAt s.heap cid := hwf cid _ hcn
                  have hrel := (ihR held m s s1 hwf hrev).mono (show m + 1 ≤ cid from hokm.1)
                  exact (setExpr_rel s.heap s1.heap cid m cc kw op g' hrel hcn).mono hokc.1
              · simp only [Except.ok.injEq] at h; subst h; exact Rel.refl _ hwf
            · simp only [Except.ok.injEq] at h; subst h; exact Rel.refl _ hwf
        · -- a stack in the slot
          rename_i g m hidx
          have hokm : (HVal.stk g m).okAt s.heap r := by
            rcases index_nat c xs idx hsm hii with h0 | ⟨p, v, hv, hp, _, _⟩
            · rw [h0] at hidx; simp at hidx
            · rw [hv] at hidx
              simp only [Except.ok.injEq, Option.some.injEq] at hidx
              subst hidx
              exact (hwf r _ hr).1 _ (mem_of_getElem? hp)
          exact (ihR held m s s' hwf h).mono hokm.1
        · simp only [Except.ok.injEq] at h; subst h; exact Rel.refl _ hwf

/-- the state in which `revealDescend` makes its final `inner.reveal()` call -/
theorem descend_mid (fuel : Nat) (held : List Nat) (r w idx : Nat) (s s1 : St) (upd : Option HVal)
    (hwf : WF s.heap) (hpre : DescPre s.heap r w idx) (hu : descendUpdated fuel held r w s = .ok (s1, upd)) :
    Rel (r + 1) s.heap (match upd with
      | some u => ({ s1 with heap := replaceAt s1.heap r u idx } : St)
      | none => s1).heap := by
  obtain ⟨c, xs, hr, ⟨p, g, hp⟩, hidx⟩ := hpre
  obtain ⟨hrel, hupd⟩ := (reveal_inv fuel).2.2.1 held r w s s1 upd hwf ⟨c, xs, p, g, hr, hp⟩ hu
  cases upd with
  | none => exact hrel.mono (by omega)
  | some u =>
    obtain ⟨huok, hjust⟩ := hupd u rfl
    exact replace_rel s.heap s1.heap r w idx c xs u hwf hrel hr hidx huok hjust

end RevealHeap
end Stackage
