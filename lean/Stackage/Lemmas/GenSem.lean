import Stackage.Gen.Conds

/-!
# Semantics of the generated guards

`Gen/Conds.lean` and `Gen/Funcs.lean` are regenerated from the Go source on every run; the
*shape* of a guard there follows the shape of the Go expression (`u1+1 > r.cap()-1` or
`u1+1 >= r.cap()`, `0 <= i` or `i > -1`, ...). No proof outside this file may look inside a
`Gen.<site>`: every proof uses the characterisation lemmas below, which say what the guard
*means* on the values a Go `int` / a slice length can take.

Normal form (one for the whole file):

* Boolean guard:  `Gen.<site> env = decide P`, where `P` is a proposition of linear integer
  arithmetic over the `Env` fields the guard reads (no `wrap64`), `b = true` for a Boolean
  field, and `∧ ∨ ¬`;
* integer-valued function / expression: `Gen.<f> args = e`, `e` a linear expression (with an
  `if` on a linear condition where the function has two regimes).

Range hypotheses: `InInt x` (any Go `int`) and `IsLen n` (`0 ≤ n < 2^62`, a slice length).

Every lemma is proved by the same tactic `guard_arith [Gen.<site>]`, which does not depend on
the shape of the Go expression: unfold the guard, replace `wrap64` by its `%` form over
numerals, split every `if`, turn the Boolean connectives into propositions, turn the remaining
Boolean atoms `b = true` into the arithmetic atoms `b.toNat = 1`, and call `omega`. Any
arithmetically equivalent rewrite of the Go guard (on the stated ranges) is therefore accepted
without touching a proof, and any rewrite that changes the guard's value on some input in the
range makes the lemma fail.
-/

set_option linter.unusedSimpArgs false
set_option linter.unusedVariables false
namespace Stackage

theorem pow62 : (2:Int)^62 = 4611686018427387904 := by decide
theorem pow63 : (2:Int)^63 = 9223372036854775808 := by decide
theorem pow64 : (2:Int)^64 = 18446744073709551616 := by decide

theorem wrap64_eq {x : Int} (h1 : -9223372036854775808 ≤ x) (h2 : x < 9223372036854775808) : wrap64 x = x := by
  unfold wrap64; rw [pow63, pow64]; omega

/-- a Go slice length (or a capacity that a slice length is compared with): `0 ≤ n < 2^62` -/
def IsLen (n : Int) : Prop := 0 ≤ n ∧ n < 2^62

theorem inInt_iff (i : Int) : InInt i ↔ (-9223372036854775808 ≤ i ∧ i < 9223372036854775808) := by
  unfold InInt; rw [pow63]

theorem isLen_iff (n : Int) : IsLen n ↔ (0 ≤ n ∧ n < 4611686018427387904) := by
  unfold IsLen; rw [pow62]

/-- `len(*r)` of an initialised stack (slot 0 included): `1 ≤ n ≤ 2^62` -/
def IsRawLen (n : Int) : Prop := 1 ≤ n ∧ n ≤ 2^62

theorem isRawLen_iff (n : Int) : IsRawLen n ↔ (1 ≤ n ∧ n ≤ 4611686018427387904) := by
  unfold IsRawLen; rw [pow62]

theorem IsLen.inInt {n : Int} (h : IsLen n) : InInt n := by
  rw [isLen_iff] at h; rw [inInt_iff]; omega

theorem isLen_nat {n : Nat} (h : (n : Int) < 4611686018427387904) : IsLen (n : Int) := by
  rw [isLen_iff]; omega

theorem inInt_wrap64 (x : Int) : InInt (wrap64 x) := wrap64_range x

namespace GenSem

theorem bnot_eq_true (b : Bool) : ((!b) = true) ↔ ¬ (b = true) := by cases b <;> simp
theorem eq_false_iff_not (b : Bool) : (b = false) ↔ ¬ (b = true) := by cases b <;> simp
theorem beq_bool_true (a b : Bool) : ((a == b) = true) ↔ ((a = true) ↔ (b = true)) := by
  cases a <;> cases b <;> simp
theorem bne_bool_true (a b : Bool) : ((a != b) = true) ↔ ¬ ((a = true) ↔ (b = true)) := by
  cases a <;> cases b <;> simp
theorem ite_bool_true (c : Prop) [Decidable c] (a b : Bool) :
    ((if c then a else b) = true) ↔ ((c ∧ a = true) ∨ (¬ c ∧ b = true)) := by
  by_cases h : c <;> simp [h]
theorem toNat_one (b : Bool) : (b = true) ↔ (b.toNat = 1) := by cases b <;> simp

/-- Phase 1 of `guard_arith`: the Boolean structure of a guard becomes propositional structure. -/
macro "guard_props" : tactic => `(tactic|
  simp only [wrap64, pow62, pow63, pow64, inInt_iff, isLen_iff, isRawLen_iff,
    Bool.and_eq_true, Bool.or_eq_true, GenSem.bnot_eq_true, GenSem.eq_false_iff_not,
    GenSem.beq_bool_true, GenSem.bne_bool_true,
    decide_eq_true_eq, bne_iff_ne, beq_iff_eq, ne_eq, Int.ofNat_eq_natCast,
    eq_self, not_true_eq_false, not_false_eq_true, Bool.true_eq_false, Bool.false_eq_true,
    true_and, and_true, false_and, and_false, true_or, or_true, false_or, or_false,
    true_iff, iff_true, false_iff, iff_false, implies_true, true_implies, false_implies] at *)

/-- Phase 2 of `guard_arith`: Boolean atoms become arithmetic atoms, so that `omega` can do the
propositional reasoning about them too. -/
macro "guard_atoms" : tactic => `(tactic|
  simp only [GenSem.toNat_one, Bool.toNat_true, Bool.toNat_false] at *)

/-- The robust closing tactic for a semantic characterisation lemma (see the header). -/
syntax "guard_arith" "[" ident,* "]" : tactic
macro_rules
  | `(tactic| guard_arith [$ids,*]) => `(tactic| (
      unfold $[$ids]*
      try dsimp only
      repeat' split
      all_goals (try refine Bool.eq_iff_iff.2 ?_)
      all_goals (try guard_props)
      all_goals (try guard_atoms)
      all_goals omega))

/-- A Boolean guard site: `Gen.<site>` is `Gen.<site>_raw` or its negation, by the closed constant `Gen.<site>_same` (which the kernel
evaluates: agreement with `GenRef.<site>` on the sample environments). Whichever it is, the rest is `guard_arith` on the raw expression. -/
syntax "polar_arith" ident ident ident : tactic
macro_rules
  | `(tactic| polar_arith $x $same $raw) => `(tactic| (
      unfold $x GenRef.polarised
      first
        | (have hpol : $same = true := by decide
           simp only [hpol, ↓reduceIte]
           guard_arith [$raw])
        | (have hpol : $same = false := by decide
           simp only [hpol, Bool.false_eq_true, ↓reduceIte]
           guard_arith [$raw])))

/-! ## `stack.index` -/

/-- (`hL`: the local `L` of `index` is `r.ulen()`, whether it is declared in the `if` itself or in a statement of its own before a guard clause) -/
theorem index_nonempty (env : Env) (hL : env.L = env.ulen) :
    Gen.index_nonempty env = decide (0 < env.ulen) := by
  polar_arith Gen.index_nonempty Gen.index_nonempty_same Gen.index_nonempty_raw

theorem index_isneg (env : Env) :
    Gen.index_isneg env = decide (env.i < 0) := by
  polar_arith Gen.index_isneg Gen.index_isneg_same Gen.index_isneg_raw

theorem index_negok (env : Env) (hL : IsLen env.L) :
    Gen.index_negok env = decide (env.negidx = true ∧ -env.L ≤ env.i) := by
  polar_arith Gen.index_negok Gen.index_negok_same Gen.index_negok_raw

theorem index_isover (env : Env) (hL : IsLen env.L) :
    Gen.index_isover env = decide (env.L ≤ env.i) := by
  polar_arith Gen.index_isover Gen.index_isover_same Gen.index_isover_raw

theorem index_fwdok (env : Env) :
    Gen.index_fwdok env = decide (env.fwdidx = true) := by
  polar_arith Gen.index_fwdok Gen.index_fwdok_same Gen.index_fwdok_raw

/-! ## `stack.swap`, `stack.replace` -/

theorem swap_reject (env : Env) (hu : IsLen env.ulen) (hi : InInt env.i) (hj : InInt env.j) :
    Gen.swap_reject env =
      decide (¬ ((0 ≤ env.i ∧ env.i < env.ulen) ∧ (0 ≤ env.j ∧ env.j < env.ulen))) := by
  polar_arith Gen.swap_reject Gen.swap_reject_same Gen.swap_reject_raw

/-- no range is assumed for `env.i`: the heap model of C19 (`replaceSlots`) instantiates it with an
arbitrary natural number. Rewrites that compute with `i` itself (`i+1 <= ulen`) are therefore not
covered; comparisons of `i` with a computed bound (`i <= ulen-1`, `i > -1`) are. -/
theorem replace_ok (env : Env) (hu : IsLen env.ulen) :
    Gen.replace_ok env = decide (0 ≤ env.i ∧ env.i < env.ulen) := by
  polar_arith Gen.replace_ok Gen.replace_ok_same Gen.replace_ok_raw

/-! ## `stack.insert`, `stack.remove` -/

theorem insert_full (env : Env) (hu : IsLen env.u1) (hc : IsLen env.cap) :
    Gen.insert_full env = decide (env.cap ≠ 0 ∧ env.cap ≤ env.u1 + 1) := by
  polar_arith Gen.insert_full Gen.insert_full_same Gen.insert_full_raw

theorem insert_append (env : Env) (hu : IsLen env.u1) (hl : InInt env.left) :
    Gen.insert_append env = decide (env.u1 ≤ env.left) := by
  polar_arith Gen.insert_append Gen.insert_append_same Gen.insert_append_raw

theorem insert_front (env : Env) (hl : InInt env.left) :
    Gen.insert_front env = decide (env.left ≤ 1) := by
  polar_arith Gen.insert_front Gen.insert_front_same Gen.insert_front_raw

theorem insert_ok_append (env : Env) (hu : IsLen env.u1) (hn : IsLen env.ulen) :
    Gen.insert_ok_append env = decide (env.ulen = env.u1 + 1) := by
  polar_arith Gen.insert_ok_append Gen.insert_ok_append_same Gen.insert_ok_append_raw

theorem remove_ok (env : Env) (hu : IsLen env.u1) (hn : IsLen env.ulen) :
    Gen.remove_ok env = decide (env.slice_nonnil = true ∧ env.ulen = env.u1 - 1) := by
  polar_arith Gen.remove_ok Gen.remove_ok_same Gen.remove_ok_raw

/-! ## `stack.transfer` -/

theorem transfer_hascap (env : Env) (hc : IsLen env.dcap) :
    Gen.transfer_hascap env = decide (0 < env.dcap) := by
  polar_arith Gen.transfer_hascap Gen.transfer_hascap_same Gen.transfer_hascap_raw

theorem transfer_nofit (env : Env) (hu : IsLen env.ulen) (hc : IsLen env.dcap) (hl : IsRawLen env.dlen) :
    Gen.transfer_nofit env = decide (env.dcap - env.dlen < env.ulen) := by
  polar_arith Gen.transfer_nofit Gen.transfer_nofit_same Gen.transfer_nofit_raw

theorem transfer_ok (env : Env) (hd : IsLen env.dulen) (hb : IsLen env.before) (hu : IsLen env.ulen) :
    Gen.transfer_ok env = decide (env.dulen = env.before + env.ulen) := by
  polar_arith Gen.transfer_ok Gen.transfer_ok_same Gen.transfer_ok_raw

/-! ## `stack.defrag`, `stack.implode`, `stack.verifyImplode` -/

theorem defrag_go (env : Env) (hs : -1 ≤ env.start ∧ env.start < 4611686018427387904) :
    Gen.defrag_go env = decide (env.start ≠ -1 ∧ env.start < env.max) := by
  polar_arith Gen.defrag_go Gen.defrag_go_same Gen.defrag_go_raw

theorem defrag_trunc (env : Env) (hl : InInt env.last) :
    Gen.defrag_trunc env = decide (¬ env.err_nonnil = true ∧ 0 ≤ env.last) := by
  polar_arith Gen.defrag_trunc Gen.defrag_trunc_same Gen.defrag_trunc_raw

theorem implode_stop (env : Env) (hs : IsLen env.start) (hc : IsLen env.ct) (hu : IsLen env.ulen) :
    Gen.implode_stop env = decide (env.max ≤ env.ct ∨ env.ulen ≤ env.start + env.ct) := by
  polar_arith Gen.implode_stop Gen.implode_stop_same Gen.implode_stop_raw

theorem implode_last (env : Env) (hd : -1 ≤ env.len_data ∧ env.len_data < 4611686018427387904) (hi : IsLen env.i)
    (ht : IsRawLen env.len_tpat) :
    Gen.implode_last env = env.len_data + env.i - env.len_tpat := by
  guard_arith [Gen.implode_last]

/-! ## `Condition.Valid` -/

theorem cond_op_bogus (env : Env) :
    Gen.cond_op_bogus env = decide (¬ (1 ≤ env.assert ∧ env.assert ≤ 6)) := by
  polar_arith Gen.cond_op_bogus Gen.cond_op_bogus_same Gen.cond_op_bogus_raw

/-! ## whole functions (`Gen/Funcs.lean`) -/

theorem ulen (len : Int) (h : IsRawLen len) : Gen.ulen len = len - 1 := by
  guard_arith [Gen.ulen]

theorem isFull (cap len : Int) (hc : IsLen cap) (hl : cap ≠ 0 → IsRawLen len) :
    Gen.isFull cap len = decide (cap ≠ 0 ∧ len = cap) := by
  guard_arith [Gen.isFull]

theorem Cap (cap : Int) (hc : IsLen cap) :
    Gen.Cap true cap = if 0 < cap then cap - 1 else -1 := by
  guard_arith [Gen.Cap]

theorem Avail (cap len : Int) (hc : IsLen cap) (hl : cap ≠ 0 → IsRawLen len) :
    Gen.Avail true cap len = if 0 < cap then cap - len else -1 := by
  guard_arith [Gen.Avail]

theorem factorNegIndex (i L : Int) (hL : IsLen L) (h1 : -L ≤ i) (h2 : i < 0) :
    Gen.factorNegIndex i L = L + i + 1 := by
  guard_arith [Gen.factorNegIndex]

theorem capLenEqual (c1 c2 l1 l2 : Int) :
    Gen.capLenEqual c1 c2 l1 l2 = decide (c1 = c2 ∧ l1 = l2) := by
  guard_arith [Gen.capLenEqual]

/-- the scan limit is the caller's first argument when there is one and it is positive, and is
positive in every case (the value of the default is not part of any property) -/
theorem calculateDefragMax (n m : Int) :
    (0 < n → 0 < m → Gen.calculateDefragMax n m = m) ∧ 0 < Gen.calculateDefragMax n m := by
  guard_arith [Gen.calculateDefragMax]

end GenSem
end Stackage
