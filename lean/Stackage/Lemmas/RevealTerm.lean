import Stackage.Lemmas.RevealSafe

/-!
# `reveal` terminates: a fuel that always suffices

`fuel` bounds the depth of the call tree, loop iterations included. A `reveal` on node `r`
nests at most `len(r) + 2` loop iterations, three helper activations and then a `reveal` on
a node below `r`; slices are shorter than `2^62`, so `(r + 1) * (2^62 + 8)` always suffices.
-/

set_option linter.unusedSimpArgs false
set_option linter.unusedVariables false

namespace Stackage
namespace RevealHeap
open Tree

/-- bound on slice lengths, as a natural number -/
def B : Nat := 4611686018427387904
/-- fuel per level of nesting -/
def K : Nat := B + 8

theorem small_lt_B {n : Nat} (h : SmallLen n) : n < B := by
  unfold SmallLen at h; rw [pow62] at h; unfold B; omega

theorem K_step (m r : Nat) (h : m < r) : (m + 1) * K ≤ r * K := Nat.mul_le_mul_right K h

/-- with the bound for every node below `r` in hand: the four helpers on `r` -/
theorem term_level (r : Nat)
    (ihR : ∀ m, m < r → ∀ fuel held s, (m + 1) * K ≤ fuel → WF s.heap → reveal fuel held m s ≠ .error .fuel) :
    (∀ fuel held idx s, r * K + 1 ≤ fuel → WF s.heap → InInt ((idx : Nat) : Int) → revealSingle fuel held r idx s ≠ .error .fuel) ∧
    (∀ fuel held w s, r * K + 2 ≤ fuel → WF s.heap →
        (∃ (c : Cfg) (xs : List HVal) (p : Nat) (g : Form), s.heap[r]? = some (.stack c xs) ∧ xs[p]? = some (HVal.stk g w)) →
        ∀ res, descendUpdated fuel held r w s = res → res ≠ .error .fuel) ∧
    (∀ fuel held w idx s, r * K + 3 ≤ fuel → WF s.heap → DescPre s.heap r w idx →
        revealDescend fuel held r w idx s ≠ .error .fuel) := by
  have hS : ∀ fuel held idx s, r * K + 1 ≤ fuel → WF s.heap → InInt ((idx : Nat) : Int) →
      revealSingle fuel held r idx s ≠ .error .fuel := by
    intro fuel held idx s hf hwf hii h
    cases fuel with
    | zero => omega
    | succ fuel =>
      simp only [revealSingle] at h
      split at h
      · simp at h
      · rename_i c xs hs
        have hr := stackAt_some.mp hs
        have hsm : SmallLen xs.length := (hwf r _ hr).2
        split at h
        · simp [ofFault] at h
        · rename_i g cid hidx
          have hokc : (HVal.cnd g cid).okAt s.heap r := (hwf r _ hr).1 _ (index_mem c xs idx hsm hii _ hidx)
          split at h
          · simp at h
          · rename_i cc kw op ex hcs
            have hcn := condAt_some.mp hcs
            split at h
            · split at h
              · rename_i g' m
                have hokm : (HVal.stk g' m).okAt s.heap cid := hwf cid _ hcn
                have hmr : m < r := by have := hokm.1; have := hokc.1; omega
                split at h
                · rename_i e' hrev
                  simp only [Except.error.injEq] at h; subst h
                  exact ihR m hmr fuel held s (by have := K_step m r hmr; omega) hwf hrev
                · simp at h
              · simp at h
            · simp at h
        · rename_i g m hidx
          have hokm : (HVal.stk g m).okAt s.heap r := (hwf r _ hr).1 _ (index_mem c xs idx hsm hii _ hidx)
          exact ihR m hokm.1 fuel held s (by have := K_step m r hokm.1; omega) hwf h
        · simp at h
  have hU : ∀ fuel held w s, r * K + 2 ≤ fuel → WF s.heap →
      (∃ (c : Cfg) (xs : List HVal) (p : Nat) (g : Form), s.heap[r]? = some (.stack c xs) ∧ xs[p]? = some (HVal.stk g w)) →
      ∀ res, descendUpdated fuel held r w s = res → res ≠ .error .fuel := by
    intro fuel held w s hf hwf hpre res hres h
    subst hres
    obtain ⟨c, xs, p, g, hr, hp⟩ := hpre
    have hokw : (HVal.stk g w).okAt s.heap r := (hwf r _ hr).1 _ (mem_of_getElem? hp)
    cases fuel with
    | zero => omega
    | succ fuel =>
      simp only [descendUpdated] at h
      split at h
      · simp at h
      · split at h
        · split at h
          · split at h
            · simp [ofFault] at h
            · simp at h
            · split at h
              · simp at h
              · simp at h
              · split at h
                · split at h
                  · rename_i e' hsing
                    simp only [Except.error.injEq] at h; subst h
                    exact hS fuel held 0 s (by omega) hwf inInt_zero hsing
                  · simp at h
                · simp at h
          · split at h
            · rename_i e' hrev
              simp only [Except.error.injEq] at h; subst h
              exact ihR w hokw.1 fuel held s (by have := K_step w r hokw.1; omega) hwf hrev
            · simp at h
        · simp at h
  refine ⟨hS, hU, ?_⟩
  intro fuel held w idx s hf hwf hpre h
  have hpre' := hpre
  obtain ⟨c, xs, hr, ⟨p, g, hp⟩, hidx⟩ := hpre
  have hokw : (HVal.stk g w).okAt s.heap r := (hwf r _ hr).1 _ (mem_of_getElem? hp)
  cases fuel with
  | zero => omega
  | succ fuel =>
    simp only [revealDescend] at h
    split at h
    · rename_i e' hu
      simp only [Except.error.injEq] at h; subst h
      exact hU fuel held w s (by omega) hwf ⟨c, xs, p, g, hr, hp⟩ _ hu rfl
    · rename_i s1 upd hu
      have hmid := descend_mid fuel held r w idx s s1 upd hwf hpre' hu
      exact ihR w hokw.1 fuel held _ (by have := K_step w r hokw.1; omega) hmid.wf h

/-- the loop of `reveal` on `r`, from iteration `i` on -/
theorem term_loop (r : Nat)
    (ihR : ∀ m, m < r → ∀ fuel held s, (m + 1) * K ≤ fuel → WF s.heap → reveal fuel held m s ≠ .error .fuel) :
    ∀ (k i fuel : Nat) held s, i + k = B + 2 → r * K + 4 + k ≤ fuel → WF s.heap →
      revealLoop fuel held r i s ≠ .error .fuel := by
  obtain ⟨_, _, hD⟩ := term_level r ihR
  intro k
  induction k with
  | zero =>
    intro i fuel held s hik hf hwf h
    cases fuel with
    | zero => omega
    | succ fuel =>
      simp only [revealLoop] at h
      split at h
      · simp at h
      · rename_i c xs hs
        have hsm : SmallLen xs.length := (hwf r _ (stackAt_some.mp hs)).2
        have := small_lt_B hsm
        have hi : ¬ (i < xs.length + 1) := by omega
        simp [hi] at h
  | succ k ih =>
    intro i fuel held s hik hf hwf h
    cases fuel with
    | zero => omega
    | succ fuel =>
      simp only [revealLoop] at h
      split at h
      · simp at h
      · rename_i c xs hs
        have hr := stackAt_some.mp hs
        have hsm : SmallLen xs.length := (hwf r _ hr).2
        split at h
        · rename_i hi
          have hii : InInt (i : Int) := natInInt i _ hsm (by omega)
          split at h
          · simp [ofFault] at h
          · rename_i g w hidx
            split at h
            · simp at h
            · split at h
              · have hpre : DescPre s.heap r w i := by
                  rcases index_nat c xs i hsm hii with h0 | ⟨p, v, hv, hp, _, hpi⟩
                  · rw [h0] at hidx; simp at hidx
                  · rw [hv] at hidx
                    simp only [Except.ok.injEq, Option.some.injEq] at hidx
                    subst hidx
                    exact ⟨c, xs, hr, ⟨p, g, hp⟩, fun hi => ⟨g, by rw [← hpi hi]; exact hp⟩⟩
                split at h
                · rename_i e' hd
                  simp only [Except.error.injEq] at h; subst h
                  exact hD fuel held w i s (by omega) hwf hpre hd
                · rename_i s1 hd
                  have hrel := (reveal_inv fuel).2.2.2.1 held r w i s s1 hwf hpre hd
                  exact ih (i + 1) fuel held s1 (by omega) (by omega) hrel.wf h
              · exact ih (i + 1) fuel held s (by omega) (by omega) hwf h
          · exact ih (i + 1) fuel held s (by omega) (by omega) hwf h
        · simp at h

/-- **termination**: `(r + 1) * K` levels of fuel always suffice for `reveal` on node `r` -/
theorem reveal_terminates : ∀ (r fuel : Nat) held s, (r + 1) * K ≤ fuel → WF s.heap →
    reveal fuel held r s ≠ .error .fuel := by
  intro r
  induction r using Nat.strongRecOn with
  | _ r ih =>
    intro fuel held s hf hwf h
    have hloop := term_loop r (fun m hm fuel held s => ih m hm fuel held s)
    have hK : (r + 1) * K = r * K + K := Nat.succ_mul r K
    have hKB : K = B + 8 := rfl
    cases fuel with
    | zero => omega
    | succ fuel =>
      simp only [reveal] at h
      split at h
      · simp at h
      · split at h
        · simp at h
        · refine hloop (B + 2) 0 fuel _ _ (by omega) (by omega) (by split <;> exact hwf) h

end RevealHeap
end Stackage
