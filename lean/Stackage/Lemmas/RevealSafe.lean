import Stackage.Lemmas.RevealInv

/-!
# `reveal` never panics and never re-acquires a held lock (well-formed heaps)

The locks held at any moment are those of the `reveal` activations on the call stack. Every
nested activation is for a node strictly below the current one (handles point downwards in a
well-formed heap, and every write keeps it so), hence never for a node whose lock is held.
-/

set_option linter.unusedSimpArgs false
set_option linter.unusedVariables false

namespace Stackage
namespace RevealHeap
open Tree

theorem iface_ne_broken (H : Heap) (k : Nat) (child : HVal) (hok : child.okAt H k) : iface H child ≠ .broken := by
  cases child with
  | atom v => cases v <;> simp [iface] <;> (rename_i f; cases f <;> simp)
  | stk f id =>
    cases f <;> simp [iface]
    obtain ⟨c, xs, h⟩ := sortOf_stack hok.2
    simp [stackAt, h]
  | cnd f id =>
    cases f <;> simp [iface]
    obtain ⟨c, kw, op, ex, h⟩ := sortOf_cond hok.2
    simp [condAt, h]

theorem stackAt_of_sort {H : Heap} {id : Nat} (h : sortOf H[id]? = 1) : ∃ c xs, stackAt H id = some (c, xs) := by
  obtain ⟨c, xs, hn⟩ := sortOf_stack h
  exact ⟨c, xs, stackAt_some.mpr hn⟩

theorem condAt_of_sort {H : Heap} {id : Nat} (h : sortOf H[id]? = 2) : ∃ c kw op ex, condAt H id = some (c, kw, op, ex) := by
  obtain ⟨c, kw, op, ex, hn⟩ := sortOf_cond h
  exact ⟨c, kw, op, ex, condAt_some.mpr hn⟩

theorem index_ok (c : Cfg) (xs : List HVal) (i : Nat) (hs : SmallLen xs.length) (hi : InInt (i : Int)) (f : Fault) :
    index c xs (i : Int) ≠ .error f := by
  rcases index_nat c xs i hs hi with h | ⟨_, _, h, _⟩ <;> rw [h] <;> simp

/-- a slot value returned by `index` is a slot of the stack -/
theorem index_mem (c : Cfg) (xs : List HVal) (i : Nat) (hs : SmallLen xs.length) (hi : InInt (i : Int)) (v : HVal)
    (h : index c xs (i : Int) = .ok (some v)) : v ∈ xs := by
  rcases index_nat c xs i hs hi with h0 | ⟨p, v', hv, hp, _, _⟩
  · rw [h0] at h; simp at h
  · rw [hv] at h
    simp only [Except.ok.injEq, Option.some.injEq] at h
    subst h
    exact mem_of_getElem? hp

theorem inInt_zero : InInt ((0 : Nat) : Int) := by rw [Stk.inInt_iff]; omega

/-- **no panic, no deadlock**, by induction on the fuel, for all five functions at once:
the only way not to finish is to run out of fuel -/
theorem reveal_safe : ∀ (fuel : Nat),
    (∀ held r s e, WF s.heap → sortOf s.heap[r]? = 1 → (∀ h, h ∈ held → r < h) →
        reveal fuel held r s = .error e → e = .fuel) ∧
    (∀ held r i s e, WF s.heap → sortOf s.heap[r]? = 1 → (∀ h, h ∈ held → r ≤ h) →
        revealLoop fuel held r i s = .error e → e = .fuel) ∧
    (∀ held r w s e, WF s.heap → (∀ h, h ∈ held → r ≤ h) →
        (∃ (c : Cfg) (xs : List HVal) (p : Nat) (g : Form), s.heap[r]? = some (.stack c xs) ∧ xs[p]? = some (HVal.stk g w)) →
        descendUpdated fuel held r w s = .error e → e = .fuel) ∧
    (∀ held r w idx s e, WF s.heap → (∀ h, h ∈ held → r ≤ h) → DescPre s.heap r w idx →
        revealDescend fuel held r w idx s = .error e → e = .fuel) ∧
    (∀ held r (idx : Nat) s e, WF s.heap → sortOf s.heap[r]? = 1 → (∀ h, h ∈ held → r ≤ h) → InInt (idx : Int) →
        revealSingle fuel held r idx s = .error e → e = .fuel) := by
  intro fuel
  induction fuel with
  | zero =>
    refine ⟨?_, ?_, ?_, ?_, ?_⟩ <;> intros <;> simp_all [reveal, revealLoop, descendUpdated, revealDescend, revealSingle]
  | succ fuel ih =>
    obtain ⟨ihR, ihL, ihU, ihD, ihS⟩ := ih
    obtain ⟨invR, invL, invU, invD, invS⟩ := reveal_inv fuel
    refine ⟨?_, ?_, ?_, ?_, ?_⟩
    · -- reveal
      intro held r s e hwf hsort hheld h
      simp only [reveal] at h
      split at h
      · rename_i hs; exact absurd hsort (stackAt_none hs)
      · rename_i c xs hs
        split at h
        · -- the lock of r would be re-acquired: r is not held
          rename_i hd
          simp only [Bool.and_eq_true, List.contains_iff_mem] at hd
          have := hheld r (by simpa using hd.2)
          omega
        · refine ihL _ r 0 _ e (by split <;> exact hwf) (by split <;> exact hsort) ?_ h
          intro x hx
          split at hx
          · rcases List.mem_cons.mp hx with rfl | hx
            · exact Nat.le_refl _
            · exact Nat.le_of_lt (hheld x hx)
          · exact Nat.le_of_lt (hheld x hx)
    · -- revealLoop
      intro held r i s e hwf hsort hheld h
      simp only [revealLoop] at h
      split at h
      · rename_i hs; exact absurd hsort (stackAt_none hs)
      · rename_i c xs hs
        have hr := stackAt_some.mp hs
        have hsm : SmallLen xs.length := (hwf r _ hr).2
        split at h
        · rename_i hi
          have hii : InInt (i : Int) := natInInt i _ hsm (by omega)
          split at h
          · rename_i f hidx; exact absurd hidx (index_ok c xs i hsm hii f)
          · rename_i g w hidx
            have hmem := index_mem c xs i hsm hii _ hidx
            have hokw : (HVal.stk g w).okAt s.heap r := (hwf r _ hr).1 _ hmem
            split at h
            · rename_i hsw; exact absurd hokw.2 (stackAt_none hsw)
            · split at h
              · have hpre : DescPre s.heap r w i := by
                  rcases index_nat c xs i hsm hii with h0 | ⟨p, v, hv, hp, _, hpi⟩
                  · rw [h0] at hidx; simp at hidx
                  · rw [hv] at hidx
                    simp only [Except.ok.injEq, Option.some.injEq] at hidx
                    subst hidx
                    exact ⟨c, xs, hr, ⟨p, g, hp⟩, fun hi => ⟨g, by rw [← hpi hi]; exact hp⟩⟩
                split at h
                · rename_i e' hd
                  simp only [Except.error.injEq] at h; subst h
                  exact ihD held r w i s _ hwf hheld hpre hd
                · rename_i s1 hd
                  have hrel := invD held r w i s s1 hwf hpre hd
                  exact ihL held r (i + 1) s1 e hrel.wf (by rw [hrel.sorts]; exact hsort) hheld h
              · exact ihL held r (i + 1) s e hwf hsort hheld h
          · exact ihL held r (i + 1) s e hwf hsort hheld h
        · simp at h
    · -- descendUpdated
      intro held r w s e hwf hheld hpre h
      obtain ⟨c, xs, p, g, hr, hp⟩ := hpre
      have hokw : (HVal.stk g w).okAt s.heap r := (hwf r _ hr).1 _ (mem_of_getElem? hp)
      have hwr : w < r := hokw.1
      have hsortr : sortOf s.heap[r]? = 1 := by rw [hr]; rfl
      simp only [descendUpdated] at h
      split at h
      · rename_i hsw; exact absurd hokw.2 (stackAt_none hsw)
      · rename_i cw ws hsw
        have hw := stackAt_some.mp hsw
        have hsmw : SmallLen ws.length := (hwf w _ hw).2
        split at h
        · split at h
          · split at h
            · rename_i f hch
              have := index_ok cw ws 0 hsmw inInt_zero f
              simp only [Int.natCast_zero] at this
              exact absurd hch this
            · simp at h
            · rename_i child hch
              have hmem : child ∈ ws := by
                apply index_mem cw ws 0 hsmw inInt_zero; simpa using hch
              have hokc : child.okAt s.heap w := (hwf w _ hw).1 child hmem
              split at h
              · simp at h
              · rename_i hif; exact absurd hif (iface_ne_broken _ _ _ hokc)
              · split at h
                · split at h
                  · rename_i e' hsing
                    simp only [Except.error.injEq] at h; subst h
                    exact ihS held r 0 s _ hwf hsortr hheld inInt_zero hsing
                  · simp at h
                · simp at h
          · split at h
            · rename_i e' hrev
              simp only [Except.error.injEq] at h; subst h
              exact ihR held w s _ hwf hokw.2 (fun x hx => by have := hheld x hx; omega) hrev
            · simp at h
        · simp at h
    · -- revealDescend
      intro held r w idx s e hwf hheld hpre h
      obtain ⟨c, xs, hr, ⟨p, g, hp⟩, hidx⟩ := hpre
      have hokw : (HVal.stk g w).okAt s.heap r := (hwf r _ hr).1 _ (mem_of_getElem? hp)
      have hwr : w < r := hokw.1
      have hlow : ∀ x, x ∈ held → w < x := fun x hx => by have := hheld x hx; omega
      simp only [revealDescend] at h
      split at h
      · rename_i e' hu
        simp only [Except.error.injEq] at h; subst h
        exact ihU held r w s _ hwf hheld ⟨c, xs, p, g, hr, hp⟩ hu
      · rename_i s1 upd hu
        obtain ⟨hrel, hupd⟩ := invU held r w s s1 upd hwf ⟨c, xs, p, g, hr, hp⟩ hu
        cases upd with
        | none =>
          simp only at h
          exact ihR held w s1 e hrel.wf (by rw [hrel.sorts]; exact hokw.2) hlow h
        | some u =>
          simp only at h
          obtain ⟨huok, hjust⟩ := hupd u rfl
          have h2 := replace_rel s.heap s1.heap r w idx c xs u hwf hrel hr hidx huok hjust
          exact ihR held w _ e h2.wf (by rw [h2.sorts]; exact hokw.2) hlow h
    · -- revealSingle
      intro held r idx s e hwf hsort hheld hii h
      simp only [revealSingle] at h
      split at h
      · rename_i hs; exact absurd hsort (stackAt_none hs)
      · rename_i c xs hs
        have hr := stackAt_some.mp hs
        have hsm : SmallLen xs.length := (hwf r _ hr).2
        split at h
        · rename_i f hidx; exact absurd hidx (index_ok c xs idx hsm hii f)
        · rename_i g cid hidx
          have hokc : (HVal.cnd g cid).okAt s.heap r := (hwf r _ hr).1 _ (index_mem c xs idx hsm hii _ hidx)
          split at h
          · rename_i hcs; exact absurd hokc.2 (condAt_none hcs)
          · rename_i cc kw op ex hcs
            have hcn := condAt_some.mp hcs
            split at h
            · split at h
              · rename_i g' m
                have hokm : (HVal.stk g' m).okAt s.heap cid := hwf cid _ hcn
                split at h
                · rename_i e' hrev
                  simp only [Except.error.injEq] at h; subst h
                  exact ihR held m s _ hwf hokm.2 (fun x hx => by have := hheld x hx; have := hokm.1; have := hokc.1; omega) hrev
                · simp at h
              · simp at h
            · simp at h
        · rename_i g m hidx
          have hokm : (HVal.stk g m).okAt s.heap r := (hwf r _ hr).1 _ (index_mem c xs idx hsm hii _ hidx)
          exact ihR held m s e hwf hokm.2 (fun x hx => by have := hheld x hx; have := hokm.1; omega) h
        · simp at h

end RevealHeap
end Stackage
