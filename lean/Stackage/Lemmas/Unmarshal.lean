import Stackage.Model.Policy
import Stackage.Model.Alias
import Stackage.Lemmas.Alias

/-!
# Facts about the closure-aware Unmarshal walk (`unmarshalElemK`, `unmarshalElemsK`, `unmarshalExprK`)

* bridge: on a tree without any Unmarshaler the walk is the closure-free one and never reports an error;
* the loop over a concatenation (the error of the prefix wins, else the entries are concatenated);
* `erase` (C12): the walk of the native twin, with the closures' own results erased as well, is the erased walk.
-/

set_option linter.unusedSimpArgs false
namespace Stackage

/-! ## Bridge to the closure-free definitions -/
mutual
theorem unmarshalElemK_noUmf (K : Closures) : ∀ v : Val, noUmf v = true → unmarshalElemK K v = (unmarshalElem v, none)
  | .stk f c xs, h => by
    simp only [noUmf, Bool.and_eq_true] at h
    simp only [unmarshalElemK, unmarshalElem, unmarshalElemsK_noUmf K xs h.2]
  | .cnd f c kw op ex, h => by
    simp only [noUmf, Bool.and_eq_true, Option.isNone_iff_eq_none] at h
    simp only [unmarshalElemK, unmarshalElem, h.1, unmarshalExprK_noUmf K ex h.2]
  | .nil, _ => rfl
  | .leaf _, _ => rfl
  | .zstk _, _ => rfl
  | .zcnd _, _ => rfl
  | .anys _, _ => by simp only [unmarshalElemK, unmarshalElem]
  | .opv _, _ => rfl
theorem unmarshalElemsK_noUmf (K : Closures) : ∀ xs : List Val, noUmfList xs = true → unmarshalElemsK K xs = (unmarshalElems xs, none)
  | [], _ => rfl
  | x :: rest, h => by
    simp only [noUmfList, Bool.and_eq_true] at h
    simp only [unmarshalElemsK, unmarshalElems, unmarshalElemK_noUmf K x h.1, unmarshalElemsK_noUmf K rest h.2]
theorem unmarshalExprK_noUmf (K : Closures) : ∀ v : Val, noUmf v = true → unmarshalExprK K v = (unmarshalExpr v, none)
  | .stk f c xs, h => by
    simp only [noUmf, Bool.and_eq_true, Option.isNone_iff_eq_none] at h
    simp only [unmarshalExprK, unmarshalExpr, h.1, unmarshalElemsK_noUmf K xs h.2]
  | .cnd f c kw op ex, h => by
    simp only [noUmf, Bool.and_eq_true, Option.isNone_iff_eq_none] at h
    simp only [unmarshalExprK, unmarshalExpr, h.1, unmarshalExprK_noUmf K ex h.2]
  | .nil, _ => rfl
  | .leaf _, _ => rfl
  | .zstk _, _ => rfl
  | .zcnd _, _ => rfl
  | .anys _, _ => by simp only [unmarshalExprK, unmarshalExpr]
  | .opv _, _ => rfl
end

/-- a Condition contributes the same entry and the same error whether it is an element of a Stack or the expression of
another Condition: both go through the public `Condition.Unmarshal()` (repair F43) -/
theorem unmarshalExprK_cnd (K : Closures) (f : Form) (c : Cfg) (kw : Text) (op : Op) (ex : Val) :
    unmarshalExprK K (.cnd f c kw op ex) = unmarshalElemK K (.cnd f c kw op ex) := by
  cases hu : c.umf <;> simp only [unmarshalExprK, unmarshalElemK, hu]

theorem unmarshalExpr_cnd (f : Form) (c : Cfg) (kw : Text) (op : Op) (ex : Val) :
    unmarshalExpr (.cnd f c kw op ex) = unmarshalElem (.cnd f c kw op ex) := by
  simp only [unmarshalExpr, unmarshalElem]

/-! ## The loop, step by step -/

theorem unmarshalElemsK_cons_ok (K : Closures) (x : Val) (rest : List Val) (h : (unmarshalElemK K x).2 = none) :
    unmarshalElemsK K (x :: rest) = ((unmarshalElemK K x).1 :: (unmarshalElemsK K rest).1, (unmarshalElemsK K rest).2) := by
  simp only [unmarshalElemsK, h]

theorem unmarshalElemsK_cons_err (K : Closures) (x : Val) (rest : List Val) (e : Nat) (h : (unmarshalElemK K x).2 = some e) :
    unmarshalElemsK K (x :: rest) = ([], some e) := by
  simp only [unmarshalElemsK, h]

/-- a prefix that ran without error contributes its entries, and the loop continues behind it -/
theorem unmarshalElemsK_append_ok (K : Closures) (post : List Val) : ∀ pre : List Val, (unmarshalElemsK K pre).2 = none →
    unmarshalElemsK K (pre ++ post) = ((unmarshalElemsK K pre).1 ++ (unmarshalElemsK K post).1, (unmarshalElemsK K post).2)
  | [], _ => by simp only [List.nil_append, unmarshalElemsK]
  | x :: rest, h => by
    cases hx : (unmarshalElemK K x).2 with
    | some e => rw [unmarshalElemsK_cons_err K x rest e hx] at h; cases h
    | none =>
      rw [unmarshalElemsK_cons_ok K x rest hx] at h
      rw [List.cons_append, unmarshalElemsK_cons_ok K x _ hx, unmarshalElemsK_cons_ok K x rest hx,
        unmarshalElemsK_append_ok K post rest h]
      rfl

/-- a prefix that ran into an error is all there is -/
theorem unmarshalElemsK_append_err (K : Closures) (post : List Val) (e : Nat) : ∀ pre : List Val, (unmarshalElemsK K pre).2 = some e →
    unmarshalElemsK K (pre ++ post) = unmarshalElemsK K pre
  | [], h => by simp only [unmarshalElemsK] at h; cases h
  | x :: rest, h => by
    cases hx : (unmarshalElemK K x).2 with
    | some e' => rw [List.cons_append, unmarshalElemsK_cons_err K x _ e' hx, unmarshalElemsK_cons_err K x rest e' hx]
    | none =>
      rw [unmarshalElemsK_cons_ok K x rest hx] at h
      rw [List.cons_append, unmarshalElemsK_cons_ok K x _ hx, unmarshalElemsK_cons_ok K x rest hx,
        unmarshalElemsK_append_err K post e rest h]

/-- without an error every element has its entry -/
theorem unmarshalElemsK_length (K : Closures) : ∀ xs : List Val, (unmarshalElemsK K xs).2 = none →
    (unmarshalElemsK K xs).1.length = xs.length
  | [], _ => rfl
  | x :: rest, h => by
    cases hx : (unmarshalElemK K x).2 with
    | some e => rw [unmarshalElemsK_cons_err K x rest e hx] at h; cases h
    | none =>
      rw [unmarshalElemsK_cons_ok K x rest hx] at h ⊢
      simp only [List.length_cons, unmarshalElemsK_length K rest h]

/-- the loop sees an element only through what `unmarshalElemK` makes of it -/
theorem unmarshalElemsK_congr (K : Closures) (x y : Val) (post : List Val) (h : unmarshalElemK K x = unmarshalElemK K y) :
    ∀ pre : List Val, unmarshalElemsK K (pre ++ x :: post) = unmarshalElemsK K (pre ++ y :: post)
  | [] => by simp only [List.nil_append, unmarshalElemsK, h]
  | z :: rest => by simp only [List.cons_append, unmarshalElemsK, unmarshalElemsK_congr K x y post h rest]

/-! ## `erase` -/

/-- the closure environment whose Unmarshaler results are shown in native form -/
def Closures.eraseU (K : Closures) : Closures :=
  { K with unmarshal := fun p => (eraseList (K.unmarshal p).1, (K.unmarshal p).2) }

mutual
theorem unmarshalElemK_erase (K : Closures) : ∀ v : Val,
    unmarshalElemK K.eraseU (erase v) = (erase (unmarshalElemK K v).1, (unmarshalElemK K v).2)
  | .stk f c xs => by simp only [erase, unmarshalElemK, eraseList, unmarshalElemsK_erase K xs, strV]
  | .cnd f c kw op ex => by
    cases hu : c.umf with
    | some p => simp only [erase, unmarshalElemK, hu, Closures.eraseU]
    | none => simp only [erase, unmarshalElemK, hu, eraseList, unmarshalExprK_erase K ex, strV]
  | .nil => rfl
  | .leaf _ => rfl
  | .zstk _ => rfl
  | .zcnd _ => rfl
  | .anys xs => by simp only [erase, unmarshalElemK]
  | .opv _ => rfl
theorem unmarshalElemsK_erase (K : Closures) : ∀ xs : List Val,
    unmarshalElemsK K.eraseU (eraseList xs) = (eraseList (unmarshalElemsK K xs).1, (unmarshalElemsK K xs).2)
  | [] => rfl
  | x :: rest => by
    cases hx : (unmarshalElemK K x).2 with
    | some e => simp only [eraseList, unmarshalElemsK, unmarshalElemK_erase K x, hx]
    | none => simp only [eraseList, unmarshalElemsK, unmarshalElemK_erase K x, hx, unmarshalElemsK_erase K rest]
theorem unmarshalExprK_erase (K : Closures) : ∀ v : Val,
    unmarshalExprK K.eraseU (erase v) = (erase (unmarshalExprK K v).1, (unmarshalExprK K v).2)
  | .stk f c xs => by
    cases hu : c.umf with
    | some p => simp only [erase, unmarshalExprK, hu, Closures.eraseU]
    | none => simp only [erase, unmarshalExprK, hu, eraseList, unmarshalElemsK_erase K xs, strV]
  | .cnd f c kw op ex => by
    cases hu : c.umf with
    | some p => simp only [erase, unmarshalExprK, hu, Closures.eraseU]
    | none => simp only [erase, unmarshalExprK, hu, eraseList, unmarshalExprK_erase K ex, strV]
  | .nil => rfl
  | .leaf _ => rfl
  | .zstk _ => rfl
  | .zcnd _ => rfl
  | .anys xs => by simp only [erase, unmarshalExprK]
  | .opv _ => rfl
end

/-- a closure environment whose Unmarshaler results hold native forms only is its own `eraseU` as far as the walk can tell -/
def Closures.UmfNative (K : Closures) : Prop := ∀ p, eraseList (K.unmarshal p).1 = (K.unmarshal p).1

mutual
theorem unmarshalElemK_eraseU (K : Closures) (hK : K.UmfNative) : ∀ v : Val, unmarshalElemK K.eraseU v = unmarshalElemK K v
  | .stk f c xs => by simp only [unmarshalElemK, unmarshalElemsK_eraseU K hK xs]
  | .cnd f c kw op ex => by
    cases hu : c.umf with
    | some p => simp only [unmarshalElemK, hu, Closures.eraseU, hK p]
    | none => simp only [unmarshalElemK, hu, unmarshalExprK_eraseU K hK ex]
  | .nil => rfl
  | .leaf _ => rfl
  | .zstk _ => rfl
  | .zcnd _ => rfl
  | .anys xs => by simp only [unmarshalElemK]
  | .opv _ => rfl
theorem unmarshalElemsK_eraseU (K : Closures) (hK : K.UmfNative) : ∀ xs : List Val, unmarshalElemsK K.eraseU xs = unmarshalElemsK K xs
  | [] => rfl
  | x :: rest => by simp only [unmarshalElemsK, unmarshalElemK_eraseU K hK x, unmarshalElemsK_eraseU K hK rest]
theorem unmarshalExprK_eraseU (K : Closures) (hK : K.UmfNative) : ∀ v : Val, unmarshalExprK K.eraseU v = unmarshalExprK K v
  | .stk f c xs => by
    cases hu : c.umf with
    | some p => simp only [unmarshalExprK, hu, Closures.eraseU, hK p]
    | none => simp only [unmarshalExprK, hu, unmarshalElemsK_eraseU K hK xs]
  | .cnd f c kw op ex => by
    cases hu : c.umf with
    | some p => simp only [unmarshalExprK, hu, Closures.eraseU, hK p]
    | none => simp only [unmarshalExprK, hu, unmarshalExprK_eraseU K hK ex]
  | .nil => rfl
  | .leaf _ => rfl
  | .zstk _ => rfl
  | .zcnd _ => rfl
  | .anys xs => by simp only [unmarshalExprK]
  | .opv _ => rfl
end

end Stackage
