import Stackage.Spec.EqSpec

/-!
# Properties of "same description" (`Spec/EqSpec.lean`) that do not involve the comparison code:
reflexivity and symmetry on the domain, and what a single difference does.
-/

set_option linter.unusedSimpArgs false
set_option linter.unusedVariables false

namespace Stackage
namespace EqSpec
open EV

/-! ## `sameEV x y` looks at `y` only through `strip y` -/

theorem sameEV_congr : ∀ (x y y' : EV), strip y = strip y' → sameEV x y = sameEV x y'
  | .ptr _ e, y, y' => by intro h; simp only [sameEV]; exact sameEV_congr e y y' h
  | .iface e, y, y' => by intro h; simp only [sameEV]; exact sameEV_congr e y y' h
  | .inil, y, y' => by intro h; simp only [sameEV, h]
  | .prim .., y, y' => by intro h; simp only [sameEV, h]
  | .named .., y, y' => by intro h; simp only [sameEV]
  | .nilptr .., y, y' => by intro h; simp only [sameEV]
  | .uptr .., y, y' => by intro h; simp only [sameEV, h]
  | .func .., y, y' => by intro h; simp only [sameEV, h]
  | .chan .., y, y' => by intro h; simp only [sameEV, h]
  | .seq .., y, y' => by intro h; simp only [sameEV, h]
  | .map .., y, y' => by intro h; simp only [sameEV, h]
  | .struct .., y, y' => by intro h; simp only [sameEV, h]

/-- ... and at `x` only through `strip x` -/
theorem sameEV_of_strip : ∀ (y z x : EV), strip y = some z → sameEV y x = sameEV z x
  | .ptr _ e, z, x => by intro h; simp only [strip] at h; simp only [sameEV]; exact sameEV_of_strip e z x h
  | .iface e, z, x => by intro h; simp only [strip] at h; simp only [sameEV]; exact sameEV_of_strip e z x h
  | .inil, z, x => by intro h; simp [strip] at h
  | .prim .., z, x | .named .., z, x | .uptr .., z, x | .nilptr .., z, x | .seq .., z, x | .map .., z, x | .struct .., z, x
  | .func .., z, x | .chan .., z, x => by
      intro h; simp only [strip, Option.some.injEq] at h; rw [← h]

theorem sameEV_of_strip_none : ∀ (y x : EV), strip y = none → sameEV y x = (strip x).isNone
  | .ptr _ e, x => by intro h; simp only [strip] at h; simp only [sameEV]; exact sameEV_of_strip_none e x h
  | .iface e, x => by intro h; simp only [strip] at h; simp only [sameEV]; exact sameEV_of_strip_none e x h
  | .inil, x => by intro h; simp only [sameEV]
  | .prim .., x | .named .., x | .uptr .., x | .nilptr .., x | .seq .., x | .map .., x | .struct .., x
  | .func .., x | .chan .., x => by
      intro h; simp [strip] at h

theorem strip_idem : ∀ (y z : EV), strip y = some z → strip z = some z
  | .ptr _ e, z => by intro h; simp only [strip] at h; exact strip_idem e z h
  | .iface e, z => by intro h; simp only [strip] at h; exact strip_idem e z h
  | .inil, z => by intro h; simp [strip] at h
  | .prim .., z | .named .., z | .uptr .., z | .nilptr .., z | .seq .., z | .map .., z | .struct .., z
  | .func .., z | .chan .., z => by
      intro h; simp only [strip, Option.some.injEq] at h; rw [← h]; simp [strip]

/-- the stripped core of a domain value is a domain value (in some position) -/
theorem dom_core : ∀ (c : Ctx) (y z : EV), domEV c y = true → strip y = some z → ∃ c', domEV c' z = true
  | c, .ptr _ e, z => by intro h hs; simp only [domEV] at h; simp only [strip] at hs; exact dom_core _ e z h hs
  | c, .iface e, z => by
      intro h hs; simp only [domEV] at h; simp only [strip] at hs
      split at h
      · exact dom_core _ e z h hs
      · simp at h
  | c, .inil, z => by intro h hs; simp [strip] at hs
  | c, .prim .., z | c, .named .., z | c, .uptr .., z | c, .nilptr .., z | c, .seq .., z | c, .map .., z | c, .struct .., z
  | c, .func .., z | c, .chan .., z => by
      intro h hs; simp only [strip, Option.some.injEq] at hs; rw [← hs]; exact ⟨c, h⟩

/-! ## Association lists with distinct keys -/

theorem nodupKeys_iff : ∀ (ks : List EV), nodupKeys ks = true ↔ ks.Nodup
  | [] => by simp [nodupKeys]
  | k :: ks => by
      simp only [nodupKeys, Bool.and_eq_true, Bool.not_eq_true', List.nodup_cons, nodupKeys_iff ks]
      constructor
      · intro ⟨h1, h2⟩
        refine ⟨?_, h2⟩
        intro hm; rw [← List.contains_iff_mem] at hm; rw [hm] at h1; simp at h1
      · intro ⟨h1, h2⟩
        refine ⟨?_, h2⟩
        cases hc : ks.contains k with
        | false => rfl
        | true => exact absurd (List.contains_iff_mem.mp hc) h1

theorem find_zip (k : EV) : ∀ (ks vs : List EV) (v : EV), find k ks vs = some v → (k, v) ∈ ks.zip vs
  | [], _, v => by simp [find]
  | _ :: _, [], v => by simp [find]
  | k' :: ks, w :: vs, v => by
      simp only [find, List.zip_cons_cons, List.mem_cons, Prod.mk.injEq]
      split
      · rename_i h; intro hv; simp only [Option.some.injEq] at hv; exact Or.inl ⟨h, hv.symm⟩
      · intro hv; exact Or.inr (find_zip k ks vs v hv)

theorem find_of_zip (k : EV) : ∀ (ks vs : List EV) (v : EV), ks.Nodup → (k, v) ∈ ks.zip vs → find k ks vs = some v
  | [], _, v => by simp
  | _ :: _, [], v => by simp
  | k' :: ks, w :: vs, v => by
      simp only [List.nodup_cons, List.zip_cons_cons, List.mem_cons, Prod.mk.injEq, find]
      intro ⟨hn, hnd⟩ hm
      rcases hm with ⟨h1, h2⟩ | hm
      · simp [h1, h2]
      · have hk : k ≠ k' := by
          intro e; rw [e] at hm; exact hn (List.of_mem_zip hm).1
        simp only [hk, ↓reduceIte]
        exact find_of_zip k ks vs v hnd hm

theorem find_of_mem (k : EV) : ∀ (ks vs : List EV), ks.length = vs.length → k ∈ ks → ∃ v, find k ks vs = some v
  | [], _ => by simp
  | _ :: _, [] => by simp
  | k' :: ks, w :: vs => by
      simp only [List.length_cons, Nat.add_right_cancel_iff, List.mem_cons, find]
      intro hl hm
      by_cases h : k = k'
      · exact ⟨w, by simp [h]⟩
      · simp only [h, ↓reduceIte]
        rcases hm with hm | hm
        · exact absurd hm h
        · exact find_of_mem k ks vs hl hm

/-- pigeonhole: a duplicate-free list contained in a list that is not longer contains it -/
theorem subset_of_nodup_length : ∀ (l₁ l₂ : List EV), l₁.Nodup → (∀ x ∈ l₁, x ∈ l₂) → l₂.length ≤ l₁.length → ∀ x ∈ l₂, x ∈ l₁
  | [], l₂ => by
      intro _ _ hl x hx
      have : l₂ = [] := List.eq_nil_of_length_eq_zero (by simpa using hl)
      rw [this] at hx; exact hx
  | a :: t, l₂ => by
      intro hnd hsub hl x hx
      rw [List.nodup_cons] at hnd
      have ha : a ∈ l₂ := hsub a (by simp)
      have hsub' : ∀ y ∈ t, y ∈ l₂.erase a := by
        intro y hy
        have hne : y ≠ a := by intro e; rw [e] at hy; exact hnd.1 hy
        exact (List.mem_erase_of_ne hne).mpr (hsub y (by simp [hy]))
      have hl' : (l₂.erase a).length ≤ t.length := by
        rw [List.length_erase_of_mem ha]; simp only [List.length_cons] at hl; omega
      have ih := subset_of_nodup_length t (l₂.erase a) hnd.2 hsub' hl'
      by_cases hxa : x = a
      · simp [hxa]
      · exact List.mem_cons_of_mem _ (ih x ((List.mem_erase_of_ne hxa).mpr hx))

/-- `sameMap` spelled out: every entry of x has a counterpart in y -/
theorem sameMap_iff (KS VS : List EV) : ∀ (ks vs : List EV), ks.length = vs.length →
    (sameMap ks vs KS VS = true ↔ ∀ p ∈ ks.zip vs, ∃ w, find p.1 KS VS = some w ∧ sameEV p.2 w = true)
  | [], [] => by simp [sameMap]
  | [], _ :: _ => by simp
  | _ :: _, [] => by simp
  | k :: ks, v :: vs => by
      intro hl
      simp only [List.length_cons, Nat.add_right_cancel_iff] at hl
      simp only [sameMap, Bool.and_eq_true, List.zip_cons_cons, List.mem_cons, forall_eq_or_imp, sameMap_iff KS VS ks vs hl]
      constructor
      · intro ⟨h1, h2⟩
        refine ⟨?_, h2⟩
        cases hf : find k KS VS with
        | none => simp [hf] at h1
        | some w => simp only [hf] at h1; exact ⟨w, rfl, h1⟩
      · intro ⟨⟨w, hw1, hw2⟩, h2⟩
        refine ⟨?_, h2⟩
        simp only [hw1, hw2]

/-! ## Reflexivity on the domain -/

theorem find_append (k : EV) : ∀ (pre pvs ks vs : List EV), pre.length = pvs.length → ¬ k ∈ pre →
    find k (pre ++ ks) (pvs ++ vs) = find k ks vs
  | [], [], ks, vs => by simp
  | [], _ :: _, _, _ => by simp
  | _ :: _, [], _, _ => by simp
  | p :: pre, q :: pvs, ks, vs => by
      simp only [List.length_cons, Nat.add_right_cancel_iff, List.mem_cons, not_or, List.cons_append, find]
      intro hl ⟨h1, h2⟩
      simp only [h1, ↓reduceIte]
      exact find_append k pre pvs ks vs hl h2

mutual
theorem sameEV_refl : ∀ (x : EV) (c : Ctx), domEV c x = true → sameEV x x = true
  | .ptr t e, c, h => by
      simp only [domEV] at h
      simp only [sameEV]
      rw [sameEV_congr e (.ptr t e) e (by simp [strip])]
      exact sameEV_refl e _ h
  | .iface e, c, h => by
      simp only [domEV] at h
      split at h
      · simp only [sameEV]
        rw [sameEV_congr e (.iface e) e (by simp [strip])]
        exact sameEV_refl e _ h
      · simp at h
  | .inil, c, h => by simp [sameEV, strip]
  | .prim t v n, c, h => by simp only [domEV, Bool.not_eq_true'] at h; simp [sameEV, strip, h]
  | .named .., c, h => by simp [domEV] at h
  | .nilptr .., c, h => by simp [domEV] at h
  | .uptr .., c, h => by simp [sameEV, strip]
  | .func .., c, h => by simp [sameEV, strip]
  | .chan .., c, h => by simp [sameEV, strip]
  | .seq a t cp xs, c, h => by
      simp only [domEV] at h
      simp only [sameEV, strip, beq_self_eq_true, Bool.true_and]
      exact sameList_refl xs h
  | .map t ks vs, c, h => by
      simp only [domEV, Bool.and_eq_true, beq_iff_eq] at h
      simp only [sameEV, strip, beq_self_eq_true, Bool.true_and]
      have := sameMap_refl ks vs [] [] rfl h.1.1.1 (by simpa using h.1.1.2) h.2
      simpa using this
  | .struct t fs vs, c, h => by
      simp only [domEV, Bool.and_eq_true, beq_iff_eq] at h
      simp only [sameEV, strip, beq_self_eq_true, Bool.true_and]
      exact sameFields_refl fs vs h.1 h.2

theorem sameList_refl : ∀ (xs : List EV), domList xs = true → sameList xs xs = true
  | [], _ => by simp [sameList]
  | x :: xs, h => by
      simp only [domList, Bool.and_eq_true] at h
      simp only [sameList, Bool.and_eq_true]
      exact ⟨sameEV_refl x _ h.1, sameList_refl xs h.2⟩

theorem sameMap_refl : ∀ (ks vs pre pvs : List EV), pre.length = pvs.length → ks.length = vs.length →
    nodupKeys (pre ++ ks) = true → domVals vs = true → sameMap ks vs (pre ++ ks) (pvs ++ vs) = true
  | [], [], pre, pvs, _, _, _, _ => by simp [sameMap]
  | [], _ :: _, _, _, _, hl, _, _ => by simp at hl
  | _ :: _, [], _, _, _, hl, _, _ => by simp at hl
  | k :: ks, v :: vs, pre, pvs, hp, hl, hnd, hd => by
      simp only [domVals, Bool.and_eq_true] at hd
      simp only [List.length_cons, Nat.add_right_cancel_iff] at hl
      have hnd' := (nodupKeys_iff _).mp hnd
      have hk : ¬ k ∈ pre := by
        intro hm
        have := List.nodup_append.mp hnd'
        exact this.2.2 k hm k (by simp) rfl
      simp only [sameMap, Bool.and_eq_true]
      rw [find_append k pre pvs (k :: ks) (v :: vs) hp hk]
      simp only [find, ↓reduceIte]
      refine ⟨sameEV_refl v _ hd.1, ?_⟩
      have := sameMap_refl ks vs (pre ++ [k]) (pvs ++ [v]) (by simp [hp]) hl (by simpa using hnd) hd.2
      simpa using this

theorem sameFields_refl : ∀ (fs : List Fld) (vs : List EV), fs.length = vs.length → domFields fs vs = true →
    sameFields fs vs fs vs = true
  | [], [], _, _ => by simp [sameFields]
  | [], _ :: _, hl, _ => by simp at hl
  | _ :: _, [], hl, _ => by simp at hl
  | f :: fs, v :: vs, hl, hd => by
      simp only [domFields, Bool.and_eq_true, Bool.or_eq_true, Bool.not_eq_true'] at hd
      simp only [List.length_cons, Nat.add_right_cancel_iff] at hl
      simp only [sameFields, Bool.and_eq_true]
      refine ⟨?_, sameFields_refl fs vs hl hd.2⟩
      cases hfe : f.exported
      · simp
      · rcases hd.1 with h | h
        · rw [hfe] at h; simp at h
        · simp [sameEV_refl v _ h]
end

theorem sameKind_refl (c : Cfg) : sameKind c c = true := by simp [sameKind]

theorem sameOp_refl (o : Op) : sameOp o o = true := by cases o <;> simp [sameOp]

mutual
theorem sameDesc_refl : ∀ (a : Val), inDomain a = true → sameDesc a a = true
  | .nil, _ => by simp [sameDesc]
  | .leaf l, h => by
      simp only [inDomain] at h
      simp only [sameDesc]
      exact sameEV_refl _ _ h
  | .stk f c xs, h => by
      simp only [inDomain, Bool.and_eq_true] at h
      simp only [sameDesc, beq_self_eq_true, sameKind_refl, Bool.true_and]
      exact sameVals_refl xs h.2
  | .cnd f c kw op ex, h => by
      simp only [inDomain, Bool.and_eq_true] at h
      simp only [sameDesc, beq_self_eq_true, sameOp_refl, Bool.true_and]
      exact sameDesc_refl ex h.2
  | .zstk _, h => by simp [inDomain] at h
  | .zcnd _, h => by simp [inDomain] at h
  | .anys _, h => by simp [inDomain] at h
  | .opv _, h => by simp [inDomain] at h

theorem sameVals_refl : ∀ (xs : List Val), inDomainL xs = true → sameVals xs xs = true
  | [], _ => by simp [sameVals]
  | x :: xs, h => by
      simp only [inDomainL, Bool.and_eq_true] at h
      simp only [sameVals, Bool.and_eq_true]
      exact ⟨sameDesc_refl x h.1, sameVals_refl xs h.2⟩
end

/-! ## Symmetry on the domain -/

theorem domVals_mem : ∀ (vs : List EV), domVals vs = true → ∀ v ∈ vs, domEV .top v = true
  | [], _ => by simp
  | w :: vs, h => by
      simp only [domVals, Bool.and_eq_true] at h
      intro v hv
      rcases List.mem_cons.mp hv with e | hm
      · rw [e]; exact h.1
      · exact domVals_mem vs h.2 v hm

/-- the map rule is symmetric as soon as the value relation is -/
theorem sameMap_symm_of (ks vs ks' vs' : List EV)
    (hl : ks.length = vs.length) (hl' : ks'.length = vs'.length) (hlen : ks.length = ks'.length)
    (hnd : ks.Nodup) (hnd' : ks'.Nodup)
    (hsym : ∀ v ∈ vs, ∀ w ∈ vs', sameEV v w = true → sameEV w v = true)
    (h : sameMap ks vs ks' vs' = true) : sameMap ks' vs' ks vs = true := by
  rw [sameMap_iff ks' vs' ks vs hl] at h
  rw [sameMap_iff ks vs ks' vs' hl']
  intro q hq
  obtain ⟨k', w'⟩ := q
  have hk' : k' ∈ ks' := (List.of_mem_zip hq).1
  have hw' : w' ∈ vs' := (List.of_mem_zip hq).2
  -- every key of x is a key of y
  have hsub : ∀ k ∈ ks, k ∈ ks' := by
    intro k hk
    obtain ⟨v, hv⟩ := find_of_mem k ks vs hl hk
    obtain ⟨w, hw, _⟩ := h (k, v) (find_zip k ks vs v hv)
    exact (List.of_mem_zip (find_zip k ks' vs' w hw)).1
  have hback := subset_of_nodup_length ks ks' hnd hsub (by omega) k' hk'
  obtain ⟨v, hv⟩ := find_of_mem k' ks vs hl hback
  obtain ⟨w, hw, hvw⟩ := h (k', v) (find_zip k' ks vs v hv)
  have hww : w = w' := by
    have := find_of_zip k' ks' vs' w' hnd' hq
    rw [this] at hw; simp only [Option.some.injEq] at hw; exact hw.symm
  subst hww
  exact ⟨v, hv, hsym v (List.of_mem_zip (find_zip k' ks vs v hv)).2 w hw' hvw⟩

mutual
theorem sameEV_symm : ∀ (x : EV) (c c' : Ctx) (y : EV), domEV c x = true → domEV c' y = true →
    sameEV x y = true → sameEV y x = true
  | .ptr t e, c, c', y, hx, hy, h => by
      simp only [domEV] at hx
      simp only [sameEV] at h
      rw [sameEV_congr y (.ptr t e) e (by simp [strip])]
      exact sameEV_symm e _ c' y hx hy h
  | .iface e, c, c', y, hx, hy, h => by
      simp only [domEV] at hx
      split at hx
      · simp only [sameEV] at h
        rw [sameEV_congr y (.iface e) e (by simp [strip])]
        exact sameEV_symm e _ c' y hx hy h
      · simp at hx
  | .inil, c, c', y, hx, hy, h => by
      simp only [sameEV, Option.isNone_iff_eq_none] at h
      rw [sameEV_of_strip_none y .inil h]; simp [strip]
  | .named .., c, c', y, hx, hy, h => by simp [domEV] at hx
  | .nilptr .., c, c', y, hx, hy, h => by simp [domEV] at hx
  | .prim t v n, c, c', y, hx, hy, h => by
      simp only [sameEV] at h
      cases hz : strip y with
      | none => simp [hz] at h
      | some z =>
        rw [sameEV_of_strip y z _ hz]
        cases z <;> simp [hz] at h
        simp only [sameEV, strip, h, beq_self_eq_true, Bool.not_false, Bool.and_self]
  | .uptr u n, c, c', y, hx, hy, h => by
      simp only [sameEV] at h
      cases hz : strip y with
      | none => simp [hz] at h
      | some z =>
        rw [sameEV_of_strip y z _ hz]
        cases z <;> simp [hz] at h
        simp [sameEV, strip, h]
  | .func t i, c, c', y, hx, hy, h => by
      simp only [sameEV] at h
      cases hz : strip y with
      | none => simp [hz] at h
      | some z =>
        rw [sameEV_of_strip y z _ hz]
        cases z <;> simp [hz] at h
        simp [sameEV, strip, h]
  | .chan t i, c, c', y, hx, hy, h => by
      simp only [sameEV] at h
      cases hz : strip y with
      | none => simp [hz] at h
      | some z =>
        rw [sameEV_of_strip y z _ hz]
        cases z <;> simp [hz] at h
        simp [sameEV, strip, h]
  | .seq a t cp xs, c, c', y, hx, hy, h => by
      simp only [domEV] at hx
      simp only [sameEV] at h
      cases hz : strip y with
      | none => simp [hz] at h
      | some z =>
        rw [sameEV_of_strip y z _ hz]
        obtain ⟨c'', hdz⟩ := dom_core _ y z hy hz
        cases z <;> simp [hz] at h
        rename_i a' t' cp' ys
        simp only [domEV] at hdz
        simp only [sameEV, strip, Bool.and_eq_true, beq_iff_eq]
        exact ⟨h.1.symm, sameList_symm xs ys hx hdz h.2⟩
  | .map t ks vs, c, c', y, hx, hy, h => by
      simp only [domEV, Bool.and_eq_true, beq_iff_eq] at hx
      simp only [sameEV] at h
      cases hz : strip y with
      | none => simp [hz] at h
      | some z =>
        rw [sameEV_of_strip y z _ hz]
        obtain ⟨c'', hdz⟩ := dom_core _ y z hy hz
        cases z <;> simp [hz] at h
        rename_i t' ks' vs'
        simp only [domEV, Bool.and_eq_true, beq_iff_eq] at hdz
        simp only [sameEV, strip, Bool.and_eq_true, beq_iff_eq]
        refine ⟨⟨h.1.1.symm, h.1.2.symm⟩, ?_⟩
        apply sameMap_symm_of ks vs ks' vs' hx.1.1.1 hdz.1.1.1 h.1.2
          ((nodupKeys_iff ks).mp hx.1.1.2) ((nodupKeys_iff ks').mp hdz.1.1.2) ?_ h.2
        intro v hv w hw hvw
        exact sameEV_symm_all vs hx.2 v hv w (domVals_mem vs' hdz.2 w hw) hvw
  | .struct t fs vs, c, c', y, hx, hy, h => by
      simp only [domEV, Bool.and_eq_true, beq_iff_eq] at hx
      simp only [sameEV] at h
      cases hz : strip y with
      | none => simp [hz] at h
      | some z =>
        rw [sameEV_of_strip y z _ hz]
        obtain ⟨c'', hdz⟩ := dom_core _ y z hy hz
        cases z <;> simp [hz] at h
        rename_i t' gs ws
        simp only [domEV, Bool.and_eq_true, beq_iff_eq] at hdz
        simp only [sameEV, strip, Bool.and_eq_true, beq_iff_eq]
        exact ⟨h.1.symm, sameFields_symm fs vs gs ws hx.2 hdz.2 h.2⟩

theorem sameEV_symm_all : ∀ (vs : List EV), domVals vs = true → ∀ v ∈ vs, ∀ w, domEV .top w = true →
    sameEV v w = true → sameEV w v = true
  | [], _ => by simp
  | u :: vs, h => by
      simp only [domVals, Bool.and_eq_true] at h
      intro v hv w hw hvw
      rcases List.mem_cons.mp hv with e | hm
      · rw [e] at hvw ⊢; exact sameEV_symm u _ _ w h.1 hw hvw
      · exact sameEV_symm_all vs h.2 v hm w hw hvw

theorem sameList_symm : ∀ (xs ys : List EV), domList xs = true → domList ys = true →
    sameList xs ys = true → sameList ys xs = true
  | [], [], _, _, _ => by simp [sameList]
  | [], _ :: _, _, _, h => by simp [sameList] at h
  | _ :: _, [], _, _, h => by simp [sameList] at h
  | x :: xs, y :: ys, hx, hy, h => by
      simp only [domList, Bool.and_eq_true] at hx hy
      simp only [sameList, Bool.and_eq_true] at h ⊢
      exact ⟨sameEV_symm x _ _ y hx.1 hy.1 h.1, sameList_symm xs ys hx.2 hy.2 h.2⟩

theorem sameFields_symm : ∀ (fs : List Fld) (vs : List EV) (gs : List Fld) (ws : List EV),
    domFields fs vs = true → domFields gs ws = true → sameFields fs vs gs ws = true → sameFields gs ws fs vs = true
  | [], [], [], [], _, _, _ => by simp [sameFields]
  | [], [], [], _ :: _, _, _, h => by simp [sameFields] at h
  | [], [], _ :: _, _, _, _, h => by simp [sameFields] at h
  | [], _ :: _, _, _, _, _, h => by simp [sameFields] at h
  | _ :: _, [], _, _, _, _, h => by simp [sameFields] at h
  | _ :: _, _ :: _, [], _, _, _, h => by simp [sameFields] at h
  | _ :: _, _ :: _, _ :: _, [], _, _, h => by simp [sameFields] at h
  | f :: fs, v :: vs, g :: gs, w :: ws, hx, hy, h => by
      simp only [domFields, Bool.and_eq_true, Bool.or_eq_true, Bool.not_eq_true'] at hx hy
      simp only [sameFields, Bool.and_eq_true] at h ⊢
      refine ⟨?_, sameFields_symm fs vs gs ws hx.2 hy.2 h.2⟩
      have h1 := h.1
      cases hfe : f.exported <;> cases hge : g.exported <;> simp [hfe, hge] at h1 ⊢
      have hv : domEV .top v = true := by
        rcases hx.1 with e | e
        · rw [hfe] at e; simp at e
        · exact e
      have hw : domEV .top w = true := by
        rcases hy.1 with e | e
        · rw [hge] at e; simp at e
        · exact e
      refine ⟨?_, sameEV_symm v _ _ w hv hw h1.2⟩
      rcases h1.1 with e | e
      · exact Or.inl e.symm
      · exact Or.inr ⟨e.2, e.1⟩
end

theorem sameKind_symm (c c' : Cfg) (h : sameKind c c' = true) : sameKind c' c = true := by
  simp only [sameKind, beq_iff_eq] at h ⊢
  exact h.symm

theorem sameOp_symm (o o' : Op) (h : sameOp o o' = true) : sameOp o' o = true := by
  cases o <;> cases o' <;> simp_all [sameOp] <;> exact ⟨h.1.symm, h.2.symm⟩

mutual
theorem sameDesc_symm : ∀ (a b : Val), inDomain a = true → inDomain b = true → sameDesc a b = true → sameDesc b a = true
  | .nil, b, _, hb, h => by
      cases b <;> simp_all [sameDesc]
  | .leaf l, b, ha, hb, h => by
      simp only [inDomain, Bool.and_eq_true] at ha
      cases b with
      | nil => simpa [sameDesc] using h
      | leaf l' =>
          simp only [inDomain] at hb
          simp only [sameDesc] at h ⊢
          exact sameEV_symm _ _ _ _ ha hb h
      | _ => simp [sameDesc] at h
  | .stk f c xs, b, ha, hb, h => by
      simp only [inDomain, Bool.and_eq_true] at ha
      cases b with
      | stk f' c' ys =>
          simp only [inDomain, Bool.and_eq_true] at hb
          simp only [sameDesc, Bool.and_eq_true, beq_iff_eq] at h ⊢
          exact ⟨⟨h.1.1.symm, sameKind_symm c c' h.1.2⟩, sameVals_symm xs ys ha.2 hb.2 h.2⟩
      | _ => simp [sameDesc] at h
  | .cnd f c kw op ex, b, ha, hb, h => by
      simp only [inDomain, Bool.and_eq_true] at ha
      cases b with
      | cnd f' c' kw' op' ex' =>
          simp only [inDomain, Bool.and_eq_true] at hb
          simp only [sameDesc, Bool.and_eq_true, beq_iff_eq] at h ⊢
          exact ⟨⟨h.1.1.symm, sameOp_symm op op' h.1.2⟩, sameDesc_symm ex ex' ha.2 hb.2 h.2⟩
      | _ => simp [sameDesc] at h
  | .zstk _, _, ha, _, _ => by simp [inDomain] at ha
  | .zcnd _, _, ha, _, _ => by simp [inDomain] at ha
  | .anys _, _, ha, _, _ => by simp [inDomain] at ha
  | .opv _, _, ha, _, _ => by simp [inDomain] at ha

theorem sameVals_symm : ∀ (xs ys : List Val), inDomainL xs = true → inDomainL ys = true →
    sameVals xs ys = true → sameVals ys xs = true
  | [], [], _, _, _ => by simp [sameVals]
  | [], _ :: _, _, _, h => by simp [sameVals] at h
  | _ :: _, [], _, _, h => by simp [sameVals] at h
  | x :: xs, y :: ys, hx, hy, h => by
      simp only [inDomainL, Bool.and_eq_true] at hx hy
      simp only [sameVals, Bool.and_eq_true] at h ⊢
      exact ⟨sameDesc_symm x y hx.1 hy.1 h.1, sameVals_symm xs ys hx.2 hy.2 h.2⟩
end

end EqSpec
end Stackage
