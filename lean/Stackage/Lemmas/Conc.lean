import Stackage.Model.Conc

/-!
# Helper lemmas for C10: step case analysis, the mutex invariant, the linearization invariant
-/

set_option linter.unusedSimpArgs false
namespace Stackage
namespace Conc


structure Plan.Atomic (p : Plan) (f : Stk → Except Fault (Stk × Out)) : Prop where
  locks : p.locks = true
  done : ∀ s o, p.pre s = .done o → f s = .ok (s, o)
  cont : ∀ s l, p.pre s = .cont l → ∀ s', p.crit l s' = f s'
  nofault : ∀ s e, p.pre s ≠ .fault e

theorem skipPre_apply (interp : Nat → Val → Option Nat) (s : Stk) (op : ListOp) (h : skipPre s op = true) :
    s.apply interp op = .ok (s, {}) := by
  cases op <;> simp only [skipPre, Bool.or_eq_true] at h <;> simp only [Stk.apply]
  case push vs => simp [h]
  case pop => simp [h]
  case insert x i => rcases h with h | h <;> simp [h]
  case remove i => simp [h]
  case replace x i => rcases h with h | h <;> simp [h]
  case swap i j => simp [h]
  case reverse => simp [h]
  case reset => simp [h]

theorem planFirst_atomic (interp : Nat → Val → Option Nat) (op : ListOp) :
    (planFirst interp op).Atomic (fun s => s.apply interp op) := by
  refine ⟨rfl, ?_, ?_, ?_⟩
  · intro s o h
    simp only [planFirst] at h
    split at h
    · rename_i hs
      cases h
      exact skipPre_apply interp s op hs
    · cases h
  · intro s l _ s'; rfl
  · intro s e h
    simp only [planFirst] at h
    split at h <;> cases h

theorem run_snoc (interp : Nat → Val → Option Nat) (ops : List ListOp) (op : ListOp) :
    ∀ (s s' : Stk) (os : List Out), s.run interp ops = .ok (s', os) →
      s.run interp (ops ++ [op]) =
        (match s'.apply interp op with
         | .ok (s'', o) => .ok (s'', os ++ [o])
         | .error f => .error f) := by
  induction ops with
  | nil =>
    intro s s' os h
    simp only [Stk.run] at h
    cases h
    simp only [List.nil_append, Stk.run, bind, Except.bind]
    cases s.apply interp op with
    | error f => rfl
    | ok r => rfl
  | cons a rest ih =>
    intro s s' os h
    simp only [Stk.run, bind, Except.bind] at h
    simp only [List.cons_append, Stk.run, bind, Except.bind]
    cases ha : s.apply interp a with
    | error f => rw [ha] at h; cases h
    | ok r =>
      rw [ha] at h
      simp only at h ⊢
      cases hr : Stk.run interp r.1 rest with
      | error f => rw [hr] at h; cases h
      | ok q =>
        rw [hr] at h
        simp only at h
        cases h
        rw [ih r.1 q.1 q.2 hr]
        cases q.1.apply interp op with
        | error f => rfl
        | ok w => rfl


def MutexInv (c : Config) : Prop := ∀ t, c.lock = some t ↔ (c.threads t).phase.isCrit = true

/-- what a successful step can be -/
inductive StepKind (P : ListOp → Plan) (c : Config) (t : Tid) : Config → Prop where
  | preDone (op rest o) : c.fault = none → (c.threads t).prog = op :: rest → (c.threads t).phase = .idle →
      (P op).pre c.s = .done o → StepKind P c t (c.commit t op rest c.s o)
  | preCont (op rest l) : c.fault = none → (c.threads t).prog = op :: rest → (c.threads t).phase = .idle →
      (P op).pre c.s = .cont l → StepKind P c t (c.setThread t { (c.threads t) with phase := .want l })
  | preFault (op rest f) : c.fault = none → (c.threads t).prog = op :: rest → (c.threads t).phase = .idle →
      (P op).pre c.s = .fault f → StepKind P c t { c with fault := some f }
  | acquire (op rest l) : c.fault = none → (c.threads t).prog = op :: rest → (c.threads t).phase = .want l →
      (P op).locks = true → c.lock = none →
      StepKind P c t { c.setThread t { (c.threads t) with phase := .crit l } with lock := some t }
  | bodyUnlocked (op rest l s' o) : c.fault = none → (c.threads t).prog = op :: rest → (c.threads t).phase = .want l →
      (P op).locks = false → (P op).crit l c.s = .ok (s', o) →
      StepKind P c t { c.commit t op rest s' o with unlocked := c.unlocked + 1 }
  | faultUnlocked (op rest l f) : c.fault = none → (c.threads t).prog = op :: rest → (c.threads t).phase = .want l →
      (P op).locks = false → (P op).crit l c.s = .error f →
      StepKind P c t { c with fault := some f }
  | body (op rest l s' o) : c.fault = none → (c.threads t).prog = op :: rest → (c.threads t).phase = .crit l →
      (P op).crit l c.s = .ok (s', o) →
      StepKind P c t { c.commit t op rest s' o with lock := none }
  | bodyFault (op rest l f) : c.fault = none → (c.threads t).prog = op :: rest → (c.threads t).phase = .crit l →
      (P op).crit l c.s = .error f →
      StepKind P c t { c with fault := some f }

theorem step_kind (P : ListOp → Plan) (c c' : Config) (t : Tid) (h : step P c t = some c') : StepKind P c t c' := by
  unfold step at h
  split at h
  · cases h
  · rename_i hf
    split at h
    · cases h
    · rename_i op rest hp
      split at h
      · rename_i hph
        split at h
        · rename_i o hpre; cases h; exact .preDone op rest o hf hp hph hpre
        · rename_i l hpre; cases h; exact .preCont op rest l hf hp hph hpre
        · rename_i f hpre; cases h; exact .preFault op rest f hf hp hph hpre
      · rename_i l hph
        split at h
        · rename_i hl
          split at h
          · rename_i hlk; cases h; exact .acquire op rest l hf hp hph hl hlk
          · cases h
        · rename_i hl
          have hl' : (P op).locks = false := by simpa using hl
          split at h
          · rename_i s' o hc; cases h; exact .bodyUnlocked op rest l s' o hf hp hph hl' hc
          · rename_i f hc; cases h; exact .faultUnlocked op rest l f hf hp hph hl' hc
      · rename_i l hph
        split at h
        · rename_i s' o hc; cases h; exact .body op rest l s' o hf hp hph hc
        · rename_i f hc; cases h; exact .bodyFault op rest l f hf hp hph hc

theorem step_mutex (P : ListOp → Plan) (c c' : Config) (t : Tid) (hi : MutexInv c)
    (h : step P c t = some c') : MutexInv c' := by
  have hk := step_kind P c c' t h
  intro u
  cases hk with
  | preDone op rest o hf hp hph hpre =>
    simp only [Config.commit]
    by_cases hu : u = t
    · subst hu
      simp only [↓reduceIte, Phase.isCrit]
      have := hi u; rw [hph] at this; simpa [Phase.isCrit] using this
    · simp only [hu, ↓reduceIte]; exact hi u
  | preCont op rest l hf hp hph hpre =>
    simp only [Config.setThread]
    by_cases hu : u = t
    · subst hu
      simp only [↓reduceIte, Phase.isCrit]
      have := hi u; rw [hph] at this; simpa [Phase.isCrit] using this
    · simp only [hu, ↓reduceIte]; exact hi u
  | preFault op rest f hf hp hph hpre => exact hi u
  | acquire op rest l hf hp hph hl hlk =>
    simp only [Config.setThread]
    by_cases hu : u = t
    · subst hu; simp [Phase.isCrit]
    · simp only [hu, ↓reduceIte]
      have := hi u; rw [hlk] at this
      constructor
      · intro h; cases h; exact absurd rfl hu
      · intro h; exact absurd (this.mpr h) (by simp)
  | bodyUnlocked op rest l s' o hf hp hph hl hc =>
    simp only [Config.commit]
    by_cases hu : u = t
    · subst hu
      simp only [↓reduceIte, Phase.isCrit]
      have := hi u; rw [hph] at this; simpa [Phase.isCrit] using this
    · simp only [hu, ↓reduceIte]; exact hi u
  | faultUnlocked op rest l f hf hp hph hl hc => exact hi u
  | body op rest l s' o hf hp hph hc =>
    simp only [Config.commit]
    have ht : c.lock = some t := (hi t).mpr (by rw [hph]; rfl)
    by_cases hu : u = t
    · subst hu; simp [Phase.isCrit]
    · simp only [hu, ↓reduceIte]
      have := hi u; rw [ht] at this
      constructor
      · intro h; cases h
      · intro h; have := this.mpr h; cases this; exact absurd rfl hu
  | bodyFault op rest l f hf hp hph hc => exact hi u

theorem run_mutex (P : ListOp → Plan) (sched : List Tid) : ∀ c, MutexInv c → MutexInv (run P c sched) := by
  induction sched with
  | nil => intro c h; exact h
  | cons t ts ih =>
    intro c h
    simp only [run]
    cases hs : step P c t with
    | none => exact ih c h
    | some c' => exact ih c' (step_mutex P c c' t h hs)


/-- a configuration in which nothing has happened yet -/
structure IsInit (c : Config) : Prop where
  lock : c.lock = none
  log : c.log = []
  outs : c.outs = []
  fault : c.fault = none
  unlocked : c.unlocked = 0
  idle : ∀ t, (c.threads t).phase = .idle
  touts : ∀ t, (c.threads t).outs = []

structure LinInv (P : ListOp → Plan) (interp : Nat → Val → Option Nat) (c0 c : Config) : Prop where
  hrun : c0.s.run interp (c.log.map (·.2)) = .ok (c.s, c.outs.map (·.2))
  htid : c.outs.map (·.1) = c.log.map (·.1)
  hprog : ∀ t, (c.log.filter (fun e => e.1 == t)).map (·.2) ++ (c.threads t).prog = (c0.threads t).prog
  houts : ∀ t, (c.threads t).outs = (c.outs.filter (fun e => e.1 == t)).map (·.2)
  hloc : ∀ t l, ((c.threads t).phase = .want l ∨ (c.threads t).phase = .crit l) →
           ∃ op rest, (c.threads t).prog = op :: rest ∧ ∀ s', (P op).crit l s' = s'.apply interp op
  hfault : ∀ f, c.fault = some f → ∃ t op rest, (c.threads t).prog = op :: rest ∧ c.s.apply interp op = .error f
  hunl : c.unlocked = 0

theorem linInv_init (P : ListOp → Plan) (interp : Nat → Val → Option Nat) (c0 : Config) (h : IsInit c0) :
    LinInv P interp c0 c0 := by
  refine ⟨?_, ?_, ?_, ?_, ?_, ?_, h.unlocked⟩
  · rw [h.log, h.outs]; rfl
  · rw [h.log, h.outs]; rfl
  · intro t; rw [h.log]; rfl
  · intro t; rw [h.outs, h.touts t]; rfl
  · intro t l hl; rw [h.idle t] at hl; rcases hl with hl | hl <;> cases hl
  · intro f hf; rw [h.fault] at hf; cases hf

/-- the commit case shared by `preDone` and `body` -/
theorem linInv_commit (P : ListOp → Plan) (interp : Nat → Val → Option Nat) (c0 c : Config) (t : Tid)
    (op : ListOp) (rest : List ListOp) (s' : Stk) (o : Out) (lk : Option Tid)
    (hi : LinInv P interp c0 c) (hp : (c.threads t).prog = op :: rest) (hf : c.fault = none)
    (ha : c.s.apply interp op = .ok (s', o)) :
    LinInv P interp c0 { c.commit t op rest s' o with lock := lk } := by
  refine ⟨?_, ?_, ?_, ?_, ?_, ?_, hi.hunl⟩
  · simp only [Config.commit, List.map_append, List.map_cons, List.map_nil]
    rw [run_snoc interp _ op c0.s c.s _ hi.hrun, ha]
  · simp only [Config.commit, List.map_append, List.map_cons, List.map_nil, hi.htid]
  · intro u
    simp only [Config.commit, List.filter_append, List.map_append]
    by_cases hu : u = t
    · subst hu
      have := hi.hprog u
      rw [hp] at this
      simp [← this]
    · have hne : (t == u) = false := by simpa using fun h => hu h.symm
      simp only [hu, ↓reduceIte, List.filter_cons, hne, List.filter_nil, List.map_nil, List.append_nil, Bool.false_eq_true]
      exact hi.hprog u
  · intro u
    simp only [Config.commit, List.filter_append, List.map_append]
    by_cases hu : u = t
    · subst hu
      simp [hi.houts u]
    · have hne : (t == u) = false := by simpa using fun h => hu h.symm
      simp only [hu, ↓reduceIte, List.filter_cons, hne, List.filter_nil, List.map_nil, List.append_nil, Bool.false_eq_true]
      exact hi.houts u
  · intro u l hl
    simp only [Config.commit] at hl ⊢
    by_cases hu : u = t
    · subst hu
      simp only [↓reduceIte] at hl
      rcases hl with hl | hl <;> cases hl
    · simp only [hu, ↓reduceIte] at hl ⊢
      exact hi.hloc u l hl
  · intro f hf'
    simp only [Config.commit] at hf'
    rw [hf] at hf'; cases hf'

theorem mem_prog0 (P : ListOp → Plan) (interp : Nat → Val → Option Nat) (c0 c : Config) (t : Tid)
    (op : ListOp) (rest : List ListOp) (hi : LinInv P interp c0 c) (hp : (c.threads t).prog = op :: rest) :
    op ∈ (c0.threads t).prog := by
  rw [← hi.hprog t, hp]; simp

theorem step_linInv (P : ListOp → Plan) (interp : Nat → Val → Option Nat) (c0 c c' : Config) (t : Tid)
    (hat : ∀ t, ∀ op ∈ (c0.threads t).prog, (P op).Atomic (fun s => s.apply interp op))
    (hi : LinInv P interp c0 c) (h : step P c t = some c') : LinInv P interp c0 c' := by
  have hk := step_kind P c c' t h
  cases hk with
  | preDone op rest o hf hp hph hpre =>
    have hA := hat t op (mem_prog0 P interp c0 c t op rest hi hp)
    have := linInv_commit P interp c0 c t op rest c.s o c.lock hi hp hf (hA.done c.s o hpre)
    exact this
  | preCont op rest l hf hp hph hpre =>
    have hA := hat t op (mem_prog0 P interp c0 c t op rest hi hp)
    refine ⟨hi.hrun, hi.htid, ?_, ?_, ?_, ?_, hi.hunl⟩
    · intro u
      simp only [Config.setThread]
      by_cases hu : u = t
      · subst hu; simp only [↓reduceIte]; exact hi.hprog u
      · simp only [hu, ↓reduceIte]; exact hi.hprog u
    · intro u
      simp only [Config.setThread]
      by_cases hu : u = t
      · subst hu; simp only [↓reduceIte]; exact hi.houts u
      · simp only [hu, ↓reduceIte]; exact hi.houts u
    · intro u l' hl
      simp only [Config.setThread] at hl ⊢
      by_cases hu : u = t
      · subst hu
        simp only [↓reduceIte] at hl ⊢
        rcases hl with hl | hl
        · cases hl; exact ⟨op, rest, hp, hA.cont c.s l hpre⟩
        · cases hl
      · simp only [hu, ↓reduceIte] at hl ⊢
        exact hi.hloc u l' hl
    · intro f hf'
      simp only [Config.setThread] at hf'
      rw [hf] at hf'; cases hf'
  | preFault op rest f hf hp hph hpre =>
    exact absurd hpre ((hat t op (mem_prog0 P interp c0 c t op rest hi hp)).nofault c.s f)
  | acquire op rest l hf hp hph hl hlk =>
    refine ⟨hi.hrun, hi.htid, ?_, ?_, ?_, ?_, hi.hunl⟩
    · intro u
      simp only [Config.setThread]
      by_cases hu : u = t
      · subst hu; simp only [↓reduceIte]; exact hi.hprog u
      · simp only [hu, ↓reduceIte]; exact hi.hprog u
    · intro u
      simp only [Config.setThread]
      by_cases hu : u = t
      · subst hu; simp only [↓reduceIte]; exact hi.houts u
      · simp only [hu, ↓reduceIte]; exact hi.houts u
    · intro u l' hl'
      simp only [Config.setThread] at hl' ⊢
      by_cases hu : u = t
      · subst hu
        simp only [↓reduceIte] at hl' ⊢
        rcases hl' with hl' | hl'
        · cases hl'
        · cases hl'; exact hi.hloc u l (Or.inl hph)
      · simp only [hu, ↓reduceIte] at hl' ⊢
        exact hi.hloc u l' hl'
    · intro f hf'
      simp only [Config.setThread] at hf'
      rw [hf] at hf'; cases hf'
  | bodyUnlocked op rest l s' o hf hp hph hl hc =>
    have hA := hat t op (mem_prog0 P interp c0 c t op rest hi hp)
    rw [hA.locks] at hl; cases hl
  | faultUnlocked op rest l f hf hp hph hl hc =>
    have hA := hat t op (mem_prog0 P interp c0 c t op rest hi hp)
    rw [hA.locks] at hl; cases hl
  | body op rest l s' o hf hp hph hc =>
    obtain ⟨op', rest', hp', hcr⟩ := hi.hloc t l (Or.inr hph)
    rw [hp] at hp'; cases hp'
    rw [hcr] at hc
    exact linInv_commit P interp c0 c t op rest s' o none hi hp hf hc
  | bodyFault op rest l f hf hp hph hc =>
    obtain ⟨op', rest', hp', hcr⟩ := hi.hloc t l (Or.inr hph)
    rw [hp] at hp'; cases hp'
    rw [hcr] at hc
    refine ⟨hi.hrun, hi.htid, hi.hprog, hi.houts, hi.hloc, ?_, hi.hunl⟩
    intro f' hf'
    cases hf'
    exact ⟨t, op, rest, hp, hc⟩

theorem run_linInv (P : ListOp → Plan) (interp : Nat → Val → Option Nat) (c0 : Config)
    (hat : ∀ t, ∀ op ∈ (c0.threads t).prog, (P op).Atomic (fun s => s.apply interp op))
    (sched : List Tid) : ∀ c, LinInv P interp c0 c → LinInv P interp c0 (run P c sched) := by
  induction sched with
  | nil => intro c h; exact h
  | cons t ts ih =>
    intro c h
    simp only [run]
    cases hs : step P c t with
    | none => exact ih c h
    | some c' => exact ih c' (step_linInv P interp c0 c c' t hat h hs)


/-- a thread that is inside a call still has that call at the head of its program -/
def PhaseInv (c : Config) : Prop := ∀ t, (c.threads t).prog = [] → (c.threads t).phase = .idle

def Phase.rank : Phase → Nat
  | .idle => 0 | .want _ => 1 | .crit _ => 2

/-- segments thread still has to execute, at most -/
def Thread.work (th : Thread) : Nat := 3 * th.prog.length - th.phase.rank

theorem step_others (P : ListOp → Plan) (c c' : Config) (t u : Tid) (h : step P c t = some c') (hu : u ≠ t) :
    c'.threads u = c.threads u := by
  have hk := step_kind P c c' t h
  cases hk <;> simp [Config.commit, Config.setThread, hu]

theorem step_phaseInv (P : ListOp → Plan) (c c' : Config) (t : Tid) (hi : PhaseInv c)
    (h : step P c t = some c') : PhaseInv c' := by
  intro u
  by_cases hu : u = t
  · subst hu
    have hk := step_kind P c c' u h
    cases hk with
    | preDone op rest o hf hp hph hpre => intro _; simp [Config.commit]
    | preCont op rest l hf hp hph hpre => intro h'; simp [Config.setThread, hp] at h'
    | preFault op rest f hf hp hph hpre => exact hi u
    | acquire op rest l hf hp hph hl hlk => intro h'; simp [Config.setThread, hp] at h'
    | bodyUnlocked op rest l s' o hf hp hph hl hc => intro _; simp [Config.commit]
    | faultUnlocked op rest l f hf hp hph hl hc => exact hi u
    | body op rest l s' o hf hp hph hc => intro _; simp [Config.commit]
    | bodyFault op rest l f hf hp hph hc => exact hi u
  · rw [step_others P c c' t u h hu]; exact hi u

theorem step_work (P : ListOp → Plan) (c c' : Config) (t : Tid) (h : step P c t = some c')
    (hf' : c'.fault = none) : (c'.threads t).work < (c.threads t).work := by
  have hk := step_kind P c c' t h
  cases hk with
  | preDone op rest o hf hp hph hpre =>
    simp only [Thread.work, Config.commit, ↓reduceIte, hp, hph, Phase.rank, List.length_cons]; omega
  | preCont op rest l hf hp hph hpre =>
    simp only [Thread.work, Config.setThread, ↓reduceIte, hp, hph, Phase.rank, List.length_cons]; omega
  | preFault op rest f hf hp hph hpre => cases hf'
  | acquire op rest l hf hp hph hl hlk =>
    simp only [Thread.work, Config.setThread, ↓reduceIte, hp, hph, Phase.rank, List.length_cons]; omega
  | bodyUnlocked op rest l s' o hf hp hph hl hc =>
    simp only [Thread.work, Config.commit, ↓reduceIte, hp, hph, Phase.rank, List.length_cons]; omega
  | faultUnlocked op rest l f hf hp hph hl hc => cases hf'
  | body op rest l s' o hf hp hph hc =>
    simp only [Thread.work, Config.commit, ↓reduceIte, hp, hph, Phase.rank, List.length_cons]; omega
  | bodyFault op rest l f hf hp hph hc => cases hf'

/-- a thread that holds the lock can always take its next step -/
theorem holder_steps (P : ListOp → Plan) (c : Config) (t : Tid) (hm : MutexInv c) (hp : PhaseInv c)
    (hf : c.fault = none) (hl : c.lock = some t) : ∃ c', step P c t = some c' := by
  have hc := (hm t).mp hl
  cases hph : (c.threads t).phase with
  | idle => rw [hph] at hc; cases hc
  | want l => rw [hph] at hc; cases hc
  | crit l =>
    cases hpr : (c.threads t).prog with
    | nil => have := hp t hpr; rw [hph] at this; cases this
    | cons op rest =>
      unfold step
      simp only [hf, hpr, hph]
      cases (P op).crit l c.s with
      | ok r => exact ⟨_, rfl⟩
      | error f => exact ⟨_, rfl⟩

/-- with the lock free, every unfinished thread can step -/
theorem free_steps (P : ListOp → Plan) (c : Config) (t : Tid) (hf : c.fault = none) (hl : c.lock = none)
    (hne : (c.threads t).prog ≠ []) : ∃ c', step P c t = some c' := by
  cases hpr : (c.threads t).prog with
  | nil => exact absurd hpr hne
  | cons op rest =>
    unfold step
    simp only [hf, hpr]
    cases hph : (c.threads t).phase with
    | idle =>
      simp only
      cases (P op).pre c.s with
      | done o => exact ⟨_, rfl⟩
      | cont l => exact ⟨_, rfl⟩
      | fault f => exact ⟨_, rfl⟩
    | want l =>
      simp only [hl]
      cases (P op).locks with
      | true => exact ⟨_, rfl⟩
      | false =>
        simp only [Bool.false_eq_true, ↓reduceIte]
        cases (P op).crit l c.s with
        | ok r => exact ⟨_, rfl⟩
        | error f => exact ⟨_, rfl⟩
    | crit l =>
      simp only
      cases (P op).crit l c.s with
      | ok r => exact ⟨_, rfl⟩
      | error f => exact ⟨_, rfl⟩

/-- number of schedule entries at which thread `t` actually performed a step -/
def effSteps (P : ListOp → Plan) (t : Tid) (c : Config) : List Tid → Nat
  | [] => 0
  | u :: us =>
    match step P c u with
    | some c' => (if u = t then 1 else 0) + effSteps P t c' us
    | none => effSteps P t c us

theorem effSteps_fault (P : ListOp → Plan) (t : Tid) (sched : List Tid) :
    ∀ c, c.fault ≠ none → effSteps P t c sched = 0 := by
  induction sched with
  | nil => intro c _; rfl
  | cons u us ih =>
    intro c hf
    have : step P c u = none := by
      unfold step
      cases hc : c.fault with
      | none => exact absurd hc hf
      | some f => rfl
    simp only [effSteps, this]
    exact ih c hf

theorem effSteps_le (P : ListOp → Plan) (t : Tid) (sched : List Tid) :
    ∀ c, effSteps P t c sched ≤ (c.threads t).work + 1 := by
  induction sched with
  | nil => intro c; simp [effSteps]
  | cons u us ih =>
    intro c
    simp only [effSteps]
    cases hs : step P c u with
    | none => exact ih c
    | some c' =>
      simp only
      by_cases hu : u = t
      · subst hu
        simp only [↓reduceIte]
        cases hf : c'.fault with
        | none =>
          have := step_work P c c' u hs hf
          have := ih c'
          omega
        | some f =>
          rw [effSteps_fault P u us c' (by rw [hf]; simp)]
          omega
      · simp only [hu, ↓reduceIte, Nat.zero_add]
        have := ih c'
        rw [step_others P c c' u t hs (fun h => hu h.symm)] at this
        exact this

theorem run_phaseInv (P : ListOp → Plan) (sched : List Tid) : ∀ c, PhaseInv c → PhaseInv (run P c sched) := by
  induction sched with
  | nil => intro c h; exact h
  | cons t ts ih =>
    intro c h
    simp only [run]
    cases hs : step P c t with
    | none => exact ih c h
    | some c' => exact ih c' (step_phaseInv P c c' t h hs)


theorem sum_map_add' (ts : List Tid) (a b : Tid → Nat) :
    (ts.map (fun t => a t + b t)).sum = (ts.map a).sum + (ts.map b).sum := by
  induction ts with
  | nil => rfl
  | cons t ts ih => simp only [List.map_cons, List.sum_cons, ih]; omega

theorem sum_indicator (ts : List Tid) (hnd : ts.Nodup) (u : Tid) (hu : u ∈ ts) (a : Nat) :
    (ts.map (fun t => if (u == t) = true then a else 0)).sum = a := by
  induction ts with
  | nil => cases hu
  | cons t ts ih =>
    simp only [List.map_cons, List.sum_cons]
    rw [List.nodup_cons] at hnd
    by_cases h : u = t
    · subst h
      have : (ts.map (fun t => if (u == t) = true then a else 0)).sum = 0 := by
        clear ih hu
        induction ts with
        | nil => rfl
        | cons v vs ih2 =>
          have hv : u ≠ v := fun e => hnd.1 (by simp [e])
          simp only [List.map_cons, List.sum_cons]
          rw [ih2 ⟨fun hm => hnd.1 (List.mem_cons_of_mem _ hm), (List.nodup_cons.mp hnd.2).2⟩]
          simp [hv]
      rw [this]; simp
    · have hu' : u ∈ ts := by
        cases hu with
        | head => exact absurd rfl h
        | tail _ hm => exact hm
      rw [ih hnd.2 hu']
      simp [h]

theorem sum_by_thread (g : ListOp → Nat) (ts : List Tid) (hnd : ts.Nodup) (l : List (Tid × ListOp))
    (hin : ∀ e ∈ l, e.1 ∈ ts) :
    (l.map (fun e => g e.2)).sum =
      (ts.map (fun t => ((l.filter (fun e => e.1 == t)).map (fun e => g e.2)).sum)).sum := by
  induction l with
  | nil =>
    have : ∀ ts : List Tid, (ts.map (fun _ => 0)).sum = 0 := by
      intro ts; induction ts with
      | nil => rfl
      | cons _ _ ih => simp only [List.map_cons, List.sum_cons, ih]
    simp [this]
  | cons e l ih =>
    have h1 : ∀ t, (((e :: l).filter (fun e => e.1 == t)).map (fun e => g e.2)).sum =
        (if (e.1 == t) = true then g e.2 else 0) + ((l.filter (fun e => e.1 == t)).map (fun e => g e.2)).sum := by
      intro t
      by_cases h : (e.1 == t) = true
      · simp [List.filter_cons, h]
      · simp [List.filter_cons, h]
    simp only [h1, sum_map_add', List.map_cons, List.sum_cons]
    rw [sum_indicator ts hnd e.1 (hin e (by simp)) (g e.2), ih (fun e' he' => hin e' (by simp [he']))]

theorem sum_le_room (ts : List Tid) (A B : Tid → Nat) (h : ∀ t, A t ≤ B t) (t0 : Tid) (x : Nat)
    (h0 : t0 ∈ ts) (hx : A t0 + x ≤ B t0) : (ts.map A).sum + x ≤ (ts.map B).sum := by
  induction ts with
  | nil => cases h0
  | cons t ts ih =>
    simp only [List.map_cons, List.sum_cons]
    have hle : (ts.map A).sum ≤ (ts.map B).sum := by
      clear ih h0
      induction ts with
      | nil => simp
      | cons v vs ih2 => simp only [List.map_cons, List.sum_cons]; have := h v; omega
    cases h0 with
    | head => omega
    | tail _ hm => have := ih hm; have := h t; omega

theorem sum_le_sum' (ts : List Tid) (A B : Tid → Nat) (h : ∀ t, A t ≤ B t) : (ts.map A).sum ≤ (ts.map B).sum := by
  induction ts with
  | nil => simp
  | cons v vs ih => simp only [List.map_cons, List.sum_cons]; have := h v; omega


end Conc
end Stackage
