import Stackage.Lemmas.Text
import Stackage.Spec.Grammar

/-!
# Lemmas about the rendering model: one level of `assembleStringStack` against the grammar
-/

set_option linter.unusedSimpArgs false
namespace Stackage

theorem kindWord_ne_nil (k : Nat) : Gen.kindWord k ≠ [] := by
  unfold Gen.kindWord
  repeat' split
  all_goals simp

theorem Cfg.kindText_ne_nil (c : Cfg) : c.kindText ≠ [] :=
  foldValue_ne_nil (kindWord_ne_nil _)

theorem isEmpty_eq_false_of_ne {t : Text} (h : t ≠ []) : t.isEmpty = false := by
  cases t with
  | nil => exact absurd rfl h
  | cons _ _ => rfl

theorem eq_nil_of_isEmpty {t : Text} (h : t.isEmpty = true) : t = [] := by
  cases t with
  | nil => rfl
  | cons _ _ => simp at h

theorem ne_nil_of_isEmpty_false {t : Text} (h : t.isEmpty = false) : t ≠ [] := by
  intro e; subst e; simp at h

namespace Cfg

/-- the operator text `stack.string` hands to `assembleStringStack` -/
def otText (c : Cfg) : Text := padValue (!c.nspad && c.sym.isEmpty) c.opWord

/-- the separator `assembleStringStack` builds (with its triple padding) -/
def asmSep (c : Cfg) : Text :=
  if c.kind == Gen.kind_list then (if c.ljc.isEmpty then (if c.nspad then [] else [' ']) else c.ljc)
  else if !c.sym.isEmpty then
    (if c.nspad then [] else [' ', ' ', ' ']) ++ c.otText ++ (if c.nspad then [] else [' ', ' ', ' '])
  else [' ', ' ', ' '] ++ c.otText ++ [' ', ' ', ' ']

/-- what `assembleStringStack` writes to its builder -/
def asmBody (c : Cfg) (strs : List Text) : Text :=
  if c.lonce then
    (if c.kind != Gen.kind_list && !strs.isEmpty then c.otText else []) ++ strs.foldr (· ++ ·) []
  else joinText c.asmSep strs

theorem assemble_unfold (c : Cfg) (strs : List Text) :
    c.assemble strs =
      condense (c.parenWrap ((if c.nspad then [] else [' ']) ++ c.asmBody strs ++
        (if c.nspad then [] else [' ']))) := by
  unfold assemble asmBody asmSep otText
  by_cases h1 : c.lonce = true <;> by_cases h2 : (c.kind == Gen.kind_list) = true <;>
    by_cases h3 : c.sym.isEmpty = true <;> simp [h1, h2, h3]

end Cfg

namespace Grammar

/-- the text between the parentheses at one level of the grammar -/
def body (c : Cfg) (items : List Text) : Text :=
  if c.lonce then (if items.isEmpty then [] else lead c) ++ items.foldr (· ++ ·) []
  else joinText (sep c) items

theorem level_unfold (c : Cfg) (items : List Text) : level c items = condense (P c (body c items)) := rfl

end Grammar

theorem sim_blanks3 : Sim [' ', ' ', ' '] [' '] := Sim.replicate 2 []
theorem sim_blanks4 : Sim [' ', ' ', ' ', ' '] [' '] := Sim.replicate 3 []

theorem padValue_false (v : Text) : padValue false v = v := by
  cases v <;> rfl

theorem padValue_true_of_ne {v : Text} (h : v ≠ []) : padValue true v = ' ' :: (v ++ [' ']) := by
  rw [padValue_of_ne h]; rfl

/-- lead-once: the operator text is the grammar's `lead` -/
theorem otText_eq_lead (c : Cfg) :
    (if c.kind != Gen.kind_list then c.otText else []) = Grammar.lead c := by
  have hk := c.kindText_ne_nil
  unfold Cfg.otText Grammar.lead Cfg.opWord
  by_cases h2 : c.kind = Gen.kind_list
  · simp [h2]
  · by_cases h3 : c.sym = []
    · cases h4 : c.nspad
      · simp [h2, h3, padValue_true_of_ne hk]
      · simp [h2, h3, padValue_false]
    · simp [h2, h3, isEmpty_eq_false_of_ne h3, padValue_false]

/-- the triple-padded separator of the code condenses like the grammar's single separator -/
theorem asmSep_sim (c : Cfg) : Sim c.asmSep (Grammar.sep c) := by
  have hk := c.kindText_ne_nil
  unfold Cfg.asmSep Grammar.sep Cfg.otText Cfg.opWord
  by_cases h2 : c.kind = Gen.kind_list
  · by_cases h5 : c.ljc = []
    · simp [h2, h5]; exact Sim.refl _
    · simp [h2, h5]; exact Sim.refl _
  · by_cases h3 : c.sym = []
    · cases h4 : c.nspad
      · simp [h2, h3, padValue_true_of_ne hk]
        show Sim ([' ', ' ', ' ', ' '] ++ c.kindText ++ [' ', ' ', ' ', ' ']) ([' '] ++ c.kindText ++ [' '])
        exact Sim.append (Sim.append sim_blanks4 (Sim.refl _)) sim_blanks4
      · simp [h2, h3, padValue_false]
        show Sim ([' ', ' ', ' '] ++ c.kindText ++ [' ', ' ', ' ']) ([' '] ++ c.kindText ++ [' '])
        exact Sim.append (Sim.append sim_blanks3 (Sim.refl _)) sim_blanks3
    · have h3' := isEmpty_eq_false_of_ne h3
      cases h4 : c.nspad
      · simp [h2, h3, h3', padValue_false]
        show Sim ([' ', ' ', ' '] ++ c.sym ++ [' ', ' ', ' ']) ([' '] ++ c.sym ++ [' '])
        exact Sim.append (Sim.append sim_blanks3 (Sim.refl _)) sim_blanks3
      · simp [h2, h3, h3', padValue_false]; exact Sim.refl _

/-- what the code writes between the parentheses condenses like the grammar's body -/
theorem asmBody_sim (c : Cfg) (strs : List Text) : Sim (c.asmBody strs) (Grammar.body c strs) := by
  unfold Cfg.asmBody Grammar.body
  cases h1 : c.lonce
  · simp only [Bool.false_eq_true, if_false]
    exact Sim.joinText (asmSep_sim c) strs
  · have e : (if c.kind != Gen.kind_list && !strs.isEmpty then c.otText else []) =
        (if strs.isEmpty then [] else Grammar.lead c) := by
      rw [← otText_eq_lead]; cases strs <;> simp
    simp only [if_true, e]
    exact Sim.refl _

/-- the outer padding and the parenthesis padding collapse -/
theorem wrap_condense (c : Cfg) {b b' : Text} (h : Sim b b') :
    condense (c.parenWrap ((if c.nspad then [] else [' ']) ++ b ++ (if c.nspad then [] else [' ']))) =
      condense (Grammar.P c b') := by
  unfold Cfg.parenWrap Grammar.P
  by_cases hp : (c.paren && c.kind != Gen.kind_basic) = true
  · cases h4 : c.nspad
    · have e : ['('] ++ [' '] ++ ([' '] ++ b ++ [' ']) ++ [' '] ++ [')'] =
          ('(' :: ' ' :: ' ' :: []) ++ b ++ (' ' :: ' ' :: [')']) := by simp
      simp only [hp, if_true, Bool.false_eq_true, if_false, e]
      exact Sim.condense
        (Sim.append (Sim.append (Sim.cons '(' (Sim.blank2 [])) h) (Sim.blank2 [')']))
    · simp only [hp, if_true, List.nil_append, List.append_nil]
      exact Sim.condense (Sim.append (Sim.append (Sim.refl _) h) (Sim.refl _))
  · cases h4 : c.nspad
    · simp only [hp, Bool.false_eq_true, if_false]
      rw [condense_snoc_space, List.singleton_append, condense_cons_space]
      exact Sim.condense h
    · simp only [hp, Bool.false_eq_true, if_false, if_true, List.nil_append, List.append_nil]
      exact Sim.condense h

/-! ## element lists -/

theorem elemsText_cons (K : Closures) (pc : Cfg) (x : Val) (rest : List Val) :
    elemsText K pc (x :: rest) =
      if (elemText K pc x).isEmpty then elemsText K pc rest
      else elemText K pc x :: elemsText K pc rest := by
  rw [elemsText]

theorem elemsText_nil (K : Closures) (pc : Cfg) : elemsText K pc [] = [] := by rw [elemsText]

theorem elemsText_append (K : Closures) (pc : Cfg) (a b : List Val) :
    elemsText K pc (a ++ b) = elemsText K pc a ++ elemsText K pc b := by
  induction a with
  | nil => rw [elemsText_nil]; rfl
  | cons x rest ih =>
    rw [List.cons_append, elemsText_cons, elemsText_cons, ih]
    split <;> rfl

/-- an element that renders empty is dropped -/
theorem elemsText_cons_of_nil {K : Closures} {pc : Cfg} {x : Val} (h : elemText K pc x = [])
    (rest : List Val) : elemsText K pc (x :: rest) = elemsText K pc rest := by
  rw [elemsText_cons, h]; rfl

/-- an element that renders non-empty is kept, in place -/
theorem mem_elemsText {K : Closures} {pc : Cfg} {x : Val} {xs : List Val} (hx : x ∈ xs)
    (hne : elemText K pc x ≠ []) : elemText K pc x ∈ elemsText K pc xs := by
  induction xs with
  | nil => simp at hx
  | cons y rest ih =>
    rw [elemsText_cons]
    rcases List.mem_cons.mp hx with rfl | h
    · rw [isEmpty_eq_false_of_ne hne]; simp
    · split
      · exact ih h
      · exact List.mem_cons_of_mem _ (ih h)

/-! ## infix preservation through one level -/

theorem infix_parenWrap (c : Cfg) (v : Text) : v <:+: c.parenWrap v := by
  unfold Cfg.parenWrap
  by_cases hp : (c.paren && c.kind != Gen.kind_basic) = true
  · simp only [hp, if_true]
    exact ⟨['('] ++ (if c.nspad then [] else [' ']), (if c.nspad then [] else [' ']) ++ [')'], by
      simp only [List.append_assoc]⟩
  · simp only [hp, Bool.false_eq_true, if_false]
    exact List.infix_refl _

theorem infix_asmBody (c : Cfg) {x : Text} {strs : List Text} (h : x ∈ strs) :
    x <:+: c.asmBody strs := by
  unfold Cfg.asmBody
  cases c.lonce
  · simp only [Bool.false_eq_true, if_false]; exact infix_joinText _ h
  · simp only [if_true]
    exact (infix_concat h).trans
      ⟨(if c.kind != Gen.kind_list && !strs.isEmpty then c.otText else []), [], by
        simp only [List.append_nil]⟩

/-- a solid piece of an item text survives one level of `assembleStringStack` verbatim -/
theorem infix_assemble (c : Cfg) {w x : Text} {strs : List Text} (hw : Solid w) (hx : x ∈ strs)
    (hwx : w <:+: x) : w <:+: c.assemble strs := by
  rw [Cfg.assemble_unfold]
  apply hw.infix_condense
  refine (hwx.trans (infix_asmBody c hx)).trans (List.IsInfix.trans ?_ (infix_parenWrap c _))
  exact List.infix_append _ _ _

end Stackage
