import Stackage.Model.Marshal

/-!
# Helper lemmas for `marshalList` / `classify` / `Cnd.cond` (C04, C16)
-/

set_option linter.unusedSimpArgs false
set_option linter.unusedVariables false
namespace Stackage

/-! ## unfolding lemmas for `marshalList` (the overlapping patterns resolved once) -/

theorem marshalList_nil : marshalList [] = { err := some 1011 } := by
  rw [marshalList]

/-- `deenvelopeSingleStack`: a single-entry input holding a `[]any` is that `[]any` -/
theorem marshalList_env (inner : List Val) : marshalList [.anys inner] = marshalList inner := by
  rw [marshalList]

/-- a string in first position: the label switch -/
theorem marshalList_str (lab : Text) (rest : List Val) :
    marshalList (.leaf (.str lab) :: rest) =
      match classify lab with
      | .cond =>
        (match rest with
         | [w, o, .anys e] =>
           (match (marshalList e).stk, (marshalList e).cnd with
            | some x, _ => { cnd := some (cndVal (Cnd.cond {} (wordOf w) (operOf o) x)) }
            | none, some x => { cnd := some (cndVal (Cnd.cond {} (wordOf w) (operOf o) x)) }
            | none, none => { err := some 1013 })
         | [w, o, e] => { cnd := some (cndVal (Cnd.cond {} (wordOf w) (operOf o) e)) }
         | _ => { err := some 1013 })
      | .kind k =>
        { stk := some (.stk .native { kind := k } (marshalElems rest).1), err := (marshalElems rest).2.getD none }
      | .other =>
        { stk := some (.stk .native { kind := Gen.kind_basic } (.leaf (.str lab) :: (marshalElems rest).1)),
          err := (marshalElems rest).2.getD none } := by
  conv => lhs; unfold marshalList
  rfl

/-- anything but a string in first position (and not the single-envelope pattern) -/
theorem marshalList_nolabel (v : Val) (rest : List Val) (hs : ∀ s, v ≠ .leaf (.str s))
    (he : ∀ inner, v = .anys inner → rest ≠ []) : marshalList (v :: rest) = { err := some 1012 } := by
  conv => lhs; unfold marshalList
  split
  · rename_i h; cases h
  · rename_i inner h
    simp only [List.cons.injEq] at h
    exact absurd h.2 (he inner h.1)
  · rename_i v' rest' hne h
    simp only [List.cons.injEq] at h
    obtain ⟨h1, h2⟩ := h
    subst h1; subst h2
    split
    · rename_i lab; exact absurd rfl (hs lab)
    · rfl

/-- the recognised kinds -/
def RealKind (k : Nat) : Prop :=
  k = Gen.kind_and ∨ k = Gen.kind_or ∨ k = Gen.kind_not ∨ k = Gen.kind_list ∨ k = Gen.kind_basic

instance (k : Nat) : Decidable (RealKind k) := by unfold RealKind; exact inferInstance

/-- Go `strings.ToUpper(lab)` on the model's texts -/
def upperText (lab : Text) : Text := lab.map goUpper

/-- the label switch compares the upper-cased label with the five kind words: a label is
recognised as kind `k` exactly when its upper-casing is the word of the real kind `k` -/
theorem classify_kind_iff (lab : Text) (k : Nat) :
    classify lab = .kind k ↔ RealKind k ∧ upperText lab = Gen.kindWord k := by
  unfold classify upperText RealKind
  simp only []
  constructor
  · intro h
    split at h
    · cases h
    · split at h
      · rename_i h1; cases h; exact ⟨by decide, by simpa using h1⟩
      · split at h
        · rename_i h1; cases h; exact ⟨by decide, by simpa using h1⟩
        · split at h
          · rename_i h1; cases h; exact ⟨by decide, by simpa using h1⟩
          · split at h
            · rename_i h1; cases h; exact ⟨by decide, by simpa using h1⟩
            · split at h
              · rename_i h1; cases h; exact ⟨by decide, by simpa using h1⟩
              · cases h
  · rintro ⟨hk, hu⟩
    rw [hu]
    rcases hk with h | h | h | h | h <;> subst h <;> rfl

theorem classify_cond_iff (lab : Text) : classify lab = .cond ↔ upperText lab = conditionLabel := by
  unfold classify upperText
  simp only []
  constructor
  · intro h
    split at h
    · rename_i h1; simpa using h1
    · repeat' split at h
      all_goals cases h
  · intro h
    rw [h]; rfl


namespace Cnd
theorem setKeyword_cfg (c : Cnd) (v : Val) : (c.setKeyword v).cfg = c.cfg := by
  unfold setKeyword; split <;> rfl
theorem setOperator_cfg (c : Cnd) (o : Op) : (c.setOperator o).cfg = c.cfg := by
  unfold setOperator; split <;> rfl
theorem setExpression_cfg (c : Cnd) (v : Val) : (c.setExpression v).cfg = c.cfg := by
  unfold setExpression; split <;> rfl

/-- `Cond(kw, op, ex)` is always an initialised Condition with the default configuration; the
only field that may differ from `initCondition()` is the error `Valid()` left behind -/
theorem cond_cfg (K : Closures) (kw : Val) (o : Op) (ex : Val) :
    ∃ e, (cond K kw o ex).cfg = { kind := Gen.kind_cond, err := e } := by
  unfold cond
  simp only []
  split
  · rename_i e _
    refine ⟨some e, ?_⟩
    simp only [setExpression_cfg, setOperator_cfg, setKeyword_cfg, init]
  · refine ⟨none, ?_⟩
    simp only [setExpression_cfg, setOperator_cfg, setKeyword_cfg, init]
end Cnd

end Stackage
