import Stackage.Model.RevealHeap
import Stackage.Lemmas.Index

/-!
# Helper lemmas for C20 (heap model of Reveal)

* the slot addressed by `stack.index` / `stack.replace` (from the regenerated guards);
* `tbl` (heap to trees): prefix stability, congruence;
* `Step H H'` — every node's tree in `H'` is reachable from its tree in `H` by unwrap steps —
  and the write lemma `step_set`;
* well-formedness of heaps (`WF`: acyclic, numbered children-first, handles well-sorted).
-/

set_option linter.unusedSimpArgs false
set_option linter.unusedVariables false

namespace Stackage
namespace RevealHeap
open Tree ListSpec

/-! ## Generic list relation -/

inductive Pointwise {α : Type} (R : α → α → Prop) : List α → List α → Prop
  | nil : Pointwise R [] []
  | cons {x y : α} {xs ys : List α} : R x y → Pointwise R xs ys → Pointwise R (x :: xs) (y :: ys)

namespace Pointwise
variable {α : Type} {R : α → α → Prop}

theorem length_eq {a b : List α} (h : Pointwise R a b) : a.length = b.length := by
  induction h with
  | nil => rfl
  | cons _ _ ih => simp [ih]

theorem append {a b c d : List α} (h1 : Pointwise R a b) (h2 : Pointwise R c d) : Pointwise R (a ++ c) (b ++ d) := by
  induction h1 with
  | nil => simpa using h2
  | cons h _ ih => exact .cons h ih

theorem get {a b : List α} (h : Pointwise R a b) : ∀ (j : Nat) (x : α), a[j]? = some x → ∃ y, b[j]? = some y ∧ R x y := by
  induction h with
  | nil => intro j x hx; simp at hx
  | cons h _ ih =>
    intro j x hx
    cases j with
    | zero => simp at hx; subst hx; exact ⟨_, by simp, h⟩
    | succ j => simp at hx; obtain ⟨y, hy, r⟩ := ih j x hx; exact ⟨y, by simp [hy], r⟩

theorem refl (hr : ∀ x, R x x) : ∀ (a : List α), Pointwise R a a
  | [] => .nil
  | x :: xs => .cons (hr x) (refl hr xs)

theorem trans (ht : ∀ x y z, R x y → R y z → R x z) {a b c : List α} (h1 : Pointwise R a b) :
    Pointwise R b c → Pointwise R a c := by
  induction h1 generalizing c with
  | nil => intro h2; cases h2; exact .nil
  | cons h _ ih => intro h2; cases h2 with | cons h' t' => exact .cons (ht _ _ _ h h') (ih t')

end Pointwise

/-! ## Index arithmetic -/

theorem pos_lt {n : Nat} {neg fwd : Bool} {i : Int} {p : Nat} (h : pos n neg fwd i = some p) : p < n := by
  unfold pos at h
  split at h
  · simp at h; omega
  · split at h
    · simp at h; omega
    · split at h
      · simp at h; omega
      · simp at h

theorem pos_nat (n : Nat) (neg fwd : Bool) (i : Nat) :
    pos n neg fwd (i : Int) = if i < n then some i else if fwd = true ∧ n > 0 then some (n - 1) else none := by
  unfold pos
  by_cases h : i < n
  · have : (0 : Int) ≤ (i : Int) ∧ (i : Int) < (n : Int) := by omega
    simp [h, this]
  · have h1 : ¬ ((0 : Int) ≤ (i : Int) ∧ (i : Int) < (n : Int)) := by omega
    have h2 : ¬ ((i : Int) < 0 ∧ neg = true ∧ -(n : Int) ≤ (i : Int)) := by omega
    have h3 : (i : Int) ≥ (n : Int) := by omega
    have h4 : ¬ ((i : Int) < 0) := by omega
    simp [h, h1, h4, h3]

theorem replicate_getD (n p : Nat) (x d : Val) (hp : p < n) : (List.replicate n x).getD p d = x := by
  simp [List.getD, List.getElem?_replicate, hp]

/-- the generated `index` guards address exactly the position the specification names -/
theorem slotPos_eq (c : Cfg) (n : Nat) (i : Int) (hs : SmallLen n) (hi : InInt i) :
    slotPos c n i = .ok (pos n (cflag c Gen.flag_negidx) (cflag c Gen.flag_fwdidx) i) := by
  unfold slotPos
  have hsp := Stk.index_spec ⟨c, List.replicate n (.leaf (.bool true))⟩ (by simpa using hs) i hi
  simp only [List.length_replicate] at hsp
  rw [hsp]
  have hf1 : Stk.flag ⟨c, List.replicate n (.leaf (.bool true))⟩ Gen.flag_negidx = cflag c Gen.flag_negidx := rfl
  have hf2 : Stk.flag ⟨c, List.replicate n (.leaf (.bool true))⟩ Gen.flag_fwdidx = cflag c Gen.flag_fwdidx := rfl
  rw [hf1, hf2]
  cases hp : pos n (cflag c Gen.flag_negidx) (cflag c Gen.flag_fwdidx) i with
  | none => rfl
  | some p =>
    have hlt := pos_lt hp
    simp only [replicate_getD _ _ _ _ hlt, Val.isNil, Bool.not_false]
    congr 2
    omega

theorem natInInt (i n : Nat) (hs : SmallLen n) (hi : i ≤ n) : InInt (i : Int) := by
  unfold SmallLen at hs; rw [pow62] at hs
  rw [Stk.inInt_iff]; omega

/-- what `r.index(i)` returns for a loop index `i ≤ len`: a non-nil slot value, which sits at
position `i` whenever `i` is a valid position -/
theorem index_nat (c : Cfg) (xs : List HVal) (i : Nat) (hs : SmallLen xs.length) (hi : InInt (i : Int)) :
    index c xs (i : Int) = .ok none ∨
    ∃ p v, index c xs (i : Int) = .ok (some v) ∧ xs[p]? = some v ∧ v.isNil = false ∧ (i < xs.length → p = i) := by
  unfold index
  rw [slotPos_eq c xs.length i hs hi, pos_nat]
  by_cases h : i < xs.length
  · simp only [h, ↓reduceIte]
    have hx : xs[i]? = some xs[i] := List.getElem?_eq_getElem h
    rw [hx]
    by_cases hn : (xs[i]).isNil = true
    · left; simp [hn]
    · right; exact ⟨i, xs[i], by simp [hn], hx, by simpa using hn, fun _ => rfl⟩
  · simp only [h, ↓reduceIte]
    by_cases hf : cflag c Gen.flag_fwdidx = true ∧ xs.length > 0
    · simp only [hf, and_self, ↓reduceIte]
      have hl : xs.length - 1 < xs.length := by omega
      have hx : xs[xs.length - 1]? = some xs[xs.length - 1] := List.getElem?_eq_getElem hl
      rw [hx]
      by_cases hn : (xs[xs.length - 1]).isNil = true
      · left; simp [hn]
      · right; exact ⟨xs.length - 1, _, by simp [hn], hx, by simpa using hn, fun h' => h'.elim⟩
    · left; simp [hf]

theorem ulen_small (n : Nat) (hs : SmallLen n) : Gen.ulen ((n : Int) + 1) = n := by
  have := Stk.ulen_eq ⟨{}, List.replicate n .nil⟩ (by simpa using hs)
  simpa [Stk.ulen, Stk.rawLen] using this

theorem replaceSlots_eq (xs : List HVal) (x : HVal) (i : Nat) (hs : SmallLen xs.length) :
    replaceSlots xs x i = if i < xs.length then xs.set i x else xs := by
  unfold replaceSlots
  rw [ulen_small _ hs]
  simp only [GenSem.replace_ok, Stk.small_isLen hs, decide_eq_true_eq]
  by_cases h : i < xs.length
  · have : (i : Int) < (xs.length : Int) := by omega
    simp [h, this]
  · have : ¬ (i : Int) < (xs.length : Int) := by omega
    simp [h, this]

theorem replaceSlots_length (xs : List HVal) (x : HVal) (i : Nat) : (replaceSlots xs x i).length = xs.length := by
  unfold replaceSlots; split <;> simp

/-! ## `tbl`: heap to trees -/

theorem tbl_length (H : Heap) : ∀ k, (tbl H k).length = k
  | 0 => rfl
  | k + 1 => by simp [tbl, tbl_length H k]

/-- the default node used by `tbl` beyond the end of the heap -/
def dflt : Node := .stack {} []

theorem tbl_succ (H : Heap) (k : Nat) : tbl H (k + 1) = tbl H k ++ [resolve (tbl H k) (H[k]?.getD dflt)] := rfl

/-- entry `j` of the table is the tree of node `j` read against the entries below it -/
theorem tbl_get (H : Heap) : ∀ (k j : Nat), j < k → (tbl H k)[j]? = some (resolve (tbl H j) (H[j]?.getD dflt))
  | 0, j, h => by omega
  | k + 1, j, h => by
    rw [tbl_succ]
    by_cases hj : j < k
    · rw [List.getElem?_append_left (by rw [tbl_length]; exact hj)]
      exact tbl_get H k j hj
    · have : j = k := by omega
      subst this
      rw [List.getElem?_append_right (by rw [tbl_length]; exact Nat.le_refl _)]
      simp [tbl_length]

theorem tbl_get_ge (H : Heap) (k j : Nat) (h : k ≤ j) : (tbl H k)[j]? = none := by
  apply List.getElem?_eq_none; rw [tbl_length]; exact h

/-- the table up to `k` depends on the nodes below `k` only -/
theorem tbl_congr (H H' : Heap) : ∀ (k : Nat), (∀ j, j < k → H'[j]? = H[j]?) → tbl H' k = tbl H k
  | 0, _ => rfl
  | k + 1, h => by
    rw [tbl_succ, tbl_succ, tbl_congr H H' k (fun j hj => h j (by omega)), h k (by omega)]

/-- a handle that points below `k` reads the same against any longer table -/
theorem rv_tbl_lt (H : Heap) (k m : Nat) (hkm : k ≤ m) : ∀ (h : HVal),
    (∀ f id, h = .stk f id → id < k) → (∀ f id, h = .cnd f id → id < k) →
    rv (tbl H m) h = rv (tbl H k) h
  | .atom v, _, _ => rfl
  | .stk f id, h1, _ => by
    have := h1 f id rfl
    simp only [rv, tbl_get H m id (by omega), tbl_get H k id this]
  | .cnd f id, _, h2 => by
    have := h2 f id rfl
    simp only [rv, tbl_get H m id (by omega), tbl_get H k id this]

/-! ## Trees of nodes related by unwrap steps -/

/-- the tree of a node, under any handle form, may become … -/
inductive BStar : Body → Body → Prop
  | stack (c : Cfg) (xs xs' : List Val) :
      (∀ f, UnwrapStar (.stk f c xs) (.stk f c xs')) → BStar (.stack c xs) (.stack c xs')
  | cond (c : Cfg) (kw : Text) (op : Op) (ex ex' : Val) :
      (∀ f, UnwrapStar (.cnd f c kw op ex) (.cnd f c kw op ex')) → BStar (.cond c kw op ex) (.cond c kw op ex')

theorem BStar.refl : ∀ (b : Body), BStar b b
  | .stack c xs => .stack c xs xs (fun _ => .refl _)
  | .cond c kw op ex => .cond c kw op ex ex (fun _ => .refl _)

theorem BStar.trans : ∀ (x y z : Body), BStar x y → BStar y z → BStar x z := by
  intro x y z h1 h2
  cases h1 with
  | stack c xs xs' h =>
    cases h2 with
    | stack _ _ xs'' h' => exact .stack c xs xs'' (fun f => (h f).trans (h' f))
  | cond c kw op ex ex' h =>
    cases h2 with
    | cond _ _ _ _ ex'' h' => exact .cond c kw op ex ex'' (fun f => (h f).trans (h' f))

/-- tables related entry by entry -/
abbrev TRel (T T' : List Body) : Prop := Pointwise BStar T T'

/-- a value read against related tables -/
theorem rv_star {T T' : List Body} (h : TRel T T') : ∀ (v : HVal), UnwrapStar (rv T v) (rv T' v)
  | .atom v => .refl _
  | .stk f id => by
    simp only [rv]
    cases hb : T[id]? with
    | none =>
      have : T'[id]? = none := by
        apply List.getElem?_eq_none; rw [← h.length_eq]; exact (List.getElem?_eq_none_iff.mp hb)
      rw [this]; exact .refl _
    | some b =>
      obtain ⟨b', hb', r⟩ := h.get id b hb
      rw [hb']
      cases r with
      | stack c xs xs' hs => exact hs f
      | cond c kw op ex ex' _ => exact .refl _
  | .cnd f id => by
    simp only [rv]
    cases hb : T[id]? with
    | none =>
      have : T'[id]? = none := by
        apply List.getElem?_eq_none; rw [← h.length_eq]; exact (List.getElem?_eq_none_iff.mp hb)
      rw [this]; exact .refl _
    | some b =>
      obtain ⟨b', hb', r⟩ := h.get id b hb
      rw [hb']
      cases r with
      | stack c xs xs' _ => exact .refl _
      | cond c kw op ex ex' hs => exact hs f

/-- an alias handle and the native handle of the same node -/
theorem rv_native_star (T : List Body) (g : Form) (m : Nat) : UnwrapStar (rv T (.stk g m)) (rv T (.stk .native m)) := by
  simp only [rv]
  cases T[m]? with
  | none => exact .refl _
  | some b =>
    cases b with
    | stack c xs => exact .single (.native g c xs)
    | cond c kw op ex => exact .refl _

theorem all2_map {R : Val → Val → Prop} (f g : HVal → Val) :
    ∀ (xs : List HVal), (∀ v, v ∈ xs → R (f v) (g v)) → All₂ R (xs.map f) (xs.map g)
  | [], _ => .nil
  | x :: xs, h => .cons (h x (by simp)) (all2_map f g xs (fun v hv => h v (by simp [hv])))

/-- element lists that differ by one replaced slot -/
theorem all2_map_set {R : Val → Val → Prop} (f g : HVal → Val) (u : HVal) :
    ∀ (xs : List HVal) (i : Nat), (∀ v, v ∈ xs → R (f v) (g v)) → (∀ v, xs[i]? = some v → R (f v) (g u)) →
      All₂ R (xs.map f) ((xs.set i u).map g)
  | [], _, _, _ => .nil
  | x :: xs, 0, h, hi => by
    simp only [List.set_cons_zero, List.map_cons]
    exact .cons (hi x (by simp)) (all2_map f g xs (fun v hv => h v (by simp [hv])))
  | x :: xs, i + 1, h, hi => by
    simp only [List.set_cons_succ, List.map_cons]
    exact .cons (h x (by simp)) (all2_map_set f g u xs i (fun v hv => h v (by simp [hv])) (fun v hv => hi v (by simpa using hv)))

/-- the tree of one node against related tables -/
theorem resolve_star {T T' : List Body} (h : TRel T T') : ∀ (n : Node), BStar (resolve T n) (resolve T' n)
  | .stack c xs => .stack c _ _ (fun f =>
      star_stk_of_forall₂ f c _ _ (all2_map (rv T) (rv T') xs (fun v _ => ERel.of_star (rv_star h v))))
  | .cond c kw op ex => .cond c kw op _ _ (fun f => (rv_star h ex).inCnd f c kw op)

/-- **`Step H H'`**: for every node (live or detached) its tree in `H'` is reachable from its tree in
`H` by unwrap steps; stated for every prefix of the node table -/
def Step (H H' : Heap) : Prop := ∀ k, TRel (tbl H k) (tbl H' k)

theorem Step.refl (H : Heap) : Step H H := fun k => Pointwise.refl BStar.refl _

theorem Step.trans {H1 H2 H3 : Heap} (h1 : Step H1 H2) (h2 : Step H2 H3) : Step H1 H3 :=
  fun k => Pointwise.trans BStar.trans (h1 k) (h2 k)

/-- **the write lemma.** After any number of steps that left the nodes from `r` upwards alone
(`H1` to `H2`), node `r` is overwritten by `node'`. If the tree of `node'` (read in `H2`) is
reachable from the tree of the old node `r` (read in `H1`), then every node of the new heap is
reachable from what it was in `H1`. -/
theorem step_set (H1 H2 : Heap) (r : Nat) (n1 node' : Node) (hst : Step H1 H2)
    (hfr : ∀ j, r ≤ j → H2[j]? = H1[j]?) (hr : H1[r]? = some n1)
    (hj : BStar (resolve (tbl H1 r) n1) (resolve (tbl H2 r) node')) :
    Step H1 (H2.set r node') := by
  have hlt : r < H2.length := by
    have := hfr r (Nat.le_refl _); rw [hr] at this
    exact (List.getElem?_eq_some_iff.mp this).1
  have hset : ∀ j, j ≠ r → (H2.set r node')[j]? = H2[j]? := by
    intro j hne; rw [List.getElem?_set]; simp [Ne.symm hne]
  have hsetr : (H2.set r node')[r]? = some node' := by
    rw [List.getElem?_set]; simp [hlt]
  have hlow : ∀ k, k ≤ r → tbl (H2.set r node') k = tbl H2 k := by
    intro k hk; exact tbl_congr H2 _ k (fun j hj => hset j (by omega))
  intro k
  induction k with
  | zero => exact .nil
  | succ k ih =>
    by_cases hk : k < r
    · rw [hlow (k + 1) (by omega)]; exact hst (k + 1)
    · by_cases hk2 : k = r
      · subst hk2
        rw [tbl_succ, tbl_succ, hlow k (Nat.le_refl _), hsetr, hr]
        exact (hst k).append (.cons hj .nil)
      · have hgt : r < k := by omega
        rw [tbl_succ, tbl_succ, hset k (by omega), hfr k (by omega)]
        exact ih.append (.cons (resolve_star ih _) .nil)

/-! ## Well-formed heaps -/

/-- 1 = stack node, 2 = condition node, 0 = no node -/
def sortOf : Option Node → Nat
  | some (.stack _ _) => 1
  | some (.cond _ _ _ _) => 2
  | none => 0

/-- a handle points strictly below `k`, to a node of its sort -/
def HVal.okAt (H : Heap) (k : Nat) : HVal → Prop
  | .atom _ => True
  | .stk _ id => id < k ∧ sortOf H[id]? = 1
  | .cnd _ id => id < k ∧ sortOf H[id]? = 2

def Node.okAt (H : Heap) (k : Nat) : Node → Prop
  | .stack _ xs => (∀ v, v ∈ xs → v.okAt H k) ∧ SmallLen xs.length
  | .cond _ _ _ ex => ex.okAt H k

/-- **well-formed heap**: acyclic and numbered children-first (every handle held by node `k`
points to a node below `k`), handles point to nodes of their sort, slices are shorter than 2^62 -/
def WF (H : Heap) : Prop := ∀ (k : Nat) (n : Node), H[k]? = some n → n.okAt H k

theorem sortOf_stack {H : Heap} {id : Nat} (h : sortOf H[id]? = 1) : ∃ c xs, H[id]? = some (.stack c xs) := by
  cases hn : H[id]? with
  | none => simp [hn, sortOf] at h
  | some n => cases n with
    | stack c xs => exact ⟨c, xs, rfl⟩
    | cond c kw op ex => simp [hn, sortOf] at h

theorem sortOf_cond {H : Heap} {id : Nat} (h : sortOf H[id]? = 2) : ∃ c kw op ex, H[id]? = some (.cond c kw op ex) := by
  cases hn : H[id]? with
  | none => simp [hn, sortOf] at h
  | some n => cases n with
    | stack c xs => simp [hn, sortOf] at h
    | cond c kw op ex => exact ⟨c, kw, op, ex, rfl⟩

theorem stackAt_some {H : Heap} {id : Nat} {c : Cfg} {xs : List HVal} :
    stackAt H id = some (c, xs) ↔ H[id]? = some (.stack c xs) := by
  unfold stackAt
  cases hn : H[id]? with
  | none => simp
  | some n => cases n <;> simp

theorem condAt_some {H : Heap} {id : Nat} {c : Cfg} {kw : Text} {op : Op} {ex : HVal} :
    condAt H id = some (c, kw, op, ex) ↔ H[id]? = some (.cond c kw op ex) := by
  unfold condAt
  cases hn : H[id]? with
  | none => simp
  | some n => cases n <;> simp

theorem stackAt_none {H : Heap} {id : Nat} (h : stackAt H id = none) : sortOf H[id]? ≠ 1 := by
  unfold stackAt at h
  cases hn : H[id]? with
  | none => simp [sortOf]
  | some n => cases n <;> simp_all [sortOf]

theorem condAt_none {H : Heap} {id : Nat} (h : condAt H id = none) : sortOf H[id]? ≠ 2 := by
  unfold condAt at h
  cases hn : H[id]? with
  | none => simp [sortOf]
  | some n => cases n <;> simp_all [sortOf]

theorem HVal.okAt_mono {H : Heap} {k m : Nat} (hkm : k ≤ m) : ∀ {v : HVal}, v.okAt H k → v.okAt H m
  | .atom _, _ => trivial
  | .stk _ id, h => ⟨by have := h.1; omega, h.2⟩
  | .cnd _ id, h => ⟨by have := h.1; omega, h.2⟩

/-- handles stay fine when the sorts of the nodes stay -/
theorem HVal.okAt_sorts {H H' : Heap} (hs : ∀ j : Nat, sortOf H'[j]? = sortOf H[j]?) {k : Nat} :
    ∀ {v : HVal}, v.okAt H k → v.okAt H' k
  | .atom _, _ => trivial
  | .stk _ id, h => ⟨h.1, by rw [hs]; exact h.2⟩
  | .cnd _ id, h => ⟨h.1, by rw [hs]; exact h.2⟩

theorem Node.okAt_sorts {H H' : Heap} (hs : ∀ j : Nat, sortOf H'[j]? = sortOf H[j]?) {k : Nat} :
    ∀ {n : Node}, n.okAt H k → n.okAt H' k
  | .stack _ xs, h => ⟨fun v hv => HVal.okAt_sorts hs (h.1 v hv), h.2⟩
  | .cond _ _ _ ex, h => HVal.okAt_sorts hs h

theorem sortOf_set (H : Heap) (r : Nat) (n n' : Node) (hr : H[r]? = some n) (hs : sortOf (some n') = sortOf (some n)) :
    ∀ j : Nat, sortOf (H.set r n')[j]? = sortOf H[j]? := by
  intro j
  rw [List.getElem?_set]
  by_cases hj : r = j
  · subst hj
    have hlt : r < H.length := (List.getElem?_eq_some_iff.mp hr).1
    rw [hr]
    simp [hlt, hs]
  · simp [hj]

/-- overwriting a node by a well-formed node of the same sort keeps the heap well-formed -/
theorem WF_set (H : Heap) (r : Nat) (n n' : Node) (hwf : WF H) (hr : H[r]? = some n)
    (hs : sortOf (some n') = sortOf (some n)) (hok : n'.okAt H r) : WF (H.set r n') := by
  have hsorts := sortOf_set H r n n' hr hs
  intro k m hm
  rw [List.getElem?_set] at hm
  by_cases hk : r = k
  · subst hk
    have hlt : r < H.length := (List.getElem?_eq_some_iff.mp hr).1
    simp [hlt] at hm
    subst hm
    exact Node.okAt_sorts hsorts hok
  · simp [hk] at hm
    exact Node.okAt_sorts hsorts (hwf k m hm)

end RevealHeap
end Stackage
