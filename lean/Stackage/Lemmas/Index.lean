import Stackage.Spec.ListSpec
import Stackage.Lemmas.GenSem

set_option linter.unusedSimpArgs false
namespace Stackage
open ListSpec

namespace Stk

theorem small_isLen {n : Nat} (h : SmallLen n) : IsLen (n : Int) := by
  unfold SmallLen at h; rw [pow62] at h; rw [isLen_iff]; omega

theorem small_isRawLen {n : Nat} (h : SmallLen n) : IsRawLen ((n : Int) + 1) := by
  unfold SmallLen at h; rw [pow62] at h; rw [isRawLen_iff]; omega

theorem ulen_eq (s : Stk) (h : SmallLen s.xs.length) : s.ulen = s.xs.length := by
  unfold ulen rawLen
  rw [GenSem.ulen _ (small_isRawLen h)]
  omega

theorem inInt_iff (i : Int) : InInt i ↔ (-9223372036854775808 ≤ i ∧ i < 9223372036854775808) := by
  unfold InInt; rw [pow63]

theorem factorNegIndex_spec (i L : Int) (hL0 : 0 < L) (hL : L < 4611686018427387904) (h1 : -L ≤ i) (h2 : i < 0) :
    Gen.factorNegIndex i L = L + i + 1 :=
  GenSem.factorNegIndex i L (by rw [isLen_iff]; omega) h1 h2

theorem rawGet_succ (s : Stk) (p : Nat) (hp : p < s.xs.length) :
    s.rawGet ((p : Int) + 1) = .ok (s.xs.getD p .nil) := by
  unfold rawGet rawLen
  have h1 : ¬ (((p:Int) + 1 < 0) ∨ ((p:Int) + 1 ≥ (s.xs.length:Int) + 1)) := by omega
  have h2 : ¬ ((p:Int) + 1 = 0) := by omega
  have h3 : ((p:Int) + 1 - 1).toNat = p := by omega
  simp only [h1, h2, ↓reduceIte, h3]

/-- `stack.index` addresses exactly the position the specification names -/
theorem index_spec (s : Stk) (hs : SmallLen s.xs.length) (i : Int) (hi : InInt i) :
    s.index i = .ok (match pos s.xs.length (s.flag Gen.flag_negidx) (s.flag Gen.flag_fwdidx) i with
                     | none => (.nil, 0, false)
                     | some p => (s.xs.getD p .nil, (p : Int) + 1, !(s.xs.getD p .nil).isNil)) := by
  have hu := ulen_eq s hs
  have hL := small_isLen hs
  unfold SmallLen at hs; rw [pow62] at hs
  rw [inInt_iff] at hi
  unfold index
  -- the five regenerated guards, by what they mean (never by their shape)
  have hne : ∀ (a : Int) (b c : Bool), Gen.index_nonempty { ulen := a, i := i, L := a, negidx := b, fwdidx := c } = decide (0 < a) :=
    fun a b c => GenSem.index_nonempty _ rfl
  simp only [hu, hne, GenSem.index_isneg, GenSem.index_negok, GenSem.index_isover,
    GenSem.index_fwdok, hL, decide_eq_true_eq]
  unfold pos
  generalize hn : s.xs.length = n at *
  generalize s.flag Gen.flag_negidx = neg
  generalize s.flag Gen.flag_fwdidx = fwd
  by_cases hpos : 0 < (n : Int)
  · simp only [hpos, ↓reduceIte]
    by_cases hneg : i < 0
    · have hn1 : ¬ (0 ≤ i ∧ i < (n:Int)) := by omega
      have hn2 : ¬ (i ≥ (n:Int) ∧ fwd = true ∧ n > 0) := by omega
      simp only [hneg, ↓reduceIte, hn1, hn2, true_and]
      by_cases hg : neg = true ∧ -(n:Int) ≤ i
      · have hf := factorNegIndex_spec i n hpos hs hg.2 hneg
        have hp : ((n:Int) + i).toNat < s.xs.length := by omega
        have hc : (n:Int) + i + 1 = (((n:Int) + i).toNat : Int) + 1 := by omega
        simp only [hg, and_self, ↓reduceIte, hf]
        rw [hc, rawGet_succ s _ hp]
        rfl
      · simp only [hg, ↓reduceIte]
    · by_cases hbig : (n:Int) ≤ i
      · have hn0 : ¬ (0 ≤ i ∧ i < (n:Int)) := by omega
        have hge : i ≥ (n:Int) := by omega
        have hnn : n > 0 := by omega
        simp only [hneg, ↓reduceIte, hbig, hn0, false_and, hge, hnn, and_true, true_and]
        by_cases hf : fwd = true
        · have hp : n - 1 < s.xs.length := by omega
          have hc : (n:Int) = ((n - 1 : Nat) : Int) + 1 := by omega
          simp only [hf, ↓reduceIte]
          rw [hc, rawGet_succ s _ hp]
          simp only [← hc]
          rfl
        · simp only [hf, ↓reduceIte, Bool.false_eq_true]
      · have hy : 0 ≤ i ∧ i < (n:Int) := by omega
        have e1 : wrap64 (i + 1) = i + 1 := by rw [wrap64_eq] <;> omega
        have hp : i.toNat < s.xs.length := by omega
        have hc : i + 1 = ((i.toNat : Nat) : Int) + 1 := by omega
        simp only [hneg, ↓reduceIte, hbig, hy, and_self, e1]
        rw [hc, rawGet_succ s _ hp]
        rfl
  · have h0 : n = 0 := by omega
    subst h0
    have hn0 : ¬ (0 ≤ i ∧ i < ((0:Nat):Int)) := by omega
    have hn1 : ¬ (i < 0 ∧ neg = true ∧ -((0:Nat):Int) ≤ i) := by omega
    have hn2 : ¬ (0 < 0) := by omega
    simp only [hpos, ↓reduceIte, hn0, hn1, gt_iff_lt, Nat.lt_irrefl, and_false]

end Stk
end Stackage
