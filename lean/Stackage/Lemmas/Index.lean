import Stackage.Spec.ListSpec

set_option linter.unusedSimpArgs false
namespace Stackage
open ListSpec

theorem pow62 : (2:Int)^62 = 4611686018427387904 := by decide
theorem pow63 : (2:Int)^63 = 9223372036854775808 := by decide
theorem pow64 : (2:Int)^64 = 18446744073709551616 := by decide

theorem wrap64_eq {x : Int} (h1 : -9223372036854775808 ≤ x) (h2 : x < 9223372036854775808) : wrap64 x = x := by
  unfold wrap64; rw [pow63, pow64]; omega

namespace Stk

theorem ulen_eq (s : Stk) (h : SmallLen s.xs.length) : s.ulen = s.xs.length := by
  unfold SmallLen at h; rw [pow62] at h
  unfold ulen rawLen Gen.ulen
  by_cases h0 : s.xs.length = 0
  · simp [h0]
  · have : ¬ ((s.xs.length : Int) + 1 = 0) := by omega
    have : ¬ ((s.xs.length : Int) + 1 = 1) := by omega
    simp (disch := omega) [*, wrap64_eq]


theorem inInt_iff (i : Int) : InInt i ↔ (-9223372036854775808 ≤ i ∧ i < 9223372036854775808) := by
  unfold InInt; rw [pow63]

theorem factorNegIndex_spec (i L : Int) (hL0 : 0 < L) (hL : L < 4611686018427387904) (h1 : -L ≤ i) (h2 : i < 0) :
    Gen.factorNegIndex i L = L + i + 1 := by
  unfold Gen.factorNegIndex
  simp (disch := omega) only [wrap64_eq]
  have : i + L * 2 > L - 1 := by omega
  simp (disch := omega) [this, wrap64_eq]
  omega

theorem rawGet_succ (s : Stk) (p : Nat) (hp : p < s.xs.length) :
    s.rawGet ((p : Int) + 1) = .ok (s.xs.getD p .nil) := by
  unfold rawGet rawLen
  have h1 : ¬ (((p:Int) + 1 < 0) ∨ ((p:Int) + 1 ≥ (s.xs.length:Int) + 1)) := by omega
  have h2 : ¬ ((p:Int) + 1 = 0) := by omega
  have h3 : ((p:Int) + 1 - 1).toNat = p := by omega
  simp only [h1, h2, ↓reduceIte, h3]

/-- `stack.index` addresses exactly the position the specification names -/
theorem index_spec (s : Stk) (hs : SmallLen s.xs.length) (i : Int) (hi : InInt i) :
    s.index i = .ok (match pos s.xs.length (s.flag Gen.flag_negidx) (s.flag Gen.flag_fwdidx) i with
                     | none => (.nil, 0, false)
                     | some p => (s.xs.getD p .nil, (p : Int) + 1, !(s.xs.getD p .nil).isNil)) := by
  have hu := ulen_eq s hs
  unfold SmallLen at hs; rw [pow62] at hs
  rw [inInt_iff] at hi
  unfold index
  simp only [hu]
  unfold Gen.index_nonempty Gen.index_isneg Gen.index_negok Gen.index_isover Gen.index_fwdok pos
  generalize hn : s.xs.length = n at *
  generalize s.flag Gen.flag_negidx = neg
  generalize s.flag Gen.flag_fwdidx = fwd
  simp only []
  by_cases hpos : (n : Int) > 0
  · simp only [hpos, decide_true, ↓reduceIte]
    by_cases hneg : i < 0
    · have hn1 : ¬ (0 ≤ i ∧ i < (n:Int)) := by omega
      have hn2 : ¬ (i ≥ (n:Int) ∧ fwd = true ∧ n > 0) := by omega
      simp only [hneg, decide_true, ↓reduceIte, hn1, hn2]
      have ew : wrap64 (-(n:Int)) = -(n:Int) := by rw [wrap64_eq] <;> omega
      rw [ew]
      by_cases hg : -(n:Int) ≤ i
      · cases neg
        · simp
        · have hf := factorNegIndex_spec i n hpos hs hg hneg
          have hp : ((n:Int) + i).toNat < s.xs.length := by omega
          have hc : (n:Int) + i + 1 = (((n:Int) + i).toNat : Int) + 1 := by omega
          simp only [hg, decide_true, Bool.and_self, ↓reduceIte, hneg, and_self, true_and, hf]
          rw [hc, rawGet_succ s _ hp]
          rfl
      · cases neg <;> simp [hg]
    · by_cases hbig : i > (n:Int) - 1
      · have hn0 : ¬ (0 ≤ i ∧ i < (n:Int)) := by omega
        have hn1 : ¬ (i < 0 ∧ neg = true ∧ -(n:Int) ≤ i) := by omega
        have hge : i ≥ (n:Int) := by omega
        have ew : wrap64 ((n:Int) - 1) = (n:Int) - 1 := by rw [wrap64_eq] <;> omega
        simp only [hneg, decide_false, Bool.false_eq_true, ↓reduceIte, ew, hbig, decide_true, hn0, hn1]
        cases fwd
        · simp
        · have hp : n - 1 < s.xs.length := by omega
          have hc : (n:Int) = ((n - 1 : Nat) : Int) + 1 := by omega
          have hnn : n > 0 := by omega
          simp only [↓reduceIte, hge, hnn, and_self]
          rw [hc, rawGet_succ s _ hp]
          simp
          rfl
      · have hy : 0 ≤ i ∧ i < (n:Int) := by omega
        have ew : wrap64 ((n:Int) - 1) = (n:Int) - 1 := by rw [wrap64_eq] <;> omega
        have e1 : wrap64 (i + 1) = i + 1 := by rw [wrap64_eq] <;> omega
        have hp : i.toNat < s.xs.length := by omega
        have hc : i + 1 = ((i.toNat : Nat) : Int) + 1 := by omega
        simp only [hneg, decide_false, Bool.false_eq_true, ↓reduceIte, ew, hbig, hy, and_self, e1]
        rw [hc, rawGet_succ s _ hp]
        rfl
  · have h0 : n = 0 := by omega
    subst h0
    have hn0 : ¬ (0 ≤ i ∧ i < 0) := by omega
    have hn1 : ¬ (i < 0 ∧ neg = true ∧ 0 ≤ i) := by omega
    simp [hn0, hn1]

end Stk
end Stackage
