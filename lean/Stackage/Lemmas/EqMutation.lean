import Stackage.Lemmas.EqSpec

/-!
# What a single difference does to "same description" (C05, point mutations)

Positions are paths: through a stack to its `i`-th element, through a condition to its expression, and inside
a leaf through a pointer or interface to its target, through a slice / array to its `i`-th element, through a
map to the value of its `i`-th entry, through a struct to its `i`-th field provided that field is exported.
Replacing the value found at any such position by one that is not "the same" makes the whole not "the same",
in both directions.
-/

set_option linter.unusedSimpArgs false
set_option linter.unusedVariables false

namespace Stackage
namespace EqSpec
open EV

/-! ## Lists -/

theorem sameVals_get : ∀ (xs ys : List Val), sameVals xs ys = true → ∀ (i : Nat) (x y : Val),
    xs[i]? = some x → ys[i]? = some y → sameDesc x y = true
  | [], [], _ => by simp
  | [], _ :: _, h => by simp [sameVals] at h
  | _ :: _, [], h => by simp [sameVals] at h
  | a :: xs, b :: ys, h => by
      simp only [sameVals, Bool.and_eq_true] at h
      intro i x y hx hy
      cases i with
      | zero => simp only [List.getElem?_cons_zero, Option.some.injEq] at hx hy; rw [← hx, ← hy]; exact h.1
      | succ i => simp only [List.getElem?_cons_succ] at hx hy; exact sameVals_get xs ys h.2 i x y hx hy

theorem sameList_get : ∀ (xs ys : List EV), sameList xs ys = true → ∀ (i : Nat) (x y : EV),
    xs[i]? = some x → ys[i]? = some y → sameEV x y = true
  | [], [], _ => by simp
  | [], _ :: _, h => by simp [sameList] at h
  | _ :: _, [], h => by simp [sameList] at h
  | a :: xs, b :: ys, h => by
      simp only [sameList, Bool.and_eq_true] at h
      intro i x y hx hy
      cases i with
      | zero => simp only [List.getElem?_cons_zero, Option.some.injEq] at hx hy; rw [← hx, ← hy]; exact h.1
      | succ i => simp only [List.getElem?_cons_succ] at hx hy; exact sameList_get xs ys h.2 i x y hx hy

theorem getElem?_modify_self {α : Type} (g : α → α) : ∀ (xs : List α) (i : Nat) (x : α), xs[i]? = some x →
    (xs.modify i g)[i]? = some (g x)
  | [], i, x => by simp
  | a :: xs, 0, x => by simp; intro h; rw [h]
  | a :: xs, i + 1, x => by
      simp only [List.getElem?_cons_succ, List.modify_succ_cons]
      exact getElem?_modify_self g xs i x

/-- a replaced element that is not the same: the lists are not the same (both directions) -/
theorem sameVals_modify (g : Val → Val) (xs : List Val) (i : Nat) (x : Val) (hx : xs[i]? = some x) :
    (sameDesc x (g x) = false → sameVals xs (xs.modify i g) = false) ∧
    (sameDesc (g x) x = false → sameVals (xs.modify i g) xs = false) := by
  have hm := getElem?_modify_self g xs i x hx
  constructor
  · intro h
    cases hs : sameVals xs (xs.modify i g) with
    | false => rfl
    | true => rw [sameVals_get _ _ hs i x (g x) hx hm] at h; simp at h
  · intro h
    cases hs : sameVals (xs.modify i g) xs with
    | false => rfl
    | true => rw [sameVals_get _ _ hs i (g x) x hm hx] at h; simp at h

theorem sameList_modify (g : EV → EV) (xs : List EV) (i : Nat) (x : EV) (hx : xs[i]? = some x) :
    (sameEV x (g x) = false → sameList xs (xs.modify i g) = false) ∧
    (sameEV (g x) x = false → sameList (xs.modify i g) xs = false) := by
  have hm := getElem?_modify_self g xs i x hx
  constructor
  · intro h
    cases hs : sameList xs (xs.modify i g) with
    | false => rfl
    | true => rw [sameList_get _ _ hs i x (g x) hx hm] at h; simp at h
  · intro h
    cases hs : sameList (xs.modify i g) xs with
    | false => rfl
    | true => rw [sameList_get _ _ hs i (g x) x hm hx] at h; simp at h

/-! ## Trees -/

/-- the `i`-th child of a tree node -/
def Val.child (i : Nat) : Val → Option Val
  | .stk _ _ xs => xs[i]?
  | .cnd _ _ _ _ ex => if i = 0 then some ex else none
  | _ => none

/-- the node at a path -/
def Val.at? : List Nat → Val → Option Val
  | [], v => some v
  | i :: p, v => (Val.child i v).bind (Val.at? p)

def Val.setChild (i : Nat) (g : Val → Val) : Val → Val
  | .stk f c xs => .stk f c (xs.modify i g)
  | .cnd f c kw op ex => if i = 0 then .cnd f c kw op (g ex) else .cnd f c kw op ex
  | v => v

/-- the tree with the node at a path replaced by its image under `g` -/
def Val.modifyAt (g : Val → Val) : List Nat → Val → Val
  | [], v => g v
  | i :: p, v => Val.setChild i (Val.modifyAt g p) v

theorem sameDesc_setChild (g : Val → Val) (i : Nat) (a ch : Val) (hc : Val.child i a = some ch) :
    (sameDesc ch (g ch) = false → sameDesc a (Val.setChild i g a) = false) ∧
    (sameDesc (g ch) ch = false → sameDesc (Val.setChild i g a) a = false) := by
  cases a with
  | stk f c xs =>
      simp only [Val.child] at hc
      have := sameVals_modify g xs i ch hc
      constructor
      · intro h; simp [Val.setChild, sameDesc, this.1 h]
      · intro h; simp [Val.setChild, sameDesc, this.2 h]
  | cnd f c kw op ex =>
      simp only [Val.child] at hc
      split at hc
      · rename_i hi
        simp only [Option.some.injEq] at hc; subst hc
        constructor
        · intro h; simp [Val.setChild, hi, sameDesc, h]
        · intro h; simp [Val.setChild, hi, sameDesc, h]
      · simp at hc
  | nil => simp [Val.child] at hc
  | leaf l => simp [Val.child] at hc
  | zstk f => simp [Val.child] at hc
  | zcnd f => simp [Val.child] at hc
  | anys xs => simp [Val.child] at hc
  | opv o => simp [Val.child] at hc

/-- **a difference at any depth is a difference of the whole** -/
theorem sameDesc_modifyAt (g : Val → Val) : ∀ (p : List Nat) (a x : Val), Val.at? p a = some x →
    (sameDesc x (g x) = false → sameDesc a (Val.modifyAt g p a) = false) ∧
    (sameDesc (g x) x = false → sameDesc (Val.modifyAt g p a) a = false)
  | [], a, x, h => by
      simp only [Val.at?, Option.some.injEq] at h; subst h
      exact ⟨fun h => h, fun h => h⟩
  | i :: p, a, x, h => by
      simp only [Val.at?] at h
      cases hc : Val.child i a with
      | none => simp [hc] at h
      | some ch =>
        simp only [hc, Option.bind_some] at h
        have ih := sameDesc_modifyAt g p ch x h
        have st := sameDesc_setChild (Val.modifyAt g p) i a ch hc
        exact ⟨fun hh => st.1 (ih.1 hh), fun hh => st.2 (ih.2 hh)⟩

/-! ## Inside a leaf -/

/-- the `i`-th *compared* child of a leaf value -/
def EV.child (i : Nat) : EV → Option EV
  | .ptr _ e => if i = 0 then some e else none
  | .iface e => if i = 0 then some e else none
  | .seq _ _ _ xs => xs[i]?
  | .map _ _ vs => vs[i]?
  | .struct _ fs vs => if (fs[i]?.map (·.exported)) = some true then vs[i]? else none
  | _ => none

def EV.at? : List Nat → EV → Option EV
  | [], v => some v
  | i :: p, v => (EV.child i v).bind (EV.at? p)

def EV.setChild (i : Nat) (g : EV → EV) : EV → EV
  | .ptr t e => if i = 0 then .ptr t (g e) else .ptr t e
  | .iface e => if i = 0 then .iface (g e) else .iface e
  | .seq a t c xs => .seq a t c (xs.modify i g)
  | .map t ks vs => .map t ks (vs.modify i g)
  | .struct t fs vs => .struct t fs (vs.modify i g)
  | v => v

def EV.modifyAt (g : EV → EV) : List Nat → EV → EV
  | [], v => g v
  | i :: p, v => EV.setChild i (EV.modifyAt g p) v

theorem zip_getElem? (ks vs : List EV) (i : Nat) (k v : EV) (hk : ks[i]? = some k) (hv : vs[i]? = some v) :
    (k, v) ∈ ks.zip vs := by
  have : (ks.zip vs)[i]? = some (k, v) := by simp [List.getElem?_zip_eq_some, hk, hv]
  exact List.mem_of_getElem? this

theorem sameMap_modify (g : EV → EV) (ks vs : List EV) (i : Nat) (v : EV)
    (hl : ks.length = vs.length) (hnd : ks.Nodup) (hv : vs[i]? = some v) :
    (sameEV v (g v) = false → sameMap ks vs ks (vs.modify i g) = false) ∧
    (sameEV (g v) v = false → sameMap ks (vs.modify i g) ks vs = false) := by
  have hi : i < vs.length := by
    cases h : decide (i < vs.length) with
    | true => simpa using h
    | false =>
      have : vs.length ≤ i := by simpa using h
      rw [List.getElem?_eq_none this] at hv; simp at hv
  have hk : ks[i]? = some ks[i] := by simp [hl, hi]
  have hm := getElem?_modify_self g vs i v hv
  constructor
  · intro h
    cases hs : sameMap ks vs ks (vs.modify i g) with
    | false => rfl
    | true =>
      rw [sameMap_iff ks (vs.modify i g) ks vs hl] at hs
      obtain ⟨w, hw1, hw2⟩ := hs (ks[i], v) (zip_getElem? ks vs i _ v hk hv)
      have := find_of_zip ks[i] ks (vs.modify i g) (g v) hnd (zip_getElem? ks _ i _ _ hk hm)
      rw [this] at hw1; simp only [Option.some.injEq] at hw1; subst hw1
      simp only at hw2; rw [hw2] at h; simp at h
  · intro h
    cases hs : sameMap ks (vs.modify i g) ks vs with
    | false => rfl
    | true =>
      rw [sameMap_iff ks vs ks (vs.modify i g) (by simp [hl])] at hs
      obtain ⟨w, hw1, hw2⟩ := hs (ks[i], g v) (zip_getElem? ks _ i _ _ hk hm)
      have := find_of_zip ks[i] ks vs v hnd (zip_getElem? ks vs i _ v hk hv)
      rw [this] at hw1; simp only [Option.some.injEq] at hw1; subst hw1
      simp only at hw2; rw [hw2] at h; simp at h

theorem sameFields_get : ∀ (fs : List Fld) (vs : List EV) (gs : List Fld) (ws : List EV), sameFields fs vs gs ws = true →
    ∀ (i : Nat) (f g : Fld) (v w : EV), fs[i]? = some f → gs[i]? = some g → vs[i]? = some v → ws[i]? = some w →
    f.exported = true → g.exported = true → sameEV v w = true
  | [], [], [], [], _ => by simp
  | [], [], [], _ :: _, h => by simp [sameFields] at h
  | [], [], _ :: _, _, h => by simp [sameFields] at h
  | [], _ :: _, _, _, h => by simp [sameFields] at h
  | _ :: _, [], _, _, h => by simp [sameFields] at h
  | _ :: _, _ :: _, [], _, h => by simp [sameFields] at h
  | _ :: _, _ :: _, _ :: _, [], h => by simp [sameFields] at h
  | f0 :: fs, v0 :: vs, g0 :: gs, w0 :: ws, h => by
      simp only [sameFields, Bool.and_eq_true] at h
      intro i f g v w hf hg hv hw hfe hge
      cases i with
      | zero =>
          simp only [List.getElem?_cons_zero, Option.some.injEq] at hf hg hv hw
          subst hf; subst hg; subst hv; subst hw
          have h1 := h.1
          simp [hfe, hge] at h1
          exact h1.2
      | succ i =>
          simp only [List.getElem?_cons_succ] at hf hg hv hw
          exact sameFields_get fs vs gs ws h.2 i f g v w hf hg hv hw hfe hge

theorem sameEV_setChild (g : EV → EV) (i : Nat) (x ch : EV) (c : Ctx) (hd : domEV c x = true) (hc : EV.child i x = some ch) :
    (sameEV ch (g ch) = false → sameEV x (EV.setChild i g x) = false) ∧
    (sameEV (g ch) ch = false → sameEV (EV.setChild i g x) x = false) := by
  cases x with
  | ptr t e =>
      simp only [EV.child] at hc
      split at hc
      · rename_i hi
        simp only [Option.some.injEq] at hc; subst hc
        simp only [EV.setChild, hi, ↓reduceIte, sameEV]
        rw [sameEV_congr e (.ptr t (g e)) (g e) (by simp [strip]), sameEV_congr (g e) (.ptr t e) e (by simp [strip])]
        exact ⟨fun h => h, fun h => h⟩
      · simp at hc
  | iface e =>
      simp only [EV.child] at hc
      split at hc
      · rename_i hi
        simp only [Option.some.injEq] at hc; subst hc
        simp only [EV.setChild, hi, ↓reduceIte, sameEV]
        rw [sameEV_congr e (.iface (g e)) (g e) (by simp [strip]), sameEV_congr (g e) (.iface e) e (by simp [strip])]
        exact ⟨fun h => h, fun h => h⟩
      · simp at hc
  | seq a t cp xs =>
      simp only [EV.child] at hc
      have := sameList_modify g xs i ch hc
      constructor
      · intro h; simp [EV.setChild, sameEV, strip, this.1 h]
      · intro h; simp [EV.setChild, sameEV, strip, this.2 h]
  | map t ks vs =>
      simp only [EV.child] at hc
      simp only [domEV, Bool.and_eq_true, beq_iff_eq] at hd
      have := sameMap_modify g ks vs i ch hd.1.1.1 ((nodupKeys_iff ks).mp hd.1.1.2) hc
      constructor
      · intro h; simp [EV.setChild, sameEV, strip, this.1 h]
      · intro h; simp [EV.setChild, sameEV, strip, this.2 h]
  | struct t fs vs =>
      simp only [EV.child] at hc
      split at hc
      · rename_i hfe
        have hm := getElem?_modify_self g vs i ch hc
        cases hf : fs[i]? with
        | none => simp [hf] at hfe
        | some f =>
          simp only [hf, Option.map_some, Option.some.injEq] at hfe
          constructor
          · intro h
            cases hs : sameFields fs vs fs (vs.modify i g) with
            | false => simp [EV.setChild, sameEV, strip, hs]
            | true => rw [sameFields_get _ _ _ _ hs i f f ch (g ch) hf hf hc hm hfe hfe] at h; simp at h
          · intro h
            cases hs : sameFields fs (vs.modify i g) fs vs with
            | false => simp [EV.setChild, sameEV, strip, hs]
            | true => rw [sameFields_get _ _ _ _ hs i f f (g ch) ch hf hf hm hc hfe hfe] at h; simp at h
      · simp at hc
  | _ => simp [EV.child] at hc

/-- the children of a domain value are domain values -/
theorem dom_child (i : Nat) (x ch : EV) (c : Ctx) (hd : domEV c x = true) (hc : EV.child i x = some ch) :
    ∃ c', domEV c' ch = true := by
  cases x with
  | ptr t e =>
      simp only [EV.child] at hc
      split at hc
      · simp only [Option.some.injEq] at hc; subst hc; simp only [domEV] at hd; exact ⟨_, hd⟩
      · simp at hc
  | iface e =>
      simp only [EV.child] at hc
      split at hc
      · simp only [Option.some.injEq] at hc; subst hc
        simp only [domEV] at hd
        split at hd
        · exact ⟨_, hd⟩
        · simp at hd
      · simp at hc
  | seq a t cp xs =>
      simp only [EV.child] at hc
      simp only [domEV] at hd
      refine ⟨.elem, ?_⟩
      have hm := List.mem_of_getElem? hc
      clear hc
      induction xs with
      | nil => simp at hm
      | cons y ys ih =>
        simp only [domList, Bool.and_eq_true] at hd
        rcases List.mem_cons.mp hm with e | hm'
        · rw [e]; exact hd.1
        · exact ih hd.2 hm'
  | map t ks vs =>
      simp only [EV.child] at hc
      simp only [domEV, Bool.and_eq_true] at hd
      exact ⟨.top, domVals_mem vs hd.2 ch (List.mem_of_getElem? hc)⟩
  | struct t fs vs =>
      simp only [EV.child] at hc
      simp only [domEV, Bool.and_eq_true] at hd
      split at hc
      · rename_i hfe
        refine ⟨.top, ?_⟩
        have hdf := hd.2
        clear hd
        induction fs generalizing vs i with
        | nil => simp at hfe
        | cons f fs ih =>
          cases vs with
          | nil => simp at hc
          | cons v vs =>
            simp only [domFields, Bool.and_eq_true, Bool.or_eq_true, Bool.not_eq_true'] at hdf
            cases i with
            | zero =>
              simp only [List.getElem?_cons_zero, Option.map_some, Option.some.injEq] at hfe hc
              subst hc
              rcases hdf.1 with e | e
              · rw [hfe] at e; simp at e
              · exact e
            | succ i =>
              simp only [List.getElem?_cons_succ] at hfe hc
              first | exact ih _ _ hc hfe hdf.2 | exact ih _ _ hfe hc hdf.2
      · simp at hc
  | _ => simp [EV.child] at hc

/-- **a difference at any compared position inside a leaf is a difference of the leaf** -/
theorem sameEV_modifyAt (g : EV → EV) : ∀ (p : List Nat) (x z : EV) (c : Ctx), domEV c x = true → EV.at? p x = some z →
    (sameEV z (g z) = false → sameEV x (EV.modifyAt g p x) = false) ∧
    (sameEV (g z) z = false → sameEV (EV.modifyAt g p x) x = false)
  | [], x, z, c, hd, h => by
      simp only [EV.at?, Option.some.injEq] at h; subst h
      exact ⟨fun h => h, fun h => h⟩
  | i :: p, x, z, c, hd, h => by
      simp only [EV.at?] at h
      cases hc : EV.child i x with
      | none => simp [hc] at h
      | some ch =>
        simp only [hc, Option.bind_some] at h
        obtain ⟨c', hd'⟩ := dom_child i x ch c hd hc
        have ih := sameEV_modifyAt g p ch z c' hd' h
        have st := sameEV_setChild (EV.modifyAt g p) i x ch c hd hc
        exact ⟨fun hh => st.1 (ih.1 hh), fun hh => st.2 (ih.2 hh)⟩

end EqSpec
end Stackage
