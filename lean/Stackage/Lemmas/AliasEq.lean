import Stackage.Model.Equal
import Stackage.Model.Alias
import Stackage.Lemmas.Alias

/-!
# `IsEqual` does not see alias forms (C12)

`Val.veq` (`valuesEqual` on two stack slots / condition expressions) looks at the form of a Stack or
Condition value in three places only, and in none of them can the form change the answer:

* a Stack / Condition on the right of a leaf on the left is handed to `reflect` as its handle struct
  (`Val.toEV`), which for a pointer form differs from the others in the *undereferenced* kind (`Side.ok`)
  only; that kind is consulted by `functionsEqual` / `channelsEqual` alone, never reached for a struct
  (`veq_struct_ok`);
* as an element of a `[]any` leaf on the right, a handle is a `reflect.Value` of Kind Interface, which
  `slicesEqual` never opens unless it holds a known primitive (`veq_iface_side`, `seqLoop_erase_right`,
  `veq_seq_side`);
* the same on the left (`scalarEq_iface_x`, `seqLoop_erase_left`).

So no hypothesis about `[]any` leaves is needed. The only hypothesis is about the user's equality
closure (`HookBlind`): the model hands it the native twins of receiver and argument, but their *elements*
keep their forms, so the closure's meaning must itself be form-blind.
-/

set_option linter.unusedSimpArgs false
set_option linter.unusedVariables false
namespace Stackage

namespace EV

/-! ## the right operand's undereferenced kind is irrelevant when it dereferences to a struct -/

theorem scalarEq_struct_ok (rv : Bool) (xd : Option EV) (xok : Kind) (t : Nat) (fs : List Fld) (vs : List EV) (k k' : Kind) :
    scalarEq rv xd xok ⟨some (.struct t fs vs), k⟩ = scalarEq rv xd xok ⟨some (.struct t fs vs), k'⟩ := by
  cases xd with
  | none => simp [scalarEq, matchExtra, Side.kind, kind]
  | some d => simp [scalarEq, matchExtra, Side.kind, kind]

theorem veq_struct_ok (t : Nat) (fs : List Fld) (vs : List EV) (k k' : Kind) : ∀ (x : EV) (rv sp : Bool),
    veq rv sp x ⟨some (.struct t fs vs), k⟩ = veq rv sp x ⟨some (.struct t fs vs), k'⟩
  | .ptr _ e, rv, sp => by simp only [veq]; exact veq_struct_ok t fs vs k k' e rv _
  | .iface e, rv, sp => by
      simp only [veq]
      split
      · rw [scalarEq_struct_ok]
      · exact veq_struct_ok t fs vs k k' e rv sp
  | .inil, rv, sp => by
      simp only [veq]
      split
      · rw [scalarEq_struct_ok]
      · simp only [Option.isNone_some, Bool.false_eq_true, ↓reduceIte]; rw [scalarEq_struct_ok]
  | .prim .., rv, sp => by simp only [veq]; rw [scalarEq_struct_ok]
  | .named .., rv, sp => by simp only [veq]; rw [scalarEq_struct_ok]
  | .uptr .., rv, sp => by simp only [veq]; rw [scalarEq_struct_ok]
  | .nilptr .., rv, sp => by simp only [veq]; rw [scalarEq_struct_ok]
  | .func .., rv, sp => by simp only [veq]; rw [scalarEq_struct_ok]
  | .chan .., rv, sp => by simp only [veq]; rw [scalarEq_struct_ok]
  | .seq .., rv, sp => by simp only [veq]
  | .map .., rv, sp => by simp only [veq]
  | .struct .., rv, sp => by simp only [veq]

/-! ## an interface-kinded right operand that holds no primitive is never opened -/

theorem scalarEq_iface_side (rv : Bool) (xd : Option EV) (xok : Kind) (e e' : EV)
    (he : isPrim (.iface e) = false) (he' : isPrim (.iface e') = false) :
    scalarEq rv xd xok ⟨some (.iface e), .iface⟩ = scalarEq rv xd xok ⟨some (.iface e'), .iface⟩ := by
  cases xd with
  | none => simp [scalarEq, matchExtra, Side.kind, kind]
  | some d => simp [scalarEq, matchExtra, Side.kind, kind, he, he']

theorem veq_iface_side (e e' : EV) (he : isPrim (.iface e) = false) (he' : isPrim (.iface e') = false) :
    ∀ (x : EV) (rv sp : Bool),
    veq rv sp x ⟨some (.iface e), .iface⟩ = veq rv sp x ⟨some (.iface e'), .iface⟩
  | .ptr _ x, rv, sp => by simp only [veq]; exact veq_iface_side e e' he he' x rv _
  | .iface x, rv, sp => by
      simp only [veq]
      split
      · rw [scalarEq_iface_side rv _ _ e e' he he']
      · exact veq_iface_side e e' he he' x rv sp
  | .inil, rv, sp => by
      simp only [veq]
      split
      · rw [scalarEq_iface_side rv _ _ e e' he he']
      · simp only [Option.isNone_some, Bool.false_eq_true, ↓reduceIte]; rw [scalarEq_iface_side rv _ _ e e' he he']
  | .prim .., rv, sp => by simp only [veq]; rw [scalarEq_iface_side rv _ _ e e' he he']
  | .named .., rv, sp => by simp only [veq]; rw [scalarEq_iface_side rv _ _ e e' he he']
  | .uptr .., rv, sp => by simp only [veq]; rw [scalarEq_iface_side rv _ _ e e' he he']
  | .nilptr .., rv, sp => by simp only [veq]; rw [scalarEq_iface_side rv _ _ e e' he he']
  | .func .., rv, sp => by simp only [veq]; rw [scalarEq_iface_side rv _ _ e e' he he']
  | .chan .., rv, sp => by simp only [veq]; rw [scalarEq_iface_side rv _ _ e e' he he']
  | .seq .., rv, sp => by simp only [veq]
  | .map .., rv, sp => by simp only [veq]
  | .struct .., rv, sp => by simp only [veq]

/-- … and the same on the left: as a `reflect.Value` of Kind Interface it only ever reaches `matchExtra`,
which answers by the right operand's kind -/
theorem scalarEq_iface_x (rv : Bool) (e e' : EV) (he : isPrim (.iface e) = false) (he' : isPrim (.iface e') = false)
    (y : Side) :
    scalarEq rv (some (.iface e)) .iface y = scalarEq rv (some (.iface e')) .iface y := by
  have hm : matchExtra rv (some (.iface e)) .iface y = matchExtra rv (some (.iface e')) .iface y := by
    unfold matchExtra
    cases y.kind <;> simp [functionsEqual, channelsEqual, uuptrsEqual, kind]
  unfold scalarEq
  cases y.d with
  | none => exact hm
  | some yd => simp only [he, he', Bool.false_eq_true, ↓reduceIte]; exact hm

end EV

open EV

/-! ## handle structs -/

theorem isPrim_iface_handle (b : Bool) (f : Form) : isPrim (.iface (handleStruct b f)) = false := by
  cases f <;> simp [handleStruct, handleCore, isPrim, unbox]

theorem sideVal_iface (e : EV) : sideVal (.iface e) = ⟨some (.iface e), .iface⟩ := by
  simp [sideVal, deref, kind]

theorem sideAny_handle (b : Bool) (f : Form) :
    sideAny (handleStruct b f) =
      ⟨some (.struct (if b then 201 else 200) [handleFld b] [.nilptr 0]), (match f with | .ptr => .ptr | _ => .struct)⟩ := by
  cases f <;> simp [handleStruct, handleCore, sideAny, unbox, deref, kind]

/-! ## `[]any` leaves: elements on the right -/

/-- one element of a `[]any` on the right, as `slicesEqual` sees it -/
theorem veq_anyElem_right (x : EV) (sp : Bool) (y : Val) :
    veq true sp x (sideVal (erase y).anyElem) = veq true sp x (sideVal y.anyElem) := by
  cases y with
  | stk f c zs =>
      simp only [erase, Val.anyElem, sideVal_iface]
      exact veq_iface_side _ _ (isPrim_iface_handle _ _) (isPrim_iface_handle _ _) x true sp
  | cnd f c kw op ex =>
      simp only [erase, Val.anyElem, sideVal_iface]
      exact veq_iface_side _ _ (isPrim_iface_handle _ _) (isPrim_iface_handle _ _) x true sp
  | anys zs => simp only [erase, Val.anyElem]
  | nil => rfl
  | leaf _ => rfl
  | zstk _ => rfl
  | zcnd _ => rfl
  | opv _ => rfl

theorem seqLoop_erase_right : ∀ (xs : List EV) (ys : List Val),
    seqLoop xs ((eraseList ys).map Val.anyElem) = seqLoop xs (ys.map Val.anyElem)
  | [], ys => by simp only [seqLoop]
  | x :: xs, [] => by simp only [eraseList, List.map_nil]
  | x :: xs, y :: ys => by
      simp only [eraseList, List.map_cons, seqLoop, veq_anyElem_right x false y, seqLoop_erase_right xs ys]

theorem scalarEq_seq_side (rv : Bool) (xd : Option EV) (xok : Kind) (a : Bool) (t c : Nat) (ys ys' : List EV) (k : Kind) :
    scalarEq rv xd xok ⟨some (.seq a t c ys), k⟩ = scalarEq rv xd xok ⟨some (.seq a t c ys'), k⟩ := by
  cases xd with
  | none => simp [scalarEq, matchExtra, Side.kind, kind]
  | some d => simp [scalarEq, matchExtra, Side.kind, kind, isPrim, unbox]

/-- a `[]any` leaf on the right whose elements have been erased -/
theorem veq_seq_side (a : Bool) (t c : Nat) (ys : List Val) (k : Kind) : ∀ (x : EV) (rv sp : Bool),
    veq rv sp x ⟨some (.seq a t c ((eraseList ys).map Val.anyElem)), k⟩ =
      veq rv sp x ⟨some (.seq a t c (ys.map Val.anyElem)), k⟩
  | .ptr _ x, rv, sp => by simp only [veq]; exact veq_seq_side a t c ys k x rv _
  | .iface x, rv, sp => by
      simp only [veq]
      split
      · rw [scalarEq_seq_side rv _ _ a t c _ (ys.map Val.anyElem)]
      · exact veq_seq_side a t c ys k x rv sp
  | .inil, rv, sp => by
      simp only [veq]
      split
      · rw [scalarEq_seq_side rv _ _ a t c _ (ys.map Val.anyElem)]
      · simp only [Option.isNone_some, Bool.false_eq_true, ↓reduceIte]
        rw [scalarEq_seq_side rv _ _ a t c _ (ys.map Val.anyElem)]
  | .prim .., rv, sp => by simp only [veq]; rw [scalarEq_seq_side rv _ _ a t c _ (ys.map Val.anyElem)]
  | .named .., rv, sp => by simp only [veq]; rw [scalarEq_seq_side rv _ _ a t c _ (ys.map Val.anyElem)]
  | .uptr .., rv, sp => by simp only [veq]; rw [scalarEq_seq_side rv _ _ a t c _ (ys.map Val.anyElem)]
  | .nilptr .., rv, sp => by simp only [veq]; rw [scalarEq_seq_side rv _ _ a t c _ (ys.map Val.anyElem)]
  | .func .., rv, sp => by simp only [veq]; rw [scalarEq_seq_side rv _ _ a t c _ (ys.map Val.anyElem)]
  | .chan .., rv, sp => by simp only [veq]; rw [scalarEq_seq_side rv _ _ a t c _ (ys.map Val.anyElem)]
  | .seq _ _ c0 xs, rv, sp => by
      simp only [veq, List.length_map, eraseList_length, seqLoop_erase_right]
  | .map .., rv, sp => by simp only [veq]
  | .struct .., rv, sp => by simp only [veq]

/-! ## `[]any` leaves: elements on the left -/

theorem veq_anyElem_left (x : Val) (y : Side) :
    veq true false (erase x).anyElem y = veq true false x.anyElem y := by
  cases x with
  | stk f c zs =>
      simp only [erase, Val.anyElem, veq, Bool.or_false, ↓reduceIte, xkind, Bool.not_true, Bool.false_and,
        Bool.false_eq_true, kind]
      rw [scalarEq_iface_x true _ _ (isPrim_iface_handle _ _) (isPrim_iface_handle _ _)]
  | cnd f c kw op ex =>
      simp only [erase, Val.anyElem, veq, Bool.or_false, ↓reduceIte, xkind, Bool.not_true, Bool.false_and,
        Bool.false_eq_true, kind]
      rw [scalarEq_iface_x true _ _ (isPrim_iface_handle _ _) (isPrim_iface_handle _ _)]
  | anys zs => simp only [erase, Val.anyElem]
  | nil => rfl
  | leaf _ => rfl
  | zstk _ => rfl
  | zcnd _ => rfl
  | opv _ => rfl

theorem seqLoop_erase_left : ∀ (xs : List Val) (ys : List EV),
    seqLoop ((eraseList xs).map Val.anyElem) ys = seqLoop (xs.map Val.anyElem) ys
  | [], ys => by simp only [eraseList, List.map_nil]
  | x :: xs, [] => by simp only [eraseList, List.map_cons, seqLoop]
  | x :: xs, y :: ys => by
      simp only [eraseList, List.map_cons, seqLoop, veq_anyElem_left x (sideVal y), seqLoop_erase_left xs ys]

/-! ## `leafVeq`: a leaf on the left -/

theorem erase_converts (y : Val) : (erase y).converts = y.converts := by
  unfold Val.converts; rw [erase_isStack, erase_isCond]

/-- the right operand of a leaf may be erased -/
theorem leafVeq_erase_right (xe : EV) (y : Val) : leafVeq xe (erase y) = leafVeq xe y := by
  unfold leafVeq
  rw [erase_converts]
  split
  · rfl
  · cases y with
    | stk f c ys =>
        simp only [erase, Val.toEV, sideAny_handle]
        exact veq_struct_ok _ _ _ _ _ xe false false
    | cnd f c kw op ex =>
        simp only [erase, Val.toEV, sideAny_handle]
        exact veq_struct_ok _ _ _ _ _ xe false false
    | anys ys =>
        simp only [erase, Val.toEV, sideAny, unbox, deref, kind, eraseList_length]
        exact veq_seq_side _ _ _ ys _ xe false false
    | nil => rfl
    | leaf _ => rfl
    | zstk _ => rfl
    | zcnd _ => rfl
    | opv _ => rfl

/-- a `[]any` leaf on the left may be erased -/
theorem leafVeq_anys_left (xs : List Val) (y : Val) :
    leafVeq (Val.toEV (.anys (eraseList xs))) y = leafVeq (Val.toEV (.anys xs)) y := by
  unfold leafVeq
  have hs : ∀ zs : List Val, isStructAny (Val.toEV (.anys zs)) = false := by
    intro zs; simp [isStructAny, Val.toEV, sideAny, unbox, deref]
  simp only [hs, Bool.false_and, Bool.false_eq_true, ↓reduceIte]
  simp only [Val.toEV, veq, List.length_map, eraseList_length, seqLoop_erase_left]

/-! ## the hook -/

/-- The user's equality closure cannot tell alias forms apart. In Go the closure is handed the two native
instances (`ist`, `jst` after conversion); whatever it does with them — `String()`, `Index`, `IsEqual`,
`Traverse`, … — is covered by the other clauses of C12. (A closure that type-switches on an element is
outside the property: it sees a different dynamic type, as any Go code would.) -/
def HookBlind (hook : EqHook) : Prop := ∀ (p : Nat) (a b : Val), hook p (erase a) (erase b) = hook p a b

/-! ## `Val.veq` and the slot loop -/

mutual
theorem Val.veq_erase (hook : EqHook) (hh : HookBlind hook) : ∀ (x y : Val),
    Val.veq hook (erase x) (erase y) = Val.veq hook x y
  | .stk f c xs, y => by
      cases y with
      | stk f' c' ys =>
          simp only [erase, Val.veq, eraseList_length]
          cases c.eqf with
          | some p =>
              have := hh p (.stk .native c xs) (.stk .native c' ys)
              simp only [erase] at this
              simp only [this]
          | none => simp only [stkLoop_erase hook hh xs ys]
      | cnd _ _ _ _ _ => simp only [erase, Val.veq]
      | anys _ => simp only [erase, Val.veq]
      | nil => simp only [erase, Val.veq]
      | leaf _ => simp only [erase, Val.veq]
      | zstk _ => simp only [erase, Val.veq]
      | zcnd _ => simp only [erase, Val.veq]
      | opv _ => simp only [erase, Val.veq]
  | .cnd f c kw op ex, y => by
      cases y with
      | cnd f' c' kw' op' ex' =>
          simp only [erase, Val.veq]
          split
          · rfl
          · cases c.eqf with
            | some p =>
                have := hh p (.cnd .native c kw op ex) (.cnd .native c' kw' op' ex')
                simp only [erase] at this
                simp only [this]
            | none => simp only [Val.veq_erase hook hh ex ex']
      | stk _ _ _ => simp only [erase, Val.veq]
      | anys _ => simp only [erase, Val.veq]
      | nil => simp only [erase, Val.veq]
      | leaf _ => simp only [erase, Val.veq]
      | zstk _ => simp only [erase, Val.veq]
      | zcnd _ => simp only [erase, Val.veq]
      | opv _ => simp only [erase, Val.veq]
  | .nil, y => by simp only [erase, Val.veq]; exact leafVeq_erase_right _ y
  | .leaf l, y => by simp only [erase, Val.veq]; exact leafVeq_erase_right _ y
  | .zstk f, y => by simp only [erase, Val.veq]; exact leafVeq_erase_right _ y
  | .zcnd f, y => by simp only [erase, Val.veq]; exact leafVeq_erase_right _ y
  | .opv o, y => by simp only [erase, Val.veq]; exact leafVeq_erase_right _ y
  | .anys xs, y => by
      simp only [erase, Val.veq]
      rw [leafVeq_erase_right]
      exact leafVeq_anys_left xs y

theorem stkLoop_erase (hook : EqHook) (hh : HookBlind hook) : ∀ (xs ys : List Val),
    stkLoop hook (eraseList xs) (eraseList ys) = stkLoop hook xs ys
  | [], ys => by simp only [eraseList, stkLoop]
  | x :: xs, [] => by simp only [eraseList, stkLoop]
  | x :: xs, y :: ys => by
      simp only [eraseList, stkLoop, Val.veq_erase hook hh x y, stkLoop_erase hook hh xs ys]
end

/-! ## the exported `IsEqual` -/

theorem Val.IsEqual_erase (hook : EqHook) (hh : HookBlind hook) (same : Bool) (a b : Val) :
    Val.IsEqual hook same (erase a) (erase b) = Val.IsEqual hook same a b := by
  cases a with
  | stk f c xs =>
      cases b with
      | stk f' c' ys =>
          simp only [erase, Val.IsEqual, eraseList_length]
          cases c.eqf with
          | some p =>
              have h1 := hh p (.stk .native c xs) (.stk f' c' ys)
              simp only [erase] at h1
              simp only [h1]
          | none => simp only [stkLoop_erase hook hh xs ys]
      | cnd _ _ _ _ _ => simp only [erase, Val.IsEqual]
      | anys _ => simp only [erase, Val.IsEqual]
      | nil => simp only [erase, Val.IsEqual]
      | leaf _ => simp only [erase, Val.IsEqual]
      | zstk _ => simp only [erase, Val.IsEqual]
      | zcnd _ => simp only [erase, Val.IsEqual]
      | opv _ => simp only [erase, Val.IsEqual]
  | cnd f c kw op ex =>
      simp only [erase, Val.IsEqual]
      split
      · rfl
      · cases b with
        | cnd f' c' kw' op' ex' =>
            simp only [erase]
            cases c.eqf with
            | some p =>
                have h1 := hh p (.cnd .native c kw op ex) (.cnd f' c' kw' op' ex')
                simp only [erase] at h1
                simp only [h1]
            | none => simp only [Val.veq_erase hook hh ex ex']
        | stk _ _ _ => simp only [erase]
        | anys _ => simp only [erase]
        | nil => simp only [erase]
        | leaf _ => simp only [erase]
        | zstk _ => simp only [erase]
        | zcnd _ => simp only [erase]
        | opv _ => simp only [erase]
  | zstk f => simp only [erase, Val.IsEqual]
  | zcnd f => simp only [erase, Val.IsEqual]
  | nil => simp only [erase, Val.IsEqual]
  | leaf _ => simp only [erase, Val.IsEqual]
  | anys _ => simp only [erase, Val.IsEqual]
  | opv _ => simp only [erase, Val.IsEqual]

/-! ## without equality policies on the receiver's side the hook is never consulted -/

mutual
/-- no EqualityPolicy is installed at any Stack / Condition node of the tree (the elements of a `[]any` leaf are
never compared through `IsEqual`, so they do not count) -/
def noEqPolicy : Val → Bool
  | .stk _ c xs => c.eqf.isNone && noEqPolicyL xs
  | .cnd _ c _ _ ex => c.eqf.isNone && noEqPolicy ex
  | _ => true
def noEqPolicyL : List Val → Bool
  | [] => true
  | x :: r => noEqPolicy x && noEqPolicyL r
end

mutual
theorem noEqPolicy_erase : ∀ v : Val, noEqPolicy (erase v) = noEqPolicy v
  | .stk f c xs => by simp only [erase, noEqPolicy, noEqPolicyL_erase xs]
  | .cnd f c kw op ex => by simp only [erase, noEqPolicy, noEqPolicy_erase ex]
  | .anys xs => by simp only [erase, noEqPolicy]
  | .nil => rfl
  | .leaf _ => rfl
  | .zstk _ => rfl
  | .zcnd _ => rfl
  | .opv _ => rfl
theorem noEqPolicyL_erase : ∀ xs : List Val, noEqPolicyL (eraseList xs) = noEqPolicyL xs
  | [] => rfl
  | x :: r => by simp only [eraseList, noEqPolicyL, noEqPolicy_erase x, noEqPolicyL_erase r]
end

mutual
theorem Val.veq_hook_irrel (h h' : EqHook) : ∀ (x y : Val), noEqPolicy x = true → Val.veq h x y = Val.veq h' x y
  | .stk f c xs, y, hx => by
      simp only [noEqPolicy, Bool.and_eq_true, Option.isNone_iff_eq_none] at hx
      cases y with
      | stk f' c' ys => simp only [Val.veq, hx.1, stkLoop_hook_irrel h h' xs ys hx.2]
      | cnd _ _ _ _ _ => simp only [Val.veq]
      | anys _ => simp only [Val.veq]
      | nil => simp only [Val.veq]
      | leaf _ => simp only [Val.veq]
      | zstk _ => simp only [Val.veq]
      | zcnd _ => simp only [Val.veq]
      | opv _ => simp only [Val.veq]
  | .cnd f c kw op ex, y, hx => by
      simp only [noEqPolicy, Bool.and_eq_true, Option.isNone_iff_eq_none] at hx
      cases y with
      | cnd f' c' kw' op' ex' => simp only [Val.veq, hx.1, Val.veq_hook_irrel h h' ex ex' hx.2]
      | stk _ _ _ => simp only [Val.veq]
      | anys _ => simp only [Val.veq]
      | nil => simp only [Val.veq]
      | leaf _ => simp only [Val.veq]
      | zstk _ => simp only [Val.veq]
      | zcnd _ => simp only [Val.veq]
      | opv _ => simp only [Val.veq]
  | .nil, y, _ => by simp only [Val.veq]
  | .leaf l, y, _ => by simp only [Val.veq]
  | .zstk f, y, _ => by simp only [Val.veq]
  | .zcnd f, y, _ => by simp only [Val.veq]
  | .opv o, y, _ => by simp only [Val.veq]
  | .anys xs, y, _ => by simp only [Val.veq]
theorem stkLoop_hook_irrel (h h' : EqHook) : ∀ (xs ys : List Val), noEqPolicyL xs = true →
    stkLoop h xs ys = stkLoop h' xs ys
  | [], ys, _ => by simp only [stkLoop]
  | x :: xs, [], _ => by simp only [stkLoop]
  | x :: xs, y :: ys, hx => by
      simp only [noEqPolicyL, Bool.and_eq_true] at hx
      simp only [stkLoop, Val.veq_hook_irrel h h' x y hx.1, stkLoop_hook_irrel h h' xs ys hx.2]
end

theorem Val.IsEqual_hook_irrel (h h' : EqHook) (same : Bool) (a b : Val) (ha : noEqPolicy a = true) :
    Val.IsEqual h same a b = Val.IsEqual h' same a b := by
  cases a with
  | stk f c xs =>
      simp only [noEqPolicy, Bool.and_eq_true, Option.isNone_iff_eq_none] at ha
      cases b <;> simp only [Val.IsEqual, ha.1, stkLoop_hook_irrel h h' xs _ ha.2]
  | cnd f c kw op ex =>
      simp only [noEqPolicy, Bool.and_eq_true, Option.isNone_iff_eq_none] at ha
      cases b <;> simp only [Val.IsEqual, ha.1, Val.veq_hook_irrel h h' ex _ ha.2]
  | zstk f => simp only [Val.IsEqual]
  | zcnd f => simp only [Val.IsEqual]
  | nil => simp only [Val.IsEqual]
  | leaf _ => simp only [Val.IsEqual]
  | anys _ => simp only [Val.IsEqual]
  | opv _ => simp only [Val.IsEqual]

theorem hookBlind_const (r : Option ErrClass) : HookBlind (fun _ _ _ => r) := fun _ _ _ => rfl

/-- with no EqualityPolicy in the receiver's tree, every hook will do -/
theorem Val.IsEqual_erase_noPolicy (hook : EqHook) (same : Bool) (a b : Val) (ha : noEqPolicy a = true) :
    Val.IsEqual hook same (erase a) (erase b) = Val.IsEqual hook same a b := by
  rw [Val.IsEqual_hook_irrel hook (fun _ _ _ => none) same (erase a) (erase b) (by rw [noEqPolicy_erase]; exact ha),
    Val.IsEqual_hook_irrel hook (fun _ _ _ => none) same a b ha]
  exact Val.IsEqual_erase _ (hookBlind_const none) same a b

end Stackage
