import Stackage.Lemmas.Bits
import Stackage.Spec.OptLink

/-!
# Helper lemmas for C18: the option word through `Cfg.positive`, and the specification record
-/

set_option linter.unusedSimpArgs false
namespace Stackage
open OptSpec

/-- every regenerated flag is a single bit below 16 -/
theorem flags_pow : ∀ f ∈ Gen.allFlags, ∃ i, i < 16 ∧ f = 2 ^ i := by decide

theorem two_pow_inj {i j : Nat} : (2 : Nat) ^ i = 2 ^ j ↔ i = j :=
  Nat.pow_right_inj (by decide)

namespace Cfg

theorem positive_eq (c : Cfg) (hv : c.valid = true) (i : Nat) : c.positive (2 ^ i) = c.opt.testBit i := by
  unfold positive; rw [hv, Bits.positive_two_pow]; simp

theorem setOpt_valid (c : Cfg) (f : Nat) : (c.setOpt f).valid = c.valid := by
  unfold setOpt; split <;> rfl
theorem unsetOpt_valid (c : Cfg) (f : Nat) : (c.unsetOpt f).valid = c.valid := by
  unfold unsetOpt; split <;> rfl
theorem toggleOpt_valid (c : Cfg) (f : Nat) : (c.toggleOpt f).valid = c.valid := by
  unfold toggleOpt; split <;> rfl

theorem positive_setOpt (c : Cfg) (hv : c.valid = true) (i j : Nat) :
    (c.setOpt (2 ^ i)).positive (2 ^ j) = (c.positive (2 ^ j) || decide (i = j)) := by
  rw [positive_eq _ (by rw [setOpt_valid]; exact hv), positive_eq c hv]
  unfold setOpt; rw [if_pos hv]; exact Bits.testBit_shift _ _ _

theorem positive_unsetOpt (c : Cfg) (hv : c.valid = true) (i j : Nat) (hj : j < 16) :
    (c.unsetOpt (2 ^ i)).positive (2 ^ j) = (c.positive (2 ^ j) && !decide (i = j)) := by
  rw [positive_eq _ (by rw [unsetOpt_valid]; exact hv), positive_eq c hv]
  unfold unsetOpt; rw [if_pos hv]; exact Bits.testBit_unshift _ _ _ hj

theorem positive_toggleOpt (c : Cfg) (hv : c.valid = true) (i j : Nat) (hj : j < 16) :
    (c.toggleOpt (2 ^ i)).positive (2 ^ j) = (if i = j then !c.positive (2 ^ j) else c.positive (2 ^ j)) := by
  rw [positive_eq _ (by rw [toggleOpt_valid]; exact hv), positive_eq c hv]
  unfold toggleOpt; rw [if_pos hv]; exact Bits.testBit_toggle _ _ _ hj

/-- the public tri-state setter on a single flag, bit by bit -/
theorem positive_setState (c : Cfg) (hv : c.valid = true) (i j : Nat) (hj : j < 16) (st : Option Bool)
    (hro : c.readOnly = false ∨ 2 ^ i = Gen.flag_ronly) :
    (c.setState (2 ^ i) st).positive (2 ^ j) = (if j = i then st.getD (!c.positive (2 ^ i)) else c.positive (2 ^ j)) := by
  have hg : (!c.positive Gen.flag_ronly || 2 ^ i == Gen.flag_ronly) = true := by
    rcases hro with h | h
    · unfold readOnly at h; simp [h]
    · simp [h]
  unfold setState; rw [if_pos hg]
  by_cases hij : j = i
  · subst hij
    cases st with
    | none => simp [positive_toggleOpt c hv j j hj]
    | some b => cases b <;> simp [positive_setOpt c hv, positive_unsetOpt c hv j j hj]
  · have hji : ¬ i = j := fun h => hij h.symm
    cases st with
    | none => simp [positive_toggleOpt c hv i j hj, hij, hji]
    | some b => cases b <;> simp [positive_setOpt c hv, positive_unsetOpt c hv i j hj, hij, hji]

theorem setState_blocked (c : Cfg) (f : Nat) (st : Option Bool) (hro : c.readOnly = true) (hf : f ≠ Gen.flag_ronly) :
    c.setState f st = c := by
  unfold readOnly at hro
  unfold setState; rw [if_neg]; simp [hro, hf]

/-- a tri-state setter writes nothing but the option word -/
theorem setState_frame (c : Cfg) (f : Nat) (st : Option Bool) : { c.setState f st with opt := c.opt } = c := by
  unfold setState setOpt unsetOpt toggleOpt
  cases c; cases st with
  | none => dsimp only; split <;> (try split) <;> rfl
  | some b => cases b <;> dsimp only <;> split <;> (try split) <;> rfl

theorem setState_kind (c : Cfg) (f : Nat) (st : Option Bool) : (c.setState f st).kind = c.kind := by
  have := congrArg Cfg.kind (setState_frame c f st); simpa using this

end Cfg

namespace OptSpec

theorem Opt.flag_pow (o : Opt) : ∃ i, i < 16 ∧ o.flag = 2 ^ i := by
  cases o
  · exact ⟨0, by decide, by decide⟩
  · exact ⟨1, by decide, by decide⟩
  · exact ⟨2, by decide, by decide⟩
  · exact ⟨3, by decide, by decide⟩
  · exact ⟨4, by decide, by decide⟩
  · exact ⟨5, by decide, by decide⟩
  · exact ⟨8, by decide, by decide⟩
  · exact ⟨7, by decide, by decide⟩

theorem Opt.flag_mem (o : Opt) : o.flag ∈ Gen.allFlags := by cases o <;> decide

theorem Opt.flag_inj (o o' : Opt) : o.flag = o'.flag ↔ o = o' := by cases o <;> cases o' <;> decide

theorem abs_get (c : Cfg) (o : Opt) : (abs c).get o = c.positive o.flag := by cases o <;> rfl

theorem get_put (s : St) (o o' : Opt) (b : Bool) : (s.put o b).get o' = if o' = o then b else s.get o' := by
  cases o <;> cases o' <;> simp [St.put, St.get]

/-- switching one option leaves every other setting alone -/
theorem put_rest (s : St) (o : Opt) (b : Bool) :
    (s.put o b).fifo = s.fifo ∧ (s.put o b).isList = s.isList ∧ (s.put o b).sym = s.sym ∧ (s.put o b).delim = s.delim ∧
    (s.put o b).enc = s.enc ∧ (s.put o b).id = s.id ∧ (s.put o b).cat = s.cat ∧ (s.put o b).aux = s.aux ∧ (s.put o b).lvl = s.lvl := by
  cases o <;> exact ⟨rfl, rfl, rfl, rfl, rfl, rfl, rfl, rfl, rfl⟩

theorem put_ronly (s : St) (o : Opt) (b : Bool) (h : o ≠ .ronly) : (s.put o b).ronly = s.ronly := by
  cases o <;> first | rfl | exact absurd rfl h

theorem step_state (s : St) (o : Opt) (st : Option Bool) :
    step s (.state o st) = if s.ronly && o != .ronly then s else s.put o (st.getD (!s.get o)) := rfl
theorem step_fifo (s : St) (b : Bool) : step s (.fifo b) = unlessRO s (if s.fifo then s else { s with fifo := b }) := rfl
theorem step_id (s : St) (x g : Text) : step s (.id x g) = unlessRO s { s with id := if Cfg.isMagicID x then g else x } := rfl
theorem step_cat (s : St) (x : Text) : step s (.cat x) = unlessRO s { s with cat := x } := rfl
theorem step_delim (s : St) (x : Cfg.StrArg) :
    step s (.delim x) = unlessRO s (if s.isList then { s with delim := delimOf x } else s) := rfl
theorem step_sym (s : St) (xs : List Cfg.StrArg) :
    step s (.sym xs) = unlessRO s (if s.isList then s else { s with sym := (xs.map strOf).foldr (· ++ ·) [] }) := rfl
theorem step_enc (s : St) (xs : List Cfg.EncArg) :
    step s (.enc xs) = unlessRO s (if xs.isEmpty then { s with enc := [] } else { s with enc := xs.foldl encArg s.enc }) := rfl
theorem step_lvlSet (s : St) (xs : List LogLevel.Arg) : step s (.lvlSet xs) = unlessRO s { s with lvl := setLevels s.lvl xs } := rfl
theorem step_lvlUnset (s : St) (xs : List LogLevel.Arg) : step s (.lvlUnset xs) = unlessRO s { s with lvl := unsetLevels s.lvl xs } := rfl

/-- two specification states agree when every switch and every other setting agrees -/
theorem St.ext' (s t : St) (hg : ∀ o, s.get o = t.get o) (h1 : s.fifo = t.fifo) (h2 : s.isList = t.isList) (h3 : s.sym = t.sym)
    (h4 : s.delim = t.delim) (h5 : s.enc = t.enc) (h6 : s.id = t.id) (h7 : s.cat = t.cat) (h8 : s.aux = t.aux) (h9 : s.lvl = t.lvl) :
    s = t := by
  have a1 := hg .paren; have a2 := hg .fold; have a3 := hg .nopad; have a4 := hg .lonce
  have a5 := hg .neg; have a6 := hg .fwd; have a7 := hg .nnest; have a8 := hg .ronly
  cases s; cases t
  simp only [St.get] at a1 a2 a3 a4 a5 a6 a7 a8
  simp_all

/-! ### the string-valued settings: model function = specification function -/

theorem delim_eq (x : Cfg.StrArg) : Cfg.assertListDelimiter x = delimOf x := by
  cases x with
  | rune r => by_cases h : r = 0 <;> simp [Cfg.assertListDelimiter, delimOf, h]
  | _ => rfl

theorem symbol_eq (xs : List Cfg.StrArg) : Cfg.symbolOf xs = (xs.map strOf).foldr (· ++ ·) [] := by
  induction xs with
  | nil => rfl
  | cons x rest ih => cases x <;> simp [Cfg.symbolOf, strOf, ih]

theorem encSlice_eq (enc : List (List Text)) (x : List Text) : Cfg.encSlice enc x = addGroup enc x := by
  match x with
  | [] => simp [Cfg.encSlice, addGroup]
  | [a] => simp [Cfg.encSlice, addGroup, clashes, Cfg.encInUse]
  | a :: b :: rest => simp [Cfg.encSlice, addGroup, clashes, Cfg.encInUse]

theorem encStep_eq : Cfg.encStep = encArg := by
  funext enc a; cases a <;> simp [Cfg.encStep, encArg, encSlice_eq]

theorem guarded_abs (c : Cfg) (f : Cfg → Cfg) : abs (c.guarded f) = unlessRO (abs c) (abs (f c)) := by
  unfold Cfg.guarded unlessRO
  have : (abs c).ronly = c.readOnly := rfl
  rw [this]; split <;> rfl

end OptSpec
end Stackage
