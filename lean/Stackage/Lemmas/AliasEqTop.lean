import Stackage.Lemmas.AliasEq

/-!
# `IsEqual` and alias forms when an EqualityPolicy looks at the type of what it is handed (C12)

`HookBlind` (Lemmas/AliasEq) asks the user's closure to be blind to every form. A closure that type-asserts its
arguments (`peer.(stackage.Stack)`) is not: at the top level `Stack.IsEqual(o)` hands it `o` as the caller passed
it. For NESTED nodes, however, `stackageStructsEqual` converts both sides first, so such a closure always sees
native instances there. `HookBelow` is the weaker hypothesis that fits: the closure may look at the form of the
two values it is handed, but not at the forms of what they contain. Under it, a receiver that carries no policy
of its own compares alike with an alias tree and with its native twin, whatever policies sit on nested nodes
(seeded change C12-15 hands nested closures the unconverted peer and is caught by the alias stream with the
harness's policy 3, `Driver.interpEq 3`, which satisfies `HookBelow` and not `HookBlind`).
-/

set_option linter.unusedSimpArgs false
set_option linter.unusedVariables false
namespace Stackage

/-- native twins of everything BELOW the top node; the top node keeps its form -/
def eraseBelow : Val → Val
  | .stk f c xs => .stk f c (eraseList xs)
  | .cnd f c kw op ex => .cnd f c kw op (erase ex)
  | v => erase v

/-- the closure may tell the forms of the two values it is handed, not the forms of their content -/
def HookBelow (hook : EqHook) : Prop := ∀ (p : Nat) (a b : Val), hook p (eraseBelow a) (eraseBelow b) = hook p a b

mutual
theorem Val.veq_eraseTop (hook : EqHook) (hh : HookBelow hook) : ∀ (x y : Val),
    Val.veq hook (erase x) (erase y) = Val.veq hook x y
  | .stk f c xs, y => by
      cases y with
      | stk f' c' ys =>
          simp only [erase, Val.veq, eraseList_length]
          cases c.eqf with
          | some p =>
              have := hh p (.stk .native c xs) (.stk .native c' ys)
              simp only [eraseBelow] at this
              simp only [this]
          | none => simp only [stkLoop_eraseTop hook hh xs ys]
      | cnd _ _ _ _ _ => simp only [erase, Val.veq]
      | anys _ => simp only [erase, Val.veq]
      | nil => simp only [erase, Val.veq]
      | leaf _ => simp only [erase, Val.veq]
      | zstk _ => simp only [erase, Val.veq]
      | zcnd _ => simp only [erase, Val.veq]
      | opv _ => simp only [erase, Val.veq]
  | .cnd f c kw op ex, y => by
      cases y with
      | cnd f' c' kw' op' ex' =>
          simp only [erase, Val.veq]
          split
          · rfl
          · cases c.eqf with
            | some p =>
                have := hh p (.cnd .native c kw op ex) (.cnd .native c' kw' op' ex')
                simp only [eraseBelow] at this
                simp only [this]
            | none => simp only [Val.veq_eraseTop hook hh ex ex']
      | stk _ _ _ => simp only [erase, Val.veq]
      | anys _ => simp only [erase, Val.veq]
      | nil => simp only [erase, Val.veq]
      | leaf _ => simp only [erase, Val.veq]
      | zstk _ => simp only [erase, Val.veq]
      | zcnd _ => simp only [erase, Val.veq]
      | opv _ => simp only [erase, Val.veq]
  | .nil, y => by simp only [erase, Val.veq]; exact leafVeq_erase_right _ y
  | .leaf l, y => by simp only [erase, Val.veq]; exact leafVeq_erase_right _ y
  | .zstk f, y => by simp only [erase, Val.veq]; exact leafVeq_erase_right _ y
  | .zcnd f, y => by simp only [erase, Val.veq]; exact leafVeq_erase_right _ y
  | .opv o, y => by simp only [erase, Val.veq]; exact leafVeq_erase_right _ y
  | .anys xs, y => by
      simp only [erase, Val.veq]
      rw [leafVeq_erase_right]
      exact leafVeq_anys_left xs y

theorem stkLoop_eraseTop (hook : EqHook) (hh : HookBelow hook) : ∀ (xs ys : List Val),
    stkLoop hook (eraseList xs) (eraseList ys) = stkLoop hook xs ys
  | [], ys => by simp only [eraseList, stkLoop]
  | x :: xs, [] => by simp only [eraseList, stkLoop]
  | x :: xs, y :: ys => by
      simp only [eraseList, stkLoop, Val.veq_eraseTop hook hh x y, stkLoop_eraseTop hook hh xs ys]
end


/-- the exported `IsEqual` of a receiver that carries no EqualityPolicy itself (nested nodes may) -/
theorem Val.IsEqual_eraseTop (hook : EqHook) (hh : HookBelow hook) (same : Bool) (a b : Val)
    (ha : (match a with | .stk _ c _ => c.eqf | .cnd _ c _ _ _ => c.eqf | _ => none) = none) :
    Val.IsEqual hook same (erase a) (erase b) = Val.IsEqual hook same a b := by
  cases a with
  | stk f c xs =>
      simp only at ha
      cases b with
      | stk f' c' ys => simp only [erase, Val.IsEqual, eraseList_length, ha, stkLoop_eraseTop hook hh xs ys]
      | cnd _ _ _ _ _ => simp only [erase, Val.IsEqual]
      | anys _ => simp only [erase, Val.IsEqual]
      | nil => simp only [erase, Val.IsEqual]
      | leaf _ => simp only [erase, Val.IsEqual]
      | zstk _ => simp only [erase, Val.IsEqual]
      | zcnd _ => simp only [erase, Val.IsEqual]
      | opv _ => simp only [erase, Val.IsEqual]
  | cnd f c kw op ex =>
      simp only at ha
      simp only [erase, Val.IsEqual]
      split
      · rfl
      · cases b with
        | cnd f' c' kw' op' ex' => simp only [erase, ha, Val.veq_eraseTop hook hh ex ex']
        | stk _ _ _ => simp only [erase]
        | anys _ => simp only [erase]
        | nil => simp only [erase]
        | leaf _ => simp only [erase]
        | zstk _ => simp only [erase]
        | zcnd _ => simp only [erase]
        | opv _ => simp only [erase]
  | zstk f => simp only [erase, Val.IsEqual]
  | zcnd f => simp only [erase, Val.IsEqual]
  | nil => simp only [erase, Val.IsEqual]
  | leaf _ => simp only [erase, Val.IsEqual]
  | anys _ => simp only [erase, Val.IsEqual]
  | opv _ => simp only [erase, Val.IsEqual]

end Stackage
