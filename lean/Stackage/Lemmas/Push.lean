import Stackage.Lemmas.Ops

/-! Lemmas about `push` in all its forms (generic, policy, element-wise as used by Transfer). -/

set_option linter.unusedSimpArgs false
namespace Stackage
open ListSpec

namespace Stk

theorem opts_room_cfg (s : Stk) (c : Cfg) (h : c.cap = s.cfg.cap) :
    ({ s with cfg := c } : Stk).opts.room = s.opts.room := by
  unfold opts rawLen; simp [h]

theorem isFull_cfg (s : Stk) (c : Cfg) (h : c.cap = s.cfg.cap) :
    ({ s with cfg := c } : Stk).isFull = s.isFull := by
  unfold isFull rawLen; simp [h]

/-- `methodAppend` refines `pushPol` -/
theorem methodAppend_spec (pol : Val → Option Nat) (vs : List Val) : ∀ (s : Stk), s.WF →
    SmallLen (s.xs.length + vs.length) →
    (s.methodAppend pol vs).xs = s.xs ++ (pushPol pol s.opts.room vs).1 ∧
    (s.methodAppend pol vs).cfg =
      (match (pushPol pol s.opts.room vs).2 with
       | some e => { s.cfg with err := some e }
       | none => s.cfg) ∧
    (s.methodAppend pol vs).WF := by
  induction vs with
  | nil => intro s hwf _; simp [methodAppend, pushPol, hwf]
  | cons x rest ih =>
    intro s hwf hs
    have hs' : SmallLen (s.xs.length + rest.length) := by
      unfold SmallLen at *; simp only [List.length_cons] at hs; omega
    have hroom := isFull_iff s hwf
    unfold methodAppend
    by_cases hfull : s.isFull = true
    · rw [hfull] at hroom
      have hr0 : s.opts.room = some 0 := by
        cases hr : s.opts.room with
        | none => simp [hr] at hroom
        | some r => cases r with
          | zero => rfl
          | succ k => simp [hr] at hroom
      simp only [hfull, Bool.not_true, Bool.false_eq_true, ↓reduceIte]
      obtain ⟨a, b, c⟩ := ih s hwf hs'
      have hrest : pushPol pol (some 0) rest = ([], none) := by
        cases rest <;> simp [pushPol]
      rw [hr0] at a b
      rw [hrest] at a b
      refine ⟨by rw [a, hr0]; simp [pushPol], by rw [b, hr0]; simp [pushPol], c⟩
    · have hfull' : s.isFull = false := by simpa using hfull
      rw [hfull'] at hroom
      have hrne : (s.opts.room == some 0) = false := by
        cases hr : s.opts.room with
        | none => rfl
        | some r => cases r with
          | zero => simp [hr] at hroom
          | succ k => rfl
      simp only [hfull', Bool.not_false, ↓reduceIte]
      cases hp : pol x with
      | some e =>
        simp only [pushPol, hrne, Bool.false_eq_true, ↓reduceIte, hp, List.append_nil, true_and]
        constructor
        · exact hwf.small
        · exact hwf.capOk
      | none =>
        have hwf1 := wf_append s x hwf (by unfold SmallLen at *; simp only [List.length_cons] at hs; omega) hfull'
        have hs1 : SmallLen (({ s with xs := s.xs ++ [x] } : Stk).xs.length + rest.length) := by
          unfold SmallLen at *; simp only [List.length_cons, List.length_append, List.length_nil] at *; omega
        obtain ⟨a, b, c⟩ := ih _ hwf1 hs1
        rw [opts_append_room s x hwf hfull'] at a b
        simp only [pushPol, hrne, Bool.false_eq_true, ↓reduceIte, hp]
        refine ⟨by rw [a]; simp, by rw [b], c⟩

/-- any push of a single value either leaves the elements alone or appends exactly that value;
the capacity field is never touched and well-formedness is kept -/
theorem push_single (interp : Nat → Val → Option Nat) (s : Stk) (v : Val) (hwf : s.WF)
    (hs : SmallLen (s.xs.length + 1)) :
    ((s.push interp [v]).xs = s.xs ∨ (s.push interp [v]).xs = s.xs ++ [v]) ∧
    (s.push interp [v]).cfg.cap = s.cfg.cap ∧ (s.push interp [v]).WF := by
  unfold push
  cases hp : s.cfg.ppf with
  | none =>
    obtain ⟨c, x, w⟩ := genericAppend_spec [v] s hwf (by simpa using hs)
    refine ⟨?_, by rw [c], w⟩
    rw [x]
    simp only [List.filter_cons, List.filter_nil]
    split
    · cases s.opts.room with
      | none => right; simp [takeRoom]
      | some r => cases r with
        | zero => left; simp [takeRoom]
        | succ k => right; simp [takeRoom]
    · left; cases s.opts.room <;> simp [takeRoom]
  | some p =>
    simp only [List.filter_cons, List.filter_nil]
    cases hc : s.canPushNester v with
    | false => simpa [methodAppend] using hwf
    | true =>
      simp only [↓reduceIte]
      obtain ⟨a, b, c⟩ := methodAppend_spec (interp p) [v] s hwf (by simpa using hs)
      refine ⟨?_, ?_, c⟩
      · rw [a]
        simp only [pushPol]
        split
        · left; simp
        · split
          · left; simp
          · right; simp
      · rw [b]; split <;> rfl

end Stk
end Stackage
