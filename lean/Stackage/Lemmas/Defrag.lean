import Stackage.Lemmas.Index
import Stackage.Spec.DefragSpec

/-!
# Lemmas for C19: the Defrag model in closed form

* the scan (`scanPat`, `firstGap`) in terms of the nil pattern of the list,
* `implodeLoop` = `walk` (a structural recursion over the not-yet-visited suffix) — including the
  proof that the fuel `implodeFuel` suffices, i.e. the Go loop terminates,
* what `walk` and `verifyImplode` compute.
-/

set_option linter.unusedSimpArgs false
set_option linter.unusedVariables false
namespace Stackage
open ListSpec DefragSpec
namespace Stk

/-! ## raw access at natural-number positions -/

theorem rawSet_succ (s : Stk) (p : Nat) (x : Val) (hp : p < s.xs.length) :
    s.rawSet ((p : Int) + 1) x = .ok { s with xs := s.xs.set p x } := by
  unfold rawSet rawLen
  have h1 : ¬ (((p:Int) + 1 < 0) ∨ ((p:Int) + 1 ≥ (s.xs.length:Int) + 1)) := by omega
  have h2 : ¬ ((p:Int) + 1 = 0) := by omega
  have h3 : ((p:Int) + 1 - 1).toNat = p := by omega
  simp only [h1, h2, ↓reduceIte, h3]

theorem small_int {n : Nat} (h : SmallLen n) : (n : Int) < 4611686018427387904 := by
  unfold SmallLen at h; rw [pow62] at h; exact h

/-- `index(k)` for an in-range position -/
theorem index_lt (s : Stk) (hs : SmallLen s.xs.length) (k : Nat) (hk : k < s.xs.length) :
    s.index (k : Int) = .ok (s.xs.getD k .nil, (k : Int) + 1, !(s.xs.getD k .nil).isNil) := by
  have hsm := small_int hs
  rw [index_spec s hs k (by rw [inInt_iff]; omega)]
  have : pos s.xs.length (s.flag Gen.flag_negidx) (s.flag Gen.flag_fwdidx) (k : Int) = some k := by
    unfold pos
    have : (0:Int) ≤ (k:Int) ∧ (k:Int) < (s.xs.length : Int) := by omega
    simp [this]
  rw [this]

/-- what the scan sees one past the end: with forward indices the last element again -/
def endBit (s : Stk) : Bool :=
  s.flag Gen.flag_fwdidx && (match s.xs.getLast? with | some v => !v.isNil | none => false)

theorem index_len (s : Stk) (hs : SmallLen s.xs.length) :
    ∃ v j, s.index (s.xs.length : Int) = .ok (v, j, s.endBit) := by
  have hsm := small_int hs
  rw [index_spec s hs _ (by rw [inInt_iff]; omega)]
  unfold pos endBit
  have h1 : ¬ ((0:Int) ≤ (s.xs.length:Int) ∧ (s.xs.length:Int) < (s.xs.length : Int)) := by omega
  have h2 : ¬ ((s.xs.length:Int) < 0 ∧ s.flag Gen.flag_negidx = true ∧ -(s.xs.length:Int) ≤ (s.xs.length:Int)) := by omega
  simp only [h1, h2, ↓reduceIte]
  cases hf : s.flag Gen.flag_fwdidx
  · simp
  · cases hx : s.xs with
    | nil => simp
    | cons a l =>
      have hne : (a :: l) ≠ [] := by simp
      simp only [ge_iff_le, Int.le_refl, List.length_cons, gt_iff_lt, Nat.zero_lt_succ, and_self,
        ↓reduceIte, Nat.add_one_sub_one, Bool.true_and]
      have hl : (a :: l).getLast? = some ((a :: l).getD l.length .nil) := by
        rw [List.getLast?_eq_some_getLast hne, List.getLast_eq_getElem]
        simp [List.getD_eq_getElem?_getD]
      rw [hl]
      exact ⟨_, _, rfl⟩

/-! ## the scan -/

theorem scanFrom_drop (s : Stk) (hs : SmallLen s.xs.length) :
    ∀ (ys : List Val) (i : Nat), i ≤ s.xs.length → s.xs.drop i = ys →
      s.scanFrom (ys.length + 1) i = .ok (ys.map nonNil ++ [s.endBit]) := by
  intro ys
  induction ys with
  | nil =>
    intro i hi hd
    have hl := congrArg List.length hd
    simp only [List.length_drop, List.length_nil] at hl
    have : i = s.xs.length := by omega
    subst this
    obtain ⟨v, j, h⟩ := index_len s hs
    simp [scanFrom, h, bind, Except.bind]
  | cons y r ih =>
    intro i hi hd
    have hl := congrArg List.length hd
    simp only [List.length_drop, List.length_cons] at hl
    have hlt : i < s.xs.length := by omega
    rw [List.drop_eq_getElem_cons hlt] at hd
    injection hd with hy hr
    have hy' : s.xs.getD i .nil = y := by
      rw [List.getD_eq_getElem?_getD, List.getElem?_eq_getElem hlt]; exact hy
    have := ih (i + 1) (by omega) hr
    simp only [List.length_cons]
    rw [scanFrom, index_lt s hs i hlt]
    simp only [bind, Except.bind, this, hy', List.map_cons, List.cons_append, nonNil]

theorem scanPat_eq (s : Stk) (hs : SmallLen s.xs.length) :
    s.scanPat = .ok (s.xs.map nonNil ++ [s.endBit]) := by
  unfold scanPat rawLen
  have : ((s.xs.length : Int) + 1).toNat = s.xs.length + 1 := by omega
  rw [this]
  exact scanFrom_drop s hs s.xs 0 (by omega) (by simp)

theorem firstGap_map (ys : List Val) (e : Bool) : ∀ (i : Nat),
    firstGap (ys.map nonNil ++ [e]) i =
      if firstNil ys < ys.length then ((i + firstNil ys : Nat) : Int)
      else if e then -1 else ((i + ys.length : Nat) : Int) := by
  induction ys with
  | nil => intro i; cases e <;> simp [firstGap, firstNil]
  | cons y r ih =>
    intro i
    simp only [List.map_cons, List.cons_append, firstGap, firstNil, nonNil, List.length_cons]
    cases hy : y.isNil
    · simp only [Bool.not_false, ↓reduceIte, Bool.false_eq_true]
      rw [ih (i + 1)]
      by_cases h : firstNil r < r.length
      · have : firstNil r + 1 < r.length + 1 := by omega
        simp only [h, this, ↓reduceIte]; congr 1; omega
      · have : ¬ firstNil r + 1 < r.length + 1 := by omega
        simp only [h, this, ↓reduceIte]
        cases e
        · simp only [Bool.false_eq_true, ↓reduceIte]; congr 1; omega
        · rfl
    · simp

theorem firstNil_le (ys : List Val) : firstNil ys ≤ ys.length := by
  induction ys with
  | nil => simp [firstNil]
  | cons y r ih => unfold firstNil; split <;> simp <;> omega

/-! ## one iteration of `implode` at natural-number level -/

theorem implodeLoop_stop (fuel : Nat) (s : Stk) (hs : SmallLen s.xs.length) (start ct : Nat) (max : Int)
    (tpat : List Bool) (hst : start ≤ s.xs.length) (hct : ct ≤ s.xs.length)
    (h : (ct : Int) ≥ max ∨ start + ct ≥ s.xs.length) :
    implodeLoop (fuel + 1) s start ct max tpat = .ok (s, tpat) := by
  have hsm := small_int hs
  unfold implodeLoop
  rw [ulen_eq s hs]
  have l1 : IsLen (start : Int) := isLen_nat (by omega)
  have l2 : IsLen (ct : Int) := isLen_nat (by omega)
  have : (max ≤ (ct : Int) ∨ (s.xs.length : Int) ≤ (start : Int) + (ct : Int)) := by omega
  simp only [GenSem.implode_stop, l1, l2, isLen_nat hsm, decide_eq_true_eq, this, ↓reduceIte]

theorem implodeLoop_nil (fuel : Nat) (s : Stk) (hs : SmallLen s.xs.length) (start ct : Nat) (max : Int)
    (tpat : List Bool) (h1 : (ct : Int) < max) (h2 : start + ct < s.xs.length)
    (hv : (s.xs.getD (start + ct) .nil).isNil = true) :
    implodeLoop (fuel + 1) s start ct max tpat = implodeLoop fuel s start ((ct + 1 : Nat) : Int) max tpat := by
  have hsm := small_int hs
  rw [implodeLoop]
  rw [ulen_eq s hs]
  have e1 : wrap64 ((start : Int) + (ct : Int)) = (start : Int) + (ct : Int) := by rw [wrap64_eq] <;> omega
  have e2 : wrap64 ((start : Int) + (ct : Int) + 1) = ((start + ct : Nat) : Int) + 1 := by rw [wrap64_eq] <;> omega
  have e3 : wrap64 ((ct : Int) + 1) = ((ct + 1 : Nat) : Int) := by rw [wrap64_eq] <;> omega
  have l1 : IsLen (start : Int) := isLen_nat (by omega)
  have l2 : IsLen (ct : Int) := isLen_nat (by omega)
  have : ¬ (max ≤ (ct : Int) ∨ (s.xs.length : Int) ≤ (start : Int) + (ct : Int)) := by omega
  simp only [e1, e2, e3, GenSem.implode_stop, l1, l2, isLen_nat hsm, decide_eq_true_eq, this, ↓reduceIte]
  rw [rawGet_succ s _ h2]
  simp only [liftF, bind, Except.bind, hv, ↓reduceIte]

theorem implodeLoop_move (fuel : Nat) (s : Stk) (hs : SmallLen s.xs.length) (start ct : Nat) (max : Int)
    (tpat : List Bool) (h1 : (ct : Int) < max) (h2 : start + ct < s.xs.length) (ht : start + ct < tpat.length)
    (hv : (s.xs.getD (start + ct) .nil).isNil = false) :
    implodeLoop (fuel + 1) s start ct max tpat =
      implodeLoop fuel { s with xs := (s.xs.set start (s.xs.getD (start + ct) .nil)).set (start + ct) .nil }
        ((start + 1 : Nat) : Int) 0 max (tpat.set (start + ct) true) := by
  have hsm := small_int hs
  rw [implodeLoop]
  rw [ulen_eq s hs]
  have e1 : wrap64 ((start : Int) + (ct : Int)) = ((start + ct : Nat) : Int) := by rw [wrap64_eq] <;> omega
  have e2 : wrap64 (((start + ct : Nat) : Int) + 1) = ((start + ct : Nat) : Int) + 1 := by rw [wrap64_eq] <;> omega
  have e3 : wrap64 ((start : Int) + 1) = (start : Int) + 1 := by rw [wrap64_eq] <;> omega
  have l1 : IsLen (start : Int) := isLen_nat (by omega)
  have l2 : IsLen (ct : Int) := isLen_nat (by omega)
  have : ¬ (max ≤ (ct : Int) ∨ (s.xs.length : Int) ≤ (start : Int) + (ct : Int)) := by omega
  simp only [GenSem.implode_stop, l1, l2, isLen_nat hsm, decide_eq_true_eq, this, ↓reduceIte]
  simp only [e1, e2, e3]
  rw [rawGet_succ s _ h2]
  simp only [liftF, bind, Except.bind, hv, Bool.false_eq_true, ↓reduceIte]
  rw [rawSet_succ s start _ (by omega)]
  simp only
  have hp : ¬ (((start + ct : Nat) : Int) < 0 ∨ ((start + ct : Nat) : Int) ≥ (tpat.length : Int)) := by omega
  simp only [setPat, hp, ↓reduceIte, Int.toNat_natCast]
  rw [rawSet_succ _ (start + ct) _ (by simp; omega)]
  have e4 : ((start + 1 : Nat) : Int) = (start : Int) + 1 := by omega
  rw [e4]

/-! ## `implode` in closed form -/

/-- The relocation loop on `pre ++ replicate g nil ++ rest` (`pre` = the compacted front, `g` = the
gap opened so far, `rest` = not yet visited; `start = |pre|`, `ct = g`), as a structural recursion.
Note that the stop test compares the *total* number `g` of nils passed so far with `max`. -/
def walk (max : Int) : (pre : List Val) → (g : Nat) → (rest : List Val) → (tpat : List Bool) → List Val × List Bool
  | pre, g, [], tpat => (pre ++ List.replicate g .nil, tpat)
  | pre, g, v :: r, tpat =>
    if (g : Int) ≥ max then (pre ++ List.replicate g .nil ++ v :: r, tpat)
    else if v.isNil then walk max pre (g + 1) r tpat
    else walk max (pre ++ [v]) g r (tpat.set (pre.length + g) true)

theorem getD_gap (pre rest : List Val) (g ct : Nat) (h : ct < g) :
    (pre ++ List.replicate g Val.nil ++ rest).getD (pre.length + ct) .nil = .nil := by
  rw [List.getD_eq_getElem?_getD, List.append_assoc, List.getElem?_append_right (by omega)]
  have : pre.length + ct - pre.length = ct := by omega
  rw [this, List.getElem?_append_left (by simp; omega)]
  simp [List.getElem?_replicate, h]

theorem getD_after (pre r : List Val) (g : Nat) (v : Val) :
    (pre ++ List.replicate g Val.nil ++ v :: r).getD (pre.length + g) .nil = v := by
  rw [List.getD_eq_getElem?_getD, List.getElem?_append_right (by simp)]
  simp

theorem set_move (pre r : List Val) (g : Nat) (v : Val) (hg : 1 ≤ g) :
    ((pre ++ List.replicate g Val.nil ++ v :: r).set pre.length v).set (pre.length + g) .nil
      = (pre ++ [v]) ++ List.replicate g Val.nil ++ r := by
  obtain ⟨k, rfl⟩ : ∃ k, g = k + 1 := ⟨g - 1, by omega⟩
  have e1 : pre ++ List.replicate (k + 1) Val.nil ++ v :: r = pre ++ (Val.nil :: (List.replicate k Val.nil ++ v :: r)) := by
    simp [List.replicate_succ]
  rw [e1, List.set_append_right _ _ (by omega)]
  simp only [Nat.sub_self, List.set_cons_zero]
  rw [List.set_append_right _ _ (by omega)]
  have e2 : pre.length + (k + 1) - pre.length = k + 1 := by omega
  rw [e2, List.set_cons_succ, List.set_append_right _ _ (by simp)]
  simp only [List.length_replicate, Nat.sub_self, List.set_cons_zero]
  have e3 : List.replicate k Val.nil ++ Val.nil :: r = List.replicate (k + 1) Val.nil ++ r := by
    rw [List.replicate_succ']; simp
  rw [e3]; simp

/-- re-scanning the already opened gap costs `g - ct` iterations and changes nothing -/
theorem implode_rescan (c : Cfg) (pre rest : List Val) (g : Nat) (max : Int) (tpat : List Bool)
    (hs : SmallLen (pre ++ List.replicate g Val.nil ++ rest).length) (hg : (g : Int) < max) (f : Nat) :
    ∀ (d ct : Nat), ct + d = g →
      implodeLoop (f + d) ⟨c, pre ++ List.replicate g Val.nil ++ rest⟩ (pre.length : Nat) (ct : Nat) max tpat
        = implodeLoop f ⟨c, pre ++ List.replicate g Val.nil ++ rest⟩ (pre.length : Nat) (g : Nat) max tpat := by
  intro d
  induction d with
  | zero => intro ct h; simp at h; subst h; rfl
  | succ d ih =>
    intro ct h
    have hlt : ct < g := by omega
    have := implodeLoop_nil (f + d) ⟨c, pre ++ List.replicate g Val.nil ++ rest⟩ hs pre.length ct max tpat
      (by omega) (by simp; omega) (by simp only; rw [getD_gap pre rest g ct hlt]; rfl)
    rw [show f + (d + 1) = (f + d) + 1 by omega, this]
    exact ih (ct + 1) (by omega)

/-- either a gap is open, or the next element to look at is nil -/
def Ready (g : Nat) (rest : List Val) : Prop := 1 ≤ g ∨ ∀ v r, rest = v :: r → v.isNil = true

/-- **`implodeLoop` computes `walk`, and `|rest|·(n+2)+1` iterations are enough** -/
theorem implodeLoop_eq_walk (c : Cfg) (max : Int) (n : Nat) (hn : SmallLen n) : ∀ (rest pre : List Val) (g : Nat) (tpat : List Bool) (fuel : Nat),
    pre.length + g + rest.length = n → Ready g rest → n < tpat.length → rest.length * (n + 2) + 1 ≤ fuel →
    implodeLoop fuel ⟨c, pre ++ List.replicate g Val.nil ++ rest⟩ (pre.length : Nat) (g : Nat) max tpat
      = .ok (⟨c, (walk max pre g rest tpat).1⟩, (walk max pre g rest tpat).2) := by
  intro rest
  induction rest with
  | nil =>
    intro pre g tpat fuel hlen hr ht hf
    obtain ⟨f, rfl⟩ : ∃ f, fuel = f + 1 := ⟨fuel - 1, by omega⟩
    have hL : (pre ++ List.replicate g Val.nil ++ ([] : List Val)).length = n := by
      simp only [List.length_append, List.length_replicate, List.length_nil] at *; omega
    have hs : SmallLen (pre ++ List.replicate g Val.nil ++ ([] : List Val)).length := by rw [hL]; exact hn
    rw [implodeLoop_stop f ⟨c, pre ++ List.replicate g Val.nil ++ []⟩ hs pre.length g max tpat
      (by show _ ≤ (pre ++ List.replicate g Val.nil ++ ([] : List Val)).length; rw [hL]; omega)
      (by show _ ≤ (pre ++ List.replicate g Val.nil ++ ([] : List Val)).length; rw [hL]; omega)
      (Or.inr (by show _ ≥ (pre ++ List.replicate g Val.nil ++ ([] : List Val)).length; rw [hL]; simp at hlen; omega))]
    simp only [walk, List.append_nil]
  | cons v r ih =>
    intro pre g tpat fuel hlen hr ht hf
    simp only [List.length_cons] at hlen hf
    obtain ⟨f, rfl⟩ : ∃ f, fuel = f + 1 := ⟨fuel - 1, by omega⟩
    have hL : (pre ++ List.replicate g Val.nil ++ v :: r).length = n := by
      simp only [List.length_append, List.length_replicate, List.length_cons]; omega
    have hs : SmallLen (pre ++ List.replicate g Val.nil ++ v :: r).length := by rw [hL]; exact hn
    by_cases hmax : (g : Int) ≥ max
    · rw [implodeLoop_stop f ⟨c, pre ++ List.replicate g Val.nil ++ v :: r⟩ hs pre.length g max tpat
        (by show _ ≤ (pre ++ List.replicate g Val.nil ++ v :: r).length; rw [hL]; omega)
        (by show _ ≤ (pre ++ List.replicate g Val.nil ++ v :: r).length; rw [hL]; omega) (Or.inl hmax)]
      simp [walk, hmax]
    · have hlt : (g : Int) < max := by omega
      cases hv : v.isNil
      · -- relocate `v` to the front of the gap
        have hg : 1 ≤ g := by
          rcases hr with h | h
          · exact h
          · have := h v r rfl; rw [hv] at this; cases this
        have hget : (pre ++ List.replicate g Val.nil ++ v :: r).getD (pre.length + g) .nil = v := getD_after pre r g v
        rw [implodeLoop_move f ⟨c, _⟩ hs pre.length g max tpat hlt (by simp only [hL]; omega) (by omega)
          (by simp only [hget]; exact hv)]
        simp only [hget, set_move pre r g v hg]
        have hs' : SmallLen ((pre ++ [v]) ++ List.replicate g Val.nil ++ r).length := by
          have : ((pre ++ [v]) ++ List.replicate g Val.nil ++ r).length = n := by
            simp only [List.length_append, List.length_replicate, List.length_cons, List.length_nil]; omega
          rw [this]; exact hn
        have hmul : (r.length + 1) * (n + 2) = r.length * (n + 2) + (n + 2) := by
          rw [Nat.add_mul]; simp
        obtain ⟨f', rfl⟩ : ∃ f', f = f' + g := ⟨f - g, by omega⟩
        have e0 : (((pre.length + 1 : Nat) : Int)) = (((pre ++ [v]).length : Nat) : Int) := by simp
        have := implode_rescan c (pre ++ [v]) r g max (tpat.set (pre.length + g) true) hs' hlt f' g 0 (by omega)
        rw [e0]
        have e00 : ((0 : Nat) : Int) = 0 := rfl
        rw [← e00, this]
        rw [ih (pre ++ [v]) g (tpat.set (pre.length + g) true) f'
          (by simp only [List.length_append, List.length_cons, List.length_nil]; omega) (Or.inl hg)
          (by simp only [List.length_set]; exact ht) (by omega)]
        simp [walk, hmax, hv]
      · -- a nil: the gap grows
        have hget : ((pre ++ List.replicate g Val.nil ++ v :: r).getD (pre.length + g) .nil).isNil = true := by
          rw [getD_after]; exact hv
        rw [implodeLoop_nil f ⟨c, _⟩ hs pre.length g max tpat hlt (by simp only [hL]; omega) hget]
        have hx : pre ++ List.replicate g Val.nil ++ v :: r = pre ++ List.replicate (g + 1) Val.nil ++ r := by
          have : v = Val.nil := by cases v <;> simp_all [Val.isNil]
          subst this
          rw [List.replicate_succ']; simp
        rw [hx]
        have hmul : (r.length + 1) * (n + 2) = r.length * (n + 2) + (n + 2) := by
          rw [Nat.add_mul]; simp
        rw [ih pre (g + 1) tpat f (by omega) (Or.inl (by omega)) ht (by omega)]
        simp [walk, hmax, hv]

theorem setPat_zero (k : Nat) : setPat (List.replicate (k + 1) false) 0 = .ok (true :: List.replicate k false) := by
  simp [setPat, List.replicate_succ]

/-- `stack.implode` in closed form: `pre` = the elements before the first gap -/
theorem implode_eq (s : Stk) (hs : SmallLen s.xs.length) (pre rest : List Val) (hx : s.xs = pre ++ rest)
    (hr : Ready 0 rest) (max : Int) (spat : List Bool) (hsp : spat.length = s.xs.length + 1) :
    s.implode (pre.length : Nat) max spat =
      .ok (⟨s.cfg, (walk max pre 0 rest (true :: List.replicate s.xs.length false)).1⟩,
           (walk max pre 0 rest (true :: List.replicate s.xs.length false)).2) := by
  unfold implode
  rw [hsp, setPat_zero]
  simp only [liftF, bind, Except.bind]
  have hlen : pre.length + 0 + rest.length = s.xs.length := by rw [hx]; simp
  have := implodeLoop_eq_walk s.cfg max s.xs.length hs rest pre 0 (true :: List.replicate s.xs.length false)
    (implodeFuel s) hlen hr (by simp) (by
      unfold implodeFuel
      have : rest.length ≤ s.xs.length := by omega
      calc rest.length * (s.xs.length + 2) + 1 ≤ s.xs.length * (s.xs.length + 2) + 1 :=
            Nat.add_le_add_right (Nat.mul_le_mul_right _ this) 1
        _ ≤ (s.xs.length + 1) * (s.xs.length + 2) := by rw [Nat.add_mul]; omega)
  have e : (⟨s.cfg, pre ++ List.replicate 0 Val.nil ++ rest⟩ : Stk) = s := by
    cases s; simp only [List.replicate_zero, List.append_nil] at *; simp [hx]
  rw [e] at this
  exact this

/-! ## `verifyImplode` -/

/-- the `last` variable after the loop over `tpat[i:]` -/
def lastOf (lenT : Int) : Nat → List Bool → Int → Int
  | _, [], last => last
  | i, t :: tp, last =>
    lastOf lenT (i + 1) tp (if t then Gen.implode_last { len_data := (i : Int) - 1, i := (i : Int), len_tpat := lenT } else last)

/-- the `fail` variable after the loop: only the last comparison counts -/
def failOf : List Bool → List Bool → Bool → Bool
  | [], _, fail => fail
  | _ :: _, [], fail => fail
  | s :: sp, t :: tp, _ => failOf sp tp (!(s == t))

theorem verifyLoop_eq (lenT : Int) : ∀ (sp tp : List Bool) (i : Nat) (last : Int) (fail : Bool), sp.length = tp.length →
    verifyLoop lenT i sp tp last fail = .ok (lastOf lenT i tp last, failOf sp tp fail) := by
  intro sp
  induction sp with
  | nil => intro tp i last fail h; cases tp <;> simp_all [verifyLoop, lastOf, failOf]
  | cons a sp ih =>
    intro tp i last fail h
    cases tp with
    | nil => simp at h
    | cons b tp =>
      simp only [List.length_cons, Nat.add_right_cancel_iff] at h
      simp only [verifyLoop, lastOf, failOf]
      exact ih tp (i + 1) _ _ h

theorem failOf_snoc : ∀ (sp tp : List Bool) (a b f : Bool), sp.length = tp.length →
    failOf (sp ++ [a]) (tp ++ [b]) f = !(a == b) := by
  intro sp
  induction sp with
  | nil => intro tp a b f h; cases tp <;> simp_all [failOf]
  | cons x sp ih =>
    intro tp a b f h
    cases tp with
    | nil => simp at h
    | cons y tp =>
      simp only [List.length_cons, Nat.add_right_cancel_iff] at h
      simp only [List.cons_append, failOf]
      exact ih tp a b _ h

theorem lastOf_append (lenT : Int) : ∀ (t1 t2 : List Bool) (i : Nat) (last : Int),
    lastOf lenT i (t1 ++ t2) last = lastOf lenT (i + t1.length) t2 (lastOf lenT i t1 last) := by
  intro t1
  induction t1 with
  | nil => intro t2 i last; simp [lastOf]
  | cons a t1 ih =>
    intro t2 i last
    simp only [List.cons_append, lastOf, List.length_cons]
    rw [ih]; congr 1; omega

theorem lastOf_false (lenT : Int) : ∀ (k i : Nat) (last : Int), lastOf lenT i (List.replicate k false) last = last := by
  intro k
  induction k with
  | zero => intro i last; simp [lastOf]
  | succ k ih => intro i last; simp only [List.replicate_succ, lastOf, Bool.false_eq_true, ↓reduceIte]; exact ih _ _

theorem lastNonNil_none_iff (ys : List Val) : lastNonNil ys = none ↔ ys.all Val.isNil = true := by
  induction ys with
  | nil => simp [lastNonNil]
  | cons y r ih =>
    simp only [lastNonNil, List.all_cons, Bool.and_eq_true]
    cases h : lastNonNil r with
    | some k => simp only [reduceCtorEq, false_iff, not_and]; intro _ hr; rw [ih.mpr hr] at h; cases h
    | none => cases hy : y.isNil <;> simp [ih.mp h]

theorem lastOf_map (lenT : Int) : ∀ (ys : List Val) (i : Nat) (last : Int),
    lastOf lenT i (ys.map nonNil) last =
      match lastNonNil ys with
      | some j => Gen.implode_last { len_data := ((i + j : Nat) : Int) - 1, i := ((i + j : Nat) : Int), len_tpat := lenT }
      | none => last := by
  intro ys
  induction ys with
  | nil => intro i last; simp [lastOf, lastNonNil]
  | cons y r ih =>
    intro i last
    simp only [List.map_cons, lastOf, lastNonNil]
    rw [ih]
    cases h : lastNonNil r with
    | some k => simp only; congr 2 <;> congr 1 <;> omega
    | none => cases hy : y.isNil <;> simp [nonNil, hy]

/-! ## what `walk` computes -/

theorem filter_replicate_nil (g : Nat) : (List.replicate g Val.nil).filter nonNil = [] := by
  induction g with
  | zero => rfl
  | succ g ih => simp [List.replicate_succ, nonNil, Val.isNil, ih]

theorem isNil_eq {v : Val} (h : v.isNil = true) : v = .nil := by
  cases v <;> simp_all [Val.isNil]

theorem walk_length (max : Int) : ∀ (rest pre : List Val) (g : Nat) (tpat : List Bool),
    (walk max pre g rest tpat).1.length = pre.length + g + rest.length := by
  intro rest
  induction rest with
  | nil => intro pre g tpat; simp [walk]
  | cons v r ih =>
    intro pre g tpat
    simp only [walk]
    split
    · simp; omega
    · split
      · rw [ih]; simp; omega
      · rw [ih]; simp; omega

/-- the relocation loop keeps the non-nil elements and their order -/
theorem walk_filter (max : Int) : ∀ (rest pre : List Val) (g : Nat) (tpat : List Bool),
    (walk max pre g rest tpat).1.filter nonNil = (pre ++ rest).filter nonNil := by
  intro rest
  induction rest with
  | nil => intro pre g tpat; simp [walk, filter_replicate_nil]
  | cons v r ih =>
    intro pre g tpat
    simp only [walk]
    split
    · simp [filter_replicate_nil]
    · split
      · rename_i hv; rw [ih]; simp [nonNil, hv]
      · rw [ih]; simp

theorem walk_tpat_last (max : Int) : ∀ (rest pre : List Val) (g : Nat) (T : List Bool) (b : Bool),
    pre.length + g + rest.length ≤ T.length →
    ∃ T', (walk max pre g rest (T ++ [b])).2 = T' ++ [b] ∧ T'.length = T.length := by
  intro rest
  induction rest with
  | nil => intro pre g T b _; exact ⟨T, by simp [walk], rfl⟩
  | cons v r ih =>
    intro pre g T b h
    simp only [List.length_cons] at h
    simp only [walk]
    split
    · exact ⟨T, rfl, rfl⟩
    · split
      · exact ih pre (g + 1) T b (by omega)
      · rw [List.set_append_left _ _ (by omega)]
        obtain ⟨T', h1, h2⟩ := ih (pre ++ [v]) g (T.set (pre.length + g) true) b (by simp; omega)
        exact ⟨T', h1, by rw [h2]; simp⟩

/-- does the loop reach every non-nil element of `rest` (so that the result is "all values, then all nils")? -/
def walkCompact (max : Int) : Nat → List Val → Bool
  | _, [] => true
  | g, v :: r =>
    if (g : Int) ≥ max then (v :: r).all Val.isNil
    else if v.isNil then walkCompact max (g + 1) r else walkCompact max g r

theorem nilCount_cons (v : Val) (r : List Val) : nilCount (v :: r) = (if v.isNil then 1 else 0) + nilCount r := by
  unfold nilCount; rw [List.countP_cons]; omega

theorem replicate_all_nil : ∀ (r : List Val), r.all Val.isNil = true → r = List.replicate r.length Val.nil := by
  intro r
  induction r with
  | nil => intro _; rfl
  | cons v r ih =>
    intro h
    simp only [List.all_cons, Bool.and_eq_true] at h
    rw [List.length_cons, List.replicate_succ, ← ih h.2, isNil_eq h.1]

theorem nilCount_all_nil (r : List Val) (h : r.all Val.isNil = true) : nilCount r = r.length := by
  induction r with
  | nil => rfl
  | cons v r ih =>
    simp only [List.all_cons, Bool.and_eq_true] at h
    rw [nilCount_cons, ih h.2, h.1]; simp; omega

theorem filter_all_nil (r : List Val) (h : r.all Val.isNil = true) : r.filter nonNil = [] := by
  rw [replicate_all_nil r h]; exact filter_replicate_nil _

theorem walk_compact (max : Int) : ∀ (rest pre : List Val) (g : Nat) (tpat : List Bool),
    walkCompact max g rest = true →
    (walk max pre g rest tpat).1 = pre ++ rest.filter nonNil ++ List.replicate (g + nilCount rest) Val.nil := by
  intro rest
  induction rest with
  | nil => intro pre g tpat _; simp [walk, nilCount]
  | cons v r ih =>
    intro pre g tpat h
    simp only [walkCompact] at h
    simp only [walk]
    split
    · rename_i hm
      simp only [hm, ↓reduceIte] at h
      rw [filter_all_nil _ h, nilCount_all_nil _ h, ← List.replicate_append_replicate]
      conv => lhs; rw [replicate_all_nil _ h]
      simp
    · rename_i hm
      simp only [hm, ↓reduceIte] at h
      split
      · rename_i hv
        simp only [hv, ↓reduceIte] at h
        rw [ih pre (g + 1) tpat h, nilCount_cons]
        simp only [hv, ↓reduceIte, List.filter_cons, nonNil, Bool.not_true, Bool.false_eq_true]
        congr 2; omega
      · rename_i hv
        simp only [hv, Bool.false_eq_true, ↓reduceIte] at h
        rw [ih (pre ++ [v]) g _ h, nilCount_cons]
        simp [hv, nonNil]

theorem walk_compact_tpat (max : Int) : ∀ (rest pre : List Val) (g : Nat) (A B : List Bool),
    walkCompact max g rest = true → A.length = pre.length + g →
    (walk max pre g rest (A ++ List.replicate rest.length false ++ B)).2 = A ++ rest.map nonNil ++ B := by
  intro rest
  induction rest with
  | nil => intro pre g A B _ _; simp [walk]
  | cons v r ih =>
    intro pre g A B h hA
    simp only [walkCompact] at h
    simp only [walk]
    split
    · rename_i hm
      simp only [hm, ↓reduceIte] at h
      have : (v :: r).map nonNil = List.replicate (v :: r).length false := by
        rw [replicate_all_nil _ h]; simp [nonNil, Val.isNil]
      rw [this]
    · rename_i hm
      simp only [hm, ↓reduceIte] at h
      split
      · rename_i hv
        simp only [hv, ↓reduceIte] at h
        have := ih pre (g + 1) (A ++ [false]) B h (by simp; omega)
        simp only [List.length_cons, List.replicate_succ, List.map_cons, nonNil, hv, Bool.not_true]
        simpa using this
      · rename_i hv
        simp only [hv, Bool.false_eq_true, ↓reduceIte] at h
        have e : (A ++ List.replicate (v :: r).length false ++ B).set (pre.length + g) true
            = (A ++ [true]) ++ List.replicate r.length false ++ B := by
          rw [List.append_assoc, List.set_append_right _ _ (by omega)]
          simp [hA, List.replicate_succ]
        rw [e, ih (pre ++ [v]) g (A ++ [true]) B h (by simp; omega)]
        simp [nonNil, hv]

/-! ## pattern arithmetic -/

/-- nils lying before the last non-nil element -/
def nilsBeforeLast : List Val → Nat
  | [] => 0
  | v :: r => match lastNonNil r with
    | some _ => (if v.isNil then 1 else 0) + nilsBeforeLast r
    | none => 0

theorem lastNonNil_spec : ∀ (ys : List Val) (k : Nat), lastNonNil ys = some k →
    k < ys.length ∧ nilCount ys = nilsBeforeLast ys + (ys.length - 1 - k) := by
  intro ys
  induction ys with
  | nil => intro k h; simp [lastNonNil] at h
  | cons v r ih =>
    intro k h
    simp only [lastNonNil] at h
    cases hr : lastNonNil r with
    | some k' =>
      rw [hr] at h
      simp only [Option.some.injEq] at h
      obtain ⟨h1, h2⟩ := ih k' hr
      subst h
      refine ⟨by simp; omega, ?_⟩
      rw [nilCount_cons, h2]
      simp only [nilsBeforeLast, hr, List.length_cons]
      omega
    | none =>
      rw [hr] at h
      cases hv : v.isNil
      · simp only [hv, Bool.false_eq_true, ↓reduceIte, Option.some.injEq] at h
        subst h
        refine ⟨by simp, ?_⟩
        rw [nilCount_cons, nilCount_all_nil r ((lastNonNil_none_iff r).mp hr)]
        simp [nilsBeforeLast, hr, hv]
      · simp [hv] at h

theorem walkCompact_iff (max : Int) : ∀ (rest : List Val) (g : Nat),
    walkCompact max g rest = true ↔ (rest.all Val.isNil = true ∨ ((g + nilsBeforeLast rest : Nat) : Int) < max) := by
  intro rest
  induction rest with
  | nil => intro g; simp [walkCompact]
  | cons v r ih =>
    intro g
    simp only [walkCompact]
    by_cases hm : (g : Int) ≥ max
    · simp only [hm, ↓reduceIte]
      constructor
      · intro h; exact Or.inl h
      · intro h; rcases h with h | h
        · exact h
        · omega
    · simp only [hm, ↓reduceIte]
      cases hl : lastNonNil r with
      | none =>
        have hall := (lastNonNil_none_iff r).mp hl
        have hw : ∀ g', walkCompact max g' r = true := fun g' => (ih g').mpr (Or.inl hall)
        have : ((g + nilsBeforeLast (v :: r) : Nat) : Int) < max := by simp only [nilsBeforeLast, hl]; omega
        constructor
        · intro _; exact Or.inr this
        · intro _; split <;> exact hw _
      | some k =>
        have hnall : ¬ (r.all Val.isNil = true) := by
          intro h; rw [(lastNonNil_none_iff r).mpr h] at hl; cases hl
        have hnall' : ¬ ((v :: r).all Val.isNil = true) := by
          simp only [List.all_cons, Bool.and_eq_true, not_and]; intro _; exact hnall
        cases hv : v.isNil
        · simp only [Bool.false_eq_true, ↓reduceIte]
          rw [ih g]
          simp only [hnall, hnall', false_or, nilsBeforeLast, hl, hv, Bool.false_eq_true, ↓reduceIte, Nat.zero_add]
        · simp only [↓reduceIte]
          rw [ih (g + 1)]
          simp only [hnall, hnall', false_or, nilsBeforeLast, hl, hv, ↓reduceIte]
          simp only [Bool.false_eq_true, false_or]
          constructor <;> intro h <;> omega

theorem firstNil_append (pre ys : List Val) (hp : pre.all nonNil = true) :
    firstNil (pre ++ ys) = pre.length + firstNil ys := by
  induction pre with
  | nil => simp
  | cons a pre ih =>
    simp only [List.all_cons, Bool.and_eq_true, nonNil, Bool.not_eq_eq_eq_not, Bool.not_true] at hp
    simp only [List.cons_append, firstNil, hp.1, Bool.false_eq_true, ↓reduceIte, List.length_cons]
    rw [ih (by simpa [nonNil] using hp.2)]; omega

theorem filter_nilfree (pre : List Val) (hp : pre.all nonNil = true) : pre.filter nonNil = pre := by
  rw [List.filter_eq_self]; simpa using hp

theorem filter_pos_of_not_all_nil (ys : List Val) (h : ys.all Val.isNil = false) : 0 < (ys.filter nonNil).length := by
  induction ys with
  | nil => simp at h
  | cons v r ih =>
    cases hv : v.isNil
    · simp [nonNil, hv]
    · simp only [List.all_cons, hv, Bool.true_and] at h
      simp only [List.filter_cons, nonNil, hv, Bool.not_true, Bool.false_eq_true, ↓reduceIte]
      exact ih h

/-- if the loop stops before it has reached every value, a nil lies in front of a value afterwards -/
theorem walk_not_compact (max : Int) (hmax : 1 ≤ max) : ∀ (rest pre : List Val) (g : Nat) (tpat : List Bool),
    walkCompact max g rest = false → pre.all nonNil = true →
    firstNil (walk max pre g rest tpat).1 < ((pre ++ rest).filter nonNil).length := by
  intro rest
  induction rest with
  | nil => intro pre g tpat h; simp [walkCompact] at h
  | cons v r ih =>
    intro pre g tpat h hp
    simp only [walkCompact] at h
    simp only [walk]
    split
    · rename_i hm
      simp only [hm, ↓reduceIte] at h
      obtain ⟨k, rfl⟩ : ∃ k, g = k + 1 := ⟨g - 1, by omega⟩
      rw [List.append_assoc, firstNil_append _ _ hp, List.filter_append, filter_nilfree _ hp, List.length_append]
      have := filter_pos_of_not_all_nil _ h
      simp only [List.replicate_succ, List.cons_append, firstNil, Val.isNil, ↓reduceIte]
      omega
    · rename_i hm
      simp only [hm, ↓reduceIte] at h
      split
      · rename_i hv
        simp only [hv, ↓reduceIte] at h
        have := ih pre (g + 1) tpat h hp
        simpa [List.filter_append, nonNil, hv] using this
      · rename_i hv
        simp only [hv, Bool.false_eq_true, ↓reduceIte] at h
        have := ih (pre ++ [v]) g (tpat.set (pre.length + g) true) h (by simp [hp, nonNil, hv])
        simpa using this

theorem take_nilfree_le : ∀ (W : List Val) (m : Nat), (W.take m).all nonNil = true → (W.take m).length ≤ firstNil W := by
  intro W
  induction W with
  | nil => intro m _; simp
  | cons v r ih =>
    intro m h
    cases m with
    | zero => simp
    | succ m =>
      simp only [List.take_succ_cons, List.all_cons, Bool.and_eq_true, nonNil, Bool.not_eq_eq_eq_not, Bool.not_true] at h
      simp only [List.take_succ_cons, List.length_cons, firstNil, h.1, Bool.false_eq_true, ↓reduceIte]
      have := ih m (by simpa [nonNil] using h.2)
      omega

theorem split_firstNil : ∀ (xs : List Val), xs.any Val.isNil = true →
    ∃ pre r, xs = pre ++ Val.nil :: r ∧ pre.all nonNil = true ∧ firstNil xs = pre.length := by
  intro xs
  induction xs with
  | nil => intro h; simp at h
  | cons v r ih =>
    intro h
    cases hv : v.isNil
    · simp only [List.any_cons, hv, Bool.false_or] at h
      obtain ⟨pre, r', h1, h2, h3⟩ := ih h
      exact ⟨v :: pre, r', by rw [h1]; rfl, by simp [nonNil, hv, h2], by simp [firstNil, hv, h3]⟩
    · exact ⟨[], r, by rw [isNil_eq hv]; rfl, rfl, by simp [firstNil, hv]⟩

theorem lastNonNil_append_some (pre r : List Val) (j : Nat) (h : lastNonNil r = some j) :
    lastNonNil (pre ++ r) = some (pre.length + j) := by
  induction pre with
  | nil => simpa using h
  | cons a pre ih => simp only [List.cons_append, lastNonNil, ih, List.length_cons]; congr 1; omega

theorem lastNonNil_append_none (pre r : List Val) (h : lastNonNil r = none) :
    lastNonNil (pre ++ r) = lastNonNil pre := by
  induction pre with
  | nil => simpa [lastNonNil] using h
  | cons a pre ih => simp only [List.cons_append, lastNonNil, ih]

theorem lastNonNil_nilfree (pre : List Val) (hp : pre.all nonNil = true) :
    lastNonNil pre = if pre.length = 0 then none else some (pre.length - 1) := by
  induction pre with
  | nil => rfl
  | cons a pre ih =>
    simp only [List.all_cons, Bool.and_eq_true, nonNil, Bool.not_eq_eq_eq_not, Bool.not_true] at hp
    simp only [lastNonNil, ih (by simpa [nonNil] using hp.2), hp.1]
    cases pre <;> simp

/-! ## `verifyImplode` and `defrag` in closed form -/

theorem verifyImplode_eq (A B : List Bool) (a b : Bool) (h : A.length = B.length) (h1 : 1 ≤ A.length) :
    verifyImplode (A ++ [a]) (B ++ [b]) =
      .ok (wrap64 (lastOf ((B.length : Int) + 1) 1 (B.drop 1 ++ [b]) (-1) - 1), if !(a == b) then some defragErr else none) := by
  unfold verifyImplode
  rw [List.drop_append_of_le_length (by omega), List.drop_append_of_le_length (by omega)]
  rw [verifyLoop_eq _ _ _ _ _ _ (by simp; omega)]
  simp only [bind, Except.bind, List.length_append, List.length_cons, List.length_nil]
  rw [failOf_snoc _ _ _ _ _ (by simp; omega)]
  simp

theorem verifyImplode_single (a b : Bool) : verifyImplode [a] [b] = .ok (-2, none) := by
  simp only [verifyImplode, List.drop_succ_cons, List.drop_nil, verifyLoop, bind, Except.bind]
  simp only [Bool.false_eq_true, ↓reduceIte]
  congr 2

theorem firstNil_nilfree (xs : List Val) (h : xs.any Val.isNil = false) : firstNil xs = xs.length := by
  induction xs with
  | nil => rfl
  | cons v r ih =>
    simp only [List.any_cons, Bool.or_eq_false_iff] at h
    simp [firstNil, h.1, ih h.2]

theorem firstNil_lt_of_any (xs : List Val) (h : xs.any Val.isNil = true) : firstNil xs < xs.length := by
  obtain ⟨pre, r, h1, _, h3⟩ := split_firstNil xs h
  rw [h3, h1]; simp

/-! ## the regenerated guards of `defrag`, by what they mean -/

theorem defrag_go_nat (start : Nat) (max : Int) (h : (start : Int) < 4611686018427387904) :
    Gen.defrag_go { start := (start : Int), max := max } = decide ((start : Int) < max) := by
  have hs : -1 ≤ (start : Int) ∧ (start : Int) < 4611686018427387904 := by omega
  have hne : ¬ ((start : Int) = -1) := by omega
  simp only [GenSem.defrag_go, hs, ne_eq, hne, not_false_eq_true, true_and]

theorem defrag_go_neg (max : Int) : Gen.defrag_go { start := -1, max := max } = false := by
  have hs : -1 ≤ (-1 : Int) ∧ (-1 : Int) < 4611686018427387904 := by omega
  rw [GenSem.defrag_go { start := -1, max := max } hs]
  simp only [ne_eq, not_true_eq_false, false_and, decide_false]

theorem defrag_trunc_sem (err : Bool) (last : Int) (h : InInt last) :
    Gen.defrag_trunc { err_nonnil := err, last := last } = decide (err = false ∧ 0 ≤ last) := by
  simp only [GenSem.defrag_trunc, h, Bool.not_eq_true]

/-- **no nil ⇒ nothing moves**: either nothing is done at all, or only `Err` is cleared -/
theorem defrag_nonil (s : Stk) (hs : SmallLen s.xs.length) (max : Int) (h : s.xs.any Val.isNil = false) :
    s.defrag max = .ok s ∨ s.defrag max = .ok { s with cfg := { s.cfg with err := none } } := by
  unfold defrag
  rw [scanPat_eq s hs]
  simp only [liftF, bind, Except.bind]
  rw [firstGap_map, firstNil_nilfree _ h]
  simp only [Nat.lt_irrefl, ↓reduceIte, Nat.zero_add]
  cases he : s.endBit
  · simp only [Bool.false_eq_true, ↓reduceIte]
    have hgo := defrag_go_nat s.xs.length max (small_int hs)
    by_cases hm : max ≤ (s.xs.length : Int)
    · left
      have : ¬ ((s.xs.length : Int) < max) := by omega
      simp [hgo, this]
    · right
      have : (s.xs.length : Int) < max := by omega
      simp only [this, decide_true] at hgo
      rw [hgo]
      simp only [↓reduceIte]
      rw [implode_eq s hs s.xs [] (by simp) (Or.inr (by intro v r h; cases h)) max _ (by simp)]
      simp only [walk, List.replicate_zero, List.append_nil]
      cases hx : s.xs with
      | nil =>
        simp only [List.map_nil, List.nil_append, List.length_nil, List.replicate_zero]
        rw [verifyImplode_single]
        simp [defrag_trunc_sem _ _ (show InInt (-2) by constructor <;> decide)]
      | cons x l =>
        have e : (true :: List.replicate (x :: l).length false) = (true :: List.replicate l.length false) ++ [false] := by
          simp only [List.length_cons, List.cons_append, List.cons.injEq, true_and]
          rw [List.replicate_succ']
        rw [e, verifyImplode_eq _ _ _ _ (by simp) (by simp)]
        simp only [List.drop_succ_cons, List.drop_zero]
        have e2 : List.replicate l.length false ++ [false] = List.replicate (l.length + 1) false := by
          rw [List.replicate_succ']
        rw [e2, lastOf_false]
        have e3 : wrap64 (-1 - 1) = -2 := by decide
        simp only [e3, defrag_trunc_sem _ _ (show InInt (-2) by constructor <;> decide)]
        simp
  · left; simp [defrag_go_neg]

/-- the tail of `stack.defrag`: record the error, truncate -/
def finish (cfg : Cfg) (W : List Val) (last : Int) (err : Option Nat) : Except DErr Stk :=
  if Gen.defrag_trunc { err_nonnil := err.isSome, last := last } then
    if wrap64 (last + 1) > (W.length : Int) + 1 then .error (.fault .panic)
    else .ok ⟨{ cfg with err := err }, W.take (wrap64 (last + 1) - 1).toNat⟩
  else .ok ⟨{ cfg with err := err }, W⟩

/-- **a stack with a gap**, `xs = pre ++ nil :: r` with `pre` free of nils: what `defrag` does -/
theorem defrag_gap (s : Stk) (hs : SmallLen s.xs.length) (max : Int) (pre r : List Val)
    (hx : s.xs = pre ++ Val.nil :: r) (hp : pre.all nonNil = true) :
    ∃ T' : List Bool, (walk max pre 1 r (true :: List.replicate s.xs.length false)).2 = T' ++ [false] ∧
      T'.length = s.xs.length ∧
      s.defrag max =
        if max ≤ (pre.length : Int) then .ok s
        else finish s.cfg (walk max pre 1 r (true :: List.replicate s.xs.length false)).1
          (wrap64 (lastOf ((s.xs.length : Int) + 1) 1 (T'.drop 1 ++ [false]) (-1) - 1))
          (if s.endBit then some defragErr else none) := by
  have hL : s.xs.length = pre.length + 1 + r.length := by rw [hx]; simp; omega
  obtain ⟨k, hk⟩ : ∃ k, s.xs.length = k + 1 := ⟨pre.length + r.length, by omega⟩
  have hT0 : (true :: List.replicate s.xs.length false) = (true :: List.replicate k false) ++ [false] := by
    rw [hk, List.replicate_succ']; simp
  obtain ⟨T', hT1, hT2⟩ := walk_tpat_last max r pre 1 (true :: List.replicate k false) false (by simp; omega)
  rw [← hT0] at hT1
  have hT2' : T'.length = s.xs.length := by rw [hT2, hk]; simp
  refine ⟨T', hT1, hT2', ?_⟩
  unfold defrag
  rw [scanPat_eq s hs]
  simp only [liftF, bind, Except.bind]
  have hfn : firstNil s.xs = pre.length := by rw [hx, firstNil_append _ _ hp]; simp [firstNil, Val.isNil]
  have hlt : pre.length < s.xs.length := by omega
  rw [firstGap_map, hfn]
  simp only [hlt, ↓reduceIte, Nat.zero_add]
  have hgo := defrag_go_nat pre.length max (by have := small_int hs; omega)
  by_cases hm : max ≤ (pre.length : Int)
  · have : ¬ ((pre.length : Int) < max) := by omega
    simp [hgo, hm, this]
  · have : (pre.length : Int) < max := by omega
    simp only [this, decide_true] at hgo
    simp only [hgo, hm, ↓reduceIte]
    rw [implode_eq s hs pre (Val.nil :: r) hx (Or.inr (by intro v r' h; injection h with h1 _; rw [← h1]; rfl)) max _ (by simp)]
    have hw : walk max pre 0 (Val.nil :: r) (true :: List.replicate s.xs.length false)
        = walk max pre 1 r (true :: List.replicate s.xs.length false) := by
      have : ¬ (((0 : Nat) : Int) ≥ max) := by omega
      simp only [walk, this, ↓reduceIte, Val.isNil, Nat.zero_add]
    simp only [hw, hT1]
    rw [verifyImplode_eq _ _ _ _ (by simp [hT2']) (by simp; omega)]
    simp only [hT2']
    have he : (if (!(s.endBit == false)) = true then some defragErr else none) = (if s.endBit = true then some defragErr else none) := by
      cases s.endBit <;> rfl
    simp only [he]
    unfold finish
    have hwl := walk_length max r pre 1 (true :: List.replicate s.xs.length false)
    simp only [rawLen, hwl, hL]

theorem implode_last_eq (i L : Nat) (hL : SmallLen L) (hi : i ≤ L) (h1 : 1 ≤ i) :
    Gen.implode_last { len_data := (i : Int) - 1, i := (i : Int), len_tpat := (L : Int) + 1 } = 2 * (i : Int) - 2 - L := by
  have := small_int hL
  have h1 : -1 ≤ (i : Int) - 1 ∧ (i : Int) - 1 < 4611686018427387904 := by omega
  have h2 : IsLen (i : Int) := isLen_nat (by omega)
  have h3 : IsRawLen ((L : Int) + 1) := by rw [isRawLen_iff]; omega
  rw [GenSem.implode_last _ h1 h2 h3]
  show (i : Int) - 1 + (i : Int) - ((L : Int) + 1) = _
  omega

/-- bounds of the `last` variable: the truncation can never address beyond the slice -/
theorem lastOf_bounds (L : Nat) (hL : SmallLen L) : ∀ (tp : List Bool) (i : Nat) (last : Int),
    1 ≤ i → i + tp.length ≤ L + 1 → -(L : Int) - 1 ≤ last → last ≤ L →
    -(L : Int) - 1 ≤ lastOf ((L : Int) + 1) i tp last ∧ lastOf ((L : Int) + 1) i tp last ≤ L := by
  intro tp
  induction tp with
  | nil => intro i last _ _ h1 h2; exact ⟨h1, h2⟩
  | cons t tp ih =>
    intro i last hi hlen h1 h2
    simp only [List.length_cons] at hlen
    simp only [lastOf]
    cases t
    · simp only [Bool.false_eq_true, ↓reduceIte]; exact ih (i + 1) last (by omega) (by omega) h1 h2
    · simp only [↓reduceIte]
      rw [implode_last_eq i L hL (by omega) hi]
      exact ih (i + 1) _ (by omega) (by omega) (by omega) (by omega)

/-- when the loop reaches every value: the result before truncation is "all values, then all
nils", and the truncation point is `2·k − 3 − L` with `k` the position of the last value -/
theorem defrag_gap_compact (s : Stk) (hs : SmallLen s.xs.length) (max : Int) (pre r : List Val)
    (hx : s.xs = pre ++ Val.nil :: r) (hp : pre.all nonNil = true) (hm : ¬ max ≤ (pre.length : Int))
    (hc : walkCompact max 1 r = true) :
    s.defrag max = finish s.cfg (pre ++ r.filter nonNil ++ List.replicate (1 + nilCount r) Val.nil)
      (match lastNonNil r with
       | some j => 2 * ((pre.length + 1 + j : Nat) : Int) - 3 - (s.xs.length : Int)
       | none => -2)
      (if s.endBit then some defragErr else none) := by
  obtain ⟨T', hT1, hT2, hd⟩ := defrag_gap s hs max pre r hx hp
  rw [hd]
  simp only [hm, ↓reduceIte]
  have hL : s.xs.length = pre.length + 1 + r.length := by rw [hx]; simp; omega
  have hsm := small_int hs
  -- the pattern bookkeeping
  have hT0 : (true :: List.replicate s.xs.length false)
      = (true :: List.replicate pre.length false) ++ List.replicate r.length false ++ [false] := by
    rw [hL]
    simp only [List.cons_append, List.cons.injEq, true_and]
    rw [List.append_assoc, ← List.replicate_succ', List.replicate_append_replicate]
    congr 1; omega
  have hT := walk_compact_tpat max r pre 1 (true :: List.replicate pre.length false) [false] hc (by simp)
  rw [← hT0, hT1] at hT
  have hT' : T' = (true :: List.replicate pre.length false) ++ r.map nonNil := List.append_cancel_right hT
  rw [walk_compact max r pre 1 _ hc, hT']
  simp only [List.cons_append, List.drop_succ_cons, List.drop_zero]
  rw [lastOf_append, lastOf_append, lastOf_false, lastOf_map]
  simp only [List.length_replicate, List.length_map, lastOf, Bool.false_eq_true, ↓reduceIte]
  congr 1
  cases hl : lastNonNil r with
  | none => simp only; decide
  | some j =>
    simp only
    have hj := (lastNonNil_spec r j hl).1
    have e := implode_last_eq (1 + pre.length + j) s.xs.length hs (by omega) (by omega)
    rw [e, wrap64_eq (by omega) (by omega)]
    omega

/-! ## `DefragOK` for a list with a gap, in terms of its parts -/

theorem filter_len_add_nilCount (ys : List Val) : (ys.filter nonNil).length + nilCount ys = ys.length := by
  induction ys with
  | nil => rfl
  | cons v r ih =>
    rw [nilCount_cons]
    cases hv : v.isNil <;> simp [nonNil, hv] <;> omega

theorem nilCount_append (a b : List Val) : nilCount (a ++ b) = nilCount a + nilCount b := by
  unfold nilCount; rw [List.countP_append]

theorem nilCount_nilfree (pre : List Val) (hp : pre.all nonNil = true) : nilCount pre = 0 := by
  have := filter_len_add_nilCount pre
  rw [filter_nilfree pre hp] at this; omega

theorem compact1_gap (pre r : List Val) (hp : pre.all nonNil = true) :
    compact1 (pre ++ Val.nil :: r) = pre ++ r.filter nonNil := by
  unfold compact1
  rw [List.filter_append, filter_nilfree pre hp]
  simp [nonNil, Val.isNil]

/-- is the last element a value? -/
def endLast (ys : List Val) : Bool := match ys.getLast? with | some v => !v.isNil | none => false

theorem endLast_eq : ∀ (ys : List Val), endLast ys = (match lastNonNil ys with | some k => k + 1 == ys.length | none => false) := by
  intro ys
  induction ys with
  | nil => rfl
  | cons v r ih =>
    cases r with
    | nil => cases hv : v.isNil <;> simp [endLast, lastNonNil, hv]
    | cons w r' =>
      have : endLast (v :: w :: r') = endLast (w :: r') := by simp [endLast, List.getLast?_cons_cons]
      rw [this, ih]
      simp only [lastNonNil]
      cases h : lastNonNil r' with
      | some k => simp
      | none =>
        cases hw : w.isNil
        · simp
        · simp only [↓reduceIte]
          have hall : r'.all Val.isNil = true := (lastNonNil_none_iff r').mp h
          cases hv : v.isNil <;> simp

theorem endLast_append (pre : List Val) (v : Val) (r : List Val) : endLast (pre ++ v :: r) = endLast (v :: r) := by
  unfold endLast
  rw [List.getLast?_append]
  cases h : (v :: r).getLast? with
  | none => simp at h
  | some x => simp

theorem any_isNil_gap (pre r : List Val) : (pre ++ Val.nil :: r).any Val.isNil = true := by
  simp [Val.isNil]

/-- `DefragOK` spelled out for `xs = pre ++ nil :: r` (`pre` without nil) -/
theorem DefragOK_gap (fwd : Bool) (max : Int) (pre r : List Val) (hp : pre.all nonNil = true) :
    DefragOK fwd max (pre ++ Val.nil :: r) =
      (decide ((pre.length : Int) < max) && !(fwd && endLast (pre ++ Val.nil :: r)) &&
        (match lastNonNil r with
         | none => false
         | some j => decide (((1 + nilsBeforeLast r : Nat) : Int) < max) && (1 + nilCount r == 2 * (r.length - 1 - j) + 5))) := by
  unfold DefragOK
  rw [any_isNil_gap]
  simp only [Bool.not_true, Bool.false_or]
  have hfn : firstNil (pre ++ Val.nil :: r) = pre.length := by
    rw [firstNil_append _ _ hp]; simp [firstNil, Val.isNil]
  have hN : nilCount (pre ++ Val.nil :: r) = 1 + nilCount r := by
    rw [nilCount_append, nilCount_nilfree pre hp, nilCount_cons]; simp [Val.isNil]
  rw [endLast_eq]
  cases hl : lastNonNil r with
  | none =>
    have h1 : lastNonNil (Val.nil :: r) = none := by simp [lastNonNil, hl, Val.isNil]
    rw [lastNonNil_append_none _ _ h1, lastNonNil_nilfree pre hp]
    by_cases h0 : pre.length = 0
    · simp [h0]
    · simp only [h0, ↓reduceIte, hN, hfn]
      have hnc := nilCount_all_nil r ((lastNonNil_none_iff r).mp hl)
      have : (1 + nilCount r == 2 * ((pre ++ Val.nil :: r).length - 1 - (pre.length - 1)) + 5) = false := by
        simp only [List.length_append, List.length_cons, beq_eq_false_iff_ne, ne_eq, hnc]; omega
      simp only [this, Bool.and_false]
  | some j =>
    have h1 : lastNonNil (Val.nil :: r) = some (j + 1) := by simp [lastNonNil, hl]
    rw [lastNonNil_append_some _ _ _ h1]
    obtain ⟨hj, hn⟩ := lastNonNil_spec r j hl
    simp only [hN, hfn]
    have et : (pre ++ Val.nil :: r).length - 1 - (pre.length + (j + 1)) = r.length - 1 - j := by
      simp only [List.length_append, List.length_cons]; omega
    rw [et]
    have e2 : 1 + nilCount r - (r.length - 1 - j) = 1 + nilsBeforeLast r := by omega
    rw [e2]
    have e3 : (pre.length + (j + 1) + 1 == (pre ++ Val.nil :: r).length) = (r.length - 1 - j == 0) := by
      have hlen : (pre ++ Val.nil :: r).length = pre.length + (r.length + 1) := by simp
      rw [hlen]
      by_cases h : j + 1 = r.length
      · rw [beq_iff_eq.mpr (by omega), beq_iff_eq.mpr (by omega)]
      · rw [beq_eq_false_iff_ne.mpr (by omega), beq_eq_false_iff_ne.mpr (by omega)]
    simp only [e3, Bool.and_assoc]

/-! ## the tail of `defrag` -/

/-- `finish` never takes its panic branch when `last` comes out of `verifyImplode` -/
theorem finish_ok (cfg : Cfg) (W : List Val) (hW : SmallLen W.length) (tp : List Bool) (htp : tp.length = W.length)
    (err : Option Nat) :
    ∃ m, finish cfg W (wrap64 (lastOf ((W.length : Int) + 1) 1 tp (-1) - 1)) err
      = .ok ⟨{ cfg with err := err }, W.take m⟩ := by
  have hsm := small_int hW
  obtain ⟨h1, h2⟩ := lastOf_bounds W.length hW tp 1 (-1) (by omega) (by omega) (by omega) (by omega)
  unfold finish
  split
  · have e1 : wrap64 (lastOf ((W.length : Int) + 1) 1 tp (-1) - 1) = lastOf ((W.length : Int) + 1) 1 tp (-1) - 1 := by
      rw [wrap64_eq] <;> omega
    rw [e1, wrap64_eq (by omega) (by omega)]
    have : ¬ (lastOf ((W.length : Int) + 1) 1 tp (-1) - 1 + 1 > (W.length : Int) + 1) := by omega
    simp only [this, ↓reduceIte]
    exact ⟨_, rfl⟩
  · exact ⟨W.length, by simp⟩

/-- with a gap below the scan limit: the result is a prefix of what the relocation loop leaves -/
theorem defrag_gap_take (s : Stk) (hs : SmallLen s.xs.length) (max : Int) (pre r : List Val)
    (hx : s.xs = pre ++ Val.nil :: r) (hp : pre.all nonNil = true) (hm : ¬ max ≤ (pre.length : Int)) :
    ∃ m, s.defrag max = .ok ⟨{ s.cfg with err := if s.endBit then some defragErr else none },
      (walk max pre 1 r (true :: List.replicate s.xs.length false)).1.take m⟩ := by
  obtain ⟨T', hT1, hT2, hd⟩ := defrag_gap s hs max pre r hx hp
  rw [hd]
  simp only [hm, ↓reduceIte]
  have hwl : (walk max pre 1 r (true :: List.replicate s.xs.length false)).1.length = s.xs.length := by
    rw [walk_length, hx]; simp; omega
  have hW : SmallLen (walk max pre 1 r (true :: List.replicate s.xs.length false)).1.length := by rw [hwl]; exact hs
  obtain ⟨m, hm⟩ := finish_ok s.cfg _ hW (T'.drop 1 ++ [false]) (by
    rw [hwl]; simp only [List.length_append, List.length_drop, List.length_cons, List.length_nil, hT2]
    have : 1 ≤ s.xs.length := by rw [hx]; simp; omega
    omega) (if s.endBit then some defragErr else none)
  rw [hwl] at hm
  exact ⟨m, hm⟩

/-- `finish` with an in-range truncation point -/
theorem finish_eq (cfg : Cfg) (W : List Val) (hW : SmallLen W.length) (l : Int) (err : Option Nat)
    (h1 : -4611686018427387904 ≤ l) (h2 : l ≤ W.length) :
    finish cfg W l err = .ok ⟨{ cfg with err := err }, if err = none ∧ 0 ≤ l then W.take l.toNat else W⟩ := by
  have hsm := small_int hW
  have hl : InInt l := by rw [inInt_iff]; omega
  unfold finish
  rw [defrag_trunc_sem _ _ hl]
  cases err with
  | some e => simp
  | none =>
    simp only [Option.isSome_none, true_and, decide_eq_true_eq]
    by_cases hl : l ≥ 0
    · have : ¬ (wrap64 (l + 1) > (W.length : Int) + 1) := by rw [wrap64_eq (by omega) (by omega)]; omega
      have e : (wrap64 (l + 1) - 1).toNat = l.toNat := by rw [wrap64_eq (by omega) (by omega)]; omega
      simp only [hl, this, ↓reduceIte, e]
    · simp only [hl, ↓reduceIte]

theorem all_nonNil_of_any (xs : List Val) (h : xs.any Val.isNil = false) : xs.all nonNil = true := by
  induction xs with
  | nil => rfl
  | cons v r ih =>
    simp only [List.any_cons, Bool.or_eq_false_iff] at h
    simp [nonNil, h.1, ih h.2]

theorem all_nonNil_filter (xs : List Val) : (xs.filter nonNil).all nonNil = true := by
  simp

/-! ## the recursion of the exported method -/

theorem depth_mem : ∀ (xs : List Val) (v : Val), v ∈ xs → Val.depth v ≤ Val.depthL xs := by
  intro xs
  induction xs with
  | nil => intro v h; cases h
  | cons a r ih =>
    intro v hv
    simp only [Val.depthL]
    rcases List.mem_cons.mp hv with rfl | hv
    · exact Nat.le_max_left _ _
    · exact Nat.le_trans (ih v hv) (Nat.le_max_right _ _)

theorem compactL_eq : ∀ (xs : List Val), compactL xs = (xs.filter nonNil).map compactV := by
  intro xs
  induction xs with
  | nil => simp [compactL]
  | cons v r ih => cases hv : v.isNil <;> simp [compactL, nonNil, hv, ih]

theorem compactV_stk (f : Form) (c : Cfg) (xs : List Val) :
    compactV (.stk f c xs) = .stk f (compact ⟨c, xs⟩).cfg (compact ⟨c, xs⟩).xs := by
  have : (⟨c, xs⟩ : Stk).readOnly = roCfg c := rfl
  simp only [compactV, compact, this]
  cases roCfg c <;> rfl

theorem compactV_cnd_stk (f : Form) (c : Cfg) (kw : Text) (op : Op) (f2 : Form) (c2 : Cfg) (xs2 : List Val) :
    compactV (.cnd f c kw op (.stk f2 c2 xs2)) = .cnd f c kw op (.stk f2 (compact ⟨c2, xs2⟩).cfg (compact ⟨c2, xs2⟩).xs) := by
  have : (⟨c2, xs2⟩ : Stk).readOnly = roCfg c2 := rfl
  simp only [compactV, compact, this]
  cases roCfg c2 <;> rfl

theorem defragMax_pos (args : List Int) : 0 < defragMax args :=
  (GenSem.calculateDefragMax _ _).2

theorem defragMax_idem (m : Int) (h : 0 < m) : defragMax [m] = m :=
  (GenSem.calculateDefragMax _ _).1 (by simp) h

theorem mapM_ok {α β ε : Type} (f : α → Except ε β) (g : α → β) : ∀ (l : List α), (∀ a ∈ l, f a = .ok (g a)) →
    l.mapM f = .ok (l.map g) := by
  intro l
  induction l with
  | nil => intro _; rfl
  | cons a r ih =>
    intro h
    rw [List.mapM_cons, h a (by simp), ih (fun b hb => h b (by simp [hb]))]
    rfl

end Stk
end Stackage
