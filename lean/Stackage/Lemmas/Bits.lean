import Stackage.Basic
import Stackage.Gen.Funcs

/-!
# Bit-level facts about the regenerated `cfgFlag` helpers, for every word `r : Nat`

Everything is phrased with `Nat.testBit`; a flag is `2 ^ i`.
-/

set_option linter.unusedSimpArgs false
namespace Stackage.Bits

theorem two_pow_ne_zero (i : Nat) : (2 : Nat) ^ i ≠ 0 := Nat.ne_of_gt (Nat.two_pow_pos i)

theorem and_two_pow (r i : Nat) : r &&& 2 ^ i = if r.testBit i then 2 ^ i else 0 := by
  apply Nat.eq_of_testBit_eq; intro j
  rw [Nat.testBit_and, Nat.testBit_two_pow]
  by_cases hij : i = j
  · subst hij
    by_cases h : r.testBit i <;> simp [h, Nat.testBit_two_pow]
  · by_cases h : r.testBit i <;> simp [h, hij, Nat.testBit_two_pow]

/-- a single-bit mask is non-zero exactly when the bit is set (hand-written `LogLevel.positive` uses this form) -/
theorem and_two_pow_ne_zero (r i : Nat) : ((r &&& 2 ^ i) != 0) = r.testBit i := by
  rw [and_two_pow]
  by_cases h : r.testBit i <;> simp [h, two_pow_ne_zero]

/-- `cfgFlag.positive` of a single flag reads exactly that bit -/
theorem positive_two_pow (r i : Nat) : Gen.cfgFlag_positive r (2 ^ i) = r.testBit i := by
  -- shape-independent: works for `r & x != 0` as well as for `r & x == x` (equal for a single-bit `x`)
  have hne := two_pow_ne_zero i
  have hne' : ¬ (0 = 2 ^ i) := fun h => hne h.symm
  unfold Gen.cfgFlag_positive; rw [and_two_pow]
  by_cases h : r.testBit i <;> simp [h, hne, hne']

/-- `cfgFlag.shift` -/
theorem testBit_shift (r i j : Nat) : (Gen.cfgFlag_shift r (2 ^ i)).testBit j = (r.testBit j || decide (i = j)) := by
  unfold Gen.cfgFlag_shift; simp [Nat.testBit_or, Nat.testBit_two_pow]

theorem testBit_65535 (j : Nat) : (65535 : Nat).testBit j = decide (j < 16) := by
  have : (65535 : Nat) = 2 ^ 16 - 1 := by decide
  rw [this, Nat.testBit_two_pow_sub_one]

/-- Go `r &^ x` on 16-bit words, bit by bit -/
theorem testBit_andNot (r x j : Nat) (hj : j < 16) : (andNot r x).testBit j = (r.testBit j && !x.testBit j) := by
  unfold andNot
  rw [Nat.testBit_and, Nat.testBit_xor, testBit_65535]
  cases r.testBit j <;> cases x.testBit j <;> simp [hj]

/-- `cfgFlag.unshift` -/
theorem testBit_unshift (r i j : Nat) (hj : j < 16) :
    (Gen.cfgFlag_unshift r (2 ^ i)).testBit j = (r.testBit j && !decide (i = j)) := by
  unfold Gen.cfgFlag_unshift; simp [testBit_andNot, Nat.testBit_two_pow, hj]

/-- `cfgFlag.toggle` -/
theorem testBit_toggle (r i j : Nat) (hj : j < 16) :
    (Gen.cfgFlag_toggle r (2 ^ i)).testBit j = (if i = j then !r.testBit j else r.testBit j) := by
  unfold Gen.cfgFlag_toggle
  rw [positive_two_pow]
  cases h : r.testBit i with
  | true =>
    simp only [if_true]; rw [testBit_unshift r i j hj]
    by_cases hij : i = j
    · subst hij; simp [h]
    · simp [hij]
  | false =>
    simp only [Bool.false_eq_true, if_false]; rw [testBit_shift]
    by_cases hij : i = j
    · subst hij; simp [h]
    · simp [hij]

/-- setting and then clearing a flag that was clear gives the same 16-bit word back (`cfgFlag` is a `uint16`:
`r < 65536`; the model's `&^` masks to 16 bits, so the bound is needed) -/
theorem unshift_shift_of_clear (r i : Nat) (hi : i < 16) (hr : r < 65536) (hb : r.testBit i = false) :
    Gen.cfgFlag_unshift (Gen.cfgFlag_shift r (2 ^ i)) (2 ^ i) = r := by
  apply Nat.eq_of_testBit_eq; intro j
  by_cases hj : j < 16
  · rw [testBit_unshift _ _ _ hj, testBit_shift]
    by_cases hij : i = j
    · subst hij; simp [hb]
    · simp [hij]
  · have hj' : 16 ≤ j := Nat.le_of_not_lt hj
    have h1 : r.testBit j = false := by
      apply Nat.testBit_lt_two_pow
      calc r < 2 ^ 16 := by simpa using hr
        _ ≤ 2 ^ j := Nat.pow_le_pow_right (by decide) hj'
    have hij : ¬ i = j := by omega
    unfold Gen.cfgFlag_unshift andNot
    rw [Nat.testBit_and, Nat.testBit_xor, testBit_65535, Nat.testBit_two_pow, h1]
    simp [hj, hij]

end Stackage.Bits
