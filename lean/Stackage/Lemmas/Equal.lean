import Stackage.Spec.EqSpec
import Stackage.Lemmas.GenSem

/-!
# Lemmas about the equality model (C05)
-/

set_option linter.unusedSimpArgs false
set_option linter.unusedVariables false

namespace Stackage
open EV EqSpec

/-! ## The generated capacity / length rule -/

theorem capLenEqual_iff (c1 c2 l1 l2 : Int) : Gen.capLenEqual c1 c2 l1 l2 = true ↔ (c1 = c2 ∧ l1 = l2) := by
  rw [GenSem.capLenEqual, decide_eq_true_eq]

theorem capLenEqual_nat (c c' n n' : Nat) :
    Gen.capLenEqual (c : Int) (c' : Int) (n : Int) (n' : Int) = true ↔ (c = c' ∧ n = n') := by
  rw [capLenEqual_iff]; omega

/-! ## Representation invariant

`wfEV x`: the parallel lists of `x` (map keys / values, struct field metadata / values) have matching lengths —
true of every Go value; the line-protocol parser produces nothing else. -/

mutual
def wfEV (x : EV) : Bool :=
  match x with
  | .ptr _ e => wfEV e
  | .iface e => wfEV e
  | .seq _ _ _ xs => wfL xs
  | .map _ ks vs => ks.length == vs.length && wfL vs
  | .struct _ fs vs => fs.length == vs.length && wfL vs
  | _ => true
termination_by structural x
def wfL (xs : List EV) : Bool :=
  match xs with
  | [] => true
  | x :: xs => wfEV x && wfL xs
termination_by structural xs
end

def sideTame (y : Side) : Prop :=
  match y.d with
  | none => True
  | some d => wfEV d = true

theorem tame_deref : ∀ (x : EV), wfEV x = true → wfEV (deref x) = true
  | .ptr _ e => by intro h; simp only [wfEV] at h; simp only [deref]; exact tame_deref e h
  | .prim .. | .named .. | .uptr .. | .nilptr .. | .seq .. | .map .. | .struct .. | .func .. | .chan .. | .inil | .iface .. => by
      intro h; simpa [deref] using h

theorem tame_unbox : ∀ (x e : EV), wfEV x = true → unbox x = some e → wfEV e = true
  | .iface i => by intro e h hu; simp only [wfEV] at h; simp only [unbox] at hu; exact tame_unbox i e h hu
  | .inil => by intro e h hu; simp [unbox] at hu
  | .prim .. | .named .. | .uptr .. | .nilptr .. | .seq .. | .map .. | .struct .. | .func .. | .chan .. | .ptr .. => by
      intro e h hu; simp only [unbox, Option.some.injEq] at hu; rw [← hu]; exact h

theorem sideTame_any (w : EV) (h : wfEV w = true) : sideTame (sideAny w) := by
  unfold sideAny sideTame
  cases hu : unbox w with
  | none => simp
  | some e => simp only []; exact tame_deref e (tame_unbox w e h hu)

theorem sideTame_val (w : EV) (h : wfEV w = true) : sideTame (sideVal w) := by
  unfold sideVal sideTame; simp only []; exact tame_deref w h

theorem tame_lookup (k : EV) : ∀ (ks vs : List EV) (w : EV), wfL vs = true → lookup k ks vs = some w → wfEV w = true
  | [], _, w => by intro _ h; simp [lookup] at h
  | _ :: _, [], w => by intro _ h; simp [lookup] at h
  | k' :: ks, v :: vs, w => by
      intro ht h
      simp only [wfL, Bool.and_eq_true] at ht
      simp only [lookup] at h
      split at h
      · simp only [Option.some.injEq] at h; rw [← h]; exact ht.1
      · exact tame_lookup k ks vs w ht.2 h

/-! ## Totality of the leaf comparison -/

mutual
theorem veq_total : ∀ (x : EV) (rv sp : Bool) (y : Side), wfEV x = true → sideTame y →
    ∃ r, veq rv sp x y = .ok r
  | .ptr _ e, rv, sp, y, hx, hy => by
      simp only [veq]; simp only [wfEV] at hx; exact veq_total e _ _ y hx hy
  | .iface e, rv, sp, y, hx, hy => by
      simp only [veq]; simp only [wfEV] at hx
      split
      · exact ⟨_, rfl⟩
      · exact veq_total e _ _ y hx hy
  | .inil, rv, sp, y, hx, hy => by
      simp only [veq]
      split
      · exact ⟨_, rfl⟩
      · split <;> exact ⟨_, rfl⟩
  | .prim .., rv, sp, y, hx, hy => by simp only [veq]; exact ⟨_, rfl⟩
  | .named .., rv, sp, y, hx, hy => by simp only [veq]; exact ⟨_, rfl⟩
  | .uptr .., rv, sp, y, hx, hy => by simp only [veq]; exact ⟨_, rfl⟩
  | .nilptr .., rv, sp, y, hx, hy => by simp only [veq]; exact ⟨_, rfl⟩
  | .func .., rv, sp, y, hx, hy => by simp only [veq]; exact ⟨_, rfl⟩
  | .chan .., rv, sp, y, hx, hy => by simp only [veq]; exact ⟨_, rfl⟩
  | .seq _ _ c xs, rv, sp, y, hx, hy => by
      simp only [veq]; simp only [wfEV] at hx
      unfold sideTame at hy
      split
      · rename_i a t c' ys hd
        rw [hd] at hy; simp only [wfEV] at hy
        split
        · rename_i hc
          have hl : xs.length = ys.length := ((capLenEqual_nat c c' xs.length ys.length).mp hc).2
          exact seqLoop_total xs ys hl hx hy
        · exact ⟨_, rfl⟩
      · exact ⟨_, rfl⟩
  | .map t ks vs, rv, sp, y, hx, hy => by
      simp only [veq]; simp only [wfEV, Bool.and_eq_true, beq_iff_eq] at hx
      unfold sideTame at hy
      split
      · rename_i t' ks' vs' hd
        rw [hd] at hy; simp only [wfEV, Bool.and_eq_true, beq_iff_eq] at hy
        split
        · exact ⟨_, rfl⟩
        · split
          · exact ⟨_, rfl⟩
          · exact mapLoop_total ks vs ks' vs' hx.1 hx.2 hy.2
      · exact ⟨_, rfl⟩
  | .struct t fs vs, rv, sp, y, hx, hy => by
      simp only [veq]; simp only [wfEV, Bool.and_eq_true, beq_iff_eq] at hx
      unfold sideTame at hy
      split
      · rename_i t' gs ws hd
        rw [hd] at hy; simp only [wfEV, Bool.and_eq_true, beq_iff_eq] at hy
        split
        · exact ⟨_, rfl⟩
        · rename_i hn
          have hn' : fs.length = gs.length := by simpa using hn
          exact structLoop_total fs vs gs ws hx.1 hy.1 hn' hx.2 hy.2
      · exact ⟨_, rfl⟩

theorem seqLoop_total : ∀ (xs ys : List EV), xs.length = ys.length → wfL xs = true → wfL ys = true →
    ∃ r, seqLoop xs ys = .ok r
  | [], ys, _, _, _ => by simp only [seqLoop]; exact ⟨_, rfl⟩
  | x :: xs, [], hl, _, _ => by simp at hl
  | x :: xs, y :: ys, hl, hx, hy => by
      simp only [wfL, Bool.and_eq_true] at hx hy
      simp only [List.length_cons, Nat.add_right_cancel_iff] at hl
      obtain ⟨r, hr⟩ := veq_total x true false (sideVal y) hx.1 (sideTame_val y hy.1)
      simp only [seqLoop, hr]
      cases r with
      | none => exact seqLoop_total xs ys hl hx.2 hy.2
      | some e => exact ⟨_, rfl⟩

theorem mapLoop_total : ∀ (ks vs ks' vs' : List EV), ks.length = vs.length → wfL vs = true → wfL vs' = true →
    ∃ r, mapLoop ks vs ks' vs' = .ok r
  | [], vs, ks', vs', _, _, _ => by simp only [mapLoop]; exact ⟨_, rfl⟩
  | k :: ks, [], ks', vs', hl, _, _ => by simp at hl
  | k :: ks, v :: vs, ks', vs', hl, hx, hy => by
      simp only [wfL, Bool.and_eq_true] at hx
      simp only [List.length_cons, Nat.add_right_cancel_iff] at hl
      simp only [mapLoop]
      cases hlk : lookup k ks' vs' with
      | none => exact ⟨_, rfl⟩
      | some w =>
        simp only []
        obtain ⟨r, hr⟩ := veq_total v false false (sideAny w) hx.1 (sideTame_any w (tame_lookup k ks' vs' w hy hlk))
        rw [hr]
        cases r with
        | none => exact mapLoop_total ks vs ks' vs' hl hx.2 hy
        | some e => exact ⟨_, rfl⟩

theorem structLoop_total : ∀ (fs : List Fld) (vs : List EV) (gs : List Fld) (ws : List EV),
    fs.length = vs.length → gs.length = ws.length → fs.length = gs.length → wfL vs = true → wfL ws = true →
    ∃ r, structLoop fs vs gs ws = .ok r
  | [], vs, gs, ws, _, _, _, _, _ => by simp only [structLoop]; exact ⟨_, rfl⟩
  | f :: fs, [], gs, ws, h1, _, _, _, _ => by simp at h1
  | f :: fs, v :: vs, [], ws, _, _, h3, _, _ => by simp at h3
  | f :: fs, v :: vs, g :: gs, [], _, h2, _, _, _ => by simp at h2
  | f :: fs, v :: vs, g :: gs, w :: ws, h1, h2, h3, hx, hy => by
      simp only [wfL, Bool.and_eq_true] at hx hy
      simp only [List.length_cons, Nat.add_right_cancel_iff] at h1 h2 h3
      have ih := structLoop_total fs vs gs ws h1 h2 h3 hx.2 hy.2
      simp only [structLoop]
      split
      · exact ih
      · split
        · exact ⟨_, rfl⟩
        · split
          · exact ⟨_, rfl⟩
          · obtain ⟨r, hr⟩ := veq_total v false false (sideAny w) hx.1 (sideTame_any w hy.1)
            rw [hr]
            cases r with
            | none => exact ih
            | some e => exact ⟨_, rfl⟩
end

/-! ## Totality of the slot comparison -/

theorem stackHead_none_len {c c' : Cfg} {n n' : Nat} (h : stackHead c n c' n' = none) : n = n' := by
  unfold stackHead at h
  split at h
  · simp at h
  · rename_i hc
    simp only [Bool.not_eq_true', Bool.not_eq_false] at hc
    have := (capLenEqual_iff _ _ _ _).mp hc
    omega

theorem stackHead_none_iff (c c' : Cfg) (n n' : Nat) :
    stackHead c n c' n' = none ↔ (c.cap = c'.cap ∧ n = n' ∧ c.kindStr = c'.kindStr) := by
  unfold stackHead
  by_cases hc : Gen.capLenEqual c.cap c'.cap ((n : Int) + 1) ((n' : Int) + 1) = true
  · have h := (capLenEqual_iff _ _ _ _).mp hc
    by_cases hk : c.kindStr = c'.kindStr
    · simp [hc, hk]; omega
    · simp [hc, hk]
  · have h := mt (capLenEqual_iff c.cap c'.cap ((n : Int) + 1) ((n' : Int) + 1)).mpr hc
    simp only [Bool.not_eq_true] at hc
    simp [hc]
    intro h1 h2; exfalso; apply h; omega

/-! `wfV`: every leaf is `wfEV`. -/
mutual
def wfV (x : Val) : Bool :=
  match x with
  | .nil => true
  | .leaf l => wfEV l.toEV
  | .stk _ _ xs => wfVL xs
  | .cnd _ _ _ _ ex => wfV ex
  | .zstk _ => true
  | .zcnd _ => true
  | .anys xs => wfL (xs.map Val.anyElem)
  | .opv _ => true
termination_by structural x
def wfVL (xs : List Val) : Bool :=
  match xs with
  | [] => true
  | x :: xs => wfV x && wfVL xs
termination_by structural xs
end

theorem tame_handleStruct (b : Bool) (f : Form) : wfEV (handleStruct b f) = true := by
  cases f <;> simp [handleStruct, handleCore, wfEV, wfL]

theorem tameV_toEV (x : Val) (h : wfV x = true) : wfEV x.toEV = true := by
  cases x with
  | nil => simp [Val.toEV, wfEV]
  | leaf l => simpa [Val.toEV, wfV] using h
  | stk f c xs => exact tame_handleStruct false f
  | cnd f c kw op ex => exact tame_handleStruct true f
  | zstk f => exact tame_handleStruct false f
  | zcnd f => exact tame_handleStruct true f
  | anys xs => simpa [Val.toEV, wfV, wfEV] using h
  | opv o => cases o <;> simp [Val.toEV, opEV, wfEV, wfL]

theorem leafVeq_total (xe : EV) (y : Val) (hx : wfEV xe = true) (hy : wfV y = true) : ∃ r, leafVeq xe y = .ok r := by
  unfold leafVeq
  split
  · exact ⟨_, rfl⟩
  · exact veq_total xe false false _ hx (sideTame_any _ (tameV_toEV y hy))

mutual
theorem Val.veq_total (hook : EqHook) : ∀ (x y : Val), wfV x = true → wfV y = true →
    ∃ r, Val.veq hook x y = .ok r
  | .stk f c xs, y, hx, hy => by
      simp only [Val.veq]
      split
      · rename_i f' c' ys
        split
        · exact ⟨_, rfl⟩
        · split
          · exact ⟨_, rfl⟩
          · rename_i hh
            simp only [wfV] at hx hy
            exact stkLoop_total hook xs ys (stackHead_none_len hh) hx hy
      · exact ⟨_, rfl⟩
  | .cnd f c kw op ex, y, hx, hy => by
      simp only [Val.veq]
      split
      · rename_i f' c' kw' op' ex'
        split
        · exact ⟨_, rfl⟩
        · split
          · exact ⟨_, rfl⟩
          · split
            · exact ⟨_, rfl⟩
            · simp only [wfV] at hx hy
              exact Val.veq_total hook ex ex' hx hy
      · exact ⟨_, rfl⟩
  | .nil, y, hx, hy => by
      simp only [Val.veq]
      exact leafVeq_total EV.inil y (by simp [wfEV]) hy
  | .leaf l, y, hx, hy => by
      simp only [Val.veq]
      exact leafVeq_total l.toEV y (by simpa [wfV] using hx) hy
  | .zstk f, y, hx, hy => by
      simp only [Val.veq]
      exact leafVeq_total _ y (tameV_toEV (.zstk f) hx) hy
  | .zcnd f, y, hx, hy => by
      simp only [Val.veq]
      exact leafVeq_total _ y (tameV_toEV (.zcnd f) hx) hy
  | .anys xs, y, hx, hy => by
      simp only [Val.veq]
      exact leafVeq_total _ y (tameV_toEV (.anys xs) hx) hy
  | .opv o, y, hx, hy => by
      simp only [Val.veq]
      exact leafVeq_total _ y (tameV_toEV (.opv o) hx) hy

theorem stkLoop_total (hook : EqHook) : ∀ (xs ys : List Val), xs.length = ys.length →
    wfVL xs = true → wfVL ys = true → ∃ r, stkLoop hook xs ys = .ok r
  | [], ys, _, _, _ => by simp only [stkLoop]; exact ⟨_, rfl⟩
  | x :: xs, [], hl, _, _ => by simp at hl
  | x :: xs, y :: ys, hl, hx, hy => by
      simp only [wfVL, Bool.and_eq_true] at hx hy
      simp only [List.length_cons, Nat.add_right_cancel_iff] at hl
      obtain ⟨r, hr⟩ := Val.veq_total hook x y hx.1 hy.1
      simp only [stkLoop, hr]
      cases r with
      | none => exact stkLoop_total hook xs ys hl hx.2 hy.2
      | some e => exact ⟨_, rfl⟩
end

theorem Val.IsEqual_total (hook : EqHook) (same : Bool) (a o : Val) (ha : a.isHandle = true)
    (hta : wfV a = true) (hto : wfV o = true) : ∃ r, Val.IsEqual hook same a o = .ok r := by
  cases a with
  | stk f c xs =>
      simp only [wfV] at hta
      cases o <;> simp only [Val.IsEqual] <;> try exact ⟨_, rfl⟩
      rename_i f' c' ys
      simp only [wfV] at hto
      split
      · exact ⟨_, rfl⟩
      · split
        · exact ⟨_, rfl⟩
        · split
          · exact ⟨_, rfl⟩
          · rename_i hh
            exact stkLoop_total hook xs ys (stackHead_none_len hh) hta hto
  | cnd f c kw op ex =>
      simp only [wfV] at hta
      simp only [Val.IsEqual]
      split
      · exact ⟨_, rfl⟩
      · cases o <;> simp only [] <;> try exact ⟨_, rfl⟩
        rename_i f' c' kw' op' ex'
        simp only [wfV] at hto
        split
        · exact ⟨_, rfl⟩
        · split
          · exact ⟨_, rfl⟩
          · exact Val.veq_total hook ex ex' hta hto
  | zstk f => simp only [Val.IsEqual]; exact ⟨_, rfl⟩
  | zcnd f => simp only [Val.IsEqual]; exact ⟨_, rfl⟩
  | nil => simp [Val.isHandle] at ha
  | leaf l => simp [Val.isHandle] at ha
  | anys xs => simp [Val.isHandle] at ha
  | opv o => simp [Val.isHandle] at ha

/-! ## `strip`, `sideAny`, `sideVal` on the domain -/

/-- head-normal: not a pointer, not an interface -/
def hn : EV → Prop
  | .ptr .. => False
  | .iface .. => False
  | .inil => False
  | _ => True

theorem strip_hn : ∀ (y z : EV), strip y = some z → hn z
  | .ptr _ e, z => by intro h; simp only [strip] at h; exact strip_hn e z h
  | .iface e, z => by intro h; simp only [strip] at h; exact strip_hn e z h
  | .inil, z => by intro h; simp [strip] at h
  | .prim .., z | .named .., z | .uptr .., z | .nilptr .., z | .seq .., z | .map .., z | .struct .., z | .func .., z | .chan .., z => by
      intro h; simp only [strip, Option.some.injEq] at h; rw [← h]; trivial

theorem deref_strip_ptr : ∀ (y : EV), domEV .ptr y = true → some (deref y) = strip y
  | .ptr _ e => by intro h; simp only [domEV] at h; simp only [deref, strip]; exact deref_strip_ptr e (by simpa using h)
  | .iface e => by intro h; simp [domEV] at h
  | .inil => by intro h; simp [domEV] at h
  | .prim .. | .named .. | .uptr .. | .nilptr .. | .seq .. | .map .. | .struct .. | .func .. | .chan .. => by
      intro h; simp [deref, strip]

theorem deref_strip_elem : ∀ (y : EV), domEV .elem y = true → some (deref y) = strip y
  | .ptr _ e => by intro h; simp only [domEV] at h; simp only [deref, strip]; exact deref_strip_elem e (by simpa using h)
  | .iface e => by intro h; simp [domEV] at h
  | .inil => by intro h; simp [domEV] at h
  | .prim .. | .named .. | .uptr .. | .nilptr .. | .seq .. | .map .. | .struct .. | .func .. | .chan .. => by
      intro h; simp [deref, strip]

theorem sideAny_d : ∀ (y : EV), domEV .top y = true → (sideAny y).d = strip y
  | .iface e => by
      intro h; simp only [domEV] at h
      have := sideAny_d e (by simpa using h)
      simpa [sideAny, unbox, strip] using this
  | .inil => by intro h; simp [sideAny, unbox, strip]
  | .ptr t e => by
      intro h; simp only [domEV] at h
      have := deref_strip_ptr e (by simpa using h)
      simpa [sideAny, unbox, strip, deref] using this
  | .prim .. | .named .. | .uptr .. | .nilptr .. | .seq .. | .map .. | .struct .. | .func .. | .chan .. => by
      intro h; simp [sideAny, unbox, deref, strip]

theorem sideVal_d (y : EV) (h : domEV .elem y = true) : (sideVal y).d = strip y := by
  simp only [sideVal]; exact deref_strip_elem y h

/-- no function and no channel behind a pointer that `derefPtr` followed from an `any` -/
theorem dom_ptr_core : ∀ (y z : EV), domEV .ptr y = true → strip y = some z → z.kind ≠ .func ∧ z.kind ≠ .chan
  | .ptr _ e, z => by intro h hs; simp only [domEV] at h; simp only [strip] at hs; exact dom_ptr_core e z (by simpa using h) hs
  | .iface e, z => by intro h; simp [domEV] at h
  | .inil, z => by intro h; simp [domEV] at h
  | .func .., z => by intro h; simp [domEV] at h
  | .chan .., z => by intro h; simp [domEV] at h
  | .prim .., z | .named .., z | .uptr .., z | .nilptr .., z | .seq .., z | .map .., z | .struct .., z => by
      intro h hs; simp only [strip, Option.some.injEq] at hs; rw [← hs]; simp [kind]; try (split <;> simp)

theorem dom_elem_core : ∀ (y z : EV), domEV .elem y = true → strip y = some z → z.kind ≠ .chan
  | .ptr _ e, z => by intro h hs; simp only [domEV] at h; simp only [strip] at hs; exact dom_elem_core e z (by simpa using h) hs
  | .iface e, z => by intro h; simp [domEV] at h
  | .inil, z => by intro h; simp [domEV] at h
  | .chan .., z => by intro h; simp [domEV] at h
  | .prim .., z | .named .., z | .uptr .., z | .nilptr .., z | .seq .., z | .map .., z | .struct .., z | .func .., z => by
      intro h hs; simp only [strip, Option.some.injEq] at hs; rw [← hs]; simp [kind]; try (split <;> simp)

/-- the Kind `functionsEqual` / `channelsEqual` see for a function or channel operand -/
theorem sideAny_ok : ∀ (y z : EV), domEV .top y = true → strip y = some z → (z.kind = .func ∨ z.kind = .chan) → (sideAny y).ok = z.kind
  | .iface e, z => by
      intro h hs hk; simp only [domEV] at h; simp only [strip] at hs
      have := sideAny_ok e z (by simpa using h) hs hk
      simpa [sideAny, unbox] using this
  | .inil, z => by intro h hs; simp [strip] at hs
  | .ptr t e, z => by
      intro h hs hk; simp only [domEV] at h; simp only [strip] at hs
      have := dom_ptr_core e z (by simpa using h) hs
      rcases hk with hk | hk
      · exact absurd hk this.1
      · exact absurd hk this.2
  | .prim .., z | .named .., z | .uptr .., z | .nilptr .., z | .seq .., z | .map .., z | .struct .., z | .func .., z | .chan .., z => by
      intro h hs hk; simp only [strip, Option.some.injEq] at hs; rw [← hs]; simp [sideAny, unbox, kind]

theorem sideVal_ok (y z : EV) (h : domEV .elem y = true) (hs : strip y = some z) : (sideVal y).ok = z.kind := by
  have := deref_strip_elem y h
  rw [hs] at this
  simp only [Option.some.injEq] at this
  simp [sideVal, this]

/-! ## The leaf comparison decides "same description" on the domain -/

def sideOf (rv : Bool) (y : EV) : Side := if rv then sideVal y else sideAny y
def yctx (rv : Bool) : Ctx := if rv then .elem else .top
def ctxOf (rv sp : Bool) : Ctx := if rv then .elem else if sp then .ptr else .top

/-- what the proof needs to know about the resolved operand `y` -/
structure YOK (rv : Bool) (y : EV) (s : Side) : Prop where
  d : s.d = strip y
  fn : ∀ z, strip y = some z → z.kind = .func → s.ok = .func
  ch : ∀ z, strip y = some z → z.kind = .chan → s.ok = .chan ∧ rv = false

theorem yok (rv : Bool) (y : EV) (h : domEV (yctx rv) y = true) : YOK rv y (sideOf rv y) := by
  cases rv with
  | false =>
      simp only [yctx, sideOf, Bool.false_eq_true, ↓reduceIte] at *
      refine ⟨sideAny_d y h, ?_, ?_⟩
      · intro z hs hk; rw [sideAny_ok y z h hs (Or.inl hk), hk]
      · intro z hs hk; rw [sideAny_ok y z h hs (Or.inr hk), hk]; exact ⟨rfl, rfl⟩
  | true =>
      simp only [yctx, sideOf, ↓reduceIte] at *
      refine ⟨sideVal_d y h, ?_, ?_⟩
      · intro z hs hk; rw [sideVal_ok y z h hs, hk]
      · intro z hs hk; exact absurd hk (dom_elem_core y z h hs)

/-- the children of a slice / map / struct core are in the domain again -/
theorem dom_strip : ∀ (c : Ctx) (y z : EV), domEV c y = true → strip y = some z → ∃ c', domEV c' z = true
  | c, .ptr _ e, z => by intro h hs; simp only [domEV] at h; simp only [strip] at hs; exact dom_strip _ e z h hs
  | c, .iface e, z => by
      intro h hs; simp only [domEV] at h; simp only [strip] at hs
      split at h
      · exact dom_strip _ e z h hs
      · simp at h
  | c, .inil, z => by intro h hs; simp [strip] at hs
  | c, .prim .., z | c, .named .., z | c, .uptr .., z | c, .nilptr .., z | c, .seq .., z | c, .map .., z | c, .struct .., z
  | c, .func .., z | c, .chan .., z => by
      intro h hs; simp only [strip, Option.some.injEq] at hs; rw [← hs]; exact ⟨c, h⟩

theorem thenLoop_iff (r L : EqRes) :
    ((match r with | .ok none => L | r => r) = .ok none) ↔ (r = .ok none ∧ L = .ok none) := by
  cases r with
  | error f => simp
  | ok o => cases o <;> simp

theorem sameList_length : ∀ (xs ys : List EV), sameList xs ys = true → xs.length = ys.length
  | [], [] => by simp
  | [], _ :: _ => by simp [sameList]
  | _ :: _, [] => by simp [sameList]
  | x :: xs, y :: ys => by
      simp only [sameList, Bool.and_eq_true, List.length_cons, Nat.add_right_cancel_iff]
      intro h; exact sameList_length xs ys h.2

theorem lookup_eq_find (k : EV) (hk : isGoodKey k = true) : ∀ (ks vs : List EV), lookup k ks vs = find k ks vs
  | [], _ => by simp [lookup, find]
  | _ :: _, [] => by simp [lookup, find]
  | k' :: ks, v :: vs => by
      have hg : selfEqual k = true := by
        cases k <;> simp [isGoodKey, selfEqual] at hk ⊢ <;> exact hk
      simp only [lookup, find, keyEq, hg, Bool.and_true, decide_eq_true_eq]
      rw [lookup_eq_find k hk ks vs]

theorem dom_find (k : EV) : ∀ (ks vs : List EV) (w : EV), domVals vs = true → find k ks vs = some w → domEV .top w = true
  | [], _, w => by intro _ h; simp [find] at h
  | _ :: _, [], w => by intro _ h; simp [find] at h
  | k' :: ks, v :: vs, w => by
      intro hd h
      simp only [domVals, Bool.and_eq_true] at hd
      simp only [find] at h
      split at h
      · simp only [Option.some.injEq] at h; rw [← h]; exact hd.1
      · exact dom_find k ks vs w hd.2 h

mutual
theorem veq_iff : ∀ (x : EV) (rv sp : Bool) (y : EV) (s : Side), (rv = true → sp = false) →
    domEV (ctxOf rv sp) x = true → domEV (yctx rv) y = true → YOK rv y s →
    (veq rv sp x s = .ok none ↔ sameEV x y = true)
  | .ptr t e, rv, sp, y, s, hsp, hx, hy, hs => by
      simp only [veq, sameEV]
      refine veq_iff e rv (sp || !rv) y s ?_ ?_ hy hs
      · intro h; rw [hsp h, h]; rfl
      · cases rv <;> cases sp <;> simp_all [ctxOf, domEV]
  | .iface e, rv, sp, y, s, hsp, hx, hy, hs => by
      simp only [domEV] at hx
      split at hx
      · rename_i hc
        have hrv : rv = false := by cases rv <;> simp_all [ctxOf]
        have hsp' : sp = false := by cases sp <;> simp_all [ctxOf]
        subst hrv; subst hsp'
        simp only [veq, sameEV, Bool.or_self, Bool.false_eq_true, ↓reduceIte]
        exact veq_iff e false false y s hsp hx hy hs
      · simp at hx
  | .inil, rv, sp, y, s, hsp, hx, hy, hs => by
      have hrv : rv = false := by cases rv <;> cases sp <;> simp_all [ctxOf, domEV]
      have hsp' : sp = false := by cases rv <;> cases sp <;> simp_all [ctxOf, domEV]
      subst hrv; subst hsp'
      obtain ⟨d, ok⟩ := s
      have hd : d = strip y := hs.d
      simp only [veq, sameEV, Bool.or_self, Bool.false_eq_true, ↓reduceIte]
      cases hz : strip y with
      | none => rw [hz] at hd; subst hd; simp
      | some z =>
        rw [hz] at hd; subst hd
        have hnz := strip_hn y z hz
        cases z <;> simp [hn] at hnz <;>
          simp [scalarEq, matchExtra, Side.kind, kind, functionsEqual, channelsEqual, uuptrsEqual]
        all_goals (split <;> simp)
  | .named .., rv, sp, y, s, hsp, hx, hy, hs => by simp [domEV] at hx
  | .nilptr .., rv, sp, y, s, hsp, hx, hy, hs => by simp [domEV] at hx
  | .prim t v n, rv, sp, y, s, hsp, hx, hy, hs => by
      simp only [domEV, Bool.not_eq_true'] at hx
      subst hx
      obtain ⟨d, ok⟩ := s
      have hd : d = strip y := hs.d
      simp only [veq, sameEV]
      cases hz : strip y with
      | none => rw [hz] at hd; subst hd; simp [scalarEq, matchExtra, Side.kind]
      | some z =>
        rw [hz] at hd; subst hd
        have hnz := strip_hn y z hz
        cases z <;> simp [hn] at hnz <;>
          simp [scalarEq, matchExtra, Side.kind, isPrim, unbox, primEqual, kind, and_assoc]
  | .uptr u n, rv, sp, y, s, hsp, hx, hy, hs => by
      obtain ⟨d, ok⟩ := s
      have hd : d = strip y := hs.d
      simp only [veq, sameEV]
      cases hz : strip y with
      | none => rw [hz] at hd; subst hd; simp [scalarEq, matchExtra, Side.kind]
      | some z =>
        rw [hz] at hd; subst hd
        have hnz := strip_hn y z hz
        cases z <;> simp [hn] at hnz <;> cases u <;> cases rv <;> cases sp <;>
          simp [scalarEq, matchExtra, Side.kind, isPrim, unbox, kind, functionsEqual, channelsEqual, uuptrsEqual, xkind]
        all_goals (rename_i u' n'; cases u' <;> simp [uuptrsEqual])
  | .func t i, rv, sp, y, s, hsp, hx, hy, hs => by
      have hxk : xkind rv sp (.func t i) = .func := by
        cases rv <;> cases sp <;> simp_all [xkind, kind, ctxOf, domEV]
      obtain ⟨d, ok⟩ := s
      have hd : d = strip y := hs.d
      simp only [veq, sameEV, hxk]
      cases hz : strip y with
      | none => rw [hz] at hd; subst hd; simp [scalarEq, matchExtra, Side.kind]
      | some z =>
        rw [hz] at hd; subst hd
        have hnz := strip_hn y z hz
        have hfn := hs.fn z hz
        simp only at hfn
        cases z <;> simp [hn] at hnz <;>
          simp [scalarEq, matchExtra, Side.kind, isPrim, unbox, kind, functionsEqual, channelsEqual, uuptrsEqual] at hfn ⊢
        all_goals first | done | (split <;> simp_all) | simp_all
  | .chan t i, rv, sp, y, s, hsp, hx, hy, hs => by
      have hrv : rv = false := by cases rv <;> cases sp <;> simp_all [ctxOf, domEV]
      have hsp' : sp = false := by cases rv <;> cases sp <;> simp_all [ctxOf, domEV]
      subst hrv; subst hsp'
      obtain ⟨d, ok⟩ := s
      have hd : d = strip y := hs.d
      simp only [veq, sameEV]
      cases hz : strip y with
      | none => rw [hz] at hd; subst hd; simp [scalarEq, matchExtra, Side.kind]
      | some z =>
        rw [hz] at hd; subst hd
        have hnz := strip_hn y z hz
        have hch := hs.ch z hz
        simp only at hch
        cases z <;> simp [hn] at hnz <;>
          simp [scalarEq, matchExtra, Side.kind, isPrim, unbox, kind, functionsEqual, channelsEqual, uuptrsEqual, xkind] at hch ⊢
        all_goals first | done | ((repeat' split) <;> simp_all)
  | .seq a t c xs, rv, sp, y, s, hsp, hx, hy, hs => by
      obtain ⟨d, ok⟩ := s
      have hd : d = strip y := hs.d
      simp only [domEV] at hx
      simp only [veq, sameEV]
      cases hz : strip y with
      | none => rw [hz] at hd; subst hd; simp
      | some z =>
        rw [hz] at hd; subst hd
        obtain ⟨c', hdz⟩ := dom_strip _ y z hy hz
        cases z <;> simp
        rename_i a' t' cp ys
        simp only [domEV] at hdz
        by_cases hc : Gen.capLenEqual (c : Int) (cp : Int) (xs.length : Int) (ys.length : Int) = true
        · have hcl := (capLenEqual_nat c cp xs.length ys.length).mp hc
          simp only [hc, ↓reduceIte]
          rw [seqLoop_iff xs ys hcl.2 hx hdz]
          simp [hcl.1]
        · simp only [hc, Bool.false_eq_true, ↓reduceIte]
          have hcl := mt (capLenEqual_nat c cp xs.length ys.length).mpr hc
          constructor
          · intro h; simp at h
          · intro h
            first
              | exact absurd ⟨h.1, sameList_length xs ys h.2⟩ hcl
              | (simp only [Bool.and_eq_true, beq_iff_eq] at h; exact absurd ⟨h.1, sameList_length xs ys h.2⟩ hcl)
  | .map t ks vs, rv, sp, y, s, hsp, hx, hy, hs => by
      obtain ⟨d, ok⟩ := s
      have hd : d = strip y := hs.d
      simp only [domEV, Bool.and_eq_true, beq_iff_eq] at hx
      simp only [veq, sameEV]
      cases hz : strip y with
      | none => rw [hz] at hd; subst hd; simp
      | some z =>
        rw [hz] at hd; subst hd
        obtain ⟨c', hdz⟩ := dom_strip _ y z hy hz
        cases z <;> simp
        rename_i t' ks' vs'
        simp only [domEV, Bool.and_eq_true, beq_iff_eq] at hdz
        by_cases ht : t = t'
        · by_cases hl : ks.length = ks'.length
          · simp only [ht, bne_self_eq_false, Bool.false_eq_true, ↓reduceIte, hl, true_and]
            exact mapLoop_iff ks vs ks' vs' hx.1.1.1 hx.1.2 hx.2 hdz.2
          · simp [ht, hl]
        · simp [ht]
  | .struct t fs vs, rv, sp, y, s, hsp, hx, hy, hs => by
      obtain ⟨d, ok⟩ := s
      have hd : d = strip y := hs.d
      simp only [domEV, Bool.and_eq_true, beq_iff_eq] at hx
      simp only [veq, sameEV]
      cases hz : strip y with
      | none => rw [hz] at hd; subst hd; simp
      | some z =>
        rw [hz] at hd; subst hd
        obtain ⟨c', hdz⟩ := dom_strip _ y z hy hz
        cases z <;> simp
        rename_i t' gs ws
        simp only [domEV, Bool.and_eq_true, beq_iff_eq] at hdz
        by_cases hl : fs.length = gs.length
        · simp only [hl, bne_self_eq_false, Bool.false_eq_true, ↓reduceIte, true_and]
          exact structLoop_iff fs vs gs ws hx.1 hdz.1 hl hx.2 hdz.2
        · simp [hl]

theorem seqLoop_iff : ∀ (xs ys : List EV), xs.length = ys.length → domList xs = true → domList ys = true →
    (seqLoop xs ys = .ok none ↔ sameList xs ys = true)
  | [], [], _, _, _ => by simp [seqLoop, sameList]
  | [], _ :: _, hl, _, _ => by simp at hl
  | _ :: _, [], hl, _, _ => by simp at hl
  | x :: xs, y :: ys, hl, hx, hy => by
      simp only [domList, Bool.and_eq_true] at hx hy
      simp only [List.length_cons, Nat.add_right_cancel_iff] at hl
      simp only [seqLoop, sameList, Bool.and_eq_true]
      rw [← veq_iff x true false y (sideVal y) (fun _ => rfl) hx.1 hy.1 (yok true y hy.1),
        ← seqLoop_iff xs ys hl hx.2 hy.2]
      cases veq true false x (sideVal y) with
      | error f => simp
      | ok o => cases o <;> simp

theorem mapLoop_iff : ∀ (ks vs ks' vs' : List EV), ks.length = vs.length → ks.all isGoodKey = true →
    domVals vs = true → domVals vs' = true →
    (mapLoop ks vs ks' vs' = .ok none ↔ sameMap ks vs ks' vs' = true)
  | [], [], ks', vs', _, _, _, _ => by simp [mapLoop, sameMap]
  | [], _ :: _, _, _, hl, _, _, _ => by simp at hl
  | _ :: _, [], _, _, hl, _, _, _ => by simp at hl
  | k :: ks, v :: vs, ks', vs', hl, hk, hx, hy => by
      simp only [domVals, Bool.and_eq_true] at hx
      simp only [List.all_cons, Bool.and_eq_true] at hk
      simp only [List.length_cons, Nat.add_right_cancel_iff] at hl
      simp only [mapLoop, sameMap, Bool.and_eq_true]
      rw [lookup_eq_find k hk.1]
      cases hf : find k ks' vs' with
      | none => simp
      | some w =>
        simp only []
        have hw := dom_find k ks' vs' w hy hf
        rw [← veq_iff v false false w (sideAny w) (fun h => by simp at h) hx.1 hw (yok false w hw),
          ← mapLoop_iff ks vs ks' vs' hl hk.2 hx.2 hy]
        cases veq false false v (sideAny w) with
        | error f => simp
        | ok o => cases o <;> simp

theorem structLoop_iff : ∀ (fs : List Fld) (vs : List EV) (gs : List Fld) (ws : List EV),
    fs.length = vs.length → gs.length = ws.length → fs.length = gs.length →
    domFields fs vs = true → domFields gs ws = true →
    (structLoop fs vs gs ws = .ok none ↔ sameFields fs vs gs ws = true)
  | [], [], [], [], _, _, _, _, _ => by simp [structLoop, sameFields]
  | [], _ :: _, _, _, h1, _, _, _, _ => by simp at h1
  | [], [], _ :: _, _, _, _, h3, _, _ => by simp at h3
  | [], [], [], _ :: _, _, h2, _, _, _ => by simp at h2
  | _ :: _, [], _, _, h1, _, _, _, _ => by simp at h1
  | _ :: _, _ :: _, [], _, _, _, h3, _, _ => by simp at h3
  | _ :: _, _ :: _, _ :: _, [], _, h2, _, _, _ => by simp at h2
  | f :: fs, v :: vs, g :: gs, w :: ws, h1, h2, h3, hx, hy => by
      simp only [domFields, Bool.and_eq_true, Bool.or_eq_true, Bool.not_eq_true'] at hx hy
      simp only [List.length_cons, Nat.add_right_cancel_iff] at h1 h2 h3
      have ih := structLoop_iff fs vs gs ws h1 h2 h3 hx.2 hy.2
      simp only [structLoop, sameFields]
      cases hfe : f.exported <;> cases hge : g.exported
      · simp [ih]
      · simp
      · simp
      · have hv : domEV .top v = true := by
          rcases hx.1 with h | h
          · rw [hfe] at h; simp at h
          · exact h
        have hw : domEV .top w = true := by
          rcases hy.1 with h | h
          · rw [hge] at h; simp at h
          · exact h
        have hvw := veq_iff v false false w (sideAny w) (fun h => by simp at h) hv hw (yok false w hw)
        have hno : (f.name == g.name || f.anon && g.anon) = !(f.name != g.name && !(f.anon && g.anon)) := by
          simp only [bne]
          cases (f.name == g.name) <;> cases f.anon <;> cases g.anon <;> rfl
        rw [hno]
        generalize (f.name != g.name && !(f.anon && g.anon)) = b
        cases b
        · simp only [Bool.not_true, Bool.and_self, Bool.false_eq_true, ↓reduceIte, Bool.not_false, Bool.true_and,
            Bool.and_eq_true, Bool.or_self, bne_self_eq_false]
          rw [← hvw, ← ih]
          cases veq false false v (sideAny w) with
          | error f => simp
          | ok o => cases o <;> simp
        · simp
end

/-! ## Stack and condition heads -/

theorem kindStr_eq_iff (c c' : Cfg)
    (hk : [Gen.kind_and, Gen.kind_or, Gen.kind_not, Gen.kind_list, Gen.kind_basic].contains c.kind = true)
    (hk' : [Gen.kind_and, Gen.kind_or, Gen.kind_not, Gen.kind_list, Gen.kind_basic].contains c'.kind = true) :
    c.kindStr = c'.kindStr ↔ sameKind c c' = true := by
  unfold Cfg.kindStr sameKind
  generalize c.kind = k at *
  generalize c'.kind = k' at *
  simp only [Gen.kind_and, Gen.kind_or, Gen.kind_not, Gen.kind_list, Gen.kind_basic, List.contains_cons, List.contains_nil,
    Bool.or_false, Bool.or_eq_true, beq_iff_eq] at hk hk'
  rcases hk with h | h | h | h | h <;> rcases hk' with h' | h' | h' | h' | h' <;> subst h <;> subst h' <;> decide

theorem condHead_none_iff (kw : Text) (op : Op) (kw' : Text) (op' : Op) :
    condHead kw op kw' op' = none ↔ (kw = kw' ∧ sameOp op op' = true) := by
  unfold condHead
  by_cases hkw : kw = kw'
  · cases op <;> cases op' <;> simp [hkw, sameOp, Op.isNil, Op.text, Op.ctx]
    all_goals (repeat' split) <;> simp_all
  · simp [hkw]

theorem sameEV_inil : ∀ (x : EV), sameEV x .inil = (strip x).isNone
  | .ptr _ e => by simp only [sameEV, strip]; exact sameEV_inil e
  | .iface e => by simp only [sameEV, strip]; exact sameEV_inil e
  | .inil => by simp [sameEV, strip]
  | .prim .. | .named .. | .uptr .. | .nilptr .. | .seq .. | .map .. | .struct .. | .func .. | .chan .. => by
      simp [sameEV, strip]

/-- x dereferences (through pointers and interfaces) to a struct -/
def isStructCore (x : EV) : Bool :=
  match strip x with
  | some (.struct ..) => true
  | _ => false

theorem isStructCore_ptr (t : Nat) (e : EV) : isStructCore (.ptr t e) = isStructCore e := by simp [isStructCore, strip]
theorem isStructCore_iface (e : EV) : isStructCore (.iface e) = isStructCore e := by simp [isStructCore, strip]

theorem isStructAny_eq (x : EV) (h : domEV .top x = true) : isStructAny x = isStructCore x := by
  unfold isStructAny isStructCore
  rw [sideAny_d x h]
  cases strip x with
  | none => rfl
  | some z => cases z <;> rfl

/-- a leaf of the domain that is not a struct never compares equal to (what `reflect` sees of) a Stack / Condition handle -/
theorem veq_handle_ne (ty : Nat) (g : Fld) (w : EV) :
    ∀ (x : EV) (sp : Bool) (s : Side), s.d = some (.struct ty [g] [w]) →
    domEV (ctxOf false sp) x = true → isStructCore x = false → veq false sp x s ≠ .ok none
  | .ptr t e, sp, s, hs, hx, hh => by
      simp only [veq]
      refine veq_handle_ne ty g w e _ s hs ?_ (by rw [← hh, isStructCore_ptr])
      cases sp <;> simp_all [ctxOf, domEV]
  | .iface e, sp, s, hs, hx, hh => by
      simp only [domEV] at hx
      split at hx
      · have hsp' : sp = false := by cases sp <;> simp_all [ctxOf]
        subst hsp'
        simp only [veq, Bool.or_self, Bool.false_eq_true, ↓reduceIte]
        exact veq_handle_ne ty g w e false s hs hx (by rw [← hh, isStructCore_iface])
      · simp at hx
  | .inil, sp, s, hs, hx, hh => by
      have hsp' : sp = false := by cases sp <;> simp_all [ctxOf, domEV]
      subst hsp'
      obtain ⟨d, ok⟩ := s
      simp only at hs; subst hs
      simp [veq, scalarEq, matchExtra, Side.kind, kind]
  | .named .., sp, s, hs, hx, hh => by simp [domEV] at hx
  | .nilptr .., sp, s, hs, hx, hh => by simp [domEV] at hx
  | .prim .., sp, s, hs, hx, hh => by
      obtain ⟨d, ok⟩ := s
      simp only at hs; subst hs
      simp [veq, scalarEq, matchExtra, Side.kind, kind, isPrim, unbox]
  | .uptr .., sp, s, hs, hx, hh => by
      obtain ⟨d, ok⟩ := s
      simp only at hs; subst hs
      simp [veq, scalarEq, matchExtra, Side.kind, kind, isPrim, unbox]
  | .func .., sp, s, hs, hx, hh => by
      obtain ⟨d, ok⟩ := s
      simp only at hs; subst hs
      simp [veq, scalarEq, matchExtra, Side.kind, kind, isPrim, unbox]
  | .chan .., sp, s, hs, hx, hh => by
      obtain ⟨d, ok⟩ := s
      simp only at hs; subst hs
      simp [veq, scalarEq, matchExtra, Side.kind, kind, isPrim, unbox]
  | .seq .., sp, s, hs, hx, hh => by
      obtain ⟨d, ok⟩ := s
      simp only at hs; subst hs
      simp [veq]
  | .map .., sp, s, hs, hx, hh => by
      obtain ⟨d, ok⟩ := s
      simp only at hs; subst hs
      simp [veq]
  | .struct t fs vs, sp, s, hs, hx, hh => by simp [isStructCore, strip] at hh

/-! ## Slots, stacks, conditions -/

theorem sameVals_length : ∀ (xs ys : List Val), sameVals xs ys = true → xs.length = ys.length
  | [], [] => by simp
  | [], _ :: _ => by simp [sameVals]
  | _ :: _, [] => by simp [sameVals]
  | x :: xs, y :: ys => by
      simp only [sameVals, Bool.and_eq_true, List.length_cons, Nat.add_right_cancel_iff]
      intro h; exact sameVals_length xs ys h.2

theorem sideAny_handleStruct (b : Bool) (f : Form) :
    (sideAny (handleStruct b f)).d = some (.struct (if b then 201 else 200) [handleFld b] [.nilptr 0]) := by
  cases f <;> simp [handleStruct, handleCore, sideAny, unbox, deref]

/-- a leaf of the domain never compares equal to an initialised Stack / Condition on its right -/
theorem leafVeq_handle_ne (x : EV) (y : Val) (b : Bool) (f : Form) (hx : domEV .top x = true)
    (hy : y.converts = true) (hty : y.toEV = handleStruct b f) : leafVeq x y ≠ .ok none := by
  unfold leafVeq
  cases hs : isStructAny x
  · simp only [Bool.false_and, Bool.false_eq_true, ↓reduceIte, hty]
    rw [isStructAny_eq x hx] at hs
    exact veq_handle_ne _ (handleFld b) _ x false _ (sideAny_handleStruct b f) hx hs
  · simp [hy]

theorem yokA (y : EV) (h : domEV .top y = true) : YOK false y (sideAny y) := yok false y h

theorem stack_heads (c c' : Cfg) (xs ys : List Val)
    (hk : [Gen.kind_and, Gen.kind_or, Gen.kind_not, Gen.kind_list, Gen.kind_basic].contains c.kind = true)
    (hk' : [Gen.kind_and, Gen.kind_or, Gen.kind_not, Gen.kind_list, Gen.kind_basic].contains c'.kind = true)
    (L : EqRes) (hL : xs.length = ys.length → (L = .ok none ↔ sameVals xs ys = true)) :
    ((match stackHead c xs.length c' ys.length with
      | some e => (Except.ok (some e) : EqRes)
      | none => L) = .ok none ↔ (c.cap == c'.cap && sameKind c c' && sameVals xs ys) = true) := by
  cases hh : stackHead c xs.length c' ys.length with
  | none =>
      obtain ⟨h1, h2, h3⟩ := (stackHead_none_iff c c' xs.length ys.length).mp hh
      simp only [hL h2, h1, (kindStr_eq_iff c c' hk hk').mp h3, beq_self_eq_true, Bool.true_and]
  | some e =>
      simp only [Bool.and_eq_true, beq_iff_eq]
      constructor
      · intro h; simp at h
      · intro ⟨⟨h1, h2⟩, hv⟩
        exfalso
        have : stackHead c xs.length c' ys.length = none :=
          (stackHead_none_iff c c' xs.length ys.length).mpr ⟨h1, sameVals_length xs ys hv, (kindStr_eq_iff c c' hk hk').mpr h2⟩
        rw [this] at hh; simp at hh

theorem cond_heads (kw : Text) (op : Op) (kw' : Text) (op' : Op) (L : EqRes) (S : Bool) (hL : L = .ok none ↔ S = true) :
    ((match condHead kw op kw' op' with
      | some e => (Except.ok (some e) : EqRes)
      | none => L) = .ok none ↔ (kw == kw' && sameOp op op' && S) = true) := by
  cases hh : condHead kw op kw' op' with
  | none =>
      obtain ⟨h1, h2⟩ := (condHead_none_iff kw op kw' op').mp hh
      simp [hL, h1, h2]
  | some e =>
      simp only [Bool.and_eq_true, beq_iff_eq]
      constructor
      · intro h; simp at h
      · intro ⟨⟨h1, h2⟩, _⟩
        exfalso
        have := (condHead_none_iff kw op kw' op').mpr ⟨h1, h2⟩
        rw [this] at hh; simp at hh

mutual
theorem Val.veq_iff (hook : EqHook) : ∀ (x y : Val), inDomain x = true → inDomain y = true →
    (Val.veq hook x y = .ok none ↔ sameDesc x y = true)
  | .stk f c xs, y, hx, hy => by
      simp only [inDomain, Bool.and_eq_true, Option.isNone_iff_eq_none] at hx
      cases y with
      | stk f' c' ys =>
          simp only [inDomain, Bool.and_eq_true, Option.isNone_iff_eq_none] at hy
          simp only [Val.veq, sameDesc, hx.1.1]
          exact stack_heads c c' xs ys hx.1.2 hy.1.2 _ (fun hl => stkLoop_iff hook xs ys hl hx.2 hy.2)
      | _ => simp [Val.veq, sameDesc]
  | .cnd f c kw op ex, y, hx, hy => by
      simp only [inDomain, Bool.and_eq_true, Option.isNone_iff_eq_none, beq_iff_eq] at hx
      cases y with
      | cnd f' c' kw' op' ex' =>
          simp only [inDomain, Bool.and_eq_true, Option.isNone_iff_eq_none, beq_iff_eq] at hy
          simp only [Val.veq, sameDesc, hx.1.1, hx.1.2, bne_self_eq_false, Bool.false_eq_true, ↓reduceIte]
          exact cond_heads kw op kw' op' _ _ (Val.veq_iff hook ex ex' hx.2 hy.2)
      | _ => simp [Val.veq, sameDesc]
  | .nil, y, hx, hy => by
      cases y with
      | nil => simp [Val.veq, leafVeq, isStructAny, Val.converts, Val.isStack, Val.isCond, Val.toEV, veq, sideAny, unbox, sameDesc]
      | leaf l =>
          simp only [inDomain] at hy
          simp only [Val.veq, leafVeq, Val.converts, Val.isStack, Val.isCond, Bool.or_self, Bool.and_false, Bool.false_eq_true,
            ↓reduceIte, Val.toEV, sameDesc]
          rw [veq_iff .inil false false l.toEV (sideAny l.toEV) (fun h => by simp at h) (by simp [ctxOf, domEV]) hy (yokA _ hy)]
          simp [sameEV]
      | stk f' c' ys =>
          simp only [Val.veq, sameDesc, Bool.false_eq_true, iff_false]
          exact leafVeq_handle_ne .inil _ false f' (by simp [domEV]) rfl rfl
      | cnd f' c' kw' op' ex' =>
          simp only [Val.veq, sameDesc, Bool.false_eq_true, iff_false]
          exact leafVeq_handle_ne .inil _ true f' (by simp [domEV]) rfl rfl
      | zstk f' => simp [inDomain] at hy
      | zcnd f' => simp [inDomain] at hy
      | anys ys => simp [inDomain] at hy
      | opv o => simp [inDomain] at hy
  | .leaf l, y, hx, hy => by
      simp only [inDomain] at hx
      cases y with
      | nil =>
          simp only [Val.veq, leafVeq, Val.converts, Val.isStack, Val.isCond, Bool.or_self, Bool.and_false, Bool.false_eq_true,
            ↓reduceIte, Val.toEV, sameDesc]
          rw [veq_iff l.toEV false false .inil (sideAny .inil) (fun h => by simp at h) hx (by simp [yctx, domEV]) (yokA _ (by simp [domEV])),
            sameEV_inil]
      | leaf l' =>
          simp only [inDomain] at hy
          simp only [Val.veq, leafVeq, Val.converts, Val.isStack, Val.isCond, Bool.or_self, Bool.and_false, Bool.false_eq_true,
            ↓reduceIte, Val.toEV, sameDesc]
          exact veq_iff l.toEV false false l'.toEV (sideAny l'.toEV) (fun h => by simp at h) hx hy (yokA _ hy)
      | stk f' c' ys =>
          simp only [Val.veq, sameDesc, Bool.false_eq_true, iff_false]
          exact leafVeq_handle_ne l.toEV _ false f' hx rfl rfl
      | cnd f' c' kw' op' ex' =>
          simp only [Val.veq, sameDesc, Bool.false_eq_true, iff_false]
          exact leafVeq_handle_ne l.toEV _ true f' hx rfl rfl
      | zstk f' => simp [inDomain] at hy
      | zcnd f' => simp [inDomain] at hy
      | anys ys => simp [inDomain] at hy
      | opv o => simp [inDomain] at hy
  | .zstk f, y, hx, hy => by simp [inDomain] at hx
  | .zcnd f, y, hx, hy => by simp [inDomain] at hx
  | .anys xs, y, hx, hy => by simp [inDomain] at hx
  | .opv o, y, hx, hy => by simp [inDomain] at hx

theorem stkLoop_iff (hook : EqHook) : ∀ (xs ys : List Val), xs.length = ys.length →
    inDomainL xs = true → inDomainL ys = true → (stkLoop hook xs ys = .ok none ↔ sameVals xs ys = true)
  | [], [], _, _, _ => by simp [stkLoop, sameVals]
  | [], _ :: _, hl, _, _ => by simp at hl
  | _ :: _, [], hl, _, _ => by simp at hl
  | x :: xs, y :: ys, hl, hx, hy => by
      simp only [inDomainL, Bool.and_eq_true] at hx hy
      simp only [List.length_cons, Nat.add_right_cancel_iff] at hl
      simp only [stkLoop, sameVals, Bool.and_eq_true]
      rw [← Val.veq_iff hook x y hx.1 hy.1, ← stkLoop_iff hook xs ys hl hx.2 hy.2]
      cases Val.veq hook x y with
      | error f => simp
      | ok o => cases o <;> simp
end

/-- the exported wrappers: inside the domain `IsEqual` decides "same description" -/
theorem Val.IsEqual_iff (hook : EqHook) (a b : Val) (ha : a.isHandle = true)
    (hda : inDomain a = true) (hdb : inDomain b = true) :
    (Val.IsEqual hook false a b = .ok none ↔ sameDesc a b = true) := by
  cases a with
  | stk f c xs =>
      simp only [inDomain, Bool.and_eq_true, Option.isNone_iff_eq_none] at hda
      cases b with
      | stk f' c' ys =>
          simp only [inDomain, Bool.and_eq_true, Option.isNone_iff_eq_none] at hdb
          simp only [Val.IsEqual, sameDesc, hda.1.1, Bool.false_eq_true, ↓reduceIte]
          exact stack_heads c c' xs ys hda.1.2 hdb.1.2 _ (fun hl => stkLoop_iff hook xs ys hl hda.2 hdb.2)
      | _ => simp [Val.IsEqual, sameDesc]
  | cnd f c kw op ex =>
      simp only [inDomain, Bool.and_eq_true, Option.isNone_iff_eq_none, beq_iff_eq] at hda
      cases b with
      | cnd f' c' kw' op' ex' =>
          simp only [inDomain, Bool.and_eq_true, Option.isNone_iff_eq_none, beq_iff_eq] at hdb
          simp only [Val.IsEqual, sameDesc, hda.1.1, hda.1.2, bne_self_eq_false, Bool.false_eq_true, ↓reduceIte]
          exact cond_heads kw op kw' op' _ _ (Val.veq_iff hook ex ex' hda.2 hdb.2)
      | _ => simp [Val.IsEqual, sameDesc, hda.1.2]
  | zstk f => simp [inDomain] at hda
  | zcnd f => simp [inDomain] at hda
  | nil => simp [Val.isHandle] at ha
  | leaf l => simp [Val.isHandle] at ha
  | anys xs => simp [Val.isHandle] at ha
  | opv o => simp [Val.isHandle] at ha

end Stackage
