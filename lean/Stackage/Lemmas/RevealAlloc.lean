import Stackage.Lemmas.RevealInv

/-!
# Trees as heaps: `alloc` builds a well-formed heap whose `flat` is the tree it came from
-/

set_option linter.unusedSimpArgs false
set_option linter.unusedVariables false

namespace Stackage
namespace RevealHeap
open Tree

mutual
/-- every stack of the tree is shorter than 2^62 elements (as any Go slice is) -/
def smallTree : Val → Prop
  | .stk _ _ xs => SmallLen xs.length ∧ smallL xs
  | .cnd _ _ _ _ ex => smallTree ex
  | .nil => True
  | .leaf _ => True
  | .zstk _ => True
  | .zcnd _ => True
  | .anys _ => True
  | .opv _ => True
def smallL : List Val → Prop
  | [] => True
  | x :: xs => smallTree x ∧ smallL xs
end

theorem HVal.okAt_extend {H : Heap} (ext : Heap) {k : Nat} (hk : k ≤ H.length) : ∀ {v : HVal}, v.okAt H k → v.okAt (H ++ ext) k
  | .atom _, _ => trivial
  | .stk _ id, h => ⟨h.1, by rw [List.getElem?_append_left (by have := h.1; omega)]; exact h.2⟩
  | .cnd _ id, h => ⟨h.1, by rw [List.getElem?_append_left (by have := h.1; omega)]; exact h.2⟩

theorem Node.okAt_extend {H : Heap} (ext : Heap) {k : Nat} (hk : k ≤ H.length) : ∀ {n : Node}, n.okAt H k → n.okAt (H ++ ext) k
  | .stack _ xs, h => ⟨fun v hv => HVal.okAt_extend ext hk (h.1 v hv), h.2⟩
  | .cond _ _ _ ex, h => HVal.okAt_extend ext hk h

theorem WF_snoc {H : Heap} (n : Node) (hwf : WF H) (hn : n.okAt H H.length) : WF (H ++ [n]) := by
  intro k m hm
  by_cases hk : k < H.length
  · rw [List.getElem?_append_left hk] at hm
    exact Node.okAt_extend [n] (by omega) (hwf k m hm)
  · rw [List.getElem?_append_right (by omega)] at hm
    have hk0 : k - H.length = 0 := by
      cases hkk : k - H.length with
      | zero => rfl
      | succ j => rw [hkk] at hm; simp at hm
    rw [hk0] at hm
    simp at hm
    subst hm
    have : k = H.length := by omega
    subst this
    exact Node.okAt_extend [n] (Nat.le_refl _) hn

/-- a handle into `H` reads the same in any extension of `H` -/
theorem rv_extend (H ext : Heap) (m : Nat) (hm : H.length ≤ m) (v : HVal) (hv : v.okAt H H.length) :
    rv (tbl (H ++ ext) m) v = rv (tbl H H.length) v := by
  have h1 : rv (tbl (H ++ ext) m) v = rv (tbl (H ++ ext) H.length) v := by
    apply rv_tbl_lt (H ++ ext) H.length m hm
    · intro f id h; subst h; exact hv.1
    · intro f id h; subst h; exact hv.1
  rw [h1, tbl_congr H (H ++ ext) H.length (fun j hj => List.getElem?_append_left hj)]

theorem tbl_snoc_get (H : Heap) (n : Node) :
    (tbl (H ++ [n]) (H.length + 1))[H.length]? = some (resolve (tbl H H.length) n) := by
  rw [tbl_get _ _ _ (Nat.lt_succ_self _)]
  rw [tbl_congr H (H ++ [n]) H.length (fun j hj => List.getElem?_append_left hj)]
  simp

theorem rv_cnd_eq (T : List Body) (f : Form) (id : Nat) (c : Cfg) (kw : Text) (op : Op) (ex : Val)
    (h : T[id]? = some (.cond c kw op ex)) : rv T (.cnd f id) = .cnd f c kw op ex := by
  simp only [rv, h]

mutual
theorem alloc_ok : ∀ (t : Val) (H0 : Heap), WF H0 → smallTree t →
    (∃ ext, (alloc t H0).2 = H0 ++ ext) ∧ WF (alloc t H0).2 ∧
    (alloc t H0).1.okAt (alloc t H0).2 (alloc t H0).2.length ∧
    rv (tbl (alloc t H0).2 (alloc t H0).2.length) (alloc t H0).1 = t
  | .nil, H0, hwf, _ => ⟨⟨[], by simp [alloc]⟩, hwf, trivial, rfl⟩
  | .leaf l, H0, hwf, _ => ⟨⟨[], by simp [alloc]⟩, hwf, trivial, rfl⟩
  | .zstk f, H0, hwf, _ => ⟨⟨[], by simp [alloc]⟩, hwf, trivial, rfl⟩
  | .zcnd f, H0, hwf, _ => ⟨⟨[], by simp [alloc]⟩, hwf, trivial, rfl⟩
  | .anys xs, H0, hwf, _ => ⟨⟨[], by simp [alloc]⟩, hwf, trivial, rfl⟩
  | .opv o, H0, hwf, _ => ⟨⟨[], by simp [alloc]⟩, hwf, trivial, rfl⟩
  | .stk f c xs, H0, hwf, hs => by
    simp only [smallTree] at hs
    obtain ⟨⟨ext, he⟩, hwf1, hok, hmap, hlen⟩ := allocL_ok xs H0 hwf hs.2
    simp only [alloc]
    have hn : (Node.stack c (allocL xs H0).1).okAt (allocL xs H0).2 (allocL xs H0).2.length :=
      ⟨hok, by rw [hlen]; exact hs.1⟩
    refine ⟨⟨ext ++ [.stack c (allocL xs H0).1], by rw [he]; simp⟩, WF_snoc _ hwf1 hn, ?_, ?_⟩
    · refine ⟨by simp, ?_⟩
      rw [List.getElem?_append_right (Nat.le_refl _)]; simp [sortOf]
    · simp only [List.length_append, List.length_cons, List.length_nil, Nat.zero_add]
      simp only [rv, tbl_snoc_get, resolve, hmap]
  | .cnd f c kw op ex, H0, hwf, hs => by
    simp only [smallTree] at hs
    obtain ⟨⟨ext, he⟩, hwf1, hok, hrv⟩ := alloc_ok ex H0 hwf hs
    simp only [alloc]
    have hn : (Node.cond c kw op (alloc ex H0).1).okAt (alloc ex H0).2 (alloc ex H0).2.length := hok
    refine ⟨⟨ext ++ [.cond c kw op (alloc ex H0).1], by rw [he]; simp⟩, WF_snoc _ hwf1 hn, ?_, ?_⟩
    · refine ⟨by simp, ?_⟩
      rw [List.getElem?_append_right (Nat.le_refl _)]; simp [sortOf]
    · simp only [List.length_append, List.length_cons, List.length_nil, Nat.zero_add]
      rw [rv_cnd_eq _ f _ c kw op _ (by rw [tbl_snoc_get]; rfl), hrv]
theorem allocL_ok : ∀ (xs : List Val) (H0 : Heap), WF H0 → smallL xs →
    (∃ ext, (allocL xs H0).2 = H0 ++ ext) ∧ WF (allocL xs H0).2 ∧
    (∀ v, v ∈ (allocL xs H0).1 → v.okAt (allocL xs H0).2 (allocL xs H0).2.length) ∧
    (allocL xs H0).1.map (rv (tbl (allocL xs H0).2 (allocL xs H0).2.length)) = xs ∧
    (allocL xs H0).1.length = xs.length
  | [], H0, hwf, _ => ⟨⟨[], by simp [allocL]⟩, hwf, by simp [allocL], by simp [allocL], by simp [allocL]⟩
  | x :: xs, H0, hwf, hs => by
    simp only [smallL] at hs
    obtain ⟨⟨ext1, he1⟩, hwf1, hok1, hrv1⟩ := alloc_ok x H0 hwf hs.1
    obtain ⟨⟨ext2, he2⟩, hwf2, hok2, hmap2, hlen2⟩ := allocL_ok xs (alloc x H0).2 hwf1 hs.2
    simp only [allocL]
    have hlenle : (alloc x H0).2.length ≤ (allocL xs (alloc x H0).2).2.length := by rw [he2]; simp
    refine ⟨⟨ext1 ++ ext2, by rw [he2, he1]; simp⟩, hwf2, ?_, ?_, by simp [hlen2]⟩
    · intro v hv
      rcases List.mem_cons.mp hv with rfl | hv
      · rw [he2]
        exact HVal.okAt_mono (by simp) (HVal.okAt_extend ext2 (Nat.le_refl _) hok1)
      · exact hok2 v hv
    · simp only [List.map_cons, hmap2, List.cons.injEq, and_true]
      have := rv_extend (alloc x H0).2 ext2 (allocL xs (alloc x H0).2).2.length (by rw [he2]; simp) _ hok1
      rw [← he2] at this
      rw [this, hrv1]
end

theorem WF_nil : WF ([] : Heap) := by intro k n h; simp at h

/-- the heap of a tree is well-formed, and flattening it gives the tree back -/
theorem ofTree_ok (t : Val) (hs : smallTree t) :
    WF (ofTree t).2 ∧ (ofTree t).1.okAt (ofTree t).2 (ofTree t).2.length ∧ flat (ofTree t).2 (ofTree t).1 = t := by
  obtain ⟨_, h1, h2, h3⟩ := alloc_ok t [] WF_nil hs
  exact ⟨h1, h2, h3⟩

end RevealHeap
end Stackage
