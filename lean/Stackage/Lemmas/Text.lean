import Stackage.Model.Text

/-!
# Algebra of `condenseWHSP` (`condense`) and the other text helpers

The central facts:

* `condenseLoop_append` : the loop distributes over `++`, the flag being threaded by `endFlag`;
* `condense_eq_strip`   : `condense t = stripTrail (squeeze t)` — trimming first is the same as
  squeezing with the "previous was blank" flag set and dropping one trailing blank afterwards;
* `Sim`                 : two texts that condense alike in *every* context (a congruence for `++`);
  blank runs of different non-zero length are `Sim`;
* `Solid`               : texts that are their own condensation in every context (the outputs of
  `condense`, and every blank-free text); `WSNormal t ↔ Solid t`.
-/

namespace Stackage

/-! ## blanks -/

theorem isBlank_space : isBlank ' ' = true := by decide
theorem isBlank_tab : isBlank '\t' = true := by decide

theorem ne_space_of_not_blank {c : Char} (h : isBlank c = false) : c ≠ ' ' := by
  intro e; subst e; simp [isBlank] at h

theorem ne_tab_of_not_blank {c : Char} (h : isBlank c = false) : c ≠ '\t' := by
  intro e; subst e; simp [isBlank] at h

theorem isBlank_cases {c : Char} (h : isBlank c = true) : c = ' ' ∨ c = '\t' := by
  simpa [isBlank] using h

/-- snoc induction on lists -/
theorem snoc_induction {α : Type} {P : List α → Prop} (h0 : P [])
    (h1 : ∀ u c, P u → P (u ++ [c])) : ∀ u, P u := by
  have : ∀ r : List α, P r.reverse := by
    intro r
    induction r with
    | nil => exact h0
    | cons c r ih => rw [List.reverse_cons]; exact h1 _ _ ih
  intro u
  have := this u.reverse
  rwa [List.reverse_reverse] at this

theorem eq_nil_or_snoc {α : Type} (u : List α) : u = [] ∨ ∃ v c, u = v ++ [c] := by
  rcases List.eq_nil_or_concat u with h | ⟨v, c, h⟩
  · exact Or.inl h
  · exact Or.inr ⟨v, c, by rw [h, List.concat_eq_append]⟩

/-! ## `endFlag`: the loop flag after a text -/

/-- the "previous character was blank" flag of `condenseLoop` after reading `t`, starting from `l` -/
def endFlag (l : Bool) : Text → Bool
  | [] => l
  | c :: cs => endFlag (isBlank c) cs

@[simp] theorem endFlag_nil (l : Bool) : endFlag l [] = l := rfl
@[simp] theorem endFlag_cons (l : Bool) (c : Char) (cs : Text) :
    endFlag l (c :: cs) = endFlag (isBlank c) cs := rfl

theorem endFlag_append (l : Bool) (a b : Text) : endFlag l (a ++ b) = endFlag (endFlag l a) b := by
  induction a generalizing l with
  | nil => rfl
  | cons c cs ih => simp only [List.cons_append, endFlag_cons, ih]

theorem endFlag_snoc (l : Bool) (a : Text) (c : Char) : endFlag l (a ++ [c]) = isBlank c := by
  rw [endFlag_append]; rfl

/-- on a non-empty text the start flag is irrelevant -/
theorem endFlag_ne_nil {a : Text} (h : a ≠ []) (l l' : Bool) : endFlag l a = endFlag l' a := by
  cases a with
  | nil => exact absurd rfl h
  | cons c cs => rfl

theorem endFlag_false_of {a : Text} {l : Bool} (h : endFlag l a = false) : endFlag false a = false := by
  cases a with
  | nil => rfl
  | cons c cs => exact h

/-! ## the loop -/

/-- `condenseLoop` started as if a blank had just been seen: leading blanks vanish -/
abbrev squeeze (t : Text) : Text := condenseLoop true t

@[simp] theorem condenseLoop_nil (l : Bool) : condenseLoop l [] = [] := by
  unfold condenseLoop; rfl

theorem condenseLoop_cons_blank {c : Char} (h : isBlank c = true) (l : Bool) (cs : Text) :
    condenseLoop l (c :: cs) = if l then condenseLoop true cs else ' ' :: condenseLoop true cs := by
  rw [condenseLoop]; simp only [h, if_true]

theorem condenseLoop_cons_nonblank {c : Char} (h : isBlank c = false) (l : Bool) (cs : Text) :
    condenseLoop l (c :: cs) = c :: condenseLoop false cs := by
  rw [condenseLoop]; simp [h]

/-- **append lemma**: the loop distributes over `++`, threading the flag -/
theorem condenseLoop_append (l : Bool) (a b : Text) :
    condenseLoop l (a ++ b) = condenseLoop l a ++ condenseLoop (endFlag l a) b := by
  induction a generalizing l with
  | nil => simp
  | cons c cs ih =>
    cases hb : isBlank c
    · simp only [List.cons_append, condenseLoop_cons_nonblank hb, ih, endFlag_cons, hb]
    · cases l <;>
        simp [List.cons_append, condenseLoop_cons_blank hb, ih, endFlag_cons, hb]

theorem condenseLoop_snoc_blank {c : Char} (h : isBlank c = true) (l : Bool) (a : Text) :
    condenseLoop l (a ++ [c]) = if endFlag l a then condenseLoop l a else condenseLoop l a ++ [' '] := by
  rw [condenseLoop_append, condenseLoop_cons_blank h]
  cases endFlag l a <;> simp

theorem condenseLoop_snoc_nonblank {c : Char} (h : isBlank c = false) (l : Bool) (a : Text) :
    condenseLoop l (a ++ [c]) = condenseLoop l a ++ [c] := by
  rw [condenseLoop_append, condenseLoop_cons_nonblank h]; simp

/-- the output ends blank exactly when the input does -/
theorem endFlag_condenseLoop (l : Bool) (t : Text) : endFlag l (condenseLoop l t) = endFlag l t := by
  induction t generalizing l with
  | nil => simp
  | cons c cs ih =>
    cases hb : isBlank c
    · simp only [condenseLoop_cons_nonblank hb, endFlag_cons, hb, ih]
    · cases l
      · simp only [condenseLoop_cons_blank hb, Bool.false_eq_true, if_false, endFlag_cons, hb,
          isBlank_space, ih]
      · simp only [condenseLoop_cons_blank hb, if_true, endFlag_cons, hb, ih]

/-- a run of `k+1` blanks counts as one -/
theorem condenseLoop_blank_cons {b : Char} (hb : isBlank b = true) (l : Bool) (t : Text) :
    condenseLoop l (b :: ' ' :: t) = condenseLoop l (' ' :: t) := by
  rw [condenseLoop_cons_blank hb, condenseLoop_cons_blank isBlank_space,
    condenseLoop_cons_blank isBlank_space]
  simp

theorem condenseLoop_replicate (l : Bool) (k : Nat) (t : Text) :
    condenseLoop l (List.replicate (k + 1) ' ' ++ t) = condenseLoop l (' ' :: t) := by
  induction k with
  | zero => rfl
  | succ k ih =>
    rw [List.replicate_succ, List.cons_append, List.replicate_succ, List.cons_append,
      condenseLoop_blank_cons isBlank_space, ← List.cons_append, ← List.replicate_succ, ih]

theorem squeeze_cons_blank {b : Char} (hb : isBlank b = true) (t : Text) :
    squeeze (b :: t) = squeeze t := by
  unfold squeeze; rw [condenseLoop_cons_blank hb]; simp

/-! ## `stripTrail`: drop one trailing space -/

def stripTrail : Text → Text
  | [] => []
  | [c] => if c = ' ' then [] else [c]
  | c :: d :: r => c :: stripTrail (d :: r)

theorem stripTrail_append (p : Text) {q : Text} (h : q ≠ []) :
    stripTrail (p ++ q) = p ++ stripTrail q := by
  induction p with
  | nil => rfl
  | cons c p ih =>
    cases hpq : p ++ q with
    | nil => simp at hpq; exact absurd hpq.2 h
    | cons d r => rw [List.cons_append, hpq, stripTrail, ← hpq, ih, List.cons_append]

theorem stripTrail_snoc_space (u : Text) : stripTrail (u ++ [' ']) = u := by
  rw [stripTrail_append u (by simp)]; simp [stripTrail]

theorem stripTrail_snoc_ne (u : Text) {c : Char} (h : c ≠ ' ') : stripTrail (u ++ [c]) = u ++ [c] := by
  rw [stripTrail_append u (by simp)]; simp [stripTrail, h]

/-- nothing is stripped from a text that does not end in a blank -/
theorem stripTrail_of_endFlag {u : Text} (h : endFlag false u = false) : stripTrail u = u := by
  rcases eq_nil_or_snoc u with rfl | ⟨v, c, rfl⟩
  · rfl
  · rw [endFlag_snoc] at h
    exact stripTrail_snoc_ne v (ne_space_of_not_blank h)

theorem stripTrail_condenseLoop_of_endFlag {l : Bool} {v : Text} (h : endFlag l v = false) :
    stripTrail (condenseLoop l v) = condenseLoop l v := by
  apply stripTrail_of_endFlag
  have := endFlag_condenseLoop l v
  rw [h] at this
  exact endFlag_false_of this

/-- `stripTrail u` is `u` or `u` without its last character -/
theorem stripTrail_prefix (u : Text) : ∃ r, u = stripTrail u ++ r := by
  rcases eq_nil_or_snoc u with rfl | ⟨v, c, rfl⟩
  · exact ⟨[], rfl⟩
  · by_cases h : c = ' '
    · subst h; exact ⟨[' '], by rw [stripTrail_snoc_space]⟩
    · exact ⟨[], by rw [stripTrail_snoc_ne v h]; simp⟩

/-! ## trimming -/

theorem trimRight_nil : trimRight [] = [] := rfl

theorem trimRight_snoc_blank {c : Char} (h : isBlank c = true) (u : Text) :
    trimRight (u ++ [c]) = trimRight u := by
  unfold trimRight
  rw [List.reverse_append, List.reverse_singleton, List.singleton_append, List.dropWhile_cons]
  simp [h]

theorem trimRight_snoc_nonblank {c : Char} (h : isBlank c = false) (u : Text) :
    trimRight (u ++ [c]) = u ++ [c] := by
  unfold trimRight
  rw [List.reverse_append, List.reverse_singleton, List.singleton_append, List.dropWhile_cons]
  simp [h]

theorem trimRight_of_endFlag {u : Text} (h : endFlag false u = false) : trimRight u = u := by
  rcases eq_nil_or_snoc u with rfl | ⟨v, c, rfl⟩
  · rfl
  · rw [endFlag_snoc] at h; exact trimRight_snoc_nonblank h v

theorem endFlag_trimRight (u : Text) : endFlag false (trimRight u) = false := by
  induction u using snoc_induction with
  | h0 => rfl
  | h1 u c ih =>
    cases hb : isBlank c
    · rw [trimRight_snoc_nonblank hb, endFlag_snoc, hb]
    · rw [trimRight_snoc_blank hb]; exact ih

/-- trimming on the right is dropping one trailing blank after the loop -/
theorem condenseLoop_trimRight (l : Bool) (u : Text) :
    condenseLoop l (trimRight u) = stripTrail (condenseLoop l u) := by
  induction u using snoc_induction with
  | h0 => simp [trimRight_nil, stripTrail]
  | h1 u c ih =>
    cases hb : isBlank c
    · rw [trimRight_snoc_nonblank hb, condenseLoop_snoc_nonblank hb,
        stripTrail_snoc_ne _ (ne_space_of_not_blank hb)]
    · rw [trimRight_snoc_blank hb, ih, condenseLoop_snoc_blank hb]
      cases he : endFlag l u
      · simp only [Bool.false_eq_true, if_false, stripTrail_snoc_space]
        exact stripTrail_condenseLoop_of_endFlag he
      · simp

theorem trimLeft_cons_blank {c : Char} (h : isBlank c = true) (t : Text) :
    trimLeft (c :: t) = trimLeft t := by
  unfold trimLeft; rw [List.dropWhile_cons]; simp [h]

theorem trimLeft_cons_nonblank {c : Char} (h : isBlank c = false) (t : Text) :
    trimLeft (c :: t) = c :: t := by
  unfold trimLeft; rw [List.dropWhile_cons]; simp [h]

/-- trimming on the left is starting the loop with the flag set -/
theorem condenseLoop_trimLeft (t : Text) : condenseLoop false (trimLeft t) = squeeze t := by
  induction t with
  | nil => rfl
  | cons c cs ih =>
    cases hb : isBlank c
    · rw [trimLeft_cons_nonblank hb]; unfold squeeze
      rw [condenseLoop_cons_nonblank hb, condenseLoop_cons_nonblank hb]
    · rw [trimLeft_cons_blank hb, ih, squeeze_cons_blank hb]

/-- `trimLeft` only removes blanks, so the squeezed text is the same -/
theorem squeeze_trimLeft (t : Text) : squeeze (trimLeft t) = squeeze t := by
  induction t with
  | nil => rfl
  | cons c cs ih =>
    cases hb : isBlank c
    · rw [trimLeft_cons_nonblank hb]
    · rw [trimLeft_cons_blank hb, ih, squeeze_cons_blank hb]

/-- **`condense` without trimming**: squeeze, then drop one trailing blank -/
theorem condense_eq_strip (t : Text) : condense t = stripTrail (squeeze t) := by
  unfold condense trimBlanks
  rw [condenseLoop_trimRight, condenseLoop_trimLeft]

/-! ## consequences for `condense` -/

theorem condense_nil : condense [] = [] := rfl

/-- a leading blank is immaterial -/
theorem condense_cons_blank {b : Char} (hb : isBlank b = true) (t : Text) :
    condense (b :: t) = condense t := by
  rw [condense_eq_strip, condense_eq_strip, squeeze_cons_blank hb]

theorem condense_cons_space (t : Text) : condense (' ' :: t) = condense t :=
  condense_cons_blank isBlank_space t

/-- a trailing blank is immaterial -/
theorem condense_snoc_blank {b : Char} (hb : isBlank b = true) (t : Text) :
    condense (t ++ [b]) = condense t := by
  rw [condense_eq_strip, condense_eq_strip]; unfold squeeze
  rw [condenseLoop_snoc_blank hb]
  cases he : endFlag true t
  · simp only [Bool.false_eq_true, if_false, stripTrail_snoc_space]
    exact (stripTrail_condenseLoop_of_endFlag he).symm
  · simp

theorem condense_snoc_space (t : Text) : condense (t ++ [' ']) = condense t :=
  condense_snoc_blank isBlank_space t

/-! ## `Sim`: condensing alike in every context -/

/-- `a` and `b` condense alike whatever precedes and follows them -/
def Sim (a b : Text) : Prop :=
  ∀ l, condenseLoop l a = condenseLoop l b ∧ endFlag l a = endFlag l b

theorem Sim.refl (a : Text) : Sim a a := fun _ => ⟨rfl, rfl⟩
theorem Sim.symm {a b : Text} (h : Sim a b) : Sim b a := fun l => ⟨(h l).1.symm, (h l).2.symm⟩
theorem Sim.trans {a b c : Text} (h : Sim a b) (h' : Sim b c) : Sim a c :=
  fun l => ⟨(h l).1.trans (h' l).1, (h l).2.trans (h' l).2⟩

theorem Sim.append {a b c d : Text} (h : Sim a b) (h' : Sim c d) : Sim (a ++ c) (b ++ d) := by
  intro l
  rw [condenseLoop_append, condenseLoop_append, endFlag_append, endFlag_append,
    (h l).1, (h l).2, (h' _).1, (h' _).2]
  exact ⟨rfl, rfl⟩

theorem Sim.cons (c : Char) {a b : Text} (h : Sim a b) : Sim (c :: a) (c :: b) :=
  Sim.append (Sim.refl [c]) h

/-- two blanks count as one -/
theorem Sim.blank2 (t : Text) : Sim (' ' :: ' ' :: t) (' ' :: t) := by
  intro l
  exact ⟨condenseLoop_blank_cons isBlank_space l t, rfl⟩

theorem Sim.replicate (k : Nat) (t : Text) : Sim (List.replicate (k + 1) ' ' ++ t) (' ' :: t) := by
  intro l
  refine ⟨condenseLoop_replicate l k t, ?_⟩
  rw [endFlag_append, endFlag_cons]
  cases t with
  | nil => simp [endFlag_snoc, List.replicate_succ', isBlank_space]
  | cons c cs => rfl

/-- any non-empty run of blanks and tabs counts as one space -/
theorem Sim.blankRun {r : Text} (hne : r ≠ []) (hb : ∀ c ∈ r, isBlank c = true) : Sim r [' '] := by
  induction r with
  | nil => exact absurd rfl hne
  | cons b r ih =>
    have h1 : Sim [b] [' '] := by
      intro l
      have hb' := hb b List.mem_cons_self
      rw [condenseLoop_cons_blank hb', condenseLoop_cons_blank isBlank_space]
      exact ⟨rfl, by simp [hb', isBlank_space]⟩
    cases r with
    | nil => exact h1
    | cons c r' =>
      have h2 := ih (by simp) (fun d hd => hb d (List.mem_cons_of_mem _ hd))
      exact (Sim.append h1 h2).trans (Sim.blank2 [])

theorem Sim.condense {a b : Text} (h : Sim a b) : condense a = condense b := by
  rw [condense_eq_strip, condense_eq_strip]; unfold squeeze; rw [(h true).1]

theorem Sim.joinText {s₁ s₂ : Text} (h : Sim s₁ s₂) (xs : List Text) :
    Sim (joinText s₁ xs) (joinText s₂ xs) := by
  induction xs with
  | nil => exact Sim.refl _
  | cons x rest ih =>
    cases rest with
    | nil => exact Sim.refl _
    | cons y r =>
      show Sim (x ++ s₁ ++ Stackage.joinText s₁ (y :: r)) (x ++ s₂ ++ Stackage.joinText s₂ (y :: r))
      exact Sim.append (Sim.append (Sim.refl x) h) ih

/-! ## `nrm`, `Solid`: texts that are already condensed -/

/-- with `last` = "preceded by a blank": no blank after a blank, and every blank is a space -/
def nrm (last : Bool) : Text → Bool
  | [] => true
  | c :: cs => (if isBlank c then !last && c == ' ' else true) && nrm (isBlank c) cs

theorem nrm_condenseLoop (l : Bool) (t : Text) : nrm l (condenseLoop l t) = true := by
  induction t generalizing l with
  | nil => simp [nrm]
  | cons c cs ih =>
    cases hb : isBlank c
    · rw [condenseLoop_cons_nonblank hb]; simp [nrm, hb, ih]
    · rw [condenseLoop_cons_blank hb]
      cases l
      · simp [nrm, isBlank_space, ih]
      · simp [ih]

theorem condenseLoop_of_nrm {l : Bool} {t : Text} (h : nrm l t = true) : condenseLoop l t = t := by
  induction t generalizing l with
  | nil => simp
  | cons c cs ih =>
    cases hb : isBlank c
    · simp only [nrm, hb, Bool.false_eq_true, if_false, Bool.true_and] at h
      rw [condenseLoop_cons_nonblank hb, ih h]
    · simp only [nrm, hb, if_true, Bool.and_eq_true, Bool.not_eq_true', beq_iff_eq] at h
      obtain ⟨⟨hl, hc⟩, hr⟩ := h
      subst hl; subst hc
      rw [condenseLoop_cons_blank hb, ih hr]; simp

theorem nrm_append_left {l : Bool} {a b : Text} (h : nrm l (a ++ b) = true) : nrm l a = true := by
  induction a generalizing l with
  | nil => rfl
  | cons c cs ih =>
    simp only [List.cons_append, nrm, Bool.and_eq_true] at h ⊢
    exact ⟨h.1, ih h.2⟩

theorem nrm_append_right {l : Bool} {a b : Text} (h : nrm l (a ++ b) = true) :
    nrm (endFlag l a) b = true := by
  induction a generalizing l with
  | nil => exact h
  | cons c cs ih =>
    simp only [List.cons_append, nrm, Bool.and_eq_true] at h
    exact ih h.2

theorem nrm_weaken {t : Text} (h : nrm true t = true) : nrm false t = true := by
  cases t with
  | nil => rfl
  | cons c cs =>
    cases hb : isBlank c <;> simp_all [nrm]

theorem nrm_stripTrail {l : Bool} {u : Text} (h : nrm l u = true) : nrm l (stripTrail u) = true := by
  obtain ⟨r, hr⟩ := stripTrail_prefix u
  rw [hr] at h; exact nrm_append_left h

/-- a text that is its own condensation whatever surrounds it: no leading or trailing blank,
no two adjacent blanks, no tab -/
def Solid (t : Text) : Prop := nrm true t = true ∧ endFlag false t = false

theorem Solid.nil : Solid [] := ⟨rfl, rfl⟩

theorem Solid.loop_eq {t : Text} (h : Solid t) (l : Bool) : condenseLoop l t = t := by
  cases l
  · exact condenseLoop_of_nrm (nrm_weaken h.1)
  · exact condenseLoop_of_nrm h.1

theorem Solid.endFlag_eq {t : Text} (h : Solid t) (hne : t ≠ []) (l : Bool) : endFlag l t = false := by
  rw [endFlag_ne_nil hne l false]; exact h.2

/-- every output of `condense` is solid -/
theorem solid_condense (t : Text) : Solid (condense t) := by
  constructor
  · rw [condense_eq_strip]; exact nrm_stripTrail (nrm_condenseLoop true t)
  · unfold condense trimBlanks
    have h := endFlag_condenseLoop false (trimRight (trimLeft t))
    rw [endFlag_trimRight] at h; exact h

/-- leading blanks are immaterial -/
theorem condense_blanks_append {r : Text} (hb : ∀ c ∈ r, isBlank c = true) (t : Text) :
    condense (r ++ t) = condense t := by
  induction r with
  | nil => rfl
  | cons b r ih =>
    rw [List.cons_append, condense_cons_blank (hb b List.mem_cons_self)]
    exact ih (fun d hd => hb d (List.mem_cons_of_mem _ hd))

/-- trailing blanks are immaterial -/
theorem condense_append_blanks {r : Text} (hb : ∀ c ∈ r, isBlank c = true) (t : Text) :
    condense (t ++ r) = condense t := by
  induction r using snoc_induction with
  | h0 => rw [List.append_nil]
  | h1 u c ih =>
    rw [← List.append_assoc, condense_snoc_blank (hb c (by simp))]
    exact ih (fun d hd => hb d (by simp [hd]))

/-- **idempotence** -/
theorem condense_idem (t : Text) : condense (condense t) = condense t := by
  have h := solid_condense t
  rw [condense_eq_strip (condense t)]; unfold squeeze
  rw [h.loop_eq true]; exact stripTrail_of_endFlag h.2

/-- a solid text is a fixed point of `condense` -/
theorem condense_of_solid {t : Text} (h : Solid t) : condense t = t := by
  rw [condense_eq_strip]; unfold squeeze
  rw [h.loop_eq true]; exact stripTrail_of_endFlag h.2

/-- a text without blanks is solid -/
theorem solid_of_blankFree {t : Text} (h : ∀ c ∈ t, isBlank c = false) : Solid t := by
  constructor
  · suffices ∀ l, nrm l t = true from this true
    induction t with
    | nil => intro _; rfl
    | cons c cs ih =>
      intro l
      have hc := h c (List.mem_cons_self)
      simp only [nrm, hc, Bool.false_eq_true, if_false, Bool.true_and]
      exact ih (fun d hd => h d (List.mem_cons_of_mem _ hd)) false
  · rcases eq_nil_or_snoc t with rfl | ⟨v, c, rfl⟩
    · rfl
    · rw [endFlag_snoc]; exact h c (by simp)

/-! ## `WSNormal` is `Solid` -/

theorem no_tab_of_nrm {l : Bool} {t : Text} (hl : nrm l t = true) : ∀ c ∈ t, c ≠ '\t' := by
  induction t generalizing l with
  | nil => intro c hc; simp at hc
  | cons d ds ih =>
    intro c hc
    simp only [nrm, Bool.and_eq_true] at hl
    rcases List.mem_cons.mp hc with rfl | hc'
    · cases hb : isBlank c
      · exact ne_tab_of_not_blank hb
      · have := hl.1; simp [hb] at this
        rw [this.2]; decide
    · exact ih hl.2 c hc'

theorem wsnormal_of_solid {t : Text} (h : Solid t) : WSNormal t := by
  obtain ⟨hn, he⟩ := h
  refine ⟨?_, ?_, ?_, ?_⟩
  · intro c hc
    cases t with
    | nil => simp at hc
    | cons d ds =>
      simp only [List.head?_cons, Option.some.injEq] at hc; subst hc
      cases hb : isBlank d
      · rfl
      · simp [nrm, hb] at hn
  · intro c hc
    obtain ⟨ys, rfl⟩ := List.getLast?_eq_some_iff.mp hc
    rw [endFlag_snoc] at he; exact he
  · intro a b pre post ht ⟨ha, hb⟩
    subst ht
    have := nrm_append_right hn
    simp [nrm, ha, hb] at this
  · exact no_tab_of_nrm hn

theorem solid_of_wsnormal {t : Text} (h : WSNormal t) : Solid t := by
  obtain ⟨h1, h2, h3, h4⟩ := h
  constructor
  · suffices ∀ (l : Bool) (t : Text), (l = true → ∀ c, t.head? = some c → isBlank c = false) →
        (∀ a b pre post, t = pre ++ a :: b :: post → ¬ (isBlank a = true ∧ isBlank b = true)) →
        (∀ c ∈ t, c ≠ '\t') → nrm l t = true from this true t (fun _ => h1) h3 h4
    intro l t
    induction t generalizing l with
    | nil => intros; rfl
    | cons c cs ih =>
      intro hh ha ht
      have hrest : nrm (isBlank c) cs = true := by
        apply ih
        · intro hb d hd
          cases cs with
          | nil => simp at hd
          | cons e es =>
            simp only [List.head?_cons, Option.some.injEq] at hd; subst hd
            cases hd : isBlank e
            · rfl
            · exact absurd ⟨hb, hd⟩ (ha c e [] es rfl)
        · intro a b pre post hcs
          exact ha a b (c :: pre) post (by rw [hcs]; rfl)
        · intro d hd; exact ht d (List.mem_cons_of_mem _ hd)
      cases hb : isBlank c
      · rw [hb] at hrest; simp [nrm, hb, hrest]
      · have hl : l = false := by
          cases l
          · rfl
          · have := hh rfl c rfl; rw [hb] at this; exact absurd this (by decide)
        have hc : c = ' ' := by
          rcases isBlank_cases hb with h | h
          · exact h
          · exact absurd h (ht c List.mem_cons_self)
        subst hl; subst hc
        simp [nrm, isBlank_space] at hrest ⊢
        exact hrest
  · rcases eq_nil_or_snoc t with rfl | ⟨v, c, rfl⟩
    · rfl
    · rw [endFlag_snoc]; exact h2 c List.getLast?_concat

theorem wsnormal_iff_solid (t : Text) : WSNormal t ↔ Solid t := ⟨solid_of_wsnormal, wsnormal_of_solid⟩

/-! ## infix preservation -/

/-- a solid piece of a text survives `condense` verbatim -/
theorem Solid.infix_condense {w x : Text} (hw : Solid w) (h : w <:+: x) : w <:+: condense x := by
  by_cases hne : w = []
  · subst hne; exact List.nil_infix
  obtain ⟨a, b, rfl⟩ := h
  rw [condense_eq_strip]; unfold squeeze
  rw [List.append_assoc, condenseLoop_append, condenseLoop_append, hw.loop_eq,
    hw.endFlag_eq hne]
  rw [stripTrail_append _ (by simp [hne])]
  by_cases hB : condenseLoop false b = []
  · rw [hB, List.append_nil, stripTrail_of_endFlag hw.2]
    exact ⟨condenseLoop true a, [], by simp⟩
  · rw [stripTrail_append _ hB]
    exact ⟨condenseLoop true a, stripTrail (condenseLoop false b), by simp [List.append_assoc]⟩

/-! ## `padValue`, `foldValue`, `encapValue`, `joinText` -/

theorem padValue_of_ne {d : Bool} {v : Text} (h : v ≠ []) :
    padValue d v = if d then ' ' :: (v ++ [' ']) else v := by
  unfold padValue
  cases v with
  | nil => exact absurd rfl h
  | cons c cs => simp

theorem padValue_nil (d : Bool) : padValue d [] = [] := rfl

theorem infix_padValue (d : Bool) (v : Text) : v <:+: padValue d v := by
  by_cases h : v = []
  · subst h; exact List.nil_infix
  · rw [padValue_of_ne h]
    cases d
    · exact List.infix_refl _
    · exact ⟨[' '], [' '], by simp⟩

theorem foldValue_ne_nil {d : Bool} {v : Text} (h : v ≠ []) : foldValue d v ≠ [] := by
  cases v with
  | nil => exact absurd rfl h
  | cons c cs =>
    unfold foldValue
    cases d
    · simp
    · by_cases hu : c.isUpper = true <;> simp [hu]

theorem encapValue_nil (t : Text) : encapValue [] t = t := rfl

/-- the first pair ends up outermost (one-element pair: the same text on both sides) -/
theorem encapValue_outermost1 (a : Text) (ps : List (List Text)) (t : Text) :
    encapValue ([a] :: ps) t = a ++ encapValue ps t ++ a := rfl

/-- the first pair ends up outermost (two-element pair: left and right) -/
theorem encapValue_outermost2 (a b : Text) (ps : List (List Text)) (t : Text) :
    encapValue ([a, b] :: ps) t = a ++ encapValue ps t ++ b := rfl

theorem encapValue_cons_cases (p : List Text) (ps : List (List Text)) (t : Text) :
    (∃ a, p = [a] ∧ encapValue (p :: ps) t = a ++ encapValue ps t ++ a) ∨
    (∃ a b, p = [a, b] ∧ encapValue (p :: ps) t = a ++ encapValue ps t ++ b) ∨
    encapValue (p :: ps) t = encapValue ps t := by
  rcases p with _ | ⟨a, _ | ⟨b, _ | ⟨c, r⟩⟩⟩
  · exact Or.inr (Or.inr rfl)
  · exact Or.inl ⟨a, rfl, rfl⟩
  · exact Or.inr (Or.inl ⟨a, b, rfl, rfl⟩)
  · exact Or.inr (Or.inr rfl)

theorem infix_encapValue (enc : List (List Text)) (t : Text) : t <:+: encapValue enc t := by
  induction enc with
  | nil => exact List.infix_refl _
  | cons p ps ih =>
    rcases encapValue_cons_cases p ps t with ⟨a, _, h⟩ | ⟨a, b, _, h⟩ | h <;> rw [h]
    · exact ih.trans (List.infix_append _ _ _)
    · exact ih.trans (List.infix_append _ _ _)
    · exact ih

/-- blank-free text inside blank-free pairs is blank-free -/
theorem blankFree_encapValue {enc : List (List Text)} {t : Text}
    (ht : ∀ c ∈ t, isBlank c = false)
    (he : ∀ p ∈ enc, ∀ u ∈ p, ∀ c ∈ u, isBlank c = false) :
    ∀ c ∈ encapValue enc t, isBlank c = false := by
  induction enc with
  | nil => exact ht
  | cons p ps ih =>
    have ih' := ih (fun q hq => he q (List.mem_cons_of_mem _ hq))
    have hp := he p List.mem_cons_self
    rcases encapValue_cons_cases p ps t with ⟨a, rfl, h⟩ | ⟨a, b, rfl, h⟩ | h <;> rw [h]
    · intro c hc
      simp only [List.mem_append] at hc
      rcases hc with (hc | hc) | hc
      · exact hp _ (by simp) c hc
      · exact ih' c hc
      · exact hp _ (by simp) c hc
    · intro c hc
      simp only [List.mem_append] at hc
      rcases hc with (hc | hc) | hc
      · exact hp _ (by simp) c hc
      · exact ih' c hc
      · exact hp _ (by simp) c hc
    · exact ih'

theorem joinText_cons_cons (sep x y : Text) (r : List Text) :
    joinText sep (x :: y :: r) = x ++ sep ++ joinText sep (y :: r) := rfl

theorem infix_joinText (sep : Text) {x : Text} {xs : List Text} (h : x ∈ xs) :
    x <:+: joinText sep xs := by
  induction xs with
  | nil => simp at h
  | cons y rest ih =>
    cases rest with
    | nil =>
      simp only [List.mem_singleton] at h; subst h; exact List.infix_refl _
    | cons z r =>
      rw [joinText_cons_cons]
      rcases List.mem_cons.mp h with rfl | h'
      · exact ⟨[], sep ++ joinText sep (z :: r), by simp⟩
      · exact (ih h').trans ⟨y ++ sep, [], by simp⟩

theorem infix_concat {x : Text} {xs : List Text} (h : x ∈ xs) : x <:+: xs.foldr (· ++ ·) [] := by
  induction xs with
  | nil => simp at h
  | cons y rest ih =>
    rcases List.mem_cons.mp h with rfl | h'
    · exact ⟨[], List.foldr (· ++ ·) [] rest, by simp⟩
    · exact (ih h').trans ⟨y, [], by simp⟩

end Stackage
