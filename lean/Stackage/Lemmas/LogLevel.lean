import Stackage.Lemmas.Bits
import Stackage.Spec.OptLink

/-!
# Log levels: the bit-set model (`LogLevel.shift/unshift/string`) against the 16 independent switches of the
specification (`OptSpec.setLevels/unsetLevels/levelString`)
-/

set_option linter.unusedSimpArgs false
namespace Stackage
open OptSpec LogLevel

theorem zipWith_map_same {α β γ δ : Type} (f : β → γ → δ) (g : α → β) (h : α → γ) (L : List α) :
    List.zipWith f (L.map g) (L.map h) = L.map (fun a => f (g a) (h a)) := by
  induction L with
  | nil => rfl
  | cons a L ih => simp [ih]

theorem mem_of_lookup {α β : Type} [BEq α] [LawfulBEq α] (k : α) (v : β) (l : List (α × β)) (h : l.lookup k = some v) : (k, v) ∈ l := by
  induction l with
  | nil => simp [List.lookup] at h
  | cons p l ih =>
    obtain ⟨k', v'⟩ := p
    unfold List.lookup at h
    by_cases hk : k == k'
    · simp [hk] at h; have := eq_of_beq hk; subst this; subst h; simp
    · simp [hk] at h; exact List.mem_cons_of_mem _ (ih h)

/-- two association lists denote the same partial function (up to `f`) when every entry of the first is found
in the second and every key of the second occurs in the first — whatever the order of the entries -/
theorem lookup_agree {α β γ : Type} [BEq α] [LawfulBEq α] (f : β → γ) (A : List (α × β)) (B : List (α × γ))
    (hA : ∀ p ∈ A, B.lookup p.1 = some (f p.2)) (hB : ∀ p ∈ B, (A.lookup p.1).isSome = true) (k : α) :
    (A.lookup k).map f = B.lookup k := by
  cases h : A.lookup k with
  | some v => have := hA _ (mem_of_lookup k v A h); simp [this]
  | none =>
    cases h' : B.lookup k with
    | none => rfl
    | some w => have := hB _ (mem_of_lookup k w B h'); simp [h] at this

theorem bitsOf_eq (n : Nat) : bitsOf n = lvlAbs n := by
  unfold bitsOf lvlAbs
  apply List.map_congr_left; intro i _
  rw [Nat.testBit_eq_decide_div_mod_eq]
  by_cases h : n / 2 ^ i % 2 = 1 <;> simp [h]

theorem lvlAbs_mod (n : Nat) : lvlAbs (n % 65536) = lvlAbs n := by
  unfold lvlAbs
  apply List.map_congr_left; intro i hi
  have h16 : (65536 : Nat) = 2 ^ 16 := by decide
  rw [h16, Nat.testBit_mod_two_pow]
  have : i < 16 := List.mem_range.mp hi
  simp [this]

theorem lvlAbs_or (r l : Nat) : lvlAbs (r ||| l) = List.zipWith (· || ·) (lvlAbs r) (lvlAbs l) := by
  unfold lvlAbs; rw [zipWith_map_same]
  apply List.map_congr_left; intro i _; exact Nat.testBit_or r l i

theorem lvlAbs_andNot (r l : Nat) : lvlAbs (andNot r l) = List.zipWith (fun b x => b && !x) (lvlAbs r) (lvlAbs l) := by
  unfold lvlAbs; rw [zipWith_map_same]
  apply List.map_congr_left; intro i hi; exact Bits.testBit_andNot r l i (List.mem_range.mp hi)

theorem testBit_high {a i : Nat} (ha : a < 65536) (hi : 16 ≤ i) : a.testBit i = false := by
  apply Nat.testBit_lt_two_pow
  calc a < 2 ^ 16 := by simpa using ha
    _ ≤ 2 ^ i := Nat.pow_le_pow_right (by decide) hi

/-- a 16-bit word is determined by its 16 switches -/
theorem lvlAbs_inj {a b : Nat} (ha : a < 65536) (hb : b < 65536) (h : lvlAbs a = lvlAbs b) : a = b := by
  unfold lvlAbs at h
  have hh := List.map_inj_left.mp h
  apply Nat.eq_of_testBit_eq; intro i
  by_cases hi : i < 16
  · exact hh i (List.mem_range.mpr hi)
  · rw [testBit_high ha (Nat.le_of_not_lt hi), testBit_high hb (Nat.le_of_not_lt hi)]

theorem lvlAbs_none : lvlAbs 0 = noLevels := by decide
theorem lvlAbs_all : lvlAbs 65535 = allLevels := by decide

theorem lvlAbs_eq_none {l : Nat} (h : l < 65536) : (lvlAbs l == noLevels) = decide (l = 0) := by
  by_cases h0 : l = 0
  · subst h0; simp [lvlAbs_none]
  · have : lvlAbs l ≠ noLevels := fun e => h0 (lvlAbs_inj h (by decide) (e.trans lvlAbs_none.symm))
    simp [h0, this]

theorem lvlAbs_eq_all {l : Nat} (h : l < 65536) : (lvlAbs l == allLevels) = decide (l = 65535) := by
  by_cases h0 : l = 65535
  · subst h0; simp [lvlAbs_all]
  · have : lvlAbs l ≠ allLevels := fun e => h0 (lvlAbs_inj h (by decide) (e.trans lvlAbs_all.symm))
    simp [h0, this]

/-- the regenerated name table and the specification's table denote the same levels, whatever their order -/
theorem lvlMap_agree (k : Text) : (Gen.lvlMap.lookup k).map lvlAbs = levelTable.lookup k :=
  lookup_agree lvlAbs Gen.lvlMap levelTable (by decide) (by decide) k

theorem lvlMap_range : ∀ p ∈ Gen.lvlMap, p.2 < 65536 := by decide

/-- what the type switch resolves, in the specification's terms -/
theorem resolve_spec (a : Arg) :
    (resolve a).1 < 65536 ∧ ((resolve a).2 = false → (resolve a).1 = 0) ∧
    levelsOf a = if (resolve a).2 then some (lvlAbs (resolve a).1) else none := by
  cases a with
  | name s =>
    have hag := lvlMap_agree (uc s)
    cases h : Gen.lvlMap.lookup (uc s) with
    | some v =>
      have hr : resolve (.name s) = (v, true) := by simp [resolve, h]
      rw [h] at hag; rw [hr]
      exact ⟨lvlMap_range _ (mem_of_lookup _ _ _ h), by simp, by simpa [levelsOf] using hag.symm⟩
    | none =>
      have hr : resolve (.name s) = (0, false) := by simp [resolve, h]
      rw [h] at hag; rw [hr]
      refine ⟨by decide, by simp, ?_⟩
      simp only [levelsOf]; rw [← hag]; rfl
  | const l =>
    refine ⟨Nat.mod_lt _ (by decide), by simp [resolve], ?_⟩
    simp [resolve, levelsOf, bitsOf_eq, lvlAbs_mod]
  | raw i =>
    refine ⟨by simp only [resolve]; omega, by simp [resolve], ?_⟩
    simp [resolve, levelsOf, bitsOf_eq]
  | other => exact ⟨by decide, by simp [resolve], by simp [resolve, levelsOf]⟩

/-- `SetLogLevel`: the bit-set loop does what the 16 independent switches do -/
theorem shift_abs (r : Nat) (xs : List Arg) : lvlAbs (shift r xs) = setLevels (lvlAbs r) xs := by
  induction xs generalizing r with
  | nil => rfl
  | cons a rest ih =>
    obtain ⟨hlt, hz, hl⟩ := resolve_spec a
    unfold shift setLevels
    rw [hl]
    cases hok : (resolve a).2 with
    | false =>
      have h0 : (resolve a).1 = 0 := hz hok
      simp [h0, Gen.lvl_NoLogLevels, lvlAbs_none]
    | true =>
      simp only [if_true, lvlAbs_eq_none hlt, lvlAbs_eq_all hlt]
      by_cases h0 : (resolve a).1 = 0
      · simp [h0, Gen.lvl_NoLogLevels, lvlAbs_none]
      · by_cases h1 : (resolve a).1 = 65535
        · simp [h1, Gen.lvl_AllLogLevels, lvlAbs_all]
        · simp only [h0, h1, decide_false, if_false, Bool.false_eq_true]
          rw [ih]; simp only [hok, if_true]; rw [lvlAbs_or]

/-- `UnsetLogLevel` likewise -/
theorem unshift_abs (r : Nat) (xs : List Arg) : lvlAbs (unshift r xs) = unsetLevels (lvlAbs r) xs := by
  induction xs generalizing r with
  | nil => rfl
  | cons a rest ih =>
    obtain ⟨hlt, hz, hl⟩ := resolve_spec a
    unfold unshift unsetLevels
    rw [hl]
    cases hok : (resolve a).2 with
    | false =>
      have h0 : (resolve a).1 = 0 := hz hok
      simp [h0, ih]
    | true =>
      simp only [if_true, lvlAbs_eq_none hlt, lvlAbs_eq_all hlt]
      by_cases h0 : (resolve a).1 = 0
      · simp [h0, ih]
      · by_cases h1 : (resolve a).1 = 65535
        · simp [h1]
        · simp only [h0, h1, decide_false, if_false, Bool.false_eq_true]
          rw [ih]; simp only [hok, if_true]; rw [lvlAbs_andNot]

theorem or_lt (r l : Nat) (hr : r < 65536) (hl : l < 65536) : r ||| l < 65536 := by
  have h16 : (65536 : Nat) = 2 ^ 16 := by decide
  rw [h16] at *; exact Nat.or_lt_two_pow hr hl

theorem andNot_lt (r l : Nat) (hr : r < 65536) : andNot r l < 65536 := by
  unfold andNot; exact Nat.lt_of_le_of_lt Nat.and_le_left hr

theorem filterMap_congr' {α β : Type} (f g : α → Option β) (l : List α) (h : ∀ x ∈ l, f x = g x) :
    l.filterMap f = l.filterMap g := by
  induction l with
  | nil => rfl
  | cons a l ih =>
    rw [List.filterMap_cons, List.filterMap_cons, h a (List.mem_cons_self ..), ih (fun x hx => h x (List.mem_cons_of_mem _ hx))]

/-- the name `logLevelNames` gives to level number `i` -/
def nameAt (i : Nat) : Text := (Gen.lvlNames.lookup (2 ^ i)).getD []

theorem lvlNames_some : ∀ i, i < 16 → Gen.lvlNames.lookup (2 ^ i) = some (nameAt i) := by decide

/-- the regenerated bit → name table lists the 16 levels under the specification's names -/
theorem levelNames_eq : levelNames = (List.range 16).map nameAt := by decide

theorem positive_two_pow (r i : Nat) (h0 : r ≠ 0) (h1 : r ≠ 65535) : LogLevel.positive r (2 ^ i) = r.testBit i := by
  unfold LogLevel.positive; rw [if_neg h0, if_neg h1]; exact Bits.and_two_pow_ne_zero r i

theorem names_abs (r : Nat) (h0 : r ≠ 0) (h1 : r ≠ 65535) :
    names r = ((lvlAbs r).zip levelNames).filterMap (fun p => if p.1 then some p.2 else none) := by
  rw [levelNames_eq]; unfold names lvlAbs List.zip
  rw [zipWith_map_same, List.filterMap_map]
  apply filterMap_congr'; intro i hi
  have hi' : i < 16 := List.mem_range.mp hi
  simp [positive_two_pow r i h0 h1, lvlNames_some i hi']

/-- `LogLevels()`: the bit-set's `String()` is the specification's rendering of the 16 switches -/
theorem string_abs (r : Nat) (hr : r < 65536) : LogLevel.string r = levelString (lvlAbs r) := by
  unfold LogLevel.string levelString
  rw [lvlAbs_eq_all hr, lvlAbs_eq_none hr]
  by_cases h1 : r = 65535
  · subst h1; simp [Gen.lvl_AllLogLevels]
  · by_cases h0 : r = 0
    · subst h0; simp [Gen.lvl_AllLogLevels]
    · simp only [Gen.lvl_AllLogLevels, h0, h1, decide_false, if_false, Bool.false_eq_true]
      rw [names_abs r h0 h1]

theorem shift_cons (r : Nat) (a : Arg) (rest : List Arg) : shift r (a :: rest) =
    if (resolve a).1 = 0 then Gen.lvl_NoLogLevels else if (resolve a).1 = 65535 then Gen.lvl_AllLogLevels
    else shift (if (resolve a).2 then r ||| (resolve a).1 else r) rest := rfl

theorem unshift_cons (r : Nat) (a : Arg) (rest : List Arg) : unshift r (a :: rest) =
    if (resolve a).1 = 0 then unshift r rest else if (resolve a).1 = 65535 then r
    else unshift (if (resolve a).2 then andNot r (resolve a).1 else r) rest := rfl

/-- the level word stays a 16-bit value -/
theorem shift_lt (r : Nat) (xs : List Arg) (hr : r < 65536) : shift r xs < 65536 := by
  induction xs generalizing r with
  | nil => exact hr
  | cons a rest ih =>
    obtain ⟨hlt, _, _⟩ := resolve_spec a
    rw [shift_cons]
    split
    · decide
    · split
      · decide
      · apply ih; split
        · exact or_lt _ _ hr hlt
        · exact hr

theorem unshift_lt (r : Nat) (xs : List Arg) (hr : r < 65536) : unshift r xs < 65536 := by
  induction xs generalizing r with
  | nil => exact hr
  | cons a rest ih =>
    rw [unshift_cons]
    split
    · exact ih r hr
    · split
      · exact hr
      · apply ih; split
        · exact andNot_lt _ _ hr
        · exact hr

end Stackage
