import Stackage.Model.Defrag
import Stackage.Model.Alias
import Stackage.Lemmas.Alias

/-!
# `stack.defrag` commutes with every element map that preserves nil-ness (C12, C19)

`stack.defrag` only ever asks of an element whether it is nil, and moves it. So for every
`f : Val → Val` with `(f v).isNil = v.isNil`, running `defrag` on the list mapped by `f` gives the
mapped result (same faults, same patterns, same error class). The proof follows the definition
(`rawGet`, `rawSet`, `index`, `scanFrom`, `implodeLoop`, `implode`, `verifyImplode`), not the
closed forms of `Lemmas/Defrag.lean`, and therefore needs no length hypothesis.

The second half lifts this through `defragElem` and the recursion of the exported `Stack.Defrag`
for `f = erase`.
-/

set_option linter.unusedSimpArgs false
set_option linter.unusedVariables false
namespace Stackage

theorem getD_map_nil (f : Val → Val) (h0 : f .nil = .nil) : ∀ (l : List Val) (n : Nat),
    (l.map f).getD n .nil = f (l.getD n .nil)
  | [], n => by simp [h0]
  | x :: r, 0 => by simp
  | x :: r, n + 1 => by simpa using getD_map_nil f h0 r n

theorem exceptMap_ok {ε α β : Type} (g : α → β) (a : α) : Except.map g (.ok a : Except ε α) = .ok (g a) := rfl
theorem exceptMap_error {ε α β : Type} (g : α → β) (e : ε) : Except.map g (.error e : Except ε α) = .error e := rfl

namespace Stk

/-- apply `f` to every user slot -/
def mapv (f : Val → Val) (s : Stk) : Stk := { cfg := s.cfg, xs := s.xs.map f }

theorem map_nil_of_isNil (f : Val → Val) (h : ∀ v, (f v).isNil = v.isNil) : f .nil = .nil := by
  have := h .nil
  cases hv : f .nil <;> simp_all [Val.isNil]

theorem rawLen_mapv (f : Val → Val) (s : Stk) : (mapv f s).rawLen = s.rawLen := by
  simp [mapv, rawLen]

theorem ulen_mapv (f : Val → Val) (s : Stk) : (mapv f s).ulen = s.ulen := by
  unfold ulen; rw [rawLen_mapv]

theorem flag_mapv (f : Val → Val) (s : Stk) (b : Nat) : (mapv f s).flag b = s.flag b := rfl

theorem rawGet_mapv (f : Val → Val) (h0 : f .nil = .nil) (s : Stk) (j : Int) :
    (mapv f s).rawGet j = (s.rawGet j).map f := by
  unfold rawGet
  rw [rawLen_mapv]
  split
  · rfl
  · split
    · rfl
    · simp only [exceptMap_ok, mapv, getD_map_nil f h0]

theorem rawSet_mapv (f : Val → Val) (s : Stk) (j : Int) (x : Val) :
    (mapv f s).rawSet j (f x) = (s.rawSet j x).map (mapv f) := by
  unfold rawSet
  rw [rawLen_mapv]
  split
  · rfl
  · split
    · rfl
    · simp only [exceptMap_ok, mapv, List.map_set]

/-- `index` on the mapped list: the mapped element, the same raw index, the same `ok` -/
theorem index_mapv (f : Val → Val) (h : ∀ v, (f v).isNil = v.isNil) (s : Stk) (i : Int) :
    (mapv f s).index i = (s.index i).map (fun r => (f r.1, r.2.1, r.2.2)) := by
  have h0 := map_nil_of_isNil f h
  unfold index
  simp only [ulen_mapv, flag_mapv]
  split
  · split
    · simp only [exceptMap_ok, h0]
    · rw [rawGet_mapv f h0]
      cases s.rawGet _ with
      | error e => rfl
      | ok v => simp only [exceptMap_ok, bind, Except.bind, h]
  · simp only [exceptMap_ok, h0]

theorem scanFrom_mapv (f : Val → Val) (h : ∀ v, (f v).isNil = v.isNil) (s : Stk) : ∀ (n i : Nat),
    scanFrom (mapv f s) n i = scanFrom s n i
  | 0, _ => rfl
  | n + 1, i => by
      simp only [scanFrom, index_mapv f h, scanFrom_mapv f h s n (i + 1)]
      cases s.index (i : Int) with
      | error e => rfl
      | ok r => rfl

theorem scanPat_mapv (f : Val → Val) (h : ∀ v, (f v).isNil = v.isNil) (s : Stk) :
    (mapv f s).scanPat = s.scanPat := by
  unfold scanPat; rw [rawLen_mapv, scanFrom_mapv f h]

/-- the result of `implode`, mapped -/
def mapP (f : Val → Val) (r : Stk × List Bool) : Stk × List Bool := (mapv f r.1, r.2)

theorem implodeLoop_mapv (f : Val → Val) (h : ∀ v, (f v).isNil = v.isNil) (max : Int) :
    ∀ (fuel : Nat) (s : Stk) (start ct : Int) (tpat : List Bool),
    implodeLoop fuel (mapv f s) start ct max tpat = (implodeLoop fuel s start ct max tpat).map (mapP f)
  | 0, _, _, _, _ => rfl
  | fuel + 1, s, start, ct, tpat => by
      have h0 := map_nil_of_isNil f h
      simp only [implodeLoop, ulen_mapv]
      split
      · rfl
      · rw [rawGet_mapv f h0]
        cases s.rawGet (wrap64 (wrap64 (start + ct) + 1)) with
        | error e => rfl
        | ok v =>
          simp only [exceptMap_ok, liftF, bind, Except.bind, h]
          split
          · exact implodeLoop_mapv f h max fuel s start _ tpat
          · rw [rawSet_mapv f s]
            cases s.rawSet (wrap64 (start + 1)) v with
            | error e => rfl
            | ok s1 =>
              simp only [exceptMap_ok]
              cases setPat tpat (wrap64 (start + ct)) with
              | error e => rfl
              | ok tpat' =>
                simp only
                have := rawSet_mapv f s1 (wrap64 (wrap64 (start + ct) + 1)) .nil
                rw [h0] at this
                rw [this]
                cases s1.rawSet (wrap64 (wrap64 (start + ct) + 1)) .nil with
                | error e => rfl
                | ok s2 =>
                  simp only [exceptMap_ok]
                  exact implodeLoop_mapv f h max fuel s2 _ 0 tpat'

theorem implodeFuel_mapv (f : Val → Val) (s : Stk) : implodeFuel (mapv f s) = implodeFuel s := by
  simp [implodeFuel, mapv]

theorem implode_mapv (f : Val → Val) (h : ∀ v, (f v).isNil = v.isNil) (s : Stk) (start max : Int) (spat : List Bool) :
    (mapv f s).implode start max spat = (s.implode start max spat).map (mapP f) := by
  unfold implode
  rw [implodeFuel_mapv]
  cases setPat (List.replicate spat.length false) 0 with
  | error e => rfl
  | ok t => simp only [liftF, bind, Except.bind]; exact implodeLoop_mapv f h max _ s start 0 t

/-- **`stack.defrag` commutes with every element map that preserves nil-ness.** -/
theorem defrag_map (f : Val → Val) (h : ∀ v, (f v).isNil = v.isNil) (s : Stk) (max : Int) :
    (mapv f s).defrag max = (s.defrag max).map (mapv f) := by
  unfold defrag
  rw [scanPat_mapv f h]
  cases s.scanPat with
  | error e => rfl
  | ok spat =>
    simp only [liftF, bind, Except.bind]
    split
    · rw [implode_mapv f h]
      cases s.implode (firstGap spat 0) max spat with
      | error e => rfl
      | ok r =>
        obtain ⟨s1, tpat⟩ := r
        simp only [exceptMap_ok, mapP]
        cases verifyImplode spat tpat with
        | error e => rfl
        | ok q =>
          obtain ⟨last, err⟩ := q
          simp only
          split
          · have hl : ∀ c : Cfg, rawLen { cfg := c, xs := (mapv f s1).xs } = rawLen { cfg := c, xs := s1.xs } := by
              intro c; simp [rawLen, mapv]
            by_cases hc : wrap64 (last + 1) > rawLen { cfg := { s1.cfg with err := err }, xs := s1.xs }
            · rw [if_pos hc, if_pos (by rw [hl]; exact hc)]; rfl
            · rw [if_neg hc, if_neg (by rw [hl]; exact hc)]
              simp only [exceptMap_ok, mapv, List.map_take]
          · rfl
    · rfl

end Stk

/-! ## `erase` through `stack.defrag`, `defragElem` and the exported `Stack.Defrag` -/

theorem Stk.erase_eq_mapv (s : Stk) : s.erase = Stk.mapv Stackage.erase s := by
  simp only [Stk.erase, Stk.mapv, eraseList_eq_map]

/-- `stack.defrag` on the alias tree is `stack.defrag` on the native tree -/
theorem Stk.defrag_erase (s : Stk) (max : Int) : s.erase.defrag max = (s.defrag max).map Stk.erase := by
  have : (Stk.erase : Stk → Stk) = Stk.mapv Stackage.erase := funext Stk.erase_eq_mapv
  rw [this]
  exact Stk.defrag_map Stackage.erase erase_isNil s max

/-- one element of the loop of `Stack.Defrag`, given that the recursive call commutes with `erase` -/
theorem defragElem_erase (rec : Stk → Except DErr Stk)
    (hrec : ∀ t : Stk, rec t.erase = (rec t).map Stk.erase) :
    ∀ v : Val, Stk.defragElem rec (erase v) = (Stk.defragElem rec v).map erase
  | .stk f c xs => by
      have := hrec ⟨c, xs⟩
      simp only [Stk.erase] at this
      simp only [erase, Stk.defragElem, this]
      cases rec ⟨c, xs⟩ with
      | error e => rfl
      | ok r => rfl
  | .cnd f c kw op (.stk f2 c2 xs2) => by
      have := hrec ⟨c2, xs2⟩
      simp only [Stk.erase] at this
      simp only [erase, Stk.defragElem, this]
      cases rec ⟨c2, xs2⟩ with
      | error e => rfl
      | ok r => rfl
  | .cnd f c kw op .nil => rfl
  | .cnd f c kw op (.leaf _) => rfl
  | .cnd f c kw op (.cnd _ _ _ _ _) => rfl
  | .cnd f c kw op (.zstk _) => rfl
  | .cnd f c kw op (.zcnd _) => rfl
  | .cnd f c kw op (.anys _) => rfl
  | .cnd f c kw op (.opv _) => rfl
  | .nil => rfl
  | .leaf _ => rfl
  | .zstk _ => rfl
  | .zcnd _ => rfl
  | .anys _ => rfl
  | .opv _ => rfl

theorem mapM_defragElem_erase (rec : Stk → Except DErr Stk)
    (hrec : ∀ t : Stk, rec t.erase = (rec t).map Stk.erase) :
    ∀ xs : List Val, (eraseList xs).mapM (Stk.defragElem rec) = (xs.mapM (Stk.defragElem rec)).map eraseList
  | [] => rfl
  | x :: rest => by
      simp only [eraseList, List.mapM_cons, defragElem_erase rec hrec x, mapM_defragElem_erase rec hrec rest]
      cases Stk.defragElem rec x with
      | error e => rfl
      | ok y =>
        cases rest.mapM (Stk.defragElem rec) with
        | error e => rfl
        | ok ys => rfl

/-- the exported `Stack.Defrag` commutes with `erase`, for every recursion budget -/
theorem Stk.Defrag_erase : ∀ (fuel : Nat) (args : List Int) (s : Stk),
    Stk.Defrag fuel args s.erase = (Stk.Defrag fuel args s).map Stk.erase
  | 0, _, _ => rfl
  | fuel + 1, args, s => by
      simp only [Stk.Defrag]
      have hro : s.erase.readOnly = s.readOnly := rfl
      rw [hro]
      split
      · rfl
      · rw [Stk.defrag_erase]
        cases s.defrag (Stk.defragMax args) with
        | error e => rfl
        | ok s1 =>
          simp only [exceptMap_ok, bind, Except.bind]
          have hn : s1.erase.IsNesting = s1.IsNesting := by
            unfold Stk.IsNesting Stk.erase; exact any_erase s1.xs
          rw [hn]
          split
          · have hx : s1.erase.xs = eraseList s1.xs := rfl
            rw [hx, mapM_defragElem_erase _ (fun t => Stk.Defrag_erase fuel [Stk.defragMax args] t)]
            cases s1.xs.mapM (Stk.defragElem fun t => Stk.Defrag fuel [Stk.defragMax args] t) with
            | error e => rfl
            | ok xs' => rfl
          · rfl

end Stackage
