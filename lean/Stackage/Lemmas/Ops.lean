import Stackage.Lemmas.Index

set_option linter.unusedSimpArgs false
namespace Stackage
open ListSpec
namespace Stk

theorem flag_xs (s : Stk) (ys : List Val) (f : Nat) : ({ s with xs := ys } : Stk).flag f = s.flag f := rfl

theorem WF.cap_isLen {s : Stk} (hwf : s.WF) : IsLen s.cfg.cap := by
  rw [isLen_iff]
  rcases hwf.capOk with h | ⟨h1, h2, _⟩
  · rw [h]; omega
  · rw [pow62] at h2; omega

theorem WF.rawLen_isRawLen {s : Stk} (hwf : s.WF) : IsRawLen s.rawLen := small_isRawLen hwf.small

theorem WF.ulen_isLen {s : Stk} (hwf : s.WF) : IsLen s.ulen := by
  rw [ulen_eq s hwf.small]; exact small_isLen hwf.small

/-- the regenerated `isFull`, by what it means -/
theorem isFull_sem (s : Stk) (hwf : s.WF) : s.isFull = decide (s.cfg.cap ≠ 0 ∧ s.rawLen = s.cfg.cap) := by
  unfold isFull
  exact GenSem.isFull _ _ hwf.cap_isLen (fun _ => hwf.rawLen_isRawLen)

theorem isFull_iff (s : Stk) (hwf : s.WF) :
    s.isFull = (match s.opts.room with | some 0 => true | _ => false) := by
  rw [isFull_sem s hwf]
  unfold opts
  rcases hwf.capOk with h | ⟨h1, h2, h3⟩
  · simp [h]
  · have hne : s.cfg.cap ≠ 0 := by omega
    simp only [hne, ↓reduceIte, ne_eq, not_false_eq_true, true_and]
    by_cases hf : s.rawLen = s.cfg.cap
    · have : (s.cfg.cap - s.rawLen).toNat = 0 := by omega
      simp [hf, this]
    · have : (s.cfg.cap - s.rawLen).toNat ≠ 0 := by omega
      simp only [hf, decide_false]
      split
      · rename_i heq; simp at heq; omega
      · rfl

theorem wf_append (s : Stk) (x : Val) (hwf : s.WF) (hs : SmallLen (s.xs.length + 1))
    (hroom : s.isFull = false) : ({ s with xs := s.xs ++ [x] } : Stk).WF := by
  constructor
  · simpa using hs
  · rcases hwf.capOk with h | ⟨h1, h2, h3⟩
    · exact Or.inl h
    · refine Or.inr ⟨h1, h2, ?_⟩
      rw [isFull_sem s hwf] at hroom
      have hne : s.cfg.cap ≠ 0 := by omega
      simp only [ne_eq, hne, not_false_eq_true, true_and, decide_eq_false_iff_not] at hroom
      unfold rawLen at *
      simp only [List.length_append, List.length_cons, List.length_nil]
      omega

theorem opts_append_room (s : Stk) (x : Val) (hwf : s.WF) (hroom : s.isFull = false) :
    ({ s with xs := s.xs ++ [x] } : Stk).opts.room = s.opts.room.map (· - 1) := by
  unfold opts rawLen
  rcases hwf.capOk with h | ⟨h1, h2, h3⟩
  · simp [h]
  · have hne : s.cfg.cap ≠ 0 := by omega
    simp only [hne, ↓reduceIte, List.length_append, List.length_cons, List.length_nil, Option.map_some, Option.some.injEq]
    omega

/-- `genericAppend`: append, in order, the values that pass the no-nesting test, while room remains -/
theorem genericAppend_spec (vs : List Val) : ∀ (s : Stk), s.WF → SmallLen (s.xs.length + vs.length) →
    (s.genericAppend vs).cfg = s.cfg ∧
    (s.genericAppend vs).xs =
      s.xs ++ takeRoom s.opts.room (vs.filter (fun v => !(s.flag Gen.flag_nnest && v.isStack))) ∧
    (s.genericAppend vs).WF := by
  induction vs with
  | nil => intro s hwf _; cases h : s.opts.room <;> simp [genericAppend, takeRoom, h, hwf]
  | cons x rest ih =>
    intro s hwf hs
    unfold genericAppend
    have hcan : s.canPushNester x = !(s.flag Gen.flag_nnest && x.isStack) := by
      unfold canPushNester; cases s.flag Gen.flag_nnest <;> simp
    have hs' : SmallLen (s.xs.length + rest.length) := by
      unfold SmallLen at *; simp only [List.length_cons] at hs; omega
    by_cases hacc : (!(s.flag Gen.flag_nnest && x.isStack)) = true
    · by_cases hfull : s.isFull = true
      · -- full: dropped, and everything after it too
        have hroom := isFull_iff s hwf
        rw [hfull] at hroom
        have hr0 : s.opts.room = some 0 := by
          cases hr : s.opts.room with
          | none => simp [hr] at hroom
          | some r => cases r with
            | zero => rfl
            | succ k => simp [hr] at hroom
        simp only [hcan, hacc, hfull, Bool.not_true, Bool.and_false, Bool.false_eq_true, ↓reduceIte]
        obtain ⟨c, x', w⟩ := ih s hwf hs'
        refine ⟨c, ?_, w⟩
        rw [x', hr0]; simp [takeRoom]
      · have hfull' : s.isFull = false := by simpa using hfull
        simp only [hcan, hacc, hfull', Bool.not_false, Bool.and_self, ↓reduceIte]
        have hwf1 := wf_append s x hwf (by unfold SmallLen at *; simp only [List.length_cons] at hs; omega) hfull'
        have hs1 : SmallLen (({ s with xs := s.xs ++ [x] } : Stk).xs.length + rest.length) := by
          unfold SmallLen at *; simp only [List.length_cons, List.length_append, List.length_nil] at *; omega
        obtain ⟨c, x', w⟩ := ih _ hwf1 hs1
        refine ⟨c, ?_, w⟩
        rw [x', opts_append_room s x hwf hfull']
        simp only [flag_xs, List.filter_cons, hacc, ↓reduceIte, List.append_assoc, List.singleton_append]
        have hroom := isFull_iff s hwf
        rw [hfull'] at hroom
        cases hr : s.opts.room with
        | none => simp [takeRoom]
        | some r =>
          cases r with
          | zero => simp [hr] at hroom
          | succ k => simp [takeRoom]
    · have hacc' : (!(s.flag Gen.flag_nnest && x.isStack)) = false := by simpa using hacc
      simp only [hcan, hacc', Bool.false_and, Bool.false_eq_true, ↓reduceIte]
      obtain ⟨c, x', w⟩ := ih s hwf hs'
      refine ⟨c, ?_, w⟩
      rw [x', List.filter_cons]; simp only [hacc', Bool.false_eq_true, ↓reduceIte]


theorem rawSet_succ (s : Stk) (p : Nat) (x : Val) (hp : p < s.xs.length) :
    s.rawSet ((p : Int) + 1) x = .ok { s with xs := s.xs.set p x } := by
  unfold rawSet rawLen
  have h1 : ¬ (((p:Int) + 1 < 0) ∨ ((p:Int) + 1 ≥ (s.xs.length:Int) + 1)) := by omega
  have h2 : ¬ ((p:Int) + 1 = 0) := by omega
  have h3 : ((p:Int) + 1 - 1).toNat = p := by omega
  simp only [h1, h2, ↓reduceIte, h3]

theorem rawGetSlot_succ (s : Stk) (p : Nat) (hp : p < s.xs.length) :
    s.rawGetSlot ((p : Int) + 1) = .ok (s.xs.getD p .nil) := by
  unfold rawGetSlot rawLen
  have h1 : ¬ (((p:Int) + 1 < 0) ∨ ((p:Int) + 1 ≥ (s.xs.length:Int) + 1)) := by omega
  have h2 : ¬ ((p:Int) + 1 = 0) := by omega
  have h3 : ((p:Int) + 1 - 1).toNat = p := by omega
  simp only [h1, h2, ↓reduceIte, h3]

/-- the regenerated success test of `insert` holds when exactly one element was added -/
theorem insert_ok_true (s' : Stk) (n : Nat) (hs : SmallLen (n + 1)) (hlen : s'.xs.length = n + 1) :
    Gen.insert_ok_append { u1 := (n : Int), ulen := s'.ulen } = true := by
  have hsm' : SmallLen s'.xs.length := by rw [hlen]; exact hs
  have h1 : IsLen (((n + 1 : Nat)) : Int) := small_isLen hs
  have h0 : IsLen (n : Int) := by rw [isLen_iff] at *; omega
  rw [ulen_eq s' hsm', hlen]
  simp only [GenSem.insert_ok_append, h0, h1, decide_eq_true_eq]
  omega

/-- `stack.insert`: fails on a full stack, otherwise inserts at the clamped position -/
theorem insert_spec (s : Stk) (x : Val) (left : Int) (hwf : s.WF) (hs : SmallLen (s.xs.length + 1))
    (hl : InInt left) :
    s.insert x left =
      .ok (if s.opts.room == some 0 then (s, false) else ({ s with xs := ins s.xs x left }, true)) := by
  have hu := ulen_eq s hwf.small
  have hlen := small_isLen hwf.small
  have hl0 := hl
  rw [inInt_iff] at hl
  have hsm := hwf.small
  unfold SmallLen at hsm; rw [pow62] at hsm
  unfold insert
  -- the regenerated guards, by what they mean
  simp only [hu, GenSem.insert_full, GenSem.insert_append, GenSem.insert_front, hlen, hwf.cap_isLen, hl0,
    inInt_wrap64, decide_eq_true_eq]
  have hfullG : (s.cfg.cap ≠ 0 ∧ s.cfg.cap ≤ (s.xs.length : Int) + 1) ↔ (s.opts.room == some 0) = true := by
    unfold opts rawLen
    rcases hwf.capOk with h | ⟨h1, h2, h3⟩
    · simp [h]
    · unfold rawLen at h3
      have hne : s.cfg.cap ≠ 0 := by omega
      simp only [hne, ↓reduceIte, ne_eq, not_false_eq_true, true_and, beq_iff_eq, Option.some.injEq]
      omega
  simp only [hfullG]
  by_cases hr : (s.opts.room == some 0) = true
  · simp [hr]
  · have hr' : (s.opts.room == some 0) = false := by simpa using hr
    simp only [hr', Bool.false_eq_true, ↓reduceIte]
    unfold ins
    by_cases happ : (s.xs.length : Int) ≤ left
    · simp only [happ, ↓reduceIte]
      rw [insert_ok_true _ s.xs.length hs (by simp)]
      by_cases hle : left ≤ 0
      · have : s.xs.length = 0 := by omega
        have : s.xs = [] := by simpa using this
        simp [hle, this]
      · have hge : left ≥ (s.xs.length : Int) := by omega
        simp [hle, hge]
    · have e3 : wrap64 (left + 1) = left + 1 := by rw [wrap64_eq] <;> omega
      simp only [happ, ↓reduceIte, e3]
      by_cases hle : left ≤ 0
      · have h1 : left + 1 ≤ 1 := by omega
        simp only [h1, hle, ↓reduceIte]
        rw [insert_ok_true _ s.xs.length hs (by simp)]
      · have h1 : ¬ (left + 1 ≤ 1) := by omega
        have hge : ¬ (left ≥ (s.xs.length : Int)) := by omega
        have hpan : ¬ (left + 1 + 1 > s.rawLen) := by unfold rawLen; omega
        have hnn : (left + 1 - 1).toNat = left.toNat := by
          have : left + 1 - 1 = left := by omega
          rw [this]
        have hlen' : (List.take left.toNat s.xs ++ x :: List.drop left.toNat s.xs).length = s.xs.length + 1 := by
          simp [List.length_take, List.length_drop]; omega
        simp only [h1, ↓reduceIte, hpan, hnn, hle, hge]
        rw [insert_ok_true _ s.xs.length hs hlen']

/-- `stack.replace`: only positions `0 ≤ i < Len` -/
theorem replace_spec (s : Stk) (x : Val) (i : Int) (hwf : s.WF) (hi : InInt i) :
    s.replace x i = .ok (if inRange s.xs i then ({ s with xs := s.xs.set i.toNat x }, true) else (s, false)) := by
  have hu := ulen_eq s hwf.small
  have hi0 := hi
  rw [inInt_iff] at hi
  have hsm := hwf.small
  unfold SmallLen at hsm; rw [pow62] at hsm
  unfold replace inRange
  simp only [hu, GenSem.replace_ok, small_isLen hwf.small, hi0, decide_eq_true_eq]
  by_cases h : 0 ≤ i ∧ i < (s.xs.length : Int)
  · have e1 : wrap64 (i + 1) = ((i.toNat : Nat) : Int) + 1 := by rw [wrap64_eq] <;> omega
    have hp : i.toNat < s.xs.length := by omega
    simp only [h.1, h.2, decide_true, Bool.and_self, ↓reduceIte, e1, rawSet_succ s _ x hp]
    rfl
  · by_cases h0 : 0 ≤ i
    · have : ¬ (i < (s.xs.length : Int)) := fun c => h ⟨h0, c⟩
      simp [h0, this]
    · simp [h0]

/-- `stack.swap`: only when both positions are in `0 ≤ · < Len` -/
theorem swap_spec (s : Stk) (i j : Int) (hwf : s.WF) (hi : InInt i) (hj : InInt j) :
    s.swap i j = .ok (if inRange s.xs i && inRange s.xs j
                      then { s with xs := swapAt s.xs i.toNat j.toNat } else s) := by
  have hu := ulen_eq s hwf.small
  have hi0 := hi
  have hj0 := hj
  rw [inInt_iff] at hi hj
  have hsm := hwf.small
  unfold SmallLen at hsm; rw [pow62] at hsm
  unfold swap inRange
  -- the regenerated guard fires exactly when one of the positions is outside 0 ≤ · < Len
  have hrej : Gen.swap_reject { i := i, j := j, ulen := s.ulen } =
      !((decide (0 ≤ i) && decide (i < (s.xs.length : Int))) && (decide (0 ≤ j) && decide (j < (s.xs.length : Int)))) := by
    simp only [hu, GenSem.swap_reject, small_isLen hwf.small, hi0, hj0]
    by_cases h1 : 0 ≤ i <;> by_cases h2 : i < (s.xs.length : Int) <;> by_cases h3 : 0 ≤ j <;>
      by_cases h4 : j < (s.xs.length : Int) <;> simp [h1, h2, h3, h4]
  rw [hrej]
  by_cases hI : 0 ≤ i ∧ i < (s.xs.length : Int)
  · by_cases hJ : 0 ≤ j ∧ j < (s.xs.length : Int)
    · have e1 : wrap64 (i + 1) = ((i.toNat : Nat) : Int) + 1 := by rw [wrap64_eq] <;> omega
      have e2 : wrap64 (j + 1) = ((j.toNat : Nat) : Int) + 1 := by rw [wrap64_eq] <;> omega
      have hp : i.toNat < s.xs.length := by omega
      have hq : j.toNat < s.xs.length := by omega
      have hq' : j.toNat < ({ s with xs := s.xs.set i.toNat (s.xs.getD j.toNat .nil) } : Stk).xs.length := by
        simpa using hq
      simp only [hI.1, hI.2, hJ.1, hJ.2, decide_true, Bool.and_self, Bool.not_true, Bool.false_eq_true, ↓reduceIte,
        e1, e2, rawGetSlot_succ s _ hp, rawGetSlot_succ s _ hq, rawSet_succ s _ _ hp]
      show (do let s1 ← (Except.ok _ : Except Fault Stk); s1.rawSet _ _) = _
      simp only [bind, Except.bind]
      rw [rawSet_succ _ _ _ hq']
      rfl
    · have : (decide (0 ≤ j) && decide (j < (s.xs.length:Int))) = false := by
        by_cases h0 : 0 ≤ j
        · have : ¬ (j < (s.xs.length : Int)) := fun c => hJ ⟨h0, c⟩
          simp [h0, this]
        · simp [h0]
      simp [hI.1, hI.2, this]
  · have : (decide (0 ≤ i) && decide (i < (s.xs.length:Int))) = false := by
      by_cases h0 : 0 ≤ i
      · have : ¬ (i < (s.xs.length : Int)) := fun c => hI ⟨h0, c⟩
        simp [h0, this]
      · simp [h0]
    simp [this]

/-- `stack.remove`: removes exactly the addressed non-nil element -/
theorem remove_spec (s : Stk) (i : Int) (hwf : s.WF) (hi : InInt i) :
    s.remove i = .ok (match pos s.xs.length (s.flag Gen.flag_negidx) (s.flag Gen.flag_fwdidx) i with
      | none => (s, .nil, false)
      | some p =>
        let v := s.xs.getD p .nil
        if v.isNil then (s, .nil, false) else ({ s with xs := s.xs.eraseIdx p }, v, true)) := by
  have hu := ulen_eq s hwf.small
  have hsm := hwf.small
  unfold remove
  rw [index_spec s hwf.small i hi]
  cases hp : pos s.xs.length (s.flag Gen.flag_negidx) (s.flag Gen.flag_fwdidx) i with
  | none => simp [bind, Except.bind]
  | some p =>
    have hplt : p < s.xs.length := by
      unfold pos at hp
      split at hp
      · simp at hp; omega
      · split at hp
        · simp at hp; omega
        · split at hp
          · simp at hp; omega
          · simp at hp
    simp only [bind, Except.bind]
    have hpp : ((p:Int) + 1 - 1).toNat = p := by omega
    unfold SmallLen at hsm; rw [pow62] at hsm
    have hsm' : SmallLen (({ s with xs := s.xs.eraseIdx p } : Stk).xs.length) := by
      unfold SmallLen; rw [pow62]; simp [List.length_eraseIdx, hplt]; omega
    have hu' := ulen_eq { s with xs := s.xs.eraseIdx p } hsm'
    have hlen : (s.xs.eraseIdx p).length = s.xs.length - 1 := by simp [List.length_eraseIdx, hplt]
    have e2 : ((s.xs.length - 1 : Nat) : Int) = (s.xs.length:Int) - 1 := by omega
    have hl1 : IsLen ((s.xs.length : Int) - 1) := by rw [isLen_iff]; omega
    simp only [hpp, hu, hu', hlen, e2, GenSem.remove_ok, small_isLen hwf.small, hl1, and_true]
    generalize s.xs.getD p .nil = v
    cases v <;> simp [Val.isNil]

end Stk
end Stackage
