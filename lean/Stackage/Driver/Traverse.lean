import Stackage.Driver.Render
import Stackage.Model.Traverse

namespace Stackage.Driver
open Stackage

def runPaths (payload : String) : String × String × String :=
  match payload.splitOn " | " with
  | [tree, ops] =>
    match (parseVal (words tree)).1 with
    | .stk _ c xs =>
      let s : Stk := { cfg := c, xs := xs }
      let paths : List (List Int) := (ops.splitOn " ; ").map (fun o => ((words o).drop 1).map toInt)
      let m := paths.map (fun p => match s.traverse closures p with
        | .ok (v, ok) => s!"{showVal (stripPol v)}:{b01 ok}"
        | .error f => f.toString)
      let sp := paths.map (fun p => let r := descent closures s p; s!"{showVal (stripPol r.1)}:{b01 r.2}")
      (" ; ".intercalate m, " ; ".intercalate sp, "")
    | _ => ("BADCASE", "BADCASE", "")
  | _ => ("BADCASE", "BADCASE", "")

end Stackage.Driver
