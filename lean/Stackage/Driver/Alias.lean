import Stackage.Driver.Marshal
import Stackage.Driver.Traverse
import Stackage.Model.Alias
import Stackage.Model.Options
import Stackage.Model.Policy
import Stackage.Driver.Equal

namespace Stackage.Driver
open Stackage

def aliasPaths : List (List Int) := [[0], [1], [-1], [0, 0], [1, 0], [0, 1], [2, 0], [1, 1, 0], [0, 0, 0]]

def obsAliasTree (s : Stk) : String :=
  -- `Unmarshal()` with the Unmarshalers installed on nested nodes (closure-aware walk): entries and error class
  let u := s.UnmarshalP closures
  let ue := match u.2 with | none => "e0" | some n => if n ≥ 1000 then "e1:E?" else s!"e1:E{n}"
  let tr := aliasPaths.map (fun p => match s.traverse closures p with
    | .ok (v, ok) => s!"{showVal (stripPol (erase v))}:{b01 ok}"
    | .error f => f.toString)
  let lens := s.xs.filterMap (fun v => match convertCondition v with
    | some c => some s!"{c.len}{b01 c.IsNesting}"
    | none => none)
  let nn : Stk := (⟨{ kind := Gen.kind_list, opt := Gen.flag_nnest }, []⟩ : Stk).genericAppend s.xs
  let (dst, okx) := s.transfer interp ⟨{ kind := Gen.kind_list }, []⟩
  s!"S{hx (s.String closures)} U\{{showVal (stripPol (erase (.anys u.1)))}}{ue} G{b01 s.IsNesting} T\{{" | ".intercalate tr}} L{",".intercalate lens} P{nn.xs.length} X{b01 okx}{dst.xs.length}"

def runAlias (payload : String) : String × String × String :=
  match (parseVal (words payload)).1 with
  | .stk _ c xs =>
    let a : Stk := { cfg := c, xs := xs }
    let n := a.erase
    let cv (s : Stk) := ",".intercalate (s.xs.map (fun v => b01 (convertStack v).isSome ++ b01 (convertCondition v).isSome))
    -- model: each tree observed through the model; spec: the alias tree must look exactly like its native twin
    -- IsEqual both ways, with the EqualityPolicies nested nodes carry (the receivers themselves carry none)
    let q (x y : Stk) : String := match Val.IsEqual interpEq false (.stk .native x.cfg x.xs) (.stk .native y.cfg y.xs) with
      | .ok none => "ok" | .ok (some _) => "ne" | .error _ => "PANIC"
    (s!"A\{{obsAliasTree a}} N\{{obsAliasTree n}} Q{q a n}{q n a} V{cv a} D1",
     s!"A\{{obsAliasTree n}} N\{{obsAliasTree n}} Qokok V{cv n} D1", "")
  | _ => ("BADCASE", "BADCASE", "")

end Stackage.Driver
