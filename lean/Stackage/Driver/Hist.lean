import Stackage.Driver.Parse
import Stackage.Model.Options
import Stackage.Spec.ListSpec
import Stackage.Model.Marshal

namespace Stackage.Driver
open Stackage

def range (lo hi : Int) : List Int := (List.range (hi - lo + 1).toNat).map (fun (k : Nat) => lo + k)

def showVB (r : Except Fault (Val × Bool)) : String :=
  match r with
  | .ok (v, ok) => s!"{short v}:{b01 ok}"
  | .error f => f.toString

def errStr : Option Nat → String
  | none => "-"
  | some e => s!"E{e}"

/-- observation of the model state, same format as harness `obsStack` -/
def obsModel (s : Stk) : String :=
  let n := s.ulen
  let idx := (range (-n - 1) (n + 1)).map (fun i => showVB (s.Index i))
  let line := s!"L{n} [{" ".intercalate idx}] F{showVB s.Front} B{showVB s.Back} E{b01 (n == 0)} c{s.Cap} a{s.Avail} u{b01 s.isFull} N{b01 s.CanNest} G{b01 s.IsNesting} R{errStr s.cfg.err}"
  if (line.splitOn "PANIC").length > 1 || (line.splitOn "CFG").length > 1 then "PANIC" else line

structure SpecSt where
  c : ListSpec.Conf
  l : List Val
  ppf : Option Nat := none
  err : Option Nat := none
  /-- the configuration record the instance was created with (stream `resets`, which applies list operations only:
  none of them, Reset included, may change it apart from the recorded error) -/
  cfg0 : Cfg := {}

def obsSpec (st : SpecSt) : String :=
  let n : Int := st.l.length
  let sh (r : Val × Bool) : String := s!"{short r.1}:{b01 r.2}"
  let idx := (range (-n - 1) (n + 1)).map (fun i => sh (ListSpec.index st.l st.c.neg st.c.fwd i))
  let cap : Int := match st.c.cap with | none => -1 | some k => k
  let avail : Int := match st.c.cap with | none => -1 | some k => (k : Int) - n
  let full : Bool := match st.c.cap with | none => false | some k => decide ((k : Int) = n)
  s!"L{n} [{" ".intercalate idx}] F{sh (ListSpec.front st.c.fifo st.l)} B{sh (ListSpec.back st.c.fifo st.l)} E{b01 (n == 0)} c{cap} a{avail} u{b01 full} N{b01 (!st.c.nnest)} G{b01 (st.l.any Stk.countsAsNested)} R{errStr st.err}"

inductive HOp where
  | list (op : ListOp)
  | fifo
  | fifoOff                             -- SetFIFO(false): once on, FIFO mode stays on
  | neg (b : Bool)
  | fwd (b : Bool)
  | nnest (b : Bool)
  | ro (b : Bool)
  | ppol (p : Nat)
  | clrerr
  | marshal (args : Val)                -- (*Stack).Marshal(args...) into the (initialised) receiver
  | cfg                                 -- dump of the configuration record and of which policies are present
  | xferto (src : Val)
  | xfer (dest : Val)
  | xferself                            -- s.Transfer(s): source and destination are one instance (capped stacks only)
  | q (kind : String) (arg : Val)      -- a query / whole-tree call that must return normally and leave the list alone
  | bad

def parseVals' (ts : List String) : List Val :=
  match ts with
  | [] => []
  | _ => (parseVals [] ts).1

def parseHOp (ts : List String) : HOp :=
  match ts with
  | "push" :: rest => .list (.push (parseVals' rest))
  | ["pop"] => .list .pop
  | "ins" :: rest => let (v, r) := parseVal rest; .list (.insert v (toInt (r.headD "0")))
  | ["rem", i] => .list (.remove (toInt i))
  | "rep" :: rest => let (v, r) := parseVal rest; .list (.replace v (toInt (r.headD "0")))
  | ["swap", i, j] => .list (.swap (toInt i) (toInt j))
  | ["rev"] => .list .reverse
  | ["reset"] => .list .reset
  | ["fifo"] => .fifo
  | ["fifo0"] => .fifoOff
  | ["neg", b] => .neg (b == "1")
  | ["fwd", b] => .fwd (b == "1")
  | ["nnest", b] => .nnest (b == "1")
  | ["ro", b] => .ro (b == "1")
  | ["ppol", p] => .ppol (toNat p)
  | ["clrerr"] => .clrerr
  | ["cfg"] => .cfg
  | "marshal" :: rest => .marshal (parseVal rest).1
  | "xferto" :: rest => .xferto (parseVal rest).1
  | "xfer" :: rest => .xfer (parseVal rest).1
  | ["xferself"] => .xferself
  | "q" :: kind :: rest => .q kind (match rest with | [] => .nil | _ => (parseVal rest).1)
  | _ => .bad

def showOut (op : ListOp) (o : Out) : String :=
  match op with
  | .pop | .remove _ => s!"{short o.val}:{b01 o.ok}"
  | .insert _ _ | .replace _ _ => b01 o.ok
  | _ => "-"

/-- `cfg` op: the configuration record without the closures, then one presence bit per policy -/
def cfgDump (c : Cfg) : String :=
  let bare := { c with ppf := none, vpf := none, rpf := none, eqf := none, umf := none, maf := none, evl := none, lss := none }
  let bits := String.join ([c.ppf, c.vpf, c.rpf, c.eqf, c.umf, c.maf, c.evl, c.lss].map (fun o => b01 o.isSome))
  s!"D\{{showCfg bare}}P{bits}"

/-- model side of stream `hist` -/
partial def histModel (s : Stk) (ops : List HOp) (acc : List String) : List String :=
  match ops with
  | [] => acc.reverse
  | op :: rest =>
    match op with
    | .list lop =>
      match s.apply interp lop with
      | .ok (s', o) => histModel s' rest (s!"{showOut lop o} {obsModel s'}" :: acc)
      | .error f => (s!"FAULT:{f.toString}" :: acc).reverse
    | .fifo => let s' := s.setFIFO true; histModel s' rest (s!"- {obsModel s'}" :: acc)
    | .fifoOff => let s' := s.setFIFO false; histModel s' rest (s!"- {obsModel s'}" :: acc)
    | .neg b => let s' := s.setState Gen.flag_negidx (some b); histModel s' rest (s!"- {obsModel s'}" :: acc)
    | .fwd b => let s' := s.setState Gen.flag_fwdidx (some b); histModel s' rest (s!"- {obsModel s'}" :: acc)
    | .nnest b => let s' := s.setState Gen.flag_nnest (some b); histModel s' rest (s!"- {obsModel s'}" :: acc)
    | .ro b => let s' := s.setState Gen.flag_ronly (some b); histModel s' rest (s!"- {obsModel s'}" :: acc)
    | .ppol p => let s' := s.SetPushPolicy (if p == 0 then none else some p); histModel s' rest (s!"- {obsModel s'}" :: acc)
    | .clrerr => let s' := s.SetErr none; histModel s' rest (s!"- {obsModel s'}" :: acc)
    | .cfg => histModel s rest (s!"{cfgDump s.cfg} {obsModel s}" :: acc)
    | .marshal args =>
      let input := match args with | .anys xs => xs | _ => []
      let (z, err) := marshalInto interp (some s) input
      let s' := z.getD s
      histModel s' rest (s!"M{if err.isSome then "err" else "ok"} {obsModel s'}" :: acc)
    | .xferto src =>
      match src with
      | .stk _ c xs =>
        let sv : Stk := { cfg := c, xs := xs }
        match sv.Transfer interp (.stk .native s.cfg s.xs) with
        | (.stk _ c' xs', ok) =>
          let s' : Stk := { cfg := c', xs := xs' }
          histModel s' rest (s!"{b01 ok} src\{{obsModel sv}} {obsModel s'}" :: acc)
        | _ => ("BADOP" :: acc).reverse
      | _ => ("BADOP" :: acc).reverse
    | .xferself =>
      let (s', ok) := s.transferSelf
      histModel s' rest (s!"{b01 ok} {obsModel s'}" :: acc)
    | .xfer dest =>
      let (d', ok) := s.Transfer interp dest
      let d := match d' with
        | .stk _ c' xs' => obsModel { cfg := c', xs := xs' }
        | _ => "-"
      histModel s rest (s!"{b01 ok} dst\{{d}} sd0 {obsModel s}" :: acc)
    | .q kind arg =>
      let ret := if kind == "convert" then b01 arg.isStack ++ b01 arg.isCond
                 else if kind == "xfer" then b01 (s.Transfer interp arg).2
                 else "ok"
      histModel s rest (s!"{ret} {obsModel s}" :: acc)
    | .bad => ("BADOP" :: acc).reverse

/-- spec-side push, with or without a policy -/
def specPush (st : SpecSt) (vs : List Val) : SpecSt :=
  if st.c.ronly then st else
  match st.ppf with
  | none => { st with l := (ListSpec.apply (st.c.opts st.l) st.l (.push vs)).1 }
  | some p =>
    -- C13 applies whatever the policy says: Stacks are skipped (not offered) while no-nesting is set
    let r := ListSpec.pushPol (interp p) (st.c.opts st.l).room (vs.filter (fun v => !(st.c.nnest && v.isStack)))
    { st with l := st.l ++ r.1, err := match r.2 with | some e => some e | none => st.err }

def specOfStk (s : Stk) : SpecSt := { c := s.conf, l := s.xs, ppf := s.cfg.ppf, err := s.cfg.err, cfg0 := s.cfg }

/-- spec-side Transfer of `src` into an (initialised, writable) destination: all or report failure -/
def specTransfer (src : List Val) (dst : SpecSt) : SpecSt × Bool :=
  match (dst.c.opts dst.l).room with
  | some r => if r < src.length then (dst, false) else
      let d' := src.foldl (fun d v => specPush d [v]) dst
      (d', d'.l.length == dst.l.length + src.length)
  | none =>
      let d' := src.foldl (fun d v => specPush d [v]) dst
      (d', d'.l.length == dst.l.length + src.length)

partial def histSpec (st : SpecSt) (ops : List HOp) (acc : List String) : List String :=
  match ops with
  | [] => acc.reverse
  | op :: rest =>
    match op with
    | .list lop =>
      match lop with
      | .push vs =>
        let st' := specPush st vs
        histSpec st' rest (s!"- {obsSpec st'}" :: acc)
      | _ =>
        let (l', o) := ListSpec.apply (st.c.opts st.l) st.l lop
        let st' := { st with l := l' }
        histSpec st' rest (s!"{showOut lop o} {obsSpec st'}" :: acc)
    | .fifo => let st' := if st.c.ronly then st else { st with c := { st.c with fifo := true } }
               histSpec st' rest (s!"- {obsSpec st'}" :: acc)
    | .fifoOff => histSpec st rest (s!"- {obsSpec st}" :: acc)     -- the latch: switching off is never honoured
    | .neg b => let st' := if st.c.ronly then st else { st with c := { st.c with neg := b } }
                histSpec st' rest (s!"- {obsSpec st'}" :: acc)
    | .fwd b => let st' := if st.c.ronly then st else { st with c := { st.c with fwd := b } }
                histSpec st' rest (s!"- {obsSpec st'}" :: acc)
    | .nnest b => let st' := if st.c.ronly then st else { st with c := { st.c with nnest := b } }
                  histSpec st' rest (s!"- {obsSpec st'}" :: acc)
    | .ro b => let st' := { st with c := { st.c with ronly := b } }
               histSpec st' rest (s!"- {obsSpec st'}" :: acc)
    | .ppol p => let st' := if st.c.ronly then st else { st with ppf := if p == 0 then none else some p }
                 histSpec st' rest (s!"- {obsSpec st'}" :: acc)
    | .clrerr => let st' := { st with err := none }
                 histSpec st' rest (s!"- {obsSpec st'}" :: acc)
    | .cfg => histSpec st rest (s!"{cfgDump { st.cfg0 with err := st.err, ppf := st.ppf }} {obsSpec st}" :: acc)
    | .marshal args =>
      -- C03 / C16: an initialised receiver gains the decoded Stack or Condition as ONE new element, if there is room
      -- (a Push of one value: capacity, policy, no-nesting and read-only apply); its configuration stays
      let input := match args with | .anys xs => xs | _ => []
      let r := marshalList input
      let st' := if input.isEmpty then st else match r.stk, r.cnd with
        | some x, _ => specPush st [x]
        | none, some x => specPush st [x]
        | none, none => st
      let err := input.isEmpty || r.err.isSome
      histSpec st' rest (s!"M{if err then "err" else "ok"} {obsSpec st'}" :: acc)
    | .xferto src =>
      match src with
      | .stk _ c xs =>
        let sv := specOfStk { cfg := c, xs := xs }
        let (st', ok) := if st.c.ronly then (st, false) else specTransfer xs st
        histSpec st' rest (s!"{b01 ok} src\{{obsSpec sv}} {obsSpec st'}" :: acc)
      | _ => ("BADOP" :: acc).reverse
    | .xferself =>
      -- the library's behaviour for the degenerate case (one instance on both sides); what the property asks of it is `Len ≤ k`
      let n := st.l.length
      let (st', ok) : SpecSt × Bool := match st.c.cap with
        | none => (st, false)
        | some k =>
          if st.c.ronly || n > k - n then (st, false)
          else if n == 0 then (st, true)
          else ({ st with l := (List.range k).map (fun j => st.l.getD (j % n) .nil) }, false)
      histSpec st' rest (s!"{b01 ok} {obsSpec st'}" :: acc)
    | .xfer dest =>
      let (d, ok) : String × Bool := match dest with
        | .stk _ c xs =>
          let dv := specOfStk { cfg := c, xs := xs }
          if dv.c.ronly then (obsSpec dv, false)
          else let (d', ok) := specTransfer st.l dv; (obsSpec d', ok)
        | _ => ("-", false)
      histSpec st rest (s!"{b01 ok} dst\{{d}} sd0 {obsSpec st}" :: acc)
    | .q kind arg =>
      -- C08: the call returns normally; Convert* succeed exactly on initialised Stacks / Conditions (any form);
      -- Transfer into anything that is not an initialised, writable Stack reports false
      let ret := if kind == "convert" then b01 arg.isStack ++ b01 arg.isCond
                 else if kind == "xfer" then
                   (match arg with
                    | .stk _ c xs =>
                      let dv := specOfStk { cfg := c, xs := xs }
                      if dv.c.ronly then "0" else b01 (specTransfer st.l dv).2
                    | _ => "0")
                 else "ok"
      histSpec st rest (s!"{ret} {obsSpec st}" :: acc)
    | .bad => ("BADOP" :: acc).reverse

/-- does every position argument address an existing element (C01's "addressing existing positions")? -/
partial def histInScope (st : SpecSt) (ops : List HOp) : Bool :=
  match ops with
  | [] => true
  | op :: rest =>
    let (st', ok) : SpecSt × Bool := match op with
      | .list lop =>
        let ok := match lop with
          | .remove i => (ListSpec.pos st.l.length st.c.neg st.c.fwd i).isSome
          | .replace _ i => ListSpec.inRange st.l i
          | .swap i j => ListSpec.inRange st.l i && ListSpec.inRange st.l j
          | _ => true
        (match lop with
         | .push vs => specPush st vs
         | _ => { st with l := (ListSpec.apply (st.c.opts st.l) st.l lop).1 }, ok)
      | .fifo => (if st.c.ronly then st else { st with c := { st.c with fifo := true } }, true)
      | .neg b => (if st.c.ronly then st else { st with c := { st.c with neg := b } }, true)
      | .fwd b => (if st.c.ronly then st else { st with c := { st.c with fwd := b } }, true)
      | .nnest b => (if st.c.ronly then st else { st with c := { st.c with nnest := b } }, true)
      | .ro b => ({ st with c := { st.c with ronly := b } }, true)
      | .ppol p => (if st.c.ronly then st else { st with ppf := if p == 0 then none else some p }, true)
      | .clrerr => (st, true)
      | .cfg => (st, true)
      | .marshal _ => (st, true)
      | .fifoOff => (st, true)
      | .xferto src => (match src with
          | .stk _ _ xs => if st.c.ronly then st else (specTransfer xs st).1
          | _ => st, true)
      | .xfer _ => (st, true)
      | .xferself => (match st.c.cap with
          | some k => if st.c.ronly || st.l.length > k - st.l.length || st.l.length == 0 then st
                      else { st with l := (List.range k).map (fun j => st.l.getD (j % st.l.length) .nil) }
          | none => st, true)
      | .q _ _ => (st, true)
      | .bad => (st, false)
    ok && histInScope st' rest

/-- payload: `<stack literal> | op ; op ; ...` → (model line, spec line, tags) -/
def runHist (payload : String) : String × String × String :=
  let parts := payload.splitOn " | "
  let (v, _) := parseVal (words (parts.headD ""))
  match v with
  | .stk _ c xs =>
    let s : Stk := { cfg := c, xs := xs }
    let ops := match parts with
      | [_, o] => if o.trimAscii.toString == "" then [] else
          -- `again` offers the latest batch once more (the harness spreads the very same slice)
          ((o.splitOn " ; ").foldl (fun (acc : List HOp × List Val) t =>
            match words t with
            | ["again"] => (HOp.list (.push acc.2) :: acc.1, acc.2)
            | "push" :: rest => let vs := parseVals' rest; (HOp.list (.push vs) :: acc.1, vs)
            | ws => (parseHOp ws :: acc.1, acc.2)) ([], [])).1.reverse
      | _ => []
    let m := histModel s ops [s!"init {obsModel s}"]
    let sp := histSpec (specOfStk s) ops [s!"init {obsSpec (specOfStk s)}"]
    (" ; ".intercalate m, " ; ".intercalate sp, if histInScope (specOfStk s) ops then "inscope" else "oos")
  | _ => ("BADCASE", "BADCASE", "")

end Stackage.Driver
