import Stackage.Driver.Parse
import Stackage.Model.Options
import Stackage.Spec.ListSpec

namespace Stackage.Driver
open Stackage

def range (lo hi : Int) : List Int := (List.range (hi - lo + 1).toNat).map (fun (k : Nat) => lo + k)

def showVB (r : Except Fault (Val × Bool)) : String :=
  match r with
  | .ok (v, ok) => s!"{short v}:{b01 ok}"
  | .error f => f.toString

/-- observation of the model state, same format as harness `obsStack` -/
def obsModel (s : Stk) : String :=
  let n := s.ulen
  let idx := (range (-n - 1) (n + 1)).map (fun i => showVB (s.Index i))
  let line := s!"L{n} [{" ".intercalate idx}] F{showVB s.Front} B{showVB s.Back} E{b01 (n == 0)} c{s.Cap} a{s.Avail} u{b01 s.isFull}"
  if (line.splitOn "PANIC").length > 1 || (line.splitOn "CFG").length > 1 then "PANIC" else line

structure SpecSt where
  c : ListSpec.Conf
  l : List Val

def obsSpec (st : SpecSt) : String :=
  let n : Int := st.l.length
  let sh (r : Val × Bool) : String := s!"{short r.1}:{b01 r.2}"
  let idx := (range (-n - 1) (n + 1)).map (fun i => sh (ListSpec.index st.l st.c.neg st.c.fwd i))
  let cap : Int := match st.c.cap with | none => -1 | some k => k
  let avail : Int := match st.c.cap with | none => -1 | some k => (k : Int) - n
  let full : Bool := match st.c.cap with | none => false | some k => decide ((k : Int) = n)
  s!"L{n} [{" ".intercalate idx}] F{sh (ListSpec.front st.c.fifo st.l)} B{sh (ListSpec.back st.c.fifo st.l)} E{b01 (n == 0)} c{cap} a{avail} u{b01 full}"

inductive HOp where
  | list (op : ListOp)
  | fifo
  | neg (b : Bool)
  | fwd (b : Bool)
  | bad

def parseVals' (ts : List String) : List Val :=
  match ts with
  | [] => []
  | _ => (parseVals [] ts).1

def parseHOp (ts : List String) : HOp :=
  match ts with
  | "push" :: rest => .list (.push (parseVals' rest))
  | ["pop"] => .list .pop
  | "ins" :: rest => let (v, r) := parseVal rest; .list (.insert v (toInt (r.headD "0")))
  | ["rem", i] => .list (.remove (toInt i))
  | "rep" :: rest => let (v, r) := parseVal rest; .list (.replace v (toInt (r.headD "0")))
  | ["swap", i, j] => .list (.swap (toInt i) (toInt j))
  | ["rev"] => .list .reverse
  | ["reset"] => .list .reset
  | ["fifo"] => .fifo
  | ["neg", b] => .neg (b == "1")
  | ["fwd", b] => .fwd (b == "1")
  | _ => .bad

def showOut (op : ListOp) (o : Out) : String :=
  match op with
  | .pop | .remove _ => s!"{short o.val}:{b01 o.ok}"
  | .insert _ _ | .replace _ _ => b01 o.ok
  | _ => "-"

/-- model side of stream `hist` -/
partial def histModel (s : Stk) (ops : List HOp) (acc : List String) : List String :=
  match ops with
  | [] => acc.reverse
  | op :: rest =>
    match op with
    | .list lop =>
      match s.apply interp lop with
      | .ok (s', o) => histModel s' rest (s!"{showOut lop o} {obsModel s'}" :: acc)
      | .error f => (s!"FAULT:{f.toString}" :: acc).reverse
    | .fifo => let s' := s.setFIFO true; histModel s' rest (s!"- {obsModel s'}" :: acc)
    | .neg b => let s' := s.setState Gen.flag_negidx (some b); histModel s' rest (s!"- {obsModel s'}" :: acc)
    | .fwd b => let s' := s.setState Gen.flag_fwdidx (some b); histModel s' rest (s!"- {obsModel s'}" :: acc)
    | .bad => ("BADOP" :: acc).reverse

partial def histSpec (st : SpecSt) (ops : List HOp) (acc : List String) : List String :=
  match ops with
  | [] => acc.reverse
  | op :: rest =>
    match op with
    | .list lop =>
      let (l', o) := ListSpec.apply (st.c.opts st.l) st.l lop
      let st' := { st with l := l' }
      histSpec st' rest (s!"{showOut lop o} {obsSpec st'}" :: acc)
    | .fifo => let st' := if st.c.ronly then st else { st with c := { st.c with fifo := true } }
               histSpec st' rest (s!"- {obsSpec st'}" :: acc)
    | .neg b => let st' := if st.c.ronly then st else { st with c := { st.c with neg := b } }
                histSpec st' rest (s!"- {obsSpec st'}" :: acc)
    | .fwd b => let st' := if st.c.ronly then st else { st with c := { st.c with fwd := b } }
                histSpec st' rest (s!"- {obsSpec st'}" :: acc)
    | .bad => ("BADOP" :: acc).reverse

/-- does every position argument address an existing element (C01's "addressing existing positions")? -/
partial def histInScope (st : SpecSt) (ops : List HOp) : Bool :=
  match ops with
  | [] => true
  | op :: rest =>
    let (st', ok) : SpecSt × Bool := match op with
      | .list lop =>
        let ok := match lop with
          | .remove i => (ListSpec.pos st.l.length st.c.neg st.c.fwd i).isSome
          | .replace _ i => ListSpec.inRange st.l i
          | .swap i j => ListSpec.inRange st.l i && ListSpec.inRange st.l j
          | _ => true
        ({ st with l := (ListSpec.apply (st.c.opts st.l) st.l lop).1 }, ok)
      | .fifo => (if st.c.ronly then st else { st with c := { st.c with fifo := true } }, true)
      | .neg b => (if st.c.ronly then st else { st with c := { st.c with neg := b } }, true)
      | .fwd b => (if st.c.ronly then st else { st with c := { st.c with fwd := b } }, true)
      | .bad => (st, false)
    ok && histInScope st' rest

/-- payload: `<stack literal> | op ; op ; ...` → (model line, spec line, tags) -/
def runHist (payload : String) : String × String × String :=
  let parts := payload.splitOn " | "
  let (v, _) := parseVal (words (parts.headD ""))
  match v with
  | .stk _ c xs =>
    let s : Stk := { cfg := c, xs := xs }
    let ops := match parts with
      | [_, o] => if o.trimAscii.toString == "" then [] else (o.splitOn " ; ").map (fun t => parseHOp (words t))
      | _ => []
    let m := histModel s ops [s!"init {obsModel s}"]
    let sp := histSpec { c := s.conf, l := xs } ops [s!"init {obsSpec { c := s.conf, l := xs }}"]
    (" ; ".intercalate m, " ; ".intercalate sp, if histInScope { c := s.conf, l := xs } ops then "inscope" else "oos")
  | _ => ("BADCASE", "BADCASE", "")

end Stackage.Driver
