import Stackage.Driver.Render
import Stackage.Spec.Skeleton

namespace Stackage.Driver
open Stackage

def errTok (e : Option Nat) : String := if e.isSome then "err" else "ok"

def runRoundtrip (payload : String) : String × String × String :=
  match words payload with
  | conv :: rest =>
    match (parseVal rest).1 with
    | .stk _ c xs =>
      let s : Stk := { cfg := c, xs := xs }
      let u := s.unmarshal
      let (z, merr) := marshalInto interp none (if conv == "single" then [.anys u] else u)
      let zs : String := match z with | some z' => showVal (stripPol (.stk .native z'.cfg z'.xs)) | none => "Z n"
      let fix : Bool := match z with
        | some z' => showVal (upperLabels (.anys z'.unmarshal)) == showVal (upperLabels (.anys u))
        | none => false
      let m := s!"Uok\{{showVal (.anys u)}} M{errTok merr} Z\{{zs}} F{b01 fix} Qskip"
      let sp := s!"Uok\{{showVal (.anys u)}} Mok Z\{{showVal s.skel}} F1 Qskip"
      (m, sp, "")
    | _ => ("BADCASE", "BADCASE", "")
  | _ => ("BADCASE", "BADCASE", "")

def runAnyTrees (payload : String) : String × String × String :=
  match payload.splitOn " | " with
  | [recv, input] =>
    let r : Option Stk := if recv == "zero" then none else
      match (parseVal (words recv)).1 with
      | .stk _ c xs => some { cfg := c, xs := xs }
      | _ => none
    match (parseVal (words input)).1 with
    | .anys args =>
      let (z, err) := marshalInto interp r args
      let zs : String := match z with | some z' => showVal (stripPol (.stk .native z'.cfg z'.xs)) | none => "Z n"
      let neither := err.isNone && z.isNone
      let line := s!"M{errTok err} I{b01 z.isSome} X{b01 neither} Z\{{zs}} usable"
      -- the specification (C16): returns normally; an error or an initialised receiver; the result is usable
      (line, line, if neither then "neither" else "")
    | _ => ("BADCASE", "BADCASE", "")
  | _ => ("BADCASE", "BADCASE", "")

end Stackage.Driver
