import Stackage.Driver.Parse

/-! Driver for stream `genfuncs`: the whole functions of `Gen/Funcs.lean`, executed on the harness's arguments. -/

namespace Stackage.Driver
open Stackage

def runGenFuncs (payload : String) : String × String × String :=
  let r : String := match words payload with
    | ["fni", i, l] => toString (Gen.factorNegIndex (toInt i) (toInt l))
    | ["cle", a, b, c, d] => b01 (Gen.capLenEqual (toInt a) (toInt b) (toInt c) (toInt d))
    | "cdm" :: xs => toString (Gen.calculateDefragMax (xs.length : Int) (match xs with | x :: _ => toInt x | [] => 0))
    | _ => "BADCASE"
  (r, r, "")

end Stackage.Driver
