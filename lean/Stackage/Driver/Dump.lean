import Stackage.Driver.Parse
import Stackage.Model.Options

/-!
# Canonical configuration dump (model side), shared by the option/guard property drivers

Counterpart of `harness/dump.go` (`DumpCfg`). Format (one line, blank-separated tokens):

```
k<kind> c<cap> o<opt> f<0|1> sym:<hex> d:<hex> e:<enc> id:<hex> cat:<hex> lvl<n> aux:<a> m<0|1> err:<cls> pol:<bits> n<len>
/ P<0|1> D<0|1> R<0|1> N<0|1> E<0|1> Q<0|1> ID:<hex> CAT:<hex> DL:<hex> LL:<hex> AX:<a>
```

First half: the raw state (`stackage.VerifDump`): kind code, raw `cfg.cap`, raw option word, FIFO latch,
symbol, list delimiter, encapsulation groups (`0` = none; groups joined by `+`, strings of a group hex-encoded and
joined by `/`, an empty group `()`), ID, category, raw log-level word, auxiliary map identity (`-` nil, `new` = an
empty map allocated by the library, `<id>` a harness map), mutex present, error class, presence of
ppf vpf rpf eqf lss umf maf evl, number of user slots (Condition: 1 if an expression is set).
Second half: the public getters IsParen, IsPadded, IsReadOnly, CanNest, IsEncap, IsFIFO, ID, Category,
Delimiter, LogLevels, Auxiliary.
-/

namespace Stackage.Driver
open Stackage

def encStr (enc : List (List Text)) : String :=
  if enc.isEmpty then "0" else
  "+".intercalate (enc.map fun g => if g.isEmpty then "()" else "/".intercalate (g.map hx))

def auxStr : Option Nat → String
  | none => "-"
  | some 0 => "new"
  | some k => toString k

def errCls : Option Nat → String
  | none => "-"
  | some e => s!"E{e}"

def present (ps : List (Option Nat)) : String := String.ofList (ps.map fun p => if p.isSome then '1' else '0')

/-- the getter half, from the values the public getters return -/
def dumpGetters (paren padded ro canNest encap fifo : Bool) (id cat delim lvls : Text) (aux : Option Nat) : String :=
  s!"P{b01 paren} D{b01 padded} R{b01 ro} N{b01 canNest} E{b01 encap} Q{b01 fifo} ID:{hx id} CAT:{hx cat} DL:{hx delim} LL:{hx lvls} AX:{auxStr aux}"

/-- canonical dump of a configuration; `n` = content length, `q` = what `IsFIFO()` answers
(a Stack: its own latch; a Condition: that of a Stack held as expression) -/
def dumpCfg (c : Cfg) (n : Nat := 0) (q : Bool := c.IsFIFO) : String :=
  s!"k{c.kind} c{c.cap} o{c.opt} f{b01 c.fifo} sym:{hx c.sym} d:{hx c.ljc} e:{encStr c.enc} id:{hx c.id} cat:{hx c.cat} lvl{c.lvl} aux:{auxStr c.aux} m{b01 c.mtx} err:{errCls c.err} pol:{present [c.ppf, c.vpf, c.rpf, c.eqf, c.lss, c.umf, c.maf, c.evl]} n{n} / " ++
  dumpGetters c.IsParen c.IsPadded c.IsReadOnly c.CanNest c.IsEncap q c.ID c.Category c.Delimiter c.LogLevels c.Auxiliary

def dumpStk (s : Stk) : String := dumpCfg s.cfg s.xs.length

def dumpCnd (c : Cfg) (ex : Val) : String := dumpCfg c (if ex.isNil then 0 else 1) (Cfg.condIsFIFO ex)

end Stackage.Driver
