import Stackage.Driver.Parse
import Stackage.Model.Alphabet

namespace Stackage.Driver
open Stackage

/-- expected observation of the sweep streams (harness/sweep.go), from the method tables and the guard skeleton -/
def runSweep (payload : String) : String × String × String :=
  match payload.splitOn " | " with
  | mode :: recv :: rest =>
    let calls := (" | ".intercalate rest).splitOn " ; "
    let isStack := recv.startsWith "K" || recv.startsWith "zero-stack" || recv.startsWith "freed-stack"   -- (a suffix `+d`: package defaults set)
    let tbl := if isStack then stackMethods else condMethods
    let outs := calls.map (fun call =>
      let name := ((words call).headD "")
      match MethodInfo.findOrAuto tbl (if isStack then "Stack" else "Condition") name with
      | none => s!"{name} UNKNOWN-METHOD"
      | some m =>
        if mode == "frozen" then
          match m.cls with
          | .free => s!"{name} D0 e1"
          | .setReadOnly => s!"{name} D1 R1"
          | _ => if name == "Push" then s!"{name} D1 self1" else s!"{name} D0"
        else if mode == "nestedro" then s!"{name} D0"
        else if mode == "inert" then s!"{name} {m.zero} Z0"
        else if mode == "initonly" then s!"{name} ok"
        else s!"{name} D0 S1")
    -- in `frozen` the calls before the final SetReadOnly are all on a read-only instance: Push there is D0
    let outs := if mode == "frozen" then
        let n := outs.length
        outs.zipIdx.map (fun (o, i) =>
          if i + 2 < n && (o.startsWith "Push ") then "Push D0 self1"
          else if i + 1 < n && o.startsWith "SetReadOnly" && i + 2 != n && i + 1 != n then o else o)
      else outs
    let outs := if mode == "queries" && recv.startsWith "K" then outs ++ ["tamper D0 A0"] else outs
    -- nestedro: what other instances do WITH the read-only Stack (collect it, compare with it, render it) leaves it as it was
    let outs := if mode == "nestedro" then outs ++ ["collect D0"] else outs
    let line := " ; ".intercalate outs
    -- methods classified from the facts only: their zero result is not known to the table
    let unknown := calls.filterMap (fun call =>
      let name := ((words call).headD "")
      if (MethodInfo.find tbl name).isNone then some s!"auto:{name}" else none)
    (line, line, " ".intercalate unknown)
  | _ => ("BADCASE", "BADCASE", "")

/-- stream `freepol` (C17): a PushPolicy frees a copy of the handle of its own stack while `Push` is running. Freeing a handle is a
matter of that handle and of the read-only flag alone: the copy becomes zero without an error whenever the policy is consulted at all
(some value is offered while there is room); the instance the original handle refers to takes the values as usual. -/
def runFreePol (payload : String) : String × String × String :=
  match payload.splitOn " | " with
  | recv :: rest =>
    match (parseVal (words recv)).1 with
    | .stk _ c xs =>
      let vals := words (" ".intercalate rest)
      let n0 := xs.length
      let room : Option Nat := if c.cap > 0 then some ((c.cap - 1).toNat - n0) else none
      let consulted := !vals.isEmpty && (match room with | some r => r > 0 | none => true)
      let taken := match room with | some r => min r vals.length | none => vals.length
      let line := s!"free={if consulted then "z1e0t1" else "-"} init=1 len={n0 + taken}"
      (line, line, "")
    | _ => ("BADCASE", "BADCASE", "")
  | _ => ("BADCASE", "BADCASE", "")

/-- stream `sealpol` (C13): the stack's own PushPolicy switches no-nesting on / off in the middle of a batch; the option is consulted
for every value as it stands when that value's turn comes (`methodAppend`: no-nesting filter, room, policy, append) -/
def runSealPol (payload : String) : String × String × String :=
  match payload.splitOn " | " with
  | recv :: rest =>
    match (parseVal (words recv)).1 with
    | .stk _ c xs =>
      let vals := (parseVals [] (words (" ".intercalate rest))).1
      let k : Option Nat := if c.cap > 0 then some (c.cap - 1).toNat else none
      let nn0 : Bool := c.opt / 256 % 2 == 1
      let (ys, nn) := vals.foldl (fun (acc : List Val × Bool) v =>
          let (ys, nn) := acc
          if nn && v.isStack then (ys, nn)
          else if (match k with | some k => decide (ys.length ≥ k) | none => false) then (ys, nn)
          else
            let nn' := match v with
              | .leaf (.str t) => if t == "seal".toList then true else if t == "unseal".toList then false else nn
              | _ => nn
            (ys ++ [v], nn')) (xs, nn0)
      let line := s!"L{ys.length} [{" ".intercalate (ys.map short)}] N{b01 (!nn)}"
      (line, line, "")
    | _ => ("BADCASE", "BADCASE", "")
  | _ => ("BADCASE", "BADCASE", "")

end Stackage.Driver
