import Stackage.Driver.Parse
import Stackage.Model.RevealHeap
import Stackage.Spec.Unwrap

/-!
# Driver entry for stream `revealtrees` (C20); not part of any proof

payload: `K n <cfg> | e1 ; e2 ; …` — the receiver's configuration and its elements as value literals
(`-` for none), separated by ` ; ` so that the orchestrator's shrinker can drop elements.

* M line: `L <leaves after> ; NF <normal form after> ; KP <kept nodes after> ; D <depth after ≤ depth before> ;
  R <reachable before after> ; T <tree after, from the heap model> ; X <ids of the nodes whose mutex was
  taken, in order>` (or `PANIC` / `DEADLOCK`)
* S line: `L <leaves before> ; NF <normal form before> ; KP <kept nodes before> ; D 1 ; R 1` — computed
  from the input tree and the specification only.
-/

namespace Stackage.Driver
open Stackage Stackage.Tree Stackage.RevealHeap

def showCfgR (c : Cfg) (isCond : Bool) : String :=
  let p : List String :=
    (if !isCond && c.kind != 0 then [s!"k={c.kind}"] else [])
    ++ (if c.cap != 0 then [s!"c={c.cap - 1}"] else [])
    ++ (if c.opt != 0 then [s!"o={c.opt}"] else [])
    ++ (if c.fifo then ["f=1"] else [])
    ++ (if !c.sym.isEmpty then [s!"sym={hx c.sym}"] else [])
    ++ (if !c.ljc.isEmpty then [s!"d={hx c.ljc}"] else [])
    ++ (if !c.enc.isEmpty then [s!"e={"|".intercalate (c.enc.map (fun e => "/".intercalate (e.map hx)))}"] else [])
    ++ (if !c.id.isEmpty then [s!"id={hx c.id}"] else [])
    ++ (if !c.cat.isEmpty then [s!"cat={hx c.cat}"] else [])
    ++ (match c.err with | some e => [s!"err={e}"] | none => [])
    ++ (if c.mtx then ["mtx=1"] else [])
  if p.isEmpty then "-" else ",".intercalate p

partial def showV : Val → String
  | .stk f c xs =>
    if xs.isEmpty then s!"K {Form.str f} {showCfgR c false} [ ]"
    else s!"K {Form.str f} {showCfgR c false} [ {" ".intercalate (xs.map showV)} ]"
  | .cnd f c kw op ex => s!"C {Form.str f} {showCfgR c true} {hx kw} {Op.str op} {showV ex}"
  | .zstk f => s!"Z {Form.str f}"
  | .zcnd f => s!"Y {Form.str f}"
  | .anys xs => if xs.isEmpty then "A [ ]" else s!"A [ {" ".intercalate (xs.map showV)} ]"
  | .opv .none => "N"
  | .opv o => s!"O{Op.str o}"
  | v => short v

def showItem : Item → String
  | .val v => (showV v).replace " " "_"
  | .cond kw op => s!"c:{hx kw}:{Op.str op}"

def showMark : Mark → String
  | .stack c => s!"K\{{showCfgR c false}}"
  | .cond c kw op => s!"C\{{showCfgR c true}}:{hx kw}:{Op.str op}"

def joinOrDash (xs : List String) : String := if xs.isEmpty then "-" else " ".intercalate xs

def specPart (t : Val) (d r : Bool) : String :=
  s!"L {joinOrDash ((leaves t).map showItem)} ; NF {showV (nf t)} ; KP {joinOrDash ((kept t).map showMark)} ; D {b01 d} ; R {b01 r}"

def nodeId (H : Heap) (id : Nat) : String :=
  match H[id]? with
  | some (.stack c _) => if c.id.isEmpty then s!"#{id}" else String.ofList c.id
  | _ => s!"#{id}"

def revealFuel : Nat := 1000000

/-- payload → (model line, spec line, tags) -/
def runReveal (payload : String) : String × String × String :=
  let t : Val := match payload.splitOn " | " with
    | [hd, els] =>
      (match words hd with
       | ["K", f, cfg] =>
         let xs := (els.splitOn " ; ").filterMap (fun e =>
           let ws := words e
           if ws.isEmpty || ws == ["-"] then none else some (parseVal ws).1)
         .stk (parseForm f) (parseCfg cfg) xs
       | _ => .nil)
    | _ => .nil
  match t with
  | .stk _ _ _ =>
    let (h, H) := ofTree t
    match h with
    | .stk _ root =>
      if !beqV (flat H h) t then ("BADFLAT", "BADFLAT", "") else
      let spec := specPart t true true
      match Reveal revealFuel H root, RevealTree revealFuel t with
      | .error .panic, _ => ("PANIC", spec, "panic")
      | .error .deadlock, _ => ("DEADLOCK", spec, "deadlock")
      | .error .fuel, _ => ("FUEL", spec, "fuel")
      | .ok _, .error _ => ("FUEL", spec, "fuel")
      | .ok s, .ok t' =>
        -- `t'` is the tree the theorems `C20_tree` speak about; `s` is only read for the lock order
        let locks := s.trace.reverse.map (nodeId s.heap)
        let chg := !beqV t t'
        (s!"{specPart t' (decide (depth t' ≤ depth t)) (reachable t t')} ; T {showV t'} ; X {joinOrDash locks} U0",
         spec,
         s!"{if chg then "changed" else "same"} locks={locks.length} nodes={H.length}")
    | _ => ("BADCASE", "BADCASE", "")
  | _ => ("BADCASE", "BADCASE", "")

end Stackage.Driver
