import Stackage.Driver.Marshal
import Stackage.Model.Policy

namespace Stackage.Driver
open Stackage

/-- closure meanings shared with harness/sweep.go `closureFor` -/
def closuresK : Closures :=
  { valid := fun p => if p == 2 then some 201 else none,
    present := fun p => s!"<P{p}>".toList,
    marshal := fun p => if p == 2 then some 203 else none,
    unmarshal := umfResult }

def eqHook : EqHook := fun p _ _ => if p == 2 then some .badInput else none

def errTokC (e : Option Nat) : String :=
  match e with
  | none => "e0"
  | some n => if n ≥ 1000 then "e1:E?" else s!"e1:E{n}"

def errClsC (e : Option Nat) : String :=
  match e with
  | none => "-"
  | some n => if n ≥ 1000 then "E?" else s!"E{n}"

def eqTok (r : EqRes) : String :=
  match r with
  | .ok none => "ok"
  | .ok (some _) => "err"
  | .error f => f.toString

def polArg (t : String) : Option Nat := if t == "-" || t == "0" then none else some (toNat t)

inductive Recv where
  | stk (s : Stk)
  | cnd (c : Cnd)

/-- the twin with an EqualityPolicy (id 2, rejecting) of its own -/
def twinWithPolicy : Val → Val
  | .stk f c xs => .stk f { c with eqf := some 2 } xs
  | .cnd f c kw op ex => .cnd f { c with eqf := some 2 } kw op ex
  | v => v

def obsClos (twin : Val) (r : Recv) : String :=
  match r with
  | .stk s =>
    let u := s.UnmarshalP closuresK
    s!"V{errTokC (s.ValidE closuresK)} S{hx (s.String closuresK)} Qc{eqTok (Val.IsEqual eqHook false (.stk .native s.cfg s.xs) twin)} " ++
    s!"Qd{eqTok (Val.IsEqual eqHook false (.stk .native s.cfg s.xs) (.stk .native { kind := Gen.kind_basic } [.leaf (.int 99)]))} " ++
    s!"Qs{eqTok (Val.IsEqual eqHook true (.stk .native s.cfg s.xs) (.stk .native s.cfg s.xs))} " ++
    s!"Qp{eqTok (Val.IsEqual eqHook false (.stk .native s.cfg s.xs) (twinWithPolicy twin))} " ++
    s!"U{errTokC u.2}\{{showVal (.anys u.1)}} R{errClsC s.cfg.err} L{s.xs.length}"
  | .cnd c =>
    let u := c.UnmarshalP closuresK
    s!"V{errTokC (c.valid closuresK)} S{hx (c.string closuresK)} Qc{eqTok (Val.IsEqual eqHook false (.cnd .native c.cfg c.kw c.op c.ex) twin)} " ++
    s!"Qd{eqTok (Val.IsEqual eqHook false (.cnd .native c.cfg c.kw c.op c.ex) (.cnd .native { kind := Gen.kind_cond } ['z', 'z'] (.cmp 2) (.leaf (.int 5))))} " ++
    s!"Qs{eqTok (Val.IsEqual eqHook true (.cnd .native c.cfg c.kw c.op c.ex) (.cnd .native c.cfg c.kw c.op c.ex))} " ++
    s!"Qp{eqTok (Val.IsEqual eqHook false (.cnd .native c.cfg c.kw c.op c.ex) (twinWithPolicy twin))} " ++
    s!"U{errTokC u.2}\{{showVal (.anys u.1)}} R{errClsC c.cfg.err}"

def stepClos (r : Recv) (ts : List String) : Recv × String :=
  match r, ts with
  | .stk s, ["vpol", n] => (.stk (s.setVpf (polArg n)), "-")
  | .stk s, ["rpol", n] => (.stk (s.setRpf (polArg n)), "-")
  | .stk s, ["epol", n] => (.stk (s.setEqf (polArg n)), "-")
  | .stk s, ["upol", n] => (.stk (s.setUmf (polArg n)), "-")
  | .stk s, ["mpol", n] => (.stk (s.setMaf (polArg n)), "-")
  | .stk s, ["fold", b] => (.stk (s.setState Gen.flag_cfold (some (b == "1"))), "-")
  | .stk s, ["clrerr"] => (.stk { s with cfg := { s.cfg with err := none } }, "-")
  | .stk s, ["seterr"] => (.stk { s with cfg := { s.cfg with err := some 7 } }, "-")
  | .stk s, ["ro", b] => (.stk (s.setState Gen.flag_ronly (some (b == "1"))), "-")
  | .stk s, "marshal" :: rest =>
    (match (parseVal rest).1 with
     | .anys args => let r := s.MarshalP closuresK interp args; (.stk r.1, errTokC r.2)
     | _ => (.stk s, "BADOP"))
  | .cnd c, ["vpol", n] => (.cnd (c.setVpf (polArg n)), "-")
  | .cnd c, ["rpol", n] => (.cnd (c.setRpf (polArg n)), "-")
  | .cnd c, ["epol", n] => (.cnd (c.setEqf (polArg n)), "-")
  | .cnd c, ["upol", n] => (.cnd (c.setUmf (polArg n)), "-")
  | .cnd c, ["ro", b] => (.cnd { c with cfg := c.cfg.setState Gen.flag_ronly (some (b == "1")) }, "-")
  | .cnd c, ["clrerr"] => (.cnd { c with cfg := { c.cfg with err := none } }, "-")
  | .cnd c, ["seterr"] => (.cnd { c with cfg := { c.cfg with err := some 7 } }, "-")
  | .cnd c, ["fold", _] => (.cnd c, "-")
  | r, _ => (r, "BADOP")

def runClosures (payload : String) : String × String × String :=
  match payload.splitOn " | " with
  | [recv, ops] =>
    let v := (parseVal (words recv)).1
    let r0 : Option Recv := match v with
      | .stk _ c xs => some (.stk { cfg := c, xs := xs })
      | .cnd _ c kw op ex => some (.cnd { cfg := c, kw := kw, op := op, ex := ex })
      | _ => none
    match r0 with
    | none => ("BADCASE", "BADCASE", "")
    | some r0 =>
      let (_, outs) := (ops.splitOn " ; ").foldl (fun (acc : Recv × List String) o =>
          if o == "free" then
            -- Free: the handle becomes zero unless the instance is read-only (then an error and nothing changes)
            (match acc.1 with
             | .stk s => if s.readOnly then (acc.1, "free err Z0 I1" :: acc.2) else (acc.1, "free ok Z1 I0" :: acc.2)
             | r => (r, "BADOP" :: acc.2))
          else
          let (r', ret) := stepClos acc.1 (words o)
          (r', s!"{ret} {obsClos v r'}" :: acc.2)) (r0, [s!"init {obsClos v r0}"])
      let line := " ; ".intercalate outs.reverse
      (line, line, "")
  | _ => ("BADCASE", "BADCASE", "")

end Stackage.Driver
