import Stackage.Model.Ops

/-!
# Line-protocol parsing and printing for the correspondence driver (not part of any proof)
-/

namespace Stackage.Driver
open Stackage

def hexDigit (c : Char) : Nat :=
  if '0' ≤ c ∧ c ≤ '9' then c.toNat - '0'.toNat
  else if 'a' ≤ c ∧ c ≤ 'f' then c.toNat - 'a'.toNat + 10
  else if 'A' ≤ c ∧ c ≤ 'F' then c.toNat - 'A'.toNat + 10
  else 0

partial def hexBytes : List Char → List UInt8
  | a :: b :: rest => UInt8.ofNat (hexDigit a * 16 + hexDigit b) :: hexBytes rest
  | _ => []

/-- hex-encoded UTF-8 (or `-` for empty) to Text -/
def unhx (s : String) : Text :=
  if s == "-" then [] else
  match String.fromUTF8? (ByteArray.mk (hexBytes s.toList).toArray) with
  | some str => str.toList
  | none => ['?']

def hexChar (n : Nat) : Char := if n < 10 then Char.ofNat (48 + n) else Char.ofNat (87 + n)

def hx (t : Text) : String :=
  if t.isEmpty then "-" else
  let bytes := (String.ofList t).toUTF8
  String.ofList (bytes.toList.foldr (fun b acc => hexChar (b.toNat / 16) :: hexChar (b.toNat % 16) :: acc) [])

def splitOn (s : String) (sep : String) : List String := s.splitOn sep

def toInt (s : String) : Int := s.toInt?.getD 0
def toNat (s : String) : Nat := s.toNat?.getD 0

def parseForm (s : String) : Form :=
  if s == "a" then .alias else if s == "as" then .aliasS else if s == "p" then .ptr else .native

def Form.str : Form → String
  | .native => "n" | .alias => "a" | .aliasS => "as" | .ptr => "p"

def parseCfg (s : String) : Cfg :=
  if s == "-" then {} else
  (splitOn s ",").foldl (fun (c : Cfg) kv =>
    match splitOn kv "=" with
    | [k, v] =>
      if k == "k" then { c with kind := toNat v }
      else if k == "c" then { c with cap := if toNat v == 0 then 0 else (toNat v : Int) + 1 }
      else if k == "o" then { c with opt := toNat v }
      else if k == "f" then { c with fifo := v == "1" }
      else if k == "sym" then { c with sym := unhx v }
      else if k == "d" then { c with ljc := unhx v }
      else if k == "e" then { c with enc := (splitOn v "|").map (fun e => (splitOn e "/").map unhx) }
      else if k == "id" then { c with id := unhx v }
      else if k == "cat" then { c with cat := unhx v }
      else if k == "err" then { c with err := some (toNat v) }
      else if k == "mtx" then { c with mtx := v == "1" }
      else if k == "ppf" then { c with ppf := some (toNat v) }
      else if k == "vpf" then { c with vpf := some (toNat v) }
      else if k == "rpf" then { c with rpf := some (toNat v) }
      else if k == "eqf" then { c with eqf := some (toNat v) }
      else if k == "umf" then { c with umf := some (toNat v) }
      else if k == "lss" then { c with lss := some (toNat v) }
      else if k == "maf" then { c with maf := some (toNat v) }
      else if k == "evl" then { c with evl := some (toNat v) }
      else c
    | _ => c) {}

def parseOp (s : String) : Op :=
  if s == "-" then .none
  else if s == "z" then .user 2000 [] []   -- typed nil pointer operators: never storable (no usable String / Context);
  else if s == "y" then .user 2001 [] []   -- modelled as user operators with empty texts, which `setOperator` rejects
  else if s == "w" then .user 2002 [] []   -- typed nil func-kind operator (repair F40)
  else if s.startsWith "c" then .cmp (toNat (s.drop 1).toString)
  else match splitOn (s.drop 1).toString ":" with
    | [id, a, b] => .user (if s.startsWith "v" then 1000 + toNat id else toNat id) (unhx a) (unhx b)   -- v… = slice-backed operator type
    | _ => .none

def Op.str : Op → String
  | .none => "-"
  | .cmp c => s!"c{c}"
  | .user id a b => if id == 2000 then "z" else if id == 2001 then "y" else if id == 2002 then "w" else if id ≥ 1000 then s!"v{id - 1000}:{hx a}:{hx b}" else s!"u{id}:{hx a}:{hx b}"

def parseFld (s : String) : Fld :=
  match splitOn s ":" with
  | [n, e, a] => { name := unhx n, exported := e == "e", anon := a == "a" }
  | _ => { name := [], exported := false, anon := false }

/-- first characters of the EV literal forms (see harness/equal.go) -/
def isEVTok (t : String) : Bool := "ptuzPQMTfcIJ".toList.contains t.front

mutual
/-- elements up to the closing `]` -/
partial def parseEVs (acc : List EV) (ts : List String) : List EV × List String :=
  match ts with
  | [] => (acc.reverse, [])
  | "]" :: ts' => (acc.reverse, ts')
  | _ => let (v, ts') := parseEV ts; parseEVs (v :: acc) ts'

/-- `key value key value … ]` -/
partial def parseEVPairs (ks vs : List EV) (ts : List String) : List EV × List EV × List String :=
  match ts with
  | [] => (ks.reverse, vs.reverse, [])
  | "]" :: ts' => (ks.reverse, vs.reverse, ts')
  | _ =>
    let (k, ts1) := parseEV ts
    let (v, ts2) := parseEV ts1
    parseEVPairs (k :: ks) (v :: vs) ts2

/-- `meta value meta value … ]` -/
partial def parseEVFields (fs : List Fld) (vs : List EV) (ts : List String) : List Fld × List EV × List String :=
  match ts with
  | [] => (fs.reverse, vs.reverse, [])
  | "]" :: ts' => (fs.reverse, vs.reverse, ts')
  | m :: ts1 =>
    let (v, ts2) := parseEV ts1
    parseEVFields (parseFld m :: fs) (v :: vs) ts2

partial def parseEV : List String → EV × List String
  | [] => (.inil, [])
  | t :: rest =>
    let c := t.front
    let body := (t.drop 1).toString
    if t == "I" then (.inil, rest)
    else if t == "J" then let (e, r) := parseEV rest; (.iface e, r)
    else if t == "P" then
      match rest with
      | ty :: rest' => let (e, r) := parseEV rest'; (.ptr (toNat ty) e, r)
      | _ => (.inil, [])
    else if t == "Q" then
      match rest with
      | a :: ety :: cap :: _ :: rest' =>
        let (xs, r) := parseEVs [] rest'
        (.seq (a == "a") (toNat ety) (toNat cap) xs, r)
      | _ => (.inil, [])
    else if t == "M" then
      match rest with
      | ty :: _ :: rest' =>
        let (ks, vs, r) := parseEVPairs [] [] rest'
        (.map (toNat ty) ks vs, r)
      | _ => (.inil, [])
    else if t == "T" then
      match rest with
      | ty :: _ :: rest' =>
        let (fs, vs, r) := parseEVFields [] [] rest'
        (.struct (toNat ty) fs vs, r)
      | _ => (.inil, [])
    else if c == 'p' then
      match splitOn body ":" with
      | [ty, h, n] => (.prim (toNat ty) (unhx h) (n == "1"), rest)
      | _ => (.inil, rest)
    else if c == 't' then
      match splitOn body ":" with
      | [ty, h] => (.named (toNat ty) (unhx h), rest)
      | _ => (.inil, rest)
    else if c == 'u' then
      match splitOn body ":" with
      | [u, n] => (.uptr (u == "1") (toNat n), rest)
      | _ => (.inil, rest)
    else if c == 'z' then (.nilptr (toNat body), rest)
    else if c == 'f' then
      match splitOn body ":" with
      | [ty, id] => (.func (toNat ty) (toNat id), rest)
      | _ => (.inil, rest)
    else if c == 'c' then
      match splitOn body ":" with
      | [ty, id] => (.chan (toNat ty) (toNat id), rest)
      | _ => (.inil, rest)
    else (.inil, rest)
end

mutual
partial def parseVals (acc : List Val) (ts : List String) : List Val × List String :=
  match ts with
  | [] => (acc.reverse, [])
  | "]" :: ts' => (acc.reverse, ts')
  | _ => let (v, ts') := parseVal ts; parseVals (v :: acc) ts'

partial def parseVal : List String → Val × List String
  | [] => (.nil, [])
  | t :: rest =>
    let c := t.front
    let body := (t.drop 1).toString
    if t == "N" then (.nil, rest)
    else if isEVTok t then
      let (e, r) := parseEV (t :: rest)
      (.leaf (.ev e), r)
    else if t == "K" then
      match rest with
      | f :: cfg :: _ :: rest' =>
        let (xs, rest'') := parseVals [] rest'
        (.stk (parseForm f) (parseCfg cfg) xs, rest'')
      | _ => (.nil, [])
    else if t == "C" then
      match rest with
      | f :: cfg :: kw :: op :: rest' =>
        let (ex, rest'') := parseVal rest'
        (.cnd (parseForm f) { parseCfg cfg with kind := 5 } (unhx kw) (parseOp op) ex, rest'')
      | _ => (.nil, [])
    else if t == "Z" then
      match rest with | f :: rest' => (.zstk (parseForm f), rest') | _ => (.nil, [])
    else if t == "Y" then
      match rest with | f :: rest' => (.zcnd (parseForm f), rest') | _ => (.nil, [])
    else if t == "A" then
      match rest with
      | _ :: rest' =>
        let (xs, rest'') := parseVals [] rest'
        (.anys xs, rest'')
      | _ => (.nil, [])
    else if c == 'O' then ((if body == "-" then .nil else .opv (parseOp body)), rest)   -- `O-` is the nil Operator: an untyped nil
    else if c == 'i' then (.leaf (.int (toInt body)), rest)
    else if c == 's' then (.leaf (.str (unhx body)), rest)
    else if c == 'b' then (.leaf (.bool (body == "1")), rest)
    else if c == 'n' then
      match splitOn body ":" with
      | [ty, h] => (.leaf (.num (toNat ty) (unhx h)), rest)
      | _ => (.nil, rest)
    else if c == 'g' then
      match splitOn body ":" with
      | [id, h, z] => (.leaf (.stringer (toNat id) (unhx h) (z == "1")), rest)
      | _ => (.nil, rest)
    else if c == 'o' then
      match splitOn body ":" with
      | [cls, id] => (.leaf (.opaque (toNat cls) (toNat id)), rest)
      | _ => (.nil, rest)
    else (.nil, rest)
end

/-- inverse of `parseCfg` (library-internal error classes ≥ 1000 all print as 1: "some error") -/
def showCfg (c : Cfg) (isCond : Bool := false) : String :=
  let parts : List String :=
    (if c.kind != 0 && !isCond then [s!"k={c.kind}"] else []) ++
    (if c.cap != 0 then [s!"c={c.cap - 1}"] else []) ++
    (if c.opt != 0 then [s!"o={c.opt}"] else []) ++
    (if c.fifo then ["f=1"] else []) ++
    (if !c.sym.isEmpty then [s!"sym={hx c.sym}"] else []) ++
    (if !c.ljc.isEmpty then [s!"d={hx c.ljc}"] else []) ++
    (if !c.enc.isEmpty then ["e=" ++ "|".intercalate (c.enc.map (fun e => "/".intercalate (e.map hx)))] else []) ++
    (if !c.id.isEmpty then [s!"id={hx c.id}"] else []) ++
    (if !c.cat.isEmpty then [s!"cat={hx c.cat}"] else []) ++
    (match c.err with | some e => [s!"err={if e ≥ 1000 then 1 else e}"] | none => []) ++
    (if c.mtx then ["mtx=1"] else []) ++
    (match c.ppf with | some p => [s!"ppf={p}"] | none => []) ++
    (match c.vpf with | some p => [s!"vpf={p}"] | none => []) ++
    (match c.rpf with | some p => [s!"rpf={p}"] | none => []) ++
    (match c.eqf with | some p => [s!"eqf={p}"] | none => []) ++
    (match c.umf with | some p => [s!"umf={p}"] | none => []) ++
    (match c.lss with | some p => [s!"lss={p}"] | none => []) ++
    (match c.maf with | some p => [s!"maf={p}"] | none => []) ++
    (match c.evl with | some p => [s!"evl={p}"] | none => [])
  if parts.isEmpty then "-" else ",".intercalate parts

/-- inverse of `parseEV` -/
partial def showEV : EV → String
  | .prim ty t n => s!"p{ty}:{hx t}:{if n then 1 else 0}"
  | .named ty t => s!"t{ty}:{hx t}"
  | .uptr u n => s!"u{if u then 1 else 0}:{n}"
  | .nilptr ty => s!"z{ty}"
  | .ptr ty e => s!"P {ty} {showEV e}"
  | .seq a ety cap xs => (s!"Q {if a then "a" else "s"} {ety} {cap} [ " ++ " ".intercalate (xs.map showEV)).trimAsciiEnd.toString ++ " ]"
  | .map ty ks vs => (s!"M {ty} [ " ++ " ".intercalate ((ks.zip vs).map (fun p => s!"{showEV p.1} {showEV p.2}"))).trimAsciiEnd.toString ++ " ]"
  | .struct ty fs vs =>
      (s!"T {ty} [ " ++ " ".intercalate ((fs.zip vs).map (fun p =>
        s!"{hx p.1.name}:{if p.1.exported then "e" else "p"}:{if p.1.anon then "a" else "n"} {showEV p.2}"))).trimAsciiEnd.toString ++ " ]"
  | .func ty id => s!"f{ty}:{id}"
  | .chan ty id => s!"c{ty}:{id}"
  | .inil => "I"
  | .iface e => s!"J {showEV e}"

/-- inverse of `parseVal` -/
partial def showVal : Val → String
  | .nil => "N"
  | .leaf (.int i) => s!"i{i}"
  | .leaf (.str s) => s!"s{hx s}"
  | .leaf (.bool b) => if b then "b1" else "b0"
  | .leaf (.num ty t) => s!"n{ty}:{hx t}"
  | .leaf (.stringer id t z) => s!"g{id}:{hx t}:{if z then 1 else 0}"
  | .leaf (.opaque cls id) => s!"o{cls}:{id}"
  | .leaf (.ev e) => showEV e
  | .stk f c xs => (s!"K {Form.str f} {showCfg c} [ " ++ " ".intercalate (xs.map showVal)).trimAsciiEnd.toString ++ " ]"
  | .cnd f c kw op ex => s!"C {Form.str f} {showCfg c true} {hx kw} {Op.str op} {showVal ex}"
  | .zstk f => s!"Z {Form.str f}"
  | .zcnd f => s!"Y {Form.str f}"
  | .anys xs => ("A [ " ++ " ".intercalate (xs.map showVal)).trimAsciiEnd.toString ++ " ]"
  | .opv .none => "N"           -- a nil Operator in an `any` is just nil
  | .opv o => s!"O{Op.str o}"

def words (s : String) : List String := (s.splitOn " ").filter (· ≠ "")

/-- short form of an observed element (mirrors harness `Short`) -/
def short : Val → String
  | .nil => "N"
  | .leaf (.int i) => s!"i{i}"
  | .leaf (.str s) => s!"s{hx s}"
  | .leaf (.bool b) => if b then "b1" else "b0"
  | .leaf (.num ty t) => s!"n{ty}:{hx t}"
  | .leaf (.stringer id t z) => s!"g{id}:{hx t}:{if z then 1 else 0}"
  | .leaf (.opaque cls id) => s!"o{cls}:{id}"
  | .leaf (.ev _) => "e"
  | .stk _ c xs => s!"K{c.kind}#{xs.length}"
  | .cnd _ _ kw _ _ => s!"C#{hx kw}"
  | .anys xs => s!"A#{xs.length}"
  | .zstk _ => "?"
  | .zcnd _ => "?"
  | .opv o => s!"O{Op.str o}"

def b01 (b : Bool) : String := if b then "1" else "0"

/-- the harness's `Describe` cannot name an installed closure (only its presence is observable): print without them -/
partial def stripPol : Val → Val
  | .stk f c xs => .stk f { c with ppf := none, vpf := none, rpf := none, eqf := none, umf := none, maf := none, evl := none } (xs.map stripPol)
  | .cnd f c kw op ex => .cnd f { c with ppf := none, vpf := none, rpf := none, eqf := none, umf := none, maf := none, evl := none } kw op (stripPol ex)
  | .anys xs => .anys (xs.map stripPol)
  | v => v

/-- policy interpretation shared with the harness (`polRejects`) -/
def interp (id : Nat) (v : Val) : Option Nat :=
  let rej : Bool :=
    if id == 1 then v.isNil
    else if id == 2 then (match v with | .leaf (.str _) => true | _ => false)
    else if id == 3 then (match v with | .leaf (.int n) => decide (n > 5) | _ => false)
    else if id == 5 then true
    else if id == 6 then v.isStack
    else if id == 7 then v.isCond
    else false
  if rej then some (100 + id) else none

end Stackage.Driver
