import Stackage.Driver.Dump
import Stackage.Driver.Render
import Stackage.Spec.OptLink

/-!
# Driver for stream `opts` (C18)

M line: the model's configuration dump after every call (`Cfg.call` on the bit-field model).
S line: the same dump printed from the independent-switch specification (`OptSpec.St`, one Boolean per option
and per log level). K line: empty. Op grammar: see `harness/opts.go`.
-/

namespace Stackage.Driver
open Stackage OptSpec

def parseStrArg (t : String) : Cfg.StrArg :=
  let body := (t.drop 1).toString
  if t.startsWith "s" then .str (unhx body)
  else if t.startsWith "r" then .rune (toInt body)
  else if t == "N" then .nil
  else .other

def parseEncArg (t : String) : Cfg.EncArg :=
  let body := (t.drop 1).toString
  if t.startsWith "s" then .str (unhx body)
  else if t.startsWith "l" then .slice (if body.isEmpty then [] else (splitOn body "/").map unhx)
  else .other

def parseLvlArg (t : String) : LogLevel.Arg :=
  let body := (t.drop 1).toString
  if t.startsWith "n" then .name (unhx body)
  else if t.startsWith "c" then .const (toNat body)
  else if t.startsWith "i" then .raw (toInt body)
  else .other

def parseOpt (s : String) : Option Opt :=
  if s == "paren" then some .paren else if s == "fold" then some .fold else if s == "nopad" then some .nopad
  else if s == "lonce" then some .lonce else if s == "neg" then some .neg else if s == "fwd" then some .fwd
  else if s == "nnest" then some .nnest else if s == "ro" then some .ronly else none

def parseTri (s : String) : Option Bool := if s == "1" then some true else if s == "0" then some false else none

def parseCall (ts : List String) : Option OptSpec.Call :=
  match ts with
  | [v, o, a] => if v == "st" || v == "sta" then (parseOpt o).map (fun o => .state o (parseTri a)) else parseRest ts
  | _ => parseRest ts
where
  parseRest (ts : List String) : Option OptSpec.Call :=
    match ts with
    | ["fifo", b] => some (.fifo (b == "1"))
    | ["id", h] => some (.id (unhx h) [])
    | ["cat", h] => some (.cat (unhx h))
    | ["delim", a] => some (.delim (parseStrArg a))
    | "sym" :: as => some (.sym (as.map parseStrArg))
    | "syma" :: as => some (.sym (as.map parseStrArg))
    | "enc" :: as => some (.enc (as.map parseEncArg))
    | "enca" :: as => some (.enc (as.map parseEncArg))
    | ["aux"] => some (.aux none)
    | ["aux", "N"] => some (.aux (some none))
    | ["aux", i] => some (.aux (some (some (toNat i))))
    | "lvl+" :: as => some (.lvlSet (as.map parseLvlArg))
    | "lvl-" :: as => some (.lvlUnset (as.map parseLvlArg))
    | ["logger", _] => some (.lvlSet [])   -- SetLogger changes the logger only (not in the dump): identity on everything shown
    | _ => none

/-- read the specification state off a starting configuration, by arithmetic on the printed numbers -/
def specOfCfg (c : Cfg) : St :=
  let bit (w : Nat) : Bool := c.opt / w % 2 == 1
  { paren := bit 1, fold := bit 2, nopad := bit 4, lonce := bit 8, neg := bit 16, fwd := bit 32, ronly := bit 128, nnest := bit 256,
    fifo := c.fifo, isList := c.kind == 4, sym := c.sym, delim := c.ljc, enc := c.enc, id := c.id, cat := c.cat, aux := c.aux,
    lvl := bitsOf c.lvl }

def b2n (b : Bool) : Nat := if b then 1 else 0

/-- the dump as the specification state predicts it; `frame` supplies what C18 does not speak about
(kind, capacity, mutex, error, policies) and the option bits without a public setter -/
def dumpSpec (frame : Cfg) (s : St) (n : Nat) (q : Bool) : String :=
  let eight := b2n (frame.opt / 1 % 2 == 1) * 1 + b2n (frame.opt / 2 % 2 == 1) * 2 + b2n (frame.opt / 4 % 2 == 1) * 4
    + b2n (frame.opt / 8 % 2 == 1) * 8 + b2n (frame.opt / 16 % 2 == 1) * 16 + b2n (frame.opt / 32 % 2 == 1) * 32
    + b2n (frame.opt / 128 % 2 == 1) * 128 + b2n (frame.opt / 256 % 2 == 1) * 256
  let other := frame.opt - eight
  let opt := other + b2n s.paren * 1 + b2n s.fold * 2 + b2n s.nopad * 4 + b2n s.lonce * 8 + b2n s.neg * 16 + b2n s.fwd * 32
    + b2n s.ronly * 128 + b2n s.nnest * 256
  let lvl := (s.lvl.zip (List.range 16)).foldl (fun acc p => if p.1 then acc + 2 ^ p.2 else acc) 0
  s!"k{frame.kind} c{frame.cap} o{opt} f{b01 s.fifo} sym:{hx s.sym} d:{hx s.delim} e:{encStr s.enc} id:{hx s.id} cat:{hx s.cat} lvl{lvl} aux:{auxStr s.aux} m{b01 frame.mtx} err:{errCls frame.err} pol:{present [frame.ppf, frame.vpf, frame.rpf, frame.eqf, frame.lss, frame.umf, frame.maf, frame.evl]} n{n} / " ++
  dumpGetters s.paren (!s.nopad) s.ronly (!s.nnest) (!s.enc.isEmpty) q s.id s.cat s.delim (levelString s.lvl) s.aux

/-- the configuration the specification state stands for (frame = what C18 does not speak about) -/
def specCfg (frame : Cfg) (s : St) : Cfg :=
  let eight := b2n (frame.opt / 1 % 2 == 1) * 1 + b2n (frame.opt / 2 % 2 == 1) * 2 + b2n (frame.opt / 4 % 2 == 1) * 4
    + b2n (frame.opt / 8 % 2 == 1) * 8 + b2n (frame.opt / 16 % 2 == 1) * 16 + b2n (frame.opt / 32 % 2 == 1) * 32
    + b2n (frame.opt / 128 % 2 == 1) * 128 + b2n (frame.opt / 256 % 2 == 1) * 256
  let opt := (frame.opt - eight) + b2n s.paren * 1 + b2n s.fold * 2 + b2n s.nopad * 4 + b2n s.lonce * 8 + b2n s.neg * 16 + b2n s.fwd * 32
    + b2n s.ronly * 128 + b2n s.nnest * 256
  { frame with opt := opt, fifo := s.fifo, sym := s.sym, ljc := s.delim, enc := s.enc, id := s.id, cat := s.cat }

/-- the option words of what the receiver holds (nested Stacks / Conditions, a Condition's Stack expression): they are theirs, and no
option call on the receiver touches them -/
def nestOpts (isCond : Bool) (xs : List Val) (ex : Val) : String :=
  let one (deep : Bool) (v : Val) : List Nat :=
    match v with
    | .stk _ c _ => [c.opt]
    | .cnd _ c _ _ e => c.opt :: (if deep then (match e with | .stk _ c2 _ => [c2.opt] | .cnd _ c2 _ _ _ => [c2.opt] | _ => []) else [])
    | _ => []
  let l := if isCond then one false ex else (xs.map (one true)).flatten
  " NEST:" ++ ",".intercalate (l.map toString)

/-- what the settings look like in `String()` (C18: "… or reflected in String()") -/
def strTok (isCond : Bool) (c : Cfg) (xs : List Val) (kw : Text) (op : Op) (ex : Val) (spec : Bool) : String :=
  if isCond then s!" STR:{hx (condString closures c kw op ex)}{nestOpts true xs ex}"
  else
    let st : Stk := { cfg := c, xs := xs }
    s!" STR:{hx (if spec then Grammar.canon closures st else st.String closures)}{nestOpts false xs ex}"

partial def optsModel (isCond : Bool) (c : Cfg) (n : Nat) (ex : Val) (xs : List Val) (kw : Text) (op : Op) (calls : List (Option OptSpec.Call)) (acc : List String) : List String :=
  match calls with
  | [] => acc.reverse
  | none :: _ => ("BADOP" :: acc).reverse
  | some sc :: rest =>
    let oc := sc.toModel
    if (isCond && !oc.onCond) || (!isCond && !oc.onStack) then ("BADOP" :: acc).reverse else
    let c' := c.call oc
    let d := if isCond then dumpCnd c' ex else dumpCfg c' n
    optsModel isCond c' n ex xs kw op rest (s!"- {d}{strTok isCond c' xs kw op ex false}" :: acc)

partial def optsSpec (frame : Cfg) (s : St) (n : Nat) (q : Option Bool) (ex : Val) (xs : List Val) (kw : Text) (op : Op) (calls : List (Option OptSpec.Call)) (acc : List String) : List String :=
  match calls with
  | [] => acc.reverse
  | none :: _ => ("BADOP" :: acc).reverse
  | some sc :: rest =>
    let s' := step s sc
    optsSpec frame s' n q ex xs kw op rest (s!"- {dumpSpec frame s' n (q.getD s'.fifo)}{strTok q.isSome (specCfg frame s') xs kw op ex true}" :: acc)

/-- `opts` stream: `<receiver> | op ; op ; …` -/
def runOpts (payload : String) : String × String × String :=
  let (recvTxt, opsTxt) : String × String := match payload.splitOn " | " with
    | [r] => (r, "")
    | r :: rest => (r, " | ".intercalate rest)
    | [] => ("", "")
  let calls := ((opsTxt.splitOn " ; ").filter (fun o => !(words o).isEmpty)).map (fun o => parseCall (words o))
  match (parseVal (words recvTxt)).1 with
  | .stk _ c xs =>
    let m := optsModel false c xs.length .nil xs [] .none calls [s!"init {dumpCfg c xs.length}{strTok false c xs [] .none .nil false}"]
    let s0 := specOfCfg c
    let s := optsSpec c s0 xs.length none .nil xs [] .none calls [s!"init {dumpSpec c s0 xs.length s0.fifo}{strTok false (specCfg c s0) xs [] .none .nil true}"]
    (" ; ".intercalate m, " ; ".intercalate s, "")
  | .cnd _ c kw op ex =>
    let n := if ex.isNil then 0 else 1
    let q := Cfg.condIsFIFO ex
    let m := optsModel true c n ex [] kw op calls [s!"init {dumpCnd c ex}{strTok true c [] kw op ex false}"]
    let s0 := specOfCfg c
    let s := optsSpec c s0 n (some q) ex [] kw op calls [s!"init {dumpSpec c s0 n q}{strTok true (specCfg c s0) [] kw op ex true}"]
    (" ; ".intercalate m, " ; ".intercalate s, "")
  | _ => ("BADCASE", "BADCASE", "")

end Stackage.Driver
