import Stackage.Driver.Parse
import Stackage.Spec.Grammar

namespace Stackage.Driver
open Stackage

/-- closures used by the harness (ids shared with harness/val.go): validity 1 = accepts, 2 = rejects (class 201);
presentation p renders the text `<P{p}>` -/
def closures : Closures :=
  { valid := fun p => if p == 2 then some 201 else none,
    present := fun p => s!"<P{p}>".toList }

def runRender (payload : String) : String × String × String :=
  match (parseVal (words payload)).1 with
  | .stk _ c xs =>
    let s : Stk := { cfg := c, xs := xs }
    ("S" ++ hx (s.String closures), "S" ++ hx (Grammar.canon closures s), "")
  | _ => ("BADCASE", "BADCASE", "")

def runStrUnit (payload : String) : String × String × String :=
  let r : String := match words payload with
    | ["condense", h] => "S" ++ hx (condense (unhx h))
    | ["pad", d, h] => "S" ++ hx (padValue (d == "1") (unhx h))
    | ["fold", d, h] => "S" ++ hx (foldValue (d == "1") (unhx h))
    | ["encap", c, h] => "S" ++ hx (encapValue (parseCfg c).enc (unhx h))
    | _ => "BADOP"
  (r, r, "")

end Stackage.Driver
