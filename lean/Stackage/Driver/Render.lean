import Stackage.Driver.Parse
import Stackage.Spec.Grammar
import Stackage.Model.Options

namespace Stackage.Driver
open Stackage

/-- Unmarshaler closures by id (shared with harness/val.go `unmarshalerFor`): every id returns the slice `["U", id]`;
id 3 returns it together with an error (class 204) -/
def umfResult (p : Nat) : List Val × Option Nat :=
  ([.leaf (.str ['U']), .leaf (.int p)], if p == 3 then some 204 else none)

/-- closures used by the harness (ids shared with harness/val.go): validity 1 = accepts, 2 = rejects (class 201);
presentation p renders the text `<P{p}>`; unmarshaler p: `umfResult p` -/
def closures : Closures :=
  { valid := fun p => if p == 2 then some 201 else none,
    present := fun p => s!"<P{p}>".toList,
    unmarshal := umfResult }

def runRender (payload : String) : String × String × String :=
  match (parseVal (words payload)).1 with
  | .stk _ c xs =>
    let s : Stk := { cfg := c, xs := xs }
    ("S" ++ hx (s.String closures), "S" ++ hx (Grammar.canon closures s), "")
  | _ => ("BADCASE", "BADCASE", "")

/-- apply a tri-state option to the root (".") or to the direct child stack at index `i` -/
def optAt (s : Stk) (target : String) (flag : Nat) (st : Option Bool) : Stk :=
  if target == "." then { s with cfg := s.cfg.setState flag st }
  else
    let i := toNat target
    { s with xs := s.xs.mapIdx (fun k v =>
        if k == i then (match v with | .stk f c xs => .stk f (c.setState flag st) xs | w => w) else v) }

def runRerender (payload : String) : String × String × String :=
  match payload.splitOn " | " with
  | [tree, ops] =>
    match (parseVal (words tree)).1 with
    | .stk _ c xs =>
      let s0 : Stk := { cfg := c, xs := xs }
      let step (render : Stk → Text) (acc : Stk × List String) (o : String) : Stk × List String :=
        match words o with
        | ["render"] => (acc.1, ("S" ++ hx (render acc.1)) :: acc.2)
        | ["enc", e] =>
          let pair := (splitOn e "/").map unhx
          ({ acc.1 with cfg := acc.1.cfg.SetEncap [.slice pair] }, "-" :: acc.2)
        | ["opt", tgt, name, v] =>
          let flag := if name == "paren" then Gen.flag_parens else if name == "fold" then Gen.flag_cfold
                      else if name == "nopad" then Gen.flag_nspad else Gen.flag_lonce
          let st : Option Bool := if v == "t" then none else some (v == "1")
          (optAt acc.1 tgt flag st, "-" :: acc.2)
        | _ => (acc.1, "BADOP" :: acc.2)
      let m := ((ops.splitOn " ; ").foldl (step (fun s => s.String closures)) (s0, [])).2.reverse
      let sp := ((ops.splitOn " ; ").foldl (step (fun s => Grammar.canon closures s)) (s0, [])).2.reverse
      (" ; ".intercalate m, " ; ".intercalate sp, "")
    | _ => ("BADCASE", "BADCASE", "")
  | _ => ("BADCASE", "BADCASE", "")

def runStrUnit (payload : String) : String × String × String :=
  let r : String := match words payload with
    | ["condense", h] => "S" ++ hx (condense (unhx h))
    | ["pad", d, h] => "S" ++ hx (padValue (d == "1") (unhx h))
    | ["fold", d, h] => "S" ++ hx (foldValue (d == "1") (unhx h))
    | ["encap", c, h] => "S" ++ hx (encapValue (parseCfg c).enc (unhx h))
    | _ => "BADOP"
  (r, r, "")

end Stackage.Driver
