import Stackage.Driver.Parse
import Stackage.Spec.DefragSpec

/-! Driver entry for stream `nilpat` (C19): `<stack literal> | defrag <max|->` -/

namespace Stackage.Driver
open Stackage

def dErrStr : Option Nat → String
  | none => "-"
  | some e => s!"E{e}"

mutual
/-- same format as harness `obsTree` / `obsElem` -/
partial def obsTreeV : Val → String
  | .nil => "N"
  | .stk _ c xs => obsTreeS { cfg := c, xs := xs }
  | .cnd _ _ _ _ ex => s!"C({obsTreeV ex})"
  | .zstk _ => "Z"
  | .zcnd _ => "Y"
  | v => short v
partial def obsTreeS (s : Stk) : String :=
  s!"K{s.xs.length}:{dErrStr s.cfg.err}[{",".intercalate (s.xs.map obsTreeV)}]"
end

def runDefrag (payload : String) : String × String × String :=
  match payload.splitOn " | " with
  | [lit, op] =>
    match (parseVal (words lit)).1, words op with
    | .stk _ c xs, ["defrag", m] =>
      let s : Stk := { cfg := c, xs := xs }
      let args : List Int := if m == "-" then [] else [toInt m]
      let model := match s.Defrag (s.depth + 1) args with
        | .ok s' => obsTreeS s'
        | .error (.fault f) => f.toString
        | .error .fuel => "TIMEOUT"
      let spec := obsTreeS (DefragSpec.compact s)
      let tags := (DefragSpec.classTags (s.depth + 1) (Stk.defragMax args) s).eraseDups
      (model, spec, " ".intercalate tags)
    | _, _ => ("BADCASE", "BADCASE", "")
  | _ => ("BADCASE", "BADCASE", "")

end Stackage.Driver
