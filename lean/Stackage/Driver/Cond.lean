import Stackage.Driver.Render
import Stackage.Spec.CondSpec

namespace Stackage.Driver
open Stackage

inductive CHOp where
  | op (o : CondOp)
  | cond (kw : Val) (o : Op) (ex : Val)
  | bad

def parseCHOp (ts : List String) : CHOp :=
  match ts with
  | ["init"] => .op .init
  | "cond" :: rest =>
    let (kw, r1) := parseVal rest
    match r1 with
    | o :: r2 => .cond kw (parseOp o) (parseVal r2).1
    | _ => .bad
  | "kw" :: rest => .op (.setKeyword (parseVal rest).1)
  | ["op", o] => .op (.setOperator (parseOp o))
  | "ex" :: rest => .op (.setExpression (parseVal rest).1)
  | ["nnest", b] => .op (.setState Gen.flag_nnest (some (b == "1")))
  | ["nopad", b] => .op (.setState Gen.flag_nspad (some (b == "1")))
  | ["paren", b] => .op (.setState Gen.flag_parens (some (b == "1")))
  | ["ro", b] => .op (.setState Gen.flag_ronly (some (b == "1")))
  | ["enc1", a] => .op (.setEncapOne (unhx a))
  | ["enc2", a, b] => .op (.setEncapPair (unhx a) (unhx b))
  | ["err", n] => .op (.setErr (if n == "0" then none else some (toNat n)))
  | _ => .bad

def obsCnd (c : Cnd) : String :=
  s!"K{hx c.kw} O{Op.str c.op} X{short c.ex} V{b01 (c.valid closures).isNone} R{b01 c.cfg.err.isSome} N{b01 c.CanNest} G{b01 c.IsNesting} S{hx (c.string closures)}"

def obsCSpec (s : CondSpec.St) : String :=
  s!"K{hx s.kw} O{Op.str s.op} X{short s.ex} V{b01 (CondSpec.valid closures s)} R{b01 s.err} N{b01 (!s.nnest)} G{b01 s.ex.isStack} S{hx (CondSpec.string closures s)}"

def runCondHist (payload : String) : String × String × String :=
  let parts := payload.splitOn " | "
  let ops : List CHOp := (parts.headD "" :: (match parts with
      | [_, o] => if o.trimAscii.toString == "" then [] else o.splitOn " ; "
      | _ => [])).map (fun t => parseCHOp (words t))
  let (_, ms) := ops.foldl (fun (acc : Cnd × List String) op =>
      let c' := match op with
        | .op o => acc.1.apply o
        | .cond kw o ex => Cnd.cond closures kw o ex
        | .bad => acc.1
      (c', s!"- {obsCnd c'}" :: acc.2)) (Cnd.init, [])
  let (_, ss) := ops.foldl (fun (acc : CondSpec.St × List String) op =>
      let s' := match op with
        | .op o => CondSpec.step closures acc.1 o
        | .cond kw o ex => CondSpec.cond closures kw o ex
        | .bad => acc.1
      (s', s!"- {obsCSpec s'}" :: acc.2)) ({}, [])
  (" ; ".intercalate ms.reverse, " ; ".intercalate ss.reverse, "")

end Stackage.Driver
