import Stackage.Driver.Render
import Stackage.Spec.CondSpec

namespace Stackage.Driver
open Stackage

inductive CHOp where
  | hold
  | op (o : CondOp)
  | cond (kw : Val) (o : Op) (ex : Val)
  | bad

def parseCHOp (ts : List String) : CHOp :=
  match ts with
  | ["hold"] => .hold
  | ["init"] => .op .init
  | "cond" :: rest =>
    let (kw, r1) := parseVal rest
    match r1 with
    | o :: r2 => .cond kw (parseOp o) (parseVal r2).1
    | _ => .bad
  | "kw" :: rest => .op (.setKeyword (parseVal rest).1)
  | ["op", o] => .op (.setOperator (parseOp o))
  | "ex" :: rest => .op (.setExpression (parseVal rest).1)
  | ["nnest", b] => .op (.setState Gen.flag_nnest (some (b == "1")))
  | ["nopad", b] => .op (.setState Gen.flag_nspad (some (b == "1")))
  | ["paren", b] => .op (.setState Gen.flag_parens (some (b == "1")))
  | ["ro", b] => .op (.setState Gen.flag_ronly (some (b == "1")))
  | ["enc1", a] => .op (.setEncapOne (unhx a))
  | ["enc2", a, b] => .op (.setEncapPair (unhx a) (unhx b))
  | ["err", n] => .op (.setErr (if n == "0" then none else some (toNat n)))
  | _ => .bad

def obsCnd (c : Cnd) : String :=
  s!"K{hx c.kw} O{Op.str c.op} X{short c.ex} V{b01 (c.valid closures).isNone} R{b01 c.cfg.err.isSome} N{b01 c.CanNest} G{b01 c.IsNesting} S{hx (c.string closures)}"

def obsCSpec (s : CondSpec.St) : String :=
  s!"K{hx s.kw} O{Op.str s.op} X{short s.ex} V{b01 (CondSpec.valid closures s)} R{b01 s.err} N{b01 (!s.nnest)} G{b01 s.ex.isStack} S{hx (CondSpec.string closures s)}"

/-- a second handle on the instance (`held := c`, or what `Push(c)` stored): the same instance until the variable is
re-initialised (`Init` / `Cond` replace the instance the variable refers to); from then on the copy keeps what it had -/
structure Held (α : Type) where
  cur : α
  held : Option α := none
  attached : Bool := false

def Held.step {α : Type} (h : Held α) (replaces : Bool) (c' : α) : Held α :=
  if replaces then { h with cur := c', attached := false }
  else if h.attached then { cur := c', held := some c', attached := true }
  else { h with cur := c' }

def Held.hold {α : Type} (h : Held α) : Held α := { h with held := some h.cur, attached := true }

def Held.obs {α : Type} (h : Held α) (f : α → String) : String :=
  match h.held, h.attached with
  | some x, false => s!"{f h.cur} H[ {f x} ]"
  | _, _ => f h.cur

def CHOp.replaces : CHOp → Bool
  | .op .init => true
  | .cond .. => true
  | _ => false

def runCondHist (payload : String) : String × String × String :=
  let parts := payload.splitOn " | "
  let ops : List CHOp := (parts.headD "" :: (match parts with
      | [_, o] => if o.trimAscii.toString == "" then [] else o.splitOn " ; "
      | _ => [])).map (fun t => parseCHOp (words t))
  let (_, ms) := ops.foldl (fun (acc : Held Cnd × List String) op =>
      let h' := match op with
        | .hold => acc.1.hold
        | .op o => acc.1.step op.replaces (acc.1.cur.apply o)
        | .cond kw o ex => acc.1.step true (Cnd.cond closures kw o ex)
        | .bad => acc.1
      (h', s!"- {h'.obs obsCnd}" :: acc.2)) ({ cur := Cnd.init }, [])
  let (_, ss) := ops.foldl (fun (acc : Held CondSpec.St × List String) op =>
      let h' := match op with
        | .hold => acc.1.hold
        | .op o => acc.1.step op.replaces (CondSpec.step closures acc.1.cur o)
        | .cond kw o ex => acc.1.step true (CondSpec.cond closures kw o ex)
        | .bad => acc.1
      (h', s!"- {h'.obs obsCSpec}" :: acc.2)) ({ cur := {} }, [])
  (" ; ".intercalate ms.reverse, " ; ".intercalate ss.reverse, "")

end Stackage.Driver
