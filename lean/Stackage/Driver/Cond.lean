import Stackage.Driver.Render
import Stackage.Spec.CondSpec
import Stackage.Model.Traverse

namespace Stackage.Driver
open Stackage

inductive CHOp where
  | hold
  | free
  | two (a b : CondOp)                   -- two calls in one step (nothing is observed in between)
  | op (o : CondOp)
  | cond (kw : Val) (o : Op) (ex : Val)
  | bad

def parseCHOp (ts : List String) : CHOp :=
  match ts with
  | ["hold"] => .hold
  | ["free"] => .free
  | ["init"] => .op .init
  | "cond" :: rest =>
    let (kw, r1) := parseVal rest
    match r1 with
    | o :: r2 => .cond kw (parseOp o) (parseVal r2).1
    | _ => .bad
  | "kw" :: rest => .op (.setKeyword (parseVal rest).1)
  | ["op", o] => .op (.setOperator (parseOp o))
  | "ex" :: rest => .op (.setExpression (parseVal rest).1)
  | ["nnest", b] => .op (.setState Gen.flag_nnest (some (b == "1")))
  | ["nopad", b] => .op (.setState Gen.flag_nspad (some (b == "1")))
  | ["paren", b] => .op (.setState Gen.flag_parens (some (b == "1")))
  | ["ro", b] => .op (.setState Gen.flag_ronly (some (b == "1")))
  | ["enc1", a] => .op (.setEncapOne (unhx a))
  | ["enc2", a, b] => .op (.setEncapPair (unhx a) (unhx b))
  | ["enc0"] => .op .setEncapNone
  | ["reenc1", a] => .two .setEncapNone (.setEncapOne (unhx a))
  | ["reenc2", a, b] => .two .setEncapNone (.setEncapPair (unhx a) (unhx b))
  | ["err", n] => .op (.setErr (if n == "0" then none else some (toNat n)))
  | _ => .bad

/-- `And().Push(c).Traverse(0, 0)`: through the Condition into the Stack it holds (model: `Stk.traverse`) -/
def travCnd (c : Cnd) : String :=
  match Stk.traverse closures ⟨{ kind := Gen.kind_and }, [.cnd .native c.cfg c.kw c.op c.ex]⟩ [0, 0] with
  | .ok (v, ok) => s!"{short v}:{b01 ok}"
  | .error _ => "FAULT"

/-- the same by the property's words: the first element of the expression if that is a Stack (any form) and the element is not nil -/
def travSpec (ex : Val) : String :=
  match ex with
  | .stk _ _ (x :: _) => if x.isNil then "N:0" else s!"{short x}:1"
  | _ => "N:0"

/-- in which form a Stack / Condition is held (harness `formTag`) -/
def formTag : Val → String
  | .stk f _ _ | .cnd f _ _ _ _ => match f with | .native => ":n" | .alias => ":a" | .aliasS => ":as" | .ptr => ":p"
  | _ => ""

def obsCnd (c : Cnd) : String :=
  s!"K{hx c.kw} O{Op.str c.op} X{short c.ex}{formTag c.ex} V{b01 (c.valid closures).isNone} R{b01 c.cfg.err.isSome} N{b01 c.CanNest} G{b01 c.IsNesting} S{hx (c.string closures)} T{travCnd c}"

def obsCSpec (s : CondSpec.St) : String :=
  s!"K{hx s.kw} O{Op.str s.op} X{short s.ex}{formTag s.ex} V{b01 (CondSpec.valid closures s)} R{b01 s.err} N{b01 (!s.nnest)} G{b01 s.ex.isStack} S{hx (CondSpec.string closures s)} T{travSpec s.ex}"

/-- what a zero-valued Condition (never initialised, or released with `Free`) answers -/
def obsZero : String := "K- O- XN V0 R0 N0 G0 S- TN:0"

/-- a second handle on the instance (`held := c`, or what `Push(c)` stored): the same instance until the variable is
re-initialised (`Init` / `Cond` replace the instance the variable refers to); from then on the copy keeps what it had -/
structure Held (α : Type) where
  cur : α
  held : Option α := none
  attached : Bool := false
  /-- the variable has been released with `Free` (a zero handle): every setter is inert until `Init` / `Cond` -/
  zero : Bool := false

def Held.step {α : Type} (h : Held α) (replaces : Bool) (c' : α) : Held α :=
  if replaces then { h with cur := c', attached := false, zero := false }
  else if h.zero then h
  else if h.attached then { cur := c', held := some c', attached := true }
  else { h with cur := c' }

/-- `Free()`: refused on a read-only instance; otherwise the *handle* becomes zero - a copy of the handle kept elsewhere still refers
to the instance, which stays exactly as it was -/
def Held.free {α : Type} (h : Held α) (ro : α → Bool) : Held α :=
  if h.zero || ro h.cur then h else { h with zero := true, attached := false }

def Held.hold {α : Type} (h : Held α) : Held α := if h.zero then { h with held := none, attached := false } else { h with held := some h.cur, attached := true }

def Held.obs {α : Type} (h : Held α) (f : α → String) : String :=
  let c := if h.zero then obsZero else f h.cur
  match h.held, h.attached with
  | some x, false => s!"{c} H[ {f x} ]"
  | _, _ => c

def CHOp.replaces : CHOp → Bool
  | .op .init => true
  | .cond .. => true
  | _ => false

def runCondHist (payload : String) : String × String × String :=
  let parts := payload.splitOn " | "
  let ops : List CHOp := (parts.headD "" :: (match parts with
      | [_, o] => if o.trimAscii.toString == "" then [] else o.splitOn " ; "
      | _ => [])).map (fun t => parseCHOp (words t))
  let (_, ms) := ops.foldl (fun (acc : Held Cnd × List String) op =>
      let h' := match op with
        | .hold => acc.1.hold
        | .free => acc.1.free Cnd.readOnly
        | .two a b => acc.1.step false ((acc.1.cur.apply a).apply b)
        | .op o => acc.1.step op.replaces (acc.1.cur.apply o)
        | .cond kw o ex => acc.1.step true (Cnd.cond closures kw o ex)
        | .bad => acc.1
      (h', s!"- {h'.obs obsCnd}" :: acc.2)) ({ cur := Cnd.init }, [])
  let (_, ss) := ops.foldl (fun (acc : Held CondSpec.St × List String) op =>
      let h' := match op with
        | .hold => acc.1.hold
        | .free => acc.1.free (fun s => s.ro)
        | .two a b => acc.1.step false (CondSpec.step closures (CondSpec.step closures acc.1.cur a) b)
        | .op o => acc.1.step op.replaces (CondSpec.step closures acc.1.cur o)
        | .cond kw o ex => acc.1.step true (CondSpec.cond closures kw o ex)
        | .bad => acc.1
      (h', s!"- {h'.obs obsCSpec}" :: acc.2)) ({ cur := {} }, [])
  (" ; ".intercalate ms.reverse, " ; ".intercalate ss.reverse, "")

end Stackage.Driver
