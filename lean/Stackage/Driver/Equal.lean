import Stackage.Driver.Parse
import Stackage.Spec.EqSpec

/-! Driver entry for the streams `eqpair` and `equnit` (C05). -/

namespace Stackage.Driver
open Stackage

def ErrClass.str : ErrClass → String
  | .notInit => "notInit" | .badInput => "badInput" | .capLen => "capLen" | .kind => "kind"
  | .condKw => "condKw" | .condOp => "condOp" | .condOpCtx => "condOpCtx"
  | .chanInvalid => "chanInvalid" | .chanKind => "chanKind" | .chanType => "chanType" | .chanMismatch => "chanMismatch"
  | .funcNil => "funcNil" | .funcKind => "funcKind" | .funcType => "funcType"
  | .primMismatch => "primMismatch" | .primIncomparable => "primIncomparable" | .unsupported => "unsupported"
  | .uptrMismatch => "uptrMismatch" | .uptrKind => "uptrKind" | .cannotConvert => "cannotConvert"
  | .mapNonMap => "mapNonMap" | .mapType => "mapType" | .mapLen => "mapLen" | .mapKey => "mapKey"
  | .structType => "structType" | .structNum => "structNum" | .structAnon => "structAnon" | .structVis => "structVis"
  | .seqKind => "seqKind" | .seqCapLen => "seqCapLen"
  | .user n => s!"user{n}"

def showEq : EqRes → String
  | .ok none => "eq"
  | .ok (some c) => s!"ne:{ErrClass.str c}"
  | .error _ => "PANIC"

/-- eq / ne / PANIC only -/
def showEq3 : EqRes → String
  | .ok none => "eq"
  | .ok (some _) => "ne"
  | .error _ => "PANIC"

/-- the harness's `eqPolicy`: 1 = always equal, 3 = equal exactly when the peer arrives in native form, otherwise always
the error E<200+id> -/
def interpEq : EqHook := fun id _ peer =>
  if id == 1 then none
  else if id == 3 then (match peer with
    | .stk .native _ _ | .cnd .native _ _ _ _ => none
    | _ => some (.user 203))
  else some (.user (200 + id))

mutual
/-- a value of the universe that contains a NaN (reported as a tag) -/
partial def evHasNaN : EV → Bool
  | .prim _ _ n => n
  | .ptr _ e => evHasNaN e
  | .iface e => evHasNaN e
  | .seq _ _ _ xs => xs.any evHasNaN
  | .map _ ks vs => ks.any evHasNaN || vs.any evHasNaN
  | .struct _ _ vs => vs.any evHasNaN
  | _ => false
end

partial def valHasNaN : Val → Bool
  | .leaf l => evHasNaN l.toEV
  | .stk _ _ xs => xs.any valHasNaN
  | .cnd _ _ _ _ ex => valHasNaN ex
  | .anys xs => xs.any valHasNaN
  | _ => false

def specVerdict (same : Bool) : String := if same then "eq" else "ne"

/-- payload `<A> | <B> | <tag>`; `unit`: compare with `valuesEqual` instead of the exported `IsEqual` -/
def runEq (unit : Bool) (payload : String) : String × String × String :=
  match payload.splitOn " | " with
  | sa :: sb :: rest =>
    let tag := rest.headD ""
    let (a, _) := parseVal (words sa)
    let (b, _) := parseVal (words sb)
    let self := tag == "self"
    let mab := if unit then Val.veq interpEq a b else Val.IsEqual interpEq self a b
    let mba := if unit then Val.veq interpEq b a else Val.IsEqual interpEq self b a
    let m := s!"ab={showEq mab} ba={showEq mba}"
    let dom := EqSpec.inDomain a && EqSpec.inDomain b && !self
    let sab := EqSpec.sameDesc a b
    let sba := EqSpec.sameDesc b a
    -- inside the domain the specification decides; outside it only demands "no panic" and the line
    -- repeats the model's verdict (so that what remains compared is implementation = model)
    let isPanic (r : EqRes) : Bool := match r with | .error _ => true | _ => false
    let risky := isPanic mab || isPanic mba
    let noPanic (r : EqRes) : String := match r with | .error _ => "ne" | _ => showEq3 r
    let s := if dom then s!"ab={specVerdict sab} ba={specVerdict sba}"
             else s!"ab={noPanic mab} ba={noPanic mba}"
    let sane := if dom && tag == "copy" && !(sab && sba) then " GEN-SPEC-MISMATCH" else ""
    let k := s!"{if dom then "dom" else "ood"} {tag}{if valHasNaN a || valHasNaN b then " nan" else ""}{if risky then " modelpanic" else ""}{sane}"
    (m, s, k)
  | _ => ("BADCASE", "BADCASE", "")

/-- stream `eqseqs`: payload `<kind> | A [ a… ] | A [ b… ] | <tag>` — a `[]Stack` / `[n]Stack` / `[]*Stack` / `[]Condition`
leaf inside `And()`, compared in both directions (C05, repair F33) -/
def runEqSeqs (payload : String) : String × String × String :=
  match payload.splitOn " | " with
  | _kind :: sa :: sb :: rest =>
    let tag := rest.headD ""
    let as := match (parseVal (words sa)).1 with | .anys xs => xs | _ => []
    let bs := match (parseVal (words sb)).1 with | .anys xs => xs | _ => []
    let v (b : Bool) := if b then "eq" else "ne"
    let m := s!"ab={v (handlesEqual interpEq as bs)} ba={v (handlesEqual interpEq bs as)}"
    let dom := as.all (fun a => a.isHandle && EqSpec.inDomain a) && bs.all (fun a => a.isHandle && EqSpec.inDomain a)
    let s := if dom then s!"ab={v (EqSpec.sameDescL as bs)} ba={v (EqSpec.sameDescL bs as)}" else m
    (m, s, s!"{if dom then "dom" else "ood"} {tag}")
  | _ => ("BADCASE", "BADCASE", "")

end Stackage.Driver
