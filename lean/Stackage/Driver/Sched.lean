import Stackage.Driver.Hist
import Stackage.Model.Conc

/-!
# Driver entry for stream `sched` (C10)

payload: `<stack literal> | <prog 0> / <prog 1> / … | <schedule>`; a program is `op ; op ; …`
(same operation syntax as stream `hist`), the schedule a list of thread numbers, one per
scheduler *turn* (a thread leaves its parking place before `lock()` and runs until it parks
there again or finishes).

* M — `Conc.runTurns` of the interleaving model, compiled with the lock layout extracted from
      the source (`Conc.genLayout`), on that schedule;
* S — every outcome (return values per thread + final content) of a *sequential* execution of
      the calls in an order consistent with each program, separated by ` || `; the checker accepts
      the implementation's observation iff it is one of them.
-/

namespace Stackage.Driver
open Stackage Stackage.Conc

def parseProg (t : String) : List ListOp :=
  if t.trimAscii.toString == "" then [] else
  (t.splitOn " ; ").filterMap (fun o =>
    match parseHOp (words o) with
    | .list lop => some lop
    | _ => none)

def showElems (s : Stk) : String :=
  if s.xs.isEmpty then "[ ]" else "[ " ++ " ".intercalate (s.xs.map short) ++ " ]"

def showFinal (s : Stk) : String := s!"F L{s.ulen} {showElems s} I1"

def showThread (t : Nat) (ops : List ListOp) (outs : List Out) (tail : List String) : String :=
  let rs := (ops.zip outs).map (fun (p : ListOp × Out) => showOut p.1 p.2)
  " ".intercalate (s!"T{t}" :: (rs ++ tail))

/-- all interleavings of the programs that respect each program's order -/
partial def interleavings (progs : List (Nat × List ListOp)) : List (List (Nat × ListOp)) :=
  let live := progs.filter (fun p => !p.2.isEmpty)
  if live.isEmpty then [[]] else
  live.flatMap (fun (p : Nat × List ListOp) =>
    match p.2 with
    | [] => []
    | op :: rest =>
      let progs' := progs.map (fun q => if q.1 == p.1 then (q.1, rest) else q)
      (interleavings progs').map (fun tl => (p.1, op) :: tl))

def dedup (l : List String) : List String :=
  let sorted := (l.toArray.qsort (· < ·)).toList
  sorted.foldr (fun x acc => match acc with
    | y :: _ => if x == y then acc else x :: acc
    | [] => [x]) []

/-- outcome of one sequential order -/
def seqOutcome (s : Stk) (progs : List (Nat × List ListOp)) (order : List (Nat × ListOp)) : String :=
  match s.run interp (order.map (·.2)) with
  | .error f => s!"FAULT:{f.toString}"
  | .ok (s', outs) =>
    let tagged := (order.map (·.1)).zip outs
    let per := progs.map (fun (p : Nat × List ListOp) =>
      showThread p.1 p.2 ((tagged.filter (fun e => e.1 == p.1)).map (·.2)) [])
    " ; ".intercalate (per ++ [showFinal s', "W1 D0"])

/-- `Conc.turn`, additionally reporting whether the content changed in a step of a thread that
did not hold the lock (what the harness detects by comparing snapshots at held/released) -/
def turnW (P : ListOp → Plan) (c : Config) (t : Nat) (w : Bool) : Nat → Config × Bool
  | 0 => (c, w)
  | fuel + 1 =>
    match step P c t with
    | none => (c, w)
    | some c' =>
      let w' := w && (c.lock == some t || showElems c'.s == showElems c.s)
      match (c'.threads t).phase, (c'.threads t).prog with
      | .want _, op :: _ => if (P op).locks then (c', w') else turnW P c' t w' fuel
      | _, [] => (c', w')
      | _, _ => if c'.fault.isSome then (c', w') else turnW P c' t w' fuel

/-- step the model turn by turn -/
def schedModel (s : Stk) (progs : List (Nat × List ListOp)) (sched : List Nat) : String :=
  let P := plan genLayout interp
  let table : Nat → List ListOp := fun t => ((progs.find? (fun p => p.1 == t)).map (·.2)).getD []
  let c0 := Conc.init s table
  let drain := (progs.map (·.1)).flatMap (fun t => List.replicate 8 t)
  let (c, w) := (sched ++ drain).foldl (fun (st : Config × Bool) t => turnW P st.1 t st.2 16) (c0, true)
  let per := progs.map (fun (p : Nat × List ListOp) =>
    let th := c.threads p.1
    let tail := if c.fault.isSome && !th.prog.isEmpty && (th.phase matches .crit _) then ["PANIC"] else []
    showThread p.1 p.2 th.outs tail)
  match c.fault with
  | some f => " ; ".intercalate (per ++ [s!"FAULT:{f.toString}", s!"W{b01 w} D0"])
  | none => " ; ".intercalate (per ++ [showFinal c.s, s!"W{b01 w} D0"])

def runSched (payload : String) : String × String × String :=
  match payload.splitOn " | " with
  | [st, pr, sc] =>
    let (v, _) := parseVal (words st)
    match v with
    | .stk _ c xs =>
      let s : Stk := { cfg := c, xs := xs }
      let progs := ((pr.splitOn " / ").map parseProg).zipIdx.map (fun (p : List ListOp × Nat) => (p.2, p.1))
      let sched := (words sc).map toNat
      let m := schedModel s progs sched
      let outcomes := dedup ((interleavings progs).map (seqOutcome s progs))
      let layout := " ".intercalate (Kind.all.map (fun k =>
        k.priv ++ ":" ++ (match genLayout k with | .lockFirst => "LF" | .checkThenLock => "CTL" | .noLock => "NOLOCK")))
      (m, " || ".intercalate outcomes, s!"threads={progs.length} orders={outcomes.length} {layout}")
    | _ => ("BADCASE", "BADCASE", "")
  | _ => ("BADCASE", "BADCASE", "")

end Stackage.Driver
