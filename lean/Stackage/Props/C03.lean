import Stackage.Model.Marshal
import Stackage.Props.C15
import Stackage.Props.C01
import Stackage.Model.Options

/-!
# C03 — a Stack created with capacity k never holds more than k elements

`newStack` stores `cfg.cap = k + 1` for a positive capacity `k` and `0` otherwise; the
capacity clause of `Stk.WF` is "`cap = 0` or `rawLen ≤ cap`", i.e. `Len ≤ k`.
-/

set_option linter.unusedSimpArgs false
namespace Stackage
open ListSpec
namespace Stk

/-- the invariant, read as the property states it -/
theorem C03_bound (s : Stk) (hwf : s.WF) (k : Nat) (hk : s.cfg.cap = (k : Int) + 1) : s.xs.length ≤ k := by
  rcases hwf.capOk with h | ⟨_, _, h3⟩
  · omega
  · unfold rawLen at h3; omega

/-- **no history of content operations exceeds the capacity** (policies aside: see `C03_policy`) -/
theorem C03_history (interp : Nat → Val → Option Nat) (ops : List ListOp) (s : Stk) (k : Nat)
    (hwf : s.WF) (hk : s.cfg.cap = (k : Int) + 1) (hnp : s.cfg.ppf = none)
    (hints : ∀ op ∈ ops, op.IntsOk) (hsm : SmallLen (s.xs.length + (ops.map ListOp.growth).sum)) :
    ∃ s' outs, s.run interp ops = .ok (s', outs) ∧ s'.cfg.cap = (k : Int) + 1 ∧ s'.xs.length ≤ k := by
  obtain ⟨s', h, hc, _, hw⟩ := C01_history interp ops s hwf hnp hints hsm
  exact ⟨s', _, h, by rw [hc, hk], C03_bound s' hw k (by rw [hc, hk])⟩

/-- a push batch keeps the earliest-offered values that fit, in order, and drops the surplus -/
theorem C03_push (s : Stk) (vs : List Val) (k : Nat) (hwf : s.WF) (hk : s.cfg.cap = (k : Int) + 1)
    (hnn : s.flag Gen.flag_nnest = false) (hsm : SmallLen (s.xs.length + vs.length)) :
    (s.genericAppend vs).xs = s.xs ++ vs.take (k - s.xs.length) ∧ (s.genericAppend vs).xs.length ≤ k := by
  obtain ⟨c, x, w⟩ := genericAppend_spec vs s hwf hsm
  have hroom : s.opts.room = some (k - s.xs.length) := by
    unfold opts rawLen
    have : s.cfg.cap ≠ 0 := by omega
    have hb := C03_bound s hwf k hk
    simp only [this, ↓reduceIte, Option.some.injEq]; omega
  refine ⟨?_, C03_bound _ w k (by rw [c, hk])⟩
  have hf : List.filter (fun v => !(s.flag Gen.flag_nnest && v.isStack)) vs = vs := by
    rw [hnn]; simp
  rw [x, hroom, hf]
  rfl

/-- with a push policy installed the bound holds as well -/
theorem C03_policy (pol : Val → Option Nat) (s : Stk) (vs : List Val) (k : Nat) (hwf : s.WF)
    (hk : s.cfg.cap = (k : Int) + 1) (hsm : SmallLen (s.xs.length + vs.length)) :
    (s.methodAppend pol vs).xs.length ≤ k := by
  obtain ⟨_, b, c⟩ := methodAppend_spec pol vs s hwf hsm
  apply C03_bound _ c k
  rw [b]; split <;> exact hk

/-- Insert on a full stack fails without changing it -/
theorem C03_insert_full (s : Stk) (x : Val) (i : Int) (k : Nat) (hwf : s.WF) (hk : s.cfg.cap = (k : Int) + 1)
    (hfull : s.xs.length = k) (hi : InInt i) (hsm : SmallLen (s.xs.length + 1)) :
    s.insert x i = .ok (s, false) := by
  rw [insert_spec s x i hwf hsm hi]
  have : s.opts.room = some 0 := by
    unfold opts rawLen
    have : s.cfg.cap ≠ 0 := by omega
    simp only [this, ↓reduceIte, Option.some.injEq]; omega
  simp [this]

/-- Marshal-into respects the capacity and keeps it: whatever the input (any `[]any` tree, well-formed or not), an
initialised receiver afterwards holds at most `k` elements and its capacity is what it was -/
theorem C03_marshal_into (interp : Nat → Val → Option Nat) (s : Stk) (input : List Val) (k : Nat) (hwf : s.WF)
    (hk : s.cfg.cap = (k : Int) + 1) (hsm : SmallLen (s.xs.length + 1)) :
    ∀ z, (marshalInto interp (some s) input).1 = some z → z.xs.length ≤ k ∧ z.cfg.cap = s.cfg.cap := by
  intro z hz
  have hpush : ∀ x, (s.push interp [x]).xs.length ≤ k ∧ (s.push interp [x]).cfg.cap = s.cfg.cap := by
    intro x
    obtain ⟨_, hc, hw⟩ := push_single interp s x hwf hsm
    exact ⟨C03_bound _ hw k (by rw [hc, hk]), hc⟩
  have hself : s.xs.length ≤ k ∧ s.cfg.cap = s.cfg.cap := ⟨C03_bound s hwf k hk, rfl⟩
  unfold marshalInto at hz
  cases input with
  | nil => simp only [Option.some.injEq] at hz; rw [← hz]; exact hself
  | cons a rest =>
    simp only at hz
    split at hz <;> simp only [Option.some.injEq] at hz <;> rw [← hz] <;>
      first | exact hself | (split <;> first | exact hself | exact hpush _)

/-- Transfer-into respects the destination's capacity -/
theorem C03_transfer_into (interp : Nat → Val → Option Nat) (src dest : Stk) (k : Nat) (hd : dest.WF)
    (hk : dest.cfg.cap = (k : Int) + 1) (hsm : SmallLen (dest.xs.length + src.xs.length)) :
    (src.transfer interp dest).1.xs.length ≤ k := by
  unfold transfer
  split
  · exact C03_bound dest hd k hk
  · obtain ⟨_, _, _, h3, h4⟩ := transfer_fold interp src.xs dest hd hsm
    exact C03_bound _ h4 k (by rw [h3, hk])

/-- Transfer of a capped stack into ITSELF (one instance on both sides) never exceeds the capacity either, keeps what was there in
front, and leaves the configuration alone -/
theorem C03_transfer_self (s : Stk) (k : Nat) (hk : s.cfg.cap = (k : Int) + 1) (hl : s.xs.length ≤ k) :
    s.transferSelf.1.xs.length ≤ k ∧ s.transferSelf.1.cfg = s.cfg ∧ s.transferSelf.1.xs.take s.xs.length = s.xs := by
  have hk' : (s.cfg.cap - 1).toNat = k := by rw [hk]; omega
  unfold transferSelf
  simp only [hk']
  split
  · exact ⟨hl, rfl, List.take_length⟩
  · split
    · exact ⟨hl, rfl, List.take_length⟩
    · split
      · exact ⟨hl, rfl, List.take_length⟩
      · rename_i h1 h2 h3
        refine ⟨by simp, rfl, ?_⟩
        simp only [beq_iff_eq] at h3
        apply List.ext_getElem
        · simp only [List.length_take, List.length_map, List.length_range]; omega
        · intro i h1' h2'
          simp only [List.length_take, List.length_map, List.length_range] at h1'
          have hi : i < s.xs.length := by omega
          simp only [List.getElem_take, List.getElem_map, List.getElem_range, Nat.mod_eq_of_lt hi]
          simp [List.getD_eq_getElem?_getD, hi]

example : (⟨{ kind := 4, cap := 5 }, [.leaf (.int 1), .nil]⟩ : Stk).transferSelf.1.xs.length = 4 ∧
    (⟨{ kind := 4, cap := 5 }, [.leaf (.int 1), .nil]⟩ : Stk).transferSelf.2 = false ∧
    (⟨{ kind := 4, cap := 5 }, [.leaf (.int 1), .nil]⟩ : Stk).transferSelf.1.xs.map Val.isNil = [false, true, false, true] := by decide

/-- the getters: `Cap() == k`, `Avail() == k - Len()`, `IsFull() == (Len() == k)` -/
theorem C03_getters (s : Stk) (k : Nat) (hwf : s.WF) (hk : s.cfg.cap = (k : Int) + 1) :
    s.Cap = k ∧ s.Avail = (k : Int) - s.xs.length ∧ (s.isFull = true ↔ s.xs.length = k) := by
  have hb := C03_bound s hwf k hk
  have hsm := hwf.small
  unfold SmallLen at hsm; rw [pow62] at hsm
  rcases hwf.capOk with h | ⟨h1, h2, h3⟩
  · omega
  · rw [pow62] at h2
    have hc := hwf.cap_isLen
    have hl : s.cfg.cap ≠ 0 → IsRawLen s.rawLen := fun _ => hwf.rawLen_isRawLen
    unfold Cap Avail isFull
    rw [GenSem.Cap _ hc, GenSem.Avail _ _ hc hl, GenSem.isFull _ _ hc hl]
    unfold rawLen
    rw [hk]
    have hpos : 0 < (k : Int) + 1 := by omega
    simp only [hpos, ↓reduceIte, decide_eq_true_eq]
    refine ⟨by omega, by omega, ?_⟩
    omega

/-- created without a capacity: `Cap() == -1`, `Avail() == -1`, never full -/
theorem C03_getters_nocap (s : Stk) (h : s.cfg.cap = 0) : s.Cap = -1 ∧ s.Avail = -1 ∧ s.isFull = false := by
  have hc : IsLen (0 : Int) := by rw [isLen_iff]; omega
  have hl : (0 : Int) ≠ 0 → IsRawLen s.rawLen := fun c => absurd rfl c
  unfold Cap Avail isFull
  rw [h, GenSem.Cap _ hc, GenSem.Avail _ _ hc hl, GenSem.isFull _ _ hc hl]
  refine ⟨by simp, by simp, by simp⟩

/-- non-vacuity: a capacity-2 stack holding 2 elements is well-formed and full -/
example : ∃ s : Stk, s.WF ∧ s.cfg.cap = (2 : Nat) + 1 ∧ s.xs.length = 2 :=
  ⟨⟨{ kind := 1, cap := 3 }, [.nil, .leaf (.int 1)]⟩,
   ⟨by unfold SmallLen; rw [pow62]; simp, Or.inr ⟨by decide, by rw [pow62]; decide, by decide⟩⟩, rfl, rfl⟩

end Stk
end Stackage
