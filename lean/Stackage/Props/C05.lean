import Stackage.Lemmas.Equal
import Stackage.Lemmas.EqMutation

/-!
# C05 — IsEqual accepts equal trees and rejects any difference

`Val.IsEqual hook same a b` is the model of `a.IsEqual(b)` (`Model/Equal.lean`, transcribed from the repaired
stack.go / cond.go / misc.go): `.ok none` = nil error (equal), `.ok (some cls)` = an error, `.error .panic` = a panic.
`sameDesc a b` (`Spec/EqSpec.lean`) says "built from the same description", written from the README's rules.
`inDomain` is the property's domain: initialised stacks / conditions of any derivative form in default mode whose
leaves are primitives (no NaN), pointers to them at any depth, slices, arrays, maps and structs of such values.

The two residual defects this check found in the first round of repairs are repaired in `/repo` as well (K-C05-1: an
exported field opposite an unexported one is now "Struct field visibility mismatch" instead of a panic in
`Value.Interface()`, commit 3778de3; K-C05-2: a plain struct is never equal to a Stack / Condition on its right, commit
77dfc28). `inDomain` no longer excludes anything on their account and `C05_total` holds for every value.
-/

set_option linter.unusedSimpArgs false
set_option linter.unusedVariables false

namespace Stackage
open EqSpec EV

/-- **C05 (iff).** Inside the domain, `a.IsEqual(b)` returns nil exactly when `a` and `b` are built from the same
description. "→" is *rejects any difference* (soundness), "←" is *accepts the rebuilt copy* (completeness).
`same = false`: the two handles are different objects (the pointer short-cut does not apply). -/
theorem C05_iff (hook : EqHook) (a b : Val) (ha : a.isHandle = true) (hda : inDomain a = true) (hdb : inDomain b = true) :
    Val.IsEqual hook false a b = .ok none ↔ sameDesc a b = true :=
  Val.IsEqual_iff hook a b ha hda hdb

/-- soundness alone: whatever is not the same description is not accepted -/
theorem C05_rejects (hook : EqHook) (a b : Val) (ha : a.isHandle = true) (hda : inDomain a = true) (hdb : inDomain b = true)
    (h : sameDesc a b = false) : Val.IsEqual hook false a b ≠ .ok none := by
  intro he; rw [(C05_iff hook a b ha hda hdb).mp he] at h; simp at h

/-- **C05 (accepts the rebuilt copy).** An independently rebuilt copy — the same value, a different object — compares
equal. NaN leaves are excluded by `inDomain` (`C05_nan` shows they must be). -/
theorem C05_refl (hook : EqHook) (a : Val) (ha : a.isHandle = true) (hda : inDomain a = true) :
    Val.IsEqual hook false a a = .ok none :=
  (C05_iff hook a a ha hda hda).mpr (sameDesc_refl a hda)

/-- a NaN leaf is not equal to its own copy, in the specification and in the code alike (Go's `==`) -/
theorem C05_nan (hook : EqHook) (f : Form) (c : Cfg) (t : Nat) (v : Text) (hc : c.eqf = none) :
    sameDesc (.stk f c [.leaf (.ev (.prim t v true))]) (.stk f c [.leaf (.ev (.prim t v true))]) = false ∧
    Val.IsEqual hook false (.stk f c [.leaf (.ev (.prim t v true))]) (.stk f c [.leaf (.ev (.prim t v true))])
      = .ok (some .primMismatch) := by
  constructor
  · simp [sameDesc, sameVals, Leaf.toEV, sameEV, strip]
  · have h1 : stackHead c 1 c 1 = none := (stackHead_none_iff c c 1 1).mpr ⟨rfl, rfl, rfl⟩
    simp [Val.IsEqual, hc, h1, stkLoop, Val.veq, leafVeq, isStructAny, Val.converts, Val.isStack, Val.isCond, Leaf.toEV, Val.toEV, veq, sideAny, unbox, deref, scalarEq, isPrim, primEqual,
      xkind, kind]

/-- **C05 (same verdict both directions).** -/
theorem C05_symm (hook : EqHook) (a b : Val) (ha : a.isHandle = true) (hb : b.isHandle = true)
    (hda : inDomain a = true) (hdb : inDomain b = true) :
    Val.IsEqual hook false a b = .ok none ↔ Val.IsEqual hook false b a = .ok none := by
  rw [C05_iff hook a b ha hda hdb, C05_iff hook b a hb hdb hda]
  exact ⟨sameDesc_symm a b hda hdb, sameDesc_symm b a hdb hda⟩

/-! ## Point mutations -/

/-- **C05 (any single difference, at any depth of the tree, is rejected in both directions).**
`p` is a path through stack elements and condition expressions to a node `x`; `g x` replaces it. If `g x` is not the
same description as `x` then the mutated tree is not accepted, whichever side receives the call. This covers a changed
leaf, a nested stack of another kind or length, a condition with another keyword, operator or expression, … -/
theorem C05_point_mutation (hook : EqHook) (g : Val → Val) (p : List Nat) (a x : Val)
    (ha : a.isHandle = true) (hb : (Val.modifyAt g p a).isHandle = true)
    (hda : inDomain a = true) (hdb : inDomain (Val.modifyAt g p a) = true)
    (hx : Val.at? p a = some x) (h1 : sameDesc x (g x) = false) (h2 : sameDesc (g x) x = false) :
    Val.IsEqual hook false a (Val.modifyAt g p a) ≠ .ok none ∧
    Val.IsEqual hook false (Val.modifyAt g p a) a ≠ .ok none := by
  have h := sameDesc_modifyAt g p a x hx
  exact ⟨C05_rejects hook _ _ ha hda hdb (h.1 h1), C05_rejects hook _ _ hb hdb hda (h.2 h2)⟩

/-- **C05 (one element of a slice, array or map leaf, at any position, or any component at any depth inside a
leaf).** `p` leads to a leaf `e`, `q` leads inside it — through pointers, to the `i`-th element of a slice / array,
to the value of the `i`-th map entry, to an exported struct field — to a component `z`; replacing `z` by a `g z` that
is not the same makes the whole tree unequal, in both directions. No position is privileged: `i` is arbitrary. -/
theorem C05_point_mutation_leaf (hook : EqHook) (g : EV → EV) (p q : List Nat) (a : Val) (e z : EV)
    (ha : a.isHandle = true)
    (hb : (Val.modifyAt (fun _ => .leaf (.ev (EV.modifyAt g q e))) p a).isHandle = true)
    (hda : inDomain a = true)
    (hdb : inDomain (Val.modifyAt (fun _ => .leaf (.ev (EV.modifyAt g q e))) p a) = true)
    (hx : Val.at? p a = some (.leaf (.ev e))) (hq : EV.at? q e = some z)
    (h1 : sameEV z (g z) = false) (h2 : sameEV (g z) z = false) :
    Val.IsEqual hook false a (Val.modifyAt (fun _ => .leaf (.ev (EV.modifyAt g q e))) p a) ≠ .ok none ∧
    Val.IsEqual hook false (Val.modifyAt (fun _ => .leaf (.ev (EV.modifyAt g q e))) p a) a ≠ .ok none := by
  -- the leaf itself is in the domain because the tree is
  have hde : ∃ c, domEV c e = true := by
    have : ∀ (p : List Nat) (a : Val), inDomain a = true → Val.at? p a = some (.leaf (.ev e)) → domEV .top e = true := by
      intro p
      induction p with
      | nil =>
          intro a hd h
          simp only [Val.at?, Option.some.injEq] at h; subst h
          simp only [inDomain, Leaf.toEV] at hd; exact hd
      | cons i p ih =>
          intro a hd h
          simp only [Val.at?] at h
          cases hc : Val.child i a with
          | none => simp [hc] at h
          | some ch =>
            simp only [hc, Option.bind_some] at h
            refine ih ch ?_ h
            cases a with
            | stk f c xs =>
                simp only [Val.child] at hc
                simp only [inDomain, Bool.and_eq_true] at hd
                have hm := List.mem_of_getElem? hc
                have hl := hd.2
                clear hc hd h
                induction xs with
                | nil => simp at hm
                | cons y ys ihx =>
                  simp only [inDomainL, Bool.and_eq_true] at hl
                  rcases List.mem_cons.mp hm with e' | hm'
                  · rw [e']; exact hl.1
                  · exact ihx hm' hl.2
            | cnd f c kw op ex =>
                simp only [Val.child] at hc
                split at hc
                · simp only [Option.some.injEq] at hc; subst hc
                  simp only [inDomain, Bool.and_eq_true] at hd; exact hd.2
                · simp at hc
            | _ => simp [Val.child] at hc
    exact ⟨.top, this p a hda hx⟩
  obtain ⟨c, hdc⟩ := hde
  have hl := sameEV_modifyAt g q e z c hdc hq
  exact C05_point_mutation hook _ p a (.leaf (.ev e)) ha hb hda hdb hx
    (by simpa [sameDesc, Leaf.toEV] using hl.1 h1) (by simpa [sameDesc, Leaf.toEV] using hl.2 h2)

/-- what two stacks built from the same description share: kind, capacity, length —
so another kind, another capacity, an element more or fewer is a difference -/
theorem C05_same_stack (f f' : Form) (c c' : Cfg) (xs ys : List Val)
    (h : sameDesc (.stk f c xs) (.stk f' c' ys) = true) :
    c.kind = c'.kind ∧ c.cap = c'.cap ∧ xs.length = ys.length ∧
    ∀ (i : Nat) (x y : Val), xs[i]? = some x → ys[i]? = some y → sameDesc x y = true := by
  simp only [sameDesc, sameKind, Bool.and_eq_true, beq_iff_eq] at h
  exact ⟨h.1.2, h.1.1, sameVals_length xs ys h.2, sameVals_get xs ys h.2⟩

/-- what two conditions built from the same description share: keyword, presence, text and context of the operator,
expression — so another keyword or another operator is a difference -/
theorem C05_same_cond (f f' : Form) (c c' : Cfg) (kw kw' : Text) (op op' : Op) (ex ex' : Val)
    (h : sameDesc (.cnd f c kw op ex) (.cnd f' c' kw' op' ex') = true) :
    kw = kw' ∧ op.isNil = op'.isNil ∧ op.text = op'.text ∧ op.ctx = op'.ctx ∧ sameDesc ex ex' = true := by
  simp only [sameDesc, Bool.and_eq_true, beq_iff_eq] at h
  refine ⟨h.1.1, ?_, ?_, ?_, h.2⟩ <;>
    (have := h.1.2; cases op <;> cases op' <;> simp_all [sameOp, Op.isNil, Op.text, Op.ctx])

/-- swapping two siblings that are not the same is a difference -/
theorem C05_swap (f : Form) (c : Cfg) (xs : List Val) (i j : Nat) (u v : Val) (hij : i ≠ j)
    (hu : xs[i]? = some u) (hv : xs[j]? = some v) (h : sameDesc u v = false) :
    sameDesc (.stk f c xs) (.stk f c ((xs.set i v).set j u)) = false := by
  cases hs : sameDesc (.stk f c xs) (.stk f c ((xs.set i v).set j u)) with
  | false => rfl
  | true =>
    have hi : i < xs.length := by
      cases hd : decide (i < xs.length) with
      | true => simpa using hd
      | false =>
        have : xs.length ≤ i := by simpa using hd
        rw [List.getElem?_eq_none this] at hu; simp at hu
    have hg := (C05_same_stack f f c c xs _ hs).2.2.2 i u v hu (by
      rw [List.getElem?_set, if_neg (Ne.symm hij), List.getElem?_set]; simp [hi])
    rw [hg] at h; simp at h

/-- what two slices / arrays that are the same share: capacity, length, and every element, position by position -/
theorem C05_same_seq (a a' : Bool) (t t' c c' : Nat) (xs ys : List EV)
    (h : sameEV (.seq a t c xs) (.seq a' t' c' ys) = true) :
    c = c' ∧ xs.length = ys.length ∧ ∀ (i : Nat) (x y : EV), xs[i]? = some x → ys[i]? = some y → sameEV x y = true := by
  simp only [sameEV, strip, Bool.and_eq_true, beq_iff_eq] at h
  exact ⟨h.1, sameList_length xs ys h.2, sameList_get xs ys h.2⟩

/-- what two maps that are the same share: type, size, and every key of the first with a same value in the second —
so a different key set or a different value under any key is a difference -/
theorem C05_same_map (t t' : Nat) (ks vs ks' vs' : List EV) (hl : ks.length = vs.length)
    (h : sameEV (.map t ks vs) (.map t' ks' vs') = true) :
    t = t' ∧ ks.length = ks'.length ∧
    ∀ (i : Nat) (k v : EV), ks[i]? = some k → vs[i]? = some v → ∃ w, find k ks' vs' = some w ∧ sameEV v w = true := by
  simp only [sameEV, strip, Bool.and_eq_true, beq_iff_eq] at h
  refine ⟨h.1.1, h.1.2, ?_⟩
  intro i k v hk hv
  exact ((sameMap_iff ks' vs' ks vs hl).mp h.2) (k, v) (zip_getElem? ks vs i k v hk hv)

/-- unexported struct fields are skipped: their values do not enter the comparison -/
theorem C05_private_skipped (f : Fld) (fs : List Fld) (v v' : EV) (vs : List EV) (hf : f.exported = false) :
    sameFields (f :: fs) (v :: vs) (f :: fs) (v' :: vs) = sameFields fs vs fs vs := by
  simp [sameFields, hf]

/-! ## Never panics -/

/-- **C05 (never panics).** For every handle `a` (initialised or zero-valued), every argument `o` of the universe —
typed nils, structs with private or embedded fields of either visibility, maps with other key sets, nil operators, zero
instances, `[]any`, declared scalar types, NaN, functions, channels, anything — and every equality policy, `a.IsEqual(o)`
returns, with the pointer short-cut or without. `wfV` is only the representation invariant of the value encoding (the
parallel lists of a map or struct have equal length), true of every Go value and of everything the driver parses. -/
theorem C05_total (hook : EqHook) (same : Bool) (a o : Val) (ha : a.isHandle = true)
    (hwa : wfV a = true) (hwo : wfV o = true) : ∃ r, Val.IsEqual hook same a o = .ok r :=
  Val.IsEqual_total hook same a o ha hwa hwo

/-- the same for `valuesEqual` on two arbitrary slots (no handle required) -/
theorem C05_total_values (hook : EqHook) (x y : Val) (hx : wfV x = true) (hy : wfV y = true) :
    ∃ r, Val.veq hook x y = .ok r :=
  Val.veq_total hook x y hx hy

/-- the former counterexample (K-C05-1): `List().Push(struct{Emb}{…})` against `List().Push(And())` is now an error -/
example : Val.IsEqual (fun _ _ _ => none) false
    (.stk .native { kind := 4 } [.leaf (.ev (.struct 20 [⟨['E', 'm', 'b'], true, true⟩] [.struct 16 [⟨['X'], true, false⟩] [.prim 1 ['1'] false]]))])
    (.stk .native { kind := 4 } [.stk .native { kind := 1 } []]) = .ok (some .cannotConvert) := by rfl

/-- the former K-C05-2: `List().Push(struct{q int}{1})` against `List().Push(And())` is an error in both directions -/
example :
    Val.IsEqual (fun _ _ _ => none) false
      (.stk .native { kind := 4 } [.leaf (.ev (.struct 19 [⟨['q'], false, false⟩] [.prim 1 ['1'] false]))])
      (.stk .native { kind := 4 } [.stk .native { kind := 1 } []]) = .ok (some .cannotConvert) ∧
    Val.IsEqual (fun _ _ _ => none) false
      (.stk .native { kind := 4 } [.stk .native { kind := 1 } []])
      (.stk .native { kind := 4 } [.leaf (.ev (.struct 19 [⟨['q'], false, false⟩] [.prim 1 ['1'] false]))]) = .ok (some .cannotConvert) := by
  constructor <;> rfl

/-- a rejection is an error, not a panic -/
theorem C05_rejects_with_error (hook : EqHook) (a b : Val) (ha : a.isHandle = true)
    (hda : inDomain a = true) (hdb : inDomain b = true) (hwa : wfV a = true) (hwb : wfV b = true)
    (h : sameDesc a b = false) : ∃ e, Val.IsEqual hook false a b = .ok (some e) := by
  obtain ⟨r, hr⟩ := C05_total hook false a b ha hwa hwb
  cases r with
  | none => exact absurd hr (C05_rejects hook a b ha hda hdb h)
  | some e => exact ⟨e, hr⟩

/-- **C05 (a slice or array of Stacks / Conditions as a leaf).** After repair F33 the elements of a `[]Stack` /
`[]Condition` leaf are compared with `IsEqual` pair by pair (`handlesEqual`); inside the domain the leaf is accepted
exactly when the two lists are built from the same descriptions, position by position — so a difference in any
single element at any position is reported. -/
theorem C05_handles_iff (hook : EqHook) (as bs : List Val)
    (ha : ∀ a ∈ as, a.isHandle = true ∧ inDomain a = true) (hb : ∀ b ∈ bs, inDomain b = true) :
    handlesEqual hook as bs = true ↔ sameDescL as bs = true := by
  induction as generalizing bs with
  | nil => cases bs <;> simp [handlesEqual, sameDescL]
  | cons a as ih =>
    cases bs with
    | nil => simp [handlesEqual, sameDescL]
    | cons b bs =>
      have h1 := ha a (List.mem_cons_self ..)
      have h2 := hb b (List.mem_cons_self ..)
      have hi := C05_iff hook a b h1.1 h1.2 h2
      have ih' := ih bs (fun x hx => ha x (List.mem_cons_of_mem _ hx)) (fun x hx => hb x (List.mem_cons_of_mem _ hx))
      simp only [handlesEqual, sameDescL, Bool.and_eq_true, ih']
      constructor
      · rintro ⟨h, ht⟩
        refine ⟨hi.mp ?_, ht⟩
        split at h <;> simp_all
      · rintro ⟨h, ht⟩
        exact ⟨by rw [hi.mpr h], ht⟩

/-- `[]Stack{Or("a")}` against `[]Stack{Or("b")}`: a difference (the defect repaired by F33 accepted it) -/
example : handlesEqual (fun _ _ _ => none) [.stk .native { kind := 2 } [.leaf (.ev (.prim 16 ['a'] false))]]
    [.stk .native { kind := 2 } [.leaf (.ev (.prim 16 ['b'] false))]] = false := by
  decide

/-! ## The hypotheses are satisfiable by non-trivial states -/

/-- `And().Push([]int{1,2,3}, &S{A: 7, b: 8}, Cond("kw", Eq, map[string]int{"a": 1}))` is in the domain and well-formed -/
example :
    let a : Val := .stk .native { kind := 1 }
      [.leaf (.ev (.seq false 1 3 [.prim 1 ['1'] false, .prim 1 ['2'] false, .prim 1 ['3'] false])),
       .leaf (.ev (.ptr 0 (.struct 2 [⟨['A'], true, false⟩, ⟨['b'], false, false⟩] [.prim 1 ['7'] false, .prim 1 ['8'] false]))),
       .cnd .native { kind := 5 } ['k', 'w'] (.cmp 1) (.leaf (.ev (.map 1 [.prim 16 ['a'] false] [.prim 1 ['1'] false])))]
    a.isHandle = true ∧ inDomain a = true ∧ wfV a = true := by
  decide

/-- the historical defect: `[1 2 3]` against `[1 2 4]` is a difference (last position of a slice leaf) -/
example : sameEV (.seq false 1 3 [.prim 1 ['1'] false, .prim 1 ['2'] false, .prim 1 ['3'] false])
    (.seq false 1 3 [.prim 1 ['1'] false, .prim 1 ['2'] false, .prim 1 ['4'] false]) = false := by
  decide

end Stackage
