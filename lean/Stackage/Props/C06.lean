import Stackage.Lemmas.GenSem
import Stackage.Model.Cond

/-!
# C06 — a Condition holds exactly what it accepted, and validity gates its rendering
(also the Condition part of C13)

All model functions here are total (no `Except`): every setter call returns normally for every
argument — nil operator, empty texts, nil / empty / wrong-typed expressions included.
-/

set_option linter.unusedSimpArgs false
namespace Stackage
namespace Cnd

/-! ## what is rejected, in the words of the property -/

/-- rejected operator: nil, or empty text, or empty context -/
def OpRejected (o : Op) : Prop := o = .none ∨ o.text = [] ∨ o.ctx = []

/-- rejected expression: nil, the empty string, a Stack while no-nesting is set, anything while `Err()` is non-nil -/
def ExRejected (c : Cnd) (v : Val) : Prop :=
  v = .nil ∨ v = .leaf (.str []) ∨ (v.isStack = true ∧ c.noNest = true) ∨ c.cfg.err ≠ none

theorem opAccepted_iff (o : Op) : opAccepted o = true ↔ ¬ OpRejected o := by
  unfold opAccepted OpRejected
  cases o with
  | none => simp
  | cmp code => simp [List.isEmpty_iff, And.comm]
  | user id s c => simp [List.isEmpty_iff, And.comm]

theorem exAccepted_iff (c : Cnd) (v : Val) : c.exAccepted v = true ↔ ¬ ExRejected c v := by
  unfold exAccepted ExRejected
  cases v with
  | nil => simp
  | leaf l =>
    cases l with
    | str s =>
      cases s with
      | nil => simp
      | cons a t => simp [Val.isStack, Option.isNone_iff_eq_none]
    | _ => simp [Val.isStack, Option.isNone_iff_eq_none]
  | stk f c' xs => simp [Val.isStack, Option.isNone_iff_eq_none]
  | _ => simp [Val.isStack, Option.isNone_iff_eq_none]

/-- a rejected operator leaves keyword, operator and expression in place -/
theorem C06_rejected_op (c : Cnd) (o : Op) (h : OpRejected o) : c.apply (.setOperator o) = c := by
  have : opAccepted o = false := by
    cases hb : opAccepted o
    · rfl
    · exact absurd h ((opAccepted_iff o).mp hb)
  simp [apply, setOperator, this]

/-- an accepted operator is what `Operator()` returns afterwards (unless read-only) -/
theorem C06_accepted_op (c : Cnd) (o : Op) (h : ¬ OpRejected o) (hr : c.readOnly = false) :
    (c.apply (.setOperator o)).op = o ∧ (c.apply (.setOperator o)).kw = c.kw ∧ (c.apply (.setOperator o)).ex = c.ex := by
  have : opAccepted o = true := (opAccepted_iff o).mpr h
  simp [apply, setOperator, this, hr]

theorem C06_rejected_ex (c : Cnd) (v : Val) (h : ExRejected c v) : c.apply (.setExpression v) = c := by
  have : c.exAccepted v = false := by
    cases hb : c.exAccepted v
    · rfl
    · exact absurd h ((exAccepted_iff c v).mp hb)
  simp [apply, setExpression, this]

theorem C06_accepted_ex (c : Cnd) (v : Val) (h : ¬ ExRejected c v) (hr : c.readOnly = false) :
    (c.apply (.setExpression v)).ex = v ∧ (c.apply (.setExpression v)).kw = c.kw ∧ (c.apply (.setExpression v)).op = c.op := by
  have : c.exAccepted v = true := (exAccepted_iff c v).mpr h
  simp [apply, setExpression, this, hr]

/-- a keyword argument that is neither a string nor a stringer leaves the keyword in place -/
theorem C06_rejected_kw (c : Cnd) (v : Val) (h : kwOf v = none) : c.apply (.setKeyword v) = c := by
  simp [apply, setKeyword, h]

theorem C06_accepted_kw (c : Cnd) (v : Val) (t : Text) (h : kwOf v = some t) (hr : c.readOnly = false) :
    (c.apply (.setKeyword v)).kw = t ∧ (c.apply (.setKeyword v)).op = c.op ∧ (c.apply (.setKeyword v)).ex = c.ex := by
  simp [apply, setKeyword, h, hr]

/-! ## the other calls never touch the three parts; `Init` replaces the instance

Each theorem above and below is for an arbitrary state `c` — i.e. for the state reached by
any history of calls — so together they determine `Keyword/Operator/Expression` after every
history: the most recently accepted argument of each kind. -/

theorem C06_options_keep (c : Cnd) (op : CondOp)
    (h : match op with | .setState _ _ | .setEncapOne _ | .setEncapPair _ _ | .setEncapNone | .setErr _ => True | _ => False) :
    (c.apply op).kw = c.kw ∧ (c.apply op).op = c.op ∧ (c.apply op).ex = c.ex := by
  cases op <;> simp_all [apply] <;> (repeat' split) <;> simp

theorem C06_init (c : Cnd) : c.apply .init = init := rfl

/-- read-only: the three setters change nothing -/
theorem C06_readonly (c : Cnd) (hr : c.readOnly = true) (v : Val) (o : Op) :
    c.apply (.setKeyword v) = c ∧ c.apply (.setOperator o) = c ∧ c.apply (.setExpression v) = c := by
  simp [apply, hr]

/-- a run of calls, as a fold; the per-call theorems apply at every point of it -/
theorem C06_run_snoc (c : Cnd) (ops : List CondOp) (op : CondOp) : c.run (ops ++ [op]) = (c.run ops).apply op := by
  simp [run, List.foldl_append]

/-! ## Valid -/

/-- `Valid()` is nil exactly when the keyword is non-empty, an operator is present (a built-in
comparison operator must be one of the six defined) and the expression is non-nil -/
theorem C06_valid (K : Closures) (c : Cnd) (hv : c.cfg.vpf = none) :
    c.valid K = none ↔
      c.kw ≠ [] ∧ c.op ≠ .none ∧ (∀ code, c.op = .cmp code → 1 ≤ code ∧ code ≤ 6) ∧ c.ex ≠ .nil := by
  unfold valid; rw [hv]
  have hnil : ∀ v : Val, v.isNil = true ↔ v = .nil := by intro v; cases v <;> simp [Val.isNil]
  by_cases hk : c.kw = []
  · simp [hk]
  · have hk' : c.kw.isEmpty = false := by simpa [List.isEmpty_iff] using hk
    simp only [hk', Bool.false_eq_true, ↓reduceIte, ne_eq, hk, not_false_eq_true, true_and]
    cases hop : c.op with
    | none => simp
    | user id s x =>
      by_cases he : c.ex.isNil = true
      · have := (hnil c.ex).mp he; simp [this, Val.isNil]
      · have h2 : c.ex ≠ .nil := fun h => he ((hnil c.ex).mpr h)
        simp [he, h2]
    | cmp code =>
      have hb : Gen.cond_op_bogus { assert := code } = true ↔ ¬ (1 ≤ code ∧ code ≤ 6) := by
        rw [GenSem.cond_op_bogus, decide_eq_true_eq]
      by_cases hbog : Gen.cond_op_bogus { assert := code } = true
      · have := hb.mp hbog
        simp only [hbog, ↓reduceIte, reduceCtorEq, not_false_eq_true, Op.cmp.injEq, forall_eq', true_and, false_iff, not_and]
        intro h; exact absurd h this
      · have hok : 1 ≤ code ∧ code ≤ 6 := by
          by_cases h : 1 ≤ code ∧ code ≤ 6
          · exact h
          · exact absurd (hb.mpr h) hbog
        have hbog' : Gen.cond_op_bogus { assert := code } = false := by simpa using hbog
        by_cases he : c.ex.isNil = true
        · have := (hnil c.ex).mp he; simp [hbog', this, Val.isNil]
        · have h2 : c.ex ≠ .nil := fun h => he ((hnil c.ex).mpr h)
          simp [hbog', he, h2, hok]

theorem condValid_eq (K : Closures) (c : Cnd) : condValid K c.cfg c.kw c.op c.ex = (c.valid K).isNone := by
  unfold condValid valid
  cases c.cfg.vpf with
  | some p => rfl
  | none =>
    simp only
    cases hk : c.kw.isEmpty
    · cases c.op with
      | none => simp
      | user id s x => cases c.ex.isNil <;> simp
      | cmp code =>
        cases hb : Gen.cond_op_bogus { assert := code } <;> cases he : c.ex.isNil <;> simp [hb, he]
    · simp

theorem setters_cfg (kw : Val) (o : Op) (ex : Val) :
    (((init.setKeyword kw).setOperator o).setExpression ex).cfg = init.cfg := by
  unfold setExpression setOperator setKeyword
  repeat' split
  all_goals rfl

/-- `Cond(...)` records the validity error in `Err()` (and only then) -/
theorem C06_cond_err (K : Closures) (kw : Val) (o : Op) (ex : Val) :
    ((cond K kw o ex).cfg.err = none) ↔ ((((init.setKeyword kw).setOperator o).setExpression ex).valid K = none) := by
  unfold cond
  generalize hc : ((init.setKeyword kw).setOperator o).setExpression ex = c0
  have hcfg : c0.cfg.err = none := by rw [← hc, setters_cfg]; rfl
  cases h : c0.valid K with
  | none => simp [h, hcfg]
  | some e => simp [h]

/-! ## String -/

/-- `String()` is empty exactly when `Valid()` is not nil -/
theorem C06_string_empty (K : Closures) (c : Cnd) (hr : c.cfg.rpf = none) (hv : c.cfg.vpf = none) :
    c.string K = [] ↔ c.valid K ≠ none := by
  unfold string condString
  rw [condValid_eq]
  cases h : c.valid K with
  | some e => simp
  | none =>
    have hk : c.kw ≠ [] := ((C06_valid K c hv).mp h).1
    simp only [Option.isNone_none, ↓reduceIte, ne_eq, not_true_eq_false, iff_false]
    unfold condAssemble; rw [hr]
    simp only
    split
    · simp
    · intro hcon
      have : c.kw = [] := by
        have := congrArg List.length hcon
        simp only [List.length_append, List.length_nil] at this
        exact List.eq_nil_of_length_eq_zero (by omega)
      exact hk this

/-- otherwise it is keyword, operator text and the encapsulated expression rendering separated by
single blanks (none under no-padding), parenthesised iff requested -/
theorem C06_string (K : Closures) (c : Cnd) (hr : c.cfg.rpf = none) (h : c.valid K = none) :
    c.string K =
      (let pad : Text := if c.cfg.nspad then [] else [' ']
       let body := c.kw ++ pad ++ c.op.text ++ pad ++ encapValue c.cfg.enc (exprRaw K c.ex)
       if c.cfg.paren then ['('] ++ pad ++ body ++ pad ++ [')'] else body) := by
  unfold string condString
  rw [condValid_eq, h]
  simp only [Option.isNone_none, ↓reduceIte]
  unfold condAssemble; rw [hr]

/-! ## C13, Condition part -/

/-- while no-nesting is set, `SetExpression` refuses a Stack (any form) and keeps the previous expression -/
theorem C13_cond_refuses (c : Cnd) (v : Val) (hs : v.isStack = true) (hn : c.noNest = true) :
    c.apply (.setExpression v) = c :=
  C06_rejected_ex c v (Or.inr (Or.inr (Or.inl ⟨hs, hn⟩)))

/-- `CanNest()` is true exactly when a nested Stack would currently be accepted as expression -/
theorem C13_cond_canNest (c : Cnd) (f : Form) (cf : Cfg) (xs : List Val) (he : c.cfg.err = none) :
    c.CanNest = c.exAccepted (.stk f cf xs) := by
  unfold CanNest exAccepted
  simp [Val.isStack, he]

/-- `IsNesting()` is true exactly when the expression is a Stack or Stack alias -/
theorem C13_cond_isNesting (c : Cnd) : c.IsNesting = true ↔ ∃ f cf xs, c.ex = .stk f cf xs := by
  unfold IsNesting
  cases h : c.ex <;> simp [Val.isStack]

/-- switching the option never affects the expression already present -/
theorem C13_cond_toggle (c : Cnd) (st : Option Bool) : (c.apply (.setState Gen.flag_nnest st)).ex = c.ex := rfl

example : ∃ c : Cnd, c.valid {} = none ∧ c.cfg.rpf = none ∧ c.cfg.vpf = none :=
  ⟨{ cfg := { kind := 5 }, kw := ['k'], op := .cmp 1, ex := .leaf (.int 1) }, by decide, rfl, rfl⟩

end Cnd
end Stackage
