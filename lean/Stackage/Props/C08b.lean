import Stackage.Props.C08
import Stackage.Props.C05
import Stackage.Props.C07
import Stackage.Props.C12
import Stackage.Props.C15
import Stackage.Props.C16
import Stackage.Props.C19
import Stackage.Props.C20

/-!
# C08 — no index and no element value can panic or corrupt a Stack (value part)

`Props/C08.lean` covers the index half of the property. This file names, method by method, the totality
theorems proved for the other properties about every method that takes an `any` (or works on whatever
values the stack holds), so that the C08 obligation list is the whole property: each `C08_value_<method>`
is *proved by* the cited theorem, so a change that breaks one of them breaks C08 as well.

The value universe is `Val` (`Model/Val.lean`): nil, primitives, stringers, opaque values (functions,
channels, structs, maps, typed nils, …), values described as far as `reflect` sees them (`Leaf.ev`),
Stacks and Conditions in every derivative form, zero-valued instances, `[]any` and bare operators.
Every statement below quantifies over *all* of it; the only side conditions are representation
invariants true of every Go value (slice lengths below 2^62, 64-bit ints, parallel lists of equal length).
-/

set_option linter.unusedVariables false
namespace Stackage
open ListSpec EqSpec EV Tree RevealHeap

/-! ## value part -/

/-- **Push** of any values: returns normally, configuration kept, stack well-formed (`C08_total`) -/
theorem C08_value_push (interp : Nat → Val → Option Nat) (s : Stk) (vs : List Val)
    (hwf : s.WF) (hnp : s.cfg.ppf = none) (hlen : SmallLen (s.xs.length + vs.length)) :
    ∃ s' out, s.apply interp (.push vs) = .ok (s', out) ∧ s'.cfg = s.cfg ∧ s'.WF :=
  Stk.C08_total interp s (.push vs) hwf hnp hlen

/-- **Insert** of any value at any 64-bit index (`C08_total`) -/
theorem C08_value_insert (interp : Nat → Val → Option Nat) (s : Stk) (x : Val) (i : Int)
    (hwf : s.WF) (hnp : s.cfg.ppf = none) (hi : InInt i) (hlen : SmallLen (s.xs.length + 1)) :
    ∃ s' out, s.apply interp (.insert x i) = .ok (s', out) ∧ s'.cfg = s.cfg ∧ s'.WF :=
  Stk.C08_total interp s (.insert x i) hwf hnp ⟨hi, hlen⟩

/-- **Replace** by any value at any 64-bit index (`C08_total`) -/
theorem C08_value_replace (interp : Nat → Val → Option Nat) (s : Stk) (x : Val) (i : Int)
    (hwf : s.WF) (hnp : s.cfg.ppf = none) (hi : InInt i) :
    ∃ s' out, s.apply interp (.replace x i) = .ok (s', out) ∧ s'.cfg = s.cfg ∧ s'.WF :=
  Stk.C08_total interp s (.replace x i) hwf hnp hi

/-- **IsEqual** with any argument, on any receiver (initialised or zero), with or without an equality
policy, with the pointer short-cut or without: returns (`C05_total`) -/
theorem C08_value_isEqual (hook : EqHook) (same : Bool) (a o : Val) (ha : a.isHandle = true)
    (hwa : wfV a = true) (hwo : wfV o = true) : ∃ r, Val.IsEqual hook same a o = .ok r :=
  C05_total hook same a o ha hwa hwo

/-- … and so does the comparison of two arbitrary slots / expressions (`C05_total_values`) -/
theorem C08_value_valuesEqual (hook : EqHook) (x y : Val) (hx : wfV x = true) (hy : wfV y = true) :
    ∃ r, Val.veq hook x y = .ok r :=
  C05_total_values hook x y hx hy

/-- **Defrag** whatever the stack holds, for any limit: terminates, never faults, configuration kept
except for `Err` (`C19_terminates`) -/
theorem C08_value_defrag (s : Stk) (hs : SmallLen s.xs.length) (max : Int) :
    ∃ s', s.defrag max = .ok s' ∧ (s'.cfg = s.cfg ∨ ∃ e, s'.cfg = { s.cfg with err := e }) :=
  Stk.C19_terminates s hs max

/-- **Reveal** on any tree: returns (`C20_tree_returns`) … -/
theorem C08_value_reveal (t : Val) (hs : smallTree t) :
    ∃ t', RevealTree (((ofTree t).2.length + 1) * K) t = .ok t' :=
  C20_tree_returns t hs

/-- … and on any well-formed heap, with any fuel, never panics and never takes a lock it holds
(`C20_no_panic`, `C20_no_deadlock`) -/
theorem C08_value_reveal_safe (fuel : Nat) (H : Heap) (root : Nat) (hwf : WF H) :
    Reveal fuel H root ≠ .error .panic ∧ Reveal fuel H root ≠ .error .deadlock :=
  ⟨C20_no_panic fuel H root hwf, C20_no_deadlock fuel H root hwf⟩

/-- **Marshal** of any input into any receiver: an error or an initialised receiver, never neither
(`C16_outcome`; `marshalInto` is a total function of the model, so there is no fault to exclude) -/
theorem C08_value_marshal (interp : Nat → Val → Option Nat) (recv : Option Stk) (input : List Val) :
    (marshalInto interp recv input).2.isSome ∨ (marshalInto interp recv input).1.isSome :=
  C16_outcome interp recv input

/-- **Traverse** along any path of 64-bit indices through whatever the tree holds: returns, with the
value the specification names (`C07_traverse`) -/
theorem C08_value_traverse (K : Closures) (p : List Int) (s : Stk)
    (hs : (s.xs.length : Int) < 2^62) (hd : deepSmallList s.xs = true) (hp : ∀ i ∈ p, InInt i) :
    s.traverse K p = .ok (descent K s p) :=
  Stk.C07_traverse K p s hs hd hp

/-- **Transfer** into anything that is not an initialised Stack (nil, a zero instance, a Condition, a
`[]any`, any leaf): false, destination untouched (`C15_bad_dest_other`) -/
theorem C08_value_transfer (interp : Nat → Val → Option Nat) (s : Stk) (d : Val) (h : d.isStack = false) :
    s.Transfer interp d = (d, false) :=
  Stk.C15_bad_dest_other interp s d h

/-- the **converters** on anything that is not an initialised Stack: nothing (`C12_convert_none`) … -/
theorem C08_value_convert (v : Val) (h : v.isStack = false) : convertStack v = none :=
  C12_convert_none v h

/-- … in particular on nil and on zero-valued instances, for both converters (`C12_convert_zero`) -/
theorem C08_value_convert_zero (f : Form) : convertStack (.zstk f) = none ∧ convertCondition (.zcnd f) = none ∧
    convertStack .nil = none ∧ convertCondition .nil = none :=
  C12_convert_zero f

end Stackage
