import Stackage.Lemmas.Defrag

/-!
# C19 — Defrag removes every nil gap and nothing else

`Stk.Defrag` / `Stk.defrag` (`Model/Defrag.lean`) follow `Stack.Defrag`, `stack.defrag`,
`stack.implode`, `stack.verifyImplode` with the regenerated guards; `DefragSpec.compact` is the
specification (filter out nil, recursively, no error).

The property as stated (`C19_statement`) is **false of the code** (`C19_counterexample`): the code
is left as it is because `TestDefrag_experimental_001` pins its result. What is proved instead:

* `C19_terminates`        – `defrag` never panics and its unbounded `for` loop terminates;
* `C19_nofrag`            – a stack without nil elements is left untouched;
* `C19_partial_perm`      – the values after `defrag` are a sub-sequence, in order, of the values before
                            (nothing is reordered, duplicated or invented) — no hypothesis on the pattern;
* `C19_partial_exact`     – `DefragOK` (closed form, decidable) is *exactly* the class of inputs on which
                            the result is the specified one; its complement is the known-finding class;
* `C19_partial_shape`     – when the loop reaches every value the result is a prefix of
                            "all values, then all nils", cut at `2·k − 3 − L`.

* `C19_partial_tree`      – nested Stacks / Condition expressions: if every stack of the tree is
                            read-only or in `DefragOK` with the recursion gate open, the whole
                            tree comes out as specified (sufficient condition; the *necessity* at
                            tree level is not proved — the driver evaluates the tree-level class
                            `DefragSpec.classTags` and the correspondence run checks it).
-/

set_option linter.unusedSimpArgs false
set_option linter.unusedVariables false
namespace Stackage
open DefragSpec
namespace Stk

/-! ## The full statement -/

mutual
/-- the property's quantifier, for one element: every stack below has nil runs shorter than the
scan limit, a Go-sized length, and no error recorded beforehand -/
def InScopeV (max : Int) : Val → Prop
  | .stk _ c xs => RunsShorter max xs ∧ SmallLen xs.length ∧ c.err = none ∧ InScopeL max xs
  | .cnd _ _ _ _ ex => InScopeV max ex
  | _ => True
def InScopeL (max : Int) : List Val → Prop
  | [] => True
  | v :: r => InScopeV max v ∧ InScopeL max r
end

/-- **C19 as stated.** After `Defrag(max...)` on a stack whose runs of consecutive nils are shorter
than the scan limit (at every level), the stack is exactly `compact`: its former non-nil elements in
their former order, no nil, `Err() == nil`, nested stacks (direct elements or the expression of a
Condition) compacted the same way, and a stack without nil elements is unchanged. -/
def C19_statement : Prop :=
  ∀ (s : Stk) (args : List Int) (fuel : Nat), (∀ a ∈ args, InInt a) → s.depth < fuel →
    InScopeV (defragMax args) (.stk .native s.cfg s.xs) →
    s.Defrag fuel args = .ok (compact s)

/-- the witness: `List().Push("a", nil, "b", nil, "c")` -/
def witness : Stk := ⟨{ kind := 4 }, [.leaf (.str ['a']), .nil, .leaf (.str ['b']), .nil, .leaf (.str ['c'])]⟩

/-- what the code does with it: `Defrag()` leaves the empty stack (`Len() == 0`) -/
theorem witness_result : witness.Defrag 2 [] = .ok ⟨{ kind := 4 }, []⟩ := by rfl

/-- **C19 does not hold of the code.** -/
theorem C19_counterexample : ¬ C19_statement := by
  intro h
  have hw := h witness [] 2 (by intro a ha; cases ha) (by decide)
    (by
      simp only [InScopeV]
      refine ⟨?_, ?_, rfl, ?_⟩
      · unfold RunsShorter; decide
      · unfold SmallLen; rw [pow62]; decide
      · simp [witness, InScopeL, InScopeV])
  rw [witness_result] at hw
  have := congrArg (fun r => match r with | Except.ok (t : Stk) => t.xs.length | Except.error _ => 0) hw
  have hro : Gen.cfgFlag_positive 0 Gen.flag_ronly = false := by decide
  simp [compact, witness, readOnly, flag, compactL, Val.isNil, compactV, hro] at this

/-! ## What does hold -/

/-- **`stack.defrag` always returns**: no index panic, no access to the configuration slot, and
the `for { … }` loop of `implode` terminates (the fuel `implodeFuel` is never exhausted).
The result keeps the configuration except for `Err`. -/
theorem C19_terminates (s : Stk) (hs : SmallLen s.xs.length) (max : Int) :
    ∃ s', s.defrag max = .ok s' ∧ (s'.cfg = s.cfg ∨ ∃ e, s'.cfg = { s.cfg with err := e }) := by
  cases hany : s.xs.any Val.isNil
  · rcases defrag_nonil s hs max hany with h | h
    · exact ⟨_, h, Or.inl rfl⟩
    · exact ⟨_, h, Or.inr ⟨none, rfl⟩⟩
  · obtain ⟨pre, r, hx, hp, _⟩ := split_firstNil s.xs hany
    by_cases hm : max ≤ (pre.length : Int)
    · obtain ⟨T', hT1, hT2, hd⟩ := defrag_gap s hs max pre r hx hp
      rw [hd]; simp only [hm, ↓reduceIte]
      exact ⟨s, rfl, Or.inl rfl⟩
    · obtain ⟨m, h⟩ := defrag_gap_take s hs max pre r hx hp hm
      exact ⟨_, h, Or.inr ⟨_, rfl⟩⟩

/-- **C19, last clause: a stack without nil elements is left untouched** (elements, order, length);
the configuration is unchanged too, except that a previously recorded `Err` may be cleared. -/
theorem C19_nofrag (s : Stk) (hs : SmallLen s.xs.length) (max : Int) (h : s.xs.any Val.isNil = false) :
    ∃ s', s.defrag max = .ok s' ∧ s'.xs = s.xs ∧ (s.cfg.err = none → s' = s) ∧
      (s'.cfg = s.cfg ∨ s'.cfg = { s.cfg with err := none }) := by
  rcases defrag_nonil s hs max h with h | h
  · exact ⟨_, h, rfl, fun _ => rfl, Or.inl rfl⟩
  · refine ⟨_, h, rfl, ?_, Or.inr rfl⟩
    intro he
    cases s with | mk c xs => cases c; simp_all

/-- the exported method on a stack without nils and without nested stacks: nothing changes, `Err` stays nil -/
theorem C19_nofrag_Defrag (s : Stk) (hs : SmallLen s.xs.length) (args : List Int) (fuel : Nat)
    (h : s.xs.any Val.isNil = false) (he : s.cfg.err = none) (hn : s.IsNesting = false) :
    s.Defrag (fuel + 1) args = .ok s := by
  obtain ⟨s', h1, h2, h3, _⟩ := C19_nofrag s hs (defragMax args) h
  have := h3 he
  subst this
  unfold Defrag
  split
  · rfl
  · simp [h1, bind, Except.bind, hn]

/-- **Values are never reordered, duplicated or invented.** Whatever the nil pattern, the scan
limit and the index options: the non-nil elements after `defrag` are a sub-sequence, in order,
of the non-nil elements before. (What can go wrong is only *loss* and *left-over nils*.) -/
theorem C19_partial_perm (s s' : Stk) (hs : SmallLen s.xs.length) (max : Int) (h : s.defrag max = .ok s') :
    (s'.xs.filter nonNil).Sublist (s.xs.filter nonNil) := by
  cases hany : s.xs.any Val.isNil
  · obtain ⟨s'', h1, h2, _⟩ := C19_nofrag s hs max hany
    rw [h] at h1; injection h1 with h1; subst h1; rw [h2]; exact List.Sublist.refl _
  · obtain ⟨pre, r, hx, hp, _⟩ := split_firstNil s.xs hany
    have hxf : s.xs.filter nonNil = (pre ++ r).filter nonNil := by
      rw [hx]; simp [nonNil, Val.isNil]
    by_cases hm : max ≤ (pre.length : Int)
    · obtain ⟨T', hT1, hT2, hd⟩ := defrag_gap s hs max pre r hx hp
      rw [hd] at h; simp only [hm, ↓reduceIte] at h
      injection h with h; subst h; exact List.Sublist.refl _
    · obtain ⟨m, hd⟩ := defrag_gap_take s hs max pre r hx hp hm
      rw [hd] at h
      injection h with h; subst h
      simp only
      rw [hxf, ← walk_filter max r pre 1 (true :: List.replicate s.xs.length false)]
      exact (List.take_sublist _ _).filter _

/-- **The exact success class.** For a stack that carries no error beforehand, `DefragOK`
(`Spec/DefragSpec.lean`: closed form over the nil pattern, the scan limit and the forward-index
option) holds *if and only if* `defrag` produces the specified result: exactly the former non-nil
elements in order, and `Err() == nil`. Every input outside `DefragOK` is therefore a genuine
failure of the code (known-finding class `C19.NotDefragOK`), and the model's output for it is what
the correspondence run compares the real `Defrag` against. -/
theorem C19_partial_exact (s : Stk) (hs : SmallLen s.xs.length) (max : Int) (he : s.cfg.err = none) :
    DefragOK (s.flag Gen.flag_fwdidx) max s.xs = true ↔
      ∃ s', s.defrag max = .ok s' ∧ s'.xs = compact1 s.xs ∧ s'.cfg.err = none := by
  cases hany : s.xs.any Val.isNil
  · have hok : DefragOK (s.flag Gen.flag_fwdidx) max s.xs = true := by simp [DefragOK, hany]
    obtain ⟨s', h1, h2, h3, _⟩ := C19_nofrag s hs max hany
    have := h3 he; subst this
    simp only [hok, true_iff]
    exact ⟨_, h1, by unfold compact1; rw [filter_nilfree _ (all_nonNil_of_any _ hany)], he⟩
  · obtain ⟨pre, r, hx, hp, _⟩ := split_firstNil s.xs hany
    have hL : s.xs.length = pre.length + 1 + r.length := by rw [hx]; simp; omega
    have hsm := small_int hs
    have hcg := compact1_gap pre r hp
    have hFl : (pre ++ r.filter nonNil).length + nilCount r = pre.length + r.length := by
      have := filter_len_add_nilCount r; simp only [List.length_append]; omega
    have hend : s.endBit = (s.flag Gen.flag_fwdidx && endLast s.xs) := rfl
    conv => lhs; rw [hx, DefragOK_gap _ _ _ _ hp]
    rw [← hx]
    constructor
    · intro h
      simp only [Bool.and_eq_true, decide_eq_true_eq, Bool.not_eq_eq_eq_not, Bool.not_true] at h
      obtain ⟨⟨c1, c2⟩, c3⟩ := h
      cases hl : lastNonNil r with
      | none => simp [hl] at c3
      | some j =>
        simp only [hl] at c3
        simp only [Bool.and_eq_true, decide_eq_true_eq, beq_iff_eq] at c3
        obtain ⟨c3a, c3b⟩ := c3
        have hj := (lastNonNil_spec r j hl).1
        have hm : ¬ max ≤ (pre.length : Int) := by omega
        have hc : walkCompact max 1 r = true := (walkCompact_iff max r 1).mpr (Or.inr c3a)
        have hd := defrag_gap_compact s hs max pre r hx hp hm hc
        rw [hend, c2] at hd
        simp only [hl, Bool.false_eq_true, ↓reduceIte] at hd
        have hWl : (pre ++ List.filter nonNil r ++ List.replicate (1 + nilCount r) Val.nil).length = s.xs.length := by
          simp only [List.length_append, List.length_replicate] at *; omega
        rw [finish_eq _ _ (by rw [hWl]; exact hs) _ _ (by omega) (by rw [hWl]; omega)] at hd
        refine ⟨_, hd, ?_, rfl⟩
        have hge : (0:Int) ≤ 2 * ((pre.length + 1 + j : Nat) : Int) - 3 - (s.xs.length : Int) := by
          simp only [List.length_append] at hFl; omega
        simp only [hge, and_self, ↓reduceIte]
        rw [show compact1 s.xs = pre ++ r.filter nonNil from by rw [hx]; exact hcg]
        apply List.take_left'
        simp only [List.length_append] at hFl ⊢
        omega
    · rintro ⟨s', hd, hxs, herr⟩
      by_cases hm : max ≤ (pre.length : Int)
      · obtain ⟨T', _, _, hdd⟩ := defrag_gap s hs max pre r hx hp
        rw [hdd] at hd; simp only [hm, ↓reduceIte] at hd
        injection hd with hd; subst hd
        have := congrArg List.length hxs
        rw [hx] at this; rw [hcg] at this
        simp only [List.length_append, List.length_cons] at this hFl
        have := filter_len_add_nilCount r
        omega
      · obtain ⟨m, hdd⟩ := defrag_gap_take s hs max pre r hx hp hm
        have hdd0 := hdd
        rw [hd] at hdd; injection hdd with hdd; subst hdd
        simp only at hxs herr
        have hend0 : s.endBit = false := by
          cases hb : s.endBit
          · rfl
          · rw [hb] at herr; simp at herr
        rw [hx, hcg, ← hx] at hxs
        by_cases hc : walkCompact max 1 r = true
        · have hd2 := defrag_gap_compact s hs max pre r hx hp hm hc
          rw [hend0] at hd2
          simp only [Bool.false_eq_true, ↓reduceIte] at hd2
          have hWl : (pre ++ List.filter nonNil r ++ List.replicate (1 + nilCount r) Val.nil).length = s.xs.length := by
            simp only [List.length_append, List.length_replicate] at *; omega
          cases hl : lastNonNil r with
          | none =>
            simp only [hl] at hd2
            rw [finish_eq _ _ (by rw [hWl]; exact hs) _ _ (by omega) (by rw [hWl]; omega)] at hd2
            rw [hd] at hd2; injection hd2 with hd2
            have := congrArg (fun t : Stk => t.xs.length) hd2
            simp only [List.length_append, List.length_replicate, List.length_take] at this hxs
            have h3 := congrArg List.length hxs
            simp only [List.length_append, List.length_take] at h3
            simp at this
            omega
          | some j =>
            have hj := (lastNonNil_spec r j hl).1
            simp only [hl] at hd2
            rw [finish_eq _ _ (by rw [hWl]; exact hs) _ _ (by omega) (by rw [hWl]; omega)] at hd2
            rw [hd] at hd2; injection hd2 with hd2
            have h3 := congrArg (fun t : Stk => t.xs.length) hd2
            have h4 := congrArg List.length hxs
            simp only [List.length_append, List.length_take] at h4
            simp only [true_and] at h3
            have hnall : ¬ (r.all Val.isNil = true) := by
              intro h; rw [(lastNonNil_none_iff r).mpr h] at hl; cases hl
            have c3a : ((1 + nilsBeforeLast r : Nat) : Int) < max := by
              rcases (walkCompact_iff max r 1).mp hc with h | h
              · exact absurd h hnall
              · exact h
            by_cases hge : (0:Int) ≤ 2 * ((pre.length + 1 + j : Nat) : Int) - 3 - (s.xs.length : Int)
            · simp only [hge, ↓reduceIte, List.length_take, List.length_append, List.length_replicate] at h3
              have c3b : 1 + nilCount r = 2 * (r.length - 1 - j) + 5 := by
                simp only [List.length_append] at hFl
                have e1 : (2 * ((pre.length + 1 + j : Nat) : Int) - 3 - (s.xs.length : Int)).toNat
                    = pre.length + (List.filter nonNil r).length := by
                  rw [h4] at h3; omega
                have e2 : r.length = (List.filter nonNil r).length + nilCount r := by omega
                omega
              rw [← hend, hend0]
              simp only [Bool.false_eq_true, Bool.and_false, Bool.not_false, Bool.and_true, Bool.and_eq_true,
                decide_eq_true_eq, beq_iff_eq]
              clear h3 h4
              exact ⟨by omega, c3a, c3b⟩
            · exfalso
              simp only [hge, ↓reduceIte, List.length_take, List.length_append, List.length_replicate] at h3
              omega
        · exfalso
          have hc' : walkCompact max 1 r = false := by simpa using hc
          have h1 := walk_not_compact max (by omega) r pre 1 (true :: List.replicate s.xs.length false) hc' hp
          have h2 := take_nilfree_le (walk max pre 1 r (true :: List.replicate s.xs.length false)).1 m
            (by rw [hxs]; simp [List.all_append, hp])
          rw [hxs] at h2
          have : (pre ++ r).filter nonNil = pre ++ r.filter nonNil := by
            rw [List.filter_append, filter_nilfree _ hp]
          rw [this] at h1
          omega

/-- **The shape of the result when the loop reaches every value.** Let the stack have a nil, the
first one below the scan limit, `k` the position of the last non-nil element, and fewer than `max`
nils before position `k` (this is *not* implied by "runs shorter than `max`": the loop compares
the total number of nils passed so far with `max`, see the example `a _ b _ c` with limit 2 below). Then
the result is a prefix of "all values in order, then all nils": nothing is reordered or invented,
only a suffix may be lost or trailing nils kept. The cut is at `2·k − 3 − L` when that is ≥ 0, a
value lies behind the first gap and no error is raised (forward-index option with a non-nil last
element raises the error); otherwise nothing is cut. -/
theorem C19_partial_shape (s : Stk) (hs : SmallLen s.xs.length) (max : Int) (k : Nat)
    (hany : s.xs.any Val.isNil = true) (hfirst : (firstNil s.xs : Int) < max)
    (hk : lastNonNil s.xs = some k)
    (hreach : ((nilCount s.xs - (s.xs.length - 1 - k) : Nat) : Int) < max) :
    s.defrag max = .ok ⟨{ s.cfg with err := if s.endBit then some defragErr else none },
      (compact1 s.xs ++ List.replicate (nilCount s.xs) Val.nil).take
        (if s.endBit = false ∧ firstNil s.xs < k ∧ (0:Int) ≤ 2 * (k : Int) - 3 - (s.xs.length : Int)
         then (2 * (k : Int) - 3 - (s.xs.length : Int)).toNat else s.xs.length)⟩ := by
  obtain ⟨pre, r, hx, hp, hfn⟩ := split_firstNil s.xs hany
  have hL : s.xs.length = pre.length + 1 + r.length := by rw [hx]; simp; omega
  have hsm := small_int hs
  have hcg : compact1 s.xs = pre ++ r.filter nonNil := by rw [hx]; exact compact1_gap pre r hp
  have hN : nilCount s.xs = 1 + nilCount r := by
    rw [hx, nilCount_append, nilCount_nilfree pre hp, nilCount_cons]; simp [Val.isNil]
  have hFl : (pre ++ r.filter nonNil).length + nilCount r = pre.length + r.length := by
    have := filter_len_add_nilCount r; simp only [List.length_append]; omega
  have hm : ¬ max ≤ (pre.length : Int) := by omega
  have hWl : (pre ++ List.filter nonNil r ++ List.replicate (1 + nilCount r) Val.nil).length = s.xs.length := by
    simp only [List.length_append, List.length_replicate] at *; omega
  rw [hcg, hN, hfn]
  cases hl : lastNonNil r with
  | none =>
    have hall := (lastNonNil_none_iff r).mp hl
    have hc : walkCompact max 1 r = true := (walkCompact_iff max r 1).mpr (Or.inl hall)
    have h1 : lastNonNil (Val.nil :: r) = none := by simp [lastNonNil, hl, Val.isNil]
    rw [hx, lastNonNil_append_none _ _ h1, lastNonNil_nilfree pre hp] at hk
    have hk' : pre.length ≠ 0 ∧ k = pre.length - 1 := by
      by_cases h0 : pre.length = 0
      · simp [h0] at hk
      · simp only [h0, ↓reduceIte, Option.some.injEq] at hk; exact ⟨h0, hk.symm⟩
    rw [defrag_gap_compact s hs max pre r hx hp hm hc]
    simp only [hl]
    rw [finish_eq _ _ (by rw [hWl]; exact hs) _ _ (by omega) (by rw [hWl]; omega)]
    have hnk : ¬ (pre.length < k) := by omega
    have hn2 : ¬ ((0:Int) ≤ -2) := by omega
    simp only [hnk, hn2, and_false, false_and, ↓reduceIte]
    rw [List.take_of_length_le (by rw [hWl]; omega)]
  | some j =>
    have hj := lastNonNil_spec r j hl
    have h1 : lastNonNil (Val.nil :: r) = some (j + 1) := by simp [lastNonNil, hl]
    rw [hx, lastNonNil_append_some _ _ _ h1] at hk
    simp only [Option.some.injEq] at hk
    subst hk
    have hc : walkCompact max 1 r = true := by
      apply (walkCompact_iff max r 1).mpr
      right
      have : nilCount s.xs - (s.xs.length - 1 - (pre.length + (j + 1))) = 1 + nilsBeforeLast r := by omega
      rw [this] at hreach; exact hreach
    rw [defrag_gap_compact s hs max pre r hx hp hm hc]
    simp only [hl]
    rw [finish_eq _ _ (by rw [hWl]; exact hs) _ _ (by omega) (by rw [hWl]; omega)]
    have hlt : pre.length < pre.length + (j + 1) := by omega
    have ek : 2 * ((pre.length + 1 + j : Nat) : Int) - 3 - (s.xs.length : Int)
        = 2 * ((pre.length + (j + 1) : Nat) : Int) - 3 - (s.xs.length : Int) := by omega
    rw [ek]
    simp only [hlt, true_and]
    cases hb : s.endBit
    · by_cases hge : (0:Int) ≤ 2 * ((pre.length + (j + 1) : Nat) : Int) - 3 - (s.xs.length : Int)
      · simp only [hge, and_self, ↓reduceIte, Bool.false_eq_true]
      · simp only [hge, and_false, ↓reduceIte, Bool.false_eq_true]
        rw [List.take_of_length_le (by rw [hWl]; omega)]
    · simp only [Bool.true_eq_false, false_and, ↓reduceIte, reduceCtorEq]
      rw [List.take_of_length_le (by rw [hWl]; omega)]

/-! ## Nested stacks: a sufficient condition for the whole tree -/

/-- the recursion of `Stack.Defrag` is gated by `IsNesting` of the compacted stack: either a Stack
element is left, or no element needs any work -/
def GateOK (xs : List Val) : Prop :=
  (compact1 xs).any Stk.countsAsNested = true ∨ ∀ v ∈ xs, compactV v = v

/-- one stack of the tree: read-only (left alone), or in the exact success class with the gate open -/
def NodeOK (max : Int) (c : Cfg) (xs : List Val) : Prop :=
  roCfg c = true ∨
    (c.err = none ∧ SmallLen xs.length ∧ DefragOK ((⟨c, xs⟩ : Stk).flag Gen.flag_fwdidx) max xs = true ∧ GateOK xs)

mutual
/-- every stack of the tree is `NodeOK` -/
def TreeOKV (max : Int) : Val → Prop
  | .stk _ c xs => NodeOK max c xs ∧ TreeOKL max xs
  | .cnd _ _ _ _ ex => TreeOKV max ex
  | _ => True
def TreeOKL (max : Int) : List Val → Prop
  | [] => True
  | v :: r => TreeOKV max v ∧ TreeOKL max r
end

theorem TreeOKL_mem (max : Int) : ∀ (xs : List Val) (v : Val), TreeOKL max xs → v ∈ xs → TreeOKV max v := by
  intro xs
  induction xs with
  | nil => intro v _ h; cases h
  | cons a r ih =>
    intro v h hv
    simp only [TreeOKL] at h
    rcases List.mem_cons.mp hv with rfl | hv
    · exact h.1
    · exact ih v h.2 hv

/-- **Nested compaction, where it works.** If every stack of the tree (direct elements in any alias
form, expressions of nested Conditions) is read-only or lies in the exact success class with the
recursion gate open, `Stack.Defrag` produces exactly the specified tree. -/
theorem C19_partial_tree (m : Int) : ∀ (fuel : Nat) (s : Stk) (args : List Int), defragMax args = m →
    s.depth < fuel → TreeOKV m (.stk .native s.cfg s.xs) → s.Defrag fuel args = .ok (compact s) := by
  intro fuel
  induction fuel with
  | zero => intro s args _ h; omega
  | succ fuel ih =>
    intro s args hm hdepth hok
    simp only [TreeOKV] at hok
    obtain ⟨hnode, hkids⟩ := hok
    have hmpos : 0 < m := by rw [← hm]; exact defragMax_pos args
    unfold Defrag
    by_cases hro : s.readOnly = true
    · simp [hro, compact]
    · simp only [hro, Bool.false_eq_true, ↓reduceIte, hm]
      rcases hnode with h | ⟨he, hsm, hdok, hgate⟩
      · exact absurd h hro
      · obtain ⟨s1, hd, hxs, herr⟩ := (C19_partial_exact s hsm m he).mp hdok
        obtain ⟨s1', hd', hcfg⟩ := C19_terminates s hsm m
        rw [hd] at hd'; injection hd' with hd'; subst hd'
        have hcfg1 : s1.cfg = { s.cfg with err := none } := by
          rcases hcfg with h | ⟨e, h⟩
          · rw [h]; cases hc : s.cfg; simp_all
          · rw [h] at herr; simp only at herr; rw [h, herr]
        have hs1 : s1 = ⟨{ s.cfg with err := none }, compact1 s.xs⟩ := by
          cases s1; simp only at hcfg1 hxs; rw [hcfg1, hxs]
        rw [hd]
        simp only [bind, Except.bind]
        have hcomp : compact s = ⟨{ s.cfg with err := none }, compactL s.xs⟩ := by simp [compact, hro]
        have hnest : s1.IsNesting = (compact1 s.xs).any Stk.countsAsNested := by rw [hs1]; rfl
        cases hn : s1.IsNesting
        · simp only [Bool.false_eq_true, ↓reduceIte]
          rw [hcomp, hs1]
          rcases hgate with hg | hg
          · rw [hnest, hg] at hn; cases hn
          · congr 2
            rw [compactL_eq]
            unfold compact1
            symm
            have : ∀ v ∈ s.xs.filter nonNil, compactV v = v := fun v hv => hg v (List.mem_filter.mp hv).1
            exact (List.map_congr_left this).trans (List.map_id _)
        · simp only [↓reduceIte]
          have hall : ∀ v ∈ s1.xs, defragElem (fun t => Defrag fuel [m] t) v = .ok (compactV v) := by
            intro v hv
            rw [hs1] at hv
            have hvx : v ∈ s.xs := (List.mem_filter.mp hv).1
            have htv := TreeOKL_mem m s.xs v hkids hvx
            have hdv := depth_mem s.xs v hvx
            unfold Stk.depth at hdepth
            cases v with
            | stk f c xs =>
              simp only [Val.depth] at hdv
              have := ih ⟨c, xs⟩ [m] (defragMax_idem m hmpos) (by unfold Stk.depth; simp only; omega) (by
                simp only [TreeOKV] at htv ⊢; exact htv)
              simp only [defragElem, this, bind, Except.bind, pure, Except.pure]
              rw [compactV_stk]
            | cnd f c kw op ex =>
              cases ex with
              | stk f2 c2 xs2 =>
                simp only [Val.depth] at hdv
                have := ih ⟨c2, xs2⟩ [m] (defragMax_idem m hmpos) (by unfold Stk.depth; simp only; omega) (by
                  simp only [TreeOKV] at htv ⊢; exact htv)
                simp only [defragElem, this, bind, Except.bind, pure, Except.pure]
                rw [compactV_cnd_stk]
              | _ => simp [defragElem, compactV, pure, Except.pure]
            | _ => simp [defragElem, compactV, pure, Except.pure]
          rw [mapM_ok _ compactV s1.xs hall]
          rw [hcomp, hs1, compactL_eq]
          rfl

/-! ## Non-vacuity and the other documented failures, on concrete stacks -/

/-- the hypotheses of `C19_partial_exact`/`C19_partial_shape` are satisfiable in a non-trivial way:
`a _ _ _ _ _ b` (5 nils, none trailing: N = 2·0+5) is compacted correctly -/
example : DefragOK false 50 [.leaf (.int 1), .nil, .nil, .nil, .nil, .nil, .leaf (.int 2)] = true := by decide

/-- the hypotheses of `C19_partial_tree` are satisfiable by a tree that needs work below the top:
`[ alias-stack [1 _ _ _ _ _ 2] ]` with `Defrag(9)` is compacted at the nested level -/
example : (⟨{ kind := 1 }, [.stk .alias { kind := 4 } [.leaf (.int 1), .nil, .nil, .nil, .nil, .nil, .leaf (.int 2)]]⟩ : Stk).Defrag 3 [9]
    = .ok ⟨{ kind := 1 }, [.stk .alias { kind := 4 } [.leaf (.int 1), .leaf (.int 2)]]⟩ := by
  have h := C19_partial_tree 9 3
    ⟨{ kind := 1 }, [.stk .alias { kind := 4 } [.leaf (.int 1), .nil, .nil, .nil, .nil, .nil, .leaf (.int 2)]]⟩ [9]
    (by decide) (by decide)
    (by
      simp only [TreeOKV, TreeOKL, and_true]
      refine ⟨Or.inr ⟨rfl, by unfold SmallLen; rw [pow62]; decide, by decide, Or.inl (by decide)⟩,
              Or.inr ⟨rfl, by unfold SmallLen; rw [pow62]; decide, by decide, Or.inr ?_⟩⟩
      intro v hv
      simp only [List.mem_cons, List.mem_nil_iff, or_false] at hv
      rcases hv with rfl | rfl | rfl | rfl | rfl | rfl | rfl <;> rfl)
  rw [h]
  rfl

/-- … and the witness of the counterexample is outside the class -/
example : DefragOK false 50 witness.xs = false := by decide

/-- `a _ b` keeps a nil (no truncation: `2·2 − 3 − 3 < 0`) -/
example : (⟨{ kind := 4 }, [.leaf (.int 1), .nil, .leaf (.int 2)]⟩ : Stk).defrag 50
    = .ok ⟨{ kind := 4 }, [.leaf (.int 1), .leaf (.int 2), .nil]⟩ := by rfl

/-- the scan limit counts all nils passed, not a run: `a _ b _ c` with limit 2 leaves `c` behind two nils -/
example : (⟨{ kind := 4 }, [.leaf (.int 1), .nil, .leaf (.int 2), .nil, .leaf (.int 3)]⟩ : Stk).defrag 2
    = .ok ⟨{ kind := 4 }, [.leaf (.int 1), .leaf (.int 2), .nil, .nil, .leaf (.int 3)]⟩ := by rfl

/-- forward indices, last element non-nil: `Err` is raised and nothing is cut (K-C19-3) -/
example : (⟨{ kind := 4, opt := 32 }, [.leaf (.int 1), .nil, .leaf (.int 2)]⟩ : Stk).defrag 50
    = .ok ⟨{ kind := 4, opt := 32, err := some defragErr }, [.leaf (.int 1), .leaf (.int 2), .nil]⟩ := by rfl

/-- first gap at the scan limit: nothing happens (K-C19-2) -/
example : (⟨{ kind := 4 }, [.leaf (.int 1), .nil, .leaf (.int 2)]⟩ : Stk).defrag 1
    = .ok ⟨{ kind := 4 }, [.leaf (.int 1), .nil, .leaf (.int 2)]⟩ := by rfl

end Stk
end Stackage
