import Stackage.Lemmas.GenSem
import Stackage.Spec.Skeleton
import Stackage.Lemmas.Marshal

/-!
# C04 — Marshal(Unmarshal(S)) reconstructs S

`Stk.unmarshal` follows `Stack.Unmarshal` / `stack.unmarshalDefault` / `condition.unmarshalDefault`
(no custom unmarshaler), `marshalList` / `marshalInto` follow `marshalDefault` / `(*Stack).Marshal`
(no custom marshaler), `Stk.skel` (Spec/Skeleton) says what is reconstructed: the same kinds, the
same element order, the same leaf values and the same Condition keyword / operator / expression at
every position, under a default configuration.
-/

set_option linter.unusedSimpArgs false
set_option linter.unusedVariables false
namespace Stackage

/-! ## 1. the shape of `Unmarshal()` -/

theorem unmarshalElems_map (xs : List Val) : unmarshalElems xs = xs.map unmarshalElem := by
  induction xs with
  | nil => rfl
  | cons x rest ih => rw [unmarshalElems, ih]; rfl

/-- **C04 (shape).** For every initialised stack, `Unmarshal()` is the kind label followed by one
entry per element, in order … -/
theorem C04_shape (s : Stk) : s.unmarshal = strV s.cfg.kindText :: s.xs.map unmarshalElem := by
  unfold Stk.unmarshal; rw [unmarshalElems_map]

/-- … a nested Stack (any form) becomes the row `[label, entries…]` of the same shape … -/
theorem C04_shape_stack (f : Form) (c : Cfg) (xs : List Val) :
    unmarshalElem (.stk f c xs) = .anys (strV c.kindText :: xs.map unmarshalElem) := by
  rw [unmarshalElem, unmarshalElems_map]

/-- … a Condition becomes the four-entry row `[CONDITION, keyword, operator, expression]`, a Stack
or a Condition in expression position being expanded the same way - recursively, to any depth - and
any other expression passed through … -/
theorem C04_shape_cond (f : Form) (c : Cfg) (kw : Text) (op : Op) (ex : Val) :
    unmarshalElem (.cnd f c kw op ex) = .anys [strV conditionLabel, strV kw, .opv op, unmarshalExpr ex] := by
  rw [unmarshalElem]

theorem C04_shape_expr_stack (f : Form) (c : Cfg) (xs : List Val) :
    unmarshalExpr (.stk f c xs) = .anys (strV c.kindText :: xs.map unmarshalElem) := by
  rw [unmarshalExpr, unmarshalElems_map]

/-- a Condition held as a Condition's expression (any form) is expanded to its own four-entry row, exactly as it
would be as an element of a Stack; the rule applies again to *its* expression (repair F43: the code used to hand the
live Condition through) -/
theorem C04_shape_expr_cond (f : Form) (c : Cfg) (kw : Text) (op : Op) (ex : Val) :
    unmarshalExpr (.cnd f c kw op ex) = .anys [strV conditionLabel, strV kw, .opv op, unmarshalExpr ex] := by
  rw [unmarshalExpr]

/-- in expression position and in element position the same entry is produced, for every value -/
theorem C04_shape_expr_eq_elem : ∀ v : Val, unmarshalExpr v = unmarshalElem v
  | .stk f c xs => by rw [unmarshalExpr, unmarshalElem]
  | .cnd f c kw op ex => by rw [unmarshalExpr, unmarshalElem]
  | .nil => rfl
  | .leaf _ => rfl
  | .zstk _ => rfl
  | .zcnd _ => rfl
  | .anys _ => by simp only [unmarshalExpr, unmarshalElem]
  | .opv _ => rfl

theorem C04_shape_expr_other (v : Val) (h : v.isStack = false) (hc : v.isCond = false) : unmarshalExpr v = v := by
  cases v <;> first | rfl | simp [Val.isStack, Val.isCond] at h hc

/-- … and everything else — nil included — is passed through unchanged. -/
theorem C04_shape_other (v : Val) (hs : v.isStack = false) (hc : v.isCond = false) : unmarshalElem v = v := by
  cases v <;> first | rfl | (simp [Val.isStack, Val.isCond] at hs hc)

theorem C04_shape_length (s : Stk) : s.unmarshal.length = s.xs.length + 1 := by
  rw [C04_shape]; simp

/-! ## 2. the domain of the round trip -/

/-- primitive leaves: strings, ints, bools, other numeric primitives -/
def primLeaf : Leaf → Bool
  | .str _ => true
  | .int _ => true
  | .bool _ => true
  | .num _ _ => true
  | _ => false

mutual
/-- an element in the domain: nil, a primitive leaf (a string equal to a label word such as
"AND" included: it is only a label in first position), a Stack in the domain, a Condition in the domain -/
def domElem : Val → Bool
  | .nil => true
  | .leaf l => primLeaf l
  | .stk _ c xs => decide (RealKind c.kind) && domElems xs
  | .cnd _ _ _ op ex => Cnd.opAccepted op && domExpr ex
  | _ => false

def domElems : List Val → Bool
  | [] => true
  | x :: rest => domElem x && domElems rest

/-- a Condition expression in the domain: a primitive leaf other than the empty string, a Stack in
the domain, or a Condition in the domain (accepted operator, expression in the domain - to any depth:
the reconstruction rebuilds it, so it is inside the round trip like any other node) -/
def domExpr : Val → Bool
  | .leaf (.str s) => !s.isEmpty
  | .leaf l => primLeaf l
  | .stk _ c xs => decide (RealKind c.kind) && domElems xs
  | .cnd _ _ _ op ex => Cnd.opAccepted op && domExpr ex
  | _ => false
end

/-- the domain of C04: AND/OR/NOT/LIST/BASIC stacks at every level (empty ones included), nil and
primitive leaves, Conditions with an accepted operator whose expression is a primitive, a Stack or a
Condition of the same domain (Condition in Condition to any depth, Stacks below them). No `[]any`, no bare operator, no zero instance, no opaque value as element. Capacity,
options, alias forms and every other configuration field are unrestricted. -/
def Stk.Dom (s : Stk) : Prop := RealKind s.cfg.kind ∧ domElems s.xs = true

instance (s : Stk) : Decidable s.Dom := by unfold Stk.Dom; exact inferInstance

/-! ## 3. the round trip -/

/-- the label `Unmarshal` writes — upper case, or lower case when case folding is on — is recognised -/
theorem classify_foldValue (b : Bool) (k : Nat) (hk : RealKind k) :
    classify (foldValue b (Gen.kindWord k)) = .kind k := by
  rcases hk with h | h | h | h | h <;> subst h <;> cases b <;> rfl

theorem classify_kindText (c : Cfg) (hk : RealKind c.kind) : classify c.kindText = .kind c.kind :=
  classify_foldValue _ _ hk

theorem classify_conditionLabel : classify conditionLabel = .cond := rfl

/-- the replace loop on a row entry / a plain entry -/
theorem marshalElems_cons_row (tv rest : List Val) :
    marshalElems (.anys tv :: rest) =
      ((match (marshalList tv).stk, (marshalList tv).cnd with
          | some x, _ => x
          | none, some x => x
          | none, none => .anys tv) :: (marshalElems rest).1,
       match (marshalElems rest).2 with
       | some e => some e
       | none => some (marshalList tv).err) := by
  rw [marshalElems]
  rfl

theorem marshalElems_cons_plain (x : Val) (rest : List Val) (h : ∀ tv, x ≠ .anys tv) :
    marshalElems (x :: rest) = (x :: (marshalElems rest).1, (marshalElems rest).2) := by
  rw [marshalElems]
  intro tv htv; exact h tv htv

/-- decoding the row of a Stack whose entries decode to `ys` without error -/
theorem marshalList_stack_row (c : Cfg) (us ys : List Val) (hk : RealKind c.kind)
    (h1 : (marshalElems us).1 = ys) (h2 : (marshalElems us).2.getD none = none) :
    marshalList (strV c.kindText :: us) = { stk := some (.stk .native { kind := c.kind } ys) } := by
  unfold strV
  rw [marshalList_str, classify_kindText c hk]
  simp only [h1, h2]

/-- the mutual induction behind the round trip: per element, per expression, per element list -/
theorem roundtrip_aux (x : Val) :
    domElem x = true → ∀ rest,
      (marshalElems (unmarshalElem x :: rest)).1 = skelElem x :: (marshalElems rest).1 ∧
      (marshalElems (unmarshalElem x :: rest)).2.getD none = (marshalElems rest).2.getD none := by
  induction x using unmarshalElem.induct
    (motive_2 := fun ex => domExpr ex = true → ∀ kw op,
      marshalList [strV conditionLabel, strV kw, .opv op, unmarshalExpr ex] =
        { cnd := some (cndVal (Cnd.cond {} (strV kw) op (skelExpr ex))) })
    (motive_3 := fun xs => domElems xs = true →
      (marshalElems (unmarshalElems xs)).1 = skelElems xs ∧
      (marshalElems (unmarshalElems xs)).2.getD none = none) with
  | case1 f c xs ih =>
    intro hd rest
    rw [domElem, Bool.and_eq_true, decide_eq_true_iff] at hd
    obtain ⟨h1, h2⟩ := ih hd.2
    rw [unmarshalElem, skelElem, marshalElems_cons_row, marshalList_stack_row c _ _ hd.1 h1 h2]
    refine ⟨rfl, ?_⟩
    simp only []
    cases (marshalElems rest).2 <;> rfl
  | case2 f c kw op ex ih =>
    intro hd rest
    rw [domElem, Bool.and_eq_true] at hd
    rw [unmarshalElem, skelElem, marshalElems_cons_row, ih hd.2 kw op]
    refine ⟨rfl, ?_⟩
    simp only []
    cases (marshalElems rest).2 <;> rfl
  | case3 v hs hc =>
    intro hd rest
    cases v with
    | stk f c xs => exact (hs f c xs rfl).elim
    | cnd f c kw op ex => exact (hc f c kw op ex rfl).elim
    | nil =>
      have e := marshalElems_cons_plain .nil rest (fun tv h => by cases h)
      exact ⟨congrArg Prod.fst e, congrArg (fun p => p.2.getD none) e⟩
    | leaf l =>
      have e := marshalElems_cons_plain (.leaf l) rest (fun tv h => by cases h)
      exact ⟨congrArg Prod.fst e, congrArg (fun p => p.2.getD none) e⟩
    | zstk f => simp [domElem] at hd
    | zcnd f => simp [domElem] at hd
    | anys ys => simp [domElem] at hd
    | opv o => simp [domElem] at hd
  | case4 f c xs ih =>
    rename_i hd kw op
    rw [domExpr, Bool.and_eq_true, decide_eq_true_iff] at hd
    obtain ⟨h1, h2⟩ := ih hd.2
    rw [unmarshalExpr, skelExpr]
    unfold strV
    rw [marshalList_str, classify_conditionLabel]
    simp only []
    have hrow := marshalList_stack_row c _ _ hd.1 h1 h2
    unfold strV at hrow
    rw [hrow]
    rfl
  | case5 f c kw' op' ex' ih =>
    rename_i hd kw op
    rw [domExpr, Bool.and_eq_true] at hd
    have hin := ih hd.2 kw' op'
    rw [unmarshalExpr, skelExpr]
    unfold strV at hin ⊢
    rw [marshalList_str, classify_conditionLabel]
    simp only []
    rw [hin]
    rfl
  | case6 v hs hc =>
    rename_i hd kw op
    have hne : ∀ tv, v ≠ .anys tv := by
      intro tv h; subst h; simp [domExpr] at hd
    have h1 : unmarshalExpr v = v := by
      cases v <;> first | rfl | exact (hs _ _ _ rfl).elim | exact (hc _ _ _ _ _ rfl).elim
    have h2 : skelExpr v = v := by
      cases v <;> first | rfl | exact (hs _ _ _ rfl).elim | exact (hc _ _ _ _ _ rfl).elim
    rw [h1, h2]
    unfold strV
    rw [marshalList_str, classify_conditionLabel]
    cases v <;> first | rfl | exact (hne _ rfl).elim
  | case7 =>
    rw [unmarshalElems, skelElems, marshalElems]
    exact ⟨rfl, rfl⟩
  | case8 x rest ihx ihr =>
    rename_i hd
    rw [domElems, Bool.and_eq_true] at hd
    obtain ⟨h1, h2⟩ := ihx hd.1 (unmarshalElems rest)
    obtain ⟨h3, h4⟩ := ihr hd.2
    rw [unmarshalElems, skelElems, h1, h2, h3, h4]
    exact ⟨rfl, rfl⟩

theorem roundtrip_elems (xs : List Val) (hd : domElems xs = true) :
    (marshalElems (unmarshalElems xs)).1 = skelElems xs ∧
    (marshalElems (unmarshalElems xs)).2.getD none = none := by
  induction xs with
  | nil => rw [unmarshalElems, skelElems, marshalElems]; exact ⟨rfl, rfl⟩
  | cons x rest ih =>
    rw [domElems, Bool.and_eq_true] at hd
    obtain ⟨h1, h2⟩ := roundtrip_aux x hd.1 (unmarshalElems rest)
    obtain ⟨h3, h4⟩ := ih hd.2
    rw [unmarshalElems, skelElems, h1, h2, h3, h4]
    exact ⟨rfl, rfl⟩

/-- **C04 (round trip, decoder).** For every stack in the domain, decoding its `Unmarshal()` output
yields a Stack — not a Condition, no error — and that Stack is the skeleton of the original. -/
theorem C04_roundtrip_list (s : Stk) (hd : s.Dom) :
    marshalList s.unmarshal = { stk := some s.skel, cnd := none, err := none } := by
  obtain ⟨h1, h2⟩ := roundtrip_elems s.xs hd.2
  exact marshalList_stack_row s.cfg _ _ hd.1 h1 h2

/-- the reconstruction as a stack instance -/
def Stk.skelStk (s : Stk) : Stk := { cfg := { kind := s.cfg.kind }, xs := skelElems s.xs }

/-- **C04 (round trip).** `Marshal(u...)` of `u = S.Unmarshal()` into an uninitialised Stack
succeeds and leaves the receiver holding the skeleton of `S` … -/
theorem C04_roundtrip (interp : Nat → Val → Option Nat) (s : Stk) (hd : s.Dom) :
    marshalInto interp none s.unmarshal = (some s.skelStk, none) := by
  have h := C04_roundtrip_list s hd
  unfold Stk.unmarshal at h ⊢
  unfold marshalInto
  simp only [h]
  rfl

/-- … and so does the other calling convention, `Marshal(u)` (the slice as a single argument),
through the envelope stripping. -/
theorem C04_roundtrip_enveloped (interp : Nat → Val → Option Nat) (s : Stk) (hd : s.Dom) :
    marshalInto interp none [.anys s.unmarshal] = (some s.skelStk, none) := by
  have h := C04_roundtrip_list s hd
  unfold marshalInto
  simp only [marshalList_env, h]
  rfl

/-! ## 4. what the skeleton preserves -/

theorem skelElems_map (xs : List Val) : skelElems xs = xs.map skelElem := by
  induction xs with
  | nil => rfl
  | cons x rest ih => rw [skelElems, ih]; rfl

/-- **C04 (structure: order and length).** The reconstruction has one element per element of the
original, in the same order: position `i` holds the reconstruction of the original's position `i`. -/
theorem C04_structure_index (s : Stk) (i : Nat) : s.skelStk.xs[i]? = (s.xs[i]?).map skelElem := by
  unfold Stk.skelStk; simp only [skelElems_map, List.getElem?_map]

theorem C04_structure_length (s : Stk) : s.skelStk.xs.length = s.xs.length := by
  unfold Stk.skelStk; simp only [skelElems_map, List.length_map]

/-- the kind is kept at the top … -/
theorem C04_structure_kind (s : Stk) : s.skelStk.cfg.kind = s.cfg.kind := rfl

/-- … and at every nested Stack, which is rebuilt element by element; -/
theorem C04_structure_stack (f : Form) (c : Cfg) (xs : List Val) :
    skelElem (.stk f c xs) = .stk .native { kind := c.kind } (xs.map skelElem) := by
  rw [skelElem, skelElems_map]

/-- leaves and nil are the very same values; -/
theorem C04_structure_leaf (l : Leaf) : skelElem (.leaf l) = .leaf l := rfl
theorem C04_structure_nil : skelElem .nil = .nil := rfl
theorem C04_structure_other (v : Val) (hs : v.isStack = false) (hc : v.isCond = false) : skelElem v = v := by
  cases v <;> first | rfl | (simp [Val.isStack, Val.isCond] at hs hc)

/-- a Stack in expression position is rebuilt, a Condition in expression position is rebuilt (below:
`C04_structure_expr_cond`), any other expression is the very same value -/
theorem C04_structure_expr_stack (f : Form) (c : Cfg) (xs : List Val) :
    skelExpr (.stk f c xs) = .stk .native { kind := c.kind } (xs.map skelElem) := by
  rw [skelExpr, skelElems_map]
theorem C04_structure_expr_other (v : Val) (hs : v.isStack = false) (hc : v.isCond = false) : skelExpr v = v := by
  cases v <;> first | rfl | (simp [Val.isStack, Val.isCond] at hs hc)

/-- in expression position and in element position the same value is rebuilt -/
theorem C04_structure_expr_eq_elem : ∀ v : Val, skelExpr v = skelElem v
  | .stk f c xs => by rw [skelExpr, skelElem]
  | .cnd f c kw op ex => by rw [skelExpr, skelElem]
  | .nil => rfl
  | .leaf _ => rfl
  | .zstk _ => rfl
  | .zcnd _ => rfl
  | .anys _ => by simp only [skelExpr, skelElem]
  | .opv _ => rfl

/-- the error `Cond` records on the rebuilt Condition: the keyword is empty, or the operator is a
built-in comparison operator whose code is outside 1..6 -/
def condErr (kw : Text) (op : Op) : Option Nat :=
  if kw.isEmpty then some 1001
  else match op with
    | .cmp code => if Gen.cond_op_bogus { assert := code } then some 1003 else none
    | _ => none

theorem condErr_none_iff (kw : Text) (op : Op) :
    condErr kw op = none ↔ kw ≠ [] ∧ ∀ code, op = .cmp code → 1 ≤ code ∧ code ≤ 6 := by
  unfold condErr
  simp only [GenSem.cond_op_bogus, decide_eq_true_eq]
  cases kw with
  | nil => simp
  | cons a t =>
    cases op with
    | cmp code =>
      simp only [List.isEmpty_cons, Bool.false_eq_true, if_false, ne_eq, reduceCtorEq, not_false_eq_true,
        true_and, Op.cmp.injEq, forall_eq']
      constructor
      · intro h
        split at h
        · cases h
        · rename_i hb; simp at hb; omega
      · intro h
        split
        · rename_i hb; simp at hb; omega
        · rfl
    | none => simp
    | user id s c => simp

/-- an expression of the domain, reconstructed, is accepted by a fresh Condition and is not nil -/
theorem skelExpr_accepted (ex : Val) (he : domExpr ex = true) (c : Cnd) (hn : c.noNest = false)
    (herr : c.cfg.err = none) : c.exAccepted (skelExpr ex) = true ∧ (skelExpr ex).isNil = false := by
  cases ex with
  | leaf l =>
    cases l <;> simp_all [domExpr, skelExpr, Cnd.exAccepted, Val.isNil, Val.isStack, primLeaf]
  | stk f c' xs => simp_all [domExpr, skelExpr, Cnd.exAccepted, Val.isNil, Val.isStack]
  | cnd f c' kw op e => simp_all [domExpr, skelExpr, cndVal, Cnd.exAccepted, Val.isNil, Val.isStack]
  | _ => simp [domExpr] at he

/-- **C04 (structure: Conditions).** A Condition of the domain comes back as a native Condition
with the same keyword, the same operator and the reconstructed expression; its configuration is
the default one, the only possibly non-default field being the error `Cond` records. -/
theorem C04_structure_cond (f : Form) (c : Cfg) (kw : Text) (op : Op) (ex : Val)
    (ho : Cnd.opAccepted op = true) (he : domExpr ex = true) :
    skelElem (.cnd f c kw op ex) =
      .cnd .native { kind := Gen.kind_cond, err := condErr kw op } kw op (skelExpr ex) := by
  have hx := skelExpr_accepted ex he { cfg := { kind := Gen.kind_cond }, kw := kw, op := op, ex := .nil }
    (by simp [Cnd.noNest, Cfg.positive, Cfg.valid, Gen.cfgFlag_positive, Gen.flag_nnest]) rfl
  rw [skelElem]
  unfold cndVal Cnd.cond
  simp only [Cnd.init, Cnd.setKeyword, Cnd.kwOf, strV, Cnd.setOperator, ho, if_true, Cnd.setExpression, hx.1]
  unfold Cnd.valid condErr
  simp only []
  by_cases hk : kw.isEmpty = true
  · simp only [hk, if_true]
  · simp only [hk, if_false, Bool.false_eq_true]
    cases op with
    | none => simp [Cnd.opAccepted] at ho
    | cmp code =>
      simp only [hx.2, Bool.false_eq_true, if_false]
      by_cases hb : Gen.cond_op_bogus { assert := code } = true <;> simp only [hb, if_true, if_false, Bool.false_eq_true]
    | user id s c' => simp only [hx.2, Bool.false_eq_true, if_false]

/-- **C04 (structure: a Condition held as a Condition's expression).** It comes back as an independent native
Condition with the same keyword, the same operator and the reconstructed expression - the rule applies again to that
expression, so Condition-in-Condition chains of any depth, with Stacks below them, are rebuilt node by node (repair
F43; before it the live inner Condition travelled through `Unmarshal` and `Marshal` as an opaque value). -/
theorem C04_structure_expr_cond (f : Form) (c : Cfg) (kw : Text) (op : Op) (ex : Val)
    (ho : Cnd.opAccepted op = true) (he : domExpr ex = true) :
    skelExpr (.cnd f c kw op ex) =
      .cnd .native { kind := Gen.kind_cond, err := condErr kw op } kw op (skelExpr ex) := by
  rw [C04_structure_expr_eq_elem]; exact C04_structure_cond f c kw op ex ho he

/-! ## 5. unmarshalling the reconstruction gives the first slice again, up to label case -/

theorem upperLabelsL_map (xs : List Val) : upperLabelsL xs = xs.map upperLabels := by
  induction xs with
  | nil => rfl
  | cons x rest ih => rw [upperLabelsL, ih]; rfl

/-- the label of a real kind, upper-cased, does not depend on case folding -/
theorem upper_foldValue (b b' : Bool) (k : Nat) (hk : RealKind k) :
    (foldValue b (Gen.kindWord k)).map goUpper = (foldValue b' (Gen.kindWord k)).map goUpper := by
  rcases hk with h | h | h | h | h <;> subst h <;> cases b <;> cases b' <;> rfl

theorem upperLabels_row (l : Text) (rest : List Val) :
    upperLabels (.anys (.leaf (.str l) :: rest)) = .anys (.leaf (.str (l.map goUpper)) :: upperLabelsL rest) := by
  rw [upperLabels]

theorem fixpoint_aux (x : Val) :
    domElem x = true → upperLabels (unmarshalElem (skelElem x)) = upperLabels (unmarshalElem x) := by
  induction x using unmarshalElem.induct
    (motive_2 := fun ex => domExpr ex = true →
      upperLabels (unmarshalExpr (skelExpr ex)) = upperLabels (unmarshalExpr ex))
    (motive_3 := fun xs => domElems xs = true →
      upperLabelsL (unmarshalElems (skelElems xs)) = upperLabelsL (unmarshalElems xs)) with
  | case1 f c xs ih =>
    intro hd
    rw [domElem, Bool.and_eq_true, decide_eq_true_iff] at hd
    rw [skelElem, unmarshalElem, unmarshalElem]
    unfold strV Cfg.kindText
    rw [upperLabels_row, upperLabels_row, ih hd.2, upper_foldValue _ c.cfold _ hd.1]
  | case2 f c kw op ex ih =>
    intro hd
    rw [domElem, Bool.and_eq_true] at hd
    rw [C04_structure_cond f c kw op ex hd.1 hd.2, unmarshalElem, unmarshalElem]
    unfold strV
    rw [upperLabels_row, upperLabels_row]
    simp only [upperLabelsL, ih hd.2]
  | case3 v hs hc =>
    intro hd
    have : skelElem v = v := by
      cases v <;> first | rfl | exact (hs _ _ _ rfl).elim | exact (hc _ _ _ _ _ rfl).elim
    rw [this]
  | case4 f c xs ih =>
    rename_i hd
    rw [domExpr, Bool.and_eq_true, decide_eq_true_iff] at hd
    rw [skelExpr, unmarshalExpr, unmarshalExpr]
    unfold strV Cfg.kindText
    rw [upperLabels_row, upperLabels_row, ih hd.2, upper_foldValue _ c.cfold _ hd.1]
  | case5 f c kw op ex ih =>
    rename_i hd
    rw [domExpr, Bool.and_eq_true] at hd
    rw [C04_structure_expr_cond f c kw op ex hd.1 hd.2, unmarshalExpr, unmarshalExpr]
    unfold strV
    rw [upperLabels_row, upperLabels_row]
    simp only [upperLabelsL, ih hd.2]
  | case6 v hs hc =>
    rename_i hd
    have : skelExpr v = v := by
      cases v <;> first | rfl | exact (hs _ _ _ rfl).elim | exact (hc _ _ _ _ _ rfl).elim
    rw [this]
  | case7 => rfl
  | case8 x rest ihx ihr =>
    rename_i hd
    rw [domElems, Bool.and_eq_true] at hd
    rw [skelElems, unmarshalElems, unmarshalElems, upperLabelsL, upperLabelsL, ihx hd.1, ihr hd.2]

theorem fixpoint_elems (xs : List Val) (hd : domElems xs = true) :
    upperLabelsL (unmarshalElems (skelElems xs)) = upperLabelsL (unmarshalElems xs) := by
  induction xs with
  | nil => rfl
  | cons x rest ih =>
    rw [domElems, Bool.and_eq_true] at hd
    rw [skelElems, unmarshalElems, unmarshalElems, upperLabelsL, upperLabelsL, fixpoint_aux x hd.1, ih hd.2]

/-- **C04 (fixpoint).** Unmarshalling the reconstruction gives a slice deeply equal to the first
one, labels compared case-insensitively (the reconstruction does not carry the case-folding option,
so a folded `and` comes back as `AND`; nothing else may differ). -/
theorem C04_fixpoint (s : Stk) (hd : s.Dom) :
    upperLabels (.anys s.skelStk.unmarshal) = upperLabels (.anys s.unmarshal) := by
  unfold Stk.unmarshal Stk.skelStk strV Cfg.kindText
  rw [upperLabels_row, upperLabels_row, fixpoint_elems s.xs hd.2, upper_foldValue _ s.cfg.cfold _ hd.1]

/-- the same, starting from the call: what `Marshal` leaves in a fresh receiver unmarshals to the
first slice, up to label case -/
theorem C04_fixpoint_via_marshal (interp : Nat → Val → Option Nat) (s : Stk) (hd : s.Dom) :
    ∃ z, marshalInto interp none s.unmarshal = (some z, none) ∧
      upperLabels (.anys z.unmarshal) = upperLabels (.anys s.unmarshal) :=
  ⟨s.skelStk, C04_roundtrip interp s hd, C04_fixpoint s hd⟩

-- TODO C04_isEqual (the equality model is built elsewhere)

/-! ## non-vacuity -/

/-- a tree of depth 3: case-folded AND with a capacity, holding a leaf equal to "AND", a nil, an
aliased OR stack with a Condition whose expression is a LIST stack and an empty NOT, and a
Condition with an out-of-range operator code and a string expression -/
def exTree : Stk :=
  ⟨{ kind := Gen.kind_and, cap := 10, opt := Gen.flag_cfold },
   [ .leaf (.str "AND".toList), .nil,
     .stk .alias { kind := Gen.kind_or }
       [ .cnd .native { kind := Gen.kind_cond } "kw".toList (.cmp 1)
           (.stk .native { kind := Gen.kind_list } [.leaf (.int 3), .nil]),
         .stk .native { kind := Gen.kind_not } [] ],
     .cnd .alias { kind := Gen.kind_cond } "k2".toList (.user 7 "~".toList "ctx".toList) (.leaf (.str "x".toList)) ]⟩

example : exTree.Dom := by decide

example : exTree.unmarshal =
    [ strV "and".toList, strV "AND".toList, .nil,
      .anys [ strV "OR".toList,
              .anys [strV "CONDITION".toList, strV "kw".toList, .opv (.cmp 1),
                     .anys [strV "LIST".toList, .leaf (.int 3), .nil]],
              .anys [strV "NOT".toList] ],
      .anys [strV "CONDITION".toList, strV "k2".toList, .opv (.user 7 "~".toList "ctx".toList), strV "x".toList] ] := by
  rfl

example : exTree.skelStk =
    ⟨{ kind := Gen.kind_and },
     [ .leaf (.str "AND".toList), .nil,
       .stk .native { kind := Gen.kind_or }
         [ .cnd .native { kind := Gen.kind_cond } "kw".toList (.cmp 1)
             (.stk .native { kind := Gen.kind_list } [.leaf (.int 3), .nil]),
           .stk .native { kind := Gen.kind_not } [] ],
       .cnd .native { kind := Gen.kind_cond } "k2".toList (.user 7 "~".toList "ctx".toList) (.leaf (.str "x".toList)) ]⟩ := by
  rfl

example : marshalInto (fun _ _ => none) none exTree.unmarshal = (some exTree.skelStk, none) :=
  C04_roundtrip _ _ (by decide)
example : marshalInto (fun _ _ => none) none [.anys exTree.unmarshal] = (some exTree.skelStk, none) :=
  C04_roundtrip_enveloped _ _ (by decide)
example : upperLabels (.anys exTree.skelStk.unmarshal) = upperLabels (.anys exTree.unmarshal) :=
  C04_fixpoint _ (by decide)
/-- the label case does differ here: the original folds (`and`), the reconstruction does not (`AND`) -/
example : exTree.skelStk.unmarshal.head? = some (strV "AND".toList) ∧ exTree.unmarshal.head? = some (strV "and".toList) :=
  ⟨rfl, rfl⟩

/-- Condition in Condition in Condition (native, alias, pointer), an alias-with-String LIST below the innermost one which
holds, again, a Condition whose expression is a Condition: every node is expanded by `Unmarshal` (nothing live is left in
the slice) and rebuilt by `Marshal` as an independent native node (repair F43) -/
def exCic : Stk :=
  ⟨{ kind := Gen.kind_and },
   [ .cnd .native { kind := Gen.kind_cond } "a".toList (.cmp 1)
       (.cnd .alias { kind := Gen.kind_cond } "b".toList (.cmp 2)
         (.cnd .ptr { kind := Gen.kind_cond } "c".toList (.cmp 3)
           (.stk .aliasS { kind := Gen.kind_list }
             [ .leaf (.str "x".toList), .leaf (.int 3),
               .cnd .native { kind := Gen.kind_cond } "d".toList (.cmp 4)
                 (.cnd .aliasS { kind := Gen.kind_cond } "e".toList (.cmp 5) (.leaf (.int 1))) ]))) ]⟩

example : exCic.Dom := by decide

example : exCic.unmarshal =
    [ strV "AND".toList,
      .anys [strV "CONDITION".toList, strV "a".toList, .opv (.cmp 1),
        .anys [strV "CONDITION".toList, strV "b".toList, .opv (.cmp 2),
          .anys [strV "CONDITION".toList, strV "c".toList, .opv (.cmp 3),
            .anys [strV "LIST".toList, strV "x".toList, .leaf (.int 3),
              .anys [strV "CONDITION".toList, strV "d".toList, .opv (.cmp 4),
                .anys [strV "CONDITION".toList, strV "e".toList, .opv (.cmp 5), .leaf (.int 1)]]]]]] ] := by
  rfl

example : exCic.skelStk =
    ⟨{ kind := Gen.kind_and },
     [ .cnd .native { kind := Gen.kind_cond } "a".toList (.cmp 1)
         (.cnd .native { kind := Gen.kind_cond } "b".toList (.cmp 2)
           (.cnd .native { kind := Gen.kind_cond } "c".toList (.cmp 3)
             (.stk .native { kind := Gen.kind_list }
               [ .leaf (.str "x".toList), .leaf (.int 3),
                 .cnd .native { kind := Gen.kind_cond } "d".toList (.cmp 4)
                   (.cnd .native { kind := Gen.kind_cond } "e".toList (.cmp 5) (.leaf (.int 1))) ]))) ]⟩ := by
  rfl

example : marshalInto (fun _ _ => none) none exCic.unmarshal = (some exCic.skelStk, none) :=
  C04_roundtrip _ _ (by decide)
example : marshalInto (fun _ _ => none) none [.anys exCic.unmarshal] = (some exCic.skelStk, none) :=
  C04_roundtrip_enveloped _ _ (by decide)
example : upperLabels (.anys exCic.skelStk.unmarshal) = upperLabels (.anys exCic.unmarshal) :=
  C04_fixpoint _ (by decide)

/-- outside the domain the statement is false: an element that is itself a `[]any` row is decoded -/
example : ¬ (⟨{ kind := Gen.kind_list }, [.anys [strV "OR".toList]]⟩ : Stk).Dom := by decide

end Stackage
