import Stackage.Lemmas.Options
import Stackage.Lemmas.LogLevel

/-!
# C18 — options are independent switches with faithful getters

All statements are about the regenerated bit helpers (`Gen.cfgFlag_*`), flag and level constants
(`Gen.flag_*`, `Gen.lvl_*`, `Gen.lvlNames`, `Gen.lvlMap`) and hold for **every** option word `opt : Nat`
(the Go field is a `uint16`), not for sampled ones. "Valid" (`c.valid`) is what `IsInit()` guarantees: the
configuration carries a kind. The Stack and the Condition methods run the same `nodeConfig` code; the
theorems are therefore stated on `Cfg`, `Stk.call` lifts them to a Stack with its content.
-/

set_option linter.unusedSimpArgs false
namespace Stackage
open OptSpec

/-! ## the constants and the wrapper tables -/

/-- the ten flags are ten different single bits of a 16-bit word -/
theorem C18_consts :
    Gen.allFlags.length = 10 ∧ Gen.allFlags.Nodup ∧ ∀ f ∈ Gen.allFlags, ∃ i, i < 16 ∧ f = 2 ^ i := by decide

/-- every exported tri-state setter (aliases resolved) hands exactly the flag of its name to `setState` -/
theorem C18_wrappers : Gen.triState = [
    ("Condition", "NoNesting", Gen.flag_nnest), ("Condition", "NoPadding", Gen.flag_nspad), ("Condition", "Paren", Gen.flag_parens),
    ("Condition", "SetNoNesting", Gen.flag_nnest), ("Condition", "SetNoPadding", Gen.flag_nspad), ("Condition", "SetParen", Gen.flag_parens),
    ("Condition", "SetReadOnly", Gen.flag_ronly),
    ("Stack", "Fold", Gen.flag_cfold), ("Stack", "ForwardIndices", Gen.flag_fwdidx), ("Stack", "LeadOnce", Gen.flag_lonce),
    ("Stack", "NegativeIndices", Gen.flag_negidx), ("Stack", "NoNesting", Gen.flag_nnest), ("Stack", "NoPadding", Gen.flag_nspad),
    ("Stack", "Paren", Gen.flag_parens), ("Stack", "ReadOnly", Gen.flag_ronly),
    ("Stack", "SetFold", Gen.flag_cfold), ("Stack", "SetForwardIndices", Gen.flag_fwdidx), ("Stack", "SetLeadOnce", Gen.flag_lonce),
    ("Stack", "SetNegativeIndices", Gen.flag_negidx), ("Stack", "SetNoNesting", Gen.flag_nnest), ("Stack", "SetNoPadding", Gen.flag_nspad),
    ("Stack", "SetParen", Gen.flag_parens), ("Stack", "SetReadOnly", Gen.flag_ronly)] := by decide

/-- every niladic Boolean getter that goes through `getState` reads the flag of its name, negated where the
name says so (`IsPadded` = not no-padding, `CanNest` = not no-nesting) -/
theorem C18_getter_table : Gen.stateGetters = [
    ("Condition", "CanNest", Gen.flag_nnest, true), ("Condition", "IsPadded", Gen.flag_nspad, true),
    ("Condition", "IsParen", Gen.flag_parens, false), ("Condition", "IsReadOnly", Gen.flag_ronly, false),
    ("Stack", "CanNest", Gen.flag_nnest, true), ("Stack", "IsPadded", Gen.flag_nspad, true),
    ("Stack", "IsParen", Gen.flag_parens, false), ("Stack", "IsReadOnly", Gen.flag_ronly, false)] := by decide

/-- the flags with a public setter are among the ten, and a Condition offers a subset of what a Stack offers -/
theorem C18_exposed : (∀ f ∈ stackOptFlags, f ∈ Gen.allFlags) ∧ (∀ f ∈ condOptFlags, f ∈ stackOptFlags) ∧
    stackOptFlags.length = 8 ∧ condOptFlags.length = 4 := by decide

/-! ## one switch at a time: set, clear, toggle -/

/-- setting flag `f` turns `f` on, leaves every other flag `g` as it was and writes nothing but the option word -/
theorem C18_set (c : Cfg) (hv : c.valid = true) (f g : Nat) (hf : f ∈ Gen.allFlags) (hg : g ∈ Gen.allFlags) :
    (c.setOpt f).positive g = (if g = f then true else c.positive g) ∧ { c.setOpt f with opt := c.opt } = c := by
  obtain ⟨i, _, rfl⟩ := flags_pow f hf
  obtain ⟨j, _, rfl⟩ := flags_pow g hg
  refine ⟨?_, by unfold Cfg.setOpt; cases c; dsimp only; split <;> rfl⟩
  rw [Cfg.positive_setOpt c hv]; simp only [two_pow_inj]
  by_cases h : j = i
  · subst h; simp
  · have : ¬ i = j := fun e => h e.symm
    simp [h, this]

/-- clearing flag `f` turns `f` off and leaves every other flag as it was -/
theorem C18_clear (c : Cfg) (hv : c.valid = true) (f g : Nat) (hf : f ∈ Gen.allFlags) (hg : g ∈ Gen.allFlags) :
    (c.unsetOpt f).positive g = (if g = f then false else c.positive g) ∧ { c.unsetOpt f with opt := c.opt } = c := by
  obtain ⟨i, _, rfl⟩ := flags_pow f hf
  obtain ⟨j, hj, rfl⟩ := flags_pow g hg
  refine ⟨?_, by unfold Cfg.unsetOpt; cases c; dsimp only; split <;> rfl⟩
  rw [Cfg.positive_unsetOpt c hv i j hj]; simp only [two_pow_inj]
  by_cases h : j = i
  · subst h; simp
  · have : ¬ i = j := fun e => h e.symm
    simp [h, this]

/-- toggling flag `f` inverts `f` and leaves every other flag as it was -/
theorem C18_toggle (c : Cfg) (hv : c.valid = true) (f g : Nat) (hf : f ∈ Gen.allFlags) (hg : g ∈ Gen.allFlags) :
    (c.toggleOpt f).positive g = (if g = f then !c.positive f else c.positive g) ∧ { c.toggleOpt f with opt := c.opt } = c := by
  obtain ⟨i, _, rfl⟩ := flags_pow f hf
  obtain ⟨j, hj, rfl⟩ := flags_pow g hg
  refine ⟨?_, by unfold Cfg.toggleOpt; cases c; dsimp only; split <;> rfl⟩
  rw [Cfg.positive_toggleOpt c hv i j hj]; simp only [two_pow_inj]
  by_cases h : j = i
  · subst h; simp
  · have : ¬ i = j := fun e => h e.symm
    simp [h, this]

/-- the public tri-state setter (`SetParen(true)`, `SetParen(false)`, `SetParen()` …) on a writable instance, or
for the read-only flag itself: flag `f` ends as requested (an absent argument inverts it), every other flag `g`
is unchanged, nothing but the option word is written -/
theorem C18_state (c : Cfg) (hv : c.valid = true) (f g : Nat) (hf : f ∈ Gen.allFlags) (hg : g ∈ Gen.allFlags)
    (st : Option Bool) (hro : c.readOnly = false ∨ f = Gen.flag_ronly) :
    (c.setState f st).positive g = (if g = f then st.getD (!c.positive f) else c.positive g) ∧
    { c.setState f st with opt := c.opt } = c := by
  obtain ⟨i, _, rfl⟩ := flags_pow f hf
  obtain ⟨j, hj, rfl⟩ := flags_pow g hg
  refine ⟨?_, Cfg.setState_frame c _ st⟩
  rw [Cfg.positive_setState c hv i j hj st hro]; simp only [two_pow_inj]

/-- a Stack's content is never touched by any of the calls of this property -/
theorem C18_content (s : Stk) (o : OptCall) : (s.call o).xs = s.xs := rfl

/-- on a read-only instance every tri-state setter except `SetReadOnly` does nothing at all -/
theorem C18_state_readonly (c : Cfg) (f : Nat) (st : Option Bool) (hro : c.readOnly = true) (hf : f ≠ Gen.flag_ronly) :
    c.setState f st = c := Cfg.setState_blocked c f st hro hf

/-- read-only blocks every call of this property except a request for the read-only option itself -/
theorem C18_readonly (c : Cfg) (o : OptCall) (hro : c.readOnly = true)
    (h : ∀ st, o ≠ .state Gen.flag_ronly st) : c.call o = c := by
  cases o with
  | state f st => exact Cfg.setState_blocked c f st hro (fun e => h st (by rw [e]))
  | fifo b => show c.setFIFO b = c; unfold Cfg.setFIFO; unfold Cfg.readOnly at hro; rw [if_pos hro]
  | id x g => show c.SetID x g = c; unfold Cfg.SetID Cfg.guarded; rw [if_pos hro]
  | cat x => show c.SetCategory x = c; unfold Cfg.SetCategory Cfg.guarded; rw [if_pos hro]
  | delim x => show c.SetDelimiter x = c; unfold Cfg.SetDelimiter Cfg.guarded; rw [if_pos hro]
  | sym x => show c.SetSymbol x = c; unfold Cfg.SetSymbol Cfg.guarded; rw [if_pos hro]
  | enc x => show c.SetEncap x = c; unfold Cfg.SetEncap Cfg.guarded; rw [if_pos hro]
  | aux x => show c.SetAuxiliary x = c; unfold Cfg.SetAuxiliary Cfg.guarded; rw [if_pos hro]
  | lvlSet x => show c.SetLogLevel x = c; unfold Cfg.SetLogLevel Cfg.guarded; rw [if_pos hro]
  | lvlUnset x => show c.UnsetLogLevel x = c; unfold Cfg.UnsetLogLevel Cfg.guarded; rw [if_pos hro]

theorem Cfg.guarded_kind (c : Cfg) (f : Cfg → Cfg) (h : (f c).kind = c.kind) : (c.guarded f).kind = c.kind := by
  unfold Cfg.guarded; split
  · rfl
  · exact h

/-- no call ever changes the kind, so an initialised instance stays initialised -/
theorem C18_call_valid (c : Cfg) (o : OptCall) : (c.call o).valid = c.valid := by
  have hk : (c.call o).kind = c.kind := by
    cases o with
    | state f st => exact Cfg.setState_kind c f st
    | fifo b => show (c.setFIFO b).kind = c.kind; unfold Cfg.setFIFO; split <;> (try split) <;> rfl
    | id x g => exact Cfg.guarded_kind c _ rfl
    | cat x => exact Cfg.guarded_kind c _ rfl
    | delim x => exact Cfg.guarded_kind c _ (by split <;> rfl)
    | sym x => exact Cfg.guarded_kind c _ (by split <;> rfl)
    | enc x => exact Cfg.guarded_kind c _ (by split <;> rfl)
    | aux x => exact Cfg.guarded_kind c _ rfl
    | lvlSet x => exact Cfg.guarded_kind c _ rfl
    | lvlUnset x => exact Cfg.guarded_kind c _ rfl
  unfold Cfg.valid; rw [hk]

/-! ## the bit-field implements independent switches (refinement of `OptSpec.step`) -/

/-- one call: reading the switches off the configuration after the call (`abs`, through the model's own getter)
gives exactly what the independent-switch specification computes from the switches before it. This covers the
tri-state setters of all eight options, FIFO, ID, category, delimiter, symbol, encapsulation, auxiliary map and
both log-level calls, the read-only guard included. -/
theorem C18_refines (c : Cfg) (hv : c.valid = true) (sc : Call) : abs (c.call sc.toModel) = step (abs c) sc := by
  have hro_eq : (abs c).ronly = c.readOnly := rfl
  cases sc with
  | state o st =>
    show abs (c.setState o.flag st) = step (abs c) (.state o st)
    rw [step_state]
    by_cases hb : ((abs c).ronly && o != .ronly) = true
    · rw [if_pos hb]
      simp only [Bool.and_eq_true, bne_iff_ne] at hb
      have hne : o.flag ≠ Gen.flag_ronly := fun e => hb.2 ((Opt.flag_inj o .ronly).mp e)
      rw [Cfg.setState_blocked c o.flag st hb.1 hne]
    · rw [if_neg hb]
      have hro : c.readOnly = false ∨ o.flag = Gen.flag_ronly := by
        by_cases ho : o = .ronly
        · right; rw [ho]; rfl
        · left; rw [← hro_eq]; simpa [ho] using hb
      have hfr := Cfg.setState_frame c o.flag st
      have hfield : ∀ {α : Type} (p : Cfg → α), p (c.setState o.flag st) = p c → True := fun _ _ => trivial
      have hk := Cfg.setState_kind c o.flag st
      have h1 : (c.setState o.flag st).fifo = c.fifo := by have := congrArg Cfg.fifo hfr; simpa using this
      have h3 : (c.setState o.flag st).sym = c.sym := by have := congrArg Cfg.sym hfr; simpa using this
      have h4 : (c.setState o.flag st).ljc = c.ljc := by have := congrArg Cfg.ljc hfr; simpa using this
      have h5 : (c.setState o.flag st).enc = c.enc := by have := congrArg Cfg.enc hfr; simpa using this
      have h6 : (c.setState o.flag st).id = c.id := by have := congrArg Cfg.id hfr; simpa using this
      have h7 : (c.setState o.flag st).cat = c.cat := by have := congrArg Cfg.cat hfr; simpa using this
      have h8 : (c.setState o.flag st).aux = c.aux := by have := congrArg Cfg.aux hfr; simpa using this
      have h9 : (c.setState o.flag st).lvl = c.lvl := by have := congrArg Cfg.lvl hfr; simpa using this
      obtain ⟨p1, p2, p3, p4, p5, p6, p7, p8, p9⟩ := put_rest (abs c) o (st.getD (!(abs c).get o))
      apply St.ext'
      · intro o'
        rw [abs_get, get_put, abs_get, abs_get]
        have := (C18_state c hv o.flag o'.flag (Opt.flag_mem o) (Opt.flag_mem o') st hro).1
        rw [this]; simp only [Opt.flag_inj]
      · rw [p1]; exact h1
      · rw [p2]; show ((c.setState o.flag st).kind == Gen.kind_list) = (c.kind == Gen.kind_list); rw [hk]
      · rw [p3]; exact h3
      · rw [p4]; exact h4
      · rw [p5]; exact h5
      · rw [p6]; exact h6
      · rw [p7]; exact h7
      · rw [p8]; exact h8
      · rw [p9]; show lvlAbs (c.setState o.flag st).lvl = lvlAbs c.lvl; rw [h9]
  | fifo b =>
    show abs (c.setFIFO b) = _
    have hg : c.setFIFO b = c.guarded (fun c => if !c.fifo then { c with fifo := b } else c) := rfl
    rw [step_fifo, hg, guarded_abs]; congr 1
    by_cases hf : c.fifo = true
    · simp [hf, abs]
    · simp [hf, abs, Cfg.positive, Cfg.valid]
  | id x g => exact guarded_abs c _
  | cat x => exact guarded_abs c _
  | delim x =>
    show abs (c.SetDelimiter x) = _
    rw [step_delim]; unfold Cfg.SetDelimiter; rw [guarded_abs]; congr 1
    by_cases hk : c.kind = Gen.kind_list
    · simp [hk, abs, delim_eq, Cfg.positive, Cfg.valid]
    · simp [hk, abs]
  | sym xs =>
    show abs (c.SetSymbol xs) = _
    rw [step_sym]; unfold Cfg.SetSymbol; rw [guarded_abs]; congr 1
    by_cases hk : c.kind = Gen.kind_list
    · simp [hk, abs]
    · simp [hk, abs, symbol_eq, Cfg.positive, Cfg.valid]
  | enc xs =>
    show abs (c.SetEncap xs) = _
    rw [step_enc]; unfold Cfg.SetEncap; rw [guarded_abs]; congr 1
    by_cases hx : xs.isEmpty = true
    · simp [hx, abs, Cfg.positive, Cfg.valid]
    · simp [hx, abs, encStep_eq, Cfg.positive, Cfg.valid]
  | aux a =>
    show abs (c.SetAuxiliary a) = _
    unfold Cfg.SetAuxiliary; rw [guarded_abs]
    rcases a with _ | _ | i <;> rfl
  | lvlSet xs =>
    show abs (c.SetLogLevel xs) = _
    rw [step_lvlSet]; unfold Cfg.SetLogLevel; rw [guarded_abs]; congr 1
    simp [abs, shift_abs, Cfg.positive, Cfg.valid]
  | lvlUnset xs =>
    show abs (c.UnsetLogLevel xs) = _
    rw [step_lvlUnset]; unfold Cfg.UnsetLogLevel; rw [guarded_abs]; congr 1
    simp [abs, unshift_abs, Cfg.positive, Cfg.valid]

/-- the model's run of a sequence of calls -/
def Cfg.calls (c : Cfg) (cs : List Call) : Cfg := cs.foldl (fun c sc => c.call sc.toModel) c

theorem C18_calls_valid (c : Cfg) (cs : List Call) : (c.calls cs).valid = c.valid := by
  induction cs generalizing c with
  | nil => rfl
  | cons sc rest ih => unfold Cfg.calls; rw [List.foldl_cons]; exact (ih _).trans (C18_call_valid c _)

/-- any history of calls: after the whole sequence the switches read off the configuration are what the
independent-switch specification computes (induction over the history) -/
theorem C18_history (c : Cfg) (hv : c.valid = true) (cs : List Call) : abs (c.calls cs) = run (abs c) cs := by
  induction cs generalizing c with
  | nil => rfl
  | cons sc rest ih =>
    unfold Cfg.calls run; rw [List.foldl_cons, List.foldl_cons]
    have := ih (c.call sc.toModel) (by rw [C18_call_valid]; exact hv)
    unfold Cfg.calls run at this
    rw [this, C18_refines c hv sc]

/-! ### what a history of tri-state calls leaves behind -/

/-- a history of tri-state requests `(option, true/false/absent)` as calls -/
def triCalls (cs : List (Opt × Option Bool)) : List Call := cs.map (fun p => .state p.1 p.2)

/-- the requests of a history that address option `o`, in order -/
def requestsFor (o : Opt) (cs : List (Opt × Option Bool)) : List (Option Bool) := (cs.filter (fun p => p.1 == o)).map (·.2)

/-- the read-only option always obeys its own requests, whatever else is requested in between -/
theorem C18_history_ronly (s : St) (cs : List (Opt × Option Bool)) :
    (run s (triCalls cs)).ronly = replay s.ronly (requestsFor .ronly cs) := by
  induction cs generalizing s with
  | nil => rfl
  | cons p rest ih =>
    obtain ⟨o, st⟩ := p
    unfold run triCalls at *; rw [List.map_cons, List.foldl_cons, ih, step_state]
    have hg : ∀ t : St, t.ronly = t.get .ronly := fun _ => rfl
    by_cases ho : o = .ronly
    · subst ho; simp [requestsFor, replay, hg, get_put]
    · by_cases hr : s.ronly = true
      · simp [requestsFor, ho, hr]
      · have hp := put_ronly s o (st.getD (!s.get o)) ho
        simp [requestsFor, ho, hr, hp]

/-- as long as read-only is neither set at the start nor requested, every option ends in the state its own
requests leave behind (the last explicit request, inverted once per absent-argument call after it) and is not
influenced by any request addressed to another option -/
theorem C18_history_switches (s : St) (cs : List (Opt × Option Bool)) (hro : s.ronly = false)
    (hno : ∀ p ∈ cs, p.1 ≠ .ronly) (o : Opt) :
    (run s (triCalls cs)).get o = replay (s.get o) (requestsFor o cs) := by
  induction cs generalizing s with
  | nil => rfl
  | cons p rest ih =>
    obtain ⟨o', st⟩ := p
    have ho' : o' ≠ .ronly := hno (o', st) (List.mem_cons_self ..)
    have hstep : step s (.state o' st) = s.put o' (st.getD (!s.get o')) := by rw [step_state]; simp [hro]
    have hro' : (s.put o' (st.getD (!s.get o'))).ronly = false := by
      have : ∀ t : St, t.ronly = t.get .ronly := fun _ => rfl
      rw [this, get_put]; simp [Ne.symm ho', ← this, hro]
    unfold run triCalls at *; rw [List.map_cons, List.foldl_cons, hstep]
    rw [ih _ hro' (fun p hp => hno p (List.mem_cons_of_mem _ hp)), get_put]
    by_cases h : o = o'
    · subst h; simp [requestsFor, replay]
    · have : ¬ o' = o := fun e => h e.symm
      simp [requestsFor, h, this]

/-- the same on the bit-field: after any history of tri-state calls that leaves read-only alone, the bit of
every public option `o` is what the requests addressed to `o` leave behind, starting from its bit before -/
theorem C18_history_bits (c : Cfg) (hv : c.valid = true) (cs : List (Opt × Option Bool)) (hro : c.readOnly = false)
    (hno : ∀ p ∈ cs, p.1 ≠ .ronly) (o : Opt) :
    (c.calls (triCalls cs)).positive o.flag = replay (c.positive o.flag) (requestsFor o cs) := by
  rw [← abs_get, C18_history c hv, C18_history_switches (abs c) cs hro hno o, abs_get]

/-! ### inversions from several callers: only how often counts, not in which order

On a mutex-enabled stack the calls of several goroutines take effect one after the other, in an order nobody
controls (`toggleOpt` runs under the lock). The next three theorems say that for calls *without an argument* the
order is immaterial: an option ends where it started exactly when it was inverted an even number of times. The
harness's `stress -toggles` rounds (extra step of the C18 check) test exactly this equation on the real code. -/

/-- `n` inversions in a row -/
theorem replay_inversions (b : Bool) (rs : List (Option Bool)) (h : ∀ r ∈ rs, r = none) :
    replay b rs = (b != (rs.length % 2 == 1)) := by
  induction rs generalizing b with
  | nil => simp [replay]
  | cons r rest ih =>
    have hr : r = none := h r (List.mem_cons_self ..)
    subst hr
    rw [replay, ih _ (fun r hr => h r (List.mem_cons_of_mem _ hr))]
    simp only [Option.getD_none, List.length_cons]
    have hpar : ((rest.length + 1) % 2 == 1) = !(rest.length % 2 == 1) := by
      rcases Nat.mod_two_eq_zero_or_one rest.length with h0 | h1
      · have : (rest.length + 1) % 2 = 1 := by omega
        simp [h0, this]
      · have : (rest.length + 1) % 2 = 0 := by omega
        simp [h1, this]
    rw [hpar]; cases b <;> cases (rest.length % 2 == 1) <;> rfl

/-- a history that consists of inversions only (no argument; read-only neither set nor addressed): every option
stands opposite to where it stood exactly when the number of inversions addressed to it is odd -/
theorem C18_inversions_parity (c : Cfg) (hv : c.valid = true) (cs : List (Opt × Option Bool)) (hro : c.readOnly = false)
    (hno : ∀ p ∈ cs, p.1 ≠ .ronly) (hinv : ∀ p ∈ cs, p.2 = none) (o : Opt) :
    (c.calls (triCalls cs)).positive o.flag = (c.positive o.flag != ((cs.filter (fun p => p.1 == o)).length % 2 == 1)) := by
  rw [C18_history_bits c hv cs hro hno o, replay_inversions]
  · simp [requestsFor]
  · intro r hr
    simp only [requestsFor, List.mem_map, List.mem_filter] at hr
    obtain ⟨p, ⟨hp, _⟩, rfl⟩ := hr
    exact hinv p hp

/-- ... hence the order in which the inversions take effect does not matter: any two orders of the same calls leave
every option in the same state -/
theorem C18_inversions_order (c : Cfg) (hv : c.valid = true) (cs cs' : List (Opt × Option Bool)) (hp : cs.Perm cs')
    (hro : c.readOnly = false) (hno : ∀ p ∈ cs, p.1 ≠ .ronly) (hinv : ∀ p ∈ cs, p.2 = none) (o : Opt) :
    (c.calls (triCalls cs)).positive o.flag = (c.calls (triCalls cs')).positive o.flag := by
  rw [C18_inversions_parity c hv cs hro hno hinv o,
      C18_inversions_parity c hv cs' hro (fun p h => hno p (hp.mem_iff.mpr h)) (fun p h => hinv p (hp.mem_iff.mpr h)) o,
      (hp.filter _).length_eq]

/-! ## getters -/

/-- each Boolean getter reports exactly its bit / field of an initialised instance -/
theorem C18_getters (c : Cfg) (hv : c.valid = true) :
    c.IsParen = c.opt.testBit 0 ∧ c.IsPadded = !c.opt.testBit 2 ∧ c.IsReadOnly = c.opt.testBit 7 ∧
    c.CanNest = !c.opt.testBit 8 ∧ c.IsEncap = !c.enc.isEmpty ∧ c.IsFIFO = c.fifo ∧
    c.ID = c.id ∧ c.Category = c.cat ∧ c.Delimiter = c.ljc ∧ c.Auxiliary = c.aux := by
  have e0 : Gen.flag_parens = 2 ^ 0 := by decide
  have e2 : Gen.flag_nspad = 2 ^ 2 := by decide
  have e7 : Gen.flag_ronly = 2 ^ 7 := by decide
  have e8 : Gen.flag_nnest = 2 ^ 8 := by decide
  refine ⟨?_, ?_, ?_, ?_, ?_, rfl, rfl, rfl, rfl, rfl⟩
  · unfold Cfg.IsParen; rw [e0, Cfg.positive_eq c hv]
  · unfold Cfg.IsPadded; rw [e2, Cfg.positive_eq c hv]
  · unfold Cfg.IsReadOnly; rw [e7, Cfg.positive_eq c hv]
  · unfold Cfg.CanNest; rw [e8, Cfg.positive_eq c hv]
  · unfold Cfg.IsEncap; cases c.enc <;> simp

/-- the getters are faithful to the setters: on a writable instance `IsParen`, `IsPadded`, `CanNest` answer what
was last requested (with the polarity of their names), and `IsReadOnly` does so on any instance -/
theorem C18_getters_faithful (c : Cfg) (hv : c.valid = true) (b : Bool) :
    (c.readOnly = false → (c.setState Gen.flag_parens (some b)).IsParen = b ∧
      (c.setState Gen.flag_nspad (some b)).IsPadded = !b ∧ (c.setState Gen.flag_nnest (some b)).CanNest = !b) ∧
    (c.setState Gen.flag_ronly (some b)).IsReadOnly = b := by
  refine ⟨fun hro => ⟨?_, ?_, ?_⟩, ?_⟩
  · have := (C18_state c hv Gen.flag_parens Gen.flag_parens (by decide) (by decide) (some b) (Or.inl hro)).1
    unfold Cfg.IsParen; rw [this]; simp
  · have := (C18_state c hv Gen.flag_nspad Gen.flag_nspad (by decide) (by decide) (some b) (Or.inl hro)).1
    unfold Cfg.IsPadded; rw [this]; simp
  · have := (C18_state c hv Gen.flag_nnest Gen.flag_nnest (by decide) (by decide) (some b) (Or.inl hro)).1
    unfold Cfg.CanNest; rw [this]; simp
  · have := (C18_state c hv Gen.flag_ronly Gen.flag_ronly (by decide) (by decide) (some b) (Or.inr rfl)).1
    unfold Cfg.IsReadOnly; rw [this]; simp

/-! ## the FIFO latch -/

/-- once FIFO is on, no call of any kind (and in particular no sequence of `SetFIFO` calls) turns it off -/
theorem C18_fifo_latch (c : Cfg) (hv : c.valid = true) (cs : List Call) (h : c.fifo = true) : (c.calls cs).fifo = true := by
  have hs : ∀ (s : St) (sc : Call), s.fifo = true → (step s sc).fifo = true := by
    intro s sc hf
    cases sc with
    | state o st => rw [step_state]; split
                    · exact hf
                    · rw [(put_rest s o _).1]; exact hf
    | fifo b => rw [step_fifo]; unfold unlessRO; simp [hf]
    | aux a => rcases a with _ | _ | i <;> (simp only [step, unlessRO]; split <;> exact hf)
    | _ => simp only [step, unlessRO] <;> split <;> (try split) <;> exact hf
  have hr : ∀ (cs : List Call) (s : St), s.fifo = true → (run s cs).fifo = true := by
    intro cs; induction cs with
    | nil => intro s hf; exact hf
    | cons sc rest ih => intro s hf; unfold run; rw [List.foldl_cons]; exact ih _ (hs s sc hf)
  have := hr cs (abs c) h
  rw [← C18_history c hv cs] at this; exact this

/-- and it can be switched on exactly once: on a writable instance whose latch is off, `SetFIFO(b)` stores `b` -/
theorem C18_fifo_set (c : Cfg) (b : Bool) (hro : c.readOnly = false) (h : c.fifo = false) : (c.setFIFO b).IsFIFO = b := by
  unfold Cfg.readOnly at hro
  unfold Cfg.setFIFO Cfg.IsFIFO; simp [hro, h]

/-! ## string-valued settings -/

/-- ID, category, delimiter (LIST only), symbol (non-LIST only) and the auxiliary map are returned unchanged by
their getters; a delimiter offered to a non-LIST and a symbol offered to a LIST change nothing at all. The two
magic IDs (`_random`, `_addr`, any case) are replaced by a generated string and are excluded. -/
theorem C18_strings (c : Cfg) (hro : c.readOnly = false) (x : Text) :
    (Cfg.isMagicID x = false → ∀ g, (c.SetID x g).ID = x) ∧
    (c.SetCategory x).Category = x ∧
    (c.kind = Gen.kind_list → (c.SetDelimiter (.str x)).Delimiter = x) ∧
    (c.kind ≠ Gen.kind_list → ∀ a, c.SetDelimiter a = c) ∧
    (c.kind ≠ Gen.kind_list → (c.SetSymbol [.str x]).sym = x) ∧
    (c.kind = Gen.kind_list → ∀ as, c.SetSymbol as = c) ∧
    (∀ i, (c.SetAuxiliary (some (some i))).Auxiliary = some i) := by
  refine ⟨fun hm g => ?_, ?_, fun hk => ?_, fun hk a => ?_, fun hk => ?_, fun hk as => ?_, fun i => ?_⟩
  · simp [Cfg.SetID, Cfg.guarded, hro, Cfg.ID, hm]
  · simp [Cfg.SetCategory, Cfg.guarded, hro, Cfg.Category]
  · simp [Cfg.SetDelimiter, Cfg.guarded, hro, Cfg.Delimiter, hk, Cfg.assertListDelimiter]
  · simp [Cfg.SetDelimiter, Cfg.guarded, hro, hk]
  · simp [Cfg.SetSymbol, Cfg.guarded, hro, hk, Cfg.symbolOf]
  · simp [Cfg.SetSymbol, Cfg.guarded, hro, hk]
  · simp [Cfg.SetAuxiliary, Cfg.guarded, hro, Cfg.Auxiliary]

/-- a delimiter given as a rune is stored as that one character, NUL / nil / a foreign type unset it -/
theorem C18_delimiter_forms (c : Cfg) (hro : c.readOnly = false) (hk : c.kind = Gen.kind_list) :
    (∀ r : Int, r ≠ 0 → (c.SetDelimiter (.rune r)).Delimiter = Cfg.runeStr r) ∧
    (c.SetDelimiter (.rune 0)).Delimiter = [] ∧ (c.SetDelimiter .nil).Delimiter = [] ∧ (c.SetDelimiter .other).Delimiter = [] := by
  refine ⟨fun r hr => ?_, ?_, ?_, ?_⟩ <;>
    simp [Cfg.SetDelimiter, Cfg.guarded, hro, Cfg.Delimiter, hk, Cfg.assertListDelimiter, *]

/-- encapsulation: a single string or a pair is appended when none of its strings is in use, and refused
(nothing changes) when one of them already occurs in a stored group; `SetEncap()` resets; an empty slice and a
foreign value are ignored; `IsEncap` says whether a group is stored -/
theorem C18_encap (c : Cfg) (hro : c.readOnly = false) (a b : Text) :
    (Cfg.encInUse c.enc a = false → (c.SetEncap [.str a]).enc = c.enc ++ [[a]]) ∧
    (Cfg.encInUse c.enc a = true → c.SetEncap [.str a] = c) ∧
    (Cfg.encInUse c.enc a = false → Cfg.encInUse c.enc b = false → (c.SetEncap [.slice [a, b]]).enc = c.enc ++ [[a, b]]) ∧
    (Cfg.encInUse c.enc a = true ∨ Cfg.encInUse c.enc b = true → c.SetEncap [.slice [a, b]] = c) ∧
    (c.SetEncap []).enc = [] ∧ (c.SetEncap []).IsEncap = false ∧
    c.SetEncap [.slice []] = c ∧ c.SetEncap [.other] = c ∧
    (Cfg.encInUse c.enc a = false → (c.SetEncap [.str a]).IsEncap = true) := by
  refine ⟨fun h => ?_, fun h => ?_, fun h1 h2 => ?_, fun h => ?_, ?_, ?_, ?_, ?_, fun h => ?_⟩
  · simp [Cfg.SetEncap, Cfg.guarded, hro, Cfg.encStep, Cfg.encSlice, h]
  · simp [Cfg.SetEncap, Cfg.guarded, hro, Cfg.encStep, Cfg.encSlice, h]
  · simp [Cfg.SetEncap, Cfg.guarded, hro, Cfg.encStep, Cfg.encSlice, h1, h2]
  · rcases h with h | h <;> simp [Cfg.SetEncap, Cfg.guarded, hro, Cfg.encStep, Cfg.encSlice, h]
  · simp [Cfg.SetEncap, Cfg.guarded, hro]
  · simp [Cfg.SetEncap, Cfg.guarded, hro, Cfg.IsEncap]
  · simp [Cfg.SetEncap, Cfg.guarded, hro, Cfg.encStep, Cfg.encSlice]
  · simp [Cfg.SetEncap, Cfg.guarded, hro, Cfg.encStep]
  · simp [Cfg.SetEncap, Cfg.guarded, hro, Cfg.encStep, Cfg.encSlice, h, Cfg.IsEncap]

/-- the refusal in general: a group of any length is refused as soon as one of its first two strings already
occurs in a stored group -/
theorem C18_encap_refusal (enc : List (List Text)) (x : List Text) (s : Text) (hs : s ∈ x.take 2)
    (hu : Cfg.encInUse enc s = true) : Cfg.encSlice enc x = enc := by
  match x, hs with
  | [a], hs => simp at hs; subst hs; simp [Cfg.encSlice, hu]
  | a :: b :: rest, hs =>
    simp at hs
    rcases hs with h | h <;> subst h <;> simp [Cfg.encSlice, hu]

/-! ## log levels -/

/-- the three log-level operations on the bit-set are the operations on 16 independent switches: `SetLogLevel`
= `setLevels`, `UnsetLogLevel` = `unsetLevels`, `LogLevels()` = `levelString`; and the word stays 16 bits wide -/
theorem C18_loglevels (r : Nat) (xs : List LogLevel.Arg) (hr : r < 65536) :
    lvlAbs (LogLevel.shift r xs) = setLevels (lvlAbs r) xs ∧
    lvlAbs (LogLevel.unshift r xs) = unsetLevels (lvlAbs r) xs ∧
    LogLevel.string r = levelString (lvlAbs r) ∧
    LogLevel.shift r xs < 65536 ∧ LogLevel.unshift r xs < 65536 :=
  ⟨shift_abs r xs, unshift_abs r xs, string_abs r hr, shift_lt r xs hr, unshift_lt r xs hr⟩

/-- the level an argument denotes -/
def lvlOf (a : LogLevel.Arg) : Nat := (LogLevel.resolve a).1

/-- set = union: with arguments that are neither "none" nor "all", level `i` is on afterwards iff it was on
before or one of the arguments names it — for every word `r`, bit by bit -/
theorem C18_loglevels_set (r : Nat) (xs : List LogLevel.Arg) (hp : ∀ a ∈ xs, lvlOf a ≠ 0 ∧ lvlOf a ≠ 65535) (i : Nat) :
    (LogLevel.shift r xs).testBit i = (r.testBit i || xs.any (fun a => (lvlOf a).testBit i)) := by
  induction xs generalizing r with
  | nil => simp [LogLevel.shift]
  | cons a rest ih =>
    have ⟨h0, h1⟩ := hp a (List.mem_cons_self ..)
    unfold lvlOf at h0 h1
    rw [shift_cons, if_neg h0, if_neg h1, ih _ (fun b hb => hp b (List.mem_cons_of_mem _ hb))]
    have hok : (LogLevel.resolve a).2 = true := by
      cases h : (LogLevel.resolve a).2 with
      | true => rfl
      | false => exact absurd ((resolve_spec a).2.1 h) h0
    simp [hok, Nat.testBit_or, lvlOf, Bool.or_assoc]

/-- the shortcuts: the first argument that is "none" (0, or anything that is no level) switches everything
off, the first that is "all" (65535) switches everything on, and the rest of the call is discarded -/
theorem C18_loglevels_shortcuts (r : Nat) (pre post : List LogLevel.Arg) (a : LogLevel.Arg)
    (hp : ∀ b ∈ pre, lvlOf b ≠ 0 ∧ lvlOf b ≠ 65535) :
    (lvlOf a = 0 → LogLevel.shift r (pre ++ a :: post) = Gen.lvl_NoLogLevels) ∧
    (lvlOf a = 65535 → LogLevel.shift r (pre ++ a :: post) = Gen.lvl_AllLogLevels) := by
  induction pre generalizing r with
  | nil =>
    unfold lvlOf
    refine ⟨fun h => ?_, fun h => ?_⟩
    · rw [List.nil_append, shift_cons, if_pos h]
    · rw [List.nil_append, shift_cons, if_neg (by rw [h]; decide), if_pos h]
  | cons b rest ih =>
    have ⟨h0, h1⟩ := hp b (List.mem_cons_self ..)
    unfold lvlOf at h0 h1
    have ih' := fun r => ih r (fun c hc => hp c (List.mem_cons_of_mem _ hc))
    refine ⟨fun h => ?_, fun h => ?_⟩
    · rw [List.cons_append, shift_cons, if_neg h0, if_neg h1]; exact (ih' _).1 h
    · rw [List.cons_append, shift_cons, if_neg h0, if_neg h1]; exact (ih' _).2 h

/-- unset clears exactly the named bits: with arguments that are neither "none" nor "all", level `i` is on
afterwards iff it was on before and no argument names it; a "none" argument is skipped; an "all" argument ends
the call without clearing anything (the code's behaviour; its comment promises a reset) -/
theorem C18_loglevels_unset (r : Nat) (xs : List LogLevel.Arg) (a : LogLevel.Arg) :
    ((∀ b ∈ xs, lvlOf b ≠ 0 ∧ lvlOf b ≠ 65535) → ∀ i, i < 16 →
      (LogLevel.unshift r xs).testBit i = (r.testBit i && !xs.any (fun b => (lvlOf b).testBit i))) ∧
    (lvlOf a = 0 → LogLevel.unshift r (a :: xs) = LogLevel.unshift r xs) ∧
    (lvlOf a = 65535 → LogLevel.unshift r (a :: xs) = r) := by
  refine ⟨?_, fun h => ?_, fun h => ?_⟩
  · intro hp i hi
    induction xs generalizing r with
    | nil => simp [LogLevel.unshift]
    | cons b rest ih =>
      have ⟨h0, h1⟩ := hp b (List.mem_cons_self ..)
      unfold lvlOf at h0 h1
      rw [unshift_cons, if_neg h0, if_neg h1, ih _ (fun c hc => hp c (List.mem_cons_of_mem _ hc))]
      have hok : (LogLevel.resolve b).2 = true := by
        cases h : (LogLevel.resolve b).2 with
        | true => rfl
        | false => exact absurd ((resolve_spec b).2.1 h) h0
      simp [hok, Bits.testBit_andNot _ _ i hi, lvlOf, Bool.and_assoc]
  · unfold lvlOf at h; rw [unshift_cons, if_pos h]
  · unfold lvlOf at h; rw [unshift_cons, if_neg (by rw [h]; decide), if_pos h]

/-- `LogLevels()` names exactly the levels that are on, in bit order; "ALL" and "NONE" are the two shortcuts -/
theorem C18_loglevels_string (r : Nat) :
    LogLevel.string 65535 = "ALL".toList ∧ LogLevel.string 0 = "NONE".toList ∧
    (r ≠ 0 → r ≠ 65535 → LogLevel.string r =
      LogLevel.join [','] (((List.range 16).filter (fun i => r.testBit i)).map nameAt)) ∧
    ((List.range 16).map nameAt).Nodup := by
  refine ⟨by decide, by decide, fun h0 h1 => ?_, by decide⟩
  unfold LogLevel.string
  rw [if_neg (by simpa [Gen.lvl_AllLogLevels] using h1), if_neg h0]
  congr 1
  unfold LogLevel.names
  have : ∀ L : List Nat, (∀ i ∈ L, i < 16) →
      L.filterMap (fun i => if LogLevel.positive r (2 ^ i) then Gen.lvlNames.lookup (2 ^ i) else none)
        = (L.filter (fun i => r.testBit i)).map nameAt := by
    intro L; induction L with
    | nil => intro _; rfl
    | cons i L ih =>
      intro hL
      have hi : i < 16 := hL i (List.mem_cons_self ..)
      have ih' := ih (fun j hj => hL j (List.mem_cons_of_mem _ hj))
      rw [List.filterMap_cons, positive_two_pow r i h0 h1, lvlNames_some i hi, List.filter_cons]
      cases hb : r.testBit i <;> simp [hb, ih']
  exact this _ (fun i hi => List.mem_range.mp hi)

/-- an unknown level name (or a value of a foreign type) is no level: `SetLogLevel` treats it like "none",
`UnsetLogLevel` skips it. Observation mirrored from the code; the property's statement is silent about it. -/
theorem C18_loglevels_unknown (r : Nat) (s : Text) (rest : List LogLevel.Arg) (h : Gen.lvlMap.lookup (LogLevel.uc s) = none) :
    LogLevel.shift r (.name s :: rest) = Gen.lvl_NoLogLevels ∧ LogLevel.unshift r (.name s :: rest) = LogLevel.unshift r rest := by
  have : LogLevel.resolve (.name s) = (0, false) := by simp [LogLevel.resolve, h]
  constructor
  · rw [shift_cons, this]; rfl
  · rw [unshift_cons, this]; rfl

/-! ## the hypotheses are satisfiable -/

/-- a LIST configuration with parenthetical + no-padding set, a FIFO latch, one encapsulation pair, two levels on -/
def C18_sample : Cfg := { kind := 4, opt := 5, fifo := true, enc := [[['('], [')']]], lvl := 44, id := ['x'] }

example : C18_sample.valid = true ∧ C18_sample.readOnly = false ∧ Gen.flag_cfold ∈ Gen.allFlags ∧ C18_sample.lvl < 65536 ∧
    Cfg.encInUse C18_sample.enc ['('] = true ∧ Cfg.encInUse C18_sample.enc ['"'] = false ∧
    C18_sample.kind = Gen.kind_list ∧ Cfg.isMagicID ['I', 'D'] = false := by decide

example : (C18_sample.calls (triCalls [(.fold, none), (.paren, some false), (.fold, none), (.fold, some true), (.fold, none)])).opt = 4 := by decide

-- three callers inverting fold, paren, fold, fold (in this order or any other): fold ends opposite, paren too, the rest stays
example : (C18_sample.calls (triCalls [(.fold, none), (.paren, none), (.fold, none), (.fold, none)])).opt =
          (C18_sample.calls (triCalls [(.fold, none), (.fold, none), (.fold, none), (.paren, none)])).opt ∧
          (C18_sample.calls (triCalls [(.fold, none), (.paren, none), (.fold, none), (.fold, none)])).opt = 6 := by decide

example : ∀ b ∈ [LogLevel.Arg.name ['t', 'r', 'a', 'c', 'e'], .const 4, .raw 65544], lvlOf b ≠ 0 ∧ lvlOf b ≠ 65535 := by decide

example : LogLevel.string (LogLevel.shift 0 [.name ['t', 'r', 'a', 'c', 'e'], .const 4, .raw 65544]) = "STATE,DEBUG,TRACE".toList := by decide

end Stackage
