import Stackage.Model.Traverse
import Stackage.Lemmas.Index

/-!
# C07 — Traverse(path) equals stepwise Index descent
-/

set_option linter.unusedSimpArgs false
namespace Stackage
open ListSpec

mutual
/-- every stack in the tree is shorter than 2^62 (true of every Go slice of interfaces) -/
def deepSmall : Val → Bool
  | .stk _ _ xs => decide ((xs.length : Int) < 4611686018427387904) && deepSmallList xs
  | .cnd _ _ _ _ ex => deepSmall ex
  | _ => true
def deepSmallList : List Val → Bool
  | [] => true
  | x :: rest => deepSmall x && deepSmallList rest
end

theorem deepSmallList_mem : ∀ (xs : List Val), deepSmallList xs = true → ∀ v ∈ xs, deepSmall v = true
  | [], _, v, hv => by simp at hv
  | x :: rest, h, v, hv => by
    simp only [deepSmallList, Bool.and_eq_true] at h
    simp only [List.mem_cons] at hv
    rcases hv with rfl | hv
    · exact h.1
    · exact deepSmallList_mem rest h.2 v hv

theorem deepSmall_getD (xs : List Val) (h : deepSmallList xs = true) (p : Nat) : deepSmall (xs.getD p .nil) = true := by
  by_cases hp : p < xs.length
  · have : xs.getD p .nil = xs[p] := by simp [List.getD, hp]
    rw [this]; exact deepSmallList_mem xs h _ (List.getElem_mem hp)
  · have : xs.getD p .nil = .nil := by
      rw [List.getD_eq_getElem?_getD, List.getElem?_eq_none (by omega)]; rfl
    rw [this]; rfl

theorem deepSmall_descend (v : Val) (s' : Stk) (h : deepSmall v = true) (hd : descendInto v = some s') :
    (s'.xs.length : Int) < 4611686018427387904 ∧ deepSmallList s'.xs = true := by
  cases v with
  | stk f c xs =>
    have : s' = { cfg := c, xs := xs } := by
      unfold descendInto at hd; exact (Option.some.inj hd).symm
    subst this
    unfold deepSmall at h
    simpa using h
  | cnd f c kw op ex =>
    cases ex with
    | stk f' c' xs' =>
      have : s' = { cfg := c', xs := xs' } := by
        unfold descendInto stkOf at hd; exact (Option.some.inj hd).symm
      subst this
      unfold deepSmall deepSmall at h
      simpa using h
    | _ => unfold descendInto stkOf at hd; exact absurd hd (by simp)
  | _ => unfold descendInto at hd; exact absurd hd (by simp)

namespace Stk

/-- **C07.** `Traverse(i1,…,in)` returns exactly the value obtained by taking `Index(i1)` on the
receiver and then, while indices remain, descending into that value if it is a Stack (or alias)
or a Condition whose expression is a Stack and applying the next index there; `(nil,false)`
otherwise and for the empty path. For every tree, every path of 64-bit indices, every per-node
index-option combination; it never faults. -/
theorem C07_traverse (K : Closures) (p : List Int) : ∀ (s : Stk),
    (s.xs.length : Int) < 2^62 → deepSmallList s.xs = true → (∀ i ∈ p, InInt i) →
    s.traverse K p = .ok (descent K s p) := by
  induction p with
  | nil => intro s _ _ _; rfl
  | cons i rest ih =>
    intro s hs hd hi
    have hii : InInt i := hi i (by simp)
    unfold traverse descent
    rw [index_spec s hs i hii]
    unfold ListSpec.index
    cases hp : pos s.xs.length (s.flag Gen.flag_negidx) (s.flag Gen.flag_fwdidx) i with
    | none => simp
    | some q =>
      simp only
      have hdv := deepSmall_getD s.xs hd q
      generalize s.xs.getD q .nil = v at *
      by_cases hn : v.isNil = true
      · simp [hn]
      · have hn' : v.isNil = false := by simpa using hn
        simp only [hn', Bool.not_false, Bool.not_true, Bool.false_eq_true, ↓reduceIte]
        cases rest with
        | nil => rfl
        | cons j rest' =>
          simp only
          cases hdi : descendInto v with
          | none => rfl
          | some s' =>
            obtain ⟨h1, h2⟩ := deepSmall_descend v s' hdv hdi
            exact ih s' (by rw [pow62]; exact h1) h2 (fun k hk => hi k (by simp [hk]))

/-- the installed closures have no say in a traversal (repair F34: a validity policy used to veto it): whatever they
answer, the walk and its result are the same -/
theorem C07_closures_irrelevant (K K' : Closures) (p : List Int) : ∀ s : Stk, s.traverse K p = s.traverse K' p := by
  induction p with
  | nil => intro s; rfl
  | cons i rest ih =>
    intro s
    unfold traverse
    cases s.index i with
    | error f => rfl
    | ok r =>
      obtain ⟨v, j, found⟩ := r
      simp only
      cases found with
      | false => rfl
      | true =>
        simp only [Bool.not_true, Bool.false_eq_true, ↓reduceIte]
        cases rest with
        | nil => rfl
        | cons j' rest' =>
          simp only
          cases descendInto v with
          | none => rfl
          | some s' => exact ih s'

/-- success iff every step found a non-nil element and every intermediate value was descendable -/
theorem C07_empty_path (K : Closures) (s : Stk) : s.traverse K [] = .ok (.nil, false) := rfl

/-- a failed first step answers `(nil,false)` whatever follows: no value reached through a different sibling -/
theorem C07_no_sibling (K : Closures) (s : Stk) (i : Int) (rest : List Int)
    (hs : (s.xs.length : Int) < 2^62) (hd : deepSmallList s.xs = true) (hi : ∀ k ∈ i :: rest, InInt k)
    (hfail : (ListSpec.index s.xs (s.flag Gen.flag_negidx) (s.flag Gen.flag_fwdidx) i).2 = false) :
    s.traverse K (i :: rest) = .ok (.nil, false) := by
  rw [C07_traverse K (i :: rest) s hs hd hi]
  unfold descent
  simp [hfail]

/-- … and so does a non-descendable intermediate value -/
theorem C07_not_descendable (K : Closures) (s : Stk) (i j : Int) (rest : List Int)
    (hs : (s.xs.length : Int) < 2^62) (hd : deepSmallList s.xs = true) (hi : ∀ k ∈ i :: j :: rest, InInt k)
    (hnd : descendInto (ListSpec.index s.xs (s.flag Gen.flag_negidx) (s.flag Gen.flag_fwdidx) i).1 = none) :
    s.traverse K (i :: j :: rest) = .ok (.nil, false) := by
  rw [C07_traverse K _ s hs hd hi]
  unfold descent
  cases hr : (ListSpec.index s.xs (s.flag Gen.flag_negidx) (s.flag Gen.flag_fwdidx) i).2
  · simp [hr]
  · simp [hr, hnd]

/-- non-vacuity: a two-level tree satisfying the hypotheses, and a path through it -/
example :
    (⟨{ kind := 4 }, [.stk .native { kind := 4 } [.leaf (.str ['x'])],
                      .stk .alias { kind := 4 } [.leaf (.str ['y']), .leaf (.str ['z'])]]⟩ : Stk).traverse {} [0, 1]
      = .ok (.nil, false) := by rfl

end Stk
end Stackage
