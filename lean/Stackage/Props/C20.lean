import Stackage.Lemmas.RevealTerm
import Stackage.Lemmas.RevealAlloc

/-!
# C20 — Reveal only removes redundant wrappers

`RevealHeap.Reveal` is the statement-by-statement model of `Stack.Reveal` over an explicit heap
(nested stacks are shared by reference, detached wrappers keep being revealed); `Tree.Unwrap` is
the specification ("a non-parenthetical, non-NOT stack with exactly one non-parenthetical native
Stack/Condition element is replaced by that element", plus alias handle → native handle).

Hypothesis of the heap theorems: `WF H` — the heap is **acyclic** (nodes are numbered
children-first: every handle held by node `k` points below `k`), handles point to nodes of their
own sort, slices are shorter than 2^62. Nothing else: no "one mutex per node", no "no sharing"
(a DAG is fine). Every tree gives such a heap (`ofTree_ok`), so the tree theorems at the end
have no hypothesis besides the slice bound.

All heap theorems speak about **every** handle `v` — the receiver, any nested node, and the
wrappers `Reveal` has detached and goes on rewriting.
-/

set_option linter.unusedSimpArgs false
set_option linter.unusedVariables false

namespace Stackage
open Tree RevealHeap

/-- what `Reveal` guarantees about the heap it leaves (see `RevealHeap.Rel`) -/
theorem Reveal_rel (fuel : Nat) (H : Heap) (root : Nat) (s : St) (hwf : WF H)
    (h : Reveal fuel H root = .ok s) : Rel (root + 1) H s.heap := by
  unfold Reveal at h
  split at h
  · simp only [Except.ok.injEq] at h; subst h; exact Rel.refl _ hwf
  · split at h
    · simp only [Except.ok.injEq] at h; subst h; exact Rel.refl _ hwf
    · exact (reveal_inv fuel).1 [] root _ s hwf h

/-- **C20, structural clause (full strength).** Whatever `Reveal` did, the tree under every handle
— live or detached — is reachable from what it was by legal unwrap steps only. For every
well-formed heap and every fuel. -/
theorem C20_only_unwraps (fuel : Nat) (H : Heap) (root : Nat) (s : St) (hwf : WF H)
    (h : Reveal fuel H root = .ok s) (v : HVal) : UnwrapStar (flat H v) (flat s.heap v) := by
  have hrel := Reveal_rel fuel H root s hwf h
  unfold flat
  rw [hrel.len]
  exact rv_star (hrel.step H.length) v

/-- **C20, leaves.** `Reveal` never adds, drops, duplicates or reorders a leaf value or a
Condition (keyword, operator) anywhere: the depth-first leaf sequence under every handle is
unchanged. -/
theorem C20_leaves (fuel : Nat) (H : Heap) (root : Nat) (s : St) (hwf : WF H)
    (h : Reveal fuel H root = .ok s) (v : HVal) : leaves (flat s.heap v) = leaves (flat H v) :=
  (C20_only_unwraps fuel H root s hwf h v).leaves_eq.symm

/-- **C20, depth.** Nesting depth never grows. -/
theorem C20_depth (fuel : Nat) (H : Heap) (root : Nat) (s : St) (hwf : WF H)
    (h : Reveal fuel H root = .ok s) (v : HVal) : depth (flat s.heap v) ≤ depth (flat H v) :=
  (C20_only_unwraps fuel H root s hwf h v).depth_le

/-- **C20, survivors.** Every parenthetical stack, every NOT stack and every parenthetical
Condition is still there, in the same order, with the same configuration. -/
theorem C20_kept (fuel : Nat) (H : Heap) (root : Nat) (s : St) (hwf : WF H)
    (h : Reveal fuel H root = .ok s) (v : HVal) : kept (flat s.heap v) = kept (flat H v) :=
  (C20_only_unwraps fuel H root s hwf h v).kept_eq.symm

/-- **C20, normal form.** Before and after reduce to the same fully unwrapped form. -/
theorem C20_nf (fuel : Nat) (H : Heap) (root : Nat) (s : St) (hwf : WF H)
    (h : Reveal fuel H root = .ok s) (v : HVal) : nf (flat s.heap v) = nf (flat H v) :=
  (C20_only_unwraps fuel H root s hwf h v).nf_eq.symm

/-- the heap stays well-formed, no node appears, disappears or changes sort, and nothing above
the receiver is written -/
theorem C20_heap (fuel : Nat) (H : Heap) (root : Nat) (s : St) (hwf : WF H)
    (h : Reveal fuel H root = .ok s) :
    WF s.heap ∧ s.heap.length = H.length ∧ ∀ j, root < j → s.heap[j]? = H[j]? := by
  have hrel := Reveal_rel fuel H root s hwf h
  exact ⟨hrel.wf, hrel.len, fun j hj => hrel.frame j hj⟩

/-- the only way for the model not to return is to run out of fuel -/
theorem Reveal_error (fuel : Nat) (H : Heap) (root : Nat) (e : Abort) (hwf : WF H)
    (h : Reveal fuel H root = .error e) : e = .fuel := by
  unfold Reveal at h
  split at h
  · simp at h
  · rename_i c xs hs
    split at h
    · simp at h
    · have hsort : sortOf H[root]? = 1 := by rw [stackAt_some.mp hs]; rfl
      exact (reveal_safe fuel).1 [] root _ e hwf hsort (fun x hx => by simp at hx) h

/-- **C20, no deadlock.** In a well-formed (acyclic) heap, with the mutex enabled on any set of
nodes, `Reveal` never tries to take a lock that its own call chain holds. -/
theorem C20_no_deadlock (fuel : Nat) (H : Heap) (root : Nat) (hwf : WF H) :
    Reveal fuel H root ≠ .error .deadlock := by
  intro h; have := Reveal_error fuel H root _ hwf h; simp at this

/-- **C20, no panic.** In a well-formed heap `Reveal` never reaches a panicking statement. -/
theorem C20_no_panic (fuel : Nat) (H : Heap) (root : Nat) (hwf : WF H) :
    Reveal fuel H root ≠ .error .panic := by
  intro h; have := Reveal_error fuel H root _ hwf h; simp at this

/-- **C20, termination.** `(root + 1) * (2^62 + 8)` levels of call depth always suffice; together with
the two theorems above: `Reveal` returns normally. -/
theorem C20_terminates (fuel : Nat) (H : Heap) (root : Nat) (hwf : WF H) (hf : (root + 1) * K ≤ fuel) :
    ∃ s, Reveal fuel H root = .ok s := by
  cases hres : Reveal fuel H root with
  | ok s => exact ⟨s, rfl⟩
  | error e =>
    have he := Reveal_error fuel H root e hwf hres
    subst he
    unfold Reveal at hres
    split at hres
    · simp at hres
    · split at hres
      · simp at hres
      · exact absurd hres (reveal_terminates root fuel [] _ hf hwf)

/-! ## The same, for trees -/

/-- **C20 for every tree** (`t` with slices shorter than 2^62, any fuel): if the model returns a tree,
that tree is reachable from `t` by legal unwrap steps, has the same leaf sequence, the same
parenthetical / NOT nodes, the same normal form, and is not deeper; and it never fails otherwise
than by exhausting the fuel. -/
theorem C20_tree (fuel : Nat) (t : Val) (hs : smallTree t) :
    (∀ t', RevealTree fuel t = .ok t' →
      UnwrapStar t t' ∧ leaves t' = leaves t ∧ kept t' = kept t ∧ nf t' = nf t ∧ depth t' ≤ depth t) ∧
    (∀ e, RevealTree fuel t = .error e → e = .fuel) := by
  obtain ⟨hwf, hok, hflat⟩ := ofTree_ok t hs
  constructor
  · intro t' h
    have hstar : UnwrapStar t t' := by
      unfold RevealTree at h
      split at h
      · rename_i f root hroot
        split at h
        · rename_i s hrev
          simp only [Except.ok.injEq] at h
          subst h
          have := C20_only_unwraps fuel _ root s hwf hrev (.stk f root)
          rw [← hroot, hflat] at this
          rw [← hroot]
          exact this
        · simp at h
      · simp only [Except.ok.injEq] at h; subst h; exact .refl _
    exact ⟨hstar, hstar.leaves_eq.symm, hstar.kept_eq.symm, hstar.nf_eq.symm, hstar.depth_le⟩
  · intro e h
    unfold RevealTree at h
    split at h
    · split at h
      · simp at h
      · rename_i e' hrev
        simp only [Except.error.injEq] at h; subst h
        exact Reveal_error fuel _ _ _ hwf hrev
    · simp at h

/-- **C20 for every tree, total form**: with enough fuel the model returns a tree. -/
theorem C20_tree_returns (t : Val) (hs : smallTree t) :
    ∃ t', RevealTree (((ofTree t).2.length + 1) * K) t = .ok t' := by
  obtain ⟨hwf, hok, _⟩ := ofTree_ok t hs
  unfold RevealTree
  split
  · rename_i f root hroot
    rw [hroot] at hok
    have hlt : root < (ofTree t).2.length := hok.1
    obtain ⟨s, hs'⟩ := C20_terminates (((ofTree t).2.length + 1) * K) (ofTree t).2 root hwf
      (Nat.mul_le_mul_right K (by omega))
    rw [hs']
    exact ⟨_, rfl⟩
  · exact ⟨t, rfl⟩

/-! ## Non-vacuity -/

def C20_lf (i : Int) : Val := .leaf (.int i)
/-- `AND[ OR[ alias AND(mutex)[ LIST[1 2] ] ] , "c" = LIST-alias[ OR[5] ] , NOT[ AND[7] ] ]` with a mutex on the receiver -/
def C20_t0 : Val :=
  .stk .native { kind := 1, mtx := true }
    [ .stk .native { kind := 2 } [ .stk .alias { kind := 1, mtx := true } [ .stk .native { kind := 4 } [C20_lf 1, C20_lf 2] ] ],
      .cnd .native { kind := 5 } ['c'] (.cmp 1) (.stk .aliasS { kind := 4 } [ .stk .native { kind := 2 } [C20_lf 5] ]),
      .stk .native { kind := 3 } [ .stk .native { kind := 1 } [C20_lf 7] ] ]

/-- what `Reveal` makes of it: inside the OR stack the alias AND wrapper (mutex enabled) is replaced by its LIST
element; the OR stack itself stays (its element was an alias when it was looked at); the stack held by the
Condition is not in slot 0 of a stack that loses a wrapper, so it is not visited; NOT and its content survive -/
def C20_t1 : Val :=
  .stk .native { kind := 1, mtx := true }
    [ .stk .native { kind := 2 } [ .stk .native { kind := 4 } [C20_lf 1, C20_lf 2] ],
      .cnd .native { kind := 5 } ['c'] (.cmp 1) (.stk .aliasS { kind := 4 } [ .stk .native { kind := 2 } [C20_lf 5] ]),
      .stk .native { kind := 3 } [ .stk .native { kind := 1 } [C20_lf 7] ] ]

theorem C20_t0_small : smallTree C20_t0 := by
  simp [C20_t0, C20_lf, smallTree, smallL, SmallLen]

/-- the model run on `C20_t0` (48 levels of fuel are plenty) yields `C20_t1` -/
theorem C20_t0_run : RevealTree 48 C20_t0 = .ok C20_t1 := by
  have h : (match RevealTree 48 C20_t0 with | .ok t' => beqV t' C20_t1 | .error _ => false) = true := by decide +kernel
  split at h
  · rename_i t' ht; rw [ht, beqV_sound _ _ h]
  · simp at h

/-- the hypotheses of the tree theorems are satisfiable by a tree that `Reveal` really changes,
with mutexes, an alias, a Condition holding a stack and a NOT stack; the conclusion says what it should -/
example : UnwrapStar C20_t0 C20_t1 ∧ leaves C20_t1 = leaves C20_t0 ∧ kept C20_t1 = kept C20_t0 ∧
    nf C20_t1 = nf C20_t0 ∧ depth C20_t1 ≤ depth C20_t0 :=
  (C20_tree 48 C20_t0 C20_t0_small).1 C20_t1 C20_t0_run

/-- the hypothesis `WF` of the heap theorems holds for the heap of that tree -/
example : WF (ofTree C20_t0).2 := (ofTree_ok C20_t0 C20_t0_small).1

/-- and the two trees really differ -/
example : beqV C20_t0 C20_t1 = false := by decide +kernel

end Stackage
