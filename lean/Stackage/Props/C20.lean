import Stackage.Model.RevealHeap
import Stackage.Spec.Unwrap

namespace Stackage
open Tree RevealHeap

/-- placeholder while the machinery is wired up -/
theorem C20_reachable_sound {t t' : Val} (h : reachable t t' = true) : UnwrapStar t t' := reachable_sound h

end Stackage
