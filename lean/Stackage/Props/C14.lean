import Stackage.Lemmas.Push
import Stackage.Model.Policy
import Stackage.Lemmas.Unmarshal

/-!
# C14 — user-supplied policies decide, exactly as documented (push policy part)

`interp p` is the meaning of the installed closure `p`: an arbitrary function
`Val → Option Nat` (`some e` = reject with error `e`). The theorems quantify
over every such function.
-/

set_option linter.unusedSimpArgs false
namespace Stackage
open ListSpec
namespace Stk

/-- **Push under a policy** consults it once per offered value, in order, while room remains; appends
each approved value; at the first rejection stops, keeps what was appended and records that
error; values dropped for lack of room are not consulted. Values that no-nesting excludes (C13: Stacks and
Stack aliases while the option is set) are skipped before the policy is asked (repair F36: the policy path
used to ignore the option). -/
theorem C14_push (interp : Nat → Val → Option Nat) (p : Nat) (s : Stk) (vs : List Val) (hwf : s.WF)
    (hp : s.cfg.ppf = some p) (hsm : SmallLen (s.xs.length + vs.length)) :
    (s.push interp vs).xs = s.xs ++ (pushPol (interp p) s.opts.room (vs.filter s.canPushNester)).1 ∧
    (s.push interp vs).cfg =
      (match (pushPol (interp p) s.opts.room (vs.filter s.canPushNester)).2 with
       | some e => { s.cfg with err := some e }
       | none => s.cfg) := by
  unfold push; rw [hp]
  have hle : (vs.filter s.canPushNester).length ≤ vs.length := List.length_filter_le _ _
  obtain ⟨a, b, _⟩ := methodAppend_spec (interp p) (vs.filter s.canPushNester) s hwf
    (by unfold SmallLen at *; omega)
  exact ⟨a, b⟩

/-- with the option off every offered value reaches the policy -/
theorem C14_push_nesting_allowed (s : Stk) (vs : List Val) (h : s.flag Gen.flag_nnest = false) :
    vs.filter s.canPushNester = vs := by
  apply List.filter_eq_self.mpr
  intro v _; simp [canPushNester, h]

/-- nothing the policy rejected is ever stored -/
theorem C14_nothing_rejected_stored (pol : Val → Option Nat) (vs : List Val) :
    ∀ (room : Option Nat) (v : Val), v ∈ (pushPol pol room vs).1 → pol v = none := by
  induction vs with
  | nil => intro room v h; simp [pushPol] at h
  | cons x rest ih =>
    intro room v h
    unfold pushPol at h
    split at h
    · simp at h
    · split at h
      · simp at h
      · rename_i hp
        simp only [List.mem_cons] at h
        rcases h with h | h
        · rw [h]; exact hp
        · exact ih _ v h

/-- what is stored is a prefix-by-position of the batch (order kept, nothing fabricated) -/
theorem C14_stored_prefix (pol : Val → Option Nat) (vs : List Val) :
    ∀ (room : Option Nat), (pushPol pol room vs).1 <+: vs := by
  induction vs with
  | nil => intro room; simp [pushPol]
  | cons x rest ih =>
    intro room
    unfold pushPol
    split
    · simp
    · split
      · simp
      · simpa using ih _

/-- **C13 under a policy**: while no-nesting is set, no Stack or Stack alias is stored by a Push, policy or not -/
theorem C13_push_policy (interp : Nat → Val → Option Nat) (p : Nat) (s : Stk) (vs : List Val) (hwf : s.WF)
    (hp : s.cfg.ppf = some p) (hsm : SmallLen (s.xs.length + vs.length)) (h : s.flag Gen.flag_nnest = true) :
    ∀ v ∈ ((s.push interp vs).xs.drop s.xs.length), v.isStack = false := by
  rw [(C14_push interp p s vs hwf hp hsm).1]
  simp only [List.drop_left]
  intro v hv
  have hpre := C14_stored_prefix (interp p) (vs.filter s.canPushNester) s.opts.room
  have hmem : v ∈ vs.filter s.canPushNester := hpre.subset hv
  have := (List.mem_filter.mp hmem).2
  simpa [canPushNester, h] using this

/-- an error is reported exactly when some consulted value was rejected, and it is that value's error -/
theorem C14_error_is_policy's (pol : Val → Option Nat) (vs : List Val) :
    ∀ (room : Option Nat) (e : Nat), (pushPol pol room vs).2 = some e → ∃ v ∈ vs, pol v = some e := by
  induction vs with
  | nil => intro room e h; simp [pushPol] at h
  | cons x rest ih =>
    intro room e h
    unfold pushPol at h
    split at h
    · simp at h
    · split at h
      · rename_i e' hp
        simp only [Option.some.injEq] at h
        exact ⟨x, by simp, by rw [hp, h]⟩
      · obtain ⟨v, hv, hpv⟩ := ih _ e h
        exact ⟨v, by simp [hv], hpv⟩

/-- removing the policy restores the built-in behaviour -/
theorem C14_remove (interp : Nat → Val → Option Nat) (s : Stk) (vs : List Val) (h : s.cfg.ppf = none) :
    s.push interp vs = s.genericAppend vs := by
  unfold push; rw [h]

example : ∃ s : Stk, s.WF ∧ s.cfg.ppf = some 1 :=
  ⟨⟨{ kind := 4, ppf := some 1 }, []⟩, ⟨by unfold SmallLen; rw [pow62]; simp, Or.inl rfl⟩, rfl⟩

end Stk
end Stackage

/-! ## The other five closures -/

namespace Stackage
open Stackage

/-- **Valid (Stack).** With a validity closure installed, `Valid()` reports an error exactly when the closure does -/
theorem C14_valid_stack (K : Closures) (s : Stk) (p : Nat) (hp : s.cfg.vpf = some p) :
    s.ValidE K = none ↔ K.valid p = none := by
  unfold Stk.ValidE Stk.valid; rw [hp]
  cases h : K.valid p <;> simp [h]

/-- … and a Stack the closure rejects renders as the empty string -/
theorem C14_rejected_renders_empty (K : Closures) (s : Stk) (p e : Nat) (hp : s.cfg.vpf = some p)
    (hr : K.valid p = some e) : s.String K = [] := by
  unfold Stk.String Cfg.canString; rw [hp]; simp [hr]

/-- **Valid (Condition).** A Condition returns that very error -/
theorem C14_valid_cond (K : Closures) (c : Cnd) (p : Nat) (hp : c.cfg.vpf = some p) : c.valid K = K.valid p := by
  unfold Cnd.valid; rw [hp]

/-- **Presentation.** With a presentation closure installed, `String()` of a valid non-BASIC stack is the closure's result -/
theorem C14_present (K : Closures) (s : Stk) (p : Nat) (hp : s.cfg.rpf = some p) (hc : s.cfg.canString K = true) :
    s.String K = K.present p := by
  unfold Stk.String; rw [hc, hp]; rfl

theorem C14_present_cond (K : Closures) (c : Cnd) (p : Nat) (hp : c.cfg.rpf = some p) (hv : c.valid K = none) :
    c.string K = K.present p := by
  unfold Cnd.string condString
  have : condValid K c.cfg c.kw c.op c.ex = true := by
    unfold condValid Cnd.valid at *
    cases hvp : c.cfg.vpf with
    | some q => simp [hvp] at hv ⊢; simp [hv]
    | none =>
      simp only [hvp] at hv ⊢
      cases hk : c.kw.isEmpty
      · cases hop : c.op with
        | none => simp [hk, hop] at hv
        | user i a b => cases he : c.ex.isNil <;> simp_all
        | cmp code => cases hb : Gen.cond_op_bogus { assert := code } <;> cases he : c.ex.isNil <;> simp_all
      · simp [hk] at hv
  rw [this]; unfold condAssemble; rw [hp]; rfl

/-- **Unmarshal / Marshal.** With the closure installed the method returns the closure's result -/
theorem C14_unmarshal (K : Closures) (s : Stk) (p : Nat) (hp : s.cfg.umf = some p) : s.UnmarshalP K = K.unmarshal p := by
  unfold Stk.UnmarshalP; rw [hp]

theorem C14_unmarshal_cond (K : Closures) (c : Cnd) (p : Nat) (hp : c.cfg.umf = some p) : c.UnmarshalP K = K.unmarshal p := by
  unfold Cnd.UnmarshalP; rw [hp]

theorem C14_marshal (K : Closures) (interp : Nat → Val → Option Nat) (s : Stk) (p : Nat) (x : Val) (xs : List Val)
    (hp : s.cfg.maf = some p) : s.MarshalP K interp (x :: xs) = (s, K.marshal p) := by
  unfold Stk.MarshalP; rw [hp]

/-! ## Unmarshalers on nested nodes

`Stack.Unmarshal()` without a closure of its own walks its elements (`unmarshalElemsK`): a nested Stack, in any form, is
walked with the private default again - its Unmarshaler is **not** consulted; a nested Condition, in any form, goes through
the public `Condition.Unmarshal()` - its Unmarshaler **is** consulted; a Stack held by a Condition goes through the public
`Stack.Unmarshal()` - its Unmarshaler **is** consulted; a Condition held by a Condition (any form, to any depth) goes through
the public `Condition.Unmarshal()` - its Unmarshaler **is** consulted (repair F43: it used to be handed through as the live
value, so neither its closure nor anything below it was looked at). An error returned by a consulted closure (at any depth) ends the
walk: the entries collected before the failing element and that error are the result. -/

/-- bridge: no Unmarshaler anywhere - the closure-free model, no error -/
theorem C14_unmarshal_noUmf (K : Closures) (s : Stk) (h : s.cfg.umf = none) (hx : noUmfList s.xs = true) :
    s.UnmarshalP K = (s.unmarshal, none) := by
  unfold Stk.UnmarshalP Stk.unmarshal; rw [h]; simp only [unmarshalElemsK_noUmf K s.xs hx]

theorem C14_unmarshal_cond_noUmf (K : Closures) (c : Cnd) (h : c.cfg.umf = none) (hx : noUmf c.ex = true) :
    c.UnmarshalP K = ([strV conditionLabel, strV c.kw, .opv c.op, unmarshalExpr c.ex], none) := by
  unfold Cnd.UnmarshalP; rw [h]; simp only [unmarshalExprK_noUmf K c.ex hx]

/-- (a) what a directly nested Stack contributes does not depend on its own Unmarshaler … -/
theorem C14_unmarshal_nested_stack_elem (K : Closures) (f : Form) (c : Cfg) (xs : List Val) (u : Option Nat) :
    unmarshalElemK K (.stk f { c with umf := u } xs) = unmarshalElemK K (.stk f c xs) := by
  simp only [unmarshalElemK]; rfl

/-- … so **the result of the parent's `Unmarshal()` is the same whatever Unmarshaler the nested Stack carries** (installed,
replaced or removed; the nested Stack in any form, at any position; the parent with or without a closure of its own) -/
theorem C14_unmarshal_nested_stack_ignored (K : Closures) (s : Stk) (pre post : List Val) (f : Form) (c : Cfg)
    (ys : List Val) (u : Option Nat) :
    ({ s with xs := pre ++ .stk f { c with umf := u } ys :: post } : Stk).UnmarshalP K =
    ({ s with xs := pre ++ .stk f c ys :: post } : Stk).UnmarshalP K := by
  unfold Stk.UnmarshalP
  simp only [unmarshalElemsK_congr K _ _ post (C14_unmarshal_nested_stack_elem K f c ys u) pre]

/-- (b) a nested Condition with an Unmarshaler contributes the closure's list, and the closure's error … -/
theorem C14_unmarshal_nested_cond_elem (K : Closures) (f : Form) (c : Cfg) (kw : Text) (op : Op) (ex : Val) (p : Nat)
    (hp : c.umf = some p) : unmarshalElemK K (.cnd f c kw op ex) = (.anys (K.unmarshal p).1, (K.unmarshal p).2) := by
  simp only [unmarshalElemK, hp]

/-- … so **the parent's result holds, at the Condition's position, `.anys (K.unmarshal p).1`** (when the walk gets there and the
closure reports no error), between the entries of what precedes and what follows -/
theorem C14_unmarshal_nested_cond (K : Closures) (s : Stk) (pre post : List Val) (f : Form) (c : Cfg) (kw : Text) (op : Op)
    (ex : Val) (p : Nat) (hs : s.cfg.umf = none) (hxs : s.xs = pre ++ .cnd f c kw op ex :: post) (hp : c.umf = some p)
    (hpre : (unmarshalElemsK K pre).2 = none) (hok : (K.unmarshal p).2 = none) :
    s.UnmarshalP K = (strV s.cfg.kindText :: ((unmarshalElemsK K pre).1 ++ .anys (K.unmarshal p).1 :: (unmarshalElemsK K post).1),
      (unmarshalElemsK K post).2) := by
  have hx : (unmarshalElemK K (.cnd f c kw op ex)).2 = none := by rw [C14_unmarshal_nested_cond_elem K f c kw op ex p hp]; exact hok
  unfold Stk.UnmarshalP
  rw [hs, hxs, unmarshalElemsK_append_ok K _ pre hpre, unmarshalElemsK_cons_ok K _ post hx,
    C14_unmarshal_nested_cond_elem K f c kw op ex p hp]

/-- the position, spelled out: entry `pre.length + 1` of the result (entry 0 is the label) -/
theorem C14_unmarshal_nested_cond_entry (K : Closures) (s : Stk) (pre post : List Val) (f : Form) (c : Cfg) (kw : Text) (op : Op)
    (ex : Val) (p : Nat) (hs : s.cfg.umf = none) (hxs : s.xs = pre ++ .cnd f c kw op ex :: post) (hp : c.umf = some p)
    (hpre : (unmarshalElemsK K pre).2 = none) (hok : (K.unmarshal p).2 = none) :
    (s.UnmarshalP K).1[pre.length + 1]? = some (.anys (K.unmarshal p).1) := by
  rw [C14_unmarshal_nested_cond K s pre post f c kw op ex p hs hxs hp hpre hok]
  have hl := unmarshalElemsK_length K pre hpre
  simp only [List.getElem?_cons_succ]
  rw [List.getElem?_append_right (by omega), hl]
  simp

/-- (c) a Stack held by a Condition, in any form, with an Unmarshaler: **the Condition's row carries the closure's list as its
fourth entry, and the Condition's `Unmarshal()` returns the closure's error with the row** -/
theorem C14_unmarshal_nested_held_stack (K : Closures) (c : Cnd) (f : Form) (sc : Cfg) (xs : List Val) (p : Nat)
    (hc : c.cfg.umf = none) (hex : c.ex = .stk f sc xs) (hp : sc.umf = some p) :
    c.UnmarshalP K = ([strV conditionLabel, strV c.kw, .opv c.op, .anys (K.unmarshal p).1], (K.unmarshal p).2) := by
  unfold Cnd.UnmarshalP; rw [hc, hex]; simp only [unmarshalExprK, hp]

/-- … also when that Condition is itself an element of a Stack being unmarshalled -/
theorem C14_unmarshal_nested_held_stack_elem (K : Closures) (f f' : Form) (c sc : Cfg) (kw : Text) (op : Op) (xs : List Val)
    (p : Nat) (hc : c.umf = none) (hp : sc.umf = some p) :
    unmarshalElemK K (.cnd f c kw op (.stk f' sc xs)) =
      (.anys [strV conditionLabel, strV kw, .opv op, .anys (K.unmarshal p).1], (K.unmarshal p).2) := by
  simp only [unmarshalElemK, hc, unmarshalExprK, hp]

/-- (c') a Condition held as a Condition's expression, in any form, with an Unmarshaler: **its Unmarshaler is consulted** - the
holder's row carries the closure's list as its fourth entry, and the holder's `Unmarshal()` returns the closure's error with
the row (repair F43) -/
theorem C14_unmarshal_nested_held_cond (K : Closures) (c : Cnd) (f : Form) (ic : Cfg) (kw : Text) (op : Op) (ex : Val) (p : Nat)
    (hc : c.cfg.umf = none) (hex : c.ex = .cnd f ic kw op ex) (hp : ic.umf = some p) :
    c.UnmarshalP K = ([strV conditionLabel, strV c.kw, .opv c.op, .anys (K.unmarshal p).1], (K.unmarshal p).2) := by
  unfold Cnd.UnmarshalP; rw [hc, hex]; simp only [unmarshalExprK, hp]

/-- … without one, the held Condition contributes its own four-entry row, whose fourth entry and error are those of *its*
expression under the same rules (a Stack: its Unmarshaler or its walk; a Condition: this rule again; anything else: itself) -/
theorem C14_unmarshal_nested_held_cond_default (K : Closures) (c : Cnd) (f : Form) (ic : Cfg) (kw : Text) (op : Op) (ex : Val)
    (hc : c.cfg.umf = none) (hex : c.ex = .cnd f ic kw op ex) (hp : ic.umf = none) :
    c.UnmarshalP K = ([strV conditionLabel, strV c.kw, .opv c.op,
        .anys [strV conditionLabel, strV kw, .opv op, (unmarshalExprK K ex).1]], (unmarshalExprK K ex).2) := by
  unfold Cnd.UnmarshalP; rw [hc, hex]; simp only [unmarshalExprK, hp]

/-- … in other words: what a held Condition contributes to its holder is exactly `Condition.Unmarshal()` of the held Condition
as a receiver, at every depth -/
theorem C14_unmarshal_nested_held_cond_public (K : Closures) (f : Form) (ic : Cfg) (kw : Text) (op : Op) (ex : Val) :
    unmarshalExprK K (.cnd f ic kw op ex) =
      (.anys ((⟨ic, kw, op, ex⟩ : Cnd).UnmarshalP K).1, ((⟨ic, kw, op, ex⟩ : Cnd).UnmarshalP K).2) := by
  unfold Cnd.UnmarshalP
  cases hu : ic.umf <;> simp only [unmarshalExprK, hu]

/-- … and it is what the same Condition contributes as an element of a Stack -/
theorem C14_unmarshal_nested_held_cond_as_elem (K : Closures) (f : Form) (ic : Cfg) (kw : Text) (op : Op) (ex : Val) :
    unmarshalExprK K (.cnd f ic kw op ex) = unmarshalElemK K (.cnd f ic kw op ex) :=
  unmarshalExprK_cnd K f ic kw op ex

/-- … also when the holder is itself an element of a Stack being unmarshalled -/
theorem C14_unmarshal_nested_held_cond_elem (K : Closures) (f f' : Form) (c ic : Cfg) (kw kw' : Text) (op op' : Op) (ex : Val)
    (p : Nat) (hc : c.umf = none) (hp : ic.umf = some p) :
    unmarshalElemK K (.cnd f c kw op (.cnd f' ic kw' op' ex)) =
      (.anys [strV conditionLabel, strV kw, .opv op, .anys (K.unmarshal p).1], (K.unmarshal p).2) := by
  simp only [unmarshalElemK, hc, unmarshalExprK, hp]

/-- … and two levels down: holder, held Condition without a closure, *its* held Condition with one -/
theorem C14_unmarshal_nested_held_cond_deep (K : Closures) (f f' f'' : Form) (c c' ic : Cfg) (kw kw' kw'' : Text) (op op' op'' : Op)
    (ex : Val) (p : Nat) (hc : c.umf = none) (hc' : c'.umf = none) (hp : ic.umf = some p) :
    unmarshalElemK K (.cnd f c kw op (.cnd f' c' kw' op' (.cnd f'' ic kw'' op'' ex))) =
      (.anys [strV conditionLabel, strV kw, .opv op,
         .anys [strV conditionLabel, strV kw', .opv op', .anys (K.unmarshal p).1]], (K.unmarshal p).2) := by
  simp only [unmarshalElemK, hc, unmarshalExprK, hc', hp]

/-- (d) **error propagation**: when the element at position `pre.length` reports an error (its own closure's, or one from
deeper inside it), the parent's result is the label and the entries of `pre` - it ends before that element's entry - and the
error is that error; nothing behind it is visited -/
theorem C14_unmarshal_nested_error (K : Closures) (s : Stk) (pre post : List Val) (x : Val) (e : Nat) (hs : s.cfg.umf = none)
    (hxs : s.xs = pre ++ x :: post) (hpre : (unmarshalElemsK K pre).2 = none) (hx : (unmarshalElemK K x).2 = some e) :
    s.UnmarshalP K = (strV s.cfg.kindText :: (unmarshalElemsK K pre).1, some e) ∧
    (s.UnmarshalP K).1.length = pre.length + 1 := by
  have h : s.UnmarshalP K = (strV s.cfg.kindText :: (unmarshalElemsK K pre).1, some e) := by
    unfold Stk.UnmarshalP
    rw [hs, hxs, unmarshalElemsK_append_ok K _ pre hpre, unmarshalElemsK_cons_err K x post e hx]
    simp
  refine ⟨h, ?_⟩
  rw [h]; simp only [List.length_cons, unmarshalElemsK_length K pre hpre]

/-- the error of a nested Condition's Unmarshaler is such an error … -/
theorem C14_unmarshal_nested_error_cond (K : Closures) (f : Form) (c : Cfg) (kw : Text) (op : Op) (ex : Val) (p e : Nat)
    (hp : c.umf = some p) (he : (K.unmarshal p).2 = some e) : (unmarshalElemK K (.cnd f c kw op ex)).2 = some e := by
  rw [C14_unmarshal_nested_cond_elem K f c kw op ex p hp]; exact he

/-- … so is the error of the Unmarshaler of a Stack held by a nested Condition … -/
theorem C14_unmarshal_nested_error_held (K : Closures) (f f' : Form) (c sc : Cfg) (kw : Text) (op : Op) (xs : List Val) (p e : Nat)
    (hc : c.umf = none) (hp : sc.umf = some p) (he : (K.unmarshal p).2 = some e) :
    (unmarshalElemK K (.cnd f c kw op (.stk f' sc xs))).2 = some e := by
  rw [C14_unmarshal_nested_held_stack_elem K f f' c sc kw op xs p hc hp]; exact he

/-- … so is the error of the Unmarshaler of a Condition held by a nested Condition (repair F43) … -/
theorem C14_unmarshal_nested_error_held_cond (K : Closures) (f f' : Form) (c ic : Cfg) (kw kw' : Text) (op op' : Op) (ex : Val) (p e : Nat)
    (hc : c.umf = none) (hp : ic.umf = some p) (he : (K.unmarshal p).2 = some e) :
    (unmarshalElemK K (.cnd f c kw op (.cnd f' ic kw' op' ex))).2 = some e := by
  rw [C14_unmarshal_nested_held_cond_elem K f f' c ic kw kw' op op' ex p hc hp]; exact he

/-- … an error raised anywhere below a chain of closure-free Conditions is the error of the outermost one (it travels up
through every level of Condition nesting) … -/
theorem C14_unmarshal_nested_error_up_cond (K : Closures) (f : Form) (c : Cfg) (kw : Text) (op : Op) (ex : Val) (hc : c.umf = none) :
    (unmarshalElemK K (.cnd f c kw op ex)).2 = (unmarshalExprK K ex).2 ∧
    (unmarshalExprK K (.cnd f c kw op ex)).2 = (unmarshalExprK K ex).2 := by
  simp only [unmarshalElemK, unmarshalExprK, hc, and_self]

/-- … and an error raised inside a nested Stack is the nested Stack's error (it travels up through every level of Stack nesting) -/
theorem C14_unmarshal_nested_error_up (K : Closures) (f : Form) (c : Cfg) (ys : List Val) :
    (unmarshalElemK K (.stk f c ys)).2 = (unmarshalElemsK K ys).2 := by
  simp only [unmarshalElemK]

/-- non-vacuity: the four situations in one tree, with a closure environment in which closure 3 fails -/
example :
    let K : Closures := { unmarshal := fun p => ([.leaf (.int p)], if p == 3 then some 7 else none) }
    let t : Stk := ⟨{ kind := 1 }, [.stk .native { kind := 2, umf := some 1 } [.leaf (.str ['a'])],
        .cnd .native { kind := 5, umf := some 2 } ['k'] (.cmp 1) (.leaf (.int 1)),
        .stk .alias { kind := 2 } [.cnd .ptr { kind := 5 } ['k'] (.cmp 1) (.stk .native { kind := 4, umf := some 3 } [.leaf (.int 1)])],
        .leaf (.str ['z'])]⟩
    (t.UnmarshalP K).2 = some 7 ∧ (t.UnmarshalP K).1.length = 3 ∧
    (match (t.UnmarshalP K).1 with
     | [_, .anys [_, .leaf (.str ['a'])], .anys [.leaf (.int 2)]] => true
     | _ => false) = true := by decide

/-- non-vacuity (repair F43): a Condition (pointer form, closure 2) held by a Condition held by the receiver's first element is
consulted; a second chain - Condition, Condition, Condition-held Stack with the failing closure 3 - ends the walk before its entry -/
example :
    let K : Closures := { unmarshal := fun p => ([.leaf (.int p)], if p == 3 then some 7 else none) }
    let t : Stk := ⟨{ kind := 1 }, [
        .cnd .native { kind := 5 } ['a'] (.cmp 1) (.cnd .alias { kind := 5 } ['b'] (.cmp 2) (.cnd .ptr { kind := 5, umf := some 2 } ['c'] (.cmp 3) (.leaf (.int 1)))),
        .cnd .aliasS { kind := 5 } ['d'] (.cmp 1) (.cnd .native { kind := 5 } ['e'] (.cmp 2) (.stk .alias { kind := 4, umf := some 3 } [.leaf (.int 1)])),
        .leaf (.str ['z'])]⟩
    (t.UnmarshalP K).2 = some 7 ∧ (t.UnmarshalP K).1.length = 2 ∧
    (match (t.UnmarshalP K).1 with
     | [_, .anys [_, .leaf (.str ['a']), _, .anys [_, .leaf (.str ['b']), _, .anys [.leaf (.int 2)]]]] => true
     | _ => false) = true := by decide

/-- **Equality.** With an equality closure installed, `IsEqual` against a Stack (any form) returns the closure's result -/
theorem C14_equal (hook : EqHook) (same : Bool) (f f' : Form) (c c' : Cfg) (xs ys : List Val) (p : Nat) (hp : c.eqf = some p) :
    Val.IsEqual hook same (.stk f c xs) (.stk f' c' ys) = .ok (hook p (.stk .native c xs) (.stk f' c' ys)) := by
  simp only [Val.IsEqual, hp]

/-- **Removing a closure restores the built-in behaviour**: the setters only write the one field, and each
method consults only its own field, so after removal the configuration is the one without the closure -/
theorem C14_remove_validity (s : Stk) (hr : s.readOnly = false) : (s.setVpf none).cfg = { s.cfg with vpf := none } ∧ (s.setVpf none).xs = s.xs := by
  unfold Stk.setVpf; simp [hr]

theorem C14_remove_presentation (K : Closures) (s : Stk) (hr : s.readOnly = false) (hk : s.cfg.kind ≠ Gen.kind_basic) :
    (s.setRpf none).String K = ({ s with cfg := { s.cfg with rpf := none } } : Stk).String K := by
  unfold Stk.setRpf
  have : (s.cfg.kind == Gen.kind_basic) = false := by simpa using hk
  simp [hr, this]

/-- after removal `Unmarshal()` is the built-in walk again (label, then the element loop, which still honours the
Unmarshalers of nested Conditions and Condition-held Stacks) … -/
theorem C14_remove_unmarshaler (K : Closures) (s : Stk) (hr : s.readOnly = false) :
    (s.setUmf none).UnmarshalP K = (strV s.cfg.kindText :: (unmarshalElemsK K s.xs).1, (unmarshalElemsK K s.xs).2) := by
  unfold Stk.setUmf Stk.UnmarshalP; simp [hr]; rfl

/-- … which on a content without any Unmarshaler is the closure-free `Stk.unmarshal`, without error -/
theorem C14_remove_unmarshaler_plain (K : Closures) (s : Stk) (hr : s.readOnly = false) (hx : noUmfList s.xs = true) :
    (s.setUmf none).UnmarshalP K = (s.unmarshal, none) := by
  rw [C14_remove_unmarshaler K s hr, unmarshalElemsK_noUmf K s.xs hx]; rfl

/-- **BASIC** refuses a presentation policy, records an error and renders as the empty string -/
theorem C14_basic (K : Closures) (s : Stk) (p : Option Nat) (hr : s.readOnly = false) (hk : s.cfg.kind = Gen.kind_basic) :
    (s.setRpf p).cfg.rpf = s.cfg.rpf ∧ (s.setRpf p).cfg.err = some 1021 ∧ (s.setRpf p).String K = [] := by
  unfold Stk.setRpf
  have : (s.cfg.kind == Gen.kind_basic) = true := by simp [hk]
  simp only [hr, Bool.false_eq_true, ↓reduceIte, this, true_and]
  unfold Stk.String Cfg.canString
  simp [hk]

end Stackage
