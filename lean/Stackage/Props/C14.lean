import Stackage.Lemmas.Push

/-!
# C14 — user-supplied policies decide, exactly as documented (push policy part)

`interp p` is the meaning of the installed closure `p`: an arbitrary function
`Val → Option Nat` (`some e` = reject with error `e`). The theorems quantify
over every such function.
-/

set_option linter.unusedSimpArgs false
namespace Stackage
open ListSpec
namespace Stk

/-- **Push under a policy** consults it once per value, in order, while room remains; appends
each approved value; at the first rejection stops, keeps what was appended and records that
error; values dropped for lack of room are not consulted -/
theorem C14_push (interp : Nat → Val → Option Nat) (p : Nat) (s : Stk) (vs : List Val) (hwf : s.WF)
    (hp : s.cfg.ppf = some p) (hsm : SmallLen (s.xs.length + vs.length)) :
    (s.push interp vs).xs = s.xs ++ (pushPol (interp p) s.opts.room vs).1 ∧
    (s.push interp vs).cfg =
      (match (pushPol (interp p) s.opts.room vs).2 with
       | some e => { s.cfg with err := some e }
       | none => s.cfg) := by
  unfold push; rw [hp]
  obtain ⟨a, b, _⟩ := methodAppend_spec (interp p) vs s hwf hsm
  exact ⟨a, b⟩

/-- nothing the policy rejected is ever stored -/
theorem C14_nothing_rejected_stored (pol : Val → Option Nat) (vs : List Val) :
    ∀ (room : Option Nat) (v : Val), v ∈ (pushPol pol room vs).1 → pol v = none := by
  induction vs with
  | nil => intro room v h; simp [pushPol] at h
  | cons x rest ih =>
    intro room v h
    unfold pushPol at h
    split at h
    · simp at h
    · split at h
      · simp at h
      · rename_i hp
        simp only [List.mem_cons] at h
        rcases h with h | h
        · rw [h]; exact hp
        · exact ih _ v h

/-- what is stored is a prefix-by-position of the batch (order kept, nothing fabricated) -/
theorem C14_stored_prefix (pol : Val → Option Nat) (vs : List Val) :
    ∀ (room : Option Nat), (pushPol pol room vs).1 <+: vs := by
  induction vs with
  | nil => intro room; simp [pushPol]
  | cons x rest ih =>
    intro room
    unfold pushPol
    split
    · simp
    · split
      · simp
      · simpa using ih _

/-- an error is reported exactly when some consulted value was rejected, and it is that value's error -/
theorem C14_error_is_policy's (pol : Val → Option Nat) (vs : List Val) :
    ∀ (room : Option Nat) (e : Nat), (pushPol pol room vs).2 = some e → ∃ v ∈ vs, pol v = some e := by
  induction vs with
  | nil => intro room e h; simp [pushPol] at h
  | cons x rest ih =>
    intro room e h
    unfold pushPol at h
    split at h
    · simp at h
    · split at h
      · rename_i e' hp
        simp only [Option.some.injEq] at h
        exact ⟨x, by simp, by rw [hp, h]⟩
      · obtain ⟨v, hv, hpv⟩ := ih _ e h
        exact ⟨v, by simp [hv], hpv⟩

/-- removing the policy restores the built-in behaviour -/
theorem C14_remove (interp : Nat → Val → Option Nat) (s : Stk) (vs : List Val) (h : s.cfg.ppf = none) :
    s.push interp vs = s.genericAppend vs := by
  unfold push; rw [h]

example : ∃ s : Stk, s.WF ∧ s.cfg.ppf = some 1 :=
  ⟨⟨{ kind := 4, ppf := some 1 }, []⟩, ⟨by unfold SmallLen; rw [pow62]; simp, Or.inl rfl⟩, rfl⟩

end Stk
end Stackage
