import Stackage.Model.Alias
import Stackage.Model.Options
import Stackage.Lemmas.Push

/-!
# C12 — user-defined aliases of Stack and Condition behave as the native types

`erase` replaces every alias form (alias value, alias with its own String method, non-nil pointer
to an alias) by the native form. Each theorem says that an observation of a tree equals the same
observation of its all-native twin (`IsEqual` and `Defrag` are added in `Props/C05`, `Props/C19`).
-/

set_option linter.unusedSimpArgs false
namespace Stackage

theorem erase_isNil (v : Val) : (erase v).isNil = v.isNil := by cases v <;> simp [erase, Val.isNil]
theorem erase_isStack (v : Val) : (erase v).isStack = v.isStack := by cases v <;> simp [erase, Val.isStack]
theorem erase_isCond (v : Val) : (erase v).isCond = v.isCond := by cases v <;> simp [erase, Val.isCond]

theorem eraseList_length : ∀ xs : List Val, (eraseList xs).length = xs.length
  | [] => rfl
  | _ :: rest => by simp [eraseList, eraseList_length rest]

theorem eraseList_getD : ∀ (xs : List Val) (p : Nat), (eraseList xs).getD p .nil = erase (xs.getD p .nil)
  | [], p => by simp [eraseList, erase]
  | x :: rest, 0 => by simp [eraseList]
  | x :: rest, p + 1 => by simpa [eraseList] using eraseList_getD rest p

theorem condValid_erase (K : Closures) (c : Cfg) (kw : Text) (op : Op) (ex : Val) :
    condValid K c kw op (erase ex) = condValid K c kw op ex := by
  unfold condValid; rw [erase_isNil]

/-! ## String() -/
mutual
theorem elemText_erase (K : Closures) (pc : Cfg) : ∀ v : Val, elemText K pc (erase v) = elemText K pc v
  | .stk f c xs => by simp only [erase, elemText, elemsText_erase K c xs]
  | .cnd f c kw op ex => by simp only [erase, elemText, condValid_erase, exprRaw_erase K ex]
  | .nil => rfl
  | .leaf _ => rfl
  | .zstk _ => rfl
  | .zcnd _ => rfl
  | .anys xs => by simp only [erase, elemText]
  | .opv _ => rfl
theorem elemsText_erase (K : Closures) (pc : Cfg) : ∀ xs : List Val, elemsText K pc (eraseList xs) = elemsText K pc xs
  | [] => rfl
  | x :: rest => by simp only [eraseList, elemsText, elemText_erase K pc x, elemsText_erase K pc rest]
theorem exprRaw_erase (K : Closures) : ∀ v : Val, exprRaw K (erase v) = exprRaw K v
  | .stk f c xs => by simp only [erase, exprRaw, elemsText_erase K c xs]
  | .cnd f c kw op ex => by simp only [erase, exprRaw, condValid_erase, exprRaw_erase K ex]
  | .nil => rfl
  | .leaf _ => rfl
  | .zstk _ => rfl
  | .zcnd _ => rfl
  | .anys xs => by simp only [erase, exprRaw]
  | .opv _ => rfl
end

/-- the parent's `String()` is that of the native tree -/
theorem C12_string (K : Closures) (s : Stk) : s.erase.String K = s.String K := by
  unfold Stk.String Stk.erase; simp only [elemsText_erase]

/-- … also when the alias sits in a Condition's expression -/
theorem C12_cond_string (K : Closures) (c : Cfg) (kw : Text) (op : Op) (ex : Val) :
    condString K c kw op (erase ex) = condString K c kw op ex := by
  unfold condString; rw [condValid_erase, exprRaw_erase]

/-! ## Unmarshal -/
mutual
theorem unmarshalElem_erase : ∀ v : Val, unmarshalElem (erase v) = erase (unmarshalElem v)
  | .stk f c xs => by simp only [erase, unmarshalElem, eraseList, unmarshalElems_erase xs, strV]
  | .cnd f c kw op ex => by simp only [erase, unmarshalElem, eraseList, unmarshalExpr_erase ex, strV]
  | .nil => rfl
  | .leaf _ => rfl
  | .zstk _ => rfl
  | .zcnd _ => rfl
  | .anys xs => by simp only [erase, unmarshalElem]
  | .opv _ => rfl
theorem unmarshalElems_erase : ∀ xs : List Val, unmarshalElems (eraseList xs) = eraseList (unmarshalElems xs)
  | [] => rfl
  | x :: rest => by simp only [eraseList, unmarshalElems, unmarshalElem_erase x, unmarshalElems_erase rest]
theorem unmarshalExpr_erase : ∀ v : Val, unmarshalExpr (erase v) = erase (unmarshalExpr v)
  | .stk f c xs => by simp only [erase, unmarshalExpr, eraseList, unmarshalElems_erase xs, strV]
  | .cnd f c kw op ex => by simp only [erase, unmarshalExpr]
  | .nil => rfl
  | .leaf _ => rfl
  | .zstk _ => rfl
  | .zcnd _ => rfl
  | .anys xs => by simp only [erase, unmarshalExpr]
  | .opv _ => rfl
end

/-- `Unmarshal()` of the alias tree is that of the native tree (a Condition alias passed through
as a Condition's expression is the alias of the same instance) -/
theorem C12_unmarshal (s : Stk) : s.erase.unmarshal = eraseList s.unmarshal := by
  unfold Stk.unmarshal Stk.erase; simp only [eraseList, unmarshalElems_erase, erase, strV]

/-! ## IsNesting, Condition.Len, no-nesting refusal, Transfer, converters -/

theorem countsAsNested_erase (v : Val) : Stk.countsAsNested (erase v) = Stk.countsAsNested v := by
  cases v <;> simp [erase, Stk.countsAsNested]

theorem any_erase (xs : List Val) : (eraseList xs).any Stk.countsAsNested = xs.any Stk.countsAsNested := by
  induction xs with
  | nil => rfl
  | cons x rest ih => simp only [eraseList, List.any_cons, countsAsNested_erase, ih]

theorem C12_isNesting (s : Stk) : s.erase.IsNesting = s.IsNesting := by
  unfold Stk.IsNesting Stk.erase; exact any_erase s.xs

theorem C12_cond_len (c : Cnd) : ({ c with ex := erase c.ex } : Cnd).len = c.len := by
  unfold Cnd.len; cases c.ex <;> simp [erase, eraseList_length]

theorem C12_cond_isNesting (c : Cnd) : ({ c with ex := erase c.ex } : Cnd).IsNesting = c.IsNesting := by
  unfold Cnd.IsNesting; exact erase_isStack c.ex

/-- the no-nesting test treats every form alike: Push refuses an alias exactly when it refuses the native value -/
theorem C12_nonest_push (s : Stk) (v : Val) : s.canPushNester (erase v) = s.canPushNester v := by
  unfold Stk.canPushNester; rw [erase_isStack]

/-- … and so does a Condition's `SetExpression` -/
theorem C12_nonest_cond (c : Cnd) (v : Val) : c.exAccepted (erase v) = c.exAccepted v := by
  unfold Cnd.exAccepted
  cases v <;> simp [erase, Val.isStack]

/-- `ConvertStack` / `ConvertCondition` return the underlying native instance for alias values and
non-nil pointers to them, and nothing for nil, zero-valued instances / aliases and unrelated values -/
theorem C12_convertStack (f : Form) (c : Cfg) (xs : List Val) : convertStack (.stk f c xs) = some ⟨c, xs⟩ := rfl
theorem C12_convertCondition (f : Form) (c : Cfg) (kw : Text) (op : Op) (ex : Val) :
    convertCondition (.cnd f c kw op ex) = some ⟨c, kw, op, ex⟩ := rfl
theorem C12_convert_none (v : Val) (h : v.isStack = false) : convertStack v = none := by
  cases v <;> simp_all [convertStack, Val.isStack]
theorem C12_convert_zero (f : Form) : convertStack (.zstk f) = none ∧ convertCondition (.zcnd f) = none ∧
    convertStack .nil = none ∧ convertCondition .nil = none := ⟨rfl, rfl, rfl, rfl⟩

/-- a destination given as alias / pointer receives exactly what the native destination receives -/
theorem C12_transfer_dest (interp : Nat → Val → Option Nat) (s : Stk) (f : Form) (c : Cfg) (xs : List Val) :
    (s.Transfer interp (.stk f c xs)).2 = (s.Transfer interp (.stk .native c xs)).2 ∧
    erase (s.Transfer interp (.stk f c xs)).1 = erase (s.Transfer interp (.stk .native c xs)).1 := by
  simp only [Stk.Transfer]
  cases ({ cfg := c, xs := xs } : Stk).readOnly <;> simp [erase]

/-! ## Traverse -/

theorem descendInto_erase (v : Val) : descendInto (erase v) = (descendInto v).map Stk.erase := by
  cases v with
  | stk f c xs => simp [erase, descendInto, Stk.erase]
  | cnd f c kw op ex => cases ex <;> simp [erase, descendInto, stkOf, Stk.erase]
  | _ => simp [erase, descendInto]

theorem index_erase (l : List Val) (neg fwd : Bool) (i : Int) :
    ListSpec.index (eraseList l) neg fwd i = ((erase (ListSpec.index l neg fwd i).1), (ListSpec.index l neg fwd i).2) := by
  unfold ListSpec.index
  rw [eraseList_length]
  cases ListSpec.pos l.length neg fwd i with
  | none => simp [erase]
  | some p => simp only [eraseList_getD, erase_isNil]

/-- `Traverse` (through its stepwise-descent characterisation, C07) walks the alias tree exactly as it walks the native one -/
theorem C12_traverse (K : Closures) (p : List Int) : ∀ s : Stk,
    descent K s.erase p = (erase (descent K s p).1, (descent K s p).2) := by
  induction p with
  | nil => intro s; simp [descent, erase]
  | cons i rest ih =>
    intro s
    unfold descent
    have hf : ∀ f, s.erase.flag f = s.flag f := fun _ => rfl
    have : s.erase.xs = eraseList s.xs := rfl
    rw [this, hf, hf, index_erase]
    simp only
    cases (ListSpec.index s.xs (s.flag Gen.flag_negidx) (s.flag Gen.flag_fwdidx) i).2
    · simp [erase]
    · simp only [Bool.not_true, Bool.false_eq_true, ↓reduceIte]
      cases rest with
      | nil => simp
      | cons j rest' =>
        simp only [descendInto_erase]
        cases descendInto (ListSpec.index s.xs (s.flag Gen.flag_negidx) (s.flag Gen.flag_fwdidx) i).1 with
        | none => simp [erase]
        | some s' => simpa using ih s'

/-- non-vacuity: a tree with an alias stack holding a pointer-to-alias condition renders like its native twin -/
example : let t : Stk := ⟨{ kind := 1 }, [.stk .alias { kind := 2 } [.leaf (.str ['a']),
              .cnd .ptr { kind := 5 } ['k'] (.cmp 1) (.stk .aliasS { kind := 4 } [.leaf (.int 1)])]]⟩
          t.erase.String {} = t.String {} := C12_string {} _

end Stackage
