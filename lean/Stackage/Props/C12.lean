import Stackage.Model.Alias
import Stackage.Model.Options
import Stackage.Lemmas.Push
import Stackage.Lemmas.Alias
import Stackage.Lemmas.AliasEq
import Stackage.Lemmas.AliasEqTop
import Stackage.Lemmas.DefragMap
import Stackage.Lemmas.Unmarshal

/-!
# C12 — user-defined aliases of Stack and Condition behave as the native types

`erase` replaces every alias form (alias value, alias with its own String method, non-nil pointer
to an alias) by the native form. Each theorem says that an observation of a tree equals the same
observation of its all-native twin. The helper lemmas for `IsEqual` are in `Lemmas/AliasEq.lean`, those
for `Defrag` in `Lemmas/DefragMap.lean`, the basic facts about `erase` in `Lemmas/Alias.lean`.
-/

set_option linter.unusedSimpArgs false
namespace Stackage

theorem condValid_erase (K : Closures) (c : Cfg) (kw : Text) (op : Op) (ex : Val) :
    condValid K c kw op (erase ex) = condValid K c kw op ex := by
  unfold condValid; rw [erase_isNil]

/-! ## String() -/
mutual
theorem elemText_erase (K : Closures) (pc : Cfg) : ∀ v : Val, elemText K pc (erase v) = elemText K pc v
  | .stk f c xs => by simp only [erase, elemText, elemsText_erase K c xs]
  | .cnd f c kw op ex => by simp only [erase, elemText, condValid_erase, exprRaw_erase K ex]
  | .nil => rfl
  | .leaf _ => rfl
  | .zstk _ => rfl
  | .zcnd _ => rfl
  | .anys xs => by simp only [erase, elemText]
  | .opv _ => rfl
theorem elemsText_erase (K : Closures) (pc : Cfg) : ∀ xs : List Val, elemsText K pc (eraseList xs) = elemsText K pc xs
  | [] => rfl
  | x :: rest => by simp only [eraseList, elemsText, elemText_erase K pc x, elemsText_erase K pc rest]
theorem exprRaw_erase (K : Closures) : ∀ v : Val, exprRaw K (erase v) = exprRaw K v
  | .stk f c xs => by simp only [erase, exprRaw, elemsText_erase K c xs]
  | .cnd f c kw op ex => by simp only [erase, exprRaw, condValid_erase, exprRaw_erase K ex]
  | .nil => rfl
  | .leaf _ => rfl
  | .zstk _ => rfl
  | .zcnd _ => rfl
  | .anys xs => by simp only [erase, exprRaw]
  | .opv _ => rfl
end

/-- the parent's `String()` is that of the native tree -/
theorem C12_string (K : Closures) (s : Stk) : s.erase.String K = s.String K := by
  unfold Stk.String Stk.erase; simp only [elemsText_erase]

/-- … also when the alias sits in a Condition's expression -/
theorem C12_cond_string (K : Closures) (c : Cfg) (kw : Text) (op : Op) (ex : Val) :
    condString K c kw op (erase ex) = condString K c kw op ex := by
  unfold condString; rw [condValid_erase, exprRaw_erase]

/-! ## Unmarshal -/
mutual
theorem unmarshalElem_erase : ∀ v : Val, unmarshalElem (erase v) = erase (unmarshalElem v)
  | .stk f c xs => by simp only [erase, unmarshalElem, eraseList, unmarshalElems_erase xs, strV]
  | .cnd f c kw op ex => by simp only [erase, unmarshalElem, eraseList, unmarshalExpr_erase ex, strV]
  | .nil => rfl
  | .leaf _ => rfl
  | .zstk _ => rfl
  | .zcnd _ => rfl
  | .anys xs => by simp only [erase, unmarshalElem]
  | .opv _ => rfl
theorem unmarshalElems_erase : ∀ xs : List Val, unmarshalElems (eraseList xs) = eraseList (unmarshalElems xs)
  | [] => rfl
  | x :: rest => by simp only [eraseList, unmarshalElems, unmarshalElem_erase x, unmarshalElems_erase rest]
theorem unmarshalExpr_erase : ∀ v : Val, unmarshalExpr (erase v) = erase (unmarshalExpr v)
  | .stk f c xs => by simp only [erase, unmarshalExpr, eraseList, unmarshalElems_erase xs, strV]
  | .cnd f c kw op ex => by simp only [erase, unmarshalExpr, eraseList, unmarshalExpr_erase ex, strV]
  | .nil => rfl
  | .leaf _ => rfl
  | .zstk _ => rfl
  | .zcnd _ => rfl
  | .anys xs => by simp only [erase, unmarshalExpr]
  | .opv _ => rfl
end

/-- `Unmarshal()` of the alias tree is that of the native tree: a plain equality. Every Stack and every Condition -
as an element or as a Condition's expression, in any form, at any depth - is expanded to its row (repair F43: a Condition
held as a Condition's expression used to be handed through as the live value, alias form included), so the only
forms left in the result are those of leaves the user put there (`[]any` leaves holding handles) -/
theorem C12_unmarshal (s : Stk) : s.erase.unmarshal = eraseList s.unmarshal := by
  unfold Stk.unmarshal Stk.erase; simp only [eraseList, unmarshalElems_erase, erase, strV]

/-! ## Unmarshal with Unmarshaler closures anywhere in the tree

An Unmarshaler (`func(...any) ([]any, error)`) is called without arguments: it is not handed the instance, so its
result `K.unmarshal p` is one fixed list whatever the forms in the tree are. Three statements, from the most general down:

* `C12_unmarshalP_eraseU` (every `K`): the twin's `Unmarshal()`, with the closures' own results shown in native form
  (`K.eraseU`), is the erased result of the alias tree, with the same error;
* `C12_unmarshalP` (every `K`, no hypothesis): shown in native form on both sides - which is what an observer comparing
  "as the native types" looks at, and what the correspondence stream prints - the two results are the same list and
  the same error. The closure-produced lists are erased like everything else;
* `C12_unmarshalP_native` (hypothesis `K.UmfNative`: the closures' own results hold native forms only): literally
  `s.erase.UnmarshalP K = (eraseList result, same error)`.

In all three the receiver's own Unmarshaler, the Unmarshalers of nested Conditions and of Condition-held Stacks (all
consulted) and those of directly nested Stacks (never consulted, in any form: `C14_unmarshal_nested_stack_ignored`)
are covered, and so is the error that ends the walk early. -/

theorem C12_unmarshalP_eraseU (K : Closures) (s : Stk) :
    s.erase.UnmarshalP K.eraseU = (eraseList (s.UnmarshalP K).1, (s.UnmarshalP K).2) := by
  unfold Stk.UnmarshalP Stk.erase
  cases hu : s.cfg.umf with
  | some p => simp only [Closures.eraseU]
  | none => simp only [unmarshalElemsK_erase K s.xs, eraseList, erase, strV]

/-- **`Unmarshal()` with closures**: for every closure environment, the alias tree and its native twin give the same
entries (compared in native form) and the same error -/
theorem C12_unmarshalP (K : Closures) (s : Stk) :
    eraseList (s.erase.UnmarshalP K).1 = eraseList (s.UnmarshalP K).1 ∧ (s.erase.UnmarshalP K).2 = (s.UnmarshalP K).2 := by
  have h1 := C12_unmarshalP_eraseU K s.erase
  have h2 := C12_unmarshalP_eraseU K s
  rw [Stk.erase_idem, h2] at h1
  exact ⟨(congrArg Prod.fst h1).symm, (congrArg Prod.snd h1).symm⟩

theorem Stk.UnmarshalP_eraseU (K : Closures) (hK : K.UmfNative) (s : Stk) : s.UnmarshalP K.eraseU = s.UnmarshalP K := by
  unfold Stk.UnmarshalP
  cases hu : s.cfg.umf with
  | some p => simp only [Closures.eraseU, hK p]
  | none => simp only [unmarshalElemsK_eraseU K hK]

/-- … and literally the erased result when the closures' own results hold native forms only -/
theorem C12_unmarshalP_native (K : Closures) (hK : K.UmfNative) (s : Stk) :
    s.erase.UnmarshalP K = (eraseList (s.UnmarshalP K).1, (s.UnmarshalP K).2) := by
  rw [← C12_unmarshalP_eraseU K s, Stk.UnmarshalP_eraseU K hK]

/-- the same for a Condition receiver whose expression holds alias forms (`Condition.Unmarshal()`) -/
theorem C12_cond_unmarshalP_eraseU (K : Closures) (c : Cnd) :
    ({ c with ex := erase c.ex } : Cnd).UnmarshalP K.eraseU = (eraseList (c.UnmarshalP K).1, (c.UnmarshalP K).2) := by
  unfold Cnd.UnmarshalP
  cases hu : c.cfg.umf with
  | some p => simp only [Closures.eraseU]
  | none => simp only [unmarshalExprK_erase K c.ex, eraseList, erase, strV]

theorem C12_cond_unmarshalP (K : Closures) (c : Cnd) :
    eraseList (({ c with ex := erase c.ex } : Cnd).UnmarshalP K).1 = eraseList (c.UnmarshalP K).1 ∧
    (({ c with ex := erase c.ex } : Cnd).UnmarshalP K).2 = (c.UnmarshalP K).2 := by
  have h1 := C12_cond_unmarshalP_eraseU K { c with ex := erase c.ex }
  have h2 := C12_cond_unmarshalP_eraseU K c
  simp only [erase_idem] at h1
  rw [h2] at h1
  exact ⟨(congrArg Prod.fst h1).symm, (congrArg Prod.snd h1).symm⟩

/-- with no Unmarshaler anywhere this is `C12_unmarshal` again -/
theorem C12_unmarshalP_noUmf (K : Closures) (s : Stk) (h : s.cfg.umf = none) (hx : noUmfList s.xs = true) :
    s.UnmarshalP K = (s.unmarshal, none) := by
  unfold Stk.UnmarshalP Stk.unmarshal; rw [h]; simp only [unmarshalElemsK_noUmf K s.xs hx]

/-- non-vacuity: a tree whose *native* nested Stack and whose pointer-form nested Stack both carry an Unmarshaler (neither is
consulted), with a Condition alias that carries one (consulted) and a Condition holding an alias Stack that carries a failing
one (consulted: the walk ends there, before the last element) -/
example :
    let K : Closures := { unmarshal := fun p => ([.leaf (.int p), .stk .alias { kind := 1 } []], if p == 3 then some 7 else none) }
    let t : Stk := ⟨{ kind := 1 }, [.stk .native { kind := 2, umf := some 1 } [.leaf (.str ['a'])],
        .stk .ptr { kind := 2, umf := some 1 } [.leaf (.str ['a'])],
        .cnd .alias { kind := 5, umf := some 2 } ['k'] (.cmp 1) (.leaf (.int 1)),
        .cnd .ptr { kind := 5 } ['k'] (.cmp 1) (.stk .aliasS { kind := 4, umf := some 3 } [.leaf (.int 1)]),
        .leaf (.str ['z'])]⟩
    (t.UnmarshalP K).2 = some 7 ∧ (t.UnmarshalP K).1.length = 4 ∧ (t.erase.UnmarshalP K).2 = some 7 ∧
    (t.erase.UnmarshalP K).1.length = 4 := by decide

/-! ## IsNesting, Condition.Len, no-nesting refusal, Transfer, converters -/

theorem C12_isNesting (s : Stk) : s.erase.IsNesting = s.IsNesting := by
  unfold Stk.IsNesting Stk.erase; exact any_erase s.xs

theorem C12_cond_len (c : Cnd) : ({ c with ex := erase c.ex } : Cnd).len = c.len := by
  unfold Cnd.len; cases c.ex <;> simp [erase, eraseList_length]

theorem C12_cond_isNesting (c : Cnd) : ({ c with ex := erase c.ex } : Cnd).IsNesting = c.IsNesting := by
  unfold Cnd.IsNesting; exact erase_isStack c.ex

/-- the no-nesting test treats every form alike: Push refuses an alias exactly when it refuses the native value -/
theorem C12_nonest_push (s : Stk) (v : Val) : s.canPushNester (erase v) = s.canPushNester v := by
  unfold Stk.canPushNester; rw [erase_isStack]

/-- … and so does a Condition's `SetExpression` -/
theorem C12_nonest_cond (c : Cnd) (v : Val) : c.exAccepted (erase v) = c.exAccepted v := by
  unfold Cnd.exAccepted
  cases v <;> simp [erase, Val.isStack]

/-- `ConvertStack` / `ConvertCondition` return the underlying native instance for alias values and
non-nil pointers to them, and nothing for nil, zero-valued instances / aliases and unrelated values -/
theorem C12_convertStack (f : Form) (c : Cfg) (xs : List Val) : convertStack (.stk f c xs) = some ⟨c, xs⟩ := rfl
theorem C12_convertCondition (f : Form) (c : Cfg) (kw : Text) (op : Op) (ex : Val) :
    convertCondition (.cnd f c kw op ex) = some ⟨c, kw, op, ex⟩ := rfl
theorem C12_convert_none (v : Val) (h : v.isStack = false) : convertStack v = none := by
  cases v <;> simp_all [convertStack, Val.isStack]
theorem C12_convert_zero (f : Form) : convertStack (.zstk f) = none ∧ convertCondition (.zcnd f) = none ∧
    convertStack .nil = none ∧ convertCondition .nil = none := ⟨rfl, rfl, rfl, rfl⟩

/-- a destination given as alias / pointer receives exactly what the native destination receives -/
theorem C12_transfer_dest (interp : Nat → Val → Option Nat) (s : Stk) (f : Form) (c : Cfg) (xs : List Val) :
    (s.Transfer interp (.stk f c xs)).2 = (s.Transfer interp (.stk .native c xs)).2 ∧
    erase (s.Transfer interp (.stk f c xs)).1 = erase (s.Transfer interp (.stk .native c xs)).1 := by
  simp only [Stk.Transfer]
  cases ({ cfg := c, xs := xs } : Stk).readOnly <;> simp [erase]

/-! ## Traverse -/

theorem descendInto_erase (v : Val) : descendInto (erase v) = (descendInto v).map Stk.erase := by
  cases v with
  | stk f c xs => simp [erase, descendInto, Stk.erase]
  | cnd f c kw op ex => cases ex <;> simp [erase, descendInto, stkOf, Stk.erase]
  | _ => simp [erase, descendInto]

theorem index_erase (l : List Val) (neg fwd : Bool) (i : Int) :
    ListSpec.index (eraseList l) neg fwd i = ((erase (ListSpec.index l neg fwd i).1), (ListSpec.index l neg fwd i).2) := by
  unfold ListSpec.index
  rw [eraseList_length]
  cases ListSpec.pos l.length neg fwd i with
  | none => simp [erase]
  | some p => simp only [eraseList_getD, erase_isNil]

/-- `Traverse` (through its stepwise-descent characterisation, C07) walks the alias tree exactly as it walks the native one -/
theorem C12_traverse (K : Closures) (p : List Int) : ∀ s : Stk,
    descent K s.erase p = (erase (descent K s p).1, (descent K s p).2) := by
  induction p with
  | nil => intro s; simp [descent, erase]
  | cons i rest ih =>
    intro s
    unfold descent
    have hf : ∀ f, s.erase.flag f = s.flag f := fun _ => rfl
    have : s.erase.xs = eraseList s.xs := rfl
    rw [this, hf, hf, index_erase]
    simp only
    cases (ListSpec.index s.xs (s.flag Gen.flag_negidx) (s.flag Gen.flag_fwdidx) i).2
    · simp [erase]
    · simp only [Bool.not_true, Bool.false_eq_true, ↓reduceIte]
      cases rest with
      | nil => simp
      | cons j rest' =>
        simp only [descendInto_erase]
        cases descendInto (ListSpec.index s.xs (s.flag Gen.flag_negidx) (s.flag Gen.flag_fwdidx) i).1 with
        | none => simp [erase]
        | some s' => simpa using ih s'

/-- non-vacuity: a tree with an alias stack holding a pointer-to-alias condition renders like its native twin -/
example : let t : Stk := ⟨{ kind := 1 }, [.stk .alias { kind := 2 } [.leaf (.str ['a']),
              .cnd .ptr { kind := 5 } ['k'] (.cmp 1) (.stk .aliasS { kind := 4 } [.leaf (.int 1)])]]⟩
          t.erase.String {} = t.String {} := C12_string {} _

/-! ## IsEqual -/

/-- `erase` is idempotent: the native twin of a native twin is itself -/
theorem C12_erase_idem (v : Val) : erase (erase v) = erase v := erase_idem v

/-- `valuesEqual` on two stack slots / two condition expressions gives, on a pair of trees with alias forms
anywhere (as Stack elements, as Condition expressions, also inside `[]any` leaves), the answer it gives on the
all-native twins. `HookBlind`: the user's EqualityPolicy closures are themselves form-blind (see its doc comment;
`C12_isEqual_noPolicy` needs no such hypothesis when the receiver's tree has no EqualityPolicy). -/
theorem C12_veq (hook : EqHook) (hh : HookBlind hook) (x y : Val) :
    Val.veq hook (erase x) (erase y) = Val.veq hook x y := Val.veq_erase hook hh x y

/-- … and so does the slot loop of `stack.isEqual` -/
theorem C12_stkLoop (hook : EqHook) (hh : HookBlind hook) (xs ys : List Val) :
    stkLoop hook (eraseList xs) (eraseList ys) = stkLoop hook xs ys := stkLoop_erase hook hh xs ys

/-- the private `stack.isEqual` (pointer short-cut, capacity / length, kind, slots) -/
theorem C12_stack_isEqual (hook : EqHook) (hh : HookBlind hook) (same : Bool) (r o : Stk) :
    Stk.isEqual hook same r.erase o.erase = Stk.isEqual hook same r o := by
  simp only [Stk.isEqual, Stk.erase, eraseList_length, stkLoop_erase hook hh]

/-- the private `condition.isEqual` (keyword, operator, expression) -/
theorem C12_cond_isEqual (hook : EqHook) (hh : HookBlind hook) (kw : Text) (op : Op) (ex : Val) (kw' : Text) (op' : Op) (ex' : Val) :
    condIsEqual hook kw op (erase ex) kw' op' (erase ex') = condIsEqual hook kw op ex kw' op' ex' := by
  simp only [condIsEqual, Val.veq_erase hook hh]

/-- **The exported `Stack.IsEqual` / `Condition.IsEqual`**: receiver and argument in any form, holding aliases at
any depth, against each other — the result (equal, the error class, or a panic) is that of the two all-native trees. -/
theorem C12_isEqual (hook : EqHook) (hh : HookBlind hook) (same : Bool) (a b : Val) :
    Val.IsEqual hook same (erase a) (erase b) = Val.IsEqual hook same a b := Val.IsEqual_erase hook hh same a b

/-- "in both directions", 1: the alias tree as receiver, a native tree as argument -/
theorem C12_isEqual_right (hook : EqHook) (hh : HookBlind hook) (same : Bool) (a b : Val) :
    Val.IsEqual hook same a (erase b) = Val.IsEqual hook same (erase a) (erase b) := by
  have := C12_isEqual hook hh same a (erase b)
  rw [erase_idem] at this
  exact this.symm

/-- "in both directions", 2: a native tree as receiver, the alias tree as argument -/
theorem C12_isEqual_left (hook : EqHook) (hh : HookBlind hook) (same : Bool) (a b : Val) :
    Val.IsEqual hook same (erase a) b = Val.IsEqual hook same (erase a) (erase b) := by
  have := C12_isEqual hook hh same (erase a) b
  rw [erase_idem] at this
  exact this.symm

/-- comparing an alias tree with the native twin of another tree is comparing the two alias trees … -/
theorem C12_isEqual_alias_native (hook : EqHook) (hh : HookBlind hook) (same : Bool) (a b : Val) :
    Val.IsEqual hook same a (erase b) = Val.IsEqual hook same a b := by
  rw [C12_isEqual_right hook hh, C12_isEqual hook hh]

/-- … in either argument position -/
theorem C12_isEqual_native_alias (hook : EqHook) (hh : HookBlind hook) (same : Bool) (a b : Val) :
    Val.IsEqual hook same (erase a) b = Val.IsEqual hook same a b := by
  rw [C12_isEqual_left hook hh, C12_isEqual hook hh]

/-- an alias tree is equal to its own native twin exactly when it is equal to itself (both directions) -/
theorem C12_isEqual_twin (hook : EqHook) (hh : HookBlind hook) (same : Bool) (a : Val) :
    Val.IsEqual hook same a (erase a) = Val.IsEqual hook same a a ∧
    Val.IsEqual hook same (erase a) a = Val.IsEqual hook same a a :=
  ⟨C12_isEqual_alias_native hook hh same a a, C12_isEqual_native_alias hook hh same a a⟩

/-- the same for an arbitrary hook, under a decidable hypothesis instead of `HookBlind`: no EqualityPolicy is
installed in the receiver's tree (then no closure is ever called) -/
theorem C12_isEqual_noPolicy (hook : EqHook) (same : Bool) (a b : Val) (ha : noEqPolicy a = true) :
    Val.IsEqual hook same (erase a) (erase b) = Val.IsEqual hook same a b :=
  Val.IsEqual_erase_noPolicy hook same a b ha

/-- non-vacuity of `HookBlind`: a closure that compares what the two instances render (through `String()`, which
is form-blind by `C12_string`) is form-blind, and it is not a constant -/
example : HookBlind (fun p a b => if exprRaw {} a = exprRaw {} b then none else some (.user p)) := by
  intro p a b; simp only [exprRaw_erase]

/-- … and `HookBlind` is not idle: a closure that looks at the form of an element (a Go type switch on
`r.Index(0)`) does tell the alias tree from its twin -/
example :
    let peek : EqHook := fun _ a _ => match a with | .stk _ _ (.stk .alias _ _ :: _) => some (.user 1) | _ => none
    let a : Val := .stk .native { kind := 1, eqf := some 1 } [.stk .alias { kind := 1 } []]
    (Val.IsEqual peek false a a).toOption = some (some (.user 1)) ∧
    (Val.IsEqual peek false (erase a) (erase a)).toOption = some none := by decide

/-! ### EqualityPolicies that look at the type of what they are handed

A closure such as `func(_, peer any) error { if _, ok := peer.(stackage.Stack); !ok { return err }; … }` is not
`HookBlind` - at the top level `IsEqual` hands it the argument as the caller passed it. On NESTED nodes it always
receives converted (native) instances, so a receiver without a policy of its own still cannot tell an alias tree from
its native twin, whatever such closures sit further down (`HookBelow`: the closure may look at the forms of the two
values it is handed, not at the forms of their content). -/

/-- `valuesEqual` on slots / expressions, under closures that may look at the top-level form of their arguments -/
theorem C12_veq_nested_policies (hook : EqHook) (hh : HookBelow hook) (x y : Val) :
    Val.veq hook (erase x) (erase y) = Val.veq hook x y := Val.veq_eraseTop hook hh x y

/-- the exported `IsEqual` of a receiver that carries no EqualityPolicy itself: alias tree against alias tree is
native twin against native twin, with any `HookBelow` closures on nested nodes -/
theorem C12_isEqual_nested_policies (hook : EqHook) (hh : HookBelow hook) (same : Bool) (a b : Val)
    (ha : (match a with | .stk _ c _ => c.eqf | .cnd _ c _ _ _ => c.eqf | _ => none) = none) :
    Val.IsEqual hook same (erase a) (erase b) = Val.IsEqual hook same a b := Val.IsEqual_eraseTop hook hh same a b ha

/-- "in both directions" for such closures: the alias tree against its own native twin, either way round, is the
native twin against itself -/
theorem C12_isEqual_nested_policies_twin (hook : EqHook) (hh : HookBelow hook) (same : Bool) (a : Val)
    (ha : (match a with | .stk _ c _ => c.eqf | .cnd _ c _ _ _ => c.eqf | _ => none) = none) :
    Val.IsEqual hook same a (erase a) = Val.IsEqual hook same (erase a) (erase a) ∧
    Val.IsEqual hook same (erase a) a = Val.IsEqual hook same (erase a) (erase a) := by
  have hea : (match erase a with | .stk _ c _ => c.eqf | .cnd _ c _ _ _ => c.eqf | _ => none) = none := by
    cases a <;> simp_all [erase]
  constructor
  · have := C12_isEqual_nested_policies hook hh same a (erase a) ha
    rw [erase_idem] at this; exact this.symm
  · have := C12_isEqual_nested_policies hook hh same (erase a) a hea
    rw [erase_idem] at this; exact this.symm

/-- the harness's policy 3 ("equal exactly when the peer arrives as a native Stack / Condition") -/
def nativePeer : EqHook := fun p _ peer =>
  match peer with
  | .stk .native _ _ | .cnd .native _ _ _ _ => none
  | _ => some (.user p)

/-- … satisfies `HookBelow` … -/
theorem nativePeer_below : HookBelow nativePeer := by
  intro p a b
  cases b with
  | stk f c xs => cases f <;> rfl
  | cnd f c kw op ex => cases f <;> rfl
  | anys xs => rfl
  | nil => rfl
  | leaf l => rfl
  | zstk f => rfl
  | zcnd f => rfl
  | opv o => rfl

/-- … and is not `HookBlind`; on a tree whose nested node carries it, alias tree and native twin are equal both ways
(`C12_isEqual_nested_policies_twin` at work), while the same closure on the RECEIVER does tell an alias argument from
a native one - which is why the theorem asks for a receiver without a policy of its own -/
example :
    ¬ HookBlind nativePeer ∧
    (let a : Val := .stk .native { kind := 1 } [.stk .alias { kind := 2, eqf := some 3 } [.stk .ptr { kind := 4 } [.leaf (.int 1)]], .leaf (.int 2)]
     (Val.IsEqual nativePeer false a (erase a)).toOption = some none ∧ (Val.IsEqual nativePeer false (erase a) a).toOption = some none ∧
     (Val.IsEqual nativePeer false a a).toOption = some none) ∧
    (let r : Val := .stk .native { kind := 1, eqf := some 3 } [.leaf (.int 2)]
     let o : Val := .stk .alias { kind := 1 } [.leaf (.int 2)]
     (Val.IsEqual nativePeer false r o).toOption = some (some (.user 3)) ∧ (Val.IsEqual nativePeer false r (erase o)).toOption = some none) := by
  refine ⟨?_, by decide +kernel, by decide +kernel⟩
  intro h
  have := h 3 .nil (.stk .alias { kind := 1 } [])
  simp [nativePeer, erase, eraseList] at this

/-- non-vacuity: two independently built trees with different forms at every nesting site (element, Condition
expression, nested element; a `[]any` leaf, a nil, an EqualityPolicy-free configuration) are equal, in all four
combinations with their native twins; a difference in one leaf is reported, in all four combinations -/
example :
    let a : Val := .stk .alias { kind := 1 } [.leaf (.str ['a']),
       .cnd .ptr { kind := 5 } ['k'] (.cmp 1) (.stk .aliasS { kind := 4 } [.leaf (.int 1)]),
       .anys [.leaf (.int 2)], .stk .ptr { kind := 2 } [.nil, .leaf (.bool true)]]
    let b : Val := .stk .ptr { kind := 1 } [.leaf (.str ['a']),
       .cnd .alias { kind := 5 } ['k'] (.cmp 1) (.stk .native { kind := 4 } [.leaf (.int 1)]),
       .anys [.leaf (.int 2)], .stk .alias { kind := 2 } [.nil, .leaf (.bool true)]]
    let c : Val := .stk .ptr { kind := 1 } [.leaf (.str ['a']),
       .cnd .alias { kind := 5 } ['k'] (.cmp 1) (.stk .native { kind := 4 } [.leaf (.int 7)]),
       .anys [.leaf (.int 2)], .stk .alias { kind := 2 } [.nil, .leaf (.bool true)]]
    let h : EqHook := fun _ _ _ => none
    noEqPolicy a = true ∧
    (Val.IsEqual h false a b).toOption = some none ∧ (Val.IsEqual h false a (erase b)).toOption = some none ∧
    (Val.IsEqual h false (erase a) b).toOption = some none ∧ (Val.IsEqual h false (erase a) (erase b)).toOption = some none ∧
    (Val.IsEqual h false a c).toOption = some (some .primMismatch) ∧
    (Val.IsEqual h false (erase a) c).toOption = some (some .primMismatch) ∧
    (Val.IsEqual h false a (erase c)).toOption = some (some .primMismatch) := by decide +kernel

/-- non-vacuity for the `[]any` clause (no hypothesis on `[]any` leaves is needed): a handle inside a `[]any` leaf is
never opened by `slicesEqual`, whatever its form — "Unsupported type" on the alias trees and on the twins alike -/
example :
    let a : Val := .stk .native { kind := 1 } [.anys [.stk .ptr { kind := 1 } []]]
    let b : Val := .stk .native { kind := 1 } [.anys [.stk .aliasS { kind := 1 } []]]
    let h : EqHook := fun _ _ _ => none
    (Val.IsEqual h false a b).toOption = some (some .unsupported) ∧
    (Val.IsEqual h false (erase a) (erase b)).toOption = some (some .unsupported) := by decide +kernel

/-! ## Defrag -/

/-- the list-level `stack.defrag(max)`: same faults, same error class, the twin of the same list -/
theorem C12_defrag_list (s : Stk) (max : Int) : s.erase.defrag max = (s.defrag max).map Stk.erase :=
  Stk.defrag_erase s max

/-- **The exported `Stack.Defrag(max...)`** on a tree with alias forms at any depth (nested Stacks, Stack
expressions of nested Conditions) does to it what it does to the native twin: for every recursion budget and every
argument list the result on the twin is the twin of the result (and a panic / an exhausted budget on one side is
the same panic / exhausted budget on the other). No length hypothesis is needed: `stack.defrag` commutes with every
element map that preserves nil-ness (`Stk.defrag_map`), by following the definition. -/
theorem C12_defrag (fuel : Nat) (args : List Int) (s : Stk) :
    Stk.Defrag fuel args s.erase = (Stk.Defrag fuel args s).map Stk.erase :=
  Stk.Defrag_erase fuel args s

/-- non-vacuity: a fragmented tree with an alias stack holding a pointer-to-alias Condition whose expression is an
alias stack is really compacted (the first slot, nil before, holds the nested Stack after; it keeps its form), within the
budget -/
example :
    let s : Stk := ⟨{ kind := 1 }, [.nil, .stk .alias { kind := 2 } [.leaf (.int 1), .nil,
        .cnd .ptr { kind := 5 } ['k'] (.cmp 1) (.stk .aliasS { kind := 4 } [.nil, .leaf (.int 1)])], .nil, .leaf (.str ['z'])]⟩
    (s.xs.headD .nil).isNil = true ∧
    (match Stk.Defrag 5 [] s with
      | .ok r => (match r.xs.headD .nil with | .stk .alias _ (_ :: .cnd .ptr _ _ _ _ :: _) => true | _ => false)
      | .error _ => false) = true ∧
    (match Stk.Defrag 5 [] s.erase with
      | .ok r => (match r.xs.headD .nil with | .stk .native _ (_ :: .cnd .native _ _ _ _ :: _) => true | _ => false)
      | .error _ => false) = true := by decide

end Stackage
