import Stackage.Lemmas.Push
import Stackage.Model.Options

/-!
# C13 — no-nesting keeps Stacks out; CanNest and IsNesting tell the truth (Stack part)

The Condition part (`SetExpression` refusing a Stack) is in `Props/C06.lean`
(`C13_cond_*`), next to the Condition model.
-/

set_option linter.unusedSimpArgs false
namespace Stackage
open ListSpec
namespace Stk

/-- while no-nesting is set, Push stores every offered value that is not a Stack / Stack alias
(room permitting) and silently skips every one that is -/
theorem C13_push (s : Stk) (vs : List Val) (hwf : s.WF) (hcap : s.cfg.cap = 0)
    (hnn : s.flag Gen.flag_nnest = true) (hsm : SmallLen (s.xs.length + vs.length)) :
    (s.genericAppend vs).xs = s.xs ++ vs.filter (fun v => !v.isStack) ∧ (s.genericAppend vs).cfg = s.cfg := by
  obtain ⟨c, x, _⟩ := genericAppend_spec vs s hwf hsm
  refine ⟨?_, c⟩
  have : s.opts.room = none := by unfold opts; simp [hcap]
  rw [x, this, hnn]
  simp [takeRoom]

/-- with the option off everything offered is stored (room permitting) -/
theorem C13_push_off (s : Stk) (vs : List Val) (hwf : s.WF) (hcap : s.cfg.cap = 0)
    (hnn : s.flag Gen.flag_nnest = false) (hsm : SmallLen (s.xs.length + vs.length)) :
    (s.genericAppend vs).xs = s.xs ++ vs := by
  obtain ⟨_, x, _⟩ := genericAppend_spec vs s hwf hsm
  have : s.opts.room = none := by unfold opts; simp [hcap]
  rw [x, this, hnn]
  simp [takeRoom]

/-- general form, with a capacity: the filter first, then the room -/
theorem C13_push_cap (s : Stk) (vs : List Val) (hwf : s.WF) (hsm : SmallLen (s.xs.length + vs.length)) :
    (s.genericAppend vs).xs =
      s.xs ++ takeRoom s.opts.room (vs.filter (fun v => !(s.flag Gen.flag_nnest && v.isStack))) :=
  (genericAppend_spec vs s hwf hsm).2.1

/-- nothing rejected by the option is ever stored by a push batch -/
theorem C13_no_stack_stored (s : Stk) (vs : List Val) (hwf : s.WF) (hnn : s.flag Gen.flag_nnest = true)
    (hsm : SmallLen (s.xs.length + vs.length)) (v : Val)
    (hv : v ∈ ((s.genericAppend vs).xs.drop s.xs.length)) : v.isStack = false := by
  rw [C13_push_cap s vs hwf hsm, List.drop_left] at hv
  have hsub : v ∈ vs.filter (fun v => !(s.flag Gen.flag_nnest && v.isStack)) := by
    cases hr : s.opts.room with
    | none => simpa [takeRoom, hr] using hv
    | some r => rw [hr] at hv; exact List.mem_of_mem_take hv
  rw [hnn] at hsub
  simpa using (List.mem_filter.mp hsub).2

/-- switching the option never affects elements already present (nor anything but its own bit's field) -/
theorem C13_toggle (s : Stk) (st : Option Bool) : (s.setState Gen.flag_nnest st).xs = s.xs := rfl

/-- `CanNest()` is true exactly when a nested Stack would currently be accepted by Push -/
theorem C13_canNest (s : Stk) (f : Form) (c : Cfg) (xs : List Val) :
    s.CanNest = s.canPushNester (.stk f c xs) := by
  unfold CanNest canPushNester; cases s.flag Gen.flag_nnest <;> simp [Val.isStack]

/-- `IsNesting()` is true exactly when at least one element is a Stack or Stack alias
(`countsAsNested`: an initialised Stack in any form, or a value of the native type `Stack`) -/
theorem C13_isNesting (s : Stk) : s.IsNesting = true ↔ ∃ v ∈ s.xs, countsAsNested v = true := by
  unfold IsNesting; simp

/-- in particular: any initialised Stack / alias / pointer-to-alias element makes it true -/
theorem C13_isNesting_of_stack (s : Stk) (v : Val) (hv : v ∈ s.xs) (h : v.isStack = true) : s.IsNesting = true := by
  rw [C13_isNesting]; refine ⟨v, hv, ?_⟩
  cases v <;> simp_all [Val.isStack, countsAsNested]

/-- a zero-valued Stack (any form) is not a nested stack: it neither makes `IsNesting` true (repair F37) nor is it
skipped by a no-nesting Push (it is not a Stack in the converters' sense) -/
theorem C13_zero_not_nested (f : Form) : countsAsNested (.zstk f) = false ∧ (Val.zstk f).isStack = false := ⟨rfl, rfl⟩

/-- and with only primitives, nil values and Conditions it is false -/
theorem C13_isNesting_none (s : Stk) (h : ∀ v ∈ s.xs, countsAsNested v = false) : s.IsNesting = false := by
  unfold IsNesting; simpa using h

example : ∃ s : Stk, s.WF ∧ s.flag Gen.flag_nnest = true ∧ s.cfg.cap = 0 :=
  ⟨⟨{ kind := 4, opt := 256 }, []⟩, ⟨by unfold SmallLen; rw [pow62]; simp, Or.inl rfl⟩, by decide, rfl⟩

end Stk
end Stackage
