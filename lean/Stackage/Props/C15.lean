import Stackage.Lemmas.Push

/-!
# C15 — Transfer copies everything or reports failure, and never touches the source
-/

set_option linter.unusedSimpArgs false
namespace Stackage
open ListSpec
namespace Stk

/-- element-wise pushing appends a sub-sequence (in order) of the offered values -/
theorem transfer_fold (interp : Nat → Val → Option Nat) (vs : List Val) : ∀ (dest : Stk), dest.WF →
    SmallLen (dest.xs.length + vs.length) →
    ∃ sub, sub.Sublist vs ∧ (vs.foldl (fun d v => push interp d [v]) dest).xs = dest.xs ++ sub ∧
      (vs.foldl (fun d v => push interp d [v]) dest).cfg.cap = dest.cfg.cap ∧
      (vs.foldl (fun d v => push interp d [v]) dest).WF := by
  induction vs with
  | nil => intro d hwf _; exact ⟨[], List.Sublist.refl _, by simp, rfl, hwf⟩
  | cons v rest ih =>
    intro d hwf hs
    have hs1 : SmallLen (d.xs.length + 1) := by unfold SmallLen at *; simp only [List.length_cons] at hs; omega
    obtain ⟨hx, hc, hw⟩ := push_single interp d v hwf hs1
    simp only [List.foldl_cons]
    rcases hx with hx | hx
    · have hs2 : SmallLen ((push interp d [v]).xs.length + rest.length) := by
        rw [hx]; unfold SmallLen at *; simp only [List.length_cons] at hs; omega
      obtain ⟨sub, h1, h2, h3, h4⟩ := ih _ hw hs2
      exact ⟨sub, List.Sublist.cons _ h1, by rw [h2, hx], by rw [h3, hc], h4⟩
    · have hs2 : SmallLen ((push interp d [v]).xs.length + rest.length) := by
        rw [hx]; unfold SmallLen at *; simp only [List.length_cons, List.length_append, List.length_nil] at *; omega
      obtain ⟨sub, h1, h2, h3, h4⟩ := ih _ hw hs2
      exact ⟨v :: sub, List.Sublist.cons_cons _ h1, by rw [h2, hx]; simp, by rw [h3, hc], h4⟩

/-- **C15 (true ⇒ everything copied).** If `transfer` reports success the destination holds its
previous elements followed by every element of the source, in the source's order — whatever the
destination's capacity, push policy or no-nesting option did to individual values. -/
theorem C15_true (interp : Nat → Val → Option Nat) (s dest d' : Stk) (hs : s.WF) (hd : dest.WF)
    (hsm : SmallLen (dest.xs.length + s.xs.length))
    (h : s.transfer interp dest = (d', true)) : d'.xs = dest.xs ++ s.xs ∧ d'.WF := by
  unfold transfer at h
  split at h
  · simp at h
  · obtain ⟨sub, h1, h2, h3, h4⟩ := transfer_fold interp s.xs dest hd hsm
    simp only [Prod.mk.injEq] at h
    obtain ⟨hd', hok⟩ := h
    rw [← hd']
    refine ⟨?_, h4⟩
    rw [h2]
    congr 1
    apply List.Sublist.eq_of_length h1
    -- the generated success test compares lengths
    have hsmall' : SmallLen (List.foldl (fun d v => push interp d [v]) dest s.xs).xs.length := h4.small
    rw [ulen_eq _ hsmall', ulen_eq _ hd.small, ulen_eq _ hs.small, h2] at hok
    have hs3 : IsLen ((dest.xs ++ sub).length : Int) := by rw [← h2]; exact small_isLen hsmall'
    simp only [GenSem.transfer_ok, hs3, small_isLen hd.small, small_isLen hs.small,
      decide_eq_true_eq] at hok
    simp only [List.length_append] at hok
    omega

/-- **C15 (no room ⇒ false, destination untouched).** -/
theorem C15_nofit (interp : Nat → Val → Option Nat) (s dest : Stk) (hs : s.WF) (hd : dest.WF)
    (hcap : dest.cfg.cap ≠ 0) (hfree : dest.cfg.cap - dest.rawLen < s.xs.length) :
    s.transfer interp dest = (dest, false) := by
  unfold transfer
  rw [ulen_eq s hs.small]
  rcases hd.capOk with h0 | ⟨h1, h2, h3⟩
  · exact absurd h0 hcap
  · have hc : 0 < dest.cfg.cap := by omega
    simp only [GenSem.transfer_hascap, GenSem.transfer_nofit, small_isLen hs.small, hd.cap_isLen, hd.rawLen_isRawLen,
      hc, hfree, decide_true, Bool.and_self, ↓reduceIte]

/-- the source is a value: `transfer` returns only the destination (nothing else can change) -/
theorem C15_src (interp : Nat → Val → Option Nat) (s dest : Stk) :
    ∃ d' ok, s.transfer interp dest = (d', ok) := ⟨_, _, rfl⟩

/-- a read-only destination yields false without any change -/
theorem C15_bad_dest_readonly (interp : Nat → Val → Option Nat) (s : Stk) (f : Form) (c : Cfg) (xs : List Val)
    (h : ({ cfg := c, xs := xs } : Stk).readOnly = true) :
    s.Transfer interp (.stk f c xs) = (.stk f c xs, false) := by
  simp [Transfer, h]

/-- an uninitialised (zero) or non-Stack destination yields false without any change -/
theorem C15_bad_dest_other (interp : Nat → Val → Option Nat) (s : Stk) (d : Val) (h : d.isStack = false) :
    s.Transfer interp d = (d, false) := by
  cases d <;> simp_all [Transfer, Val.isStack]

/-- non-vacuity: 2 elements into a capacity-3 stack holding 2 does not fit (the historical defect) -/
example : (⟨{ kind := 4 }, [.leaf (.int 1), .leaf (.int 2)]⟩ : Stk).transfer (fun _ _ => none)
    ⟨{ kind := 4, cap := 4 }, [.leaf (.int 8), .leaf (.int 9)]⟩ =
    (⟨{ kind := 4, cap := 4 }, [.leaf (.int 8), .leaf (.int 9)]⟩, false) := by
  apply C15_nofit
  · exact ⟨by unfold SmallLen; rw [pow62]; simp, Or.inl rfl⟩
  · exact ⟨by unfold SmallLen; rw [pow62]; simp, Or.inr ⟨by decide, by rw [pow62]; decide, by decide⟩⟩
  · decide
  · decide

end Stk
end Stackage
