import Stackage.Model.Alphabet
import Stackage.Lemmas.Bits

/-!
# C09 — a read-only Stack or Condition cannot be changed

Two layers. (1) Facts regenerated from the source on every run (`Gen.facts`, `Gen.triState`)
are compared with the method tables of `Model/Alphabet.lean` by `decide`: the tables list
every exported method, and every method classified as a mutator carries the read-only guard
in the source. (2) Over the guard skeleton (`stackStep`, `condStep`) — for *arbitrary* method
bodies inside the guards — a read-only instance is left exactly as it was by every method other
than the documented exceptions.
-/

set_option linter.unusedSimpArgs false
set_option maxRecDepth 20000
namespace Stackage

def factOf (recv name : String) : Option Gen.MFact :=
  Gen.facts.find? (fun f => f.recv == recv && f.name == name)

/-- the method, or the exported method it simply delegates to, tests `getState(ronly)` -/
def ronlyGuarded (recv name : String) : Bool :=
  match factOf recv name with
  | some f => f.ronlyGuard || (f.delegates != "" &&
      (match factOf recv f.delegates with | some g => g.ronlyGuard | none => false))
  | none => false

/-- the method, or the one it delegates to, goes through `setState` -/
def viaSetState (recv name : String) : Bool :=
  match factOf recv name with
  | some f => f.usesSetState || (f.delegates != "" &&
      (match factOf recv f.delegates with | some g => g.usesSetState | none => false))
  | none => false

/-! ## (1) the tables against the regenerated facts -/

/-- every exported method of `Stack` found in the source is in the table, or — for methods added later — is
classified from the regenerated facts alone as a query (reaches no write, no lock) or a guarded mutator
(tests the read-only flag); a new method that is neither makes this theorem fail -/
theorem C09_alphabet_complete_stack :
    (Gen.facts.filter (fun f => f.exported && f.recv == "Stack")).all
      (fun f => (MethodInfo.findOrAuto stackMethods "Stack" f.name).isSome) = true := by decide

theorem C09_alphabet_complete_cond :
    (Gen.facts.filter (fun f => f.exported && f.recv == "Condition")).all
      (fun f => (MethodInfo.findOrAuto condMethods "Condition" f.name).isSome) = true := by decide

/-- and nothing in the tables is stale -/
theorem C09_alphabet_no_stale :
    stackMethods.all (fun m => (factOf "Stack" m.name).isSome) = true ∧
    condMethods.all (fun m => (factOf "Condition" m.name).isSome) = true := by decide

/-- every method classified as a guarded mutator tests the read-only flag in the source -/
theorem C09_mutators_guarded :
    (stackMethods.filter (fun m => m.cls == .guarded || m.cls == .free)).all (fun m => ronlyGuarded "Stack" m.name) = true ∧
    (condMethods.filter (fun m => m.cls == .guarded || m.cls == .free)).all (fun m => ronlyGuarded "Condition" m.name) = true := by decide

/-- every tri-state option setter goes through `setState`, which itself tests the flag, and addresses an option other than read-only -/
theorem C09_tristate_guarded :
    (stackMethods.filter (fun m => m.cls == .setState)).all
      (fun m => viaSetState "Stack" m.name && triFlag "Stack" m.name != Gen.flag_ronly && triFlag "Stack" m.name != 0) = true ∧
    (condMethods.filter (fun m => m.cls == .setState)).all
      (fun m => viaSetState "Condition" m.name && triFlag "Condition" m.name != Gen.flag_ronly && triFlag "Condition" m.name != 0) = true ∧
    ronlyGuarded "Stack" "setState" = true ∧ ronlyGuarded "Condition" "setState" = true := by decide

/-! ## (2) the guard skeleton -/

theorem setState_frozen (c : Cfg) (f : Nat) (st : Option Bool) (hro : c.positive Gen.flag_ronly = true)
    (hf : f ≠ Gen.flag_ronly) : c.setState f st = c := by
  unfold Cfg.setState
  have : (f == Gen.flag_ronly) = false := by simpa using hf
  simp [hro, this]

theorem stk_readOnly_eq (s : Stk) : s.readOnly = s.cfg.positive Gen.flag_ronly := by
  unfold Stk.readOnly Stk.flag Cfg.positive Cfg.valid; rfl

/-- **C09 (Stack).** While the read-only flag is set, no method other than the documented
exceptions (SetReadOnly, SetErr) changes anything: the whole instance — content and every
configuration field — is returned exactly as it was, whatever the method bodies do. -/
theorem C09_frozen_stack (sem : StackSem) (s : Stk) (m : MethodInfo) (args : List Arg)
    (hro : s.readOnly = true) (h1 : m.cls ≠ .setReadOnly) (h2 : m.cls ≠ .setErr)
    (hflag : m.cls = .setState → triFlag "Stack" m.name ≠ Gen.flag_ronly) :
    (stackStep sem (some s) m args).1 = some s := by
  unfold stackStep
  cases hc : m.cls <;> simp_all
  · -- setState
    have := setState_frozen s.cfg (triFlag "Stack" m.name) (triArg args) (by rw [← stk_readOnly_eq]; exact hro) hflag
    unfold Stk.setState; rw [this]

/-- `Free` on a read-only Stack reports an error instead of releasing the instance -/
theorem C09_free_stack (sem : StackSem) (s : Stk) (m : MethodInfo) (args : List Arg)
    (hro : s.readOnly = true) (hm : m.cls = .free) : stackStep sem (some s) m args = (some s, "e1") := by
  unfold stackStep; simp [hm, hro]

theorem cnd_readOnly_eq (c : Cnd) : c.readOnly = c.cfg.positive Gen.flag_ronly := rfl

/-- **C09 (Condition).** Same, the exceptions being SetReadOnly, SetErr and Init (which replaces the instance). -/
theorem C09_frozen_cond (sem : CondSem) (c : Cnd) (m : MethodInfo) (args : List Arg)
    (hro : c.readOnly = true) (h1 : m.cls ≠ .setReadOnly) (h2 : m.cls ≠ .setErr) (h3 : m.cls ≠ .init)
    (hflag : m.cls = .setState → triFlag "Condition" m.name ≠ Gen.flag_ronly) :
    (condStep sem (some c) m args).1 = some c := by
  unfold condStep
  cases hc : m.cls <;> simp_all
  · have := setState_frozen c.cfg (triFlag "Condition" m.name) (triArg args) (by rw [← cnd_readOnly_eq]; exact hro) hflag
    rw [this]

theorem C09_free_cond (sem : CondSem) (c : Cnd) (m : MethodInfo) (args : List Arg)
    (hro : c.readOnly = true) (hm : m.cls = .free) : condStep sem (some c) m args = (some c, "e1") := by
  unfold condStep; simp [hm, hro]

/-- a whole sequence of non-exception calls leaves a read-only Stack as it was -/
theorem C09_frozen_history (sem : StackSem) (s : Stk) (hro : s.readOnly = true) (calls : List (MethodInfo × List Arg))
    (hc : ∀ c ∈ calls, c.1.cls ≠ .setReadOnly ∧ c.1.cls ≠ .setErr ∧ (c.1.cls = .setState → triFlag "Stack" c.1.name ≠ Gen.flag_ronly)) :
    calls.foldl (fun h c => (stackStep sem h c.1 c.2).1) (some s) = some s := by
  induction calls with
  | nil => rfl
  | cons c rest ih =>
    simp only [List.foldl_cons]
    have hcc := hc c (by simp)
    rw [C09_frozen_stack sem s c.1 c.2 hro hcc.1 hcc.2.1 hcc.2.2]
    exact ih (fun d hd => hc d (by simp [hd]))

/-- **clearing the flag restores the state exactly as it was when the flag was set**: set, any
non-exception calls, clear — the instance is the original one (with the bit as it was: clear) -/
theorem C09_restore (sem : StackSem) (s : Stk) (hk : s.cfg.kind ≠ 0) (hclear : s.readOnly = false)
    (hopt : Gen.cfgFlag_unshift (Gen.cfgFlag_shift s.cfg.opt Gen.flag_ronly) Gen.flag_ronly = s.cfg.opt)
    (calls : List (MethodInfo × List Arg))
    (hc : ∀ c ∈ calls, c.1.cls ≠ .setReadOnly ∧ c.1.cls ≠ .setErr ∧ (c.1.cls = .setState → triFlag "Stack" c.1.name ≠ Gen.flag_ronly))
    (hset : (s.setState Gen.flag_ronly (some true)).readOnly = true) :
    ((calls.foldl (fun h c => (stackStep sem h c.1 c.2).1) (some (s.setState Gen.flag_ronly (some true)))).map
      (fun s' => s'.setState Gen.flag_ronly (some false))) = some s := by
  rw [C09_frozen_history sem _ hset calls hc]
  simp only [Option.map_some, Option.some.injEq]
  have hv : s.cfg.valid = true := by simp [Cfg.valid, hk]
  unfold Stk.setState Cfg.setState Cfg.setOpt Cfg.unsetOpt
  simp [hv, Cfg.valid, hk, hopt]

/-! ### the same without the bit-level hypotheses -/

theorem flag_ronly_pow : Gen.flag_ronly = 2 ^ 7 := by decide

/-- on an initialised, writable configuration (`cfgFlag` is a `uint16`), setting and then clearing the read-only
bit gives the option word back -/
theorem opt_restore (c : Cfg) (hk : c.kind ≠ 0) (hclear : c.positive Gen.flag_ronly = false) (hw : c.opt < 65536) :
    Gen.cfgFlag_unshift (Gen.cfgFlag_shift c.opt Gen.flag_ronly) Gen.flag_ronly = c.opt := by
  have hv : c.valid = true := by simp [Cfg.valid, hk]
  rw [flag_ronly_pow] at hclear ⊢
  unfold Cfg.positive at hclear
  rw [hv, Bool.true_and, Bits.positive_two_pow] at hclear
  exact Bits.unshift_shift_of_clear c.opt 7 (by decide) hw hclear

/-- `SetReadOnly(true)` on an initialised instance sets the flag -/
theorem setReadOnly_positive (c : Cfg) (hk : c.kind ≠ 0) :
    (c.setState Gen.flag_ronly (some true)).positive Gen.flag_ronly = true := by
  have hv : c.valid = true := by simp [Cfg.valid, hk]
  unfold Cfg.setState Cfg.setOpt
  simp only [beq_self_eq_true, Bool.or_true, if_true, hv]
  unfold Cfg.positive Cfg.valid
  simp only [ne_eq, hk, not_false_eq_true, bne_iff_ne, decide_true, Bool.true_and]
  rw [flag_ronly_pow, Bits.positive_two_pow, Bits.testBit_shift]; simp [hk]

/-- **C09 (restore), from the flag alone.** `hopt` and `hset` of `C09_restore` follow from the instance being
initialised and writable; `hw` is the representation invariant of the option word (`cfgFlag` is a `uint16`). -/
theorem C09_restore' (sem : StackSem) (s : Stk) (hk : s.cfg.kind ≠ 0) (hclear : s.readOnly = false)
    (hw : s.cfg.opt < 65536)
    (calls : List (MethodInfo × List Arg))
    (hc : ∀ c ∈ calls, c.1.cls ≠ .setReadOnly ∧ c.1.cls ≠ .setErr ∧ (c.1.cls = .setState → triFlag "Stack" c.1.name ≠ Gen.flag_ronly)) :
    ((calls.foldl (fun h c => (stackStep sem h c.1 c.2).1) (some (s.setState Gen.flag_ronly (some true)))).map
      (fun s' => s'.setState Gen.flag_ronly (some false))) = some s :=
  C09_restore sem s hk hclear
    (opt_restore s.cfg hk (by rw [← stk_readOnly_eq]; exact hclear) hw) calls hc
    (by rw [stk_readOnly_eq]; exact setReadOnly_positive s.cfg hk)

/-- a whole sequence of non-exception calls leaves a read-only Condition as it was -/
theorem C09_frozen_history_cond (sem : CondSem) (c : Cnd) (hro : c.readOnly = true) (calls : List (MethodInfo × List Arg))
    (hc : ∀ d ∈ calls, d.1.cls ≠ .setReadOnly ∧ d.1.cls ≠ .setErr ∧ d.1.cls ≠ .init ∧
      (d.1.cls = .setState → triFlag "Condition" d.1.name ≠ Gen.flag_ronly)) :
    calls.foldl (fun h d => (condStep sem h d.1 d.2).1) (some c) = some c := by
  induction calls with
  | nil => rfl
  | cons d rest ih =>
    simp only [List.foldl_cons]
    have hcc := hc d (by simp)
    rw [C09_frozen_cond sem c d.1 d.2 hro hcc.1 hcc.2.1 hcc.2.2.1 hcc.2.2.2]
    exact ih (fun e he => hc e (by simp [he]))

/-- **C09 (restore, Condition).** Set the flag, any calls other than the exceptions (SetReadOnly, SetErr, Init),
clear it: the Condition is the original one. -/
theorem C09_restore_cond (sem : CondSem) (c : Cnd) (hk : c.cfg.kind ≠ 0) (hclear : c.readOnly = false)
    (hw : c.cfg.opt < 65536)
    (calls : List (MethodInfo × List Arg))
    (hc : ∀ d ∈ calls, d.1.cls ≠ .setReadOnly ∧ d.1.cls ≠ .setErr ∧ d.1.cls ≠ .init ∧
      (d.1.cls = .setState → triFlag "Condition" d.1.name ≠ Gen.flag_ronly)) :
    ((calls.foldl (fun h d => (condStep sem h d.1 d.2).1)
        (some { c with cfg := c.cfg.setState Gen.flag_ronly (some true) })).map
      (fun c' => { c' with cfg := c'.cfg.setState Gen.flag_ronly (some false) })) = some c := by
  rw [C09_frozen_history_cond sem _ (by rw [cnd_readOnly_eq]; exact setReadOnly_positive c.cfg hk) calls hc]
  simp only [Option.map_some, Option.some.injEq]
  have hv : c.cfg.valid = true := by simp [Cfg.valid, hk]
  have hopt := opt_restore c.cfg hk (by rw [← cnd_readOnly_eq]; exact hclear) hw
  unfold Cfg.setState Cfg.setOpt Cfg.unsetOpt
  simp [hv, Cfg.valid, hk, hopt]

example : ∃ s : Stk, s.readOnly = true ∧ s.xs.length = 2 :=
  ⟨⟨{ kind := 1, opt := 128 }, [.nil, .leaf (.int 1)]⟩, by decide, rfl⟩

/-- the hypotheses of `C09_restore'` hold of a writable stack with other options set -/
example : ∃ s : Stk, s.cfg.kind ≠ 0 ∧ s.readOnly = false ∧ s.cfg.opt < 65536 ∧ s.cfg.opt ≠ 0 ∧ s.xs.length = 2 :=
  ⟨⟨{ kind := 1, opt := 3 + 256 }, [.nil, .leaf (.int 1)]⟩, by decide, by decide, by decide, by decide, rfl⟩

/-- outside the 16-bit range the model's `&^` drops the high bits: `hw` is needed in the model (never in Go) -/
example : Gen.cfgFlag_unshift (Gen.cfgFlag_shift 65536 Gen.flag_ronly) Gen.flag_ronly ≠ 65536 := by decide

end Stackage
