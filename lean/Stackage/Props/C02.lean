import Stackage.Lemmas.Render

/-!
# C02 — `String()` renders the expression tree by one fixed compositional grammar

`Stk.String` (Model/Render.lean) follows `stack.string` / `defaultAssertionHandler` /
`assembleStringStack` / `paren` / `condenseWHSP` literally, including the pad, triple-pad and
re-pad plumbing. `Grammar.canon` (Spec/Grammar.lean) says what the rendering *is*: items in
order, one separator, parentheses iff parenthetical, blank runs condensed per level.

* `condense_normal`, `C02_normal`   — the result never has a tab, a leading or trailing blank or
  two adjacent blanks;
* `C02_condense_fix`, `condense_idem` — `condense` is the identity exactly on such texts;
* `assemble_eq_level`               — one level of the code = one level of the grammar, for every
  configuration;
* `C02_canon`                       — `String() = canon`, for every tree;
* `C02_nothing…`                    — elements rendering empty leave no trace (no dangling operator);
* `C02_verbatim…`                   — blank-free leaf texts survive verbatim inside their
  encapsulation, also through nesting.
-/

set_option linter.unusedSimpArgs false
namespace Stackage
open Grammar

/-! ## 1. whitespace normal form -/

/-- `condenseWHSP` always returns a text without tab, without leading or trailing blank and
without two adjacent blanks. -/
theorem condense_normal (t : Text) : WSNormal (condense t) :=
  wsnormal_of_solid (solid_condense t)

/-- `condenseWHSP` is the identity exactly on the whitespace-normal texts. -/
theorem C02_condense_fix (t : Text) : condense t = t ↔ WSNormal t :=
  ⟨fun h => h ▸ condense_normal t, fun h => condense_of_solid (solid_of_wsnormal h)⟩

theorem wsnormal_nil : WSNormal [] := wsnormal_of_solid Solid.nil

/-- one level of `assembleStringStack` is whitespace-normal -/
theorem assemble_normal (c : Cfg) (strs : List Text) : WSNormal (c.assemble strs) := by
  rw [Cfg.assemble_unfold]; exact condense_normal _

/-- **C02 (normal form).** Without a presentation policy, `String()` of any initialised stack —
any kind, any options, any content, any meaning of the installed closures — has no tab, no
leading or trailing blank and no two adjacent blanks. -/
theorem C02_normal (K : Closures) (s : Stk) (h : s.cfg.rpf = none) : WSNormal (s.String K) := by
  unfold Stk.String
  by_cases hc : s.cfg.canString K = true
  · simp only [hc, if_true, h]; exact assemble_normal _ _
  · simp only [hc, Bool.false_eq_true, if_false]; exact wsnormal_nil

/-! ## 2. what `condense` cannot see -/

/-- **C02 (blank runs).** The length and composition (spaces, tabs) of a non-empty run of blanks,
anywhere in a text, is invisible to `condenseWHSP`. -/
theorem C02_blank_runs (a b r r' : Text) (hr : r ≠ []) (hr' : r' ≠ [])
    (hb : ∀ c ∈ r, isBlank c = true) (hb' : ∀ c ∈ r', isBlank c = true) :
    condense (a ++ r ++ b) = condense (a ++ r' ++ b) :=
  Sim.condense (Sim.append (Sim.append (Sim.refl a)
    ((Sim.blankRun hr hb).trans (Sim.blankRun hr' hb').symm)) (Sim.refl b))

/-- **C02 (trim).** Leading and trailing blanks, any number, are invisible to `condenseWHSP`. -/
theorem C02_trim (t r r' : Text) (hb : ∀ c ∈ r, isBlank c = true) (hb' : ∀ c ∈ r', isBlank c = true) :
    condense (r ++ t ++ r') = condense t := by
  rw [condense_append_blanks hb', condense_blanks_append hb]

/-! ## 3. one level of the code is one level of the grammar -/

/-- **C02 (one level).** For *every* configuration (kind, parenthetical, no-padding, lead-once,
fold, symbol, delimiter) and every list of item texts, the pad / triple-pad / re-pad plumbing of
`assembleStringStack` yields exactly the grammar's `condense (P (lead ++ join sep items))`. -/
theorem assemble_eq_level (c : Cfg) (strs : List Text) : c.assemble strs = Grammar.level c strs := by
  rw [Cfg.assemble_unfold, Grammar.level_unfold]
  exact wrap_condense c (asmBody_sim c strs)

/-! ## 4. `String()` is the canonical rendering -/

mutual
theorem elemText_eq_item (K : Closures) (pc : Cfg) : (v : Val) → elemText K pc v = item K pc v
  | .stk f c xs => by
    have ih := elemsText_eq_items K c xs
    rw [elemText, item, ih, assemble_eq_level]
    by_cases hn : (c.kind == Gen.kind_not && c.sym.isEmpty) = true
    · generalize (if c.canString K = true then
          (match c.rpf with | some p => K.present p | none => level c (items K c xs)) else []) = s
      cases s <;> simp [hn]
    · simp only [hn, Bool.false_eq_true, if_false]; cases c.rpf <;> rfl
  | .cnd f c kw op ex => by
    have ih := exprRaw_eq_exprText K ex
    rw [elemText, item, ih]
  | .leaf l => by rw [elemText, item]; cases l.text <;> rfl
  | .nil => by simp [elemText, item]
  | .zstk f => by simp [elemText, item]
  | .zcnd f => by simp [elemText, item]
  | .anys xs => by simp [elemText, item]
  | .opv o => by simp [elemText, item]

theorem elemsText_eq_items (K : Closures) (pc : Cfg) : (vs : List Val) → elemsText K pc vs = items K pc vs
  | [] => by rw [elemsText, items]
  | x :: rest => by
    have ih1 := elemText_eq_item K pc x
    have ih2 := elemsText_eq_items K pc rest
    rw [elemsText, items, ih1, ih2]

theorem exprRaw_eq_exprText (K : Closures) : (v : Val) → exprRaw K v = exprText K v
  | .stk f c xs => by
    have ih := elemsText_eq_items K c xs
    rw [exprRaw, exprText, ih, assemble_eq_level]; cases c.rpf <;> rfl
  | .cnd f c kw op ex => by
    have ih := exprRaw_eq_exprText K ex
    rw [exprRaw, exprText, ih]
  | .leaf l => by rw [exprRaw, exprText]; cases l.text <;> rfl
  | .nil => by simp [exprRaw, exprText]
  | .zstk f => by simp [exprRaw, exprText]
  | .zcnd f => by simp [exprRaw, exprText]
  | .anys xs => by simp [exprRaw, exprText]
  | .opv o => by simp [exprRaw, exprText]
end

/-- **C02 (canonical rendering).** `String()` of an initialised stack equals the canonical
rendering, for every tree of stacks, conditions and leaves, every per-node option combination,
every encapsulation list, every leaf text. -/
theorem C02_canon (K : Closures) (s : Stk) : s.String K = Grammar.canon K s := by
  unfold Stk.String Grammar.canon
  rw [elemsText_eq_items, assemble_eq_level]; cases s.cfg.rpf <;> rfl

/-- the same for `Condition.String()` -/
theorem C02_canon_cond (K : Closures) (c : Cfg) (kw : Text) (op : Op) (ex : Val) :
    condString K c kw op ex =
      if condValid K c kw op ex then condAssemble K c kw op (exprText K ex) else [] := by
  unfold condString; rw [exprRaw_eq_exprText]

/-! ## 5. elements that render empty leave no trace -/

/-- an element whose text is empty can be inserted at any position without changing the list of
item texts (so no separator is emitted for it) -/
theorem C02_nothing_elems (K : Closures) (c : Cfg) (pre post : List Val) (x : Val)
    (h : elemText K c x = []) :
    elemsText K c (pre ++ x :: post) = elemsText K c (pre ++ post) := by
  rw [elemsText_append, elemsText_append, elemsText_cons_of_nil h]

/-- **C02 (nothing).** Inserting, at any position of any stack, an element whose own rendering is
empty leaves `String()` unchanged — no dangling operator, no extra blank. -/
theorem C02_nothing (K : Closures) (c : Cfg) (pre post : List Val) (x : Val)
    (h : elemText K c x = []) :
    Stk.String K ⟨c, pre ++ x :: post⟩ = Stk.String K ⟨c, pre ++ post⟩ := by
  unfold Stk.String
  simp only [C02_nothing_elems K c pre post x h]

/-- a BASIC stack renders empty, whatever it contains and however it is configured -/
theorem elemText_basic (K : Closures) (pc : Cfg) (f : Form) (c : Cfg) (xs : List Val)
    (hb : c.kind = Gen.kind_basic) : elemText K pc (.stk f c xs) = [] := by
  rw [elemText]
  have h1 : c.canString K = false := by unfold Cfg.canString; rw [hb]; simp
  have h2 : (c.kind == Gen.kind_not) = false := by rw [hb]; decide
  simp [h1, h2]

/-- one level of `assembleStringStack` on no items, non-parenthetical, is empty, in every mode
(post-repair: lead-once writes its operator only when there is an item) -/
theorem assemble_nil (c : Cfg) (hp : c.paren = false) : c.assemble [] = [] := by
  rw [Cfg.assemble_unfold]
  have hb : c.asmBody [] = [] := by
    unfold Cfg.asmBody
    cases c.lonce <;> simp [joinText]
  unfold Cfg.parenWrap
  rw [hb, hp]
  cases c.nspad
  · simp only [Bool.false_and, Bool.false_eq_true, if_false, List.append_nil]
    exact (condense_cons_space _).trans (condense_cons_space _)
  · simp only [Bool.false_and, Bool.false_eq_true, if_false, if_true, List.append_nil]
    rfl

/-- a non-parenthetical stack none of whose elements renders (in particular an empty one)
renders empty itself, NOT prefix included -/
theorem elemText_empty_stack (K : Closures) (pc : Cfg) (f : Form) (c : Cfg) (xs : List Val)
    (hx : elemsText K c xs = []) (hp : c.paren = false) (hr : c.rpf = none) :
    elemText K pc (.stk f c xs) = [] := by
  rw [elemText, hx, hr, assemble_nil c hp]
  simp

/-- an invalid Condition renders empty -/
theorem elemText_invalid_cond (K : Closures) (pc : Cfg) (f : Form) (c : Cfg) (kw : Text) (op : Op)
    (ex : Val) (hv : condValid K c kw op ex = false) : elemText K pc (.cnd f c kw op ex) = [] := by
  rw [elemText, hv]; rfl

/-- **C02 (nothing), BASIC.** A BASIC stack inserted anywhere leaves `String()` unchanged. -/
theorem C02_nothing_basic (K : Closures) (c : Cfg) (pre post : List Val) (f : Form) (c' : Cfg)
    (ys : List Val) (hb : c'.kind = Gen.kind_basic) :
    Stk.String K ⟨c, pre ++ .stk f c' ys :: post⟩ = Stk.String K ⟨c, pre ++ post⟩ :=
  C02_nothing K c pre post _ (elemText_basic K c f c' ys hb)

/-- **C02 (nothing), empty stack.** An empty non-parenthetical stack of any kind, in any mode
(lead-once included), inserted anywhere leaves `String()` unchanged. -/
theorem C02_nothing_empty (K : Closures) (c : Cfg) (pre post : List Val) (f : Form) (c' : Cfg)
    (hp : c'.paren = false) (hr : c'.rpf = none) :
    Stk.String K ⟨c, pre ++ .stk f c' [] :: post⟩ = Stk.String K ⟨c, pre ++ post⟩ :=
  C02_nothing K c pre post _ (elemText_empty_stack K c f c' [] (elemsText_nil K c') hp hr)

/-- **C02 (nothing), invalid Condition.** -/
theorem C02_nothing_invalid (K : Closures) (c : Cfg) (pre post : List Val) (f : Form) (c' : Cfg)
    (kw : Text) (op : Op) (ex : Val) (hv : condValid K c' kw op ex = false) :
    Stk.String K ⟨c, pre ++ .cnd f c' kw op ex :: post⟩ = Stk.String K ⟨c, pre ++ post⟩ :=
  C02_nothing K c pre post _ (elemText_invalid_cond K c f c' kw op ex hv)

/-- **C02 (nothing), zero-valued Condition or Stack** (any form: native, alias, pointer to alias). Such an element is
invalid; it contributes nothing and leaves no dangling operator (repair F38: it used to render as `UNKNOWN`). -/
theorem C02_nothing_zero_cond (K : Closures) (c : Cfg) (pre post : List Val) (f : Form) :
    Stk.String K ⟨c, pre ++ .zcnd f :: post⟩ = Stk.String K ⟨c, pre ++ post⟩ :=
  C02_nothing K c pre post _ (by rw [elemText])

theorem C02_nothing_zero_stack (K : Closures) (c : Cfg) (pre post : List Val) (f : Form) :
    Stk.String K ⟨c, pre ++ .zstk f :: post⟩ = Stk.String K ⟨c, pre ++ post⟩ :=
  C02_nothing K c pre post _ (by rw [elemText])

/-! ## 6. leaf texts survive verbatim -/

/-- `String()` without presentation policy is solid (= whitespace-normal) -/
theorem solid_String (K : Closures) (s : Stk) (h : s.cfg.rpf = none) : Solid (s.String K) :=
  solid_of_wsnormal (C02_normal K s h)

/-- a solid piece of the text of any element survives in `String()` of the stack, verbatim -/
theorem infix_String (K : Closures) (s : Stk) (x : Val) (w : Text)
    (hcan : s.cfg.canString K = true) (hr : s.cfg.rpf = none) (hx : x ∈ s.xs) (hw : Solid w)
    (hwx : w <:+: elemText K s.cfg x) : w <:+: s.String K := by
  by_cases hne : elemText K s.cfg x = []
  · rw [hne, List.infix_nil] at hwx; subst hwx; exact List.nil_infix
  · unfold Stk.String
    simp only [hcan, if_true, hr]
    exact infix_assemble s.cfg hw (mem_elemsText hx hne) hwx

theorem kind_ne_basic_of_canString {K : Closures} {c : Cfg} (h : c.canString K = true) :
    (c.kind != Gen.kind_basic) = true := by
  unfold Cfg.canString at h
  simp only [Bool.and_eq_true] at h
  exact h.2

theorem infix_elemText_leaf (K : Closures) (c : Cfg) (l : Leaf) (t : Text)
    (hcan : c.canString K = true) (hl : l.text = some t) :
    encapValue c.enc t <:+: elemText K c (.leaf l) := by
  rw [elemText, hl]
  simp only [Cfg.encapv, kind_ne_basic_of_canString hcan, if_true]
  exact infix_padValue _ _

/-- **C02 (verbatim), text.** A leaf text without blank or tab occurs verbatim in `String()` of the
stack that holds it, whatever the options and the encapsulation. -/
theorem C02_verbatim_text (K : Closures) (s : Stk) (l : Leaf) (t : Text)
    (hcan : s.cfg.canString K = true) (hr : s.cfg.rpf = none)
    (hl : l.text = some t) (hmem : Val.leaf l ∈ s.xs) (ht : ∀ ch ∈ t, isBlank ch = false) :
    t <:+: s.String K :=
  infix_String K s _ t hcan hr hmem (solid_of_blankFree ht)
    ((infix_encapValue _ _).trans (infix_elemText_leaf K s.cfg l t hcan hl))

/-- **C02 (verbatim).** A leaf text without blank or tab occurs in `String()` verbatim inside its
encapsulation pairs (first pair outermost: `encapValue_outermost1/2`), provided the encapsulation
strings contain no blank themselves. (With a blank inside an encapsulation string the claim is
false: see the counterexample below.) -/
theorem C02_verbatim (K : Closures) (s : Stk) (l : Leaf) (t : Text)
    (hcan : s.cfg.canString K = true) (hr : s.cfg.rpf = none)
    (hl : l.text = some t) (hmem : Val.leaf l ∈ s.xs) (ht : ∀ ch ∈ t, isBlank ch = false)
    (he : ∀ p ∈ s.cfg.enc, ∀ u ∈ p, ∀ ch ∈ u, isBlank ch = false) :
    encapValue s.cfg.enc t <:+: s.String K :=
  infix_String K s _ _ hcan hr hmem (solid_of_blankFree (blankFree_encapValue ht he))
    (infix_elemText_leaf K s.cfg l t hcan hl)

/-- the first pair ends up outermost -/
theorem encapValue_outermost (a b : Text) (ps : List (List Text)) (t : Text) :
    encapValue ([a] :: ps) t = a ++ encapValue ps t ++ a ∧
    encapValue ([a, b] :: ps) t = a ++ encapValue ps t ++ b := ⟨rfl, rfl⟩

/-- **C02 (verbatim), nesting, one step.** The rendering of a nested stack (without presentation
policy) occurs verbatim in the rendering of its parent. -/
theorem C02_child (K : Closures) (s : Stk) (f : Form) (c' : Cfg) (ys : List Val)
    (hcan : s.cfg.canString K = true) (hr : s.cfg.rpf = none)
    (hmem : Val.stk f c' ys ∈ s.xs) (hr' : c'.rpf = none) :
    Stk.String K ⟨c', ys⟩ <:+: s.String K := by
  refine infix_String K s _ _ hcan hr hmem (solid_String K ⟨c', ys⟩ hr') ?_
  rw [elemText]
  show Stk.String K ⟨c', ys⟩ <:+:
    if (c'.kind == Gen.kind_not && c'.sym.isEmpty) = true then
      (if (Stk.String K ⟨c', ys⟩).isEmpty = true then [] else c'.kindText ++ [' '] ++ Stk.String K ⟨c', ys⟩)
    else Stk.String K ⟨c', ys⟩
  split
  · split
    · rename_i h; rw [eq_nil_of_isEmpty h]; exact List.nil_infix
    · exact ⟨c'.kindText ++ [' '], [], by simp⟩
  · exact List.infix_refl _

/-- `d` is reachable from `s` through nested stacks that can be rendered and have no
presentation policy -/
inductive Within (K : Closures) (s : Stk) : Stk → Prop
  | top : Within K s s
  | child {c : Cfg} {xs : List Val} {f : Form} {c' : Cfg} {ys : List Val} :
      Within K s ⟨c, xs⟩ → Val.stk f c' ys ∈ xs → c'.canString K = true → c'.rpf = none →
      Within K s ⟨c', ys⟩

theorem Within.ok {K : Closures} {s d : Stk} (hcan : s.cfg.canString K = true)
    (hr : s.cfg.rpf = none) (h : Within K s d) :
    d.cfg.canString K = true ∧ d.cfg.rpf = none ∧ d.String K <:+: s.String K := by
  induction h with
  | top => exact ⟨hcan, hr, List.infix_refl _⟩
  | child _ hm hc hr' ih =>
    exact ⟨hc, hr', (C02_child K _ _ _ _ ih.1 ih.2.1 hm hr').trans ih.2.2⟩

/-- **C02 (verbatim), any depth.** A blank-free leaf text at any depth of nesting occurs in the
outermost `String()` verbatim (inside its encapsulation when that is blank-free too). -/
theorem C02_verbatim_nested (K : Closures) (s d : Stk) (l : Leaf) (t : Text)
    (hcan : s.cfg.canString K = true) (hr : s.cfg.rpf = none) (hd : Within K s d)
    (hl : l.text = some t) (hmem : Val.leaf l ∈ d.xs) (ht : ∀ ch ∈ t, isBlank ch = false) :
    t <:+: s.String K ∧
    ((∀ p ∈ d.cfg.enc, ∀ u ∈ p, ∀ ch ∈ u, isBlank ch = false) →
      encapValue d.cfg.enc t <:+: s.String K) := by
  obtain ⟨h1, h2, h3⟩ := hd.ok hcan hr
  exact ⟨(C02_verbatim_text K d l t h1 h2 hl hmem ht).trans h3,
    fun he => (C02_verbatim K d l t h1 h2 hl hmem ht he).trans h3⟩

/-- a single blank-free leaf renders as exactly `P (encap t)` -/
theorem C02_single_leaf (K : Closures) (c : Cfg) (l : Leaf) (t : Text)
    (hcan : c.canString K = true) (hr : c.rpf = none) (hl : l.text = some t)
    (hne : t ≠ []) :
    Stk.String K ⟨c, [.leaf l]⟩ =
      condense (P c ((if c.lonce then lead c else []) ++ padValue (!c.nspad) (encapValue c.enc t))) := by
  have hne' : padValue (!c.nspad) (encapValue c.enc t) ≠ [] := by
    intro h
    have h1 := infix_padValue (!c.nspad) (encapValue c.enc t)
    rw [h, List.infix_nil] at h1
    have h2 := infix_encapValue c.enc t
    rw [h1, List.infix_nil] at h2
    exact hne h2
  rw [C02_canon]
  unfold canon
  simp only [hcan, if_true, hr]
  rw [items, items, item, hl]
  simp only [Cfg.encapv, kind_ne_basic_of_canString hcan, if_true, isEmpty_eq_false_of_ne hne',
    Bool.false_eq_true, if_false]
  unfold level
  cases c.lonce <;> simp [joinText]

/-! ## 7. the hypotheses are satisfiable: concrete trees -/

namespace C02Example

def K0 : Closures := {}
def str (s : String) : Val := .leaf (.str s.toList)

def notCfg : Cfg := { kind := Gen.kind_not }
def listCfg : Cfg :=
  { kind := Gen.kind_list, opt := Gen.flag_nspad, enc := [[['['], [']']]], ljc := [','] }

/-- a parenthetical AND holding a leaf, a BASIC stack, a NOT stack, an empty lead-once OR, an
invalid Condition and a no-padding LIST with delimiter and bracket encapsulation -/
def tree : Stk :=
  ⟨{ kind := Gen.kind_and, opt := Gen.flag_parens },
   [str "a",
    .stk .native { kind := Gen.kind_basic } [str "zz"],
    .stk .native notCfg [str "x"],
    .stk .native { kind := Gen.kind_or, opt := Gen.flag_lonce } [],
    .cnd .native {} [] .none .nil,
    .stk .native listCfg [str "b", str "c \t d"]]⟩

example : tree.String K0 = "( a AND NOT x AND [b],[c d] )".toList := by decide
example : canon K0 tree = "( a AND NOT x AND [b],[c d] )".toList := by decide
example : WSNormal (tree.String K0) := C02_normal K0 tree rfl

/-- the same tree with the three "nothing" elements removed renders the same -/
example : tree.String K0 =
    Stk.String K0 ⟨tree.cfg, [str "a", .stk .native notCfg [str "x"],
      .stk .native listCfg [str "b", str "c \t d"]]⟩ := by decide

/-- `C02_nothing_basic` applies to `tree` (position 1) -/
example : Stk.String K0 ⟨tree.cfg, [str "a"] ++ .stk .native { kind := Gen.kind_basic } [str "zz"] :: []⟩ =
    Stk.String K0 ⟨tree.cfg, [str "a"] ++ []⟩ :=
  C02_nothing_basic K0 _ _ _ _ _ _ rfl

/-- `C02_verbatim_nested` applies: the leaf `b` two levels down, inside its brackets -/
example : "[b]".toList <:+: tree.String K0 :=
  (C02_verbatim_nested K0 tree ⟨listCfg, [str "b", str "c \t d"]⟩ (.str ['b']) ['b']
    (by decide) rfl
    (Within.child (f := .native) Within.top (by simp [tree]) (by decide) rfl)
    rfl (by simp [str]) (by decide)).2 (by decide)

/-- a text *with* blanks is not reproduced verbatim (it is condensed) … -/
example : ¬ ("c \t d".toList <:+: tree.String K0) := by decide

/-- … and an encapsulation string containing blanks is condensed too: the hypothesis of
`C02_verbatim` on the encapsulation strings cannot be dropped -/
example :
    let s : Stk := ⟨{ kind := Gen.kind_and, enc := [[[' ', ' ']]] }, [str "a", str "b"]⟩
    s.String K0 = "a AND b".toList ∧ ¬ (encapValue s.cfg.enc ['a'] <:+: s.String K0) := by decide

/-- lead-once, symbol, fold, nested parenthetical no-padding stack -/
example :
    Stk.String K0 ⟨{ kind := Gen.kind_or, opt := Gen.flag_lonce + Gen.flag_cfold },
      [str "p", .stk .native { kind := Gen.kind_and, sym := ['&'], opt := Gen.flag_parens + Gen.flag_nspad }
        [str "q", str "r"]]⟩ = "or p (q&r)".toList := by decide

example : condense "  a \t\t b  ".toList = "a b".toList := by decide

end C02Example

end Stackage
