import Stackage.Lemmas.Conc
import Stackage.Props.C03

/-!
# C10 — with mutual exclusion enabled, concurrent mutators act atomically

Model: `Model/Conc.lean` — interleavings at **lock-segment granularity**. What is proved here
holds for every number of threads, every program length and every schedule. What is *not*
expressible in this model: word-level data races between the unlocked reads in the exported
wrappers (`IsInit`, `getState`) and the locked writes. That clause of C10 is carried as the
known finding K-C10-race, with the race detector as supporting evidence (DESIGN §8): **partial**.

The tie to the Go source is `C10_layout` / `C10_writes_locked_facts`: `decide`-checked
statements over the regenerated tables `Gen.facts` and `Gen.lockFacts`. They fail when a
content mutator reads the slice before it takes the lock.
-/

set_option linter.unusedSimpArgs false
namespace Stackage
namespace Conc
open ListSpec

/-! ## Mutual exclusion -/

/-- **C10, mutual exclusion.** In every configuration reachable by any schedule, at most one
thread is inside a critical section, and it is the one recorded as the lock holder. No
hypothesis on the lock placement is needed. -/
theorem C10_mutex (P : ListOp → Plan) (c0 : Config) (h0 : IsInit c0) (sched : List Tid) :
    (∀ t u, (((run P c0 sched).threads t).phase.isCrit = true) →
            (((run P c0 sched).threads u).phase.isCrit = true) → t = u) ∧
    (∀ t, (run P c0 sched).lock = some t ↔ ((run P c0 sched).threads t).phase.isCrit = true) := by
  have hm0 : MutexInv c0 := by
    intro t; rw [h0.lock, h0.idle t]; simp [Phase.isCrit]
  have hm := run_mutex P sched c0 hm0
  refine ⟨?_, hm⟩
  intro t u ht hu
  have h1 := (hm t).mpr ht
  have h2 := (hm u).mpr hu
  rw [h1] at h2
  cases h2; rfl

/-! ## Linearizability -/

/-- a lock-first call is atomic: its unlocked prefix only decides "nothing to do" in states
where the sequential model does nothing, and its critical section is the sequential model -/
theorem plan_atomic (L : Layout) (interp : Nat → Val → Option Nat) (op : ListOp)
    (h : L (kindOf op) = .lockFirst) : (plan L interp op).Atomic (fun s => s.apply interp op) := by
  unfold plan; rw [h]; exact planFirst_atomic interp op

/-- **C10, linearizability.** If every call in every program is atomic in the sense of
`Plan.Atomic` (validation under the lock), then for EVERY schedule — any number of threads, any
program lengths — the configuration `c` reached satisfies:

1. the shared stack and the return values are exactly those of the *sequential* execution
   (`Stk.run`, the model of C01/C03) of the calls that have taken effect, in the order `c.log`
   in which they took effect (the order in which their critical sections were entered);
2. every thread got, in its own order, exactly the return values of its own calls in that execution;
3. that order respects every thread's program order, and nothing is executed twice or invented:
   the calls of thread `t` in `c.log`, followed by what `t` still has to do, are `t`'s program;
4. a fault can only be a fault of the sequential model itself (excluded by `C10_safe`);
5. no body ran without the lock. -/
theorem C10_linearizable (P : ListOp → Plan) (interp : Nat → Val → Option Nat) (c0 : Config) (h0 : IsInit c0)
    (hat : ∀ t, ∀ op ∈ (c0.threads t).prog, (P op).Atomic (fun s => s.apply interp op))
    (sched : List Tid) :
    c0.s.run interp ((run P c0 sched).log.map (·.2)) = .ok ((run P c0 sched).s, (run P c0 sched).outs.map (·.2)) ∧
    (run P c0 sched).outs.map (·.1) = (run P c0 sched).log.map (·.1) ∧
    (∀ t, ((run P c0 sched).threads t).outs = ((run P c0 sched).outs.filter (fun e => e.1 == t)).map (·.2)) ∧
    (∀ t, ((run P c0 sched).log.filter (fun e => e.1 == t)).map (·.2) ++ ((run P c0 sched).threads t).prog
            = (c0.threads t).prog) ∧
    (∀ f, (run P c0 sched).fault = some f →
        ∃ t op rest, ((run P c0 sched).threads t).prog = op :: rest ∧ (run P c0 sched).s.apply interp op = .error f) ∧
    (run P c0 sched).unlocked = 0 := by
  have hi := run_linInv P interp c0 hat sched c0 (linInv_init P interp c0 h0)
  exact ⟨hi.hrun, hi.htid, hi.houts, hi.hprog, hi.hfault, hi.hunl⟩

/-- the same for the plans compiled from a layout in which every mutator is lock-first -/
theorem C10_linearizable_lockFirst (L : Layout) (hL : ∀ k, L k = .lockFirst) (interp : Nat → Val → Option Nat)
    (s : Stk) (progs : Tid → List ListOp) (sched : List Tid) :
    s.run interp ((run (plan L interp) (init s progs) sched).log.map (·.2))
      = .ok ((run (plan L interp) (init s progs) sched).s, (run (plan L interp) (init s progs) sched).outs.map (·.2)) ∧
    (∀ t, ((run (plan L interp) (init s progs) sched).log.filter (fun e => e.1 == t)).map (·.2)
            ++ ((run (plan L interp) (init s progs) sched).threads t).prog = progs t) := by
  have h0 : IsInit (init s progs) := ⟨rfl, rfl, rfl, rfl, rfl, fun _ => rfl, fun _ => rfl⟩
  have h := C10_linearizable (plan L interp) interp (init s progs) h0
    (fun t op _ => plan_atomic L interp op (hL _)) sched
  exact ⟨h.1, h.2.2.2.1⟩

/-- when the schedule has run every thread to completion, the order contains every call of every
thread exactly once, in program order -/
theorem C10_complete (P : ListOp → Plan) (interp : Nat → Val → Option Nat) (c0 : Config) (h0 : IsInit c0)
    (hat : ∀ t, ∀ op ∈ (c0.threads t).prog, (P op).Atomic (fun s => s.apply interp op))
    (sched : List Tid) (t : Tid) (hdone : ((run P c0 sched).threads t).prog = []) :
    ((run P c0 sched).log.filter (fun e => e.1 == t)).map (·.2) = (c0.threads t).prog := by
  have h := (C10_linearizable P interp c0 h0 hat sched).2.2.2.1 t
  rw [hdone, List.append_nil] at h
  exact h

/-! ## Consequences through C01 / C03 -/

/-- total growth (pushed / inserted values) of a program -/
def growthOf (ops : List ListOp) : Nat := (ops.map ListOp.growth).sum

theorem growthOf_append (a b : List ListOp) : growthOf (a ++ b) = growthOf a + growthOf b := by
  simp [growthOf, List.map_append, List.sum_append]

theorem ListSpec.run_length_le (c : Conf) (ops : List ListOp) :
    ∀ l, (ListSpec.run c l ops).1.length ≤ l.length + (ops.map ListOp.growth).sum := by
  induction ops with
  | nil => intro l; simp [ListSpec.run]
  | cons op rest ih =>
    intro l
    rw [ListSpec.run_cons]
    have h1 := ListSpec.apply_length_le (c.opts l) l op
    have h2 := ih (ListSpec.apply (c.opts l) l op).1
    simp only [List.map_cons, List.sum_cons]
    omega

/-- **C10, safety.** Threads `ts` (all others idle) run arbitrary programs of content mutators
with 64-bit arguments on a well-formed mutex-enabled stack without push policy; every call is
atomic. Then for every schedule: no call faults (no panic, the configuration slot is never
returned, overwritten or removed), the configuration is untouched, the stack stays well-formed —
in particular **its capacity is never exceeded** —, and content and return values are those the
ordered-list specification (C01) gives for the calls in the order they took effect: no element
is lost, duplicated or fabricated. -/
theorem C10_safe (P : ListOp → Plan) (interp : Nat → Val → Option Nat) (c0 : Config) (h0 : IsInit c0)
    (hat : ∀ t, ∀ op ∈ (c0.threads t).prog, (P op).Atomic (fun s => s.apply interp op))
    (ts : List Tid) (hnd : ts.Nodup) (hts : ∀ t, t ∉ ts → (c0.threads t).prog = [])
    (hwf : c0.s.WF) (hnp : c0.s.cfg.ppf = none)
    (hints : ∀ t, ∀ op ∈ (c0.threads t).prog, op.IntsOk)
    (hsm : SmallLen (c0.s.xs.length + (ts.map (fun t => growthOf (c0.threads t).prog)).sum))
    (sched : List Tid) :
    (run P c0 sched).fault = none ∧
    (run P c0 sched).s.cfg = c0.s.cfg ∧
    (run P c0 sched).s.WF ∧
    (∀ k : Nat, c0.s.cfg.cap = (k : Int) + 1 → (run P c0 sched).s.xs.length ≤ k) ∧
    (run P c0 sched).s.xs = (ListSpec.run c0.s.conf c0.s.xs ((run P c0 sched).log.map (·.2))).1 ∧
    (run P c0 sched).outs.map (·.2) = (ListSpec.run c0.s.conf c0.s.xs ((run P c0 sched).log.map (·.2))).2 := by
  obtain ⟨hrun, _, _, hprog, hfault, _⟩ := C10_linearizable P interp c0 h0 hat sched
  generalize run P c0 sched = c at *
  -- the calls that took effect come from the programs
  have hmem : ∀ e ∈ c.log, e.2 ∈ (c0.threads e.1).prog := by
    intro e he
    rw [← hprog e.1]
    apply List.mem_append_left
    exact List.mem_map.mpr ⟨e, List.mem_filter.mpr ⟨he, by simp⟩, rfl⟩
  have hin : ∀ e ∈ c.log, e.1 ∈ ts := by
    intro e he
    apply Classical.byContradiction
    intro hn
    have := hmem e he
    rw [hts e.1 hn] at this
    cases this
  have hlogints : ∀ op ∈ c.log.map (·.2), op.IntsOk := by
    intro op hop
    obtain ⟨e, he, rfl⟩ := List.mem_map.mp hop
    exact hints e.1 e.2 (hmem e he)
  -- growth of the log, thread by thread
  have hsplit : growthOf (c.log.map (·.2)) =
      (ts.map (fun t => growthOf ((c.log.filter (fun e => e.1 == t)).map (·.2)))).sum := by
    have := sum_by_thread ListOp.growth ts hnd c.log hin
    simpa [growthOf, List.map_map, Function.comp_def] using this
  have hper : ∀ t, growthOf ((c.log.filter (fun e => e.1 == t)).map (·.2)) ≤ growthOf (c0.threads t).prog := by
    intro t; rw [← hprog t, growthOf_append]; omega
  have hlogle : growthOf (c.log.map (·.2)) ≤ (ts.map (fun t => growthOf (c0.threads t).prog)).sum := by
    rw [hsplit]; exact sum_le_sum' ts _ _ hper
  have hsm1 : SmallLen (c0.s.xs.length + ((c.log.map (·.2)).map ListOp.growth).sum) := by
    unfold SmallLen at *
    have : growthOf (c.log.map (·.2)) = ((c.log.map (·.2)).map ListOp.growth).sum := rfl
    omega
  have hC01 := Stk.C01_history interp (c.log.map (·.2)) c0.s hwf hnp hlogints
  have hC01' := hC01 hsm1
  obtain ⟨s', hr, hcfg, hxs, hwf'⟩ := hC01'
  rw [hr] at hrun
  have hinj := Except.ok.inj hrun
  have heq : s' = c.s := congrArg Prod.fst hinj
  have hout : (ListSpec.run c0.s.conf c0.s.xs (c.log.map (·.2))).2 = c.outs.map (·.2) := congrArg Prod.snd hinj
  subst heq
  refine ⟨?_, hcfg, hwf', ?_, hxs, hout.symm⟩
  · -- a fault would be a fault of the sequential model on a call it can make: impossible by C01
    cases hf : c.fault with
    | none => rfl
    | some f =>
      obtain ⟨t, op, rest, hp, herr⟩ := hfault f hf
      have hopmem : op ∈ (c0.threads t).prog := by rw [← hprog t, hp]; simp
      have htin : t ∈ ts := by
        apply Classical.byContradiction
        intro hn; rw [hts t hn] at hopmem; cases hopmem
      have hroom : growthOf ((c.log.filter (fun e => e.1 == t)).map (·.2)) + op.growth ≤ growthOf (c0.threads t).prog := by
        rw [← hprog t, hp, growthOf_append]
        simp only [growthOf, List.map_cons, List.sum_cons]; omega
      have hle2 := sum_le_room ts (fun t => growthOf ((c.log.filter (fun e => e.1 == t)).map (·.2)))
        (fun t => growthOf (c0.threads t).prog) hper t op.growth htin hroom
      rw [← hsplit] at hle2
      have hlen := Conc.ListSpec.run_length_le c0.s.conf (c.log.map (·.2)) c0.s.xs
      rw [← hxs] at hlen
      have hok : op.Ok c.s.xs.length := by
        apply ListOp.ok_of _ _ (hints t op hopmem)
        unfold SmallLen at *
        have : growthOf (c.log.map (·.2)) = ((c.log.map (·.2)).map ListOp.growth).sum := rfl
        omega
      obtain ⟨s2, h2, _⟩ := Stk.C01_step interp c.s op hwf' (by rw [hcfg]; exact hnp) hok
      rw [h2] at herr; cases herr
  · intro k hk
    exact Stk.C03_bound c.s hwf' k (by rw [hcfg]; exact hk)

/-! ## No deadlock, termination -/

/-- **C10, no deadlock.** In every configuration reachable by any schedule that has not faulted:
the lock holder can take its next step, and as long as some thread has calls left, some thread can
step (the holder if the lock is taken, any unfinished thread otherwise). -/
theorem C10_no_deadlock (P : ListOp → Plan) (c0 : Config) (h0 : IsInit c0) (sched : List Tid)
    (hf : (run P c0 sched).fault = none) :
    (∀ t, (run P c0 sched).lock = some t → ∃ c', step P (run P c0 sched) t = some c') ∧
    ((∃ t, ((run P c0 sched).threads t).prog ≠ []) → ∃ u c', step P (run P c0 sched) u = some c') := by
  have hm0 : MutexInv c0 := by
    intro t; rw [h0.lock, h0.idle t]; simp [Phase.isCrit]
  have hp0 : PhaseInv c0 := fun t _ => h0.idle t
  have hm := run_mutex P sched c0 hm0
  have hp := run_phaseInv P sched c0 hp0
  generalize run P c0 sched = c at *
  refine ⟨fun t hl => holder_steps P c t hm hp hf hl, ?_⟩
  rintro ⟨t, hne⟩
  cases hl : c.lock with
  | none => exact ⟨t, free_steps P c t hf hl hne⟩
  | some h => exact ⟨h, holder_steps P c h hm hp hf hl⟩

/-- **C10, termination.** Whatever the schedule, thread `t` performs at most
`3 · (number of its calls) + 1` steps: with finitely many calls every schedule runs out of
enabled steps, and by `C10_no_deadlock` it can only do so when every thread has finished (or the
system has faulted, which `C10_safe` excludes). Hence every fair schedule terminates with all
calls completed. -/
theorem C10_bounded (P : ListOp → Plan) (c0 : Config) (h0 : IsInit c0) (sched : List Tid) (t : Tid) :
    effSteps P t c0 sched ≤ 3 * (c0.threads t).prog.length + 1 := by
  have := effSteps_le P t sched c0
  simp only [Thread.work, h0.idle t, Phase.rank] at this
  omega

/-! ## Writes happen under the lock -/

/-- **C10, writes are locked (model).** If every plan takes the lock, a step that changes the
shared stack is a step of the thread that holds the lock. -/
theorem C10_writes_locked (P : ListOp → Plan) (hlocks : ∀ op, (P op).locks = true)
    (c0 : Config) (h0 : IsInit c0) (sched : List Tid) (t : Tid) (c' : Config)
    (h : step P (run P c0 sched) t = some c') :
    c'.s = (run P c0 sched).s ∨ (run P c0 sched).lock = some t := by
  have hm0 : MutexInv c0 := by
    intro t; rw [h0.lock, h0.idle t]; simp [Phase.isCrit]
  have hm := run_mutex P sched c0 hm0
  generalize run P c0 sched = c at *
  have hk := step_kind P c c' t h
  cases hk with
  | preDone op rest o hf hp hph hpre => exact Or.inl rfl
  | preCont op rest l hf hp hph hpre => exact Or.inl rfl
  | preFault op rest f hf hp hph hpre => exact Or.inl rfl
  | acquire op rest l hf hp hph hl hlk => exact Or.inl rfl
  | bodyUnlocked op rest l s' o hf hp hph hl hc => rw [hlocks op] at hl; cases hl
  | faultUnlocked op rest l f hf hp hph hl hc => rw [hlocks op] at hl; cases hl
  | body op rest l s' o hf hp hph hc => exact Or.inr ((hm t).mpr (by rw [hph]; rfl))
  | bodyFault op rest l f hf hp hph hc => exact Or.inl rfl

/-! ## The tie to the Go source (regenerated facts) -/

def privLockedFirst (name : String) : Bool := lockedFirst "stack" name

/-- **every private content mutator calls `lock()` and does so before it reads the slice**
(`Gen.facts`: `locks ∧ lockFirst`). `stack.replace` is the exception by design: it is also called
by `revealDescend` with the lock held, so its exported wrapper `Stack.Replace` takes the lock.
`pop`, whose only validation is in its wrapper, must re-validate under the lock. -/
theorem C10_writes_locked_facts :
    (["push", "pop", "insert", "remove", "swap", "reverse", "reset", "reveal", "implode"].all
        (fun n => locksAt "stack" n) = true) ∧
    (["push", "pop", "insert", "remove", "swap", "reverse", "reset", "reveal"].all privLockedFirst = true) ∧
    lockedFirst "Stack" "Replace" = true ∧
    popGuarded = true := by decide

/-- does the exported wrapper read the content of the receiver (`Len`, `IsEmpty`, `Index`, `IsFull`, an index expression …) at a
position where it does not hold the lock? (`Gen.lockFacts`: `readsUnlocked`) -/
def wrapperReadsContentUnlocked (k : Kind) : Bool :=
  match lfact "Stack" k.wrapper with
  | some f => f.readsUnlocked
  | none => true

/-- **no exported mutator decides anything about the content before the lock is taken.** What a wrapper may test outside the
critical section is what no concurrent mutator changes (initialisation, the read-only flag, a nil argument); a length or
emptiness test there is answered from a state another goroutine may be half-way through changing (repair F42: `Pop` and
`Reverse` used to test `IsEmpty()` first and answered `(nil,false)` on a stack that is never empty). `skipPre` of the
interleaving model is exactly this set of tests. -/
theorem C10_wrappers_decide_under_lock : ∀ k ∈ Kind.all, wrapperReadsContentUnlocked k = false := by decide

/-- the lock bookkeeping (`sc.ldr`) is written while the mutex is held: no write through the
receiver before `Lock()` in `stack.lock`, none after `Unlock()` in `stack.unlock` -/
theorem C10_bookkeeping_locked :
    (match lfact "stack" "lock" with
     | some f => f.acquires && !f.wBeforeAcquire
     | none => false) = true ∧
    (match lfact "stack" "unlock" with
     | some f => f.releases && !f.wAfterRelease
     | none => false) = true := by decide

/-- **the layout extracted from the source is the lock-first layout** -/
theorem C10_layout : ∀ k ∈ Kind.all, genLayout k = .lockFirst := by decide

theorem C10_layout_all (k : Kind) : genLayout k = .lockFirst :=
  C10_layout k (by cases k <;> decide)

/-- hence every call of the source, compiled with the extracted layout, is atomic, and
`C10_linearizable` / `C10_safe` apply to `plan genLayout interp` without further hypotheses -/
theorem C10_source_atomic (interp : Nat → Val → Option Nat) (op : ListOp) :
    (plan genLayout interp op).Atomic (fun s => s.apply interp op) :=
  plan_atomic genLayout interp op (C10_layout_all _)

theorem C10_source_locks (interp : Nat → Val → Option Nat) (op : ListOp) :
    (plan genLayout interp op).locks = true := (C10_source_atomic interp op).locks

/-! ## Why lock-first is required: counter-models -/

def noPol : Nat → Val → Option Nat := fun _ _ => none

/-- the layout of the unrepaired source: `pop`, `insert`, `remove`, `swap`, `reset` validate before
they lock, `replace` never locks -/
def Layout.checkThenLock : Layout
  | .push | .reverse => .lockFirst
  | .replace => .noLock
  | _ => .checkThenLock

def one : Stk := { cfg := { kind := 4, mtx := true }, xs := [.leaf (.int 1)] }

def twoPops : Tid → List ListOp := fun t => if t < 2 then [.pop] else []

/-- both threads pass the emptiness test, then enter their critical sections one after the other -/
def badSched : List Tid := [0, 1, 0, 0, 1, 1]

/-- **check-then-lock `Pop` ‖ `Pop` on a one-element stack**: under this schedule the second `pop`
cuts off the configuration slot … -/
theorem C10_counter_pop :
    (run (plan Layout.checkThenLock noPol) (init one twoPops) badSched).fault = some .cfgLost := by decide

/-- … whereas neither sequential order of the two calls faults (the first `Pop` gets the element,
the second gets `(nil, false)`, the stack ends empty): the outcome matches no sequential execution. -/
theorem C10_counter_pop_seq :
    ∀ order ∈ [[((0 : Tid), ListOp.pop), (1, ListOp.pop)], [(1, ListOp.pop), (0, ListOp.pop)]],
      (match one.run noPol (order.map (·.2)) with
       | .ok (s, outs) => s.xs.length == 0 && outs.map (·.ok) == [true, false]
       | .error _ => false) = true := by decide

/-- with the lock-first layout the same schedule is harmless -/
theorem C10_counter_pop_fixed :
    (run (plan Layout.lockFirst noPol) (init one twoPops) badSched).fault = none ∧
    ((run (plan Layout.lockFirst noPol) (init one twoPops) badSched).outs.map (fun e => (e.1, e.2.ok)))
      = [(0, true), (1, false)] := by decide

def capTwo : Stk := { cfg := { kind := 4, cap := 3, mtx := true }, xs := [.leaf (.int 1)] }

def twoInserts : Tid → List ListOp := fun t =>
  if t = 0 then [.insert (.leaf (.int 7)) 0] else if t = 1 then [.insert (.leaf (.int 8)) 0] else []

/-- **check-then-lock `Insert` ‖ `Insert`** into a capacity-2 stack holding one element: both pass
the capacity test, the stack ends with three elements; sequentially the second insert is refused -/
theorem C10_counter_insert :
    (run (plan Layout.checkThenLock noPol) (init capTwo twoInserts) badSched).s.xs.length = 3 ∧
    (run (plan Layout.lockFirst noPol) (init capTwo twoInserts) badSched).s.xs.length = 2 := by decide

/-! ## Non-vacuity -/

/-- the hypotheses of `C10_safe` are met by a concrete configuration: three threads with mixed
programs on a FIFO capacity-3 stack -/
example : ∃ (c0 : Config) (ts : List Tid), IsInit c0 ∧ ts.Nodup ∧ c0.s.WF ∧ c0.s.cfg.ppf = none ∧
    (∀ t, t ∉ ts → (c0.threads t).prog = []) ∧ (c0.threads 0).prog.length = 2 ∧ (c0.threads 2).prog.length = 1 :=
  ⟨init { cfg := { kind := 4, cap := 4, fifo := true, mtx := true }, xs := [.leaf (.int 1), .nil] }
      (fun t => if t = 0 then [.push [.leaf (.int 5)], .pop] else if t = 1 then [.reverse]
                else if t = 2 then [.insert (.leaf (.int 9)) 1] else []),
   [0, 1, 2],
   ⟨rfl, rfl, rfl, rfl, rfl, fun _ => rfl, fun _ => rfl⟩, by decide,
   ⟨by unfold SmallLen; rw [pow62]; simp [init], Or.inr ⟨by decide, by rw [pow62]; decide, by decide⟩⟩, rfl,
   by
     intro t ht
     have h0 : t ≠ 0 := fun h => ht (by simp [h])
     have h1 : t ≠ 1 := fun h => ht (by simp [h])
     have h2 : t ≠ 2 := fun h => ht (by simp [h])
     simp [init, h0, h1, h2],
   rfl, rfl⟩


end Conc
end Stackage
