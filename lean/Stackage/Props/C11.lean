import Stackage.Props.C09

/-!
# C11 — queries never modify anything and may run concurrently

(1) regenerated call-graph facts: no query method reaches a write through a receiver or the
configuration, nor a `lock()` — with no writes there is nothing for concurrent readers to race on;
(2) over the guard skeleton a query returns the instance exactly as it was, and repeating it gives
the same answer (the model's queries are functions of the state).
Race-freedom of the running code is a runtime fact: the thorough tier runs all queries from 16
goroutines under the race detector (supporting evidence, see DESIGN §8).
-/

set_option linter.unusedSimpArgs false
set_option maxRecDepth 20000
namespace Stackage

/-- no exported query of `Stack`/`Condition` reaches a write or a lock, by the regenerated call
graph (`Transfer` writes its *destination* by design and is the one exception). "A write" (extractor, `analyse`):
a store through the receiver or its configuration, through a package-level variable, or through storage the function
was handed - a slice / map / pointer parameter, or a local that aliases part of the receiver or of a parameter
(`x, ok := r.ex.([]string); x[i] = …`): a helper that overwrites what it is given counts (seeded C11-15) -/
theorem C11_no_writes :
    (stackMethods.filter (fun m => m.cls == .query && m.name != "Transfer")).all
      (fun m => match factOf "Stack" m.name with | some f => !f.reachWrite && !f.reachLock && !f.writes | none => false) = true ∧
    (condMethods.filter (fun m => m.cls == .query)).all
      (fun m => match factOf "Condition" m.name with | some f => !f.reachWrite && !f.reachLock && !f.writes | none => false) = true := by
  decide

/-- `Transfer` itself does not write through its receiver -/
theorem C11_transfer_receiver :
    (match factOf "Stack" "Transfer" with | some f => !f.writes | none => false) = true ∧
    (match factOf "stack" "transfer" with | some f => !f.writes && !f.locks | none => false) = true := by decide

/-- every method the property names as a query is classified as one -/
theorem C11_named_queries :
    ["String", "Index", "Front", "Back", "Traverse", "Len", "Cap", "Avail", "Kind", "Valid", "IsEqual", "Unmarshal", "Less",
     "IsEmpty", "IsEncap", "IsFIFO", "IsFull", "IsInit", "IsNesting", "IsPadded", "IsParen", "IsReadOnly", "IsZero",
     "CanNest", "CanMutex"].all
      (fun n => match MethodInfo.find stackMethods n with | some m => m.cls == .query | none => false) = true := by decide

/-- **C11.** A query leaves the receiver — content, configuration, every nested Stack and
Condition (they are part of the value) — exactly as it was -/
theorem C11_pure_stack (sem : StackSem) (s : Stk) (m : MethodInfo) (args : List Arg) (hm : m.cls = .query) :
    (stackStep sem (some s) m args).1 = some s := by
  unfold stackStep; simp [hm]

theorem C11_pure_cond (sem : CondSem) (c : Cnd) (m : MethodInfo) (args : List Arg) (hm : m.cls = .query) :
    (condStep sem (some c) m args).1 = some c := by
  unfold condStep; simp [hm]

/-- repeated queries agree, however many other queries ran in between (in any order: the state never moves) -/
theorem C11_repeatable (sem : StackSem) (s : Stk) (m : MethodInfo) (args : List Arg) (hm : m.cls = .query)
    (between : List (MethodInfo × List Arg)) (hb : ∀ c ∈ between, c.1.cls = .query) :
    stackStep sem (between.foldl (fun h c => (stackStep sem h c.1 c.2).1) (some s)) m args = stackStep sem (some s) m args := by
  induction between with
  | nil => rfl
  | cons c rest ih =>
    simp only [List.foldl_cons, C11_pure_stack sem s c.1 c.2 (hb c (by simp))]
    exact ih (fun d hd => hb d (by simp [hd]))

end Stackage
