import Stackage.Lemmas.GenSem
import Stackage.Lemmas.Marshal

/-!
# C16 — Marshal accepts or rejects any input without panicking

`marshalList` follows `marshalDefault` (with `deenvelopeSingleStack`, the label switch,
`stackByWord`, `extractConditionValues` and the replace-nested-`[]any` loop), `marshalInto`
follows `(*Stack).Marshal`.

**What carries "never panics".** `marshalList`, `marshalElems` and `marshalInto` are total Lean
functions into plain records: there is no `Except Fault` anywhere on this path. Every slice
access of the Go code on this path (`in[0]` after the envelope loop, `in[1]`, `in[2]`, `in[3]`
of a CONDITION row, `in[1:]`) sits behind a length check, and the model mirrors each of these
checks by a pattern match (`[]`, `[.anys inner]`, `[w, o, e]`, `v :: rest`), so that no access
is left that could fall outside its slice; `Cond` with a nil operator is the ordinary rejecting
path of `setOperator` (`operOf` of a non-operator is `Op.none`). That the model takes the same
branches and returns the same outcome as the code for arbitrary junk trees is what the
correspondence stream `anytrees` (and `roundtrip` for the well-formed ones) checks; the theorems
below are about the model.
-/

set_option linter.unusedSimpArgs false
set_option linter.unusedVariables false
namespace Stackage

/-! ## 1. every input is decided: a Stack, a Condition, or an error -/

/-- **C16 (marshalDefault decides every input).** For every `[]any` — arbitrary nesting, empty
or single-element envelopes, unknown or mis-cased labels, CONDITION rows with missing, surplus
or wrongly typed fields — the decoder returns a Stack, a Condition or an error; never none of
the three. -/
theorem C16_outcome_list (l : List Val) :
    (marshalList l).stk.isSome ∨ (marshalList l).cnd.isSome ∨ (marshalList l).err.isSome := by
  induction l using marshalList.induct (motive2 := fun _ => True) with
  | case1 => simp [marshalList_nil]
  | case2 inner ih => rw [marshalList_env]; exact ih
  | case3 s hc w o e r x hx hne ih => rw [marshalList_str, hc]; simp only [r] at hx; simp [hx]
  | case4 s hc w o e r x hx hn hne ih =>
    rw [marshalList_str, hc]; simp only [r] at hx hn; simp [hx, hn]
  | case5 s hc w o e r hx hn hne ih =>
    rw [marshalList_str, hc]; simp only [r] at hx hn; simp [hx, hn]
  | case6 s hc w o e he hne =>
    rw [marshalList_str, hc]
    cases e <;> first | exact (he _ rfl).elim | simp
  | case7 rest s hc h1 h2 hne =>
    rw [marshalList_str, hc]
    rcases rest with _ | ⟨a, _ | ⟨b, _ | ⟨c, _ | ⟨d, r⟩⟩⟩⟩
    · simp
    · simp
    · simp
    · exact (h2 _ _ _ rfl).elim
    · simp
  | case8 rest s k hc hne ih => rw [marshalList_str, hc]; simp
  | case9 rest s hc hne ih => rw [marshalList_str, hc]; simp
  | case10 v rest hne hs =>
    rw [marshalList_nolabel v rest (fun s h => hs s h) (fun inner h hr => hne inner h hr)]; simp
  | case11 => trivial
  | case12 => trivial
  | case13 => trivial

/-! ## 2. what is returned is an initialised native Stack / Condition -/


/-- a decoded Stack: native form, one of the five stack kinds (never the zero kind, never the
Condition kind), every other configuration field at its default -/
def IsFreshStack (x : Val) : Prop := ∃ k xs, RealKind k ∧ x = .stk .native { kind := k } xs

/-- a decoded Condition: native form, initialised (`kind = CONDITION`), default configuration
except possibly the error recorded by `Cond` -/
def IsFreshCond (x : Val) : Prop :=
  ∃ e kw op ex, x = .cnd .native { kind := Gen.kind_cond, err := e } kw op ex

theorem cndVal_fresh (K : Closures) (kw : Val) (o : Op) (ex : Val) : IsFreshCond (cndVal (Cnd.cond K kw o ex)) := by
  obtain ⟨e, he⟩ := Cnd.cond_cfg K kw o ex
  exact ⟨e, _, _, _, by unfold cndVal; rw [he]⟩

/-- **C16 (shape of the result).** Whatever the decoder returns as Stack is a native Stack of one
of the five kinds with the default configuration (no capacity, no options, no policies), and
whatever it returns as Condition is a native initialised Condition. (On such values the model's
`Stk.String`, `Stk.unmarshal` and the element walk are total functions as well: the follow-up calls
named by the property return normally for the same reason `Marshal` does.) -/
theorem C16_result_shape (l : List Val) :
    (∀ x, (marshalList l).stk = some x → IsFreshStack x) ∧
    (∀ x, (marshalList l).cnd = some x → IsFreshCond x) := by
  induction l using marshalList.induct (motive2 := fun _ => True) with
  | case1 => simp [marshalList_nil]
  | case2 inner ih => rw [marshalList_env]; exact ih
  | case3 s hc w o e r x hx hne ih =>
    rw [marshalList_str, hc]; simp only [r] at hx; simp only [hx]
    refine ⟨by simp, ?_⟩
    intro y hy; simp only [Option.some.injEq] at hy; subst hy; exact cndVal_fresh _ _ _ _
  | case4 s hc w o e r x hx hn hne ih =>
    rw [marshalList_str, hc]; simp only [r] at hx hn; simp only [hx, hn]
    refine ⟨by simp, ?_⟩
    intro y hy; simp only [Option.some.injEq] at hy; subst hy; exact cndVal_fresh _ _ _ _
  | case5 s hc w o e r hx hn hne ih =>
    rw [marshalList_str, hc]; simp only [r] at hx hn; simp [hx, hn]
  | case6 s hc w o e he hne =>
    rw [marshalList_str, hc]
    cases e
    case anys => exact (he _ rfl).elim
    all_goals
      refine ⟨by simp, ?_⟩
      intro y hy; simp only [Option.some.injEq] at hy; subst hy; exact cndVal_fresh _ _ _ _
  | case7 rest s hc h1 h2 hne =>
    rw [marshalList_str, hc]
    rcases rest with _ | ⟨a, _ | ⟨b, _ | ⟨c, _ | ⟨d, r⟩⟩⟩⟩
    · simp
    · simp
    · simp
    · exact (h2 _ _ _ rfl).elim
    · simp
  | case8 rest s k hc hne ih =>
    rw [marshalList_str, hc]
    refine ⟨?_, by simp⟩
    intro y hy; simp only [Option.some.injEq] at hy; subst hy
    exact ⟨k, _, ((classify_kind_iff s k).mp hc).1, rfl⟩
  | case9 rest s hc hne ih =>
    rw [marshalList_str, hc]
    refine ⟨?_, by simp⟩
    intro y hy; simp only [Option.some.injEq] at hy; subst hy
    exact ⟨Gen.kind_basic, _, by unfold RealKind; simp, rfl⟩
  | case10 v rest hne hs =>
    rw [marshalList_nolabel v rest (fun s h => hs s h) (fun inner h hr => hne inner h hr)]; simp
  | case11 => trivial
  | case12 => trivial
  | case13 => trivial

/-- a decoded Stack satisfies the well-formedness invariant of the stack model as soon as its
length is that of a Go slice: it has no capacity -/
theorem C16_result_wf (l : List Val) (c : Cfg) (xs : List Val) (f : Form)
    (h : (marshalList l).stk = some (.stk f c xs)) (hs : SmallLen xs.length) :
    f = .native ∧ c.kind ≠ 0 ∧ c.kind ≠ Gen.kind_cond ∧ c = { kind := c.kind } ∧
    ({ cfg := c, xs := xs } : Stk).WF := by
  obtain ⟨k, ys, hk, he⟩ := (C16_result_shape l).1 _ h
  cases he
  refine ⟨rfl, ?_, ?_, rfl, ⟨hs, Or.inl rfl⟩⟩
  · rcases hk with h | h | h | h | h <;> subst h <;> decide
  · rcases hk with h | h | h | h | h <;> subst h <;> decide

/-! ## 1 (continued). `(*Stack).Marshal`: an error, or an initialised receiver -/

/-- **C16 (no "neither" outcome).** After `r.Marshal(in...)`, for every receiver (uninitialised
or initialised, any configuration) and every input, either an error is reported or the receiver
is an initialised Stack. -/
theorem C16_outcome (interp : Nat → Val → Option Nat) (recv : Option Stk) (input : List Val) :
    (marshalInto interp recv input).2.isSome ∨ (marshalInto interp recv input).1.isSome := by
  unfold marshalInto
  cases input with
  | nil => simp
  | cons v rest =>
    cases recv with
    | some s =>
      right
      simp only []
      split <;> rfl
    | none =>
      simp only []
      have ho := C16_outcome_list (v :: rest)
      have hsh := (C16_result_shape (v :: rest)).1
      split
      · right; rfl
      · left; rfl
      · rename_i h1 h2
        left
        rcases ho with ho | ho | ho
        · obtain ⟨x, hx⟩ := Option.isSome_iff_exists.mp ho
          obtain ⟨k, xs, _, he⟩ := hsh x hx
          subst he
          exact (h1 _ _ _ hx).elim
        · obtain ⟨x, hx⟩ := Option.isSome_iff_exists.mp ho
          exact (h2 _ hx).elim
        · exact ho

/-! ## 3. labels -/

/-- what the replace-nested-`[]any` loop leaves in the place of an entry: a nested row is
replaced by the Stack or Condition it decodes to (and stays as it is if it decodes to neither),
every other entry stays -/
def decodeEntry : Val → Val
  | .anys tv =>
    (match (marshalList tv).stk, (marshalList tv).cnd with
     | some x, _ => x
     | none, some x => x
     | none, none => .anys tv)
  | v => v

/-- the last nested row of an input, if there is one -/
def lastRow : List Val → Option (List Val)
  | [] => none
  | .anys tv :: rest => (match lastRow rest with | some r => some r | none => some tv)
  | _ :: rest => lastRow rest

/-- the loop decodes entry by entry, in order, keeping the number of entries -/
theorem marshalElems_map (l : List Val) : (marshalElems l).1 = l.map decodeEntry := by
  induction l with
  | nil => rw [marshalElems]; rfl
  | cons v rest ih =>
    cases v
    case anys tv => rw [marshalElems, List.map_cons, ← ih]; rfl
    all_goals
      rw [marshalElems, List.map_cons, ← ih]
      · rfl
      · intro tv h; cases h

/-- the error the loop ends with is that of the last nested row (`err` is overwritten per row) -/
theorem marshalElems_err (l : List Val) :
    (marshalElems l).2 = (lastRow l).map (fun tv => (marshalList tv).err) := by
  induction l with
  | nil => rw [marshalElems]; rfl
  | cons v rest ih =>
    cases v
    case anys tv =>
      rw [marshalElems]; simp only [lastRow]; rw [ih]
      cases lastRow rest <;> rfl
    all_goals
      rw [marshalElems]
      · simp only [lastRow]; exact ih
      · intro tv h; cases h

/-- **C16 (recognised labels, any case).** If the Go upper-casing of the first entry is the word
of one of the five stack kinds — `and`, `And`, `AND`, `lıst`, … — the result is a Stack of that
kind holding the remaining entries in order, nested rows decoded. (A string in first position is
never the single-envelope pattern, so this covers every input starting with a string.) -/
theorem C16_labels (lab : Text) (k : Nat) (rest : List Val)
    (hk : RealKind k) (hu : upperText lab = Gen.kindWord k) :
    (marshalList (strV lab :: rest)).stk = some (.stk .native { kind := k } (rest.map decodeEntry)) ∧
    (marshalList (strV lab :: rest)).cnd = none ∧
    (marshalList (strV lab :: rest)).err = ((lastRow rest).map (fun tv => (marshalList tv).err)).getD none := by
  have hc : classify lab = .kind k := (classify_kind_iff lab k).mpr ⟨hk, hu⟩
  unfold strV
  rw [marshalList_str, hc]
  simp only [marshalElems_map, marshalElems_err, and_self]

/-- the same in the form asked for: `classify lab = .kind k` -/
theorem C16_labels_classified (lab : Text) (k : Nat) (rest : List Val) (hc : classify lab = .kind k) :
    (marshalList (strV lab :: rest)).stk = some (.stk .native { kind := k } (marshalElems rest).1) := by
  unfold strV
  rw [marshalList_str, hc]

/-- concrete spellings -/
theorem C16_labels_AND : classify "AND".toList = .kind Gen.kind_and := rfl
theorem C16_labels_and : classify "and".toList = .kind Gen.kind_and := rfl
theorem C16_labels_Or : classify "Or".toList = .kind Gen.kind_or := rfl
theorem C16_labels_nOt : classify "nOt".toList = .kind Gen.kind_not := rfl
theorem C16_labels_list_dotless : classify "lıst".toList = .kind Gen.kind_list := rfl
theorem C16_labels_long_s : classify "baſic".toList = .kind Gen.kind_basic := rfl
theorem C16_labels_condition : classify "Condition".toList = .cond := rfl
theorem C16_labels_junk : classify "ANDD".toList = .other := rfl
theorem C16_labels_empty : classify [] = .other := rfl

/-- **C16 (unrecognised label).** An unrecognised string in first position yields a BASIC Stack
holding ALL entries — the string itself included — in order, nested rows decoded. -/
theorem C16_unrecognised (lab : Text) (rest : List Val) (hc : classify lab = .other) :
    (marshalList (strV lab :: rest)).stk =
      some (.stk .native { kind := Gen.kind_basic } ((strV lab :: rest).map decodeEntry)) ∧
    (marshalList (strV lab :: rest)).cnd = none ∧
    (marshalList (strV lab :: rest)).err = ((lastRow rest).map (fun tv => (marshalList tv).err)).getD none := by
  unfold strV
  rw [marshalList_str, hc]
  simp only [marshalElems_map, marshalElems_err, List.map_cons, decodeEntry, and_self]

/-- **C16 (no label).** A first entry that is not a string (and not the single envelope) is an
error; nothing is decoded. -/
theorem C16_no_label (v : Val) (rest : List Val) (hs : ∀ s, v ≠ .leaf (.str s))
    (he : ∀ inner, v = .anys inner → rest ≠ []) :
    marshalList (v :: rest) = { stk := none, cnd := none, err := some 1012 } :=
  marshalList_nolabel v rest hs he

/-- **C16 (CONDITION rows).** A CONDITION label with anything but exactly three further entries
is an error; with three it is a Condition built by `Cond` from whatever stands in the keyword,
operator and expression positions (a non-string keyword counts as empty, a non-operator as nil) -/
theorem C16_condition_row (lab : Text) (rest : List Val) (hc : classify lab = .cond) :
    (rest.length ≠ 3 → marshalList (strV lab :: rest) = { err := some 1013 }) ∧
    (∀ w o e, rest = [w, o, e] → (∀ tv, e ≠ .anys tv) →
      marshalList (strV lab :: rest) = { cnd := some (cndVal (Cnd.cond {} (wordOf w) (operOf o) e)) }) := by
  unfold strV
  rw [marshalList_str, hc]
  constructor
  · intro hl
    rcases rest with _ | ⟨a, _ | ⟨b, _ | ⟨c, _ | ⟨d, r⟩⟩⟩⟩
    · rfl
    · rfl
    · rfl
    · simp at hl
    · cases c <;> rfl
  · intro w o e hr he
    subst hr
    cases e
    case anys tv => exact absurd rfl (he tv)
    all_goals rfl

/-- **C16 (CONDITION rows, nested row in expression position).** When the expression entry is itself a `[]any`, it is
decoded first (`extractConditionValues` calls `marshalDefault` on it and drops that call's error): if it decodes to a
Stack, or else to a Condition - a nested CONDITION row, to any depth -, the Condition is built by `Cond` around that value;
if it decodes to neither (empty, no label, a malformed CONDITION row at any depth below), the whole row is "Malformed
condition". This is what makes `Marshal` rebuild a Condition held as a Condition's expression from the row `Unmarshal`
writes for it since repair F43. -/
theorem C16_condition_row_nested (lab : Text) (w o : Val) (tv : List Val) (hc : classify lab = .cond) :
    (∀ x, (marshalList tv).stk = some x →
      marshalList [strV lab, w, o, .anys tv] = { cnd := some (cndVal (Cnd.cond {} (wordOf w) (operOf o) x)) }) ∧
    (∀ x, (marshalList tv).stk = none → (marshalList tv).cnd = some x →
      marshalList [strV lab, w, o, .anys tv] = { cnd := some (cndVal (Cnd.cond {} (wordOf w) (operOf o) x)) }) ∧
    ((marshalList tv).stk = none → (marshalList tv).cnd = none →
      marshalList [strV lab, w, o, .anys tv] = { err := some 1013 }) := by
  unfold strV
  rw [marshalList_str, hc]
  refine ⟨?_, ?_, ?_⟩
  · intro x hx; simp only [hx]
  · intro x hs hx; simp only [hs, hx]
  · intro hs hx; simp only [hs, hx]

/-- a malformed CONDITION row below a well-formed one makes the outer one malformed, at any depth -/
theorem C16_condition_row_nested_malformed (lab : Text) (w o : Val) (tv : List Val) (hc : classify lab = .cond)
    (h : marshalList tv = { err := some 1013 }) : marshalList [strV lab, w, o, .anys tv] = { err := some 1013 } :=
  (C16_condition_row_nested lab w o tv hc).2.2 (by rw [h]) (by rw [h])

/-! ## 4. an initialised receiver gains exactly one element -/

/-- a receiver without read-only, push policy, capacity or no-nesting -/
structure Stk.Plain (s : Stk) : Prop where
  rw : s.readOnly = false
  nopol : s.cfg.ppf = none
  nocap : s.cfg.cap = 0
  nest : s.flag Gen.flag_nnest = false

theorem Stk.push_one_plain (interp : Nat → Val → Option Nat) (s : Stk) (x : Val) (h : s.Plain) :
    s.push interp [x] = { s with xs := s.xs ++ [x] } := by
  unfold Stk.push
  rw [h.nopol]
  have hfull : s.isFull = false := by
    unfold Stk.isFull
    rw [h.nocap, GenSem.isFull _ _ (by rw [isLen_iff]; omega) (fun c => absurd rfl c)]
    simp
  simp only [Stk.genericAppend, Stk.canPushNester, h.nest, hfull]
  simp

/-- **C16 (an initialised receiver gains one element).** An initialised receiver without
read-only, push policy, capacity or no-nesting gains the decoded Stack — or, failing that, the
decoded Condition — as exactly one new last element and is otherwise unchanged; if nothing was
decoded it is unchanged and the error is reported. The error is the decoder's in every case. -/
theorem C16_gains_one (interp : Nat → Val → Option Nat) (s : Stk) (input : List Val) (h : s.Plain)
    (hne : input ≠ []) :
    (∀ x, (marshalList input).stk = some x →
      marshalInto interp (some s) input = (some { s with xs := s.xs ++ [x] }, (marshalList input).err)) ∧
    (∀ x, (marshalList input).stk = none → (marshalList input).cnd = some x →
      marshalInto interp (some s) input = (some { s with xs := s.xs ++ [x] }, (marshalList input).err)) ∧
    ((marshalList input).stk = none → (marshalList input).cnd = none →
      marshalInto interp (some s) input = (some s, (marshalList input).err) ∧ (marshalList input).err.isSome) := by
  cases input with
  | nil => exact absurd rfl hne
  | cons v rest =>
    unfold marshalInto
    simp only []
    refine ⟨?_, ?_, ?_⟩
    · intro x hx
      rw [hx]
      simp only [h.rw, Stk.push_one_plain interp s x h]
      rfl
    · intro x hn hx
      rw [hn, hx]
      simp only [h.rw, Stk.push_one_plain interp s x h]
      rfl
    · intro hn hc
      rw [hn, hc]
      refine ⟨rfl, ?_⟩
      rcases C16_outcome_list (v :: rest) with ho | ho | ho
      · rw [hn] at ho; cases ho
      · rw [hc] at ho; cases ho
      · exact ho

/-- a read-only receiver is unchanged, whatever is decoded; so is any receiver on empty input -/
theorem C16_readonly (interp : Nat → Val → Option Nat) (s : Stk) (input : List Val)
    (h : s.readOnly = true) : (marshalInto interp (some s) input).1 = some s := by
  unfold marshalInto
  cases input with
  | nil => rfl
  | cons v rest =>
    simp only [h]
    split <;> rfl

theorem C16_empty_input (interp : Nat → Val → Option Nat) (recv : Option Stk) :
    marshalInto interp recv [] = (recv, some 1015) := rfl

/-! ## 5. envelopes -/

/-- `n` single-element envelopes around an input: `[[…[in]…]]` -/
def envelope : Nat → List Val → List Val
  | 0, l => l
  | n + 1, l => [.anys (envelope n l)]

/-- **C16 (envelopes).** A single-element envelope is transparent, at any depth … -/
theorem C16_envelopes (n : Nat) (l : List Val) : marshalList (envelope n l) = marshalList l := by
  induction n with
  | zero => rfl
  | succ n ih => simp only [envelope]; rw [marshalList_env, ih]

/-- … and an empty envelope at any depth (`[]`, `[[]]`, `[[[]]]`, …) is the "Empty input" error,
never a fault: nothing is decoded and the receiver, initialised or not, is left as it was. -/
theorem C16_envelopes_empty (n : Nat) :
    marshalList (envelope n []) = { stk := none, cnd := none, err := some 1011 } := by
  rw [C16_envelopes, marshalList_nil]

theorem C16_envelopes_empty_into (interp : Nat → Val → Option Nat) (recv : Option Stk) (n : Nat) :
    marshalInto interp recv (envelope (n + 1) []) = (recv, some 1011) := by
  have h := C16_envelopes_empty (n + 1)
  simp only [envelope] at h ⊢
  unfold marshalInto
  simp only [h]
  cases recv <;> rfl

/-! ## non-vacuity -/

/-- an initialised AND stack with one element is a plain receiver and gains the decoded LIST -/
example : (⟨{ kind := Gen.kind_and }, [.nil]⟩ : Stk).Plain := ⟨rfl, rfl, rfl, rfl⟩
example : marshalInto (fun _ _ => none) (some ⟨{ kind := Gen.kind_and }, [.nil]⟩) [strV "list".toList] =
    (some ⟨{ kind := Gen.kind_and }, [.nil, .stk .native { kind := Gen.kind_list } []]⟩, none) := by
  have h := (C16_gains_one (fun _ _ => none) ⟨{ kind := Gen.kind_and }, [.nil]⟩ [strV "list".toList]
    ⟨rfl, rfl, rfl, rfl⟩ (by simp)).1 (.stk .native { kind := Gen.kind_list } [])
    (by rw [(C16_labels "list".toList Gen.kind_list [] (by decide) rfl).1]; rfl)
  rw [h, (C16_labels "list".toList Gen.kind_list [] (by decide) rfl).2.2]
  rfl

/-- junk in, error out: `[[[]]]`, a number first, a CONDITION row with five fields -/
example : marshalList [.anys [.anys []]] = { err := some 1011 } := C16_envelopes_empty 2
example : (marshalList [.leaf (.int 3), strV "AND".toList]).err = some 1012 := by
  rw [C16_no_label _ _ (fun s h => by cases h) (fun i h => by cases h)]
example : (marshalList [strV "condition".toList, .nil, .nil, .nil, .nil]).err = some 1013 := by
  rw [(C16_condition_row "condition".toList _ rfl).1 (by decide)]
/-- a CONDITION row with a non-operator in the operator position is a Condition (with an error
recorded on it), not a fault -/
example : ∃ c, (marshalList [strV "CONDITION".toList, strV "kw".toList, .leaf (.int 7), .leaf (.int 1)]).cnd
    = some (.cnd .native c "kw".toList .none (.leaf (.int 1))) ∧ c.err = some 1002 :=
  ⟨_, by rw [(C16_condition_row "CONDITION".toList _ rfl).2 _ _ _ rfl (fun tv h => by cases h)]; rfl, rfl⟩
/-- a CONDITION row whose expression is a CONDITION row whose expression is a LIST row: a Condition holding a Condition
holding a Stack; with a five-field row at the bottom instead, the whole input is malformed -/
example : ∃ c c', (marshalList [strV "CONDITION".toList, strV "a".toList, .opv (.cmp 1),
      .anys [strV "condition".toList, strV "b".toList, .opv (.cmp 2), .anys [strV "LIST".toList, .leaf (.int 1)]]]).cnd
    = some (.cnd .native c "a".toList (.cmp 1) (.cnd .native c' "b".toList (.cmp 2)
        (.stk .native { kind := Gen.kind_list } [.leaf (.int 1)]))) := by
  have h3 : marshalList [strV "LIST".toList, .leaf (.int 1)] =
      { stk := some (.stk .native { kind := Gen.kind_list } [.leaf (.int 1)]) } := by
    unfold strV
    rw [marshalList_str, show classify "LIST".toList = .kind Gen.kind_list from rfl]
    simp [marshalElems]
  have h2 := (C16_condition_row_nested "condition".toList (strV "b".toList) (.opv (.cmp 2)) _ rfl).1 _ (by rw [h3])
  have h1 := (C16_condition_row_nested "CONDITION".toList (strV "a".toList) (.opv (.cmp 1)) _ rfl).2.1 _
    (by rw [h2]) (by rw [h2])
  rw [h1]
  exact ⟨_, _, rfl⟩
example : marshalList [strV "CONDITION".toList, strV "a".toList, .opv (.cmp 1),
      .anys [strV "condition".toList, strV "b".toList, .opv (.cmp 2), .anys [strV "CONDITION".toList, .nil, .nil, .nil, .nil]]]
    = { err := some 1013 } :=
  C16_condition_row_nested_malformed _ _ _ _ rfl (C16_condition_row_nested_malformed _ _ _ _ rfl
    ((C16_condition_row "CONDITION".toList _ rfl).1 (by decide)))
/-- mixed case label, a nested row that decodes, one that does not -/
example : (marshalList [strV "oR".toList, .anys [strV "not".toList], .anys [.nil], .nil]).stk =
    some (.stk .native { kind := Gen.kind_or } [.stk .native { kind := Gen.kind_not } [], .anys [.nil], .nil]) := by
  rw [(C16_labels "oR".toList Gen.kind_or _ (by decide) rfl).1]
  simp only [List.map, decodeEntry, strV]
  rw [marshalList_str, C16_no_label _ _ (fun s h => by cases h) (fun i h => by cases h),
    show classify "not".toList = .kind Gen.kind_not from rfl]
  simp [marshalElems]

end Stackage
