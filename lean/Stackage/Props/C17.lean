import Stackage.Props.C09
import Stackage.Lemmas.Ops

/-!
# C17 — uninitialised and freed instances are inert, not dangerous

A zero-valued `Stack`/`Condition` and one released with `Free` are both the handle `none`.
-/

set_option linter.unusedSimpArgs false
set_option maxRecDepth 20000
namespace Stackage

/-- every exported method (found in the source) checks initialisation before anything else can
run: it tests `IsInit`/`isInit`/`IsZero`/`IsEmpty`/a nil receiver itself, or goes through
`setState`/`getState` (which do), or simply delegates to an exported method that does, or touches its
receiver only by calling the receiver's exported methods (each covered by this very statement). The
three exceptions are by design: `Init` initialises, `Condition.String` starts with `Valid()`
(which checks), `Stack.Addr` formats the nil pointer. -/
theorem C17_init_guarded :
    (Gen.facts.filter (fun f => f.exported && (f.recv == "Stack" || f.recv == "Condition"))).all
      (fun f => f.initGuard || f.usesSetState || f.getState || f.delegates != "" || f.viaExported ||
        (f.recv == "Condition" && (f.name == "Init" || f.name == "String")) || (f.recv == "Stack" && f.name == "Addr")) = true := by
  decide

/-- **C17 (Stack).** Every exported method other than `Marshal` invoked on a zero-valued or freed
Stack returns its zero result (the table `stackMethods`: false, 0, nil, the empty string, an error
from Valid/IsEqual, and the documented sentinels "unspecified", "<invalid_stack>", "0x0",
IsEmpty/IsPadded/IsZero = true) and does not bring the instance to life. -/
theorem C17_inert_stack (sem : StackSem) (m : MethodInfo) (args : List Arg) (hm : m.cls ≠ .marshal) :
    stackStep sem none m args = (none, m.zero) := by
  unfold stackStep; cases hc : m.cls <;> simp_all

/-- **C17 (Condition).** … other than `Init`. -/
theorem C17_inert_cond (sem : CondSem) (m : MethodInfo) (args : List Arg) (hm : m.cls ≠ .init) :
    condStep sem none m args = (none, m.zero) := by
  unfold condStep; cases hc : m.cls <;> simp_all

/-- any sequence of such calls leaves the handle zero -/
theorem C17_inert_history (sem : StackSem) (calls : List (MethodInfo × List Arg))
    (hc : ∀ c ∈ calls, c.1.cls ≠ .marshal) :
    calls.foldl (fun h c => (stackStep sem h c.1 c.2).1) none = none := by
  induction calls with
  | nil => rfl
  | cons c rest ih =>
    simp only [List.foldl_cons, C17_inert_stack sem c.1 c.2 (hc c (by simp))]
    exact ih (fun d hd => hc d (by simp [hd]))

/-- the zero results really are zero values or the documented sentinels: every entry of the tables is one of these tokens -/
theorem C17_zero_table :
    (stackMethods ++ condMethods).all (fun m =>
      ["b0", "b1", "#0", "$-", "N", "N,b0", "N,e0", "e0", "e1", "x-", "l0", "O-", "A-,e0", "self0", "-", "?",
       "$756e737065636966696564", "$3c696e76616c69645f737461636b3e", "$307830"].contains m.zero) = true ∧
    -- the only `true` answers are IsEmpty / IsPadded / IsZero
    ((stackMethods ++ condMethods).filter (fun m => m.zero == "b1")).all (fun m => ["IsEmpty", "IsPadded", "IsZero"].contains m.name) = true ∧
    -- the only errors are Valid / IsEqual
    ((stackMethods ++ condMethods).filter (fun m => m.zero == "e1")).all (fun m => ["Valid", "IsEqual"].contains m.name) = true := by
  decide

/-- `Free` makes the handle zero unless the instance is read-only -/
theorem C17_free (sem : StackSem) (s : Stk) (m : MethodInfo) (args : List Arg) (hm : m.cls = .free)
    (hro : s.readOnly = false) : stackStep sem (some s) m args = (none, "e0") := by
  unfold stackStep; simp [hm, hro]

theorem C17_free_cond (sem : CondSem) (c : Cnd) (m : MethodInfo) (args : List Arg) (hm : m.cls = .free)
    (hro : c.readOnly = false) : condStep sem (some c) m args = (none, "e0") := by
  unfold condStep; simp [hm, hro]

/-- `Reset` removes every element, nil ones included, while keeping kind, capacity, options and policies -/
theorem C17_reset (s : Stk) : s.reset.xs = [] ∧ s.reset.cfg = s.cfg := ⟨rfl, rfl⟩

/-- … also through the exported call, on any writable stack, whatever it holds -/
theorem C17_reset_exported (interp : Nat → Val → Option Nat) (s : Stk) (hro : s.readOnly = false) :
    s.apply interp .reset = .ok ({ s with xs := [] }, {}) := by
  simp [Stk.apply, hro, Stk.reset]

example : ∃ s : Stk, s.readOnly = false ∧ s.xs = [.nil, .leaf (.int 1), .nil] :=
  ⟨⟨{ kind := 4 }, [.nil, .leaf (.int 1), .nil]⟩, by decide, rfl⟩

end Stackage
