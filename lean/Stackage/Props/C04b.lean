import Stackage.Props.C04
import Stackage.Props.C05

/-!
# C04 (continued) — the reconstruction is `IsEqual` to the original

"… when no capacity or case-folding is involved, IsEqual between original and reconstruction succeeds."

`Val.IsEqual` is the model of `Stack.IsEqual` (`Model/Equal.lean`), `Stk.skel` the reconstruction
(`Spec/Skeleton.lean`), `Stk.Dom` the domain of the round trip (`Props/C04.lean`).

**Route.** The theorem goes through `C05_iff` (`IsEqual … = .ok none ↔ sameDesc …` on `inDomain`), not through
a second induction over `Val.veq` / `stkLoop`: `inDomain` covers every *node shape* of `Stk.Dom` (real kinds, nil,
leaves, Conditions, any form), so what is left to show is (a) both trees are in `inDomain`, (b) `sameDesc` holds
between them — two short inductions over `skelElem`. What `inDomain` asks and `Stk.Dom` leaves open is exactly the
list of side conditions below; each is necessary (see the examples at the end):

* `noCap` / `noFold` — the property's own provisos (the reconstruction has no capacity and does not fold);
* `noEqf` — no equality policy anywhere (a policy replaces the comparison by an arbitrary closure);
* `eqReady` — what C04's domain admits but Go's equality can never accept, even between a value and itself:
  a NaN leaf (`NaN != NaN`) and a `.cnd` node whose configuration is not an initialised Condition's (the model's
  encoding of "not initialised": `IsEqual` answers "Not initialised") — at every depth, Conditions held as a
  Condition's expression included: since repair F43 such a Condition is rebuilt like every other node (the
  reconstruction is an independent tree), so nothing about it has to be assumed beyond what is asked of any node.
-/

set_option linter.unusedSimpArgs false
set_option linter.unusedVariables false
namespace Stackage
open EqSpec

/-! ## the side conditions -/

mutual
/-- `ps` holds of the configuration of every Stack node, `pc` of every Condition node — elements, expressions
and nested Conditions alike, at any depth -/
def Val.allCfg (ps pc : Cfg → Bool) : Val → Bool
  | .stk _ c xs => ps c && Val.allCfgL ps pc xs
  | .cnd _ c _ _ ex => pc c && Val.allCfg ps pc ex
  | _ => true

def Val.allCfgL (ps pc : Cfg → Bool) : List Val → Bool
  | [] => true
  | x :: rest => Val.allCfg ps pc x && Val.allCfgL ps pc rest
end

/-- no capacity anywhere in the tree: `cfg.cap = 0` at every Stack node -/
def noCap (v : Val) : Bool := v.allCfg (fun c => c.cap == 0) (fun _ => true)
/-- no case folding anywhere in the tree: `nodeConfig.positive(cfold)` is false at every Stack node -/
def noFold (v : Val) : Bool := v.allCfg (fun c => !c.cfold) (fun _ => true)
/-- no equality policy anywhere in the tree, Stack or Condition -/
def noEqf (v : Val) : Bool := v.allCfg (fun c => c.eqf.isNone) (fun c => c.eqf.isNone)

/-- a leaf that is not a NaN -/
def Leaf.notNaN : Leaf → Bool
  | .num _ text => text != "NaN".toList
  | .ev (.prim _ _ n) => !n
  | _ => true

mutual
/-- what C04's domain admits but equality cannot accept (see the file header): no NaN leaf, every Condition
initialised (a Condition in expression position like any other) -/
def eqReady : Val → Bool
  | .leaf l => l.notNaN
  | .stk _ _ xs => eqReadyL xs
  | .cnd _ c _ _ ex => c.kind == Gen.kind_cond && eqReadyExpr ex
  | _ => true

def eqReadyL : List Val → Bool
  | [] => true
  | x :: rest => eqReady x && eqReadyL rest

def eqReadyExpr : Val → Bool
  | .leaf l => l.notNaN
  | .stk _ _ xs => eqReadyL xs
  | .cnd _ c _ _ ex => c.kind == Gen.kind_cond && eqReadyExpr ex
  | _ => true
end

/-- the original as a value -/
def Stk.val (s : Stk) : Val := .stk .native s.cfg s.xs

/-! ## (a) C04's domain plus the side conditions is inside C05's domain -/

theorem primLeaf_domEV (l : Leaf) (hp : primLeaf l = true) (hn : l.notNaN = true) : domEV .top l.toEV = true := by
  cases l with
  | str s => rfl
  | int i => rfl
  | bool b => rfl
  | num ty text =>
    simp only [Leaf.notNaN, bne_iff_ne, ne_eq] at hn
    simp only [Leaf.toEV, domEV, Bool.not_eq_true', beq_eq_false_iff_ne, ne_eq]
    exact hn
  | _ => simp [primLeaf] at hp

theorem realKind_contains (k : Nat) (hk : RealKind k) :
    [Gen.kind_and, Gen.kind_or, Gen.kind_not, Gen.kind_list, Gen.kind_basic].contains k = true := by
  rcases hk with h | h | h | h | h <;> subst h <;> rfl

theorem inDomain_of_dom (x : Val) :
    domElem x = true → noEqf x = true → eqReady x = true → inDomain x = true := by
  induction x using domElem.induct
    (motive_3 := fun xs => domElems xs = true → Val.allCfgL (fun c => c.eqf.isNone) (fun c => c.eqf.isNone) xs = true →
      eqReadyL xs = true → inDomainL xs = true)
    (motive_2 := fun ex => domExpr ex = true → noEqf ex = true → eqReadyExpr ex = true → inDomain ex = true) with
  | case1 => intros; rfl
  | case2 l =>
    intro hd _ hr
    rw [domElem] at hd; rw [eqReady] at hr
    rw [inDomain]; exact primLeaf_domEV l hd hr
  | case3 f c xs ih =>
    intro hd he hr
    rw [domElem, Bool.and_eq_true, decide_eq_true_iff] at hd
    rw [noEqf, Val.allCfg, Bool.and_eq_true] at he
    rw [eqReady] at hr
    rw [inDomain, he.1, realKind_contains _ hd.1, ih hd.2 he.2 hr]; rfl
  | case4 f c kw op ex ih =>
    intro hd he hr
    rw [domElem, Bool.and_eq_true] at hd
    rw [noEqf, Val.allCfg, Bool.and_eq_true] at he
    rw [eqReady, Bool.and_eq_true] at hr
    rw [inDomain, he.1, hr.1, ih hd.2 he.2 hr.2]; rfl
  | case5 v h1 h2 h3 h4 =>
    intro hd
    cases v with
    | nil => exact (h1 rfl).elim
    | leaf l => exact (h2 l rfl).elim
    | stk f c xs => exact (h3 f c xs rfl).elim
    | cnd f c kw op ex => exact (h4 f c kw op ex rfl).elim
    | _ => simp [domElem] at hd
  | case11 => intros; rfl
  | case12 x rest ihx ihr =>
    rename_i hd he hr
    rw [domElems, Bool.and_eq_true] at hd
    rw [Val.allCfgL, Bool.and_eq_true] at he
    rw [eqReadyL, Bool.and_eq_true] at hr
    rw [inDomainL, ihx hd.1 he.1 hr.1, ihr hd.2 he.2 hr.2]; rfl
  | case6 s => intros; rfl
  | case7 l hs =>
    rename_i hd hu1 hr
    rw [domExpr] at hd
    · rw [eqReadyExpr] at hr
      rw [inDomain]; exact primLeaf_domEV l hd hr
    · intro s h; exact hs s h
  | case8 f c xs ih =>
    rename_i hd he hr
    rw [domExpr, Bool.and_eq_true, decide_eq_true_iff] at hd
    rw [noEqf, Val.allCfg, Bool.and_eq_true] at he
    rw [eqReadyExpr] at hr
    rw [inDomain, he.1, realKind_contains _ hd.1, ih hd.2 he.2 hr]; rfl
  | case9 f c kw op ex ih =>
    rename_i hd he hr
    rw [domExpr, Bool.and_eq_true] at hd
    rw [noEqf, Val.allCfg, Bool.and_eq_true] at he
    rw [eqReadyExpr, Bool.and_eq_true] at hr
    rw [inDomain, he.1, hr.1, ih hd.2 he.2 hr.2]; rfl
  | case10 v h1 h2 h3 h4 =>
    rename_i hd hu1 hu2
    cases v with
    | leaf l => exact (h2 l rfl).elim
    | stk f c xs => exact (h3 f c xs rfl).elim
    | cnd f c kw op ex => exact (h4 f c kw op ex rfl).elim
    | _ => simp [domExpr] at hd

/-! ## (b) the reconstruction is in C05's domain and built from the same description -/

/-- a Stack node without capacity and folding, against its reconstruction's default configuration -/
theorem sameHead_skel (c : Cfg) (hk : RealKind c.kind) (hcap : (c.cap == 0) = true) (hfold : (!c.cfold) = true) :
    (c.cap == ({ kind := c.kind } : Cfg).cap && sameKind c { kind := c.kind }) = true := by
  have hk0 : (c.kind != 0) = true := by
    rcases hk with h | h | h | h | h <;> rw [h] <;> rfl
  simp only [Cfg.cfold, Cfg.flag, hk0, Bool.true_and, Bool.not_eq_true'] at hfold
  simp only [beq_iff_eq] at hcap
  simp only [sameKind, hcap, beq_self_eq_true, Bool.true_and]

theorem skel_aux (x : Val) :
    domElem x = true → noCap x = true → noFold x = true → inDomain x = true →
      inDomain (skelElem x) = true ∧ sameDesc x (skelElem x) = true := by
  induction x using skelElem.induct
    (motive_3 := fun xs => domElems xs = true →
      Val.allCfgL (fun c => c.cap == 0) (fun _ => true) xs = true →
      Val.allCfgL (fun c => !c.cfold) (fun _ => true) xs = true → inDomainL xs = true →
      inDomainL (skelElems xs) = true ∧ sameVals xs (skelElems xs) = true)
    (motive_2 := fun ex => domExpr ex = true → noCap ex = true → noFold ex = true → inDomain ex = true →
      inDomain (skelExpr ex) = true ∧ sameDesc ex (skelExpr ex) = true) with
  | case1 f c xs ih =>
    intro hd hc hf hi
    rw [domElem, Bool.and_eq_true, decide_eq_true_iff] at hd
    rw [noCap, Val.allCfg, Bool.and_eq_true] at hc
    rw [noFold, Val.allCfg, Bool.and_eq_true] at hf
    rw [inDomain, Bool.and_eq_true, Bool.and_eq_true] at hi
    obtain ⟨h1, h2⟩ := ih hd.2 hc.2 hf.2 hi.2
    rw [skelElem]
    constructor
    · rw [inDomain, realKind_contains _ hd.1, h1]; rfl
    · rw [sameDesc, sameHead_skel c hd.1 hc.1 hf.1, h2]; rfl
  | case2 f c kw op ex ih =>
    intro hd hc hf hi
    rw [domElem, Bool.and_eq_true] at hd
    rw [noCap, Val.allCfg, Bool.and_eq_true] at hc
    rw [noFold, Val.allCfg, Bool.and_eq_true] at hf
    rw [inDomain, Bool.and_eq_true, Bool.and_eq_true] at hi
    obtain ⟨h1, h2⟩ := ih hd.2 hc.2 hf.2 hi.2
    rw [C04_structure_cond f c kw op ex hd.1 hd.2]
    constructor
    · rw [inDomain, h1]; rfl
    · rw [sameDesc, h2, sameOp_refl]; simp
  | case3 v hs hc' =>
    intro _ _ _ hi
    have : skelElem v = v := by
      cases v <;> first | rfl | exact (hs _ _ _ rfl).elim | exact (hc' _ _ _ _ _ rfl).elim
    rw [this]; exact ⟨hi, sameDesc_refl v hi⟩
  | case7 => intros; exact ⟨rfl, rfl⟩
  | case8 x rest ihx ihr =>
    rename_i hd hc hf hi
    rw [domElems, Bool.and_eq_true] at hd
    rw [Val.allCfgL, Bool.and_eq_true] at hc hf
    rw [inDomainL, Bool.and_eq_true] at hi
    obtain ⟨h1, h2⟩ := ihx hd.1 hc.1 hf.1 hi.1
    obtain ⟨h3, h4⟩ := ihr hd.2 hc.2 hf.2 hi.2
    rw [skelElems, inDomainL, sameVals, h1, h2, h3, h4]; exact ⟨rfl, rfl⟩
  | case4 f c xs ih =>
    rename_i hd hc hf hi
    rw [domExpr, Bool.and_eq_true, decide_eq_true_iff] at hd
    rw [noCap, Val.allCfg, Bool.and_eq_true] at hc
    rw [noFold, Val.allCfg, Bool.and_eq_true] at hf
    rw [inDomain, Bool.and_eq_true, Bool.and_eq_true] at hi
    obtain ⟨h1, h2⟩ := ih hd.2 hc.2 hf.2 hi.2
    rw [skelExpr]
    constructor
    · rw [inDomain, realKind_contains _ hd.1, h1]; rfl
    · rw [sameDesc, sameHead_skel c hd.1 hc.1 hf.1, h2]; rfl
  | case5 f c kw op ex ih =>
    rename_i hd hc hf hi
    rw [domExpr, Bool.and_eq_true] at hd
    rw [noCap, Val.allCfg, Bool.and_eq_true] at hc
    rw [noFold, Val.allCfg, Bool.and_eq_true] at hf
    rw [inDomain, Bool.and_eq_true, Bool.and_eq_true] at hi
    obtain ⟨h1, h2⟩ := ih hd.2 hc.2 hf.2 hi.2
    rw [C04_structure_expr_cond f c kw op ex hd.1 hd.2]
    constructor
    · rw [inDomain, h1]; rfl
    · rw [sameDesc, h2, sameOp_refl]; simp
  | case6 v hs hc' =>
    rename_i hu1 hu2 hu3 hi
    have : skelExpr v = v := by
      cases v <;> first | rfl | exact (hs _ _ _ rfl).elim | exact (hc' _ _ _ _ _ rfl).elim
    rw [this]; exact ⟨hi, sameDesc_refl v hi⟩

theorem skel_inDomain_sameDesc (s : Stk) (hd : s.Dom) (hcap : noCap s.val = true) (hfold : noFold s.val = true)
    (hin : inDomain s.val = true) : inDomain s.skel = true ∧ sameDesc s.val s.skel = true := by
  have h := skel_aux s.val (by
    unfold Stk.val; rw [domElem, Bool.and_eq_true, decide_eq_true_iff]; exact hd) hcap hfold hin
  unfold Stk.val at h; rw [skelElem] at h
  exact h

/-! ## the theorem -/

/-- **C04 (IsEqual), on the intersection of C04's and C05's domains.** A stack of C04's domain that is also in the
domain of the equality property and has no capacity and no case folding anywhere is `IsEqual` to its reconstruction,
whichever of the two receives the call (`same = false`: they are two different objects). -/
theorem C04_isEqual_core (hook : EqHook) (s : Stk) (hd : s.Dom)
    (hcap : noCap s.val = true) (hfold : noFold s.val = true) (hin : inDomain s.val = true) :
    Val.IsEqual hook false s.val s.skel = .ok none ∧ Val.IsEqual hook false s.skel s.val = .ok none := by
  obtain ⟨h1, h2⟩ := skel_inDomain_sameDesc s hd hcap hfold hin
  have h := (C05_iff hook s.val s.skel rfl hin h1).mpr h2
  exact ⟨h, (C05_symm hook s.val s.skel rfl rfl hin h1).mp h⟩

/-- **C04 (IsEqual).** For every stack of C04's domain with no capacity, no case folding and no equality policy
anywhere in the tree (and nothing in it that is unequal to itself: `eqReady`), `IsEqual` between the original and the
reconstruction succeeds, in both directions. -/
theorem C04_isEqual (hook : EqHook) (s : Stk) (hd : s.Dom)
    (hcap : noCap s.val = true) (hfold : noFold s.val = true) (heqf : noEqf s.val = true)
    (hready : eqReady s.val = true) :
    Val.IsEqual hook false (.stk .native s.cfg s.xs) s.skel = .ok none ∧
    Val.IsEqual hook false s.skel (.stk .native s.cfg s.xs) = .ok none :=
  C04_isEqual_core hook s hd hcap hfold
    (inDomain_of_dom s.val (by
      unfold Stk.val; rw [domElem, Bool.and_eq_true, decide_eq_true_iff]; exact hd) heqf hready)

/-- the same about what `Marshal` leaves in a fresh receiver -/
theorem C04_isEqual_via_marshal (hook : EqHook) (interp : Nat → Val → Option Nat) (s : Stk) (hd : s.Dom)
    (hcap : noCap s.val = true) (hfold : noFold s.val = true) (heqf : noEqf s.val = true)
    (hready : eqReady s.val = true) :
    ∃ z, marshalInto interp none s.unmarshal = (some z, none) ∧
      Val.IsEqual hook false s.val z.val = .ok none ∧ Val.IsEqual hook false z.val s.val = .ok none :=
  ⟨s.skelStk, C04_roundtrip interp s hd, C04_isEqual hook s hd hcap hfold heqf hready⟩

/-! ## non-vacuity, and the side conditions are needed -/

/-- `exTree` of C04 without its capacity and its case folding (same elements: depth 3, an aliased OR stack, a
Condition whose expression is a LIST stack, a Condition with a user operator) -/
def exTree0 : Stk := ⟨{ kind := Gen.kind_and }, exTree.xs⟩

example : exTree0.Dom ∧ noCap exTree0.val = true ∧ noFold exTree0.val = true ∧ noEqf exTree0.val = true ∧
    eqReady exTree0.val = true := by decide

example : Val.IsEqual (fun _ _ _ => some .badInput) false exTree0.val exTree0.skel = .ok none ∧
    Val.IsEqual (fun _ _ _ => some .badInput) false exTree0.skel exTree0.val = .ok none :=
  C04_isEqual _ _ (by decide) (by decide) (by decide) (by decide) (by decide)

/-- a Condition (alias form) held as a Condition's expression: rebuilt as an independent native Condition (repair F43),
equal to the original all the same -/
def exNested : Stk :=
  ⟨{ kind := Gen.kind_list },
   [ .cnd .native { kind := Gen.kind_cond } "kw".toList (.cmp 1)
       (.cnd .alias { kind := Gen.kind_cond } "in".toList (.cmp 2) (.leaf (.int 1))) ]⟩

example : Val.IsEqual (fun _ _ _ => none) false exNested.val exNested.skel = .ok none :=
  (C04_isEqual _ _ (by decide) (by decide) (by decide) (by decide) (by decide)).1

/-- the reconstruction does not share the inner Condition with the original: it is a different value (native form,
default configuration) -/
example : exNested.skel ≠ exNested.val ∧
    exNested.skel = .stk .native { kind := Gen.kind_list }
      [ .cnd .native { kind := Gen.kind_cond } "kw".toList (.cmp 1)
          (.cnd .native { kind := Gen.kind_cond } "in".toList (.cmp 2) (.leaf (.int 1))) ] := by
  refine ⟨?_, rfl⟩
  intro h
  have := congrArg (fun v => match v with
    | .stk _ _ [.cnd _ _ _ _ (.cnd f _ _ _ _)] => f
    | _ => Form.native) h
  exact absurd this (by decide)

/-- Condition in Condition in Condition with a Stack below (`exCic` of C04: alias, pointer and alias-with-String forms
on the way down): inside the domain of the IsEqual theorem, in both directions -/
example : exCic.Dom ∧ noCap exCic.val = true ∧ noFold exCic.val = true ∧ noEqf exCic.val = true ∧
    eqReady exCic.val = true := by decide

example : Val.IsEqual (fun _ _ _ => none) false exCic.val exCic.skel = .ok none ∧
    Val.IsEqual (fun _ _ _ => none) false exCic.skel exCic.val = .ok none :=
  C04_isEqual _ _ (by decide) (by decide) (by decide) (by decide) (by decide)

/-- with the capacity, the original `exTree` is in C04's domain but not equal to its reconstruction … -/
example : exTree.Dom ∧ Val.IsEqual (fun _ _ _ => none) false exTree.val exTree.skel = .ok (some .capLen) :=
  ⟨by decide, rfl⟩

/-- … case folding alone is no difference any more (repair F41: the stack types are compared, not the kind words as
presented; before it `and` / `AND` read differently) … -/
example : Val.IsEqual (fun _ _ _ => none) false
    (Stk.val ⟨{ kind := Gen.kind_and, opt := Gen.flag_cfold }, []⟩)
    (Stk.skel ⟨{ kind := Gen.kind_and, opt := Gen.flag_cfold }, []⟩) = .ok none := rfl

/-- … a NaN leaf is in C04's domain and not equal to itself … -/
example : (⟨{ kind := Gen.kind_list }, [.leaf (.num 1 "NaN".toList)]⟩ : Stk).Dom ∧
    Val.IsEqual (fun _ _ _ => none) false
      (Stk.val ⟨{ kind := Gen.kind_list }, [.leaf (.num 1 "NaN".toList)]⟩)
      (Stk.skel ⟨{ kind := Gen.kind_list }, [.leaf (.num 1 "NaN".toList)]⟩) = .ok (some .primMismatch) :=
  ⟨by decide, rfl⟩

/-- … and an equality policy answers whatever it likes. -/
example : Val.IsEqual (fun _ _ _ => some (.user 7)) false
    (Stk.val ⟨{ kind := Gen.kind_list, eqf := some 3 }, []⟩)
    (Stk.skel ⟨{ kind := Gen.kind_list, eqf := some 3 }, []⟩) = .ok (some (.user 7)) := rfl

end Stackage
