import Stackage.Lemmas.Ops

/-!
# C01 — Stack content follows ordered-list semantics under any operation history

`Stk.apply` is the model of the exported mutators (built on the regenerated
guards `Gen.*`); `ListSpec.apply` is the ordered-list specification. The
theorems say they agree for every operation, every history, every kind, both
orders, any capacity and every index-option combination.
-/

set_option linter.unusedSimpArgs false
namespace Stackage
open ListSpec

/-- arguments a Go caller can actually supply: ints are 64-bit, slices shorter than 2^62 -/
def ListOp.Ok (n : Nat) : ListOp → Prop
  | .push vs => SmallLen (n + vs.length)
  | .insert _ i => InInt i ∧ SmallLen (n + 1)
  | .remove i => InInt i
  | .replace _ i => InInt i
  | .swap i j => InInt i ∧ InInt j
  | _ => True

namespace Stk

theorem opts_eq_conf (s : Stk) (hwf : s.WF) : s.opts = s.conf.opts s.xs := by
  unfold opts conf Conf.opts rawLen
  rcases hwf.capOk with h | ⟨h1, h2, h3⟩
  · simp [h]
  · have hne : s.cfg.cap ≠ 0 := by omega
    unfold rawLen at h3
    simp only [hne, ↓reduceIte, Option.map_some, Opts.mk.injEq, Option.some.injEq, true_and]
    omega

theorem wf_of_len_le (s : Stk) (ys : List Val) (hwf : s.WF) (h : ys.length ≤ s.xs.length) :
    ({ s with xs := ys } : Stk).WF := by
  constructor
  · have := hwf.small; unfold SmallLen at *; simp only; omega
  · rcases hwf.capOk with h0 | ⟨h1, h2, h3⟩
    · exact Or.inl h0
    · refine Or.inr ⟨h1, h2, ?_⟩; unfold rawLen at *; simp only; omega

/-- **C01, one step.** Every exported content mutator does to the stack exactly what the
ordered-list specification does to the list; it never faults; the configuration is untouched. -/
theorem C01_step (interp : Nat → Val → Option Nat) (s : Stk) (op : ListOp)
    (hwf : s.WF) (hnp : s.cfg.ppf = none) (hop : op.Ok s.xs.length) :
    ∃ s', s.apply interp op = .ok (s', (ListSpec.apply s.opts s.xs op).2) ∧
          s'.cfg = s.cfg ∧ s'.xs = (ListSpec.apply s.opts s.xs op).1 ∧ s'.WF := by
  have hro : s.opts.ronly = s.readOnly := rfl
  cases op with
  | push vs =>
    unfold Stk.apply ListSpec.apply
    rw [hro]
    by_cases hr : s.readOnly = true
    · exact ⟨s, by simp [hr], rfl, by simp [hr], hwf⟩
    · have hr' : s.readOnly = false := by simpa using hr
      obtain ⟨c, x, w⟩ := genericAppend_spec vs s hwf hop
      refine ⟨s.push interp vs, by simp [hr'], ?_, ?_, ?_⟩
      · unfold push; rw [hnp]; exact c
      · unfold push; rw [hnp]; simp only [hr', Bool.false_eq_true, ↓reduceIte]; exact x
      · unfold push; rw [hnp]; exact w
  | pop =>
    unfold Stk.apply ListSpec.apply
    rw [hro, ulen_eq s hwf.small]
    by_cases hr : s.readOnly = true
    · refine ⟨s, ?_, rfl, by simp [hr], hwf⟩
      simp [hr]
    · have hr' : s.readOnly = false := by simpa using hr
      cases hxs : s.xs with
      | nil => exact ⟨s, by simp [hr', hxs], rfl, by simp [hr', hxs], hwf⟩
      | cons x rest =>
        have hne : ((((x :: rest).length : Nat) : Int) == 0) = false := by simp; omega
        unfold pop
        simp only [hne, hr', Bool.false_eq_true, ↓reduceIte, hxs]
        by_cases hf : s.cfg.fifo = true
        · have : s.opts.fifo = true := hf
          refine ⟨{ s with xs := rest }, by simp [hf, this, bind, Except.bind], rfl, by simp [this], ?_⟩
          exact wf_of_len_le s rest hwf (by simp [hxs])
        · have hf' : s.cfg.fifo = false := by simpa using hf
          have : s.opts.fifo = false := hf'
          refine ⟨{ s with xs := (x :: rest).dropLast }, by simp [hf', this, bind, Except.bind], rfl, by simp [this], ?_⟩
          exact wf_of_len_le s _ hwf (by simp [hxs])
  | insert x i =>
    simp only [Stk.apply, ListSpec.apply]
    rw [hro]
    by_cases hg : (x.isNil || s.readOnly) = true
    · refine ⟨s, by simp [hg], rfl, ?_, hwf⟩
      have : (x.isNil || s.readOnly || s.opts.room == some 0) = true := by simp [hg]
      simp [this]
    · have hg' : (x.isNil || s.readOnly) = false := by simpa using hg
      rw [insert_spec s x i hwf hop.2 hop.1]
      simp only [hg', Bool.false_eq_true, ↓reduceIte, Bool.false_or, bind, Except.bind]
      by_cases hr : (s.opts.room == some 0) = true
      · exact ⟨s, by simp [hr], rfl, by simp [hr], hwf⟩
      · have hr' : (s.opts.room == some 0) = false := by simpa using hr
        refine ⟨{ s with xs := ins s.xs x i }, by simp [hr'], rfl, by simp [hr'], ?_⟩
        have hlen : (ins s.xs x i).length = s.xs.length + 1 := by
          unfold ins; split
          · simp
          · split
            · simp
            · simp [List.length_take, List.length_drop]; omega
        constructor
        · simpa [hlen] using hop.2
        · rcases hwf.capOk with h0 | ⟨h1, h2, h3⟩
          · exact Or.inl h0
          · refine Or.inr ⟨h1, h2, ?_⟩
            have hfull := isFull_iff s hwf
            unfold rawLen at *; simp only [hlen]
            unfold opts rawLen at hr'
            have hne : s.cfg.cap ≠ 0 := by omega
            simp [hne] at hr'
            omega
  | remove i =>
    simp only [Stk.apply, ListSpec.apply]
    rw [hro]
    by_cases hr : s.readOnly = true
    · exact ⟨s, by simp [hr], rfl, by simp [hr], hwf⟩
    · have hr' : s.readOnly = false := by simpa using hr
      rw [remove_spec s i hwf hop]
      simp only [hr', Bool.false_eq_true, ↓reduceIte, bind, Except.bind]
      have e1 : s.opts.neg = s.flag Gen.flag_negidx := rfl
      have e2 : s.opts.fwd = s.flag Gen.flag_fwdidx := rfl
      rw [e1, e2]
      cases pos s.xs.length (s.flag Gen.flag_negidx) (s.flag Gen.flag_fwdidx) i with
      | none => exact ⟨s, rfl, rfl, rfl, hwf⟩
      | some p =>
        simp only
        generalize s.xs.getD p .nil = v
        by_cases hn : v.isNil = true
        · exact ⟨s, by simp [hn], rfl, by simp [hn], hwf⟩
        · have hn' : v.isNil = false := by simpa using hn
          refine ⟨{ s with xs := s.xs.eraseIdx p }, by simp [hn'], rfl, by simp [hn'], ?_⟩
          exact wf_of_len_le s _ hwf (List.length_eraseIdx_le _ _)
  | replace x i =>
    simp only [Stk.apply, ListSpec.apply]
    rw [hro]
    by_cases hg : (x.isNil || s.readOnly) = true
    · refine ⟨s, by simp [hg], rfl, ?_, hwf⟩
      have : (x.isNil || s.readOnly || !inRange s.xs i) = true := by simp [hg]
      simp [this]
    · have hg' : (x.isNil || s.readOnly) = false := by simpa using hg
      rw [replace_spec s x i hwf hop]
      simp only [hg', Bool.false_eq_true, ↓reduceIte, Bool.false_or, bind, Except.bind]
      by_cases hr : inRange s.xs i = true
      · refine ⟨{ s with xs := s.xs.set i.toNat x }, by simp [hr], rfl, by simp [hr], ?_⟩
        exact wf_of_len_le s _ hwf (by simp)
      · have hr' : inRange s.xs i = false := by simpa using hr
        exact ⟨s, by simp [hr'], rfl, by simp [hr'], hwf⟩
  | swap i j =>
    simp only [Stk.apply, ListSpec.apply]
    rw [hro]
    by_cases hr : s.readOnly = true
    · exact ⟨s, by simp [hr], rfl, by simp [hr], hwf⟩
    · have hr' : s.readOnly = false := by simpa using hr
      rw [swap_spec s i j hwf hop.1 hop.2]
      simp only [hr', Bool.false_eq_true, ↓reduceIte, Bool.false_or, bind, Except.bind]
      by_cases hij : (inRange s.xs i && inRange s.xs j) = true
      · have h2 : (!inRange s.xs i || !inRange s.xs j) = false := by
          simp only [Bool.and_eq_true] at hij; simp [hij.1, hij.2]
        refine ⟨{ s with xs := swapAt s.xs i.toNat j.toNat }, by simp [hij], rfl, by simp [h2], ?_⟩
        exact wf_of_len_le s _ hwf (by simp [swapAt])
      · have hij' : (inRange s.xs i && inRange s.xs j) = false := by simpa using hij
        have h2 : (!inRange s.xs i || !inRange s.xs j) = true := by
          cases h1 : inRange s.xs i <;> cases h3 : inRange s.xs j <;> simp [h1, h3] at hij' ⊢
        exact ⟨s, by simp [hij'], rfl, by simp [h2], hwf⟩
  | reverse =>
    unfold Stk.apply ListSpec.apply
    rw [hro, ulen_eq s hwf.small]
    by_cases hr : s.readOnly = true
    · exact ⟨s, by simp [hr], rfl, by simp [hr], hwf⟩
    · have hr' : s.readOnly = false := by simpa using hr
      by_cases he : s.xs = []
      · exact ⟨s, by simp [he], rfl, by simp [he, hr'], hwf⟩
      · have hne : (((s.xs.length : Nat) : Int) == 0) = false := by
          have : s.xs.length ≠ 0 := by simpa using he
          simp; omega
        refine ⟨s.reverse, by simp [hne, hr'], rfl, by simp [hr', reverse], ?_⟩
        exact wf_of_len_le s _ hwf (by simp)
  | reset =>
    unfold Stk.apply ListSpec.apply
    rw [hro]
    by_cases hr : s.readOnly = true
    · exact ⟨s, by simp [hr], rfl, by simp [hr], hwf⟩
    · have hr' : s.readOnly = false := by simpa using hr
      exact ⟨s.reset, by simp [hr'], rfl, by simp [hr', reset], wf_of_len_le s _ hwf (by simp)⟩

/-! ## Histories -/
end Stk

def ListOp.growth : ListOp → Nat
  | .push vs => vs.length
  | .insert _ _ => 1
  | _ => 0

def ListOp.IntsOk : ListOp → Prop
  | .insert _ i => InInt i
  | .remove i => InInt i
  | .replace _ i => InInt i
  | .swap i j => InInt i ∧ InInt j
  | _ => True

theorem ListOp.ok_of (op : ListOp) (n : Nat) (h1 : op.IntsOk) (h2 : SmallLen (n + op.growth)) : op.Ok n := by
  cases op <;> simp_all [ListOp.Ok, ListOp.IntsOk, ListOp.growth]

theorem ListSpec.takeRoom_length_le (r : Option Nat) (vs : List Val) : (takeRoom r vs).length ≤ vs.length := by
  cases r <;> simp [takeRoom, List.length_take]; omega

theorem ListSpec.apply_length_le (o : Opts) (l : List Val) (op : ListOp) :
    (ListSpec.apply o l op).1.length ≤ l.length + op.growth := by
  cases op with
  | push vs =>
    simp only [ListSpec.apply, ListOp.growth]
    split
    · simp
    · have h1 := takeRoom_length_le o.room (vs.filter (fun v => !(o.nnest && v.isStack)))
      have h2 := List.length_filter_le (fun v => !(o.nnest && v.isStack)) vs
      simp only [List.length_append]; omega
  | pop =>
    simp only [ListSpec.apply, ListOp.growth]
    split
    · simp
    · split
      · simp
      · split <;> simp
  | insert x i =>
    simp only [ListSpec.apply, ListOp.growth]
    split
    · simp
    · unfold ins; split
      · simp
      · split
        · simp
        · simp [List.length_take, List.length_drop]; omega
  | remove i =>
    simp only [ListSpec.apply, ListOp.growth]
    split
    · simp
    · split
      · simp
      · split
        · simp
        · simp; exact List.length_eraseIdx_le _ _
  | replace x i => simp only [ListSpec.apply, ListOp.growth]; split <;> simp
  | swap i j => simp only [ListSpec.apply, ListOp.growth]; split <;> simp [swapAt]
  | reverse => simp only [ListSpec.apply, ListOp.growth]; split <;> simp
  | reset => simp only [ListSpec.apply, ListOp.growth]; split <;> simp

theorem ListSpec.run_cons (c : Conf) (l : List Val) (op : ListOp) (rest : List ListOp) :
    ListSpec.run c l (op :: rest) =
      ((ListSpec.run c (ListSpec.apply (c.opts l) l op).1 rest).1,
       (ListSpec.apply (c.opts l) l op).2 :: (ListSpec.run c (ListSpec.apply (c.opts l) l op).1 rest).2) := by
  simp only [ListSpec.run]

namespace Stk

theorem conf_of_cfg (s s' : Stk) (h : s'.cfg = s.cfg) : s'.conf = s.conf := by
  unfold conf flag readOnly flag; rw [h]

/-- **C01, any history.** For every finite history of exported content mutators (in any
order, nil pushes included), on a stack of any kind, LIFO or FIFO, with or without capacity,
with any index options: the calls never fault, return exactly what the ordered-list
specification returns, leave exactly the list the specification leaves, and never touch the
configuration. -/
theorem C01_history (interp : Nat → Val → Option Nat) (ops : List ListOp) :
    ∀ (s : Stk), s.WF → s.cfg.ppf = none → (∀ op ∈ ops, op.IntsOk) →
      SmallLen (s.xs.length + (ops.map ListOp.growth).sum) →
      ∃ s', s.run interp ops = .ok (s', (ListSpec.run s.conf s.xs ops).2) ∧
            s'.cfg = s.cfg ∧ s'.xs = (ListSpec.run s.conf s.xs ops).1 ∧ s'.WF := by
  induction ops with
  | nil => intro s hwf _ _ _; exact ⟨s, rfl, rfl, rfl, hwf⟩
  | cons op rest ih =>
    intro s hwf hnp hints hsmall
    simp only [List.map_cons, List.sum_cons] at hsmall
    have hop : op.Ok s.xs.length := by
      apply ListOp.ok_of _ _ (hints op (by simp))
      unfold SmallLen at *; omega
    obtain ⟨s1, h1, hc1, hx1, hw1⟩ := C01_step interp s op hwf hnp hop
    have hlen := ListSpec.apply_length_le s.opts s.xs op
    rw [← hx1] at hlen
    have hsmall1 : SmallLen (s1.xs.length + (rest.map ListOp.growth).sum) := by
      unfold SmallLen at *; omega
    obtain ⟨s2, h2, hc2, hx2, hw2⟩ := ih s1 hw1 (by rw [hc1]; exact hnp)
      (fun o ho => hints o (by simp [ho])) hsmall1
    refine ⟨s2, ?_, by rw [hc2, hc1], ?_, hw2⟩
    · rw [ListSpec.run_cons, ← opts_eq_conf s hwf, ← hx1, ← conf_of_cfg s s1 hc1]
      unfold run
      simp only [h1, bind, Except.bind, h2]
    · rw [ListSpec.run_cons, ← opts_eq_conf s hwf, ← hx1, ← conf_of_cfg s s1 hc1]
      exact hx2

/-! ## Observers -/

/-- `Len()` is the length of the list -/
theorem C01_len (s : Stk) (hwf : s.WF) : s.ulen = s.xs.length := ulen_eq s hwf.small

/-- `Index(i)` returns the element the list specification addresses, for every index -/
theorem C01_index (s : Stk) (hwf : s.WF) (i : Int) (hi : InInt i) :
    s.Index i = .ok (ListSpec.index s.xs (s.flag Gen.flag_negidx) (s.flag Gen.flag_fwdidx) i) := by
  unfold Index ListSpec.index
  rw [index_spec s hwf.small i hi]
  cases pos s.xs.length (s.flag Gen.flag_negidx) (s.flag Gen.flag_fwdidx) i <;> rfl

theorem firstHit_map (s : Stk) (hwf : s.WF) (ps : List Nat) (hps : ∀ p ∈ ps, p < s.xs.length) :
    s.firstHit (ps.map (fun (k : Nat) => (k : Int))) = .ok (firstNonNil (ps.map (fun p => s.xs.getD p .nil))) := by
  induction ps with
  | nil => rfl
  | cons p rest ih =>
    have hp : p < s.xs.length := hps p (by simp)
    have hsm := hwf.small
    unfold SmallLen at hsm; rw [pow62] at hsm
    have hi : InInt (p : Int) := by rw [inInt_iff]; omega
    have hpos : pos s.xs.length (s.flag Gen.flag_negidx) (s.flag Gen.flag_fwdidx) (p : Int) = some p := by
      unfold pos
      have : 0 ≤ (p:Int) ∧ (p:Int) < (s.xs.length : Int) := by omega
      simp [this]
    simp only [List.map_cons, firstHit, C01_index s hwf p hi, ListSpec.index, hpos, bind, Except.bind, firstNonNil]
    cases h : (s.xs.getD p .nil).isNil
    · simp
    · simp only [Bool.not_true, Bool.false_eq_true, ↓reduceIte]
      exact ih (fun q hq => hps q (by simp [hq]))

theorem map_getD_range (l : List Val) : (List.range l.length).map (fun p => l.getD p .nil) = l := by
  apply List.ext_getElem
  · simp
  · intro i h1 h2
    simp at h1
    simp [h1]

/-- `Front()` / `Back()`: the first non-nil element from the appropriate end -/
theorem C01_front (s : Stk) (hwf : s.WF) : s.Front = .ok (ListSpec.front s.cfg.fifo s.xs) := by
  unfold Front ListSpec.front upto
  cases s.cfg.fifo
  · simp only [Bool.false_eq_true, ↓reduceIte, ← List.map_reverse]
    rw [firstHit_map s hwf _ (by intro p hp; simpa using hp), List.map_reverse, map_getD_range]
  · simp only [↓reduceIte]
    rw [firstHit_map s hwf _ (by intro p hp; simpa using hp), map_getD_range]

theorem C01_back (s : Stk) (hwf : s.WF) : s.Back = .ok (ListSpec.back s.cfg.fifo s.xs) := by
  unfold Back ListSpec.back upto
  cases s.cfg.fifo
  · simp only [Bool.not_false, ↓reduceIte]
    rw [firstHit_map s hwf _ (by intro p hp; simpa using hp), map_getD_range]
    simp
  · simp only [Bool.not_true, Bool.false_eq_true, ↓reduceIte, ← List.map_reverse]
    rw [firstHit_map s hwf _ (by intro p hp; simpa using hp), List.map_reverse, map_getD_range]

/-- non-vacuity: a capacity-3 FIFO stack holding a nil element satisfies the hypotheses,
and a mixed history on it runs as the list specification says -/
example : ∃ s : Stk, s.WF ∧ s.cfg.ppf = none ∧ s.cfg.fifo = true ∧ s.cfg.cap = 4 ∧ s.xs.length = 2 :=
  ⟨{ cfg := { kind := 4, cap := 4, fifo := true }, xs := [.leaf (.int 1), .nil] },
   ⟨by unfold SmallLen; rw [pow62]; simp, Or.inr ⟨by decide, by rw [pow62]; decide, by decide⟩⟩, rfl, rfl, rfl, rfl⟩

end Stk
end Stackage
