import Stackage.Props.C01

/-!
# C08 — no index and no element value can panic or corrupt a Stack (index part)

`Fault` (`panic`, `cfgLeak`, `cfgLost`) is what the model returns wherever the Go
code would index out of range, hand out the configuration slot as an element, or
overwrite / move it. "Returns normally and leaves the stack usable" is therefore
`∃ r, f … = .ok r` together with `WF`.
-/

set_option linter.unusedSimpArgs false
namespace Stackage
open ListSpec
namespace Stk

/-- every content mutator returns normally for every 64-bit index and every value, keeps the
configuration, and leaves a well-formed stack -/
theorem C08_total (interp : Nat → Val → Option Nat) (s : Stk) (op : ListOp)
    (hwf : s.WF) (hnp : s.cfg.ppf = none) (hop : op.Ok s.xs.length) :
    ∃ s' out, s.apply interp op = .ok (s', out) ∧ s'.cfg = s.cfg ∧ s'.WF := by
  obtain ⟨s', h, hc, _, hw⟩ := C01_step interp s op hwf hnp hop
  exact ⟨s', _, h, hc, hw⟩

/-- `Index` returns normally for every 64-bit index -/
theorem C08_index_total (s : Stk) (hwf : s.WF) (i : Int) (hi : InInt i) : ∃ r, s.Index i = .ok r :=
  ⟨_, C01_index s hwf i hi⟩

/-- an index that addresses no existing element: `Index` fails -/
theorem C08_invalid_index (s : Stk) (hwf : s.WF) (i : Int) (hi : InInt i)
    (h : pos s.xs.length (s.flag Gen.flag_negidx) (s.flag Gen.flag_fwdidx) i = none) :
    s.Index i = .ok (.nil, false) := by
  rw [C01_index s hwf i hi]; unfold ListSpec.index; rw [h]

/-- … `Remove` fails and leaves everything exactly as it was -/
theorem C08_invalid_remove (s : Stk) (hwf : s.WF) (i : Int) (hi : InInt i)
    (h : pos s.xs.length (s.flag Gen.flag_negidx) (s.flag Gen.flag_fwdidx) i = none) :
    s.remove i = .ok (s, .nil, false) := by
  rw [remove_spec s i hwf hi, h]

/-- … `Replace` (which takes plain positions only) fails and changes nothing -/
theorem C08_invalid_replace (s : Stk) (x : Val) (hwf : s.WF) (i : Int) (hi : InInt i)
    (h : ¬ (0 ≤ i ∧ i < s.xs.length)) : s.replace x i = .ok (s, false) := by
  rw [replace_spec s x i hwf hi]
  have : inRange s.xs i = false := by
    unfold inRange
    by_cases h0 : 0 ≤ i
    · have : ¬ (i < (s.xs.length : Int)) := fun c => h ⟨h0, c⟩
      simp [h0, this]
    · simp [h0]
  simp [this]

/-- … `Swap` changes nothing unless both positions exist -/
theorem C08_invalid_swap (s : Stk) (hwf : s.WF) (i j : Int) (hi : InInt i) (hj : InInt j)
    (h : ¬ (0 ≤ i ∧ i < s.xs.length) ∨ ¬ (0 ≤ j ∧ j < s.xs.length)) : s.swap i j = .ok s := by
  rw [swap_spec s i j hwf hi hj]
  have : (inRange s.xs i && inRange s.xs j) = false := by
    unfold inRange
    rcases h with h | h
    · by_cases h0 : 0 ≤ i
      · have : ¬ (i < (s.xs.length : Int)) := fun c => h ⟨h0, c⟩
        simp [h0, this]
      · simp [h0]
    · by_cases h0 : 0 ≤ j
      · have : ¬ (j < (s.xs.length : Int)) := fun c => h ⟨h0, c⟩
        simp [h0, this]
      · simp [h0]
  simp [this]

/-- negative indices enabled: `-k` addresses the k-th element from the end (1 ≤ k ≤ Len) -/
theorem C08_neg (s : Stk) (hwf : s.WF) (k : Nat) (hk1 : 1 ≤ k) (hk2 : k ≤ s.xs.length)
    (hneg : s.flag Gen.flag_negidx = true) :
    s.Index (-(k : Int)) = .ok (s.xs.getD (s.xs.length - k) .nil, !(s.xs.getD (s.xs.length - k) .nil).isNil) := by
  have hsm := hwf.small
  unfold SmallLen at hsm; rw [pow62] at hsm
  have hi : InInt (-(k : Int)) := by rw [inInt_iff]; omega
  rw [C01_index s hwf _ hi]
  unfold ListSpec.index pos
  have h1 : ¬ (0 ≤ -(k:Int) ∧ -(k:Int) < (s.xs.length:Int)) := by omega
  have h2 : -(k:Int) < 0 ∧ s.flag Gen.flag_negidx = true ∧ -(s.xs.length:Int) ≤ -(k:Int) := ⟨by omega, hneg, by omega⟩
  have h3 : ((s.xs.length : Int) + -(k:Int)).toNat = s.xs.length - k := by omega
  simp only [h1, h2, and_self, ↓reduceIte, h3]

/-- without the option, a negative index simply fails -/
theorem C08_neg_off (s : Stk) (hwf : s.WF) (i : Int) (hi : InInt i) (hlt : i < 0)
    (hneg : s.flag Gen.flag_negidx = false) : s.Index i = .ok (.nil, false) := by
  apply C08_invalid_index s hwf i hi
  unfold pos
  have h1 : ¬ (0 ≤ i ∧ i < (s.xs.length:Int)) := by omega
  have h3 : ¬ (i ≥ (s.xs.length:Int) ∧ s.flag Gen.flag_fwdidx = true ∧ s.xs.length > 0) := by omega
  simp [h1, hneg, h3]

/-- forward indices enabled: any oversize index addresses the last element -/
theorem C08_fwd (s : Stk) (hwf : s.WF) (i : Int) (hi : InInt i) (hge : i ≥ s.xs.length) (hpos : 0 < s.xs.length)
    (hfwd : s.flag Gen.flag_fwdidx = true) :
    s.Index i = .ok (s.xs.getD (s.xs.length - 1) .nil, !(s.xs.getD (s.xs.length - 1) .nil).isNil) := by
  rw [C01_index s hwf _ hi]
  unfold ListSpec.index pos
  have h1 : ¬ (0 ≤ i ∧ i < (s.xs.length:Int)) := by omega
  have h2 : ¬ (i < 0 ∧ s.flag Gen.flag_negidx = true ∧ -(s.xs.length:Int) ≤ i) := by omega
  have h3 : i ≥ (s.xs.length:Int) ∧ s.flag Gen.flag_fwdidx = true ∧ s.xs.length > 0 := ⟨hge, hfwd, hpos⟩
  simp only [h1, h2, h3, and_self, ↓reduceIte]

theorem C08_fwd_off (s : Stk) (hwf : s.WF) (i : Int) (hi : InInt i) (hge : i ≥ s.xs.length)
    (hfwd : s.flag Gen.flag_fwdidx = false) : s.Index i = .ok (.nil, false) := by
  apply C08_invalid_index s hwf i hi
  unfold pos
  have h1 : ¬ (0 ≤ i ∧ i < (s.xs.length:Int)) := by omega
  have h2 : ¬ (i < 0 ∧ s.flag Gen.flag_negidx = true ∧ -(s.xs.length:Int) ≤ i) := by omega
  simp [h1, h2, hfwd]

/-- non-vacuity: the extreme indices are 64-bit ints, and the hypotheses of `C08_neg` are met by a concrete stack -/
example : InInt MinInt ∧ InInt MaxInt := by unfold InInt MinInt MaxInt; omega
example : ∃ s : Stk, s.WF ∧ s.flag Gen.flag_negidx = true ∧ 1 ≤ s.xs.length :=
  ⟨{ cfg := { kind := 4, opt := 16 }, xs := [.leaf (.int 1)] },
   ⟨by unfold SmallLen; rw [pow62]; simp, Or.inl rfl⟩, by decide, by decide⟩

end Stk
end Stackage
