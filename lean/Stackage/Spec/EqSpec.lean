import Stackage.Model.Equal

/-!
# "Built from the same description" — the README's *Equality Assertion* rules (C05)

`sameDesc a b` is written from the README section "Equality Assertion → Default", rule by rule, and makes no
use of the comparison code in `Model/Equal.lean` (it shares only the value universe and the embedding
`Leaf.toEV` of the older leaf constructors into it):

* all Go primitives are compared as-is (same type, same value; a NaN is not equal to anything);
* if both values are explicit nil, they are the same;
* all pointers are dereferenced, regardless of depth, and interfaces are de-enveloped (`strip`);
* Stack / Condition values, whatever their derivative type, are compared as stacks / conditions:
  capacity, length, kind, element by element in order; keyword, operator text and context, expression;
* structs by non-private field configuration, field order and values (a field pair matches by name, or when
  both are anonymous); private fields are not compared;
* slices and arrays by capacity, length, order and content; the two are not distinguished;
* maps by type, length, keys and values;
* functions by signature (type); channels, uintptrs and unsafe pointers as-is.
-/

namespace Stackage
namespace EqSpec

/-- pointers dereferenced to any depth, interfaces de-enveloped; `none` = an explicit nil -/
def strip : EV → Option EV
  | .ptr _ e => strip e
  | .iface e => strip e
  | .inil => none
  | x => some x

/-- the value stored under key `k` -/
def find (k : EV) : List EV → List EV → Option EV
  | k' :: ks, v :: vs => if k = k' then some v else find k ks vs
  | _, _ => none

mutual
def sameEV (x y : EV) : Bool :=
  match x with
  | .ptr _ e => sameEV e y
  | .iface e => sameEV e y
  | .inil => (strip y).isNone
  | .prim t v n =>
      match strip y with
      | some (.prim t' v' n') => t == t' && v == v' && !n && !n'
      | _ => false
  | .named _ _ => false                       -- no rule: unsupported
  | .nilptr _ => false                        -- no rule: unsupported
  | .uptr u n =>
      match strip y with
      | some (.uptr u' n') => u == u' && n == n'
      | _ => false
  | .func t _ =>
      match strip y with
      | some (.func t' _) => t == t'
      | _ => false
  | .chan t i =>
      match strip y with
      | some (.chan t' i') => t == t' && i == i'
      | _ => false
  | .seq _ _ c xs =>
      match strip y with
      | some (.seq _ _ c' ys) => c == c' && sameList xs ys
      | _ => false
  | .map t ks vs =>
      match strip y with
      | some (.map t' ks' vs') => t == t' && ks.length == ks'.length && sameMap ks vs ks' vs'
      | _ => false
  | .struct _ fs vs =>
      match strip y with
      | some (.struct _ gs ws) => fs.length == gs.length && sameFields fs vs gs ws
      | _ => false
termination_by structural x

/-- same length, same order, same content -/
def sameList (xs ys : List EV) : Bool :=
  match xs, ys with
  | [], [] => true
  | x :: xs, y :: ys => sameEV x y && sameList xs ys
  | _, _ => false
termination_by structural xs

/-- every key of x is a key of y, with the same value -/
def sameMap (ks vs ks' vs' : List EV) : Bool :=
  match ks, vs with
  | [], [] => true
  | k :: ks, v :: vs =>
      (match find k ks' vs' with
       | some w => sameEV v w
       | none => false) && sameMap ks vs ks' vs'
  | _, _ => false
termination_by structural vs

/-- field by field, in order: private fields are not compared; a non-private field matches a non-private
field of the same name (or both anonymous) with the same value -/
def sameFields (fs : List Fld) (vs : List EV) (gs : List Fld) (ws : List EV) : Bool :=
  match fs, vs, gs, ws with
  | [], [], [], [] => true
  | f :: fs, v :: vs, g :: gs, w :: ws =>
      (if !f.exported && !g.exported then true
       else f.exported && g.exported && (f.name == g.name || (f.anon && g.anon)) && sameEV v w)
      && sameFields fs vs gs ws
  | _, _, _, _ => false
termination_by structural vs
end

/-- same kind: AND / OR / NOT / LIST / BASIC. Options (case folding among them) are not part of the description. -/
def sameKind (c c' : Cfg) : Bool :=
  c.kind == c'.kind

/-- same operator: both absent, or same text and same context -/
def sameOp (o o' : Op) : Bool :=
  match o, o' with
  | .none, .none => true
  | .none, _ => false
  | _, .none => false
  | _, _ => o.text == o'.text && o.ctx == o'.ctx

mutual
/-- `a` and `b` are built from the same description -/
def sameDesc (a b : Val) : Bool :=
  match a with
  | .stk _ c xs =>
      match b with
      | .stk _ c' ys => c.cap == c'.cap && sameKind c c' && sameVals xs ys
      | _ => false
  | .cnd _ _ kw op ex =>
      match b with
      | .cnd _ _ kw' op' ex' => kw == kw' && sameOp op op' && sameDesc ex ex'
      | _ => false
  | .nil =>
      match b with
      | .nil => true
      | .leaf l => (strip l.toEV).isNone
      | _ => false
  | .leaf l =>
      match b with
      | .leaf l' => sameEV l.toEV l'.toEV
      | .nil => (strip l.toEV).isNone
      | _ => false
  | .zstk _ => false
  | .zcnd _ => false
  | .anys _ => false
  | .opv _ => false
termination_by structural a

def sameVals (xs ys : List Val) : Bool :=
  match xs, ys with
  | [], [] => true
  | x :: xs, y :: ys => sameDesc x y && sameVals xs ys
  | _, _ => false
termination_by structural xs
end

/-! ## The domain of the property

Where in a value a component sits decides how the comparison code gets hold of it: as an `any` (`top`), as the
target of a pointer that `derefPtr` followed (`ptr`), or as a dereferenced element of a slice / array (`elem`). -/

inductive Ctx where
  | top | ptr | elem
  deriving DecidableEq, Repr

def isGoodKey : EV → Bool
  | .prim _ _ n => !n
  | _ => false

def nodupKeys : List EV → Bool
  | [] => true
  | k :: ks => !ks.contains k && nodupKeys ks

mutual
/-- the leaves the property speaks about: primitives (no NaN), pointers to them at any depth, slices, arrays,
maps and structs of such values (functions, channels, uintptrs where the README gives them a rule and the
position allows it). Declared scalar types, typed nil pointers and NaN are outside (DESIGN §9, "not treated
as violations"). -/
def domEV (c : Ctx) (x : EV) : Bool :=
  match x with
  | .prim _ _ n => !n
  | .named _ _ => false
  | .nilptr _ => false
  | .uptr _ _ => true
  | .ptr _ e => domEV (if c == .elem then .elem else .ptr) e
  | .iface e => if c == .top then domEV .top e else false           -- an interface inside a slice or behind a pointer is outside
  | .inil => c == .top
  | .func _ _ => c != .ptr
  | .chan _ _ => c == .top
  | .seq _ _ _ xs => domList xs
  | .map _ ks vs => ks.length == vs.length && nodupKeys ks && ks.all isGoodKey && domVals vs
  | .struct _ fs vs => fs.length == vs.length && domFields fs vs
termination_by structural x

def domList (xs : List EV) : Bool :=
  match xs with
  | [] => true
  | x :: xs => domEV .elem x && domList xs
termination_by structural xs

def domVals (vs : List EV) : Bool :=
  match vs with
  | [] => true
  | v :: vs => domEV .top v && domVals vs
termination_by structural vs

/-- exported field values are in the domain; private ones are unconstrained (they are not compared) -/
def domFields (fs : List Fld) (vs : List EV) : Bool :=
  match fs, vs with
  | f :: fs, v :: vs => (!f.exported || domEV .top v) && domFields fs vs
  | _, _ => true
termination_by structural vs
end

mutual
/-- trees the property speaks about: initialised stacks and conditions in default mode (no equality policy),
any derivative form, any operator (or none), leaves in `domEV` -/
def inDomain (a : Val) : Bool :=
  match a with
  | .nil => true
  | .leaf l => domEV .top l.toEV
  | .stk _ c xs => c.eqf.isNone && [Gen.kind_and, Gen.kind_or, Gen.kind_not, Gen.kind_list, Gen.kind_basic].contains c.kind && inDomainL xs
  | .cnd _ c _ _ ex => c.eqf.isNone && c.kind == Gen.kind_cond && inDomain ex
  | .zstk _ => false
  | .zcnd _ => false
  | .anys _ => false
  | .opv _ => false
termination_by structural a

def inDomainL (xs : List Val) : Bool :=
  match xs with
  | [] => true
  | x :: xs => inDomain x && inDomainL xs
termination_by structural xs
end

/-- two lists of handles built from the same descriptions, position by position -/
def sameDescL : List Val → List Val → Bool
  | [], [] => true
  | a :: as, b :: bs => sameDesc a b && sameDescL as bs
  | _, _ => false

end EqSpec
end Stackage
