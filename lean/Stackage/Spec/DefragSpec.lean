import Stackage.Model.Defrag

/-!
# What C19 says: Defrag removes every nil element, recursively, and nothing else

`compact` is the specification: filter out the nil elements of the stack, do the same in every
nested Stack (a direct element in any alias form, or the expression of a Condition that is a
direct element), report no error. A read-only stack is left alone (C09), with everything below it.

`DefragOK` is the closed-form, decidable description of the inputs on which the *code* (as
modelled in `Model/Defrag.lean`) achieves that for a single stack; its complement is the
known-finding class `C19.NotDefragOK` (`Props/C19.lean`: `C19_partial_exact`).
-/

namespace Stackage
namespace DefragSpec

def nonNil (v : Val) : Bool := !v.isNil

def roCfg (c : Cfg) : Bool := c.kind != 0 && Gen.cfgFlag_positive c.opt Gen.flag_ronly

mutual
/-- the compacted form of one element -/
def compactV : Val → Val
  | .stk f c xs => if roCfg c then .stk f c xs else .stk f { c with err := none } (compactL xs)
  | .cnd f c kw op (.stk f2 c2 xs2) =>
      if roCfg c2 then .cnd f c kw op (.stk f2 c2 xs2)
      else .cnd f c kw op (.stk f2 { c2 with err := none } (compactL xs2))
  | v => v
/-- drop the nil elements, compact the others -/
def compactL : List Val → List Val
  | [] => []
  | v :: r => if v.isNil then compactL r else compactV v :: compactL r
end

/-- the specification of `Stack.Defrag` on an initialised stack -/
def compact (s : Stk) : Stk :=
  if s.readOnly then s else { cfg := { s.cfg with err := none }, xs := compactL s.xs }

/-- one level only: `filter (· ≠ nil)` -/
def compact1 (xs : List Val) : List Val := xs.filter nonNil

/-! ## Pattern quantities used by the characterisation -/

/-- number of nil elements -/
def nilCount (xs : List Val) : Nat := xs.countP Val.isNil

/-- position of the first nil element (= length when there is none) -/
def firstNil : List Val → Nat
  | [] => 0
  | v :: r => if v.isNil then 0 else firstNil r + 1

/-- position of the last non-nil element -/
def lastNonNil : List Val → Option Nat
  | [] => none
  | v :: r => match lastNonNil r with
    | some k => some (k + 1)
    | none => if v.isNil then none else some 0

/-- longest run of consecutive nil elements (`cur` = length of the run ending here) -/
def maxNilRunAux : List Val → Nat → Nat
  | [], cur => cur
  | v :: r, cur => if v.isNil then maxNilRunAux r (cur + 1) else Nat.max cur (maxNilRunAux r 0)
def maxNilRun (xs : List Val) : Nat := maxNilRunAux xs 0

/-- the property's hypothesis: every run of consecutive nil elements is shorter than the scan limit -/
def RunsShorter (max : Int) (xs : List Val) : Prop := (maxNilRun xs : Int) < max

/-- **The exact success class of the code, for one stack.** `fwd` = forward-index option set,
`max` = scan limit. With `L` the length, `N` the number of nils, `k` the position of the last
non-nil element and `t = L-1-k` the number of trailing nils, the code produces `filter (· ≠ nil)`
exactly when there is no nil at all, or
* the first gap lies below the scan limit (otherwise nothing is done: K-C19-2),
* not (forward indices ∧ last element non-nil) (otherwise `Err` is set and nothing is cut: K-C19-3),
* fewer than `max` nils lie before the last non-nil element (the limit counts *all* nils passed
  so far, not a run: otherwise the elements behind stay where they are),
* `N = 2·t + 5` (the truncation point `last = 2·k − 3 − L` equals `L − N` only then: K-C19-1). -/
def DefragOK (fwd : Bool) (max : Int) (xs : List Val) : Bool :=
  !xs.any Val.isNil ||
  match lastNonNil xs with
  | none => false
  | some k =>
    let L := xs.length
    let N := nilCount xs
    let t := L - 1 - k
    decide ((firstNil xs : Int) < max) && !(fwd && t == 0) && decide (((N - t : Nat) : Int) < max) && N == 2 * t + 5

/-- K-C19-2: there is a nil, and the first one sits at or beyond the scan limit -/
def GapAtLimit (max : Int) (xs : List Val) : Bool := xs.any Val.isNil && decide (max ≤ (firstNil xs : Int))

/-- K-C19-3: forward indices set, a gap below the limit, last element non-nil -/
def FwdIdxFail (fwd : Bool) (max : Int) (xs : List Val) : Bool :=
  fwd && xs.any Val.isNil && decide ((firstNil xs : Int) < max) && (match xs.getLast? with | some v => !v.isNil | none => false)

/-- K-C19-5: every run of nils is shorter than the limit and the first gap is below it (the
property's own hypothesis), yet `max` or more nils lie before the last value: the loop gives up -/
def LimitCountsAll (max : Int) (xs : List Val) : Bool :=
  xs.any Val.isNil && decide ((firstNil xs : Int) < max) && decide ((maxNilRun xs : Int) < max) &&
  match lastNonNil xs with
  | none => false
  | some k => decide (max ≤ ((nilCount xs - (xs.length - 1 - k) : Nat) : Int))

/-- does `compact` change anything below this value? (a nil somewhere in a writable stack) -/
def needsWork : Nat → Val → Bool
  | 0, _ => false
  | fuel + 1, .stk _ c xs => !roCfg c && (xs.any Val.isNil || xs.any (needsWork fuel))
  | fuel + 1, .cnd _ _ _ _ ex => needsWork fuel ex
  | _, _ => false

/-- tags of the known-finding classes the tree under `s` falls into (collected over every stack the
specification would compact). `C19.NotDefragOK` is present iff any of them is. -/
def classTags : (fuel : Nat) → (max : Int) → Stk → List String
  | 0, _, _ => []
  | fuel + 1, max, s =>
    if s.readOnly then [] else
    let fwd := s.flag Gen.flag_fwdidx
    let own : List String :=
      (if DefragOK fwd max s.xs then [] else ["C19.NotDefragOK"]) ++
      (if GapAtLimit max s.xs then ["C19.GapAtLimit"] else []) ++
      (if FwdIdxFail fwd max s.xs then ["C19.FwdIdx"] else []) ++
      (if LimitCountsAll max s.xs then ["C19.LimitCountsAll"] else [])
    -- the recursion is gated by IsNesting: a stack whose only nested stacks sit inside Conditions is not descended into
    let gate : List String :=
      if !(s.xs.any Stk.countsAsNested) && s.xs.any (fun v => match v with | .cnd _ _ _ _ ex => needsWork fuel ex | _ => false)
      then ["C19.NotDefragOK", "C19.CondOnly"] else []
    let sub : List String := s.xs.foldl (fun acc v => match v with
      | .stk _ c xs => acc ++ classTags fuel max { cfg := c, xs := xs }
      | .cnd _ _ _ _ (.stk _ c xs) => acc ++ classTags fuel max { cfg := c, xs := xs }
      | _ => acc) []
    own ++ gate ++ sub

end DefragSpec
end Stackage
