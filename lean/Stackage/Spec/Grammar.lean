import Stackage.Model.Render

/-!
# C02 — the canonical rendering grammar

`canon` says what `String()` is, compositionally, without the pad / triple-pad / re-pad
plumbing of the code: items joined by **one** separator, wrapped in parentheses iff
parenthetical, blank runs condensed per level.
-/

namespace Stackage
namespace Grammar

/-- the separator between two items -/
def sep (c : Cfg) : Text :=
  if c.kind == Gen.kind_list then
    (if !c.ljc.isEmpty then c.ljc else if c.nspad then [] else [' '])
  else if !c.sym.isEmpty then
    (if c.nspad then c.sym else [' '] ++ c.sym ++ [' '])
  else [' '] ++ c.kindText ++ [' ']                -- a word operator always stands between blanks

/-- lead-once: the operator once, as a prefix (a LIST has none) -/
def lead (c : Cfg) : Text :=
  if c.kind == Gen.kind_list then []
  else if !c.sym.isEmpty then c.sym
  else if c.nspad then c.kindText else [' '] ++ c.kindText ++ [' ']

/-- `P x` -/
def P (c : Cfg) (x : Text) : Text :=
  if c.paren && c.kind != Gen.kind_basic then
    (if c.nspad then ['('] ++ x ++ [')'] else ['(', ' '] ++ x ++ [' ', ')'])
  else x

/-- one level of the grammar, given the (non-empty) item renderings -/
def level (c : Cfg) (items : List Text) : Text :=
  condense (P c (if c.lonce then (if items.isEmpty then [] else lead c) ++ items.foldr (· ++ ·) []
                 else joinText (sep c) items))

mutual
/-- what one element contributes to its parent `pc` (empty = nothing, no dangling operator) -/
def item (K : Closures) (pc : Cfg) : Val → Text
  | .stk _ c xs =>
    let s : Text := if c.canString K then
        (match c.rpf with
         | some p => K.present p
         | none => level c (items K c xs))
      else []
    -- a nested NOT stack using a word operator is prefixed by that word, in its own case
    if c.kind == Gen.kind_not && c.sym.isEmpty && !s.isEmpty then c.kindText ++ [' '] ++ s else s
  | .cnd _ c kw op ex => if condValid K c kw op ex then condAssemble K c kw op (exprText K ex) else []
  | .leaf l =>
    match l.text with
    | some t => padValue (!pc.nspad) (pc.encapv t)
    | none => unknownText
  | .zstk _ | .zcnd _ => []      -- a zero-valued Stack / Condition (any form) contributes nothing (repair F38)
  | _ => unknownText

def items (K : Closures) (pc : Cfg) : List Val → List Text
  | [] => []
  | x :: rest =>
    let v := item K pc x
    if v.isEmpty then items K pc rest else v :: items K pc rest

def exprText (K : Closures) : Val → Text
  | .stk _ c xs =>
    if c.canString K then
      (match c.rpf with
       | some p => K.present p
       | none => level c (items K c xs))
    else []
  | .cnd _ c kw op ex => if condValid K c kw op ex then condAssemble K c kw op (exprText K ex) else []
  | .leaf l =>
    match l.text with
    | some t => t
    | none => unsupportedText
  | _ => unsupportedText
end

/-- the canonical rendering of an initialised stack -/
def canon (K : Closures) (s : Stk) : Text :=
  if s.cfg.canString K then
    (match s.cfg.rpf with
     | some p => K.present p
     | none => level s.cfg (items K s.cfg s.xs))
  else []

end Grammar
end Stackage
