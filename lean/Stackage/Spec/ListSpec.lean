import Stackage.Model.Ops

/-!
# The ordered-list specification (C01, C03, C08, C13, C15)

Written over plain `List Val`, without slot 0, without raw indices, without
wrap-around: this is what the properties say, not how the code does it.
-/

namespace Stackage
namespace ListSpec

/-- which position (0-based) an index addresses in a list of length `n` -/
def pos (n : Nat) (neg fwd : Bool) (i : Int) : Option Nat :=
  if 0 ≤ i ∧ i < n then some i.toNat
  else if i < 0 ∧ neg = true ∧ -(n : Int) ≤ i then some ((n : Int) + i).toNat
  else if i ≥ n ∧ fwd = true ∧ n > 0 then some (n - 1)
  else none

/-- `Index`: the addressed element; success iff it is non-nil -/
def index (l : List Val) (neg fwd : Bool) (i : Int) : Val × Bool :=
  match pos l.length neg fwd i with
  | none => (.nil, false)
  | some p => let v := l.getD p .nil; (v, !v.isNil)

/-- first non-nil element -/
def firstNonNil : List Val → Val × Bool
  | [] => (.nil, false)
  | v :: rest => if v.isNil then firstNonNil rest else (v, true)

structure Opts where
  fifo : Bool
  neg : Bool
  fwd : Bool
  ronly : Bool
  nnest : Bool
  room : Option Nat      -- free slots; none = no capacity

def takeRoom (room : Option Nat) (vs : List Val) : List Val :=
  match room with
  | none => vs
  | some r => vs.take r

/-- Insert clamps the position to the two ends -/
def ins (l : List Val) (x : Val) (i : Int) : List Val :=
  if i ≤ 0 then x :: l
  else if i ≥ l.length then l ++ [x]
  else l.take i.toNat ++ x :: l.drop i.toNat

def inRange (l : List Val) (i : Int) : Bool := decide (0 ≤ i) && decide (i < l.length)

def swapAt (l : List Val) (p q : Nat) : List Val :=
  (l.set p (l.getD q .nil)).set q (l.getD p .nil)

def apply (o : Opts) (l : List Val) : ListOp → List Val × Out
  | .push vs =>
      if o.ronly then (l, {})
      else (l ++ takeRoom o.room (vs.filter (fun v => !(o.nnest && v.isStack))), {})
  | .pop =>
      if o.ronly then (l, {}) else
      match l with
      | [] => (l, {})
      | x :: rest =>
        if o.fifo then (rest, { val := x, ok := !x.isNil })
        else
          let v := (x :: rest).getLast (by simp)
          ((x :: rest).dropLast, { val := v, ok := !v.isNil })
  | .insert x i =>
      if x.isNil || o.ronly || o.room == some 0 then (l, {})
      else (ins l x i, { ok := true })
  | .remove i =>
      if o.ronly then (l, {}) else
      match pos l.length o.neg o.fwd i with
      | none => (l, {})
      | some p =>
        let v := l.getD p .nil
        if v.isNil then (l, {}) else (l.eraseIdx p, { val := v, ok := true })
  | .replace x i =>
      if x.isNil || o.ronly || !inRange l i then (l, {})
      else (l.set i.toNat x, { ok := true })
  | .swap i j =>
      (if o.ronly || !inRange l i || !inRange l j then l else swapAt l i.toNat j.toNat, {})
  | .reverse => (if o.ronly then l else l.reverse, {})
  | .reset => (if o.ronly then l else [], {})

/-- `Front`: the element Pop would deliver next... in LIFO mode the newest, in FIFO mode the oldest; nil slots skipped -/
def front (fifo : Bool) (l : List Val) : Val × Bool :=
  if fifo then firstNonNil l else firstNonNil l.reverse

def back (fifo : Bool) (l : List Val) : Val × Bool :=
  if fifo then firstNonNil l.reverse else firstNonNil l

/-- specification of a push batch under a policy: consult the policy on each value in order
while room remains; append approved values; stop at the first rejection and report it -/
def pushPol (pol : Val → Option Nat) : Option Nat → List Val → List Val × Option Nat
  | _, [] => ([], none)
  | room, x :: rest =>
    if room == some 0 then ([], none)            -- full: nothing more is consulted or stored
    else match pol x with
      | some e => ([], some e)
      | none =>
        let r := pushPol pol (room.map (· - 1)) rest
        (x :: r.1, r.2)

/-- the part of the configuration that matters to content operations; none of them changes it -/
structure Conf where
  fifo : Bool
  neg : Bool
  fwd : Bool
  ronly : Bool
  nnest : Bool
  cap : Option Nat      -- the capacity the stack was created with

def Conf.opts (c : Conf) (l : List Val) : Opts :=
  { fifo := c.fifo, neg := c.neg, fwd := c.fwd, ronly := c.ronly, nnest := c.nnest,
    room := c.cap.map (· - l.length) }

/-- a whole history on the specification side -/
def run (c : Conf) (l : List Val) : List ListOp → List Val × List Out
  | [] => (l, [])
  | op :: rest =>
    let (l', o) := apply (c.opts l) l op
    let (l'', os) := run c l' rest
    (l'', o :: os)

end ListSpec

namespace Stk
def conf (s : Stk) : ListSpec.Conf :=
  { fifo := s.cfg.fifo, neg := s.flag Gen.flag_negidx, fwd := s.flag Gen.flag_fwdidx,
    ronly := s.readOnly, nnest := s.flag Gen.flag_nnest,
    cap := if s.cfg.cap = 0 then none else some (s.cfg.cap - 1).toNat }

/-- the specification's view of a stack's options -/
def opts (s : Stk) : ListSpec.Opts :=
  { fifo := s.cfg.fifo, neg := s.flag Gen.flag_negidx, fwd := s.flag Gen.flag_fwdidx,
    ronly := s.readOnly, nnest := s.flag Gen.flag_nnest,
    room := if s.cfg.cap = 0 then none else some (s.cfg.cap - s.rawLen).toNat }
end Stk
end Stackage
