import Stackage.Model.Options

/-!
# C18 specification: options as independent switches

The state is a plain record: one Boolean per option, one Boolean per log level, and the string-valued
settings. Nothing here mentions a bit-field, a mask or the regenerated constants; the argument data
types (`StrArg`, `EncArg`, `LogLevel.Arg`) are shared with the model because they are only data.
-/

namespace Stackage
namespace OptSpec

/-- the eight options with a public tri-state setter -/
inductive Opt where
  | paren | fold | nopad | lonce | neg | fwd | nnest | ronly
  deriving DecidableEq, Repr, Inhabited

def Opt.all : List Opt := [.paren, .fold, .nopad, .lonce, .neg, .fwd, .nnest, .ronly]

structure St where
  paren : Bool := false
  fold : Bool := false
  nopad : Bool := false
  lonce : Bool := false
  neg : Bool := false
  fwd : Bool := false
  nnest : Bool := false
  ronly : Bool := false
  fifo : Bool := false
  isList : Bool := false          -- a LIST stack (the only kind that keeps a delimiter, and the only one that ignores symbols)
  sym : Text := []
  delim : Text := []
  enc : List (List Text) := []
  id : Text := []
  cat : Text := []
  aux : Option Nat := none
  lvl : List Bool := List.replicate 16 false   -- the 16 log levels, CALLS first
  deriving DecidableEq, Repr, Inhabited

def St.get (s : St) : Opt → Bool
  | .paren => s.paren | .fold => s.fold | .nopad => s.nopad | .lonce => s.lonce
  | .neg => s.neg | .fwd => s.fwd | .nnest => s.nnest | .ronly => s.ronly

def St.put (s : St) (o : Opt) (b : Bool) : St :=
  match o with
  | .paren => { s with paren := b } | .fold => { s with fold := b } | .nopad => { s with nopad := b }
  | .lonce => { s with lonce := b } | .neg => { s with neg := b } | .fwd => { s with fwd := b }
  | .nnest => { s with nnest := b } | .ronly => { s with ronly := b }

inductive Call where
  | state (o : Opt) (st : Option Bool)
  | fifo (b : Bool)
  | id (s : Text) (gen : Text)
  | cat (s : Text)
  | delim (x : Cfg.StrArg)
  | sym (xs : List Cfg.StrArg)
  | enc (xs : List Cfg.EncArg)
  | aux (a : Option (Option Nat))
  | lvlSet (xs : List LogLevel.Arg)
  | lvlUnset (xs : List LogLevel.Arg)
  deriving Repr, Inhabited

/-! ### strings -/

def strOf : Cfg.StrArg → Text
  | .str s => s
  | .rune r => Cfg.runeStr r
  | _ => []

/-- delimiter argument: a string, or a rune other than NUL; anything else unsets -/
def delimOf : Cfg.StrArg → Text
  | .str s => s
  | .rune r => if r = 0 then [] else Cfg.runeStr r
  | .nil => []
  | .other => []

/-- a new group is refused when one of its (first two) strings already occurs in a stored group -/
def clashes (enc : List (List Text)) (x : List Text) : Bool :=
  (x.take 2).any (fun s => enc.any (fun g => g.contains s))

def addGroup (enc : List (List Text)) (x : List Text) : List (List Text) :=
  if x.isEmpty || clashes enc x then enc else enc ++ [x]

def encArg (enc : List (List Text)) : Cfg.EncArg → List (List Text)
  | .str s => addGroup enc [s]
  | .slice xs => addGroup enc xs
  | .other => enc

/-! ### log levels -/

def levelNames : List Text :=
  ["CALLS", "POLICY", "STATE", "DEBUG", "ERROR", "TRACE", "USER1", "USER2", "USER3", "USER4", "USER5", "USER6", "USER7", "USER8",
   "USER9", "USER10"].map String.toList

def noLevels : List Bool := List.replicate 16 false
def allLevels : List Bool := List.replicate 16 true

/-- level number `i` alone -/
def only (i : Nat) : List Bool := (List.range 16).map (· == i)

/-- what each level name stands for -/
def levelTable : List (Text × List Bool) :=
  ("NONE".toList, noLevels) :: ("ALL".toList, allLevels) :: (levelNames.zip (List.range 16)).map (fun p => (p.1, only p.2))

/-- the 16 switches a number denotes -/
def bitsOf (n : Nat) : List Bool := (List.range 16).map (fun i => n / 2 ^ i % 2 == 1)

/-- which switches an argument names; `none` = not a level at all (unknown name or foreign type). Names are
matched without regard to case (`LogLevel.uc`). -/
def levelsOf : LogLevel.Arg → Option (List Bool)
  | .name s => levelTable.lookup (LogLevel.uc s)
  | .const l => some (bitsOf l)
  | .raw i => some (bitsOf (i % 65536).toNat)
  | .other => none

/-- switch on what is named; "none" switches everything off and "all" everything on, and both end the call.
An argument that is no level at all is treated by the library like "none" (observed behaviour, not part of
the property's statement; the generator produces it rarely). -/
def setLevels (lv : List Bool) : List LogLevel.Arg → List Bool
  | [] => lv
  | a :: rest =>
    match levelsOf a with
    | none => noLevels
    | some bs =>
      if bs == noLevels then noLevels
      else if bs == allLevels then allLevels
      else setLevels (List.zipWith (· || ·) lv bs) rest

/-- switch off exactly what is named; "none" (and a non-level) is skipped; "all" ends the call without
clearing anything (the library's behaviour, contrary to its own comment; see DESIGN §9 observations) -/
def unsetLevels (lv : List Bool) : List LogLevel.Arg → List Bool
  | [] => lv
  | a :: rest =>
    match levelsOf a with
    | none => unsetLevels lv rest
    | some bs =>
      if bs == noLevels then unsetLevels lv rest
      else if bs == allLevels then lv
      else unsetLevels (List.zipWith (fun b x => b && !x) lv bs) rest

def levelString (lv : List Bool) : Text :=
  if lv == allLevels then "ALL".toList
  else if lv == noLevels then "NONE".toList
  else LogLevel.join [','] ((lv.zip levelNames).filterMap (fun p => if p.1 then some p.2 else none))

/-! ### one call -/

/-- a read-only instance ignores every call except a request for the read-only option itself -/
def unlessRO (s t : St) : St := if s.ronly then s else t

def step (s : St) : Call → St
  | .state o st => if s.ronly && o != .ronly then s else s.put o (st.getD (!s.get o))
  | .fifo b => unlessRO s (if s.fifo then s else { s with fifo := b })
  | .id x gen => unlessRO s { s with id := if Cfg.isMagicID x then gen else x }
  | .cat x => unlessRO s { s with cat := x }
  | .delim x => unlessRO s (if s.isList then { s with delim := delimOf x } else s)
  | .sym xs => unlessRO s (if s.isList then s else { s with sym := (xs.map strOf).foldr (· ++ ·) [] })
  | .enc xs => unlessRO s (if xs.isEmpty then { s with enc := [] } else { s with enc := xs.foldl encArg s.enc })
  | .aux (some (some i)) => unlessRO s { s with aux := some i }
  | .aux _ => unlessRO s { s with aux := some 0 }
  | .lvlSet xs => unlessRO s { s with lvl := setLevels s.lvl xs }
  | .lvlUnset xs => unlessRO s { s with lvl := unsetLevels s.lvl xs }

def run (s : St) (cs : List Call) : St := cs.foldl step s

/-- the last explicit request for one option, interpreting toggles: what a sequence of requests for
that option alone leaves behind -/
def replay (b : Bool) : List (Option Bool) → Bool
  | [] => b
  | st :: rest => replay (st.getD (!b)) rest

end OptSpec
end Stackage
