import Stackage.Model.Cond
import Stackage.Spec.Grammar

/-!
# C06 — Condition specification: a record of plain fields and Booleans (no bit-field), the
acceptance rules and the Valid / String formulas exactly as the property states them.
-/

namespace Stackage
namespace CondSpec

structure St where
  kw : Text := []
  op : Op := .none
  ex : Val := .nil
  ro : Bool := false
  nnest : Bool := false
  nopad : Bool := false
  paren : Bool := false
  enc : List (List Text) := []
  err : Bool := false
  vpf : Option Nat := none
  rpf : Option Nat := none

def opOk (o : Op) : Bool :=
  match o with
  | .none => false
  | .cmp _ => true            -- built-in operators always have text and context
  | .user _ s c => s != [] && c != []

def exOk (s : St) (v : Val) : Bool :=
  !s.err &&
  (match v with
   | .nil => false
   | .leaf (.str t) => t != []
   | .stk _ _ _ => !s.nnest
   | _ => true)

def valid (K : Closures) (s : St) : Bool :=
  match s.vpf with
  | some p => (K.valid p).isNone
  | none =>
    s.kw != [] &&
    (match s.op with
     | .none => false
     | .cmp code => decide (1 ≤ code ∧ code ≤ 6)
     | .user _ _ _ => true) &&
    (match s.ex with | .nil => false | _ => true)

def string (K : Closures) (s : St) : Text :=
  if valid K s then
    match s.rpf with
    | some p => K.present p
    | none =>
      let sp : Text := if s.nopad then [] else [' ']
      let body := s.kw ++ sp ++ s.op.text ++ sp ++ encapValue s.enc (Grammar.exprText K s.ex)
      if s.paren then ['('] ++ sp ++ body ++ sp ++ [')'] else body
  else []

def step (K : Closures) (s : St) : CondOp → St
  | .setKeyword v => if s.ro then s else (match Cnd.kwOf v with | some t => { s with kw := t } | none => s)
  | .setOperator o => if s.ro then s else if opOk o then { s with op := o } else s
  | .setExpression v => if s.ro then s else if exOk s v then { s with ex := v } else s
  | .init => {}
  | .setState f st =>
      let tri (cur : Bool) : Bool := match st with | some b => b | none => !cur
      if f == Gen.flag_ronly then { s with ro := tri s.ro }
      else if s.ro then s
      else if f == Gen.flag_nnest then { s with nnest := tri s.nnest }
      else if f == Gen.flag_nspad then { s with nopad := tri s.nopad }
      else if f == Gen.flag_parens then { s with paren := tri s.paren }
      else s
  | .setEncapOne a => if s.ro then s else if s.enc.all (fun p => !p.contains a) then { s with enc := s.enc ++ [[a]] } else s
  | .setEncapPair a b => if s.ro then s else if s.enc.all (fun p => !p.contains a && !p.contains b) then { s with enc := s.enc ++ [[a, b]] } else s
  | .setEncapNone => if s.ro then s else { s with enc := [] }
  | .setErr e => { s with err := e.isSome }

/-- `Cond(kw, op, ex)` -/
def cond (K : Closures) (kw : Val) (o : Op) (ex : Val) : St :=
  let s := step K (step K (step K {} (.setKeyword kw)) (.setOperator o)) (.setExpression ex)
  { s with err := !valid K s }

end CondSpec
end Stackage
